//go:build verif

package log

import (
	"encoding/json"
	"fmt"
	"io/ioutil"
	"math/rand"
	"os"
	"path/filepath"
	"strconv"
	"strings"
)

// vh log ops <seed> <sequences> <opsPerSeq> <outdir>
//
// Runs generated operation sequences on the real Log in a scratch directory
// and prints every step as a Gallina case (coq/SegLog/Cases.v): the
// implementation's own pre-state, the operation, its outcome, the post-state.
func init() { verifCmds["ops"] = opsMain }

func coqBytes(b []byte) string {
	// generated payloads are a, a+1, ... : print them compactly when they still are
	if len(b) >= 4 {
		ok := true
		for i := range b {
			if b[i] != byte(int(b[0])+i) {
				ok = false
				break
			}
		}
		if ok {
			return fmt.Sprintf("(pat %d %d)", b[0], len(b))
		}
	}
	var sb strings.Builder
	sb.WriteByte('[')
	for i, c := range b {
		if i > 0 {
			sb.WriteByte(';')
		}
		fmt.Fprintf(&sb, "%d", c)
	}
	sb.WriteByte(']')
	return sb.String()
}

func coqBufs(bs [][]byte) string {
	var parts []string
	for _, b := range bs {
		parts = append(parts, coqBytes(b))
	}
	return "[" + strings.Join(parts, ";") + "]"
}

// dumpLog prints the real Log as a model [log] literal.
func dumpLog(l *Log) string {
	var segs []string
	for s := l.first; s != nil; s = s.next {
		var ents []string
		for k := 1; k <= s.n; k++ {
			from, to := s.offset(k), s.offset(k+1)
			ents = append(ents, coqBytes(s.file.Data[from:to]))
		}
		synced := fmt.Sprintf("%d", s.synced)
		if s.synced < 0 {
			synced = fmt.Sprintf("(%d)", s.synced)
		}
		segs = append(segs, fmt.Sprintf("(mkSeg %d %d [%s] %s%%Z)", s.prevIndex, len(s.file.Data), strings.Join(ents, ";"), synced))
		if s == l.last {
			break
		}
	}
	return fmt.Sprintf("(mkLog %d [%s])", l.opt.SegmentSize, strings.Join(segs, ";"))
}

type opsGen struct {
	rnd    *rand.Rand
	cases  []string
	desc   map[string]string
	dist   map[string]int
	nextID int
	fill   int
	states map[string]bool
}

func (g *opsGen) id(d string) int {
	g.nextID++
	g.desc[strconv.Itoa(g.nextID)] = d
	return g.nextID
}

func (g *opsGen) payload(segsize int) []byte {
	var n int
	switch g.rnd.Intn(10) {
	case 0:
		n = 0
	case 1:
		n = segsize - 24 - g.rnd.Intn(3) // exactly fits an empty segment, or just under
	case 2:
		n = segsize - 24 + 1 + g.rnd.Intn(40) // beyond an empty segment
	case 3:
		n = segsize + g.rnd.Intn(200) // beyond the segment size
	case 4:
		n = segsize/2 - 20 + g.rnd.Intn(40)
	default:
		n = g.rnd.Intn(segsize / 4)
	}
	if n < 0 {
		n = 0
	}
	g.fill = (g.fill + 37) % 251
	b := make([]byte, n)
	for i := range b {
		b[i] = byte(g.fill + i)
	}
	return b
}

// index near something interesting
func (g *opsGen) index(l *Log) uint64 {
	prev, last := l.PrevIndex(), l.LastIndex()
	var cand []uint64
	cand = append(cand, prev, prev+1, last, last+1, last+2, 0, 1)
	if prev > 0 {
		cand = append(cand, prev-1)
	}
	for s := l.first; s != nil; s = s.next {
		cand = append(cand, s.prevIndex, s.prevIndex+1, s.lastIndex())
	}
	if g.rnd.Intn(3) == 0 && last > prev {
		return prev + 1 + uint64(g.rnd.Intn(int(last-prev)))
	}
	return cand[g.rnd.Intn(len(cand))]
}

func safely(f func()) (panicked bool) {
	defer func() {
		if recover() != nil {
			panicked = true
		}
	}()
	f()
	return false
}

func (g *opsGen) read(l *Log, pre string, isView bool, viewHdr string) {
	var rd, obs string
	i := g.index(l)
	kind := g.rnd.Intn(8)
	if isView && kind >= 6 {
		kind = g.rnd.Intn(6)
	}
	if isView {
		// stay inside the view's bounds most of the time
		p, q := l.PrevIndex(), l.LastIndex()
		if q > p && g.rnd.Intn(5) != 0 {
			i = p + 1 + uint64(g.rnd.Intn(int(q-p)))
		}
	}
	switch kind {
	case 0:
		rd = fmt.Sprintf("(RGet %d)", i)
		var b []byte
		var err error
		if safely(func() { b, err = l.Get(i) }) {
			obs = "OPanic"
		} else if err == ErrNotFound {
			obs = "ONotFound"
		} else if err != nil {
			obs = "OPanic"
		} else {
			obs = "(OBytes " + coqBytes(b) + ")"
		}
	case 1:
		last := l.LastIndex()
		var n uint64
		switch g.rnd.Intn(6) {
		case 0:
			n = 0
		case 1:
			n = 1
		case 2:
			if last >= i {
				n = last - i + 1
			}
		case 3:
			if last >= i {
				n = last - i + 2 // one too many
			}
		default:
			if last >= i {
				n = 1 + uint64(g.rnd.Intn(int(last-i+1)))
			} else {
				n = 1
			}
		}
		rd = fmt.Sprintf("(RGetN %d %d)", i, n)
		var bs [][]byte
		var err error
		if safely(func() { bs, err = l.GetN(i, n) }) {
			obs = "OPanic"
		} else if err == ErrNotFound {
			obs = "ONotFound"
		} else if err != nil {
			obs = "OPanic"
		} else {
			obs = "(OBufs " + coqBufs(bs) + ")"
		}
	case 2:
		rd, obs = "RPrev", fmt.Sprintf("(ON %d)", l.PrevIndex())
	case 3:
		rd, obs = "RLast", fmt.Sprintf("(ON %d)", l.LastIndex())
	case 4:
		rd, obs = "RCount", fmt.Sprintf("(ON %d)", l.Count())
	case 5:
		b := "false"
		if l.Contains(i) {
			b = "true"
		}
		rd, obs = fmt.Sprintf("(RContains %d)", i), "(OBool "+b+")"
	case 6:
		rd, obs = fmt.Sprintf("(RCanLTE %d)", i), fmt.Sprintf("(ON %d)", l.CanLTE(i))
	case 7:
		p, q := g.index(l), g.index(l)
		rd = fmt.Sprintf("(RViewAt %d %d)", p, q)
		var v *Log
		if safely(func() { v = l.ViewAt(p, q) }) {
			obs = "OPanic"
		} else if v == nil {
			obs = "OViewNil"
		} else {
			obs = "OViewOk"
		}
	}
	if isView {
		g.cases = append(g.cases, fmt.Sprintf("LView %d %s %s %s %s", g.id("view "+rd), viewHdr, pre, rd, obs))
		g.dist["view/"+strings.Fields(strings.Trim(rd, "()"))[0]]++
	} else {
		g.cases = append(g.cases, fmt.Sprintf("LRead %d %s %s %s", g.id("read "+rd), pre, rd, obs))
		g.dist["read/"+strings.Fields(strings.Trim(rd, "()"))[0]+"/"+strings.Fields(strings.Trim(obs, "()"))[0]]++
	}
}

func (g *opsGen) sequence(dir string, nops int) error {
	segsizes := []int{1024, 1024, 1500, 2048, 4096}
	segsize := segsizes[g.rnd.Intn(len(segsizes))]
	opt := Options{FileMode: 0600, SegmentSize: segsize}
	l, err := Open(dir, 0700, opt)
	if err != nil {
		return err
	}
	defer func() {
		if l != nil {
			_ = l.Close()
		}
	}()
	var view *Log
	var viewHdr string
	for k := 0; k < nops; k++ {
		pre := dumpLog(l)
		g.states[pre] = true
		var op, res string
		res = "SOk"
		c := g.rnd.Intn(100)
		switch {
		case c < 45:
			b := g.payload(l.opt.SegmentSize)
			op = "(OAppend " + coqBytes(b) + ")"
			var err error
			if safely(func() { err = l.Append(b) }) {
				res = "SPanic"
			} else if err == ErrExceedsSegmentSize {
				res = "SExceeds"
			} else if err != nil {
				return err
			}
		case c < 52:
			op = "OCommit"
			if err := l.Commit(); err != nil {
				return err
			}
		case c < 57:
			n := g.index(l)
			op = fmt.Sprintf("(OCommitN %d)", n)
			if err := l.CommitN(n); err != nil {
				return err
			}
		case c < 65:
			i := g.index(l)
			op = fmt.Sprintf("(ORemoveLTE %d)", i)
			view = nil
			if err := l.RemoveLTE(i); err != nil {
				return err
			}
		case c < 73:
			i := g.index(l)
			op = fmt.Sprintf("(ORemoveGTE %d)", i)
			view = nil
			if err := l.RemoveGTE(i); err != nil {
				return err
			}
		case c < 75:
			i := g.index(l)
			op = fmt.Sprintf("(OReset %d)", i)
			view = nil
			if err := l.Reset(i); err != nil {
				return err
			}
		case c < 79:
			view = nil
			if err := l.Close(); err != nil {
				return err
			}
			opt.SegmentSize = segsizes[g.rnd.Intn(len(segsizes))]
			op = fmt.Sprintf("(OReopen %d)", opt.SegmentSize)
			l2, err := Open(dir, 0700, opt)
			if err != nil {
				l = nil
				return fmt.Errorf("reopen: %v", err)
			}
			l = l2
		case c < 88 && view == nil:
			// create a view to be read while appends go on
			prev, last := l.PrevIndex(), l.LastIndex()
			p, q := prev, last
			if last > prev {
				p = prev + uint64(g.rnd.Intn(int(last-prev)+1))
				q = p + uint64(g.rnd.Intn(int(last-p)+1))
			}
			if v := l.ViewAt(p, q); v != nil {
				view, viewHdr = v, fmt.Sprintf("%s %d %d", pre, p, q)
			}
			continue
		default:
			if view != nil && g.rnd.Intn(4) != 0 {
				g.read(view, pre, true, viewHdr)
			} else {
				g.read(l, pre, false, "")
			}
			continue
		}
		post := dumpLog(l)
		g.cases = append(g.cases, fmt.Sprintf("LStep %d %s %s %s %s", g.id("step "+op), pre, op, res, post))
		g.dist["step/"+strings.Fields(strings.Trim(op, "()"))[0]+"/"+res]++
		// byte level: now and then, and after every removal / reopen, the raw file of each (small) segment
		// must be an image of its entries (offset table, header, data region; coq/SegLog/Segment.v)
		if g.rnd.Intn(8) == 0 || strings.HasPrefix(op, "(ORemoveGTE") || strings.HasPrefix(op, "OReopen") || strings.HasPrefix(op, "(OReopen") {
			g.bytesCases(l, op)
		}
	}
	return nil
}

func (g *opsGen) bytesCases(l *Log, op string) {
	for s := l.first; s != nil; s = s.next {
		if len(s.file.Data) <= 6000 {
			var ents []string
			for k := 1; k <= s.n; k++ {
				from, to := s.offset(k), s.offset(k+1)
				ents = append(ents, coqBytes(s.file.Data[from:to]))
			}
			g.cases = append(g.cases, fmt.Sprintf("LBytes %d %d [%s] %d %s", g.id(fmt.Sprintf("bytes of segment %d after %s", s.prevIndex, op)),
				len(s.file.Data), strings.Join(ents, ";"), s.offset(0), coqBytes(s.file.Data)))
			g.dist["bytes"]++
		}
		if s == l.last {
			break
		}
	}
}

func opsMain(args []string) int {
	if len(args) < 4 {
		fmt.Fprintln(os.Stderr, "usage: vh log ops <seed> <sequences> <opsPerSeq> <outdir>")
		return 2
	}
	seed, _ := strconv.ParseInt(args[0], 10, 64)
	nseq, _ := strconv.Atoi(args[1])
	nops, _ := strconv.Atoi(args[2])
	out := args[3]
	g := &opsGen{rnd: rand.New(rand.NewSource(seed)), desc: map[string]string{}, dist: map[string]int{}, states: map[string]bool{}}
	var errs []string
	for s := 0; s < nseq; s++ {
		dir, err := ioutil.TempDir(out, "log")
		if err != nil {
			panic(err)
		}
		func() {
			defer func() {
				if p := recover(); p != nil {
					// the real package (or the state dump reading its structures) blew up: a finding
					errs = append(errs, fmt.Sprintf("sequence %d: panic after %d recorded steps: %v", s, len(g.cases), p))
				}
			}()
			if err := g.sequence(dir, nops); err != nil {
				errs = append(errs, fmt.Sprintf("sequence %d: %v", s, err))
			}
		}()
		os.RemoveAll(dir)
	}
	const shard = 700
	nfiles := 0
	for s := 0; s < len(g.cases); s += shard {
		e := s + shard
		if e > len(g.cases) {
			e = len(g.cases)
		}
		var sb strings.Builder
		sb.WriteString("From Coq Require Import List NArith ZArith.\nFrom Verif Require Import Base.Bytes SegLog.Log SegLog.Spec SegLog.Cases.\nImport ListNotations.\nOpen Scope N_scope.\n")
		sb.WriteString("Definition cases : list lcase := [\n")
		sb.WriteString(strings.Join(g.cases[s:e], ";\n"))
		sb.WriteString("].\nDefinition M := Eval vm_compute in mismatches cases.\nPrint M.\n")
		if err := ioutil.WriteFile(filepath.Join(out, fmt.Sprintf("cases_log_%d.v", nfiles)), []byte(sb.String()), 0644); err != nil {
			panic(err)
		}
		nfiles++
	}
	var samples []string
	for i := 0; i < len(g.cases) && len(samples) < 5; i += len(g.cases)/5 + 1 {
		c := g.cases[i]
		if len(c) > 500 {
			c = c[:500] + "..."
		}
		samples = append(samples, c)
	}
	meta := map[string]interface{}{"seed": seed, "cases": len(g.cases), "files": nfiles, "dist": g.dist, "desc": g.desc,
		"errors": errs, "samples": samples, "distinct_states": len(g.states)}
	mb, _ := json.Marshal(meta)
	if err := ioutil.WriteFile(filepath.Join(out, "log_meta.json"), mb, 0644); err != nil {
		panic(err)
	}
	return 0
}
