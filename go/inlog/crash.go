//go:build verif

package log

import (
	"bytes"
	"encoding/json"
	"fmt"
	"io/ioutil"
	"math/rand"
	"os"
	"path/filepath"
	"sort"
	"strconv"
	"strings"
)

// vh log crash <seed> <sequences> <opsPerSeq> <outdir>
//
// Runs operation sequences on the real Log; at every verifPoint of every
// operation (and at operation boundaries) copies the directory = a process-kill
// image, and builds power-loss images by mixing 4 KiB pages of the last flushed
// copy of each file with the current one.  Every image is reopened with the real
// Open; the result is (a) judged by the property's own oracle and (b) printed as
// an LCrash case to be compared with the model's recovery (coq/SegLog/Crash.v).
func init() { verifCmds["crash"] = crashMain }

type dirImage map[string][]byte

func readDir(dir string) dirImage {
	img := dirImage{}
	matches, _ := filepath.Glob(filepath.Join(dir, "*.log"))
	for _, m := range matches {
		b, err := ioutil.ReadFile(m)
		if err == nil {
			img[filepath.Base(m)] = b
		}
	}
	return img
}

func (img dirImage) clone() dirImage {
	c := dirImage{}
	for k, v := range img {
		c[k] = append([]byte{}, v...)
	}
	return c
}

func writeDir(img dirImage, dir string) {
	_ = os.MkdirAll(dir, 0700)
	for name, b := range img {
		_ = ioutil.WriteFile(filepath.Join(dir, name), b, 0600)
	}
}

// parseSeg reads a segment image: header count and the first `upto` entries by the offset table.
func parseSeg(b []byte, upto int) (hdr int, ents [][]byte) {
	if len(b) < 24 {
		return 0, nil
	}
	at := func(i int) int { return len(b) - i*8 - 8 }
	off := func(i int) int {
		if at(i) < 0 {
			return 0
		}
		return int(byteOrder.Uint64(b[at(i):]))
	}
	hdr = off(0)
	if upto < hdr {
		upto = hdr
	}
	for k := 1; k <= upto; k++ {
		from, to := off(k), off(k+1)
		if from < 0 || to < from || to > len(b) {
			break
		}
		ents = append(ents, b[from:to])
	}
	return
}

func coqFimg(b []byte, upto int) string {
	if len(b) == 0 {
		return "(mkF false 0 0 [])"
	}
	hdr, ents := parseSeg(b, upto)
	var es []string
	for _, e := range ents {
		es = append(es, coqBytes(e))
	}
	return fmt.Sprintf("(mkF true %d %d [%s])", len(b), hdr, strings.Join(es, ";"))
}

func keyOf(name string) uint64 {
	k, _ := strconv.ParseUint(strings.TrimSuffix(name, ".log"), 10, 64)
	return k
}

func coqDisk(img dirImage, counts map[uint64]int) string {
	var names []string
	for n := range img {
		names = append(names, n)
	}
	sort.Slice(names, func(i, j int) bool { return keyOf(names[i]) < keyOf(names[j]) })
	var parts []string
	for _, n := range names {
		parts = append(parts, fmt.Sprintf("(%d, %s)", keyOf(n), coqFimg(img[n], counts[keyOf(n)])))
	}
	return "[" + strings.Join(parts, ";") + "]"
}

type crashGen struct {
	rnd      *rand.Rand
	w        []string
	desc     map[string]string
	dist     map[string]int
	nextID   int
	findings []string
	fill     int
	images   int
	failOpen int
}

func (g *crashGen) payload(segsize int) []byte {
	var n int
	switch g.rnd.Intn(8) {
	case 0:
		n = 0
	case 1:
		n = segsize - 24 - g.rnd.Intn(3)
	case 2:
		n = segsize + g.rnd.Intn(100)
	case 3:
		n = segsize/2 - 20 + g.rnd.Intn(40)
	default:
		n = g.rnd.Intn(segsize / 3)
	}
	if n < 0 {
		n = 0
	}
	g.fill = (g.fill + 41) % 251
	b := make([]byte, n)
	for i := range b {
		b[i] = byte(g.fill + i)
	}
	return b
}

// reopen an image with the real Open; returns the dump or "None"
func (g *crashGen) reopen(img dirImage, scratch string, opt Options) (lit string, l *Log) {
	_ = os.RemoveAll(scratch)
	writeDir(img, scratch)
	var err error
	func() {
		defer func() {
			if p := recover(); p != nil {
				err = fmt.Errorf("panic: %v", p)
			}
		}()
		l, err = Open(scratch, 0700, opt)
	}()
	g.images++
	if err != nil {
		g.failOpen++
		return "None", nil
	}
	// every segment file left in the directory belongs to the reopened log: a stray file would be adopted, with its old
	// entries, by a later roll-over that reaches its index
	chain := map[uint64]bool{}
	for sg := l.first; sg != nil; sg = sg.next {
		chain[sg.prevIndex] = true
	}
	if files, _ := filepath.Glob(filepath.Join(scratch, "*.log")); len(g.findings) < 8 {
		for _, f := range files {
			if k := keyOf(filepath.Base(f)); !chain[k] {
				g.findings = append(g.findings, fmt.Sprintf("C14|stray-segment-file|after reopening a crash image the directory still holds %s, which is not part of the log (segments start after %v): a later roll-over at index %d would adopt its old entries", filepath.Base(f), sortedKeys(chain), k))
				break
			}
		}
	}
	return "(Some " + dumpLog(l) + ")", l
}

func sortedKeys(m map[uint64]bool) []uint64 {
	var ks []uint64
	for k := range m {
		ks = append(ks, k)
	}
	sort.Slice(ks, func(i, j int) bool { return ks[i] < ks[j] })
	return ks
}

func pageMix(dur, cur []byte, pick func(page int) bool) []byte {
	out := append([]byte{}, cur...)
	if len(dur) != len(cur) {
		return out
	}
	for p := 0; p*4096 < len(cur); p++ {
		if !pick(p) {
			lo, hi := p*4096, (p+1)*4096
			if hi > len(cur) {
				hi = len(cur)
			}
			copy(out[lo:hi], dur[lo:hi])
		}
	}
	return out
}

// crashScripts: operation sequences that every run starts with (random sequences follow).  "a" appends a
// small entry, "c" commits, "g<k>" removes the entries from prevIndex+k on, "l<k>" those up to prevIndex+k.
// They put several unflushed entries on data pages other than the header page and then cut inside them.
var crashScripts = []struct {
	segsize int
	ops     []string
}{
	{9000, []string{"a", "a", "a", "a", "a", "c", "a", "a", "a", "a", "a", "g9", "a", "c"}},
	{9000, []string{"a", "a", "c", "a", "a", "a", "g5", "g4", "a", "a", "g4", "c"}},
	{5000, []string{"a", "a", "a", "c", "a", "a", "a", "a", "g7", "c", "a", "g5"}},
	{9000, []string{"a", "a", "a", "a", "c", "l2", "a", "a", "a", "g6", "a", "c", "g3"}},
	// one entry per segment: back-removals that span several segment files
	{1024, []string{"a", "a", "a", "a", "a", "c", "g2", "a", "a", "c", "a", "a", "a", "g3", "a", "c"}},
}

func (g *crashGen) sequence(base string, nops int, script []string, scriptSeg int) {
	dir := filepath.Join(base, "live")
	scratch := filepath.Join(base, "reopen")
	_ = os.RemoveAll(dir)
	segsize := []int{1024, 1024, 5000, 9000}[g.rnd.Intn(4)]
	if script != nil {
		segsize, nops = scriptSeg, len(script)
	}
	opt := Options{FileMode: 0600, SegmentSize: segsize}
	l, err := Open(dir, 0700, opt)
	if err != nil {
		g.findings = append(g.findings, "C14|open-fails|fresh Open failed: "+err.Error())
		return
	}
	dur := readDir(dir) // what the last flush of each file made durable
	history := map[uint64][][]byte{}
	defer func() {
		VerifHook = nil
		if l != nil {
			_ = l.Close()
		}
	}()
	for k := 0; k < nops; k++ {
		// ---- state before the operation
		pre := dumpLog(l)
		counts := map[uint64]int{}
		for s := l.first; s != nil; s = s.next {
			counts[s.prevIndex] = s.n
		}
		mem0 := readDir(dir)
		cst := fmt.Sprintf("(mkC %s %s)", coqDisk(mem0, counts), coqDisk(dur, counts))
		absBefore := map[uint64][]byte{}
		for i := l.PrevIndex() + 1; i <= l.LastIndex(); i++ {
			b, _ := l.Get(i)
			absBefore[i] = append([]byte{}, b...)
		}
		flushed := VerifFlushed(l)
		prevBefore := l.PrevIndex()

		var kill, power []string
		var killImgs []dirImage
		capture := func(point string) {
			cur := readDir(dir)
			killImgs = append(killImgs, cur)
			lit, rl := g.reopen(cur, scratch, opt)
			kill = append(kill, lit)
			g.judge(rl, lit, point, "kill", history, nil, 0, 0)
			if rl != nil {
				_ = rl.Close()
			}
			// power-loss images
			var variants []func(name string, page, npages int) bool
			variants = append(variants,
				func(string, int, int) bool { return false },              // nothing after the last flush reached the disk
				func(_ string, p, n int) bool { return p == n-1 },         // only the header page did
				func(_ string, p, n int) bool { return p != n-1 },         // everything but the header page
				func(string, int, int) bool { return g.rnd.Intn(2) == 0 }) // some pages
			for _, v := range variants {
				img := dirImage{}
				for name, b := range cur {
					d, ok := dur[name]
					if !ok {
						img[name] = b
						continue
					}
					np := (len(b) + 4095) / 4096
					nm := name
					img[name] = pageMix(d, b, func(p int) bool { return v(nm, p, np) })
				}
				plit, prl := g.reopen(img, scratch, opt)
				power = append(power, plit)
				g.judge(prl, plit, point, "powerloss", history, nil, 0, 0)
				if prl != nil {
					_ = prl.Close()
				}
			}
		}
		busy := false
		VerifHook = func(name string) {
			if busy {
				return // hooks fired by the harness's own Open/Close of a scratch copy
			}
			busy = true
			defer func() { busy = false }()
			switch name {
			case "segment.sync.dataFlushed", "segment.sync.headerFlushed", "createSegment.written":
				// an msync / fsync just completed: what is in the files now is durable
				capture(name + "(before)")
				dur = readDir(dir)
			case "segment.removed":
				cur := readDir(dir)
				for n := range dur {
					if _, ok := cur[n]; !ok {
						delete(dur, n)
					}
				}
			case "createSegment.truncated":
				return // same file content as after the header write (zeros)
			}
			capture(name)
		}
		busy = true
		capture("before-op")
		busy = false

		// ---- the operation
		var op string
		c := g.rnd.Intn(100)
		var opErr error
		if script != nil {
			// scripted operation
			arg := uint64(0)
			if len(script[k]) > 1 {
				arg, _ = strconv.ParseUint(script[k][1:], 10, 64)
			}
			switch script[k][0] {
			case 'a':
				g.fill = (g.fill + 41) % 251
				b := make([]byte, 700+g.rnd.Intn(300))
				for i := range b {
					b[i] = byte(g.fill + i)
				}
				op = "(OAppend " + coqBytes(b) + ")"
				idx := l.LastIndex() + 1
				history[idx] = append(history[idx], b)
				opErr = l.Append(b)
			case 'c':
				op = "OCommit"
				opErr = l.Commit()
			case 'g':
				op = fmt.Sprintf("(ORemoveGTE %d)", l.PrevIndex()+arg)
				opErr = l.RemoveGTE(l.PrevIndex() + arg)
			case 'l':
				op = fmt.Sprintf("(ORemoveLTE %d)", l.PrevIndex()+arg)
				opErr = l.RemoveLTE(l.PrevIndex() + arg)
			}
			c = 1000
		}
		switch {
		case c == 1000:
		case c < 50:
			b := g.payload(l.opt.SegmentSize)
			op = "(OAppend " + coqBytes(b) + ")"
			idx := l.LastIndex() + 1
			history[idx] = append(history[idx], b) // may show up in an image taken while Append runs
			opErr = l.Append(b)
			if opErr == ErrExceedsSegmentSize {
				opErr = nil
			}
		case c < 65:
			op = "OCommit"
			opErr = l.Commit()
		case c < 70:
			n := l.PrevIndex() + uint64(g.rnd.Intn(int(l.Count())+2))
			op = fmt.Sprintf("(OCommitN %d)", n)
			opErr = l.CommitN(n)
		case c < 80:
			i := l.PrevIndex() + uint64(g.rnd.Intn(int(l.Count())+2))
			op = fmt.Sprintf("(ORemoveLTE %d)", i)
			opErr = l.RemoveLTE(i)
		case c < 92:
			i := l.PrevIndex() + uint64(g.rnd.Intn(int(l.Count())+3))
			if g.rnd.Intn(6) == 0 && l.PrevIndex() > 0 {
				i = l.PrevIndex() - uint64(g.rnd.Intn(2))
			}
			op = fmt.Sprintf("(ORemoveGTE %d)", i)
			opErr = l.RemoveGTE(i)
		case c < 96:
			i := l.LastIndex() + uint64(g.rnd.Intn(3))
			op = fmt.Sprintf("(OReset %d)", i)
			opErr = l.Reset(i)
		default:
			op = fmt.Sprintf("(OReopen %d)", segsize)
			opErr = l.Close()
			if opErr == nil {
				dur = readDir(dir)
				VerifHook = nil
				l, opErr = Open(dir, 0700, opt)
			}
		}
		VerifHook = nil
		if opErr != nil {
			g.findings = append(g.findings, fmt.Sprintf("C14|op-error|%s failed: %v", op, opErr))
			l = nil
			return
		}
		// boundary after the operation: also a crash point (k = all primitives)
		cur := readDir(dir)
		lit, rl := g.reopen(cur, scratch, opt)
		kill = append(kill, lit)
		// T3 at the boundary: what was flushed before and is still part of the log must be there
		g.judge(rl, lit, "after "+op, "kill", history, l, flushed, prevBefore)
		if rl != nil {
			_ = rl.Close()
		}
		_ = absBefore
		g.nextID++
		g.desc[strconv.Itoa(g.nextID)] = "crash " + op
		g.dist["crash/"+strings.Fields(strings.Trim(op, "()"))[0]]++
		g.w = append(g.w, fmt.Sprintf("LCrash %d %d %s %s %s [%s] [%s]", g.nextID, segsize, pre, cst, op, strings.Join(kill, ";"), strings.Join(power, ";")))
	}
}

// judge applies the property's oracle to a recovered log.
func (g *crashGen) judge(rl *Log, lit, point, mode string, history map[uint64][][]byte, live *Log, flushed, prevBefore uint64) {
	if rl == nil {
		g.findings = append(g.findings, fmt.Sprintf("C14|reopen-fails|%s image at %s cannot be reopened", mode, point))
		return
	}
	// contiguity is structural (one chain); intactness: every entry was appended at that index
	for i := rl.PrevIndex() + 1; i <= rl.LastIndex(); i++ {
		b, err := rl.Get(i)
		if err != nil {
			g.findings = append(g.findings, fmt.Sprintf("C14|unreadable-entry|%s image at %s: Get(%d): %v", mode, point, i, err))
			return
		}
		ok := false
		for _, h := range history[i] {
			if bytes.Equal(h, b) {
				ok = true
			}
		}
		if !ok {
			g.findings = append(g.findings, fmt.Sprintf("C14|never-appended-entry|%s image at %s exposes %d bytes at index %d that were never appended there", mode, point, len(b), i))
			return
		}
	}
	if live != nil {
		// entries flushed before the operation and still in the log after it must have survived
		for i := live.PrevIndex() + 1; i <= live.LastIndex() && i <= flushed; i++ {
			want, _ := live.Get(i)
			if !rl.Contains(i) {
				g.findings = append(g.findings, fmt.Sprintf("C14|flushed-entry-lost|%s image at %s lacks flushed index %d", mode, point, i))
				return
			}
			got, _ := rl.Get(i)
			if !bytes.Equal(got, want) {
				g.findings = append(g.findings, fmt.Sprintf("C14|flushed-entry-changed|%s image at %s: index %d differs", mode, point, i))
				return
			}
		}
	}
}

// scratchRoot: a memory-backed directory when there is one (thousands of small files are
// created, mapped, synced and removed), else the output directory.
func scratchRoot(out string) string {
	if st, err := os.Stat("/dev/shm"); err == nil && st.IsDir() {
		if d, err := ioutil.TempDir("/dev/shm", "verif"); err == nil {
			_ = os.Remove(d)
			return "/dev/shm"
		}
	}
	return out
}

func crashMain(args []string) int {
	if len(args) < 4 {
		fmt.Fprintln(os.Stderr, "usage: vh log crash <seed> <sequences> <opsPerSeq> <outdir>")
		return 2
	}
	seed, _ := strconv.ParseInt(args[0], 10, 64)
	nseq, _ := strconv.Atoi(args[1])
	nops, _ := strconv.Atoi(args[2])
	out := args[3]
	g := &crashGen{rnd: rand.New(rand.NewSource(seed)), desc: map[string]string{}, dist: map[string]int{}}
	for _, sc := range crashScripts {
		base, err := ioutil.TempDir(scratchRoot(out), "crash")
		if err != nil {
			panic(err)
		}
		g.sequence(base, 0, sc.ops, sc.segsize)
		os.RemoveAll(base)
	}
	for s := 0; s < nseq; s++ {
		base, err := ioutil.TempDir(scratchRoot(out), "crash")
		if err != nil {
			panic(err)
		}
		g.sequence(base, nops, nil, 0)
		os.RemoveAll(base)
	}
	const shard = 8
	nfiles := 0
	for s := 0; s < len(g.w); s += shard {
		e := s + shard
		if e > len(g.w) {
			e = len(g.w)
		}
		var sb strings.Builder
		sb.WriteString("From Coq Require Import List NArith ZArith.\nFrom Verif Require Import Base.Bytes SegLog.Log SegLog.Spec SegLog.Crash SegLog.Cases.\nImport ListNotations.\nOpen Scope N_scope.\n")
		sb.WriteString("Definition cases : list lcase := [\n")
		sb.WriteString(strings.Join(g.w[s:e], ";\n"))
		sb.WriteString("].\nDefinition M := Eval vm_compute in mismatches cases.\nPrint M.\n")
		if err := ioutil.WriteFile(filepath.Join(out, fmt.Sprintf("cases_crash_%d.v", nfiles)), []byte(sb.String()), 0644); err != nil {
			panic(err)
		}
		nfiles++
	}
	var samples []string
	for i := 0; i < len(g.w) && len(samples) < 3; i += len(g.w)/3 + 1 {
		c := g.w[i]
		if len(c) > 600 {
			c = c[:600] + "..."
		}
		samples = append(samples, c)
	}
	meta := map[string]interface{}{"seed": seed, "cases": len(g.w), "files": nfiles, "dist": g.dist, "desc": g.desc, "findings": g.findings,
		"samples": samples, "images": g.images, "images_failing_open": g.failOpen}
	mb, _ := json.Marshal(meta)
	if err := ioutil.WriteFile(filepath.Join(out, "crash_meta.json"), mb, 0644); err != nil {
		panic(err)
	}
	return 0
}
