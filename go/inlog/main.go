//go:build verif

package log

import (
	"fmt"
	"os"
)

// VerifMain dispatches harness sub-commands that live inside package log.
func VerifMain(args []string) int {
	if len(args) == 0 {
		fmt.Fprintln(os.Stderr, "vh log: missing sub-command")
		return 2
	}
	fn, ok := verifCmds[args[0]]
	if !ok {
		fmt.Fprintln(os.Stderr, "vh log: unknown sub-command", args[0])
		return 2
	}
	return fn(args[1:])
}

var verifCmds = map[string]func([]string) int{}

// VerifFlushed returns the highest index such that every entry up to it is
// covered by an on-disk segment header (what a process kill would preserve).
func VerifFlushed(l *Log) uint64 {
	s := l.last
	for s != nil && s.synced < 0 {
		s = s.prev
	}
	if s == nil {
		return l.first.prevIndex
	}
	// segments before the last are synced when the log rolls over
	for p := s.prev; p != nil; p = p.prev {
		if p.synced < p.n {
			s = p
		}
	}
	return s.prevIndex + uint64(s.synced)
}
