//go:build verif

package log

import (
	"fmt"
	"os"
)

// VerifMain dispatches harness sub-commands that live inside package log.
func VerifMain(args []string) int {
	if len(args) == 0 {
		fmt.Fprintln(os.Stderr, "vh log: missing sub-command")
		return 2
	}
	fn, ok := verifCmds[args[0]]
	if !ok {
		fmt.Fprintln(os.Stderr, "vh log: unknown sub-command", args[0])
		return 2
	}
	return fn(args[1:])
}

var verifCmds = map[string]func([]string) int{}
