module verifh

go 1.13

require github.com/santhosh-tekuri/raft v0.0.0

replace github.com/santhosh-tekuri/raft => /repo
