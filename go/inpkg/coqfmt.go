//go:build verif

package raft

import (
	"fmt"
	"sort"
	"strings"
	"time"
)

// Printers that turn Go values into Gallina literals of the types defined in
// /verif/coq/Codec/Messages.v.  All numbers are printed as N literals (the
// case files open N_scope), never nat.

func coqN(v uint64) string { return fmt.Sprintf("%d", v) }

func coqBool(b bool) string {
	if b {
		return "true"
	}
	return "false"
}

func coqBytes(b []byte) string {
	var sb strings.Builder
	sb.WriteByte('[')
	for i, c := range b {
		if i > 0 {
			sb.WriteByte(';')
		}
		fmt.Fprintf(&sb, "%d", c)
	}
	sb.WriteByte(']')
	return sb.String()
}

func coqEntry(e *entry) string {
	return fmt.Sprintf("(mkEntry %d %d %d %s)", e.index, e.term, uint8(e.typ), coqBytes(e.data))
}

func coqNode(n Node) string {
	return fmt.Sprintf("(mkNode %d %s %s %s %d)", n.ID, coqBytes([]byte(n.Addr)), coqBool(n.Voter), coqBytes([]byte(n.Data)), uint8(n.Action))
}

func sortedIDs(m map[uint64]Node) []uint64 {
	ids := make([]uint64, 0, len(m))
	for id := range m {
		ids = append(ids, id)
	}
	sort.Slice(ids, func(i, j int) bool { return ids[i] < ids[j] })
	return ids
}

func coqConfig(c Config) string {
	var parts []string
	for _, id := range sortedIDs(c.Nodes) {
		parts = append(parts, coqNode(c.Nodes[id]))
	}
	return fmt.Sprintf("(mkConfig [%s] %d %d)", strings.Join(parts, ";"), c.Index, c.Term)
}

func respOpErr(r *resp) (op, msg []byte) {
	if r.result != unexpectedErr || r.err == nil {
		return nil, nil
	}
	err := r.err
	if oe, ok := err.(OpError); ok {
		return []byte(oe.Op), []byte(oe.Err.Error())
	}
	return nil, []byte(err.Error())
}

func coqResp(r *resp) string {
	op, msg := respOpErr(r)
	return fmt.Sprintf("%d %d %s %s", r.term, uint8(r.result), coqBytes(op), coqBytes(msg))
}

func unixNanoOf(t *time.Time) uint64 {
	if t == nil {
		return 0
	}
	return uint64(t.UnixNano())
}

func coqReplication(r Replication) string {
	return fmt.Sprintf("(MReplication %d %d %d %s %d)", r.ID, r.MatchIndex, unixNanoOf(r.Unreachable), coqBytes([]byte(r.ErrMessage)), r.Round)
}

func coqInfo(i Info) string {
	ids := make([]uint64, 0, len(i.Followers))
	for id := range i.Followers {
		ids = append(ids, id)
	}
	sort.Slice(ids, func(a, b int) bool { return ids[a] < ids[b] })
	var fl []string
	for _, id := range ids {
		fl = append(fl, coqReplication(i.Followers[id]))
	}
	return fmt.Sprintf("(MInfo %d %d %s %d %d %d %d %d %d %d %d %d %s %s [%s])",
		i.CID, i.NID, coqBytes([]byte(i.Addr)), i.Term, uint8(i.State), i.Leader, i.SnapshotIndex,
		i.FirstLogIndex, i.LastLogIndex, i.LastLogTerm, i.Committed, i.LastApplied,
		coqConfig(i.Configs.Committed), coqConfig(i.Configs.Latest), strings.Join(fl, ";"))
}

// coqMsg prints any codec value as a [msg] literal.
func coqMsg(v interface{}) string {
	switch m := v.(type) {
	case *entry:
		return "(MEntry " + coqEntry(m) + ")"
	case *identityReq:
		return fmt.Sprintf("(MIdentityReq %d %d %d %d)", m.term, m.src, m.cid, m.nid)
	case *voteReq:
		return fmt.Sprintf("(MVoteReq %d %d %d %d %s)", m.term, m.src, m.lastLogIndex, m.lastLogTerm, coqBool(m.transfer))
	case *appendReq:
		return fmt.Sprintf("(MAppendReq %d %d %d %d %d %d)", m.term, m.src, m.prevLogIndex, m.prevLogTerm, m.ldrCommitIndex, m.numEntries)
	case *installSnapReq:
		return fmt.Sprintf("(MInstallSnapReq %d %d %d %d %s %d)", m.term, m.src, m.lastIndex, m.lastTerm, coqConfig(m.lastConfig), uint64(m.size))
	case *timeoutNowReq:
		return fmt.Sprintf("(MTimeoutNowReq %d %d)", m.term, m.src)
	case *voteResp:
		return "(MResp " + coqResp(&m.resp) + ")"
	case *appendResp:
		return fmt.Sprintf("(MAppendResp %s %d)", coqResp(&m.resp), m.lastLogIndex)
	case *Node:
		return "(MNode " + coqNode(*m) + ")"
	case *Config:
		return "(MConfig " + coqConfig(*m) + ")"
	case *snapshotMeta:
		return fmt.Sprintf("(MSnapMeta %d %d %s %d)", m.index, m.term, coqConfig(m.config), uint64(m.size))
	case *Replication:
		return coqReplication(*m)
	case *Info:
		return coqInfo(*m)
	}
	panic(fmt.Sprintf("coqMsg: %T", v))
}
