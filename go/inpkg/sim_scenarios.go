//go:build verif

package raft

import (
	"fmt"
	"math/rand"
	"os"
	"strconv"
	"time"
)

// vh raft scenarios <outdir>
//
// Targeted schedules (the corpus): each one steers the simulated cluster into a
// situation random scheduling reaches rarely, using the same primitives, the same
// per-event cases and the same monitors as the random driver.
func init() { verifCmds["scenarios"] = scenariosMain }

func newScenarioCluster(w *caseWriter, out string, size int, seed int64) *simCluster {
	c := &simCluster{rnd: rand.New(rand.NewSource(seed)), w: w, base: simTempDir(out, "sc"), opt: simOptions(1024), nodes: map[uint64]*simNode{}, dirs: map[uint64]string{},
		epoch: map[uint64]int{}, reqs: map[*replication]*appendReq{}, pipes: map[[2]uint64][]*simMsg{}, await: map[[2]uint64]int{}, piping: map[[2]uint64]bool{},
		upd: map[uint64][]replUpdate{}, tasks: map[uint64][]*simTask{}, asked: map[uint64]map[uint64]bool{}, respCh: map[uint64]chan rpcResponse{},
		elected: map[uint64]uint64{}, entries: map[[2]uint64]string{}, committed: map[uint64]string{}}
	boot := map[uint64]Node{}
	for id := uint64(1); id <= uint64(size); id++ {
		boot[id] = Node{ID: id, Addr: fmt.Sprintf("M%d:8888", id), Voter: true}
	}
	c.boot = boot
	for id := uint64(1); id <= uint64(size); id++ {
		if err := c.addNode(id, boot); err != nil {
			panic(err)
		}
	}
	return c
}

func (c *simCluster) close() {
	for _, n := range c.nodes {
		n.kill()
	}
	os.RemoveAll(c.base)
}

// deliverWhere delivers the first in-flight message satisfying pred; false if none.
func (c *simCluster) deliverWhere(pred func(m *simMsg) bool) bool {
	for i, m := range c.net {
		if pred(m) {
			c.deliver(i)
			return true
		}
	}
	return false
}

func (c *simCluster) deliverAll(pred func(m *simMsg) bool) {
	for k := 0; k < 200 && c.deliverWhere(pred); k++ {
	}
}

// elect makes node id win an election with every reachable voter's help.
func (c *simCluster) elect(id uint64) bool {
	n := c.nodes[id]
	if n.cur == Leader {
		return true
	}
	c.doTimeout(n)
	for k := 0; k < 40 && n.cur == Candidate; k++ {
		c.candidateStep(n)
		c.deliverAll(func(m *simMsg) bool { return m.kind == rpcVote })
	}
	return n.cur == Leader
}

// replicate runs replication work of leader id until nothing moves any more.
func (c *simCluster) replicate(id uint64, only ...uint64) {
	n := c.nodes[id]
	allowed := func(f uint64) bool {
		if len(only) == 0 {
			return true
		}
		for _, x := range only {
			if x == f {
				return true
			}
		}
		return false
	}
	for k := 0; k < 300 && n.cur == Leader; k++ {
		before := len(c.w.cases)
		for len(c.upd[id]) > 0 && n.cur == Leader {
			c.doReplUpdate(n)
		}
		if n.cur != Leader {
			return
		}
		for _, fid := range sortedReplIDs(n.l) {
			if allowed(fid) && n.cur == Leader {
				if rp := n.l.repls[fid]; rp != nil && (len(rp.leaderUpdateCh) > 0 || rp.nextIndex <= rp.ldrLastIndex || rp.matchIndex+1 != rp.nextIndex || !c.piping[[2]uint64{id, fid}]) {
					c.doFlr(n, fid)
				}
			}
		}
		c.deliverAll(func(m *simMsg) bool {
			return (m.kind == rpcAppendEntries || m.kind == rpcInstallSnap) && ((m.from == id && allowed(m.to)) || (m.to == id && allowed(m.from)))
		})
		if len(c.w.cases) == before && len(c.upd[id]) == 0 {
			return
		}
	}
}

func sortedReplIDs(l *leader) []uint64 {
	m := map[uint64]Node{}
	for id := range l.repls {
		m[id] = Node{}
	}
	return sortedIDs(m)
}

func (c *simCluster) changeConfigWith(id uint64, f func(cfg *Config)) *simTask {
	n := c.nodes[id]
	nc := n.r.configs.Latest.clone()
	f(&nc)
	t := ChangeConfig(nc).(changeConfig)
	st := c.newTask(id, t, "changeConfig")
	c.evImp = actionIDs(nc)
	c.run(n, "changeConfig", fmt.Sprintf("(ELeader (LChangeConfig %d %s))", st.id, coqConfig(nc)), func() (response, []string) {
		n.l.onChangeConfig(t)
		return nil, nil
	})
	c.evImp = nil
	return st
}

func (c *simCluster) transfer(id, target uint64) *simTask {
	n := c.nodes[id]
	t := TransferLeadership(target, time.Hour).(transferLdr)
	st := c.newTask(id, t, "transfer")
	had := n.l.transfer.respCh != nil
	c.run(n, fmt.Sprintf("transfer to %d", target), fmt.Sprintf("(ELeader (LTransfer %d %d))", st.id, target), func() (response, []string) {
		n.l.onTransfer(t)
		return nil, c.transferMsgs(n, had)
	})
	return st
}

type scenario struct {
	name string
	run  func(c *simCluster)
	size int
	// static: no membership change: the schedule is also run under the abstract shadow (vh raft abs)
	static bool
}

// setContact: leader ldr's replication to flr reports that it lost / regained contact.
func (c *simCluster) setContact(ldr, flr uint64, up bool) {
	n := c.nodes[ldr]
	if n == nil || n.cur != Leader {
		return
	}
	rp := n.l.repls[flr]
	if rp == nil {
		return
	}
	u := replUpdate{&rp.status, noContact{time.Now(), errSimAbort}}
	if up {
		u = replUpdate{&rp.status, noContact{time.Time{}, nil}}
	}
	c.upd[ldr] = append(c.upd[ldr], u)
	for len(c.upd[ldr]) > 0 && n.cur == Leader {
		c.doReplUpdate(n)
	}
}

// disconnect: the connection of node id to peer broke (the `disconnected` case of stateLoop).
func (c *simCluster) disconnect(id, peer uint64) {
	n := c.nodes[id]
	c.run(n, "disconnected", fmt.Sprintf("(EDisconnected %d)", peer), func() (response, []string) {
		n.disconnected(peer)
		return nil, nil
	})
}

// loseQuorum: leader id hears from nobody any more and steps down at its next quorum check.
func (c *simCluster) loseQuorum(id uint64) {
	n := c.nodes[id]
	if n.cur != Leader {
		return
	}
	for _, fid := range sortedReplIDs(n.l) {
		rp := n.l.repls[fid]
		c.upd[id] = append(c.upd[id], replUpdate{&rp.status, noContact{time.Now(), errSimAbort}})
		c.breakConn([2]uint64{id, fid})
	}
	for len(c.upd[id]) > 0 && n.cur == Leader {
		c.doReplUpdate(n)
	}
	if n.cur == Leader {
		c.doTimeout(n)
	}
}

// electWith: node id campaigns (again and again) until it wins; only the listed voters hear its requests.
func (c *simCluster) electWith(id uint64, voters ...uint64) bool {
	n := c.nodes[id]
	ok := func(v uint64) bool {
		for _, x := range voters {
			if x == v {
				return true
			}
		}
		return false
	}
	for round := 0; round < 4 && n.cur != Leader; round++ {
		c.doTimeout(n)
		for k := 0; k < 40 && n.cur == Candidate; k++ {
			before := len(c.w.cases) + len(c.net)
			c.candidateStep(n)
			c.deliverAll(func(m *simMsg) bool {
				return m.kind == rpcVote && ((m.from == id && ok(m.to)) || (m.to == id && ok(m.from)))
			})
			if len(c.w.cases)+len(c.net) == before {
				break
			}
		}
		// requests to the others are lost
		var keep []*simMsg
		for _, m := range c.net {
			if !(m.kind == rpcVote && m.from == id) {
				keep = append(keep, m)
			}
		}
		c.net = keep
	}
	return n.cur == Leader
}

var scenarios = []scenario{
	{"pending-action-after-transfer", func(c *simCluster) {
		// two demotions requested at once; a transfer starts while the first is in flight, so the
		// second stays pending in a committed configuration; the new leader finds it at init
		c.elect(1)
		c.replicate(1)
		c.doClient(c.nodes[1], []entryType{entryUpdate})
		c.replicate(1)
		c.changeConfigWith(1, func(cfg *Config) {
			for _, v := range []uint64{4, 5} {
				nn := cfg.Nodes[v]
				nn.Action = Demote
				cfg.Nodes[v] = nn
			}
		})
		// the first demotion is in flight; a transfer starts now, so the second one stays pending
		// when the first commits
		c.transfer(1, 2)
		hold := func(m *simMsg) bool { return m.kind != rpcTimeoutNow }
		for k := 0; k < 6; k++ {
			n := c.nodes[1]
			for len(c.upd[1]) > 0 && n.cur == Leader {
				c.doReplUpdate(n)
			}
			for _, fid := range sortedReplIDs(n.l) {
				if n.cur == Leader {
					c.doFlr(n, fid)
				}
			}
			c.deliverAll(func(m *simMsg) bool { return hold(m) && (m.kind == rpcAppendEntries) })
		}
		c.deliverAll(func(m *simMsg) bool { return m.kind == rpcTimeoutNow })
		for k := 0; k < 40 && c.nodes[2].cur == Candidate; k++ {
			c.candidateStep(c.nodes[2])
			c.deliverAll(func(m *simMsg) bool { return m.kind == rpcVote })
		}
		c.replicate(2)
	}, 5, false},
	{"leader-change-with-pending-actions", func(c *simCluster) {
		c.elect(1)
		c.replicate(1)
		// transfer blocks config actions: the request is refused or left pending
		c.transfer(1, 3)
		c.changeConfigWith(1, func(cfg *Config) {
			nn := cfg.Nodes[2]
			nn.Action = Demote
			cfg.Nodes[2] = nn
		})
		c.deliverAll(func(m *simMsg) bool { return m.kind == rpcTimeoutNow })
		for k := 0; k < 40 && c.nodes[3].cur == Candidate; k++ {
			c.candidateStep(c.nodes[3])
			c.deliverAll(func(m *simMsg) bool { return m.kind == rpcVote })
		}
		c.replicate(3)
		c.changeConfigWith(3, func(cfg *Config) {
			nn := cfg.Nodes[1]
			nn.Action = Remove
			cfg.Nodes[1] = nn
		})
		c.replicate(3)
	}, 3, false},
	{"deposed-leader-campaigns", func(c *simCluster) {
		// the old leader loses contact, steps down and campaigns while its followers still follow it
		c.elect(1)
		c.replicate(1)
		n := c.nodes[1]
		for _, fid := range sortedReplIDs(n.l) {
			rp := n.l.repls[fid]
			c.upd[1] = append(c.upd[1], replUpdate{&rp.status, noContact{time.Now(), errSimAbort}})
		}
		for len(c.upd[1]) > 0 && n.cur == Leader {
			c.doReplUpdate(n)
		}
		if n.cur == Leader {
			c.doTimeout(n) // quorum unreachable: step down
		}
		c.doTimeout(n) // follower -> candidate in a higher term
		for k := 0; k < 10 && n.cur == Candidate; k++ {
			c.candidateStep(n)
		}
		c.deliverAll(func(m *simMsg) bool { return m.kind == rpcVote && !m.isResp })
		// meanwhile node 2 times out as well and asks node 3
		c.doTimeout(c.nodes[2])
		for k := 0; k < 10 && c.nodes[2].cur == Candidate; k++ {
			c.candidateStep(c.nodes[2])
		}
		c.deliverAll(func(m *simMsg) bool { return m.kind == rpcVote })
	}, 3, true},
	{"candidate-id-equals-term", func(c *simCluster) {
		// a voter that already is in term 3 without a vote is asked by candidate 3 (node id = term), restarts,
		// and is asked again by candidate 2 of the same term
		c.elect(1)
		c.replicate(1, 3) // node 3 holds the no-op of term 2, node 2 does not
		c.loseQuorum(1)
		c.disconnect(2, 1)
		c.disconnect(3, 1)
		only := func(from, to uint64) {
			c.deliverAll(func(m *simMsg) bool { return m.kind == rpcVote && !m.isResp && m.from == from && m.to == to })
		}
		c.doTimeout(c.nodes[2]) // candidate of term 3 with the shorter log
		for k := 0; k < 4 && c.nodes[2].cur == Candidate; k++ {
			c.candidateStep(c.nodes[2])
		}
		only(2, 1)              // node 1 refuses (its log is longer) but is now in term 3, vote 0
		c.doTimeout(c.nodes[3]) // candidate 3 of term 3
		for k := 0; k < 4 && c.nodes[3].cur == Candidate; k++ {
			c.candidateStep(c.nodes[3])
		}
		only(3, 1)
		c.crash(1, true)
		// candidate 2 asks node 1 once more (a retry of the same request on a new connection)
		q := &voteReq{req: req{c.nodes[2].r.term, 2}, lastLogIndex: c.nodes[2].r.lastLogIndex, lastLogTerm: c.nodes[2].r.lastLogTerm}
		c.net = append(c.net, &simMsg{from: 2, to: 1, wire: wireReq(q, nil), kind: rpcVote, epoch: c.epoch[2], lit: "(EVoteReq " + coqVoteReq(q) + ")"})
		only(2, 1)
		c.deliverAll(func(m *simMsg) bool { return m.kind == rpcVote })
	}, 3, true},
	{"conflicting-suffix-same-term-as-prev", func(c *simCluster) {
		// Two leader changes: follower 5 holds (4, term 3) from a leader that never reached a quorum, while the
		// leader of term 4 holds (4, term 2) right after the matching entry (3, term 2): the first conflicting
		// entry of its request has the term of the matched previous entry.
		c.elect(1) // term 2, no-op at 2
		c.replicate(1)
		c.doClient(c.nodes[1], []entryType{entryUpdate}) // index 3
		c.replicate(1)
		c.doClient(c.nodes[1], []entryType{entryUpdate}) // index 4, reaches node 2 only
		c.replicate(1, 2)
		for _, v := range []uint64{3, 4, 5} {
			c.disconnect(v, 1)
		}
		c.electWith(3, 4, 5) // term 3, no-op at 4
		c.replicate(3, 5)    // only node 5 gets (4, term 3)
		c.loseQuorum(1)
		c.loseQuorum(3)
		c.disconnect(4, 3)
		c.disconnect(2, 1)
		c.electWith(2, 1, 4) // a later term; log ... (4, term 2), no-op at 5
		c.replicate(2, 5)
		c.doClient(c.nodes[2], []entryType{entryUpdate})
		c.replicate(2)
	}, 5, true},
	{"figure-8", func(c *simCluster) {
		// the schedule of Figure 8 of the Raft paper: an entry of an old term replicated on a majority by a
		// later leader is not committed by counting, and may still be overwritten
		c.elect(1)
		c.replicate(1)
		c.doClient(c.nodes[1], []entryType{entryUpdate}) // index 3 (term 2)
		c.replicate(1, 2)
		for _, v := range []uint64{3, 4, 5} {
			c.disconnect(v, 1)
		}
		c.loseQuorum(1)
		c.electWith(5, 3, 4)                             // term 3
		c.doClient(c.nodes[5], []entryType{entryUpdate}) // index 4 (term 3), nobody else
		c.loseQuorum(5)
		c.disconnect(2, 1)
		c.disconnect(3, 5)
		c.electWith(1, 2, 3) // term 4: replicates (3, term 2) to node 3: on a majority, but not committed
		c.replicate(1, 3)
		c.loseQuorum(1)
		c.disconnect(2, 1)
		c.disconnect(3, 1)
		c.disconnect(4, 5)
		c.electWith(5, 2, 3, 4) // may win or not, depending on what (1) committed
		if c.nodes[5].cur == Leader {
			c.replicate(5)
		}
	}, 5, true},
	{"follower-compacts-then-leads", func(c *simCluster) {
		// node 2 takes a snapshot and compacts its log as a follower, then becomes leader and must serve
		// followers from its compacted log
		c.elect(1)
		c.replicate(1)
		for k := 0; k < 30; k++ {
			c.doClient(c.nodes[1], []entryType{entryUpdate, entryUpdate, entryUpdate})
			if k%3 == 0 {
				c.replicate(1)
			}
		}
		c.replicate(1)
		for k := 0; k < 3; k++ {
			c.snapshotStep(c.nodes[2])
		}
		c.transfer(1, 2)
		c.deliverAll(func(m *simMsg) bool { return m.kind == rpcTimeoutNow })
		for k := 0; k < 40 && c.nodes[2].cur == Candidate; k++ {
			c.candidateStep(c.nodes[2])
			c.deliverAll(func(m *simMsg) bool { return m.kind == rpcVote })
		}
		c.replicate(2)
		if c.nodes[2].cur == Leader {
			c.doClient(c.nodes[2], []entryType{entryUpdate})
			c.replicate(2)
		}
	}, 3, true},
	{"commit-inside-older-segment-after-rollover", func(c *simCluster) {
		// the leader's unflushed tail crosses a segment boundary; the acknowledgement that arrives next only
		// covers entries of the older segment: the commit must still make them durable on the leader
		c.elect(1)
		c.replicate(1)
		n := c.nodes[1]
		for k := 0; k < 6; k++ {
			c.doClient(n, []entryType{entryUpdate, entryUpdate, entryUpdate})
		}
		// requests carrying these entries leave, the answers are held back
		for _, fid := range sortedReplIDs(n.l) {
			c.doFlr(n, fid) // consume the leader update
			c.doFlr(n, fid) // write the request
		}
		first := n.r.log.CanLTE(1 << 62)
		for k := 0; k < 60 && n.r.log.CanLTE(1<<62) == first; k++ {
			c.doClient(n, []entryType{entryUpdate})
		}
		c.doClient(n, []entryType{entryUpdate, entryUpdate})
		// now the answers for the first batch arrive
		c.deliverAll(func(m *simMsg) bool { return m.kind == rpcAppendEntries })
		for len(c.upd[1]) > 0 && n.cur == Leader {
			c.doReplUpdate(n)
		}
		c.crash(1, true)
		c.elect(2)
		c.replicate(2)
	}, 3, true},
	{"install-over-conflicting-suffix", func(c *simCluster) {
		// the deposed leader holds a long uncommitted suffix of its own term; the new leader commits other
		// entries at those indices, snapshots and compacts them; the old leader then gets the snapshot: its
		// log has an entry at the snapshot index, of another term
		c.elect(1)
		c.replicate(1)
		c.doClient(c.nodes[1], []entryType{entryUpdate})
		c.replicate(1)
		for k := 0; k < 25; k++ {
			c.doClient(c.nodes[1], []entryType{entryUpdate, entryUpdate, entryUpdate}) // nobody hears of these
		}
		c.loseQuorum(1)
		c.disconnect(2, 1)
		c.disconnect(3, 1)
		c.electWith(2, 3)
		// the new leader cannot reach node 1
		contact := func(up bool) {
			if n := c.nodes[2]; n.cur == Leader {
				if rp := n.l.repls[1]; rp != nil {
					u := replUpdate{&rp.status, noContact{time.Now(), errSimAbort}}
					if up {
						u = replUpdate{&rp.status, noContact{time.Time{}, nil}}
					}
					c.upd[2] = append(c.upd[2], u)
					for len(c.upd[2]) > 0 && n.cur == Leader {
						c.doReplUpdate(n)
					}
				}
			}
		}
		contact(false)
		for k := 0; k < 14; k++ {
			c.doClient(c.nodes[2], []entryType{entryUpdate, entryUpdate, entryUpdate})
			c.replicate(2, 3)
		}
		for k := 0; k < 3; k++ {
			c.snapshotStep(c.nodes[2])
		}
		c.doClient(c.nodes[2], []entryType{entryUpdate})
		c.replicate(2, 3)
		contact(true)
		c.replicate(2) // now node 1 as well
		c.doClient(c.nodes[2], []entryType{entryUpdate})
		c.replicate(2)
	}, 3, true},
	{"local-snapshot-finishes-after-a-newer-one-was-installed", func(c *simCluster) {
		// node 3 starts a snapshot of its own; before the snapshot goroutine runs, the leader installs a newer
		// snapshot on it; then the old one completes: index, term and configuration of the latest snapshot
		// must stay those of the newer one
		c.elect(1)
		c.replicate(1)
		c.doClient(c.nodes[1], []entryType{entryUpdate, entryUpdate})
		c.replicate(1)
		c.doClient(c.nodes[1], []entryType{entryUpdate})
		c.replicate(1)
		c.snapshotStep(c.nodes[3]) // the request only; the goroutine is held
		// a new leader in a new term, node 3 cut off
		c.loseQuorum(1)
		c.disconnect(2, 1)
		c.electWith(2, 1)
		n := c.nodes[2]
		if rp := n.l.repls[3]; n.cur == Leader && rp != nil {
			c.upd[2] = append(c.upd[2], replUpdate{&rp.status, noContact{time.Now(), errSimAbort}})
			for len(c.upd[2]) > 0 && n.cur == Leader {
				c.doReplUpdate(n)
			}
		}
		for k := 0; k < 14; k++ {
			c.doClient(n, []entryType{entryUpdate, entryUpdate, entryUpdate})
			c.replicate(2, 1)
		}
		for k := 0; k < 3; k++ {
			c.snapshotStep(n)
		}
		c.doClient(n, []entryType{entryUpdate})
		c.replicate(2, 1)
		if rp := n.l.repls[3]; n.cur == Leader && rp != nil {
			c.upd[2] = append(c.upd[2], replUpdate{&rp.status, noContact{time.Time{}, nil}})
			for len(c.upd[2]) > 0 && n.cur == Leader {
				c.doReplUpdate(n)
			}
		}
		c.replicate(2) // node 3 gets the snapshot of the new term
		// now node 3's own, older snapshot completes
		c.snapshotStep(c.nodes[3])
		c.snapshotStep(c.nodes[3])
		// node 3 becomes leader and probes the others right above its snapshot
		c.loseQuorum(2)
		c.disconnect(1, 2)
		c.disconnect(3, 2)
		c.electWith(3, 1)
		c.replicate(3)
	}, 3, true},
	{"promotion-while-a-snapshot-is-pending", func(c *simCluster) {
		// the leader accepted a snapshot request (label captured); while the snapshot goroutine has not run,
		// a non-voter catches up and is promoted: the label must still be the one captured
		c.elect(1)
		c.replicate(1)
		_ = c.addNode(4, nil)
		c.changeConfigWith(1, func(cfg *Config) {
			cfg.Nodes[4] = Node{ID: 4, Addr: "M4:8888", Action: Promote}
		})
		c.replicate(1, 2, 3) // committed; node 4 has heard nothing yet
		c.doClient(c.nodes[1], []entryType{entryUpdate})
		c.replicate(1, 2, 3)
		c.snapshotStep(c.nodes[1]) // request: label = (applied index, committed configuration)
		for k := 0; k < 4; k++ {
			c.replicate(1) // node 4 catches up and is promoted
		}
		c.snapshotStep(c.nodes[1])
		c.snapshotStep(c.nodes[1])
		c.crash(1, true)
	}, 3, false},
	{"leader-loses-its-quorum-right-after-the-target-acknowledged-timeout-now", func(c *simCluster) {
		// the target has acknowledged timeoutNow (the leader now expects a new term within moments), but its vote requests
		// reach nobody; the leader loses contact with its quorum and steps down in its own term: the transfer did not succeed
		c.elect(1)
		c.replicate(1)
		c.doClient(c.nodes[1], []entryType{entryUpdate})
		c.replicate(1)
		c.transfer(1, 3)
		for k := 0; k < 4; k++ { // the request to node 3 and its answer
			c.deliverAll(func(m *simMsg) bool { return m.kind == rpcTimeoutNow })
		}
		// node 3 campaigns, nobody hears it
		c.loseQuorum(1)
	}, 3, true},
	{"transfer-times-out-with-an-action-pending", func(c *simCluster) {
		// two demotions requested at once; a transfer to a node that never answers starts before the first
		// commits, so the second is postponed; when the transfer times out it must be taken up again
		c.elect(1)
		c.replicate(1)
		c.changeConfigWith(1, func(cfg *Config) {
			for _, v := range []uint64{4, 5} {
				nn := cfg.Nodes[v]
				nn.Action = Demote
				cfg.Nodes[v] = nn
			}
		})
		c.transfer(1, 3)
		// the timeout-now request to node 3 is lost
		var keep []*simMsg
		for _, m := range c.net {
			if m.kind != rpcTimeoutNow {
				keep = append(keep, m)
			}
		}
		c.net = keep
		c.replicate(1) // the first demotion commits while the transfer is in progress
		n := c.nodes[1]
		if n.cur == Leader && n.l.transfer.timer.active {
			c.run(n, "transferTimeout", "(ELeader LTransferTimeout)", func() (response, []string) {
				n.l.transfer.timer.active = false
				n.l.onTransferTimeout()
				return nil, nil
			})
		}
		c.replicate(1)
	}, 5, false},
	{"snapshot-compaction-then-updates", func(c *simCluster) {
		c.elect(1)
		c.replicate(1)
		for k := 0; k < 30; k++ {
			c.doClient(c.nodes[1], []entryType{entryUpdate, entryUpdate, entryUpdate})
			if k%3 == 0 {
				c.replicate(1)
			}
		}
		c.replicate(1)
		for k := 0; k < 3; k++ {
			c.snapshotStep(c.nodes[1])
		}
		c.doClient(c.nodes[1], []entryType{entryUpdate})
		c.replicate(1)
		// a follower that was cut off needs the snapshot
		c.crash(3, true)
		for k := 0; k < 3; k++ {
			c.snapshotStep(c.nodes[2])
		}
		c.doClient(c.nodes[1], []entryType{entryUpdate, entryRead})
		c.replicate(1)
	}, 3, true},
	{"snapshot-while-a-new-nonvoter-has-matched-nothing", func(c *simCluster) {
		// the leader's log spans several segments; a non-voter was just added and nothing it sent has been
		// acknowledged yet (matchIndex 0) when a snapshot completes: its replication still reads the log
		// from the start, so nothing may be compacted now
		c.elect(1)
		c.replicate(1)
		for k := 0; k < 30; k++ {
			c.doClient(c.nodes[1], []entryType{entryUpdate, entryUpdate, entryUpdate})
			if k%3 == 0 {
				c.replicate(1)
			}
		}
		c.replicate(1)
		_ = c.addNode(4, nil)
		c.changeConfigWith(1, func(cfg *Config) {
			cfg.Nodes[4] = Node{ID: 4, Addr: "M4:8888"}
		})
		c.replicate(1, 2, 3)
		c.doClient(c.nodes[1], []entryType{entryUpdate})
		c.replicate(1, 2, 3)
		for k := 0; k < 3; k++ {
			c.snapshotStep(c.nodes[1])
		}
		c.replicate(1) // node 4 is brought up to date from the log
		c.doClient(c.nodes[1], []entryType{entryUpdate})
		c.replicate(1)
	}, 3, false},
	{"lagging-follower-installs-snapshot", func(c *simCluster) {
		c.elect(1)
		c.replicate(1, 2) // node 3 hears nothing
		for k := 0; k < 25; k++ {
			c.doClient(c.nodes[1], []entryType{entryUpdate, entryUpdate})
			c.replicate(1, 2)
		}
		for k := 0; k < 3; k++ {
			c.snapshotStep(c.nodes[1])
		}
		c.replicate(1) // now node 3 too: it is behind the compaction point
		c.doClient(c.nodes[1], []entryType{entryUpdate})
		c.replicate(1)
		c.crash(3, true)
		c.replicate(1)
	}, 3, true},
	{"install-request-delivered-again-after-more-entries", func(c *simCluster) {
		// node 3 installs a snapshot (its log is replaced and now starts right after it), accepts and
		// acknowledges more entries, and then the same install request arrives once more (a retry whose
		// first answer was lost): it must be ignored - nothing acknowledged may be dropped
		c.elect(1)
		c.replicate(1)
		c.setContact(1, 3, false)
		for k := 0; k < 14; k++ {
			c.doClient(c.nodes[1], []entryType{entryUpdate, entryUpdate, entryUpdate})
			c.replicate(1, 2)
		}
		for k := 0; k < 3; k++ {
			c.snapshotStep(c.nodes[1])
		}
		c.doClient(c.nodes[1], []entryType{entryUpdate})
		c.replicate(1, 2)
		c.setContact(1, 3, true)
		c.replicate(1) // node 3 is behind the compaction point: it gets the snapshot
		for k := 0; k < 3; k++ {
			c.doClient(c.nodes[1], []entryType{entryUpdate})
			c.replicate(1)
		}
		if m := c.lastInstall; m != nil {
			d := *m
			c.net = append(c.net, &d)
			c.deliver(len(c.net) - 1)
		}
		c.doClient(c.nodes[1], []entryType{entryUpdate})
		c.replicate(1)
		c.crash(3, true)
		c.replicate(1)
	}, 3, true},
	{"node-that-installed-a-snapshot-leads-and-serves-from-that-boundary", func(c *simCluster) {
		// node 3 is brought up to date by a snapshot: its log starts exactly at its snapshot index.  It then leads and has
		// to bring a brand-new node up to date: snapshot first, then the entries after it, whose previous entry is the
		// snapshot's last entry (its term comes from the snapshot, the log does not hold it)
		c.elect(1)
		c.replicate(1)
		c.setContact(1, 3, false)
		for k := 0; k < 14; k++ {
			c.doClient(c.nodes[1], []entryType{entryUpdate, entryUpdate, entryUpdate})
			c.replicate(1, 2)
		}
		for k := 0; k < 3; k++ {
			c.snapshotStep(c.nodes[1])
		}
		c.doClient(c.nodes[1], []entryType{entryUpdate})
		c.replicate(1, 2)
		c.setContact(1, 3, true)
		c.replicate(1) // node 3 installs the snapshot
		c.doClient(c.nodes[1], []entryType{entryUpdate, entryUpdate})
		c.replicate(1)
		c.loseQuorum(1)
		c.disconnect(2, 1)
		c.disconnect(3, 1)
		if !c.electWith(3, 2) {
			return
		}
		c.replicate(3, 2)
		_ = c.addNode(4, nil)
		c.changeConfigWith(3, func(cfg *Config) {
			cfg.Nodes[4] = Node{ID: 4, Addr: "M4:8888"}
		})
		for k := 0; k < 4; k++ {
			c.replicate(3, 2, 4)
		}
		c.doClient(c.nodes[3], []entryType{entryUpdate})
		c.replicate(3, 2, 4)
	}, 3, false},
	{"compaction-at-follower-match-boundary", func(c *simCluster) {
		// follower 3 stops exactly at the last index of the leader's first segment; the leader goes on
		// with follower 2, takes a snapshot and compacts that segment; then talks to follower 3 again
		c.elect(1)
		c.replicate(1)
		n := c.nodes[1]
		first := n.r.log.CanLTE(1 << 62)
		for k := 0; k < 200 && n.r.log.CanLTE(1<<62) == first; k++ {
			c.replicate(1)
			c.doClient(n, []entryType{entryUpdate})
		}
		// the log rolled over: everything before this append is in the first segment and replicated
		for k := 0; k < 12; k++ {
			c.doClient(n, []entryType{entryUpdate})
			c.replicate(1, 2)
		}
		for k := 0; k < 3; k++ {
			c.snapshotStep(n)
		}
		c.replicate(1, 2)
		if os.Getenv("VERIF_DEBUG") != "" {
			fmt.Fprintf(os.Stderr, "boundary scenario: first=%d prev=%d snap=%d last=%d match3=%d next3=%d view3=%d removeLTE=%d\n", first, n.r.log.PrevIndex(),
				n.r.snaps.index, n.r.lastLogIndex, n.l.repls[3].status.matchIndex, n.l.repls[3].nextIndex, viewPrev(n.l.repls[3]), n.l.removeLTE)
		}
		// now follower 3: first a heartbeat through its old view
		if n.cur == Leader {
			c.doFlrOpt(n, 3, true)
		}
		if n = c.nodes[1]; n.cur == Leader {
			c.doFlr(n, 3)
			c.doFlr(n, 3)
			c.replicate(1)
		}
	}, 3, true},
	{"promote-with-slow-rounds", func(c *simCluster) {
		c.slow = true
		for _, n := range c.nodes {
			n.r.promoteThreshold = time.Nanosecond
		}
		c.elect(1)
		c.replicate(1)
		_ = c.addNode(4, nil)
		c.nodes[4].r.promoteThreshold = time.Nanosecond
		c.changeConfigWith(1, func(cfg *Config) {
			cfg.Nodes[4] = Node{ID: 4, Addr: "M4:8888", Action: Promote}
		})
		for k := 0; k < 6; k++ {
			c.doClient(c.nodes[1], []entryType{entryUpdate})
			c.replicate(1)
		}
	}, 3, false},
	{"leader-removes-itself-leaving-one-voter", func(c *simCluster) {
		// two voters; the leader removes itself while the other voter is cut off: the removal must not
		// commit on the leader alone, and the leader must not shut down before it is committed
		c.elect(1)
		c.replicate(1)
		c.doClient(c.nodes[1], []entryType{entryUpdate})
		c.replicate(1)
		c.changeConfigWith(1, func(cfg *Config) {
			nn := cfg.Nodes[1]
			nn.Action = Remove
			cfg.Nodes[1] = nn
		})
		// node 2 hears nothing
		if n := c.nodes[1]; n.cur == Leader && !n.stopped {
			c.doClient(n, []entryType{entryUpdate})
			for len(c.upd[1]) > 0 && n.cur == Leader {
				c.doReplUpdate(n)
			}
		}
		// now node 2 is reachable again
		if n := c.nodes[1]; n.cur == Leader && !n.stopped {
			c.replicate(1)
		}
	}, 2, false},
	{"restart-with-three-configs-in-the-log", func(c *simCluster) {
		// three configuration entries above the snapshot, the newest uncommitted, then a follower restarts:
		// its committed configuration must be the predecessor of the latest one
		c.elect(1)
		c.replicate(1)
		_ = c.addNode(4, nil)
		c.changeConfigWith(1, func(cfg *Config) {
			cfg.Nodes[4] = Node{ID: 4, Addr: "M4:8888", Action: Promote}
		})
		for k := 0; k < 4; k++ {
			c.replicate(1) // node 4 catches up, is promoted, the promotion commits
		}
		c.doClient(c.nodes[1], []entryType{entryUpdate})
		c.replicate(1)
		c.changeConfigWith(1, func(cfg *Config) {
			nn := cfg.Nodes[3]
			nn.Action = Demote
			cfg.Nodes[3] = nn
		})
		c.replicate(1, 2) // only node 2 hears of the demotion: it stays uncommitted
		c.crash(2, true)
		c.crash(1, true)
	}, 3, false},
	{"bootstrap-after-voting", func(c *simCluster) {
		// a node without configuration grants a vote (term and vote become durable) and is bootstrapped
		// afterwards (with the configuration every node of the cluster is bootstrapped with): the term on
		// disk must not go back, the vote must not be forgotten
		c.elect(1)
		for _, term := range []uint64{5, 1} {
			id := uint64(4)
			if term == 1 {
				id = 5
			}
			// the node starts again on an empty directory
			c.nodes[id].kill()
			var ids []uint64
			for _, x := range c.ids {
				if x != id {
					ids = append(ids, x)
				}
			}
			c.ids = ids
			if err := c.addNode(id, nil); err != nil {
				return
			}
			n := c.nodes[id]
			q := &voteReq{req: req{term, 2}, lastLogIndex: 9, lastLogTerm: 1}
			c.net = append(c.net, &simMsg{from: 2, to: id, wire: wireReq(q, nil), kind: rpcVote, epoch: c.epoch[2], dup: true,
				lit: "(EVoteReq " + coqVoteReq(q) + ")"})
			c.deliver(len(c.net) - 1)
			nodes := map[uint64]Node{}
			for v, vn := range c.boot {
				nodes[v] = vn
			}
			cfg := Config{Nodes: nodes}
			t := ChangeConfig(cfg).(changeConfig)
			st := c.newTask(id, t, "changeConfig")
			pv := c.run(n, "bootstrap after voting", fmt.Sprintf("(ETask (TChangeConfig %d %s))", st.id, coqConfig(cfg)), func() (response, []string) {
				n.r.executeTask(t)
				return nil, nil
			})
			if pv != nil {
				c.crash(id, true)
			}
		}
	}, 5, false},
	{"promote-an-existing-nonvoter-after-the-log-grew", func(c *simCluster) {
		// node 4 joined as a plain non-voter and fell behind; the log grew; only then is it asked to be promoted:
		// its first catch-up round must aim at the leader's last index, not at the index of the configuration
		c.elect(1)
		c.replicate(1)
		_ = c.addNode(4, nil)
		c.changeConfigWith(1, func(cfg *Config) {
			cfg.Nodes[4] = Node{ID: 4, Addr: "M4:8888"}
		})
		c.replicate(1)
		for k := 0; k < 8; k++ {
			c.doClient(c.nodes[1], []entryType{entryUpdate, entryUpdate})
			c.replicate(1, 2, 3) // node 4 hears nothing of these
		}
		c.changeConfigWith(1, func(cfg *Config) {
			nn := cfg.Nodes[4]
			nn.Action = Promote
			cfg.Nodes[4] = nn
		})
		c.replicate(1, 2, 3)
		c.doClient(c.nodes[1], []entryType{entryUpdate})
		c.replicate(1, 2, 3)
		for k := 0; k < 4; k++ {
			c.replicate(1) // now node 4 catches up, round by round, and is promoted
		}
	}, 3, false},
	{"single-voter-grows", func(c *simCluster) {
		c.elect(1)
		_ = c.addNode(2, nil)
		c.changeConfigWith(1, func(cfg *Config) {
			cfg.Nodes[2] = Node{ID: 2, Addr: "M2:8888", Action: Promote}
		})
		c.replicate(1)
		c.doClient(c.nodes[1], []entryType{entryUpdate, entryUpdate})
		// the second voter is cut off: nothing may commit on the leader alone
		c.doClient(c.nodes[1], []entryType{entryUpdate})
		c.changeConfigWith(1, func(cfg *Config) {
			nn := cfg.Nodes[2]
			nn.Action = ForceRemove
			cfg.Nodes[2] = nn
		})
		c.replicate(1)
	}, 1, false},
}

func scenariosMain(args []string) int {
	if len(args) < 1 {
		fmt.Fprintln(os.Stderr, "usage: vh raft scenarios <outdir> [seed]")
		return 2
	}
	out := args[0]
	seed := int64(1)
	if len(args) > 1 {
		seed, _ = strconv.ParseInt(args[1], 10, 64)
	}
	w := newCaseWriter("scenarios", nodeCaseHeader, "ncase")
	ran := map[string]int{}
	for _, sc := range scenarios {
		c := newScenarioCluster(w, out, sc.size, seed)
		before := len(w.cases)
		func() {
			defer func() {
				if v := recover(); v != nil {
					w.findings = append(w.findings, fmt.Sprintf("C15|scenario-panic %s|scenario %s: harness panic %v|", sc.name, sc.name, v))
				}
			}()
			c.note("scenario %s", sc.name)
			sc.run(c)
		}()
		ran[sc.name] = len(w.cases) - before
		c.close()
	}
	// oracles on the real code that are not per-event comparisons
	func() {
		c := newScenarioCluster(w, out, 1, seed)
		defer c.close()
		defer func() {
			if v := recover(); v != nil {
				w.findings = append(w.findings, fmt.Sprintf("C15|scenario-panic snapshot-order|snapshot order oracle: harness panic %v|", v))
			}
		}()
		before := len(w.cases)
		snapshotOrderOracle(c)
		ran["oracle:snapshot-request-ordered-with-applies"] = len(w.cases) - before
	}()
	func() {
		c := newScenarioCluster(w, out, 1, seed)
		defer c.close()
		defer func() {
			if v := recover(); v != nil {
				w.findings = append(w.findings, fmt.Sprintf("C15|scenario-panic restore-order|restore order oracle: harness panic %v|", v))
			}
		}()
		before := len(w.cases)
		restoreOrderOracle(c)
		ran["oracle:restore-position"] = len(w.cases) - before
	}()
	w.flush(out, 250, map[string]interface{}{"seed": seed, "errors": nil, "scenarios": ran})
	return 0
}
