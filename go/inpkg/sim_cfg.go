//go:build verif

package raft

import (
	"encoding/json"

	"github.com/santhosh-tekuri/raft/log"
	"fmt"
	"io/ioutil"
	"math/rand"
	"os"
	"path/filepath"
	"sort"
	"strconv"
	"strings"
)

// vh raft cfg <seed> <sequences> <steps> <outdir>
//
// Runs of the cluster simulator (membership changes, crashes, snapshots, compaction, installation) are translated,
// event by event, into actions of the abstract protocol with membership changes in the log
// (coq/Abs/CfgRaft.v) plus what the nodes look like afterwards; Abs/CfgExec.v (run_hist) checks,
// inside Coq, that every action is enabled and that the abstract nodes agree with the observed
// ones.  The safety theorems of Props/C08_abs.v then speak about what was observed
// (Props/CfgTie.v).  Abstract index = implementation index - 1 (the bootstrap entry is V0).
func init() { verifCmds["cfg"] = cfgMain }

type cfgShadow struct {
	pay     map[string]uint64
	items   []string
	last    map[uint64]string
	started map[[2]uint64]string // (term, candidate) -> abstract log of the candidate when it started
	dist    map[string]int
	bad     string
	// state of the event's node before the event
	preTerm   uint64
	preRole   State
	preLog    []string
	preCommit uint64
	acked     map[uint64]map[uint64]uint64 // leader -> follower -> highest index acknowledged to it in ackedTerm
	ackedTerm map[uint64]uint64
	// logical logs: the abstract log keeps what compaction removed
	ghost   map[uint64][]string // node -> abstract entries of impl indices 2..log.PrevIndex()
	prePrev uint64
	preReal []string // abstract entries physically in the node's log before the event
}

func newCfgShadow() *cfgShadow {
	return &cfgShadow{pay: map[string]uint64{}, last: map[uint64]string{}, started: map[[2]uint64]string{}, dist: map[string]int{},
		acked: map[uint64]map[uint64]uint64{}, ackedTerm: map[uint64]uint64{}, ghost: map[uint64][]string{}}
}

func (a *cfgShadow) entryLit(e *entry) string {
	switch e.typ {
	case entryNop:
		return fmt.Sprintf("(%d, PData 0)", e.term)
	case entryConfig:
		var cfg Config
		if err := cfg.decode(e); err != nil {
			a.bad = fmt.Sprintf("configuration entry %d does not decode: %v", e.index, err)
			return fmt.Sprintf("(%d, PCfg [])", e.term)
		}
		return fmt.Sprintf("(%d, PCfg [%s])", e.term, cfgVoters(cfg))
	}
	k := fmt.Sprintf("%d/%x", e.typ, e.data)
	id, ok := a.pay[k]
	if !ok {
		id = uint64(len(a.pay) + 1)
		a.pay[k] = id
	}
	return fmt.Sprintf("(%d, PData %d)", e.term, id)
}

func cfgVoters(cfg Config) string {
	var ids []uint64
	for id, nd := range cfg.Nodes {
		if nd.Voter {
			ids = append(ids, id)
		}
	}
	sort.Slice(ids, func(i, j int) bool { return ids[i] < ids[j] })
	var s []string
	for _, id := range ids {
		s = append(s, fmt.Sprint(id))
	}
	return strings.Join(s, ";")
}

// realLits: the entries physically in the log, from impl index max(prev+1, 2)
func (a *cfgShadow) realLits(n *simNode) []string {
	r := n.r
	var es []string
	from := r.log.PrevIndex() + 1
	if from < 2 {
		from = 2
	}
	for i := from; i <= r.log.LastIndex(); i++ {
		e := &entry{}
		if err := r.storage.getEntry(i, e); err != nil {
			a.bad = fmt.Sprintf("node %d: entry %d unreadable: %v", r.nid, i, err)
			break
		}
		es = append(es, a.entryLit(e))
	}
	return es
}

// logLits: the logical log = what compaction removed ++ what is in the log
func (a *cfgShadow) logLits(n *simNode) []string {
	g := a.ghost[n.r.nid]
	if uint64(len(g)) != sat1(n.r.log.PrevIndex()) {
		a.bad = fmt.Sprintf("node %d: %d compacted entries remembered, log starts after %d", n.r.nid, len(g), n.r.log.PrevIndex())
	}
	return append(append([]string{}, g...), a.realLits(n)...)
}

// compacted: the event moved the start of n's log; remember what was removed
func (a *cfgShadow) compacted(n *simNode, h absHint) {
	id := n.r.nid
	np := n.r.log.PrevIndex()
	if np <= a.prePrev {
		return
	}
	if h.kind == "install" && uint64(len(h.absK)) == sat1(np) {
		a.ghost[id] = append([]string{}, h.absK...) // the log now starts right after the installed snapshot
		return
	}
	first := a.prePrev + 1
	if first < 2 {
		first = 2
	}
	k := int(np + 1 - first)
	if k < 0 || k > len(a.preReal) {
		a.bad = fmt.Sprintf("node %d: log start moved from %d to %d, %d entries were held", id, a.prePrev, np, len(a.preReal))
		return
	}
	a.ghost[id] = append(a.ghost[id], a.preReal[:k]...)
}

// cfgCrashEnabled: Abs/CfgRaft.v has the durable prefix, flush and crash steps (observations carry the durable
// prefix and the runs contain crashes)
var cfgCrashEnabled = true

// cfgCutEnabled: Abs/CfgRaft.v has STrunc / ARecvCut (requests cut by their connection in these runs)
var cfgCutEnabled = true

func (a *cfgShadow) obs(n *simNode) string {
	r := n.r
	if cfgCrashEnabled {
		fl := sat1(log.VerifFlushed(r.log))
		if sn := sat1(r.snaps.index); sn > fl {
			fl = sn // what a snapshot covers is durable
		}
		return fmt.Sprintf("(mkO %d %s [%s] %d%%nat %d%%nat)", r.term, absRole(r.state), strings.Join(a.logLits(n), ";"), fl, sat1(r.commitIndex))
	}
	return fmt.Sprintf("(mkO %d %s [%s] %d%%nat)", r.term, absRole(r.state), strings.Join(a.logLits(n), ";"), sat1(r.commitIndex))
}

func (a *cfgShadow) areq(q *appendReq, es []*entry) string {
	pterm := q.prevLogTerm
	if q.prevLogIndex <= 1 {
		pterm = 0
	}
	var lits []string
	for _, e := range es {
		if e.index >= 2 {
			lits = append(lits, a.entryLit(e))
		}
	}
	return fmt.Sprintf("(mkReq %d %d %d%%nat %d [%s] %d%%nat)", q.term, q.src, sat1(q.prevLogIndex), pterm, strings.Join(lits, ";"), sat1(q.ldrCommitIndex))
}

func (a *cfgShadow) before(n *simNode) {
	a.preTerm, a.preRole, a.preCommit = n.r.term, n.r.state, n.r.commitIndex
	a.prePrev = n.r.log.PrevIndex()
	a.preReal = a.realLits(n)
	a.preLog = a.logLits(n)
}

// start: every bootstrapped node is in term 1
func (a *cfgShadow) start(c *simCluster) {
	var acts []string
	for _, id := range c.ids {
		if n := c.nodes[id]; n != nil && n.r.term > 0 {
			acts = append(acts, fmt.Sprintf("AStepdown %d %d", id, n.r.term))
		}
	}
	a.emit(c, acts, 0)
}

func (a *cfgShadow) emit(c *simCluster, acts []string, id uint64) {
	var obs []string
	for _, oid := range c.ids {
		o := c.nodes[oid]
		if o == nil || o.dead {
			continue
		}
		p := a.obs(o)
		if oid == id || a.last[oid] != p {
			obs = append(obs, fmt.Sprintf("(%d,%s)", oid, p))
			a.last[oid] = p
		}
	}
	for _, x := range acts {
		a.dist[strings.Fields(x)[0]]++
	}
	a.items = append(a.items, fmt.Sprintf("([%s], [%s])", strings.Join(acts, "; "), strings.Join(obs, ";")))
}

// record: called after an event on node n (all role transitions done)
func (a *cfgShadow) record(c *simCluster, n *simNode, ev string, h absHint) {
	r := n.r
	id := r.nid
	var acts []string
	if r.log.PrevIndex() != a.prePrev {
		a.compacted(n, h)
	}
	post := a.logLits(n)
	termSet := false // an action below sets the node's term to r.term
	recvd := false   // the event was an accepted AppendEntries / InstallSnapshot request
	switch {
	case h.kind == "install" && h.granted:
		recvd = true
		acts = append(acts, fmt.Sprintf("AInstall %d %d %d [%s] %d%%nat", id, h.term, h.from, strings.Join(h.absK, ";"), sat1(r.commitIndex)))
		termSet = true
	case h.kind == "votereq" && h.granted:
		L, ok := a.started[[2]uint64{h.term, h.cand}]
		if !ok {
			a.bad = fmt.Sprintf("vote request (%d,%d) granted by node %d was never started", h.term, h.cand, id)
			L = ""
		}
		acts = append(acts, fmt.Sprintf("AGrant %d %d %d [%s]", id, h.term, h.cand, L))
		termSet = true
	case h.kind == "voteres":
		if r.term == a.preTerm && h.granted && a.preRole == Candidate {
			acts = append(acts, fmt.Sprintf("ACount %d %d", id, h.from))
			if r.state == Leader {
				acts = append(acts, fmt.Sprintf("AWin %d", id))
			}
		}
	case h.kind == "send" && h.req != nil:
		es := 0
		for _, e := range h.ents {
			if e.index >= 2 {
				es++
			}
		}
		acts = append(acts, fmt.Sprintf("ASend %d %d%%nat %d%%nat %d%%nat", id, sat1(h.req.prevLogIndex), es, sat1(h.req.ldrCommitIndex)))
	case h.kind == "recv" && h.req != nil && h.cut > 0:
		// the connection broke after h.cut-1 whole entries: they were handled if the request passed the term and
		// previous-entry checks (the answer is readErr either way)
		if h.req.term >= a.preTerm && a.prevOK(h.req) {
			acts = append(acts, fmt.Sprintf("ARecvCut %d %s %d%%nat", id, a.areq(h.req, h.ents), a.wholeAbs(h.ents, h.cut-1)))
			termSet = true
			recvd = true
		}
	case h.kind == "recv" && h.req != nil && h.granted:
		acts = append(acts, fmt.Sprintf("ARecv %d %s", id, a.areq(h.req, h.ents)))
		termSet = true
		recvd = true
	case h.kind == "ack" && r.term == a.preTerm && a.preRole == Leader:
		acts = append(acts, fmt.Sprintf("AAck %d %d %d%%nat", id, h.from, sat1(h.match)))
	case (strings.HasPrefix(ev, "ETimeout") || strings.HasPrefix(ev, "(ETimeoutNowReq")) && r.state == Candidate && r.term == a.preTerm+1:
		acts = append(acts, fmt.Sprintf("AStart %d", id))
		a.started[[2]uint64{r.term, id}] = strings.Join(post, ";")
		termSet = true
	}
	if r.term > a.preTerm && !termSet {
		acts = append([]string{fmt.Sprintf("AStepdown %d %d", id, r.term)}, acts...)
	}
	// what a leader appended (the no-op of a victory is part of AWin) and how far it committed
	wasOrIsLeader := (r.state == Leader || a.preRole == Leader && r.term == a.preTerm) && !recvd
	if h.kind == "ack" && a.preRole == Leader && r.term == a.preTerm {
		if a.acked[id] == nil || a.ackedTerm[id] != r.term {
			a.acked[id], a.ackedTerm[id] = map[uint64]uint64{}, r.term
		}
		if h.match > a.acked[id][h.from] {
			a.acked[id][h.from] = h.match
		}
	}
	if wasOrIsLeader {
		from := len(a.preLog)
		if a.preRole != Leader {
			from++ // the no-op
		}
		var appends []string
		if from <= len(post) && len(a.preLog) <= len(post) {
			for _, lit := range post[from:] {
				if i := strings.Index(lit, "PCfg ["); i >= 0 {
					appends = append(appends, fmt.Sprintf("AReconfig %d [%s]", id, strings.TrimSuffix(lit[i+6:], "])")))
				} else if i := strings.Index(lit, "PData "); i >= 0 {
					appends = append(appends, fmt.Sprintf("AClient %d %s", id, strings.TrimSuffix(lit[i+6:], ")")))
				}
			}
		}
		// abstract match index of a voter as the leader knows it (impl index; self: given)
		matchOf := func(vid, self uint64) uint64 {
			if vid == id {
				return self
			}
			if rp := n.l.repls[vid]; n.cur == Leader && rp != nil {
				return rp.status.matchIndex
			}
			if a.ackedTerm[id] == r.term {
				return a.acked[id][vid] // the leader has stepped down in this event: its bookkeeping is gone
			}
			return 0
		}
		quorumAt := func(voters []uint64, k, self uint64) []string { // voters known to hold impl index k
			var q []string
			for _, vid := range voters {
				if matchOf(vid, self) >= k {
					q = append(q, fmt.Sprint(vid))
				}
			}
			return q
		}
		// The commit index moves, configurations derived from pending actions are appended once their predecessor is
		// committed, and with a single voter an entry commits when it is appended: replay that order.  cur = impl commit index.
		cur := a.preCommit
		final := r.commitIndex
		for i, ap := range appends {
			x := uint64(from+i) + 2 // impl index of this entry
			if strings.HasPrefix(ap, "AReconfig") && cur < x-1 && final >= 2 {
				// what the leader could commit before appending it, under the configuration then in force
				voters := a.votersOf(c, post[:from+i])
				var ms []uint64
				for _, vid := range voters {
					ms = append(ms, matchOf(vid, x-1))
				}
				sort.Slice(ms, func(p, q int) bool { return ms[p] > ms[q] })
				if len(ms) > 0 {
					k1 := ms[len(ms)/2]
					if k1 > final {
						k1 = final
					}
					if k1 > x-1 {
						k1 = x - 1
					}
					if k1 > cur && k1 >= 2 {
						acts = append(acts, fmt.Sprintf("ACommit %d %d%%nat [%s]", id, sat1(k1), strings.Join(quorumAt(voters, k1, x-1), ";")))
						cur = k1
					}
				}
			}
			acts = append(acts, ap)
		}
		if final > cur && final >= 2 {
			last := uint64(len(post)) + 1 // impl index of the leader's last entry
			acts = append(acts, fmt.Sprintf("ACommit %d %d%%nat [%s]", id, sat1(final), strings.Join(quorumAt(a.votersOf(c, post), final, last), ";")))
		}
	}
	a.emit(c, acts, id)
}

// prevOK: the request's previous entry matches the node's log as it was before the event
func (a *cfgShadow) prevOK(q *appendReq) bool {
	pi := int(sat1(q.prevLogIndex))
	if pi == 0 {
		return true
	}
	if pi > len(a.preLog) {
		return false
	}
	var t uint64
	if _, err := fmt.Sscanf(a.preLog[pi-1], "(%d,", &t); err != nil {
		return false
	}
	return t == q.prevLogTerm
}

// wholeAbs: how many of the first k entries of the request are abstract entries (impl index >= 2)
func (a *cfgShadow) wholeAbs(es []*entry, k int) int {
	n := 0
	for i, e := range es {
		if i < k && e.index >= 2 {
			n++
		}
	}
	return n
}

// votersOf: the voter list of the last configuration entry among the abstract entries, else the bootstrap voters
func (a *cfgShadow) votersOf(c *simCluster, lits []string) []uint64 {
	for i := len(lits) - 1; i >= 0; i-- {
		if j := strings.Index(lits[i], "PCfg ["); j >= 0 {
			var vs []uint64
			for _, x := range strings.Split(strings.TrimSuffix(lits[i][j+6:], "])"), ";") {
				if v, err := strconv.ParseUint(strings.TrimSpace(x), 10, 64); err == nil {
					vs = append(vs, v)
				}
			}
			return vs
		}
	}
	var vs []uint64
	for _, id := range sortedIDs(c.boot) {
		if c.boot[id].Voter {
			vs = append(vs, id)
		}
	}
	return vs
}

func (a *cfgShadow) closing(c *simCluster) {
	a.last = map[uint64]string{}
	a.emit(c, nil, 0)
}

const cfgCaseHeader = "From Coq Require Import List NArith.\nFrom Verif Require Import Abs.RaftBase Abs.CfgBase Abs.CfgRaft Abs.CfgRun Abs.CfgExec.\nImport ListNotations.\nOpen Scope N_scope.\n"

func cfgMain(args []string) int {
	if len(args) < 4 {
		fmt.Fprintln(os.Stderr, "usage: vh raft cfg <seed> <sequences> <steps> <outdir>")
		return 2
	}
	seed, _ := strconv.ParseInt(args[0], 10, 64)
	nseq, _ := strconv.Atoi(args[1])
	nsteps, _ := strconv.Atoi(args[2])
	out := args[3]
	rnd := rand.New(rand.NewSource(seed))
	w := newCaseWriter("cfgnode", nodeCaseHeader, "ncase")
	var errs, findings, samples []string
	dist := map[string]int{}
	desc := map[string]string{}
	total, nfiles := 0, 0
	var defs []string
	flush := func() {
		if len(defs) == 0 {
			return
		}
		var sb strings.Builder
		sb.WriteString(cfgCaseHeader)
		var rs []string
		for _, d := range defs {
			parts := strings.SplitN(d, "\x00", 3)
			sb.WriteString(fmt.Sprintf("Definition t%s : list item := [\n%s].\n", parts[0], parts[2]))
			rs = append(rs, fmt.Sprintf("(%s%%nat, match run_hist %s t%s with HOk _ => (0%%nat, 0%%nat) | HFail k c => (S k, c) end)", parts[0], parts[1], parts[0]))
		}
		sb.WriteString("Definition R := Eval vm_compute in [" + strings.Join(rs, "; ") + "].\nPrint R.\n")
		if err := ioutil.WriteFile(filepath.Join(out, fmt.Sprintf("cases_cfg_%d.v", nfiles)), []byte(sb.String()), 0644); err != nil {
			panic(err)
		}
		nfiles++
		defs = nil
	}
	finish := func(c *simCluster, id int, what string, voters []uint64) {
		if c.cfg.bad != "" {
			errs = append(errs, c.cfg.bad)
			return
		}
		var vs []string
		for _, v := range voters {
			vs = append(vs, fmt.Sprint(v))
		}
		desc[strconv.Itoa(id)] = fmt.Sprintf("run %d (%s): %d nodes, bootstrap voters [%s], %d events", id, what, len(c.ids), strings.Join(vs, ";"), len(c.cfg.items))
		defs = append(defs, fmt.Sprintf("%d\x00[%s]\x00%s", id, strings.Join(vs, ";"), strings.Join(c.cfg.items, ";\n")))
		total += len(c.cfg.items)
		for k, v := range c.cfg.dist {
			dist[k] += v
		}
		if len(samples) < 3 && len(c.cfg.items) > 12 {
			samples = append(samples, strings.Join(c.cfg.items[8:11], "; "))
		}
		_ = ioutil.WriteFile(filepath.Join(out, fmt.Sprintf("cfg_run_%d.txt", id)), []byte(strings.Join(c.cfg.items, "\n")), 0644)
		if len(defs) >= 4 {
			flush()
		}
	}
	bootVoters := func(boot map[uint64]Node) []uint64 {
		var vs []uint64
		for _, id := range sortedIDs(boot) {
			if boot[id].Voter {
				vs = append(vs, id)
			}
		}
		return vs
	}
	// the scenario corpus: schedules with membership changes (crashes and snapshots are skipped in this mode)
	nsc := 0
	for _, sc := range scenarios {
		if sc.name == "bootstrap-after-voting" { // (that one delivers a hand-made vote request: not a history of real nodes)
			continue
		}
		nsc++
		c := newScenarioCluster(w, out, sc.size, seed)
		c.cfg = newCfgShadow()
		c.cfg.start(c)
		func() {
			defer func() {
				if v := recover(); v != nil {
					errs = append(errs, fmt.Sprintf("scenario %s: harness panic %v", sc.name, v))
				}
			}()
			c.note("scenario %s", sc.name)
			sc.run(c)
			c.cfg.closing(c)
		}()
		c.close()
		finish(c, nsc, "scenario "+sc.name, bootVoters(c.boot))
	}
	for s := 0; s < nseq; s++ {
		c := &simCluster{rnd: rnd, w: w, base: simTempDir(out, "cf"), opt: simOptions(1 << 16), nodes: map[uint64]*simNode{}, dirs: map[uint64]string{},
			epoch: map[uint64]int{}, reqs: map[*replication]*appendReq{}, pipes: map[[2]uint64][]*simMsg{}, await: map[[2]uint64]int{}, piping: map[[2]uint64]bool{}, upd: map[uint64][]replUpdate{},
			tasks: map[uint64][]*simTask{}, asked: map[uint64]map[uint64]bool{}, respCh: map[uint64]chan rpcResponse{},
			elected: map[uint64]uint64{}, entries: map[[2]uint64]string{}, committed: map[uint64]string{}, cfg: newCfgShadow(), calm: s%2 == 1, nosnap: s%4 == 0, slow: s%4 == 3}
		if s%3 != 0 {
			c.opt = simOptions(1024) // small segments: roll-over flushes, compaction, snapshot installation
		}
		size := []int{1, 2, 3, 3, 3, 4, 5}[rnd.Intn(7)]
		boot := map[uint64]Node{}
		for id := uint64(1); id <= uint64(size); id++ {
			boot[id] = Node{ID: id, Addr: fmt.Sprintf("M%d:8888", id), Voter: true}
		}
		c.boot = boot
		ok := true
		for id := uint64(1); id <= uint64(size); id++ {
			if err := c.addNode(id, boot); err != nil {
				errs = append(errs, err.Error())
				ok = false
			}
		}
		if ok {
			c.cfg.start(c)
			for k := 0; k < nsteps; k++ {
				c.step()
			}
			c.cfg.closing(c)
		}
		for _, n := range c.nodes {
			n.kill()
		}
		os.RemoveAll(c.base)
		if ok {
			finish(c, nsc+s+1, "random", bootVoters(boot))
		}
	}
	flush()
	findings = append(findings, w.findings...)
	sort.Strings(findings)
	meta := map[string]interface{}{"runs": nseq + nsc, "events": total, "files": nfiles, "dist": dist, "desc": desc, "samples": samples, "errors": errs,
		"findings": findings, "seed": seed}
	mb, _ := json.Marshal(meta)
	if err := ioutil.WriteFile(filepath.Join(out, "cfg_meta.json"), mb, 0644); err != nil {
		panic(err)
	}
	return 0
}
