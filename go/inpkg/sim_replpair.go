//go:build verif

package raft

import (
	"encoding/json"
	"fmt"
	"io/ioutil"
	"math/rand"
	"net"
	"os"
	"path/filepath"
	"runtime/debug"
	"strconv"
	"sync"
	"sync/atomic"
	"time"
)

// vh raft replpair <seed> <rounds> <outdir>
//
// The simulator re-implements the phases of replication.replicate (probe, pipeline writer and reader, draining); the
// skeleton check only says when their text changed.  This driver runs the REAL replication goroutine of a real leader
// against a REAL follower (server.handleConn + replyRPC) over buffered in-memory connections and holds the follower
// back at chosen moments: requests pile up in the pipeline, the replication is stopped or the connection is cut while
// answers are outstanding, the node leads again and reuses what its pool kept.  Oracle (the mechanism C06 names: "only a
// success reply for a request built from the leader's log raises matchIndex"): whatever match index the leader records
// for the follower, the follower's log reaches at least that far and agrees with the leader's log up to it.
func init() { verifCmds["replpair"] = replpairMain }

type pairFollower struct {
	r     *Raft
	s     *server
	stop  chan struct{}
	wg    sync.WaitGroup
	mu    sync.Mutex    // held while a request is being handled
	gated int32         // 1: wait for a token before handling each AppendEntries request
	token chan struct{} // one token = one request may be handled
}

func newPairFollower(dir string, opt Options, nodes map[uint64]Node) (*pairFollower, error) {
	if err := bootstrapDir(dir, 7, 2, opt, nodes); err != nil {
		return nil, err
	}
	r, err := New(opt, &simFSM{}, dir)
	if err != nil {
		return nil, err
	}
	f := &pairFollower{r: r, s: newServer(r, nil), stop: make(chan struct{}), token: make(chan struct{}, 1024)}
	go r.fsm.runLoop()
	f.wg.Add(1)
	go func() { // the rpcCh / disconnected cases of stateLoop
		defer f.wg.Done()
		for {
			select {
			case <-f.stop:
				return
			case <-r.disconnected:
			case rpc := <-r.rpcCh:
				if rpc.req.rpcType() == rpcAppendEntries && atomic.LoadInt32(&f.gated) == 1 {
					select {
					case <-f.token:
					case <-f.stop:
						return
					}
				}
				f.mu.Lock()
				func() {
					defer func() { _ = recover() }()
					r.replyRPC(rpc)
				}()
				f.mu.Unlock()
			}
		}
	}()
	return f, nil
}

func (f *pairFollower) close() {
	close(f.s.stopCh)
	close(f.stop)
	f.wg.Wait()
	_ = f.r.lastApplied() // the state machine goroutine has finished every apply it was handed (it reads the mapped log)
	close(f.r.fsm.ch)
	_ = f.r.log.Close()
}

type replPair struct {
	n        *simNode
	f        *pairFollower
	cmd      chan func()
	quit     chan struct{}
	done     chan struct{}
	down     chan struct{} // closed at teardown: dials to the node that does not exist fail then
	mu       sync.Mutex
	conns    []*bufConn // leader-side ends of the connections to the follower
	findings []string
	maxMatch uint64
	updates  int
	blockF   int32 // 1: the follower cannot be reached (dials fail)
}

// onLeaderLoop runs fn in the goroutine that owns the leader's state (the stand-in for stateLoop) and waits for it.
func (p *replPair) onLeaderLoop(fn func()) bool {
	ran := make(chan struct{})
	select {
	case p.cmd <- func() { fn(); close(ran) }:
	case <-time.After(20 * time.Second):
		return false
	}
	select {
	case <-ran:
		return true
	case <-time.After(60 * time.Second):
		return false
	}
}

func (p *replPair) oracle(what string) {
	n := p.n
	if n.cur != Leader {
		return
	}
	rp := n.l.repls[2]
	if rp == nil {
		return
	}
	m := rp.status.matchIndex
	if m > p.maxMatch {
		p.maxMatch = m
	}
	p.f.mu.Lock()
	flast := p.f.r.lastLogIndex
	bad := ""
	if m > flast {
		bad = fmt.Sprintf("%s: the leader (term %d) records match index %d for voter 2, whose log ends at %d", what, n.r.term, m, flast)
	} else if m > 0 {
		le, fe := &entry{}, &entry{}
		if n.r.storage.getEntry(m, le) == nil && p.f.r.storage.getEntry(m, fe) == nil && le.term != fe.term {
			bad = fmt.Sprintf("%s: the leader records match index %d for voter 2, whose entry there has term %d, the leader's has term %d", what, m, fe.term, le.term)
		}
	}
	p.f.mu.Unlock()
	if bad != "" && len(p.findings) < 5 {
		p.findings = append(p.findings, "C06|match-index-beyond-follower-log|"+bad+"|")
	}
}

func (p *replPair) pump() {
	defer close(p.done)
	for {
		var ch chan replUpdate
		if p.n.cur == Leader && !p.n.dead {
			ch = p.n.l.replUpdateCh
		}
		select {
		case <-p.quit:
			return
		case fn := <-p.cmd:
			fn()
		case u := <-ch:
			func() {
				defer func() {
					if v := recover(); v != nil && len(p.findings) < 5 {
						p.findings = append(p.findings, fmt.Sprintf("C15|panic replpair|leader panicked handling a replication update: %v %s|", v, string(debug.Stack())))
					}
				}()
				p.n.l.checkReplUpdates(u)
				p.n.settle()
			}()
			p.updates++
			p.oracle("after a replication update")
		}
	}
}

func (p *replPair) dial(network, address string, timeout time.Duration) (net.Conn, error) {
	if address == "M2:8888" && atomic.LoadInt32(&p.blockF) == 1 {
		time.Sleep(2 * time.Millisecond)
		return nil, fmt.Errorf("replpair: %s is unreachable", address)
	}
	if address != "M2:8888" {
		select {
		case <-p.down:
		case <-time.After(timeout):
		}
		return nil, fmt.Errorf("replpair: %s is down", address)
	}
	c1, c2 := bufPipe()
	p.mu.Lock()
	p.conns = append(p.conns, c1)
	p.mu.Unlock()
	go func() { _ = p.f.s.handleConn(c2); _ = c2.Close() }()
	return c1, nil
}

func (p *replPair) cutConns() {
	p.mu.Lock()
	for _, c := range p.conns {
		_ = c.Close()
	}
	p.conns = nil
	p.mu.Unlock()
}

// lead makes the node leader of a new term with the follower's vote (real vote request over the real pool).
func (p *replPair) lead() bool {
	ok := p.onLeaderLoop(func() {
		if p.n.cur == Leader {
			return
		}
		p.n.timeout()
	})
	if !ok {
		return false
	}
	deadline := time.Now().Add(10 * time.Second)
	for time.Now().Before(deadline) {
		isLeader := false
		p.onLeaderLoop(func() {
			if p.n.cur != Candidate {
				isLeader = p.n.cur == Leader
				return
			}
			select {
			case v := <-p.n.c.respCh:
				p.n.voteResult(v)
			default:
			}
			isLeader = p.n.cur == Leader
		})
		if isLeader {
			return true
		}
		time.Sleep(2 * time.Millisecond)
	}
	return false
}

// leadWithout makes the node leader of a new term with the (invented) vote of node 3; the follower is not asked.
func (p *replPair) leadWithout() bool {
	deadline := time.Now().Add(10 * time.Second)
	started := false
	for time.Now().Before(deadline) {
		isLeader := false
		p.onLeaderLoop(func() {
			if p.n.cur == Leader {
				isLeader = true
				return
			}
			if !started || p.n.cur == Follower {
				p.n.timeout()
				started = true
				return
			}
			select {
			case v := <-p.n.c.respCh:
				p.n.voteResult(v)
			default:
				p.n.voteResult(rpcResponse{response: &voteResp{resp{p.n.r.term, success, nil}}, from: 3})
			}
			isLeader = p.n.cur == Leader
		})
		if isLeader {
			return true
		}
		time.Sleep(2 * time.Millisecond)
	}
	return false
}

// staleTail appends k entries of a leader that never existed (node 3, term t) to the follower's log: an uncommitted tail
// that the real leader's entries must replace.
func (p *replPair) staleTail(t uint64, k int) bool {
	f := p.f
	f.mu.Lock()
	defer f.mu.Unlock()
	li, lt := f.r.lastLogIndex, f.r.lastLogTerm
	var es []*entry
	for i := 0; i < k; i++ {
		es = append(es, &entry{index: li + 1 + uint64(i), term: t, typ: entryUpdate, data: []byte{9, byte(i)}})
	}
	q := &appendReq{req: req{t, 3}, prevLogIndex: li, prevLogTerm: lt, numEntries: uint64(k)}
	cn, _ := simConn(wireReq(q, wireEntries(es)))
	b, err := cn.bufr.ReadByte()
	if err != nil {
		return false
	}
	rpc := &rpc{req: rpcType(b).createReq(), conn: cn, done: make(chan struct{})}
	ok := true
	func() {
		defer func() {
			if recover() != nil {
				ok = false
			}
		}()
		f.r.replyRPC(rpc)
	}()
	return ok && rpc.resp != nil && rpc.resp.getResult() == success
}

func (p *replPair) stepDown() {
	p.onLeaderLoop(func() {
		if p.n.cur != Leader {
			return
		}
		p.n.r.setState(Follower)
		p.n.r.setLeader(0)
		p.n.settle()
	})
}

func (p *replPair) appendEntries(k int) {
	p.onLeaderLoop(func() {
		if p.n.cur != Leader {
			return
		}
		var head, tail *newEntry
		for i := 0; i < k; i++ {
			ne := UpdateFSM([]byte{byte(i), byte(p.updates), 7}).newEntry()
			if tail != nil {
				tail.next, tail = ne, ne
			} else {
				head, tail = ne, ne
			}
		}
		p.n.l.storeEntry(head)
	})
}

func (p *replPair) waitMatch(atLeast uint64, d time.Duration) bool {
	deadline := time.Now().Add(d)
	for time.Now().Before(deadline) {
		var m uint64
		p.onLeaderLoop(func() {
			if p.n.cur == Leader && p.n.l.repls[2] != nil {
				m = p.n.l.repls[2].status.matchIndex
			}
		})
		if m >= atLeast {
			return true
		}
		time.Sleep(3 * time.Millisecond)
	}
	return false
}

func (p *replPair) lastIndex() (li uint64) {
	p.onLeaderLoop(func() { li = p.n.r.lastLogIndex })
	return
}

func replpairRound(rnd *rand.Rand, base string, round int, dist map[string]int) (findings []string) {
	opt := simOptions(1 << 16)
	opt.HeartbeatTimeout = 120 * time.Millisecond
	nodes := map[uint64]Node{}
	for id := uint64(1); id <= 3; id++ {
		nodes[id] = Node{ID: id, Addr: fmt.Sprintf("M%d:8888", id), Voter: true}
	}
	dl, df := filepath.Join(base, fmt.Sprintf("l%d", round)), filepath.Join(base, fmt.Sprintf("f%d", round))
	if err := bootstrapDir(dl, 7, 1, opt, nodes); err != nil {
		return []string{"C15|replpair-setup|" + err.Error() + "|"}
	}
	f, err := newPairFollower(df, opt, nodes)
	if err != nil {
		return []string{"C15|replpair-setup|" + err.Error() + "|"}
	}
	n, err := newSimNode(dl, 7, 1, opt)
	if err != nil {
		f.close()
		return []string{"C15|replpair-setup|" + err.Error() + "|"}
	}
	p := &replPair{n: n, f: f, cmd: make(chan func()), quit: make(chan struct{}), done: make(chan struct{}), down: make(chan struct{})}
	n.r.dialFn = p.dial
	go p.pump()
	defer func() {
		close(p.down)
		p.cutConns()
		p.onLeaderLoop(func() { p.n.kill() })
		close(p.quit)
		<-p.done
		atomic.StoreInt32(&f.gated, 0)
		f.close()
		findings = append(findings, p.findings...)
	}()
	if !p.lead() {
		dist["replpair/no-leader"]++
		return
	}
	if !p.waitMatch(p.lastIndex(), 5*time.Second) {
		dist["replpair/no-initial-match"]++
		return
	}
	scenario := round % 4
	switch scenario {
	case 0:
		// answers outstanding in the pipeline, the follower handles ONE more request, then the connection is cut
		atomic.StoreInt32(&f.gated, 1)
		for b := 0; b < 12; b++ {
			p.appendEntries(5 + rnd.Intn(10))
			time.Sleep(time.Millisecond)
		}
		time.Sleep(20 * time.Millisecond)
		f.token <- struct{}{}
		time.Sleep(30 * time.Millisecond)
		p.cutConns()
		time.Sleep(30 * time.Millisecond)
		p.onLeaderLoop(func() { p.oracle("after the connection was cut with answers outstanding") })
		// the follower comes back: everything is replicated in the end
		atomic.StoreInt32(&f.gated, 0)
		for i := 0; i < 64; i++ {
			select {
			case f.token <- struct{}{}:
			default:
			}
		}
		if !p.waitMatch(p.lastIndex(), 10*time.Second) {
			dist["replpair/no-final-match"]++
		}
	case 1, 2:
		// the replication is stopped (the leader steps down) with answers outstanding; they arrive afterwards (case 1: in time
		// to be drained, case 2: too late); the node leads again and replicates through whatever its pool kept
		atomic.StoreInt32(&f.gated, 1)
		for b := 0; b < 6; b++ {
			p.appendEntries(3 + rnd.Intn(6))
			time.Sleep(time.Millisecond)
		}
		time.Sleep(20 * time.Millisecond)
		released := make(chan struct{})
		go func() {
			if scenario == 2 {
				time.Sleep(150 * time.Millisecond)
			} else {
				time.Sleep(5 * time.Millisecond)
			}
			atomic.StoreInt32(&f.gated, 0)
			for i := 0; i < 64; i++ {
				select {
				case f.token <- struct{}{}:
				default:
				}
			}
			close(released)
		}()
		p.stepDown()
		<-released
		time.Sleep(30 * time.Millisecond)
		if !p.lead() {
			dist["replpair/no-second-leadership"]++
			return
		}
		p.appendEntries(2)
		time.Sleep(60 * time.Millisecond)
		p.onLeaderLoop(func() { p.oracle("in the second leadership") })
		if !p.waitMatch(p.lastIndex(), 10*time.Second) {
			dist["replpair/no-final-match"]++
		}
	case 3:
		// the follower holds a longer, stale tail (entries of a deposed leader); it is unreachable while the node leads again
		// and appends; when it can be reached, the first probe matches the common prefix and the follower reports its longer
		// log: only what the probe proved may count as matched
		atomic.StoreInt32(&p.blockF, 1)
		p.cutConns()
		p.stepDown()
		var t uint64
		p.onLeaderLoop(func() { t = p.n.r.term })
		if !p.staleTail(t+1, 4+rnd.Intn(4)) {
			dist["replpair/no-stale-tail"]++
			return
		}
		p.onLeaderLoop(func() { p.n.timeout() }) // term t+1: lost; the next election is for a term above the stale entries
		p.onLeaderLoop(func() {
			if p.n.cur == Candidate {
				p.n.timeout()
			}
		})
		if !p.leadWithout() {
			dist["replpair/no-second-leadership"]++
			return
		}
		for b := 0; b < 4; b++ {
			p.appendEntries(2 + rnd.Intn(3))
			time.Sleep(3 * time.Millisecond)
		}
		time.Sleep(80 * time.Millisecond) // the replication is in its retry loop and has seen the leader's updates
		atomic.StoreInt32(&p.blockF, 0)
		if !p.waitMatch(p.lastIndex(), 10*time.Second) {
			dist["replpair/no-final-match"]++
		}
	}
	p.onLeaderLoop(func() { p.oracle("at the end") })
	dist[fmt.Sprintf("replpair/scenario-%d", scenario)]++
	dist["replpair/updates"] += p.updates
	return
}

func replpairMain(args []string) int {
	if len(args) < 3 {
		fmt.Fprintln(os.Stderr, "usage: vh raft replpair <seed> <rounds> <outdir>")
		return 2
	}
	seed, _ := strconv.ParseInt(args[0], 10, 64)
	rounds, _ := strconv.Atoi(args[1])
	out := args[2]
	rnd := rand.New(rand.NewSource(seed))
	base, _ := ioutil.TempDir(out, "replpair")
	defer os.RemoveAll(base)
	dist := map[string]int{}
	var findings []string
	for i := 0; i < rounds; i++ {
		atomic.AddInt64(&simBeat, 1)
		simDoing.Store(fmt.Sprintf("replpair round %d", i))
		findings = append(findings, replpairRound(rnd, base, i, dist)...)
	}
	meta := map[string]interface{}{"seed": seed, "rounds": rounds, "dist": dist, "findings": findings}
	mb, _ := json.Marshal(meta)
	_ = ioutil.WriteFile(filepath.Join(out, "replpair_meta.json"), mb, 0644)
	return 0
}
