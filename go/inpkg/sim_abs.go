//go:build verif

package raft

// Abstract shadow of the cluster simulator: every event executed on the real
// nodes is reported to the abstract protocol model (coq/Abs/Raft.v) as an
// abstract event plus the projection of the nodes' states onto the abstract
// state; coq/Abs/Exec.v (proved sound) decides whether the observed history is a
// run of the abstract protocol.  This is the tie between the abstract safety
// theorems (C01-C04, C06) and the code.
//
// Projection (static voter set, no snapshots, all nodes bootstrapped with the
// same entry 1, which the abstract model does not have):
//   abstract index = index - 1;  abstract log = entries 2..last as (term, payload id);
//   flushed/commit = flushed-1 / commitIndex-1 (saturating).

import (
	"bytes"
	"encoding/json"
	"fmt"
	"io/ioutil"
	"math/rand"
	"os"
	"path/filepath"
	"sort"
	"strconv"
	"strings"

	"github.com/santhosh-tekuri/raft/log"
)

func init() { verifCmds["abs"] = absMain }

type absHint struct {
	kind    string   // "votereq", "voteres", "send", "recv", "ack", "install"
	absK    []string // install: the log prefix the snapshot stands for (abstract entries)
	term    uint64
	cand    uint64
	from    uint64
	granted bool
	req     *appendReq
	ents    []*entry
	match   uint64
	cut     int // recv: 1 + number of entries handled before the connection broke (0 = the whole request)
}

// absCutEnabled: cut requests also in runs under the abstract shadow (needs ARecvCut in Abs/Exec.v)
var absCutEnabled = true

type absShadow struct {
	pay     map[string]uint64
	events  []string
	last    map[uint64]string // node -> last listed projection
	preTerm uint64
	// logical logs: the abstract log keeps what compaction removed
	ghost   map[uint64][]string // node -> abstract entries of impl indices 2..log.PrevIndex()
	prePrev uint64
	preEnts []string // abstract entries of the event node's real log before the event (impl indices prePrev+1..last)
	dist    map[string]int
	bad     string // the projection cannot be taken (compaction in static mode etc.)
}

func newAbsShadow() *absShadow {
	return &absShadow{pay: map[string]uint64{}, last: map[uint64]string{}, dist: map[string]int{}, ghost: map[uint64][]string{}}
}

func sat1(x uint64) uint64 {
	if x == 0 {
		return 0
	}
	return x - 1
}

func (a *absShadow) payload(e *entry) uint64 {
	k := fmt.Sprintf("%d/%x", e.typ, e.data)
	if id, ok := a.pay[k]; ok {
		return id
	}
	id := uint64(len(a.pay) + 1)
	a.pay[k] = id
	return id
}

func (a *absShadow) entryLits(es []*entry) []string {
	var p []string
	for _, e := range es {
		p = append(p, fmt.Sprintf("(%d,%d)", e.term, a.payload(e)))
	}
	return p
}

func (a *absShadow) entries(es []*entry) string {
	return "[" + strings.Join(a.entryLits(es), ";") + "]"
}

// realEntries: the entries physically in the log, from impl index max(prev+1, 2)
func (a *absShadow) realEntries(n *simNode) []*entry {
	r := n.r
	var es []*entry
	from := r.log.PrevIndex() + 1
	if from < 2 {
		from = 2
	}
	for i := from; i <= r.log.LastIndex(); i++ {
		e := &entry{}
		if err := r.storage.getEntry(i, e); err != nil {
			a.bad = fmt.Sprintf("node %d: entry %d unreadable: %v", r.nid, i, err)
			break
		}
		es = append(es, e)
	}
	return es
}

// logical: the abstract log of n = what compaction removed ++ what is in the log
func (a *absShadow) logical(n *simNode) []string {
	g := a.ghost[n.r.nid]
	if uint64(len(g)) != sat1(n.r.log.PrevIndex()) {
		a.bad = fmt.Sprintf("node %d: %d compacted entries remembered, log starts after %d", n.r.nid, len(g), n.r.log.PrevIndex())
	}
	return append(append([]string{}, g...), a.entryLits(a.realEntries(n))...)
}

func absRole(s State) string {
	switch s {
	case Candidate:
		return "Candidate"
	case Leader:
		return "Leader"
	}
	return "Follower"
}

// obs of one live node
func (a *absShadow) obs(n *simNode) string {
	r := n.r
	// what a snapshot covers is durable
	fl := sat1(log.VerifFlushed(r.log))
	if s := sat1(r.snaps.index); s > fl {
		fl = s
	}
	return fmt.Sprintf("(mkO %d %d %s [%s] %d%%nat %d%%nat)", r.term, r.votedFor, absRole(r.state), strings.Join(a.logical(n), ";"),
		fl, sat1(r.commitIndex))
}

func (a *absShadow) areq(q *appendReq, es []*entry) string {
	prev := q.prevLogIndex
	pterm := q.prevLogTerm
	if prev <= 1 {
		pterm = 0
	}
	var keep []*entry
	for _, e := range es {
		if e.index >= 2 {
			keep = append(keep, e)
		}
	}
	return fmt.Sprintf("(mkReq %d %d %d%%nat %d %s %d%%nat)", q.term, q.src, sat1(prev), pterm, a.entries(keep), sat1(q.ldrCommitIndex))
}

func decodeAppendWire(wire []byte) (*appendReq, []*entry) {
	rd := bytes.NewReader(wire[1:])
	q := &appendReq{}
	if err := q.decode(rd); err != nil {
		return nil, nil
	}
	var es []*entry
	for k := uint64(0); k < q.numEntries; k++ {
		e := &entry{}
		if err := e.decode(rd); err != nil {
			return nil, nil
		}
		es = append(es, e)
	}
	return q, es
}

// before: called at the start of an event on node n
func (a *absShadow) before(n *simNode) {
	a.preTerm = n.r.term
	a.prePrev = n.r.log.PrevIndex()
	a.preEnts = a.entryLits(a.realEntries(n))
}

// compacted: the event moved the start of n's log; remember what was removed
func (a *absShadow) compacted(n *simNode, h absHint) {
	id := n.r.nid
	np := n.r.log.PrevIndex()
	if np <= a.prePrev {
		return
	}
	if h.kind == "install" && uint64(len(h.absK)) == sat1(np) {
		// the log now starts right after the installed snapshot: its compacted prefix is what the snapshot stands for
		a.ghost[id] = append([]string{}, h.absK...)
		return
	}
	// own compaction: a prefix of the log as it was before the event
	first := a.prePrev + 1 // impl index of preEnts[0] ...
	if first < 2 {
		first = 2
	}
	k := int(np + 1 - first) // number of entries removed from the front of preEnts
	if k < 0 || k > len(a.preEnts) {
		a.bad = fmt.Sprintf("node %d: log start moved from %d to %d, %d entries were held", id, a.prePrev, np, len(a.preEnts))
		return
	}
	a.ghost[id] = append(a.ghost[id], a.preEnts[:k]...)
}

// record: called after an event on node n (all role transitions done)
func (a *absShadow) record(c *simCluster, n *simNode, ev string, h absHint, crashed bool) {
	id := n.r.nid
	var lit string
	r := n.r
	if !crashed {
		a.compacted(n, h)
	}
	switch {
	case crashed:
		lit = fmt.Sprintf("ACrash %d %d%%nat", id, sat1(r.commitIndex))
	case h.kind == "install" && h.granted:
		lit = fmt.Sprintf("AInstall %d %d %d [%s] %d%%nat", id, h.term, h.from, strings.Join(h.absK, ";"), sat1(r.commitIndex))
	case h.kind == "votereq":
		lit = fmt.Sprintf("AVoteReq %d %d %d %s", id, h.term, h.cand, coqBool(h.granted))
	case h.kind == "voteres":
		lit = fmt.Sprintf("AVoteRes %d %d %s", id, h.from, coqBool(h.granted))
	case h.kind == "send" && h.req != nil:
		lit = fmt.Sprintf("ASend %d %s", id, a.areq(h.req, h.ents))
	case h.kind == "recv" && h.req != nil && h.cut > 0:
		lit = fmt.Sprintf("ARecvCut %d %s %d%%nat", id, a.areq(h.req, h.ents), h.cut-1)
	case h.kind == "recv" && h.req != nil:
		lit = fmt.Sprintf("ARecv %d %s", id, a.areq(h.req, h.ents))
	case h.kind == "ack":
		lit = fmt.Sprintf("AAck %d %d %d%%nat", id, h.from, sat1(h.match))
	case (strings.HasPrefix(ev, "ETimeout") || strings.HasPrefix(ev, "(ETimeoutNowReq")) && r.state == Candidate && r.term == a.preTerm+1:
		lit = fmt.Sprintf("AStart %d", id)
	default:
		lit = fmt.Sprintf("AOther %d", id)
	}
	a.dist[strings.Fields(lit)[0]]++
	// projections: the event's node, and every node whose projection changed since it was last listed
	var obs []string
	for _, oid := range c.ids {
		o := c.nodes[oid]
		if o == nil || o.dead {
			continue
		}
		p := a.obs(o)
		if oid == id || a.last[oid] != p {
			obs = append(obs, fmt.Sprintf("(%d,%s)", oid, p))
			a.last[oid] = p
		}
	}
	a.events = append(a.events, fmt.Sprintf("(%s, [%s])", lit, strings.Join(obs, ";")))
}

// full listing of every node, appended as a last pseudo-event
func (a *absShadow) closing(c *simCluster) {
	if len(c.ids) == 0 {
		return
	}
	var obs []string
	first := uint64(0)
	for _, oid := range c.ids {
		o := c.nodes[oid]
		if o == nil || o.dead {
			continue
		}
		if first == 0 {
			first = oid
		}
		obs = append(obs, fmt.Sprintf("(%d,%s)", oid, a.obs(o)))
	}
	if first != 0 {
		a.events = append(a.events, fmt.Sprintf("(AOther %d, [%s])", first, strings.Join(obs, ";")))
	}
}

const absCaseHeader = "From Coq Require Import List NArith.\nFrom Verif Require Import Abs.RaftBase Abs.Raft Abs.Exec.\nImport ListNotations.\nOpen Scope N_scope.\n"

// vh raft abs <seed> <sequences> <steps> <outdir>
func absMain(args []string) int {
	if len(args) < 4 {
		fmt.Fprintln(os.Stderr, "usage: vh raft abs <seed> <sequences> <steps> <outdir>")
		return 2
	}
	seed, _ := strconv.ParseInt(args[0], 10, 64)
	nseq, _ := strconv.Atoi(args[1])
	nsteps, _ := strconv.Atoi(args[2])
	out := args[3]
	rnd := rand.New(rand.NewSource(seed))
	w := newCaseWriter("absnode", nodeCaseHeader, "ncase") // the per-event node cases of these runs (not evaluated here)
	var errs, findings []string
	dist := map[string]int{}
	var samples []string
	desc := map[string]string{}
	total := 0
	perFile := 4
	var defs []string
	nfiles := 0
	flush := func() {
		if len(defs) == 0 {
			return
		}
		var sb strings.Builder
		sb.WriteString(absCaseHeader)
		var rs []string
		for _, d := range defs {
			parts := strings.SplitN(d, "\x00", 3)
			sb.WriteString(fmt.Sprintf("Definition t%s : list (aevent * list (N * obs)) := [\n%s].\n", parts[0], parts[2]))
			rs = append(rs, fmt.Sprintf("(%s%%nat, match run %s t%s with ROk _ => (0%%nat, 0%%nat) | RFail k c => (S k, c) end)", parts[0], parts[1], parts[0]))
		}
		sb.WriteString("Definition R := Eval vm_compute in [" + strings.Join(rs, "; ") + "].\nPrint R.\n")
		if err := ioutil.WriteFile(filepath.Join(out, fmt.Sprintf("cases_abs_%d.v", nfiles)), []byte(sb.String()), 0644); err != nil {
			panic(err)
		}
		nfiles++
		defs = nil
	}
	finish := func(c *simCluster, id int, what string, nvoters int) {
		if c.abs.bad != "" {
			errs = append(errs, c.abs.bad)
			return
		}
		var voters []string
		for v := 1; v <= nvoters; v++ {
			voters = append(voters, fmt.Sprint(v))
		}
		desc[strconv.Itoa(id)] = fmt.Sprintf("run %d (%s): %d nodes (%d voters), %d abstract events", id, what, len(c.ids), nvoters, len(c.abs.events))
		defs = append(defs, fmt.Sprintf("%d\x00[%s]\x00%s", id, strings.Join(voters, ";"), strings.Join(c.abs.events, ";\n")))
		total += len(c.abs.events)
		for k, v := range c.abs.dist {
			dist[k] += v
		}
		if len(samples) < 3 && len(c.abs.events) > 12 {
			samples = append(samples, strings.Join(c.abs.events[8:11], "; "))
		}
		// keep the event list of each run for the replay
		_ = ioutil.WriteFile(filepath.Join(out, fmt.Sprintf("abs_run_%d.txt", id)), []byte(strings.Join(c.abs.events, "\n")), 0644)
		if len(defs) >= perFile {
			flush()
		}
	}
	// the corpus first: targeted schedules without membership changes or snapshots
	nsc := 0
	for _, sc := range scenarios {
		if !sc.static {
			continue
		}
		nsc++
		c := newScenarioCluster(w, out, sc.size, seed)
		c.static, c.abs = true, newAbsShadow()
		func() {
			defer func() {
				if v := recover(); v != nil {
					errs = append(errs, fmt.Sprintf("scenario %s: harness panic %v", sc.name, v))
				}
			}()
			c.note("scenario %s", sc.name)
			sc.run(c)
			c.abs.closing(c)
		}()
		c.close()
		finish(c, nsc, "scenario "+sc.name, sc.size)
	}
	for s := 0; s < nseq; s++ {
		c := &simCluster{rnd: rnd, w: w, base: simTempDir(out, "ab"), opt: simOptions(1 << 16), nodes: map[uint64]*simNode{}, dirs: map[uint64]string{},
			epoch: map[uint64]int{}, reqs: map[*replication]*appendReq{}, pipes: map[[2]uint64][]*simMsg{}, await: map[[2]uint64]int{}, piping: map[[2]uint64]bool{}, upd: map[uint64][]replUpdate{},
			tasks: map[uint64][]*simTask{}, asked: map[uint64]map[uint64]bool{}, respCh: map[uint64]chan rpcResponse{},
			elected: map[uint64]uint64{}, entries: map[[2]uint64]string{}, committed: map[uint64]string{}, static: true, abs: newAbsShadow(), calm: s%2 == 1, nosnap: s%4 == 0}
		if s%3 == 2 {
			c.opt = simOptions(1024) // small segments: roll-over flushes
		}
		size := []int{1, 2, 3, 3, 3, 4, 5}[rnd.Intn(7)]
		nonvoters := 0
		if size >= 3 && rnd.Intn(3) == 0 {
			nonvoters = 1
		}
		boot := map[uint64]Node{}
		for id := uint64(1); id <= uint64(size); id++ {
			boot[id] = Node{ID: id, Addr: fmt.Sprintf("M%d:8888", id), Voter: id <= uint64(size-nonvoters)}
		}
		c.boot = boot
		ok := true
		for id := uint64(1); id <= uint64(size); id++ {
			if err := c.addNode(id, boot); err != nil {
				errs = append(errs, err.Error())
				ok = false
			}
		}
		if ok {
			for k := 0; k < nsteps; k++ {
				c.step()
			}
			c.abs.closing(c)
		}
		for _, n := range c.nodes {
			n.kill()
		}
		os.RemoveAll(c.base)
		if ok {
			finish(c, nsc+s+1, "random", size-nonvoters)
		}
	}
	flush()
	findings = append(findings, w.findings...)
	sort.Strings(findings)
	meta := map[string]interface{}{"runs": nseq + nsc, "events": total, "files": nfiles, "dist": dist, "desc": desc, "samples": samples, "errors": errs,
		"findings": findings, "seed": seed}
	mb, _ := json.Marshal(meta)
	if err := ioutil.WriteFile(filepath.Join(out, "abs_meta.json"), mb, 0644); err != nil {
		panic(err)
	}
	return 0
}
