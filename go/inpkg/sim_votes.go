//go:build verif

package raft

import (
	"bytes"
	"fmt"
	"path/filepath"
	"runtime"
	"strings"
	"sync"
	"time"
)

// The vote requests of an election are written by goroutines the candidate starts.  Their dials
// succeed in the simulator: the connection answers the identity check, records the vote request
// that follows, and then stays silent until the role ends.  The recorded bytes are what the
// simulator delivers to the other nodes (so the requests the model's cases see are the real ones),
// and at the instant a request is written the durable term and vote of its sender are read back
// from its directory: a candidate must not ask for votes in a term it has not persisted together
// with its own vote.

type simPeerConn struct {
	simNetConn
	n     *simNode
	peer  uint64
	abort chan struct{}
	mu    sync.Mutex
	in    []byte // written by the node, not yet parsed
	out   chan []byte
	rest  []byte
}

func (p *simPeerConn) Write(b []byte) (int, error) {
	p.mu.Lock()
	defer p.mu.Unlock()
	p.in = append(p.in, b...)
	for len(p.in) > 0 {
		typ := rpcType(p.in[0])
		if typ != rpcIdentity && typ != rpcVote {
			return len(b), nil // nothing else is sent on these connections
		}
		rd := bytes.NewReader(p.in[1:])
		q := typ.createReq()
		if err := q.decode(rd); err != nil {
			return len(b), nil // incomplete: wait for more
		}
		used := len(p.in) - rd.Len()
		wire := append([]byte(nil), p.in[:used]...)
		p.in = p.in[used:]
		switch q := q.(type) {
		case *identityReq:
			buf := new(bytes.Buffer)
			_ = (&identityResp{resp{0, success, nil}}).encode(buf)
			p.out <- buf.Bytes()
		case *voteReq:
			p.n.voteWritten(p.peer, q, wire)
		}
	}
	return len(b), nil
}

func (p *simPeerConn) Read(b []byte) (int, error) {
	if len(p.rest) == 0 {
		select {
		case d := <-p.out:
			p.rest = d
		case <-p.abort:
			return 0, errSimAbort
		}
	}
	k := copy(b, p.rest)
	p.rest = p.rest[k:]
	return k, nil
}

func calledFromElection() bool {
	pcs := make([]uintptr, 40)
	k := runtime.Callers(2, pcs)
	frames := runtime.CallersFrames(pcs[:k])
	for {
		f, more := frames.Next()
		if strings.Contains(f.Function, "startElection") {
			return true
		}
		if !more {
			return false
		}
	}
}

type simVotes struct {
	mu     sync.Mutex
	sent   map[uint64][]byte // peer -> the latest vote request written to it (wire form)
	alarms []string
}

// durableTermVote reads the term file names in the node's directory (the value is the file name).
func (n *simNode) durableTermVote() (pairs [][2]uint64) {
	matches, _ := filepath.Glob(filepath.Join(n.dir, "*.term"))
	for _, m := range matches {
		var t, v uint64
		if _, err := fmt.Sscanf(strings.TrimSuffix(filepath.Base(m), ".term"), "%d-%d", &t, &v); err == nil {
			pairs = append(pairs, [2]uint64{t, v})
		}
	}
	return
}

func (n *simNode) voteWritten(peer uint64, q *voteReq, wire []byte) {
	pairs := n.durableTermVote()
	n.votes.mu.Lock()
	defer n.votes.mu.Unlock()
	if n.votes.sent == nil {
		n.votes.sent = map[uint64][]byte{}
	}
	n.votes.sent[peer] = wire
	if len(pairs) == 0 {
		return // between the two names of a rename: nothing to conclude
	}
	ok := false
	for _, p := range pairs {
		if p[0] > q.term || p[0] == q.term && p[1] == q.src {
			ok = true
		}
	}
	if !ok {
		n.votes.alarms = append(n.votes.alarms, fmt.Sprintf("node %d wrote a vote request for term %d to node %d while its durable (term, vote) is %v", q.src, q.term, peer, pairs))
	}
}

func (n *simNode) takeVoteAlarms() []string {
	n.votes.mu.Lock()
	defer n.votes.mu.Unlock()
	a := n.votes.alarms
	n.votes.alarms = nil
	return a
}

// sentVote waits (briefly) for the vote request of the given term to the peer.
func (n *simNode) sentVote(peer, term uint64) ([]byte, *voteReq) {
	for i := 0; i < 400; i++ {
		n.votes.mu.Lock()
		w := n.votes.sent[peer]
		n.votes.mu.Unlock()
		if w != nil {
			q := &voteReq{}
			if err := q.decode(bytes.NewReader(w[1:])); err == nil && q.term == term {
				return w, q
			}
		}
		time.Sleep(250 * time.Microsecond)
	}
	return nil, nil
}

// simGrantingVote replaces storage's grantingVote seam: the instant just before a term and vote are
// persisted.  When a node votes for itself (an election starts) the goroutines that write its vote
// requests get time to run, so that requests written too early are seen by voteWritten.
func simGrantingVote(s *storage, term, candidate uint64) error {
	if candidate == s.nid {
		time.Sleep(400 * time.Microsecond)
	}
	return nil
}
