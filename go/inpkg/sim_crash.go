//go:build verif

package raft

import (
	"context"
	"fmt"
	"io/ioutil"
	"math/rand"
	"os"
	"path/filepath"
	"strconv"
	"strings"
	"time"

	"github.com/santhosh-tekuri/raft/log"
)

// vh raft crashsim <seed> <sequences> <steps> <outdir>
//
// The cluster simulator with crash imaging: while a node executes an event, its storage
// directory is copied at every verifPoint of the raft and log packages (between any two storage
// operations of the handlers: vote, append, truncate, commit flush, snapshot store, log reset,
// compaction, bootstrap).  Every copy is a process-kill image: it is restarted with the real
// New (+ the restore Serve does) and judged: starts, term/vote not older than acknowledged,
// acknowledged entries retained, log contiguous with the snapshot, and it can take part again
// (an append and a vote request from a newer leader are handled without assertion).
func init() { verifCmds["crashsim"] = crashsimMain }

var simImgHook func(name string)

type crashPre struct {
	term, voted, flushed, commit, snap uint64
	terms                              map[uint64]uint64 // index -> term of entries known flushed
	bound                              uint64            // entries <= bound are not legitimately touched by the event
}

type crashImager struct {
	c        *simCluster
	base     string
	images   int
	failures int
	points   map[string]int
}

func copyTree(src, dst string) error {
	return filepath.Walk(src, func(p string, info os.FileInfo, err error) error {
		if err != nil {
			return nil // files may vanish while we walk (unlink in progress)
		}
		rel, _ := filepath.Rel(src, p)
		if info.IsDir() {
			return os.MkdirAll(filepath.Join(dst, rel), 0700)
		}
		if info.Name() == "lock" {
			return nil
		}
		b, err := ioutil.ReadFile(p)
		if err != nil {
			return nil
		}
		return ioutil.WriteFile(filepath.Join(dst, rel), b, 0600)
	})
}

func (im *crashImager) pre(n *simNode, bound uint64) crashPre {
	r := n.r
	p := crashPre{term: r.term, voted: r.votedFor, flushed: log.VerifFlushed(r.log), commit: r.commitIndex, snap: r.snaps.index,
		terms: map[uint64]uint64{}, bound: bound}
	for i := r.log.PrevIndex() + 1; i <= p.flushed && i <= r.log.LastIndex(); i++ {
		e := &entry{}
		if r.storage.getEntry(i, e) == nil {
			p.terms[i] = e.term
		}
	}
	return p
}

// judge restarts one image and applies the oracle.
func (im *crashImager) judge(dir, point string, id uint64, pre crashPre, desc string) {
	c := im.c
	im.images++
	im.points[point]++
	var n2 *simNode
	var err error
	func() {
		defer func() {
			if v := recover(); v != nil {
				err = fmt.Errorf("panic: %v", v)
			}
		}()
		n2, err = newSimNode(dir, 7, id, c.opt)
	}()
	fail := func(sig, detail string) {
		im.failures++
		c.finding("C10", sig, fmt.Sprintf("crash at %s during %s on node %d: %s", point, desc, id, detail))
	}
	if err != nil {
		fail("restart-fails", err.Error())
		return
	}
	defer n2.kill()
	r := n2.r
	if r.term < pre.term || (r.term == pre.term && pre.voted != 0 && r.votedFor != pre.voted) {
		fail("term-vote-regressed", fmt.Sprintf("had (%d,%d), restarted with (%d,%d)", pre.term, pre.voted, r.term, r.votedFor))
	}
	// the next entry the node accepts is lastLogIndex+1: the log must be positioned exactly there
	if !(r.log.PrevIndex() <= r.snaps.index && r.snaps.index <= r.lastLogIndex && r.lastLogIndex == r.log.LastIndex()) {
		fail("log-not-contiguous-with-snapshot", fmt.Sprintf("prev %d snapshot %d lastLogIndex %d log.last %d", r.log.PrevIndex(), r.snaps.index, r.lastLogIndex, r.log.LastIndex()))
	}
	for i, t := range pre.terms {
		if i > pre.bound || i <= r.snaps.index {
			continue
		}
		e := &entry{}
		if !r.log.Contains(i) || r.storage.getEntry(i, e) != nil {
			fail("acknowledged-entry-lost", fmt.Sprintf("index %d (term %d) was flushed before the event and is gone", i, t))
			break
		}
		if e.term != t {
			fail("acknowledged-entry-changed", fmt.Sprintf("index %d had term %d, now %d", i, t, e.term))
			break
		}
	}
	// it can take part again: a newer leader continues its log, then asks for its vote
	term := r.term + 1
	ne := &entry{index: r.lastLogIndex + 1, term: term, typ: entryNop}
	q := &appendReq{req: req{term, 99}, prevLogIndex: r.lastLogIndex, prevLogTerm: r.lastLogTerm, ldrCommitIndex: r.commitIndex, numEntries: 1}
	res := n2.deliverRPC(wireReq(q, wireEntries([]*entry{ne})))
	if res.panicv != nil {
		fail("cannot-rejoin", fmt.Sprintf("append from a newer leader after restart: %v", res.panicv))
		return
	}
	if res.resp == nil || res.resp.getResult() != success {
		fail("cannot-rejoin", fmt.Sprintf("append continuing its own log refused: %v", res.resp))
	} else {
		got := &entry{}
		if err := r.storage.getEntry(ne.index, got); err != nil || got.term != term || got.index != ne.index {
			fail("cannot-rejoin", fmt.Sprintf("entry %d accepted after restart cannot be read back (err %v, got index %d term %d)", ne.index, err, got.index, got.term))
		}
	}
	v := n2.deliverRPC(wireReq(&voteReq{req: req{term + 1, 98}, lastLogIndex: r.lastLogIndex, lastLogTerm: r.lastLogTerm, transfer: true}, nil))
	if v.panicv != nil {
		fail("cannot-rejoin", fmt.Sprintf("vote request after restart: %v", v.panicv))
	}
}

func maxU(a, b uint64) uint64 {
	if a > b {
		return a
	}
	return b
}

// imaged runs fn (one event of node n) with crash imaging on.
func (im *crashImager) imaged(n *simNode, desc string, bound uint64, fn func()) {
	id := n.r.nid
	pre := im.pre(n, bound)
	var dirs, points []string
	k := 0
	busy := false
	simImgHook = func(name string) {
		if busy || len(dirs) >= 40 {
			return
		}
		busy = true
		defer func() { busy = false }()
		d := filepath.Join(im.base, fmt.Sprintf("img%d", k))
		k++
		_ = os.RemoveAll(d)
		if copyTree(n.dir, d) == nil {
			dirs = append(dirs, d)
			points = append(points, name)
		}
	}
	func() {
		defer func() { simImgHook = nil }()
		fn()
	}()
	simImgHook = nil
	for i, d := range dirs {
		im.judge(d, points[i], id, pre, desc)
		_ = os.RemoveAll(d)
	}
}

func crashsimMain(args []string) int {
	if len(args) < 4 {
		fmt.Fprintln(os.Stderr, "usage: vh raft crashsim <seed> <sequences> <steps> <outdir>")
		return 2
	}
	seed, _ := strconv.ParseInt(args[0], 10, 64)
	nseq, _ := strconv.Atoi(args[1])
	nsteps, _ := strconv.Atoi(args[2])
	out := args[3]
	w := newCaseWriter("crashsim", nodeCaseHeader, "ncase")
	rnd := rand.New(rand.NewSource(seed))
	log.VerifHook = func(name string) {
		if h := simImgHook; h != nil {
			h("log." + name)
		}
	}
	defer func() { log.VerifHook = nil }()
	tot := &crashImager{points: map[string]int{}}
	root := out
	if st, err := os.Stat("/dev/shm"); err == nil && st.IsDir() {
		root = "/dev/shm"
	}
	// the corpus first, with imaging
	for _, sc := range scenarios {
		c := newScenarioCluster(w, root, sc.size, seed)
		im := &crashImager{c: c, base: simTempDir(root, "crimg"), points: tot.points}
		c.imager = im
		func() {
			defer func() {
				if v := recover(); v != nil {
					w.findings = append(w.findings, fmt.Sprintf("C15|scenario-panic %s|scenario %s: harness panic %v|", sc.name, sc.name, v))
				}
			}()
			sc.run(c)
		}()
		tot.images += im.images
		tot.failures += im.failures
		os.RemoveAll(im.base)
		c.close()
	}
	for s := 0; s < nseq; s++ {
		size := []int{1, 3, 3, 3}[rnd.Intn(4)]
		c := newScenarioCluster(w, root, size, rnd.Int63())
		c.rnd = rnd
		im := &crashImager{c: c, base: simTempDir(root, "crimg"), points: tot.points}
		c.imager = im
		for k := 0; k < nsteps; k++ {
			c.step()
		}
		tot.images += im.images
		tot.failures += im.failures
		os.RemoveAll(im.base)
		c.close()
	}
	// a process that dies while serving leaves its lock file behind: can the node be served again?
	func() {
		dir := simTempDir(root, "crlock")
		defer os.RemoveAll(dir)
		if err := SetIdentity(dir, 7, 1); err != nil {
			return
		}
		if err := lockDir(dir); err != nil { // what Serve did before the process was killed
			return
		}
		r, err := New(simOptions(1024), &simFSM{}, dir)
		if err != nil {
			w.findings = append(w.findings, "C10|restart-fails|New on a directory with a stale lock file: "+err.Error()+"|")
			return
		}
		l := newBlockedListener()
		done := make(chan error, 1)
		go func() { done <- r.Serve(l) }()
		select {
		case err := <-done:
			if err == ErrLockExists {
				w.findings = append(w.findings, "C10|stale-lock|after a crash of the serving process the lock file remains and Serve returns ErrLockExists|")
			}
		case <-time.After(2 * time.Second):
			_ = r.Shutdown(context.Background())
			<-done
		}
		_ = l.Close()
		_ = r.log.Close()
		tot.images++
	}()
	var pts []string
	for k, v := range tot.points {
		pts = append(pts, fmt.Sprintf("%s=%d", k, v))
	}
	w.flush(out, 250, map[string]interface{}{"seed": seed, "errors": nil, "images": tot.images, "image_failures": tot.failures, "points": strings.Join(pts, " ")})
	return 0
}
