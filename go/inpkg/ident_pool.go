//go:build verif

package raft

import (
	"bufio"
	"bytes"
	"encoding/json"
	"fmt"
	"io/ioutil"
	"math/rand"
	"net"
	"os"
	"path/filepath"
	"strconv"
	"strings"
	"sync"
	"time"
)

// One REAL connPool (getConn / doRPC / returnConn) against a scripted peer: does the reply a call
// returns answer the request that call wrote, how many connections are pooled afterwards, how many
// dials were needed.  The peer answers the identity check and then every vote request with a
// reply carrying the request's term (= its tag): at once, only after the caller's deadline has
// passed, or never (it closes the connection).  The connection is buffered like a socket, so a
// late reply sits there for whoever reads next.

type bufHalf struct {
	mu       sync.Mutex
	cond     *sync.Cond
	buf      bytes.Buffer
	closed   bool
	deadline time.Time
}

func newBufHalf() *bufHalf { h := &bufHalf{}; h.cond = sync.NewCond(&h.mu); return h }

type bufTimeout struct{}

func (bufTimeout) Error() string   { return "i/o timeout" }
func (bufTimeout) Timeout() bool   { return true }
func (bufTimeout) Temporary() bool { return true }

func (h *bufHalf) read(b []byte) (int, error) {
	h.mu.Lock()
	defer h.mu.Unlock()
	for h.buf.Len() == 0 {
		if h.closed {
			return 0, fmt.Errorf("EOF: connection closed")
		}
		d := h.deadline
		if !d.IsZero() {
			if !time.Now().Before(d) {
				return 0, bufTimeout{}
			}
			t := time.AfterFunc(time.Until(d)+time.Millisecond, func() { h.mu.Lock(); h.cond.Broadcast(); h.mu.Unlock() })
			h.cond.Wait()
			t.Stop()
		} else {
			h.cond.Wait()
		}
	}
	return h.buf.Read(b)
}

func (h *bufHalf) write(b []byte) (int, error) {
	h.mu.Lock()
	defer h.mu.Unlock()
	if h.closed {
		return 0, fmt.Errorf("write on closed connection")
	}
	h.buf.Write(b)
	h.cond.Broadcast()
	return len(b), nil
}

func (h *bufHalf) close() { h.mu.Lock(); h.closed = true; h.cond.Broadcast(); h.mu.Unlock() }

type bufConn struct {
	in, out *bufHalf
}

func bufPipe() (*bufConn, *bufConn) {
	a, b := newBufHalf(), newBufHalf()
	return &bufConn{in: a, out: b}, &bufConn{in: b, out: a}
}
func (c *bufConn) Read(b []byte) (int, error)  { return c.in.read(b) }
func (c *bufConn) Write(b []byte) (int, error) { return c.out.write(b) }
func (c *bufConn) Close() error                { c.in.close(); c.out.close(); return nil }
func (c *bufConn) LocalAddr() net.Addr         { return simAddr{} }
func (c *bufConn) RemoteAddr() net.Addr        { return simAddr{} }
func (c *bufConn) SetDeadline(t time.Time) error {
	return c.SetReadDeadline(t)
}
func (c *bufConn) SetReadDeadline(t time.Time) error {
	c.in.mu.Lock()
	c.in.deadline = t
	c.in.cond.Broadcast()
	c.in.mu.Unlock()
	return nil
}
func (c *bufConn) SetWriteDeadline(time.Time) error { return nil }

// identPoolCases runs n scripted sequences; returns the IPool case literals.
func identPoolCases(rnd *rand.Rand, n int, id *int, desc map[string]string, dist map[string]int) (cases, findings []string) {
	scripts := [][]int{{0, 1, 0}, {1, 0, 0}, {0, 0, 1, 1, 0}, {2, 0, 1, 0, 2, 0}, {1, 1, 0, 0}}
	for i := 0; i < n; i++ {
		k := 3 + rnd.Intn(6)
		s := make([]int, k)
		for j := range s {
			s[j] = []int{0, 0, 0, 1, 1, 2}[rnd.Intn(6)]
		}
		scripts = append(scripts, s)
	}
	for _, script := range scripts {
		var mu sync.Mutex
		behaviour := map[uint64]int{}
		release := map[uint64]chan struct{}{}
		dials := 0
		pool := &connPool{src: 9, cid: 5, nid: 2, max: 1,
			resolver: &resolver{addrs: map[uint64]string{2: "anywhere:1"}, logger: nopLogger{}, alerts: nopAlerts{}},
			dialFn: func(network, address string, timeout time.Duration) (net.Conn, error) {
				mu.Lock()
				dials++
				mu.Unlock()
				c1, c2 := bufPipe()
				go func() { // the peer
					pc := &conn{rwc: c2, bufr: bufio.NewReader(c2), bufw: bufio.NewWriter(c2)}
					for {
						b, err := pc.bufr.ReadByte()
						if err != nil {
							return
						}
						q := rpcType(b).createReq()
						if err := q.decode(pc.bufr); err != nil {
							return
						}
						switch q := q.(type) {
						case *identityReq:
							_ = (&identityResp{resp{0, success, nil}}).encode(pc.bufw)
							_ = pc.bufw.Flush()
						case *voteReq:
							mu.Lock()
							bh, rel := behaviour[q.term], release[q.term]
							mu.Unlock()
							switch bh {
							case 1:
								<-rel // the caller has given up
							case 2:
								_ = c2.Close()
								return
							}
							_ = (&voteResp{resp{q.term, success, nil}}).encode(pc.bufw)
							_ = pc.bufw.Flush()
						}
					}
				}()
				return c1, nil
			}}
		var ops, obs []string
		for j, bh := range script {
			tag := uint64(j + 1)
			mu.Lock()
			behaviour[tag] = bh
			release[tag] = make(chan struct{})
			mu.Unlock()
			deadline := time.Now().Add(3 * time.Second)
			if bh == 1 {
				deadline = time.Now().Add(15 * time.Millisecond)
			}
			resp := &voteResp{}
			err := pool.doRPC(&voteReq{req: req{tag, 9}}, resp, deadline)
			got := uint64(0)
			if err == nil {
				got = resp.term
			}
			close(release[tag])
			time.Sleep(2 * time.Millisecond) // a late reply is now in the connection's buffer
			pool.mu.Lock()
			idle := len(pool.conns)
			pool.mu.Unlock()
			mu.Lock()
			d := dials
			mu.Unlock()
			ops = append(ops, fmt.Sprintf("(%d,%d)", tag, bh))
			obs = append(obs, fmt.Sprintf("(%d,%d,%d)", got, idle, d))
			if err == nil && got != tag {
				findings = append(findings, fmt.Sprintf("C01|reply-for-another-request|doRPC of the vote request for term %d returned the reply for term %d (script %v)", tag, got, script))
			}
			dist[fmt.Sprintf("pool/outcome=%d", bh)]++
		}
		pool.closeAll()
		*id++
		desc[fmt.Sprint(*id)] = fmt.Sprintf("pool script %v", script)
		cases = append(cases, fmt.Sprintf("IPool %d [%s] [%s]", *id, strings.Join(ops, ";"), strings.Join(obs, ";")))
	}
	_ = os.Stderr
	return
}

// vh raft pool <seed> <n> <outdir>: the pool cases alone (used by the election-safety check).
func init() { verifCmds["pool"] = poolMain }

func poolMain(args []string) int {
	if len(args) < 3 {
		fmt.Fprintln(os.Stderr, "usage: vh raft pool <seed> <n> <outdir>")
		return 2
	}
	seed, _ := strconv.ParseInt(args[0], 10, 64)
	n, _ := strconv.Atoi(args[1])
	out := args[2]
	rnd := rand.New(rand.NewSource(seed))
	desc, dist := map[string]string{}, map[string]int{}
	id := 0
	cases, findings := identPoolCases(rnd, n, &id, desc, dist)
	var sb strings.Builder
	sb.WriteString("From Coq Require Import List NArith.\nFrom Verif Require Import Ident.Ident Ident.Cases.\nImport ListNotations.\nOpen Scope N_scope.\n")
	sb.WriteString("Definition cases : list icase := [\n" + strings.Join(cases, ";\n") + "].\nDefinition M := Eval vm_compute in mismatches cases.\nPrint M.\n")
	if err := ioutil.WriteFile(filepath.Join(out, "cases_pool_0.v"), []byte(sb.String()), 0644); err != nil {
		panic(err)
	}
	meta := map[string]interface{}{"seed": seed, "cases": len(cases), "files": 1, "dist": dist, "desc": desc, "findings": findings}
	mb, _ := json.Marshal(meta)
	_ = ioutil.WriteFile(filepath.Join(out, "pool_meta.json"), mb, 0644)
	return 0
}
