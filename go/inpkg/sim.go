//go:build verif

package raft

import (
	"bufio"
	"bytes"
	"encoding/binary"
	"errors"
	"fmt"
	"io"
	"io/ioutil"
	"net"
	"os"
	"path/filepath"
	"runtime"
	"sort"
	"strings"
	"sync"
	"time"

	"github.com/santhosh-tekuri/raft/log"
)

// Deterministic handler-level simulator (DESIGN.md 3.3).  A simNode is a real
// *Raft built by the real New on a real storage directory, WITHOUT Serve: no
// listener and no stateLoop goroutine.  The harness plays scheduler and
// network and calls the same functions the select loop of stateLoop calls,
// in the order it chooses.  Goroutines the handlers spawn (vote RPCs,
// replication loops, timeout-now) park inside dial until the node's current
// role is released.

// ---- state machine used by the simulator: the free FSM (list of commands) ----

type simFSM struct {
	mu      sync.Mutex
	cmds    [][]byte
	updates int // number of Update calls over the life of this FSM value
	reads   int
	gate    chan struct{} // when set, Update waits for it to be closed
	held    int           // number of Update calls waiting at the gate
	// Restore: wait for restoreGate (when set), fail with restoreErr (when set)
	restoreGate chan struct{}
	restoreErr  error
}

func (f *simFSM) setGate(g chan struct{}) { f.mu.Lock(); f.gate = g; f.mu.Unlock() }
func (f *simFSM) waiting() int            { f.mu.Lock(); defer f.mu.Unlock(); return f.held }

func (f *simFSM) Update(cmd []byte) interface{} {
	f.mu.Lock()
	if g := f.gate; g != nil {
		f.held++
		f.mu.Unlock()
		<-g
		f.mu.Lock()
		f.held--
	}
	defer f.mu.Unlock()
	f.cmds = append(f.cmds, append([]byte{}, cmd...))
	f.updates++
	// a function of the command alone, so that the model can predict it (Node/Leader.v update_result)
	r := uint64(len(cmd)) * 256
	if len(cmd) > 0 {
		r += uint64(cmd[0])
	}
	return r
}

func (f *simFSM) Read(cmd interface{}) interface{} {
	f.mu.Lock()
	defer f.mu.Unlock()
	f.reads++
	return nil
}

type simFSMState struct{ cmds [][]byte }

func (s simFSMState) Persist(w io.Writer) error {
	var b [4]byte
	binary.LittleEndian.PutUint32(b[:], uint32(len(s.cmds)))
	if _, err := w.Write(b[:]); err != nil {
		return err
	}
	for _, c := range s.cmds {
		binary.LittleEndian.PutUint32(b[:], uint32(len(c)))
		if _, err := w.Write(b[:]); err != nil {
			return err
		}
		if _, err := w.Write(c); err != nil {
			return err
		}
	}
	return nil
}
func (s simFSMState) Release() {}

func (f *simFSM) Snapshot() (FSMState, error) {
	f.mu.Lock()
	defer f.mu.Unlock()
	return simFSMState{append([][]byte{}, f.cmds...)}, nil
}

func (f *simFSM) Restore(r io.Reader) error {
	f.mu.Lock()
	g, rerr := f.restoreGate, f.restoreErr
	f.mu.Unlock()
	if g != nil {
		<-g
	}
	if rerr != nil {
		return rerr // the contract: on error the state machine keeps the state it had
	}
	var b [4]byte
	if _, err := io.ReadFull(r, b[:]); err != nil {
		return err
	}
	n := binary.LittleEndian.Uint32(b[:])
	var cmds [][]byte
	for i := uint32(0); i < n; i++ {
		if _, err := io.ReadFull(r, b[:]); err != nil {
			return err
		}
		c := make([]byte, binary.LittleEndian.Uint32(b[:]))
		if _, err := io.ReadFull(r, c); err != nil {
			return err
		}
		cmds = append(cmds, c)
	}
	f.mu.Lock()
	f.cmds = cmds
	f.mu.Unlock()
	return nil
}

func (f *simFSM) snapshotCmds() [][]byte {
	f.mu.Lock()
	defer f.mu.Unlock()
	return append([][]byte{}, f.cmds...)
}

// ---- fake connection: deadlines are no-ops, reads come from a buffer ----

type simAddr struct{}

func (simAddr) Network() string { return "sim" }
func (simAddr) String() string  { return "sim" }

type simNetConn struct {
	r io.Reader
	w *bytes.Buffer
}

func (c *simNetConn) Read(b []byte) (int, error) {
	if c.r == nil {
		return 0, io.EOF
	}
	return c.r.Read(b)
}
func (c *simNetConn) Write(b []byte) (int, error)      { return c.w.Write(b) }
func (c *simNetConn) Close() error                     { return nil }
func (c *simNetConn) LocalAddr() net.Addr              { return simAddr{} }
func (c *simNetConn) RemoteAddr() net.Addr             { return simAddr{} }
func (c *simNetConn) SetDeadline(time.Time) error      { return nil }
func (c *simNetConn) SetReadDeadline(time.Time) error  { return nil }
func (c *simNetConn) SetWriteDeadline(time.Time) error { return nil }

func simConn(input []byte) (*conn, *bytes.Buffer) {
	w := new(bytes.Buffer)
	nc := &simNetConn{r: bytes.NewReader(input), w: w}
	return &conn{rwc: nc, bufr: bufio.NewReader(nc), bufw: bufio.NewWriter(nc)}, w
}

// ---- node ----

type simNode struct {
	r        *Raft
	f        *follower
	c        *candidate
	l        *leader
	fsm      *simFSM
	dir      string
	cur      State         // role whose init() ran last (the `state` variable of stateLoop)
	abort    chan struct{} // closed to make parked dials fail
	dead     bool
	stopped  bool // the node shut itself down (stateLoop returned)
	skipCase bool // the event just executed is outside the modelled fragment: no case is emitted for it
	snapReq  *simSnapReq
	votes    simVotes
}

var errSimAbort = errors.New("sim: dial aborted")

func simOptions(segsize int) Options {
	o := DefaultOptions()
	o.HeartbeatTimeout = time.Hour // timers never fire on their own: time-outs are events
	o.PromoteThreshold = time.Hour
	o.SnapshotInterval = 0
	o.SnapshotThreshold = 0
	o.LogSegmentSize = segsize
	o.Logger = nil
	o.ShutdownOnRemove = true
	return o
}

func newSimNode(dir string, cid, nid uint64, opt Options) (*simNode, error) {
	if err := os.MkdirAll(dir, 0700); err != nil {
		return nil, err
	}
	if err := SetIdentity(dir, cid, nid); err != nil {
		return nil, err
	}
	fsm := &simFSM{}
	r, err := New(opt, fsm, dir)
	if err != nil {
		return nil, err
	}
	n := &simNode{r: r, fsm: fsm, dir: dir, abort: make(chan struct{})}
	grantingVote = simGrantingVote
	r.dialFn = func(network, address string, timeout time.Duration) (net.Conn, error) {
		var peer uint64
		if _, err := fmt.Sscanf(address, "M%d:", &peer); err == nil && calledFromElection() {
			return &simPeerConn{n: n, peer: peer, abort: n.abortCh(), out: make(chan []byte, 4)}, nil
		}
		<-n.abortCh()
		return nil, errSimAbort
	}
	// the role objects are built by the real stateLoop: it is started, hands them over at
	// verifRoles and its goroutine ends there (before any defer is registered, before the loop)
	simRolesMu.Lock()
	got := make(chan struct{})
	VerifRolesHook = func(f *follower, c *candidate, l *leader) {
		n.f, n.c, n.l = f, c, l
		close(got)
		runtime.Goexit()
	}
	go r.stateLoop()
	<-got
	VerifRolesHook = nil
	simRolesMu.Unlock()
	go r.fsm.runLoop()
	// as Serve does
	if r.snaps.index > 0 {
		r.fsm.ch <- fsmRestoreReq{r.fsmRestoredCh}
		if err := <-r.fsmRestoredCh; err != nil {
			return nil, err
		}
		r.commitIndex = r.snaps.index
	}
	n.cur = r.state
	n.role().init()
	return n, nil
}

var simAbortMu sync.Mutex
var simRolesMu sync.Mutex

func (n *simNode) abortCh() chan struct{} {
	simAbortMu.Lock()
	defer simAbortMu.Unlock()
	return n.abort
}

// abortDials makes every goroutine parked in dial return with an error and
// installs a fresh gate for the next role.
func (n *simNode) abortDials() {
	simAbortMu.Lock()
	close(n.abort)
	n.abort = make(chan struct{})
	simAbortMu.Unlock()
}

type simRole interface {
	init()
	release()
	onTimeout()
}

func (n *simNode) role() simRole {
	switch n.cur {
	case Follower:
		return n.f
	case Candidate:
		return n.c
	}
	return n.l
}

// settle mirrors the outer loop of stateLoop: when the role changed, stop the
// timer, release the old role, init the new one.
func (n *simNode) settle() {
	if n.r.isClosed() && !n.stopped {
		// stateLoop returns: the deferred release of the current role, then Raft.release
		n.stopped = true
		n.releaseRole()
		if n.r.snapTakenCh != nil {
			// Raft.release waits for the snapshot in flight.  If the harness is holding the snapshot goroutine at
			// its gate, let it go (it would run concurrently in the real process); the model has no event for
			// "shutdown completes a pending snapshot", so this event is not compared (see simCluster.run)
			n.skipCase = true
			if q := n.snapReq; q != nil && !q.ran {
				q.ran = true
				close(q.gate)
			}
			n.snapReq = nil
		}
		n.r.release()
		n.barrier()
		return
	}
	for n.r.state != n.cur && !n.r.isClosed() {
		n.r.timer.stop()
		n.releaseRole()
		n.cur = n.r.state
		n.role().init()
	}
	n.barrier()
}

// releaseRole runs the current role's release().  leader.release waits for its
// replication goroutines, which sit in dial: keep failing their dials until it returns
// (a goroutine started a moment ago may reach dial only after the first abort).
func (n *simNode) releaseRole() {
	done := make(chan struct{})
	go func() {
		for {
			select {
			case <-done:
				return
			default:
				n.abortDials()
				time.Sleep(50 * time.Microsecond)
			}
		}
	}()
	n.role().release()
	close(done)
}

// barrier waits until the state-machine goroutine has drained its queue.
func (n *simNode) barrier() { _ = n.r.lastApplied() }

// kill drops the node the way a process kill would: nothing is flushed or closed.
func (n *simNode) kill() {
	if n.dead {
		return
	}
	n.dead = true
	// a snapshot goroutine still held at its gate stays there (the process is gone)
	n.abortDials()
	for id, repl := range n.l.repls {
		close(repl.stopCh)
		delete(n.l.repls, id)
	}
	close(n.r.fsm.ch)
}

// ---- events (bodies of the select cases of stateLoop) ----

type simResp struct {
	typ     rpcType
	resp    response
	readErr error
	panicv  interface{}
}

// deliverRPC hands a request, given as the bytes the dialer wrote on the wire
// (type byte, request, payload), to the node: server.handleConn's decoding of
// non-leader requests, then Raft.replyRPC, then the timer rule of stateLoop.
func (n *simNode) deliverRPC(wire []byte) (out simResp) {
	c, _ := simConn(wire)
	b, err := c.bufr.ReadByte()
	if err != nil {
		out.readErr = err
		return
	}
	rtype := rpcType(b)
	out.typ = rtype
	rpc := &rpc{req: rtype.createReq(), conn: c, done: make(chan struct{})}
	if !rtype.fromLeader() {
		if err := rpc.req.decode(c.bufr); err != nil {
			out.readErr = err
			return
		}
	}
	func() {
		defer func() {
			if v := recover(); v != nil {
				out.panicv = v
			}
		}()
		resetTimer := n.r.replyRPC(rpc)
		if n.r.state == Follower && resetTimer {
			n.f.resetTimer()
		}
	}()
	out.resp, out.readErr = rpc.resp, rpc.readErr
	if out.panicv == nil {
		n.settle()
	}
	return
}

func (n *simNode) timeout() (panicv interface{}) {
	defer func() {
		if v := recover(); v != nil {
			panicv = v
		}
	}()
	n.r.timer.active = false
	n.role().onTimeout()
	n.settle()
	return nil
}

func (n *simNode) voteResult(v rpcResponse) (panicv interface{}) {
	defer func() {
		if v := recover(); v != nil {
			panicv = v
		}
	}()
	n.c.onVoteResult(v)
	n.settle()
	return nil
}

// selfVote delivers the candidate's own vote queued by startElection, if any.
func (n *simNode) selfVote() (ok bool, panicv interface{}) {
	if n.cur != Candidate || n.c.respCh == nil {
		return false, nil
	}
	select {
	case v := <-n.c.respCh:
		return true, n.voteResult(v)
	default:
		return false, nil
	}
}

func (n *simNode) disconnected(nid uint64) {
	r := n.r
	if r.leader != 0 && nid != 0 && r.leader == nid {
		r.setLeader(0)
	}
}

// ---- wire encoders for requests built by the harness ----

func wireReq(req request, payload []byte) []byte {
	w := new(bytes.Buffer)
	w.WriteByte(byte(req.rpcType()))
	if err := req.encode(w); err != nil {
		panic(err)
	}
	w.Write(payload)
	return w.Bytes()
}

func wireEntries(es []*entry) []byte {
	w := new(bytes.Buffer)
	for _, e := range es {
		if err := e.encode(w); err != nil {
			panic(err)
		}
	}
	return w.Bytes()
}

// ---- state dump: the abstraction function (Appendix B of DESIGN.md) ----

func coqOptRound(r *round) string {
	if r == nil {
		return "None"
	}
	return fmt.Sprintf("(Some (mkRound %d %d %s))", r.Ordinal, r.LastIndex, coqBool(r.finished()))
}

func (n *simNode) dumpLeader() string {
	r, l := n.r, n.l
	if n.cur != Leader || n.stopped {
		return "None"
	}
	var q []string
	for ne := l.neHead; ne != nil; ne = ne.next {
		q = append(q, fmt.Sprintf("(mkNewEnt %d %d 0)", ne.index, uint8(ne.typ)))
	}
	ids := make([]uint64, 0, len(l.repls))
	for id := range l.repls {
		ids = append(ids, id)
	}
	sort.Slice(ids, func(i, j int) bool { return ids[i] < ids[j] })
	var rs []string
	for _, id := range ids {
		rp := l.repls[id]
		rs = append(rs, fmt.Sprintf("(mkRepl %d %d %s %s %d %s %d %d %d %d %d %s 0)", id, rp.status.matchIndex,
			coqBool(!rp.status.noContact.IsZero()), coqBool(rp.status.node.Voter), uint8(rp.status.node.Action),
			coqOptRound(rp.status.round), rp.status.removeLTE, rp.matchIndex, rp.nextIndex, rp.ldrLastIndex,
			viewPrev(rp), coqBool(rp.node.Voter)))
	}
	_ = r
	return fmt.Sprintf("(Some (mkLdr %s %s %d %d [%s] [%s] %s %d %d %s %s %d %d))",
		coqBool(l.node.ID != 0), coqBool(l.node.Voter), l.numVoters, l.startIndex, strings.Join(q, ";"), strings.Join(rs, ";"),
		coqBool(l.transfer.timer.active), l.transfer.term, l.transfer.target, coqBool(l.transfer.respCh != nil),
		coqBool(l.transfer.newTermTimer.active), len(l.waitStable), l.removeLTE)
}

func viewPrev(rp *replication) uint64 {
	if rp.log == nil {
		return 1<<64 - 1 // nil view (never legal): shows up as a mismatch
	}
	return rp.log.PrevIndex()
}

// flushedIndex: every entry <= it is covered by an on-disk segment header.
func (n *simNode) flushedIndex() uint64 {
	return log.VerifFlushed(n.r.log)
}

func (n *simNode) dump() string {
	r := n.r
	n.barrier()
	var es []string
	prev, last := r.log.PrevIndex(), r.log.LastIndex()
	for i := prev + 1; i <= last; i++ {
		e := &entry{}
		b, err := r.log.Get(i)
		if err != nil {
			es = append(es, fmt.Sprintf("(mkEntry 0 0 0 []) (* Get(%d): %v *)", i, err))
			continue
		}
		if err := e.decode(bytes.NewReader(b)); err != nil {
			es = append(es, fmt.Sprintf("(mkEntry 0 0 0 []) (* decode(%d): %v *)", i, err))
			continue
		}
		es = append(es, coqEntry(e))
	}
	snapcfg := Config{}
	if r.snaps.index > 0 {
		if meta, err := r.snaps.meta(); err == nil {
			snapcfg = meta.config
		}
	}
	votes := fmt.Sprintf("%d", n.c.votesNeeded)
	if n.c.votesNeeded < 0 {
		votes = fmt.Sprintf("(%d)", n.c.votesNeeded)
	}
	return fmt.Sprintf("(mkNode_ %d %d %d %d %d [%s] %d %d %d %d %d %s %s %s %d %d %d %s %s %s %s %d %d %s %s%%Z %s %s)",
		r.cid, r.nid, r.term, r.votedFor, prev, strings.Join(es, ";"), n.flushedIndex(), r.lastLogIndex, r.lastLogTerm,
		r.snaps.index, r.snaps.term, coqConfig(snapcfg), coqConfig(r.configs.Committed), coqConfig(r.configs.Latest),
		uint8(r.state), r.leader, r.commitIndex, coqBool(r.timer.active), coqBool(r.snapTakenCh != nil), n.dumpSnapReq(), coqBool(r.isClosed()),
		r.fsm.index, r.fsm.term, coqBool(n.f.electionAborted), votes, coqBool(n.c.transfer), n.dumpLeader())
}

// ---- snapshot task in flight (the goroutine's arguments are mirrored by the harness) ----

type simSnapReq struct {
	tid    int
	index  uint64 // fsm.index when the request reached the state machine
	term   uint64
	config Config
	gate   chan struct{}
	ran    bool
	// what the state machine must have answered (its reply is inside the goroutine until it
	// runs); when this prediction is wrong the ESnapRun case shows the disagreement
	expect string
}

func (n *simNode) dumpSnapReq() string {
	q := n.snapReq
	if q == nil || n.r.snapTakenCh == nil {
		return "None"
	}
	done := q.expect
	if q.ran {
		select {
		case t := <-n.r.snapTakenCh:
			n.r.snapTakenCh <- t
			switch {
			case t.err == ErrNoUpdates:
				done = "(SnapFail 1)"
			case t.err == ErrSnapshotThreshold:
				done = "(SnapFail 2)"
			case t.err != nil:
				done = "(SnapFail 3)"
			default:
				done = fmt.Sprintf("(SnapOk %d)", t.meta.index)
			}
		default:
		}
	}
	return fmt.Sprintf("(Some (mkSnapReqSt %d %d %d %s %s))", q.tid, q.index, q.term, coqConfig(q.config), done)
}

var (
	simGateMu   sync.Mutex
	simNextGate chan struct{}
	simArrived  chan struct{}
)

func init() {
	VerifHook = func(name string) {
		if name != "snapshot.start" {
			if h := simImgHook; h != nil {
				h(name)
			}
			return
		}
		simGateMu.Lock()
		g, a := simNextGate, simArrived
		simNextGate, simArrived = nil, nil
		simGateMu.Unlock()
		if g != nil {
			close(a)
			<-g
		}
	}
}

// takeSnapshot is the taskCh case for a takeSnapshot task; the goroutine it
// starts is held at its first statement until snapRun.
func (n *simNode) takeSnapshot(t takeSnapshot, tid int) {
	r := n.r
	busy := r.snapTakenCh != nil
	gate, arrived := make(chan struct{}), make(chan struct{})
	if !busy {
		simGateMu.Lock()
		simNextGate, simArrived = gate, arrived
		simGateMu.Unlock()
		n.snapReq = &simSnapReq{tid: tid, config: r.configs.Committed.clone(), gate: gate}
	}
	r.executeTask(t)
	if !busy {
		n.barrier() // the state machine has answered the request
		n.snapReq.index, n.snapReq.term = r.fsm.index, r.fsm.term
		switch {
		case r.fsm.index == r.snaps.index:
			n.snapReq.expect = "(SnapFail 1)"
		case r.fsm.index < r.snaps.index+t.threshold:
			n.snapReq.expect = "(SnapFail 2)"
		default:
			n.snapReq.expect = "SnapPending"
		}
	}
	if r.state == Follower && n.f.electionAborted {
		n.f.resetTimer()
	}
	if !busy {
		<-arrived
	}
}

// snapRun lets the snapshot goroutine run to completion.
func (n *simNode) snapRun() {
	q := n.snapReq
	if q == nil || q.ran {
		return
	}
	q.ran = true
	close(q.gate)
	for len(n.r.snapTakenCh) == 0 {
		time.Sleep(20 * time.Microsecond)
	}
}

func (n *simNode) snapTaken() {
	t := <-n.r.snapTakenCh
	n.r.onSnapshotTaken(t)
	n.snapReq = nil
}

// termFileMismatch: the persisted (term, votedFor) must be what the node holds in memory after
// every event (a granted vote is durable before the reply leaves).  Returns "" when they agree.
func (n *simNode) termFileMismatch() string {
	matches, _ := filepath.Glob(filepath.Join(n.dir, "*.term"))
	if len(matches) != 1 {
		return fmt.Sprintf("%d term files", len(matches))
	}
	name := strings.TrimSuffix(filepath.Base(matches[0]), ".term")
	want := fmt.Sprintf("%d-%d", n.r.term, n.r.votedFor)
	if name != want {
		return fmt.Sprintf("memory has term-vote %s, disk has %s", want, name)
	}
	return ""
}

// bootstrapDir writes the bootstrap entry (1,1) into a fresh storage directory,
// as a node that handled the bootstrap task would have.
func bootstrapDir(dir string, cid, nid uint64, opt Options, nodes map[uint64]Node) error {
	if err := os.MkdirAll(dir, 0700); err != nil {
		return err
	}
	if err := SetIdentity(dir, cid, nid); err != nil {
		return err
	}
	store, err := openStorage(dir, opt)
	if err != nil {
		return err
	}
	defer store.log.Close()
	return store.bootstrap(Config{Nodes: nodes, Index: 1, Term: 1})
}

func simTempDir(base, prefix string) string {
	d, err := ioutil.TempDir(base, prefix)
	if err != nil {
		panic(err)
	}
	return d
}
