//go:build verif

package raft

import (
	"bytes"
	"encoding/json"
	"fmt"
	"io/ioutil"
	"math/rand"
	"os"
	"path/filepath"
	"strconv"
	"strings"
	"sync/atomic"
)

// vh raft node1 <seed> <sequences> <steps> <outdir>
//
// One real node under an adversarial peer: sequences of vote / append /
// install-snapshot / timeout-now requests with any coordinates, election
// time-outs, vote results, disconnects and process kills.  Every event is
// printed as a Gallina case (coq/Node/Cases.v).
func init() { verifCmds["node1"] = node1Main }

type caseWriter struct {
	prefix   string
	header   string
	typ      string
	cases    []string
	desc     map[string]string
	kinds    map[string]string // case id -> event constructor
	dist     map[string]int
	nextID   int
	states   map[string]bool
	findings []string // oracle hits (property monitors on the implementation)
}

func newCaseWriter(prefix, header, typ string) *caseWriter {
	return &caseWriter{prefix: prefix, header: header, typ: typ, desc: map[string]string{}, kinds: map[string]string{}, dist: map[string]int{}, states: map[string]bool{}}
}

func (w *caseWriter) id(d string) int {
	w.nextID++
	w.desc[strconv.Itoa(w.nextID)] = d
	return w.nextID
}

func (w *caseWriter) flush(out string, shard int, extra map[string]interface{}) {
	nfiles := 0
	for s := 0; s < len(w.cases); s += shard {
		e := s + shard
		if e > len(w.cases) {
			e = len(w.cases)
		}
		var sb strings.Builder
		sb.WriteString(w.header)
		sb.WriteString("Definition cases : list " + w.typ + " := [\n")
		sb.WriteString(strings.Join(w.cases[s:e], ";\n"))
		sb.WriteString("].\nDefinition M := Eval vm_compute in mismatches cases.\nPrint M.\nDefinition U := Eval vm_compute in unsupported cases.\nPrint U.\n")
		if err := ioutil.WriteFile(filepath.Join(out, fmt.Sprintf("cases_%s_%d.v", w.prefix, nfiles)), []byte(sb.String()), 0644); err != nil {
			panic(err)
		}
		nfiles++
	}
	var samples []string
	for i := 0; i < len(w.cases) && len(samples) < 5; i += len(w.cases)/5 + 1 {
		c := w.cases[i]
		if len(c) > 700 {
			c = c[:700] + "..."
		}
		samples = append(samples, c)
	}
	meta := map[string]interface{}{"cases": len(w.cases), "files": nfiles, "dist": w.dist, "desc": w.desc, "kinds": w.kinds, "samples": samples,
		"distinct_states": len(w.states), "findings": w.findings}
	for k, v := range extra {
		meta[k] = v
	}
	mb, _ := json.Marshal(meta)
	if err := ioutil.WriteFile(filepath.Join(out, w.prefix+"_meta.json"), mb, 0644); err != nil {
		panic(err)
	}
}

const nodeCaseHeader = "From Coq Require Import List NArith ZArith.\nFrom Verif Require Import Base.Bytes Codec.Messages Node.Types Node.Handlers Node.Leader Node.Step Node.Cases Node.Snap.\nImport ListNotations.\nOpen Scope N_scope.\n"

func coqVoteReq(q *voteReq) string {
	return fmt.Sprintf("(mkVoteReq %d %d %d %d %s)", q.term, q.src, q.lastLogIndex, q.lastLogTerm, coqBool(q.transfer))
}

func coqEntries(es []*entry) string {
	var p []string
	for _, e := range es {
		p = append(p, coqEntry(e))
	}
	return "[" + strings.Join(p, ";") + "]"
}

func coqAppendReq(q *appendReq, es []*entry) string {
	return fmt.Sprintf("(mkAppendReq %d %d %d %d %d %s)", q.term, q.src, q.prevLogIndex, q.prevLogTerm, q.ldrCommitIndex, coqEntries(es))
}

// cutAppendWire cuts an append request that carries entries somewhere after its header: the result
// holds k < numEntries whole entries and possibly a part of the next one.
func cutAppendWire(rnd *rand.Rand, wire []byte) ([]byte, []*entry, bool) {
	rd := bytes.NewReader(wire[1:])
	q := &appendReq{}
	if err := q.decode(rd); err != nil || q.numEntries == 0 {
		return nil, nil, false
	}
	ends := []int{len(wire) - rd.Len()}
	var es []*entry
	for k := uint64(0); k < q.numEntries; k++ {
		e := &entry{}
		if err := e.decode(rd); err != nil {
			return nil, nil, false
		}
		es = append(es, e)
		ends = append(ends, len(wire)-rd.Len())
	}
	k := rnd.Intn(len(es))
	at := ends[k]
	if rnd.Intn(2) == 0 {
		at += rnd.Intn(ends[k+1] - ends[k]) // inside entry k+1
	}
	return append([]byte(nil), wire[:at]...), es[:k], true
}

func coqOptions(r *Raft, order []uint64) string {
	var o []string
	for _, id := range order {
		o = append(o, fmt.Sprint(id))
	}
	return fmt.Sprintf("(mkOptions %s %s false 0 0 [%s])", coqBool(r.shutdownOnRemove), coqBool(r.quorumWait != 0), strings.Join(o, ";"))
}

func coqObs(resp response) string {
	if resp == nil {
		return "(mkObs 0 0 0 (mkOut [] []))"
	}
	last := uint64(0)
	if ar, ok := resp.(*appendResp); ok {
		last = ar.lastLogIndex
	}
	return fmt.Sprintf("(mkObs %d %d %d (mkOut [] []))", uint8(resp.getResult()), resp.getTerm(), last)
}

// ---- generator ----

type node1Gen struct {
	rnd *rand.Rand
	w   *caseWriter
	n   *simNode
	dir string
	opt Options
	// what the adversary remembers having sent (its own idea of a log), so that
	// most requests are consistent continuations
	peerLog map[uint64]*entry
}

func (g *node1Gen) pick(vals ...uint64) uint64 { return vals[g.rnd.Intn(len(vals))] }

func sub1(v uint64) uint64 {
	if v == 0 {
		return 0
	}
	return v - 1
}

func (g *node1Gen) someConfig(index, term uint64) Config {
	nodes := map[uint64]Node{}
	for id := uint64(1); id <= 3; id++ {
		nodes[id] = Node{ID: id, Addr: fmt.Sprintf("M%d:8888", id), Voter: true}
	}
	switch g.rnd.Intn(6) {
	case 0:
		nodes[4] = Node{ID: 4, Addr: "M4:8888", Voter: false, Action: Promote}
	case 1:
		n := nodes[1]
		n.Voter = false
		nodes[1] = n
	case 2:
		delete(nodes, 1)
	case 3:
		delete(nodes, 3)
	case 4:
		n := nodes[2]
		n.Action = Demote
		nodes[2] = n
	}
	return Config{Nodes: nodes, Index: index, Term: term}
}

func (g *node1Gen) termAt(i uint64) (uint64, bool) {
	r := g.n.r
	if i == 0 {
		return 0, true
	}
	if i == r.snaps.index {
		return r.snaps.term, true
	}
	if i == r.lastLogIndex {
		return r.lastLogTerm, true
	}
	if r.log.Contains(i) {
		e := &entry{}
		if err := r.storage.getEntry(i, e); err == nil {
			return e.term, true
		}
	}
	return 0, false
}

func (g *node1Gen) emit(desc, ev string, pre string, res simResp) {
	out := "GPanic"
	if res.panicv == nil && (res.readErr == nil || res.resp != nil) {
		out = fmt.Sprintf("(GOk %s %s)", coqObs(res.resp), g.n.dump())
	}
	g.w.states[pre] = true
	for _, a := range g.n.takeVoteAlarms() {
		g.w.findings = append(g.w.findings, "C05|vote-request-before-persist|"+a+"|")
	}
	if res.panicv == nil && !g.n.dead {
		if d := g.n.termFileMismatch(); d != "" {
			g.w.findings = append(g.w.findings, fmt.Sprintf("C05|vote-not-durable|after %s: %s|", desc, d))
		}
	}
	kind := strings.Fields(strings.Trim(ev, "()"))[0]
	outk := "ok"
	if out == "GPanic" {
		outk = "panic"
	} else if res.resp != nil {
		outk = fmt.Sprint(uint8(res.resp.getResult()))
	}
	g.w.dist[kind+"/"+outk]++
	cid := g.w.id(desc)
	g.w.kinds[strconv.Itoa(cid)] = kind
	g.w.cases = append(g.w.cases, fmt.Sprintf("NCase %d %s %s %s %s", cid, coqOptions(g.n.r, nil), pre, ev, out))
}

func (g *node1Gen) restart(emit bool) error {
	pre := ""
	if emit {
		pre = g.n.dump()
	}
	g.n.kill()
	n, err := newSimNode(g.dir, 7, g.n.r.nid, g.opt)
	if err != nil {
		return err
	}
	g.n = n
	if emit {
		ev := fmt.Sprintf("(ERestart %d)", n.r.log.LastIndex())
		g.emit("restart", ev, pre, simResp{})
	}
	return nil
}

func (g *node1Gen) step() error {
	n := g.n
	r := n.r
	atomic.AddInt64(&simBeat, 1)
	simDoing.Store("an event of the single-node driver")
	if n.cur == Follower && n.r.timer.active && g.rnd.Intn(3) == 0 {
		// the election timer is stopped before the event: whether the handler re-arms it (the node heard
		// from a leader / granted a vote) then shows in the state
		n.r.timer.stop()
	}
	pre := n.dump()
	c := g.rnd.Intn(100)
	switch {
	case c < 22: // vote request
		q := &voteReq{req: req{g.pick(sub1(r.term), r.term, r.term, r.term+1, r.term+1, r.term+2), g.pick(2, 3, 3, 4, r.leader)},
			lastLogIndex: g.pick(sub1(r.lastLogIndex), r.lastLogIndex, r.lastLogIndex, r.lastLogIndex+1, 0),
			lastLogTerm:  g.pick(sub1(r.lastLogTerm), r.lastLogTerm, r.lastLogTerm, r.lastLogTerm+1),
			transfer:     g.rnd.Intn(4) == 0}
		if q.src == 0 {
			q.src = 2
		}
		res := n.deliverRPC(wireReq(q, nil))
		g.emit("voteReq", "(EVoteReq "+coqVoteReq(q)+")", pre, res)
		if res.panicv != nil {
			return g.restart(false)
		}
	case c < 62: // append request
		term := g.pick(sub1(r.term), r.term, r.term, r.term, r.term+1)
		if term == 0 {
			term = 1
		}
		lo := sub1(r.snaps.index)
		prev := lo + uint64(g.rnd.Intn(int(r.lastLogIndex-lo)+2))
		if g.rnd.Intn(3) == 0 {
			prev = r.lastLogIndex
		}
		pterm, ok := g.termAt(prev)
		if !ok {
			pterm = g.pick(1, r.lastLogTerm)
		}
		if g.rnd.Intn(10) == 0 {
			pterm++
		}
		k := g.rnd.Intn(5)
		var es []*entry
		et := pterm
		if et == 0 {
			et = 1
		}
		for i := 0; i < k; i++ {
			idx := prev + 1 + uint64(i)
			// mostly repeat what the node already has (duplicates), sometimes diverge
			if t, ok := g.termAt(idx); ok && r.log.Contains(idx) && g.rnd.Intn(4) != 0 {
				e := &entry{}
				_ = r.storage.getEntry(idx, e)
				es = append(es, &entry{index: idx, term: t, typ: e.typ, data: append([]byte{}, e.data...)})
				et = t
				continue
			}
			if g.rnd.Intn(3) == 0 && et < term {
				et++
			}
			if et > term {
				et = term
			}
			e := &entry{index: idx, term: et, typ: entryUpdate, data: []byte{byte(idx), byte(et), byte(g.rnd.Intn(4))}}
			switch g.rnd.Intn(8) {
			case 0:
				e.typ, e.data = entryNop, nil
			case 1:
				e = g.someConfig(idx, et).encode()
			}
			es = append(es, e)
		}
		// an uncommitted configuration entry in the log: a new leader that never saw it overwrites
		// exactly that index (or the one after / before it) with an entry of a higher term
		if li := r.configs.Latest.Index; li > r.commitIndex && li > r.snaps.index && li <= r.lastLogIndex && g.rnd.Intn(3) == 0 {
			at := g.pick(li, li, li, li+1, sub1(li))
			if at > r.commitIndex && at > r.snaps.index+0 && at >= 1 && at <= r.lastLogIndex {
				if pt, ok := g.termAt(at - 1); ok {
					prev, pterm = at-1, pt
					term = r.term + 1
					es = []*entry{{index: at, term: term, typ: entryNop}}
					if g.rnd.Intn(3) == 0 {
						es = append(es, &entry{index: at + 1, term: term, typ: entryUpdate, data: []byte{9, 9}})
					}
					k = len(es)
				}
			}
		}
		commit := g.pick(0, r.commitIndex, prev, prev+uint64(k), prev+uint64(k)+1, r.commitIndex+1)
		q := &appendReq{req: req{term, g.pick(2, 3)}, prevLogIndex: prev, prevLogTerm: pterm, ldrCommitIndex: commit, numEntries: uint64(len(es))}
		wire := wireReq(q, wireEntries(es))
		ev := "(EAppendReq " + coqAppendReq(q, es) + ")"
		desc := "appendReq"
		if g.rnd.Intn(7) == 0 {
			// the connection breaks inside the request: the entries read so far are handled, the answer is readErr
			if w2, es2, ok := cutAppendWire(g.rnd, wire); ok {
				wire, ev, desc = w2, "(EAppendReqCut "+coqAppendReq(q, es2)+")", "appendReqCut"
			}
		}
		res := n.deliverRPC(wire)
		g.emit(desc, ev, pre, res)
		if res.panicv != nil {
			return g.restart(false)
		}
	case c < 70: // install snapshot
		term := g.pick(sub1(r.term), r.term, r.term, r.term+1)
		li := g.pick(sub1(r.snaps.index), r.snaps.index, r.commitIndex, r.lastLogIndex, r.lastLogIndex+2, sub1(r.lastLogIndex))
		if li == 0 {
			li = 1
		}
		lt, ok := g.termAt(li)
		if !ok || g.rnd.Intn(5) == 0 {
			lt = g.pick(1, r.lastLogTerm, r.lastLogTerm+1)
		}
		cfg := g.someConfig(1, 1)
		state := new(bytes.Buffer)
		_ = simFSMState{[][]byte{{byte(li)}, {1, 2}}}.Persist(state)
		q := &installSnapReq{req: req{term, g.pick(2, 3)}, lastIndex: li, lastTerm: lt, lastConfig: cfg, size: int64(state.Len())}
		res := n.deliverRPC(wireReq(q, state.Bytes()))
		ev := fmt.Sprintf("(ESnapReq (mkSnapReq %d %d %d %d %s) %d)", q.term, q.src, q.lastIndex, q.lastTerm, coqConfig(cfg), r.log.PrevIndex())
		g.emit("installSnapReq", ev, pre, res)
		if res.panicv != nil {
			return g.restart(false)
		}
	case c < 74:
		q := &timeoutNowReq{req{g.pick(sub1(r.term), r.term), g.pick(2, 3)}}
		res := n.deliverRPC(wireReq(q, nil))
		g.emit("timeoutNowReq", fmt.Sprintf("(ETimeoutNowReq %d %d)", q.term, q.src), pre, res)
	case c < 82:
		pv := n.timeout()
		g.emit("timeout", "ETimeout", pre, simResp{panicv: pv})
		if pv != nil {
			return g.restart(false)
		}
	case c < 90:
		if n.cur != Candidate {
			return nil
		}
		if ok, pv := n.selfVote(); ok {
			g.emit("selfVote", fmt.Sprintf("(EVoteResult %d %d)", r.term, uint8(success)), pre, simResp{panicv: pv})
			return nil
		}
		// a reply from a peer; never let the node win (leader side is exercised by the cluster driver)
		result := rpcResult(g.pick(uint64(alreadyVoted), uint64(leaderKnown), uint64(logNotUptodate), uint64(staleTerm), uint64(success)))
		if result == success && n.c.votesNeeded <= 1 {
			result = alreadyVoted
		}
		term := g.pick(r.term, r.term, sub1(r.term), r.term+1)
		v := rpcResponse{response: &voteResp{resp{term, result, nil}}, from: g.pick(2, 3)}
		pv := n.voteResult(v)
		g.emit("voteResult", fmt.Sprintf("(EVoteResult %d %d)", term, uint8(result)), pre, simResp{panicv: pv})
	case c < 94 && !r.configs.IsBootstrapped() && (c >= 88 || r.term == 0 && c >= 70):
		// a bootstrap task on a node that has no configuration yet (it may have voted already)
		nodes := map[uint64]Node{}
		for id := uint64(1); id <= 3; id++ {
			nodes[id] = Node{ID: id, Addr: fmt.Sprintf("M%d:8888", id), Voter: true}
		}
		nodes[r.nid] = Node{ID: r.nid, Addr: fmt.Sprintf("M%d:8888", r.nid), Voter: true}
		cfg := Config{Nodes: nodes}
		t := ChangeConfig(cfg).(changeConfig)
		var pv interface{}
		func() {
			defer func() { pv = recover() }()
			r.executeTask(t)
			n.settle()
		}()
		g.emit("bootstrap", fmt.Sprintf("(ETask (TChangeConfig 0 %s))", coqConfig(cfg)), pre, simResp{panicv: pv})
		if pv != nil {
			return g.restart(false)
		}
	case c < 94:
		id := g.pick(2, 3, r.leader)
		n.disconnected(id)
		g.emit("disconnected", fmt.Sprintf("(EDisconnected %d)", id), pre, simResp{})
	default:
		return g.restart(true)
	}
	return nil
}

func node1Main(args []string) int {
	if len(args) < 4 {
		fmt.Fprintln(os.Stderr, "usage: vh raft node1 <seed> <sequences> <steps> <outdir>")
		return 2
	}
	seed, _ := strconv.ParseInt(args[0], 10, 64)
	nseq, _ := strconv.Atoi(args[1])
	nsteps, _ := strconv.Atoi(args[2])
	out := args[3]
	w := newCaseWriter("node1", nodeCaseHeader, "ncase")
	rnd := rand.New(rand.NewSource(seed))
	var errs []string
	for s := 0; s < nseq; s++ {
		dir := simTempDir(out, "n1")
		opt := simOptions(1024)
		nodes := map[uint64]Node{}
		for id := uint64(1); id <= 3; id++ {
			nodes[id] = Node{ID: id, Addr: fmt.Sprintf("M%d:8888", id), Voter: true}
		}
		self := uint64(1)
		if s%5 == 4 { // a non-voter
			self = 4
			nodes[4] = Node{ID: 4, Addr: "M4:8888"}
		}
		if s%7 != 6 { // otherwise start un-bootstrapped
			if err := bootstrapDir(dir, 7, self, opt, nodes); err != nil {
				errs = append(errs, err.Error())
				continue
			}
		}
		n, err := newSimNode(dir, 7, self, opt)
		if err != nil {
			errs = append(errs, err.Error())
			continue
		}
		g := &node1Gen{rnd: rnd, w: w, n: n, dir: dir, opt: opt}
		for k := 0; k < nsteps; k++ {
			if g.n.stopped {
				break // the node shut itself down (stateLoop returned): nothing handles events any more
			}
			if err := g.step(); err != nil {
				errs = append(errs, fmt.Sprintf("sequence %d step %d: %v", s, k, err))
				break
			}
		}
		g.n.kill()
		os.RemoveAll(dir)
	}
	w.flush(out, 400, map[string]interface{}{"seed": seed, "errors": errs})
	return 0
}
