//go:build verif

package raft

import (
	"bytes"
	"fmt"
	"math/rand"
	"os"
	"sort"
	"strconv"
	"strings"
	"sync/atomic"
	"time"

	"github.com/santhosh-tekuri/raft/log"
)

// vh raft cluster <seed> <sequences> <steps> <outdir>
//
// A cluster of real nodes (simNode) with the harness as network and scheduler.
// Every event executed at every node is printed as a Gallina case
// (coq/Node/Cases.v); property monitors (oracles) run on the global state of
// the implementation after every event.
func init() { verifCmds["cluster"] = clusterMain }

type simMsg struct {
	from, to uint64
	wire     []byte
	kind     rpcType
	epoch    int    // leadership / election epoch of the sender when it sent this
	reqLast  uint64 // append: nextIndex-1 after the write (what onAppendEntriesResp is told)
	isResp   bool
	resp     response
	dup      bool // a re-delivery: its response goes nowhere
	piped    bool // sent by the pipeline writer (sendEntries = true)
	lit      string
	absK     []string // install-snapshot request: the log prefix the snapshot stands for (abstract shadow)
}

type simTask struct {
	id   int
	t    Task
	done bool
	kind string
}

type simCluster struct {
	cfg *cfgShadow // membership-changing runs checked against Abs/CfgRaft.v (crashes included; no snapshots, no cut requests)
	lastInstall *simMsg // the install-snapshot request delivered last (a copy marked as duplicate)
	rnd    *rand.Rand
	w      *caseWriter
	base   string
	opt    Options
	nodes  map[uint64]*simNode
	dirs   map[uint64]string
	ids    []uint64
	epoch  map[uint64]int // bumped at every role init
	reqs   map[*replication]*appendReq
	net    []*simMsg
	pipes  map[[2]uint64][]*simMsg // in-flight appends per (leader, follower), FIFO
	await  map[[2]uint64]int       // append requests sent whose response has not come back (or been lost)
	piping map[[2]uint64]bool      // replicate() is in its pipelining phase for this pair
	upd    map[uint64][]replUpdate // updates taken off replUpdateCh, per leader
	tasks  map[uint64][]*simTask
	ntask  int
	asked  map[uint64]map[uint64]bool // candidate -> voters already asked in this election
	respCh map[uint64]chan rpcResponse
	slow   bool
	imager *crashImager // crash imaging of storage-mutating events (crashsim driver)
	boot   map[uint64]Node
	trace  []string
	// ghost ledgers for the monitors
	elected   map[uint64]uint64    // term -> node that became leader
	entries   map[[2]uint64]string // (index, term) -> type/data/prevterm
	committed map[uint64]string    // index -> entry (term/type/data)
	nextPay   int
	// abstract shadow (vh raft abs): static membership, no snapshots; every event is reported to coq/Abs/Exec.v
	phantom bool            // only node 1 exists; the harness answers for the other members (vh raft leader1)
	preImp  map[uint64]bool // importantIDs of the event's node before the event
	evImp   map[uint64]bool // nodes with an action in the configuration the event submits
	static  bool            // no membership changes
	nosnap  bool            // no snapshots
	calm    bool            // elections and crashes are rare while a leader exists
	abs     *absShadow
	hint    absHint
	hintp   *absHint // filled in by the event itself (a request written by a replication)
}

func (c *simCluster) note(format string, a ...interface{}) {
	c.trace = append(c.trace, fmt.Sprintf(format, a...))
	if len(c.trace) > 400 {
		c.trace = c.trace[len(c.trace)-400:]
	}
}

func (c *simCluster) finding(prop, sig, detail string) {
	tail := c.trace
	if len(tail) > 60 {
		tail = tail[len(tail)-60:]
	}
	c.w.findings = append(c.w.findings, prop+"|"+sig+"|"+detail+"|"+strings.Join(tail, " ; "))
}

func (c *simCluster) addNode(id uint64, bootstrap map[uint64]Node) error {
	dir := simTempDir(c.base, fmt.Sprintf("n%d_", id))
	c.dirs[id] = dir
	if bootstrap != nil {
		if err := bootstrapDir(dir, 7, id, c.opt, bootstrap); err != nil {
			return err
		}
	}
	n, err := newSimNode(dir, 7, id, c.opt)
	if err != nil {
		return err
	}
	if c.slow {
		n.r.promoteThreshold = time.Nanosecond
	}
	c.nodes[id] = n
	c.ids = append(c.ids, id)
	sort.Slice(c.ids, func(i, j int) bool { return c.ids[i] < c.ids[j] })
	return nil
}

// importantIDs: followers of leader n whose position in a map iteration can change the outcome of an event.
func (c *simCluster) importantIDs(n *simNode) map[uint64]bool {
	imp := map[uint64]bool{}
	if n.l == nil {
		return imp
	}
	for id, nd := range n.r.configs.Latest.Nodes {
		if id == n.r.nid {
			continue
		}
		if nd.Action != None {
			imp[id] = true
		}
		if rp := n.l.repls[id]; rp != nil && nd.Voter && rp.status.noContact.IsZero() && rp.status.matchIndex == n.r.lastLogIndex {
			imp[id] = true
		}
	}
	return imp
}

func (c *simCluster) options(n *simNode, newprev, newremovelte uint64) string {
	var order []string
	if n.cur == Leader || n.r.state == Leader {
		ids := map[uint64]bool{}
		for id := range n.l.repls {
			ids[id] = true
		}
		for id := range n.r.configs.Latest.Nodes {
			ids[id] = true
		}
		var l []uint64
		for id := range ids {
			l = append(l, id)
		}
		sort.Slice(l, func(i, j int) bool { return l[i] < l[j] })
		if len(l) > 4 {
			// keep the permutation oracle small: only the relative order of the followers whose visit can have an
			// effect matters (a pending action, or a ready transfer target), before or after the event
			imp := c.importantIDs(n)
			for id := range c.preImp {
				imp[id] = true
			}
			for id := range c.evImp {
				imp[id] = true
			}
			l = l[:0]
			for id := range imp {
				l = append(l, id)
			}
			sort.Slice(l, func(i, j int) bool { return l[i] < l[j] })
		}
		for _, id := range l {
			order = append(order, fmt.Sprint(id))
		}
	}
	return fmt.Sprintf("(mkOptions %s %s %s %d %d [%s])", coqBool(n.r.shutdownOnRemove), coqBool(n.r.quorumWait != 0),
		coqBool(n.r.promoteThreshold < time.Millisecond), newprev, newremovelte, strings.Join(order, ";"))
}

// ---- canonical task replies ----

func coqReply(t Task) string {
	if err := t.Err(); err != nil {
		switch e := err.(type) {
		case NotLeaderError:
			return fmt.Sprintf("(RpNotLeader %s)", coqBool(e.Lost))
		case InProgressError:
			k := map[string]int{"transferLeadership": 1, "demoteLeader": 2, "removeLeader": 3, "configChange": 4, "takeSnapshot": 5}[string(e)]
			return fmt.Sprintf("(RpInProgress %d)", k)
		case TimeoutError:
			return "RpTimeout"
		}
		switch err {
		case ErrNotCommitReady:
			return "RpNotCommitReady"
		case ErrStaleConfig:
			return "RpStaleConfig"
		case ErrServerClosed:
			return "RpServerClosed"
		case ErrQuorumUnreachable:
			return "RpQuorumUnreachable"
		case ErrTransferNoVoter:
			return "RpTransferNoVoter"
		case ErrTransferSelf:
			return "RpTransferSelf"
		case ErrTransferTargetNonvoter:
			return "RpTransferTargetNonvoter"
		case ErrTransferInvalidTarget:
			return "RpTransferInvalidTarget"
		case ErrSnapshotThreshold:
			return "RpSnapThreshold"
		case ErrNoUpdates:
			return "RpNoUpdates"
		}
		if strings.Contains(err.Error(), "target rejected") {
			return "RpTargetRejected"
		}
		return "RpInvalid"
	}
	switch v := t.Result().(type) {
	case nil:
		return "RpNil"
	case uint64:
		return fmt.Sprintf("(RpVal %d)", v)
	case int:
		return fmt.Sprintf("(RpVal %d)", v)
	case Config:
		return "(RpConfig " + coqConfig(v) + ")"
	}
	return "RpNil"
}

func taskDone(t Task) bool {
	select {
	case <-t.Done():
		return true
	default:
		return false
	}
}

func (c *simCluster) newTask(node uint64, t Task, kind string) *simTask {
	c.ntask++
	st := &simTask{id: c.ntask, t: t, kind: kind}
	c.tasks[node] = append(c.tasks[node], st)
	return st
}

func (c *simCluster) collectReplies(node uint64) string {
	var parts []string
	for _, st := range c.tasks[node] {
		if !st.done && taskDone(st.t) {
			st.done = true
			parts = append(parts, fmt.Sprintf("(%d, %s)", st.id, coqReply(st.t)))
		}
	}
	return "[" + strings.Join(parts, ";") + "]"
}

func (c *simCluster) tidOf(node uint64, t *task) int {
	if t == nil {
		return 0
	}
	for _, st := range c.tasks[node] {
		switch x := st.t.(type) {
		case *newEntry:
			if x.task == t {
				return st.id
			}
		case changeConfig:
			if x.task == t {
				return st.id
			}
		case waitForStableConfig:
			if x.task == t {
				return st.id
			}
		case transferLdr:
			if x.task == t {
				return st.id
			}
		case takeSnapshot:
			if x.task == t {
				return st.id
			}
		}
	}
	return 0
}

// ---- dump with task ids (leader part differs from simNode.dump only in the ids) ----

func (c *simCluster) dump(n *simNode) string {
	s := n.dump()
	if n.cur != Leader || n.stopped {
		return s
	}
	// replace the leader block: recompute with task ids, pending updates and request commit
	return strings.Replace(s, n.dumpLeader(), c.dumpLeader(n), 1)
}

func (c *simCluster) dumpLeader(n *simNode) string {
	l := n.l
	id := n.r.nid
	var q []string
	for ne := l.neHead; ne != nil; ne = ne.next {
		q = append(q, fmt.Sprintf("(mkNewEnt %d %d %d)", ne.index, uint8(ne.typ), c.tidOf(id, ne.task)))
	}
	ids := make([]uint64, 0, len(l.repls))
	for fid := range l.repls {
		ids = append(ids, fid)
	}
	sort.Slice(ids, func(i, j int) bool { return ids[i] < ids[j] })
	var rs []string
	for _, fid := range ids {
		rp := l.repls[fid]
		pend := "None"
		select {
		case u := <-rp.leaderUpdateCh:
			rp.leaderUpdateCh <- u
			vp := uint64(1<<64 - 1)
			last := uint64(0)
			if u.log != nil {
				vp, last = u.log.PrevIndex(), u.log.LastIndex()
			}
			pend = fmt.Sprintf("(Some (mkPend %d %d %d %s))", vp, last, u.commitIndex, coqBool(u.config != nil))
		default:
		}
		commit := uint64(0)
		if rq := c.reqs[rp]; rq != nil {
			commit = rq.ldrCommitIndex
		}
		rs = append(rs, fmt.Sprintf("(mkRepl %d %d %s %s %d %s %d %d %d %d %d %s %d %s)", fid, rp.status.matchIndex,
			coqBool(!rp.status.noContact.IsZero()), coqBool(rp.status.node.Voter), uint8(rp.status.node.Action),
			coqOptRound(rp.status.round), rp.status.removeLTE, rp.matchIndex, rp.nextIndex, rp.ldrLastIndex,
			viewPrev(rp), coqBool(rp.node.Voter), commit, pend))
	}
	trTerm, trTarget, trTid := uint64(0), uint64(0), 0
	if l.transfer.timer.active {
		trTerm, trTarget, trTid = l.transfer.term, l.transfer.target, c.tidOf(id, l.transfer.task)
	}
	var ws []string
	for _, t := range l.waitStable {
		ws = append(ws, fmt.Sprint(c.tidOf(id, t.task)))
	}
	return fmt.Sprintf("(Some (mkLdr %s %s %d %d [%s] [%s] %s %d %d %s %s %d [%s] %d))",
		coqBool(l.node.ID != 0), coqBool(l.node.Voter), l.numVoters, l.startIndex, strings.Join(q, ";"), strings.Join(rs, ";"),
		coqBool(l.transfer.timer.active), trTerm, trTarget, coqBool(l.transfer.respCh != nil),
		coqBool(l.transfer.newTermTimer.active), trTid, strings.Join(ws, ";"), l.removeLTE)
}

// ---- one observed step ----

type stepObs struct {
	resp   response
	panicv interface{}
	msgs   []string
}

func (c *simCluster) emit(n *simNode, desc, ev, pre, opts string, o stepObs) {
	id := n.r.nid
	out := "GPanic"
	if o.panicv == nil {
		obs := "0 0 0"
		if o.resp != nil {
			last := uint64(0)
			if ar, ok := o.resp.(*appendResp); ok {
				last = ar.lastLogIndex
			}
			obs = fmt.Sprintf("%d %d %d", uint8(o.resp.getResult()), o.resp.getTerm(), last)
		}
		out = fmt.Sprintf("(GOk (mkObs %s (mkOut %s [%s])) %s)", obs, c.collectReplies(id), strings.Join(o.msgs, ";"), c.dump(n))
	}
	c.w.states[pre] = true
	kind := strings.Fields(strings.Trim(ev, "()"))[0]
	if kind == "ELeader" {
		kind = strings.Fields(strings.Trim(strings.TrimPrefix(strings.Trim(ev, "()"), "ELeader "), "()"))[0]
	}
	outk := "ok"
	if o.panicv != nil {
		outk = "panic"
	} else if o.resp != nil {
		outk = fmt.Sprint(uint8(o.resp.getResult()))
	}
	c.w.dist[kind+"/"+outk]++
	cid := c.w.id(desc + " @" + fmt.Sprint(id))
	c.w.kinds[strconv.Itoa(cid)] = kind
	c.w.cases = append(c.w.cases, fmt.Sprintf("NCase %d %s %s %s %s", cid, opts, pre, ev, out))
	c.note("n%d %s -> %s", id, desc, outk)
	if o.panicv != nil {
		c.finding("C15", "panic "+kind, fmt.Sprintf("node %d panicked in %s: %v", id, desc, o.panicv))
		if strings.HasPrefix(kind, "LFlr") || strings.HasPrefix(kind, "ESnap") {
			// replication work and snapshot handling must survive compaction (nil view, unmapped segment, missing snapshot)
			c.finding("C09", "panic "+kind, fmt.Sprintf("node %d panicked in %s: %v", id, desc, o.panicv))
		}
	}
}

// run executes fn as one event of node n and prints the case.
func (c *simCluster) run(n *simNode, desc, ev string, fn func() (response, []string)) (panicv interface{}) {
	pre := c.dump(n)
	prevLog := n.r.log.PrevIndex()
	preCommit := n.r.commitIndex
	preRemoveLTE := n.l.removeLTE
	var o stepObs
	atomic.AddInt64(&simBeat, 1)
	simDoing.Store(fmt.Sprintf("%s on node %d", desc, n.r.nid))
	c.preImp = c.importantIDs(n)
	hint := c.hint
	c.hint = absHint{}
	hintp := c.hintp
	c.hintp = nil
	if c.abs != nil {
		c.abs.before(n)
	}
	if c.cfg != nil {
		c.cfg.before(n)
	}
	if c.imager != nil {
		inner := fn
		// entries up to this bound are not legitimately removed by the event
		bound := uint64(1<<63 - 1)
		if strings.HasPrefix(ev, "(EAppendReq") || strings.HasPrefix(ev, "(ESnapReq") {
			bound = n.r.commitIndex
		}
		fn = func() (resp response, msgs []string) {
			c.imager.imaged(n, desc, bound, func() { resp, msgs = inner() })
			return
		}
	}
	func() {
		defer func() {
			if v := recover(); v != nil {
				o.panicv = v
			}
		}()
		resp, msgs := fn()
		o.resp, o.msgs = resp, msgs
		wasLeader := n.cur == Leader
		n.settle()
		if wasLeader && n.cur != Leader || !wasLeader && n.cur == Leader || n.cur == Candidate {
			c.epoch[n.r.nid]++
		}
	}()
	if o.panicv == nil {
		c.afterEvent(n, preCommit, &o)
	}
	newprev := n.r.log.PrevIndex()
	if newprev == prevLog {
		newprev = 0
	}
	newremovelte := n.l.removeLTE
	if newremovelte == preRemoveLTE || ev != "ESnapTaken" {
		newremovelte = 0
	}
	if n.skipCase && o.panicv == nil {
		n.skipCase = false
		c.w.dist["skipped/shutdown-with-snapshot-in-flight"]++
		c.note("n%d %s -> (not compared: shutdown completed a snapshot in flight)", n.r.nid, desc)
	} else {
		c.emit(n, desc, ev, pre, c.options(n, newprev, newremovelte), o)
	}
	if c.abs != nil && o.panicv == nil {
		if hintp != nil && hintp.kind != "" {
			hint = *hintp
		}
		if hint.kind == "votereq" || hint.kind == "install" {
			hint.granted = o.resp != nil && o.resp.getResult() == success
		}
		c.abs.record(c, n, ev, hint, false)
	}
	if c.cfg != nil && o.panicv == nil {
		if hintp != nil && hintp.kind != "" {
			hint = *hintp
		}
		if hint.kind == "votereq" || hint.kind == "recv" || hint.kind == "install" {
			hint.granted = o.resp != nil && o.resp.getResult() == success
		}
		c.cfg.record(c, n, ev, hint)
	}
	if o.panicv != nil {
		c.crash(n.r.nid, false)
	} else {
		c.monitors(n)
	}
	return o.panicv
}

// afterEvent: pick up what the real code produced asynchronously: new
// replications, replication updates, a started transfer.
func (c *simCluster) afterEvent(n *simNode, preCommit uint64, o *stepObs) {
	id := n.r.nid
	if n.cur == Leader {
		for _, rp := range n.l.repls {
			if c.reqs[rp] == nil {
				c.reqs[rp] = &appendReq{req: req{n.r.term, id}, ldrCommitIndex: preCommit}
			}
		}
		for {
			select {
			case u := <-n.l.replUpdateCh:
				c.upd[id] = append(c.upd[id], u)
				continue
			default:
			}
			break
		}
	} else {
		c.upd[id] = nil
		for k := range c.await {
			if k[0] == id {
				c.breakConn(k)
			}
		}
	}
}

// breakConn: the connection between a leader and a follower is gone; replicate()
// returns, the replication loop reconnects and starts probing again.
func (c *simCluster) breakConn(k [2]uint64) {
	delete(c.pipes, k)
	delete(c.await, k)
	delete(c.piping, k)
	var keep []*simMsg
	for _, m := range c.net {
		if m.kind == rpcAppendEntries && !m.dup && ((m.from == k[0] && m.to == k[1] && !m.isResp) || (m.from == k[1] && m.to == k[0] && m.isResp)) {
			continue
		}
		keep = append(keep, m)
	}
	c.net = keep
}

// ---- monitors (search half; independent of the model) ----

func (c *simCluster) monitors(n *simNode) {
	r := n.r
	id := r.nid
	for _, a := range n.takeVoteAlarms() {
		c.finding("C05", "vote-request-before-persist", a)
	}
	// C05: what the node believes about term and vote is what is on disk
	if d := n.termFileMismatch(); d != "" {
		c.finding("C05", "vote-not-durable", fmt.Sprintf("node %d: %s", id, d))
	}
	// C01: one leader per term
	if r.state == Leader {
		if other, ok := c.elected[r.term]; ok && other != id {
			c.finding("C01", "two-leaders-one-term", fmt.Sprintf("term %d: nodes %d and %d both became leader", r.term, other, id))
		}
		c.elected[r.term] = id
	}
	// C04: (index, term) identifies an entry and its predecessor
	prev, last := r.log.PrevIndex(), r.log.LastIndex()
	pterm := uint64(0)
	havePrev := false
	if prev == r.snaps.index {
		pterm, havePrev = r.snaps.term, true
	}
	if prev == 0 {
		havePrev = true
	}
	for i := prev + 1; i <= last; i++ {
		e := &entry{}
		if err := r.storage.getEntry(i, e); err != nil {
			break
		}
		key := [2]uint64{i, e.term}
		body := fmt.Sprintf("%d/%x", e.typ, e.data)
		if e.typ == entryConfig {
			cf := Config{}
			_ = cf.decode(e)
			body = "cfg/" + coqConfig(cf)
		}
		val := body
		if havePrev {
			val = fmt.Sprintf("%s/prev=%d", body, pterm)
		}
		if old, ok := c.entries[key]; ok {
			ob := strings.Split(old, "/prev=")
			nb := strings.Split(val, "/prev=")
			if ob[0] != nb[0] || (len(ob) == 2 && len(nb) == 2 && ob[1] != nb[1]) {
				c.finding("C04", "log-matching", fmt.Sprintf("entry (%d,%d) differs: %q vs %q at node %d", i, e.term, old, val, id))
			}
			if len(ob) == 1 && len(nb) == 2 {
				c.entries[key] = val
			}
		} else {
			c.entries[key] = val
		}
		// C02/C03: committed entries are stable
		if i <= r.commitIndex {
			cv := fmt.Sprintf("%d/%s", e.term, body)
			if old, ok := c.committed[i]; ok && old != cv {
				c.finding("C02", "committed-entry-differs", fmt.Sprintf("index %d committed as %q, node %d holds %q", i, old, id, cv))
			} else {
				c.committed[i] = cv
			}
		}
		pterm, havePrev = e.term, true
	}
	// C02: a leader holds every committed entry
	if r.state == Leader {
		for i, cv := range c.committed {
			if i > last {
				c.finding("C02", "leader-misses-committed", fmt.Sprintf("leader %d (term %d) lacks committed index %d (%s)", id, r.term, i, cv))
			}
		}
	}
	// C19 ordering
	la := r.fsm.index
	if !(la <= r.commitIndex && r.commitIndex <= r.lastLogIndex && prev <= r.snaps.index && r.snaps.index <= r.lastLogIndex &&
		r.configs.Committed.Index <= r.configs.Latest.Index) {
		c.finding("C19", "info-order", fmt.Sprintf("node %d: applied %d commit %d last %d prev %d snap %d cfg %d/%d", id, la, r.commitIndex,
			r.lastLogIndex, prev, r.snaps.index, r.configs.Committed.Index, r.configs.Latest.Index))
	}
	// C03: state machines are prefixes of one another
	mine := n.fsm.snapshotCmds()
	for _, oid := range c.ids {
		o := c.nodes[oid]
		if o == nil || o == n || o.dead {
			continue
		}
		theirs := o.fsm.snapshotCmds()
		k := len(mine)
		if len(theirs) < k {
			k = len(theirs)
		}
		for i := 0; i < k; i++ {
			if !bytes.Equal(mine[i], theirs[i]) {
				c.finding("C03", "fsm-diverge", fmt.Sprintf("nodes %d and %d apply different command #%d: %x vs %x", id, oid, i, mine[i], theirs[i]))
				break
			}
		}
	}
	// C06: what the leader reports committed is flushed on a majority of the voters of its configuration
	if r.state == Leader && r.commitIndex >= n.l.startIndex && !c.phantom {
		cfg := r.configs.Latest
		if !r.configs.IsCommitted() && r.configs.Latest.Index > r.commitIndex {
			cfg = r.configs.Committed
		}
		voters, have := 0, 0
		detail := ""
		for vid, vn := range cfg.Nodes {
			if !vn.Voter {
				continue
			}
			voters++
			if v := c.nodes[vid]; v != nil {
				detail += fmt.Sprintf(" [n%d dead=%v flushed=%d last=%d snap=%d]", vid, v.dead, log.VerifFlushed(v.r.log), v.r.lastLogIndex, v.r.snaps.index)
			}
			if v := c.nodes[vid]; v != nil && !v.dead && log.VerifFlushed(v.r.log) >= r.commitIndex {
				e := &entry{}
				if v.r.log.Contains(r.commitIndex) && v.r.storage.getEntry(r.commitIndex, e) == nil {
					me := &entry{}
					if r.storage.getEntry(r.commitIndex, me) == nil && me.term == e.term {
						have++
					}
				} else if v.r.snaps.index >= r.commitIndex {
					have++
				}
			}
		}
		if voters > 0 && have < voters/2+1 {
			c.finding("C06", "commit-without-durable-majority", fmt.Sprintf("leader %d term %d commit %d: durable on %d of %d voters of config %d%s",
				id, r.term, r.commitIndex, have, voters, cfg.Index, detail))
		}
	}
	// C11: only voters campaign or lead
	if (r.state == Candidate || r.state == Leader) && n.cur != Follower {
		if r.state == Candidate && !r.configs.Latest.isVoter(id) {
			c.finding("C11", "nonvoter-candidate", fmt.Sprintf("node %d is candidate in term %d but not a voter of its latest config", id, r.term))
		}
	}
}

// ---- crash / restart ----

func (c *simCluster) crash(id uint64, emit bool) {
	if c.cfg != nil && !cfgCrashEnabled {
		return // (without the crash step of Abs/CfgRaft.v these runs have no crashes)
	}
	n := c.nodes[id]
	pre := ""
	if emit && !n.dead {
		pre = c.dump(n)
	}
	opts := c.options(n, 0, 0)
	n.kill()
	c.epoch[id]++
	c.upd[id] = nil
	for k := range c.pipes {
		if k[0] == id {
			delete(c.pipes, k)
		}
	}
	for _, st := range c.tasks[id] {
		st.done = true // tasks of a dead process never complete
	}
	nn, err := newSimNode(c.dirs[id], 7, id, c.opt)
	if err != nil {
		c.finding("C10", "restart-fails", fmt.Sprintf("node %d does not restart: %v", id, err))
		return
	}
	if c.slow {
		nn.r.promoteThreshold = time.Nanosecond
	}
	c.nodes[id] = nn
	if emit && pre != "" {
		ev := fmt.Sprintf("(ERestart %d)", nn.r.log.LastIndex())
		c.emit(nn, "restart", ev, pre, opts, stepObs{})
	}
	if c.abs != nil {
		c.abs.record(c, nn, "", absHint{}, true)
	}
	if c.cfg != nil {
		c.cfg.emit(c, []string{fmt.Sprintf("ACrash %d %d%%nat", id, sat1(nn.r.commitIndex))}, id)
	}
	c.note("n%d restarted", id)
}

// ---- scheduler ----

func (c *simCluster) payload() []byte {
	c.nextPay++
	return []byte{byte(c.nextPay), byte(c.nextPay >> 8), byte(c.rnd.Intn(3))}
}

func (c *simCluster) leaders() []*simNode {
	var l []*simNode
	for _, id := range c.ids {
		if n := c.nodes[id]; n != nil && !n.dead && !n.stopped && n.cur == Leader && n.r.state == Leader {
			l = append(l, n)
		}
	}
	return l
}

func (c *simCluster) step() {
	id := c.ids[c.rnd.Intn(len(c.ids))]
	n := c.nodes[id]
	if n == nil || n.dead || n.stopped {
		return
	}
	r := n.r
	x := c.rnd.Intn(100)
	switch {
	case x < 30:
		if len(c.net) > 0 { // deliver something
			c.deliver(c.rnd.Intn(len(c.net)))
		} else if ls := c.leaders(); len(ls) > 0 {
			c.leaderStep(ls[c.rnd.Intn(len(ls))])
		}
	case x < 33:
		if len(c.net) > 0 { // lose something
			i := c.rnd.Intn(len(c.net))
			m := c.net[i]
			c.net = append(c.net[:i], c.net[i+1:]...)
			if m.kind == rpcAppendEntries && !m.dup {
				// a lost append or append response means the connection broke: the pipeline is gone
				if m.isResp {
					c.breakConn([2]uint64{m.to, m.from})
				} else {
					c.breakConn([2]uint64{m.from, m.to})
				}
			}
			c.note("lost %s", m.lit)
		}
	case x < 38:
		if ls := c.leaders(); c.calm && len(ls) > 0 && c.rnd.Intn(8) != 0 {
			c.leaderStep(ls[c.rnd.Intn(len(ls))]) // calm runs: long reigns, deep logs
			return
		}
		if n.cur == Leader && c.rnd.Intn(4) != 0 {
			return // leaders rarely lose quorum contact in these runs
		}
		if n.cur == Follower && len(c.leaders()) > 0 && c.rnd.Intn(3) != 0 {
			return // followers of a live leader rarely time out
		}
		c.run(n, "timeout", "ETimeout", func() (response, []string) {
			n.r.timer.active = false
			n.role().onTimeout()
			return nil, nil
		})
	case x < 39:
		if ls := c.leaders(); c.calm && len(ls) > 0 && c.rnd.Intn(3) != 0 {
			c.leaderStep(ls[c.rnd.Intn(len(ls))])
			return
		}
		c.crash(id, true)
	case x < 41:
		peer := c.ids[c.rnd.Intn(len(c.ids))]
		c.run(n, "disconnected", fmt.Sprintf("(EDisconnected %d)", peer), func() (response, []string) {
			n.disconnected(peer)
			return nil, nil
		})
	case x < 47:
		c.snapshotStep(n)
	case x < 50 && n.cur != Leader:
		c.nonLeaderTask(n)
	default:
		switch {
		case n.cur == Candidate:
			c.candidateStep(n)
		case n.cur == Leader:
			c.leaderStep(n)
		default:
			if ls := c.leaders(); len(ls) > 0 {
				c.leaderStep(ls[c.rnd.Intn(len(ls))])
			} else if cs := c.candidates(); len(cs) > 0 {
				c.candidateStep(cs[c.rnd.Intn(len(cs))])
			} else if r.state == Follower && c.rnd.Intn(3) == 0 {
				c.run(n, "timeout", "ETimeout", func() (response, []string) {
					n.r.timer.active = false
					n.role().onTimeout()
					return nil, nil
				})
			}
		}
	}
}

// snapshotStep: one of the three phases of a TakeSnapshot task at any node.
func (c *simCluster) doTimeout(n *simNode) {
	c.run(n, "timeout", "ETimeout", func() (response, []string) {
		n.r.timer.active = false
		n.role().onTimeout()
		return nil, nil
	})
}

func (c *simCluster) snapshotStep(n *simNode) {
	if c.nosnap {
		return
	}
	id := n.r.nid
	switch {
	case n.snapReq != nil && !n.snapReq.ran:
		c.run(n, "snapshot goroutine runs", "ESnapRun", func() (response, []string) {
			n.snapRun()
			return nil, nil
		})
	case n.snapReq != nil && n.snapReq.ran:
		c.run(n, "snapTaken", "ESnapTaken", func() (response, []string) {
			n.snapTaken()
			return nil, nil
		})
	default:
		th := uint64(c.rnd.Intn(3))
		t := TakeSnapshot(th).(takeSnapshot)
		st := c.newTask(id, t, "takeSnapshot")
		c.run(n, "takeSnapshot", fmt.Sprintf("(ETask (TTakeSnapshot %d %d))", st.id, th), func() (response, []string) {
			n.takeSnapshot(t, st.id)
			return nil, nil
		})
	}
}

// nonLeaderTask: what a follower or candidate does with client and admin tasks.
func (c *simCluster) nonLeaderTask(n *simNode) {
	id := n.r.nid
	r := n.r
	after := func() {
		if r.state == Follower && n.f.electionAborted {
			n.f.resetTimer()
		}
	}
	switch c.rnd.Intn(4) {
	case 0:
		var head, tail *newEntry
		var lits []string
		for i := 0; i < 1+c.rnd.Intn(2); i++ {
			var ft FSMTask
			var lit string
			switch c.rnd.Intn(3) {
			case 0:
				ft, lit = DirtyReadFSM(nil), fmt.Sprintf("(mkNewReq %d [] ", uint8(entryDirtyRead))
			case 1:
				ft, lit = ReadFSM(nil), fmt.Sprintf("(mkNewReq %d [] ", uint8(entryRead))
			default:
				p := c.payload()
				ft, lit = UpdateFSM(p), fmt.Sprintf("(mkNewReq %d %s ", uint8(entryUpdate), coqBytes(p))
			}
			st := c.newTask(id, ft, "fsm")
			lits = append(lits, lit+fmt.Sprint(st.id)+")")
			ne := ft.newEntry()
			if tail != nil {
				tail.next, tail = ne, ne
			} else {
				head, tail = ne, ne
			}
		}
		c.run(n, "client batch (non-leader)", "(ETask (TClient ["+strings.Join(lits, ";")+"]))", func() (response, []string) {
			// the newEntryCh case of stateLoop for r.state != Leader
			for ne := head; ne != nil; ne = ne.next {
				if ne.typ == entryDirtyRead {
					r.fsm.ch <- fsmDirtyRead{ne}
				} else {
					ne.reply(notLeaderError(r, false))
				}
			}
			return nil, nil
		})
	case 1:
		// every node of a cluster is bootstrapped with the same configuration (the user's obligation)
		nodes := map[uint64]Node{}
		for v, vn := range c.boot {
			nodes[v] = vn
		}
		cfg := Config{Nodes: nodes}
		t := ChangeConfig(cfg).(changeConfig)
		st := c.newTask(id, t, "changeConfig")
		c.run(n, "changeConfig (non-leader: bootstrap)", fmt.Sprintf("(ETask (TChangeConfig %d %s))", st.id, coqConfig(cfg)), func() (response, []string) {
			r.executeTask(t)
			after()
			return nil, nil
		})
	case 2:
		t := WaitForStableConfig().(waitForStableConfig)
		st := c.newTask(id, t, "waitStable")
		c.run(n, "waitStable (non-leader)", fmt.Sprintf("(ETask (TWaitStable %d))", st.id), func() (response, []string) {
			r.executeTask(t)
			after()
			return nil, nil
		})
	case 3:
		t := TransferLeadership(0, time.Hour).(transferLdr)
		st := c.newTask(id, t, "transfer")
		c.run(n, "transfer (non-leader)", fmt.Sprintf("(ETask (TTransfer %d 0))", st.id), func() (response, []string) {
			r.executeTask(t)
			after()
			return nil, nil
		})
	}
}

func (c *simCluster) candidates() []*simNode {
	var l []*simNode
	for _, id := range c.ids {
		if n := c.nodes[id]; n != nil && !n.dead && !n.stopped && n.cur == Candidate {
			l = append(l, n)
		}
	}
	return l
}

func (c *simCluster) candidateStep(n *simNode) {
	id := n.r.nid
	if c.respCh[id] != n.c.respCh {
		c.respCh[id] = n.c.respCh
		c.asked[id] = map[uint64]bool{}
	}
	// the candidate's own vote first, as the select loop would most likely see it
	select {
	case v := <-n.c.respCh:
		c.hint = absHint{kind: "voteres", from: v.from, granted: v.getResult() == success && v.getTerm() <= n.r.term}
		c.run(n, "selfVote", fmt.Sprintf("(EVoteResult %d %d)", v.getTerm(), uint8(v.getResult())), func() (response, []string) {
			n.c.onVoteResult(v)
			return nil, nil
		})
		return
	default:
	}
	for _, vid := range sortedIDs(n.r.configs.Latest.Nodes) {
		vn := n.r.configs.Latest.Nodes[vid]
		if vn.Voter && vid != id && !c.asked[id][vid] {
			c.asked[id][vid] = true
			// the request the candidate's goroutine really wrote; only if none arrives, one built from its state
			wire, q := n.sentVote(vid, n.r.term)
			if q == nil {
				q = &voteReq{req: req{n.r.term, id}, lastLogIndex: n.r.lastLogIndex, lastLogTerm: n.r.lastLogTerm, transfer: n.c.transfer}
				wire = wireReq(q, nil)
				c.w.dist["voteReq/synthesized"]++
			} else {
				c.w.dist["voteReq/captured"]++
			}
			c.net = append(c.net, &simMsg{from: id, to: vid, wire: wire, kind: rpcVote, epoch: c.epoch[id],
				lit: "(EVoteReq " + coqVoteReq(q) + ")"})
			c.note("n%d asks n%d for vote t%d", id, vid, n.r.term)
			return
		}
	}
}

func (c *simCluster) deliver(i int) {
	m := c.net[i]
	// appends are FIFO per connection
	if m.kind == rpcAppendEntries && !m.isResp && !m.dup {
		if p := c.pipes[[2]uint64{m.from, m.to}]; len(p) > 0 && p[0] != m {
			for j, o := range c.net {
				if o == p[0] {
					i, m = j, o
					break
				}
			}
		}
	}
	c.net = append(c.net[:i], c.net[i+1:]...)
	dst := c.nodes[m.to]
	if dst == nil || dst.dead || dst.stopped {
		return
	}
	if !m.isResp {
		var res simResp
		if c.abs != nil || c.cfg != nil {
			switch m.kind {
			case rpcVote:
				q := &voteReq{}
				if err := q.decode(bytes.NewReader(m.wire[1:])); err == nil {
					c.hint = absHint{kind: "votereq", term: q.term, cand: q.src}
				}
			case rpcAppendEntries:
				q, es := decodeAppendWire(m.wire)
				c.hint = absHint{kind: "recv", req: q, ents: es}
			case rpcInstallSnap:
				q := &installSnapReq{}
				if err := q.decode(bytes.NewReader(m.wire[1:])); err == nil {
					c.hint = absHint{kind: "install", term: q.term, from: q.src, absK: m.absK}
				}
			}
		}
		if dst.cur == Follower && dst.r.timer.active && c.rnd.Intn(4) == 0 {
			dst.r.timer.stop() // whether the handler re-arms the election timer then shows in the state
		}
		wire, lit, cut := m.wire, m.lit, false
		if m.kind == rpcAppendEntries && !m.dup && (c.abs == nil || absCutEnabled) && (c.cfg == nil || cfgCutEnabled) && c.rnd.Intn(14) == 0 {
			// the connection breaks inside the request
			if w2, es2, ok := cutAppendWire(c.rnd, m.wire); ok {
				q, _ := decodeAppendWire(m.wire)
				wire, lit, cut = w2, "(EAppendReqCut "+coqAppendReq(q, es2)+")", true
				if c.hint.kind == "recv" {
					c.hint.cut = len(es2) + 1 // the abstract event names the whole request and how much of it was handled
				}
			}
		}
		pv := c.run(dst, "recv "+m.kind.String()+fmt.Sprintf(" from %d", m.from), lit, func() (response, []string) {
			res = dst.deliverRPCNoSettle(wire)
			if res.panicv != nil {
				panic(res.panicv)
			}
			return res.resp, nil
		})
		if m.kind == rpcAppendEntries && !m.dup {
			k := [2]uint64{m.from, m.to}
			if p := c.pipes[k]; len(p) > 0 && p[0] == m {
				c.pipes[k] = p[1:]
			}
		}
		if m.kind == rpcInstallSnap && !m.dup {
			d := *m
			d.dup = true
			c.lastInstall = &d
		}
		if cut {
			// no answer reaches the leader; what was in flight on that connection is lost with it
			c.breakConn([2]uint64{m.from, m.to})
			return
		}
		if pv == nil && res.resp != nil && !m.dup {
			c.net = append(c.net, &simMsg{from: m.to, to: m.from, kind: m.kind, epoch: m.epoch, reqLast: m.reqLast, isResp: true, resp: res.resp, piped: m.piped,
				lit: fmt.Sprintf("resp %s %d", m.kind, res.resp.getResult())})
		}
		// a request may be delivered again later (a retry on a new connection carries the same bytes)
		if pv == nil && !m.dup && (m.kind == rpcAppendEntries && c.rnd.Intn(12) == 0 || m.kind == rpcInstallSnap && c.rnd.Intn(3) == 0) {
			d := *m
			d.dup = true
			c.net = append(c.net, &d)
		}
		return
	}
	// a response: only the election / leadership that sent the request is still listening
	if c.epoch[m.to] != m.epoch {
		c.note("stale response dropped")
		return
	}
	switch m.kind {
	case rpcVote:
		if dst.cur != Candidate {
			return
		}
		v := rpcResponse{response: m.resp, from: m.from}
		c.hint = absHint{kind: "voteres", from: m.from, granted: m.resp.getResult() == success && m.resp.getTerm() <= dst.r.term}
		c.run(dst, fmt.Sprintf("voteResult from %d", m.from), fmt.Sprintf("(EVoteResult %d %d)", m.resp.getTerm(), uint8(m.resp.getResult())), func() (response, []string) {
			dst.c.onVoteResult(v)
			return nil, nil
		})
	case rpcAppendEntries:
		if dst.cur != Leader {
			return
		}
		rp := dst.l.repls[m.from]
		if rp == nil {
			return
		}
		ar := m.resp.(*appendResp)
		key := [2]uint64{m.to, m.from}
		if c.await[key] > 0 {
			c.await[key]--
		}
		if m.piped && ar.result != success && ar.result != staleTerm {
			// the pipeline reader: a non-success response ends the pipeline, the remaining
			// responses are drained unread, and replicate() goes back to probing
			c.breakConn(key)
			c.note("pipeline %d->%d ended by result %d", m.to, m.from, ar.result)
			return
		}
		ev := fmt.Sprintf("(ELeader (LFlrResp %d %d %d %d %d))", m.from, uint8(ar.result), ar.term, ar.lastLogIndex, m.reqLast)
		if ar.result == success {
			c.hint = absHint{kind: "ack", from: m.from, match: m.reqLast}
		}
		c.run(dst, fmt.Sprintf("appendResp from %d", m.from), ev, func() (response, []string) {
			_ = rp.onAppendEntriesResp(ar, m.reqLast)
			return nil, c.drainUpdates(dst)
		})
		if !m.piped && dst.cur == Leader && dst.l.repls[m.from] == rp && rp.matchIndex+1 == rp.nextIndex {
			c.piping[key] = true
		}
	case rpcInstallSnap:
		if dst.cur != Leader {
			return
		}
		rp := dst.l.repls[m.from]
		if rp == nil || m.resp.getResult() != success {
			return
		}
		if m.reqLast > rp.ldrLastIndex {
			return // the real code waits for a leader update first
		}
		ev := fmt.Sprintf("(ELeader (LFlrSnapInstalled %d %d))", m.from, m.reqLast)
		c.hint = absHint{kind: "ack", from: m.from, match: m.reqLast}
		c.run(dst, fmt.Sprintf("installSnapResp from %d", m.from), ev, func() (response, []string) {
			// what sendInstallSnapReq does after a success response
			rp.matchIndex = m.reqLast
			rp.nextIndex = rp.matchIndex + 1
			rp.notifyLdr(matchIndex{rp.matchIndex})
			return nil, c.drainUpdates(dst)
		})
	case rpcTimeoutNow:
		if dst.cur != Leader || dst.l.transfer.respCh == nil {
			return
		}
		ev := fmt.Sprintf("(ELeader (LTimeoutNowResult %d false %d))", m.from, uint8(m.resp.getResult()))
		c.run(dst, "timeoutNowResult", ev, func() (response, []string) {
			dst.l.onTimeoutNowResult(rpcResponse{response: m.resp, from: m.from})
			return nil, c.transferMsgs(dst, false)
		})
	}
}

// drainUpdates moves what replications just sent to the leader into the harness queue and prints it.
func (c *simCluster) drainUpdates(n *simNode) []string {
	var msgs []string
	for {
		select {
		case u := <-n.l.replUpdateCh:
			c.upd[n.r.nid] = append(c.upd[n.r.nid], u)
			switch x := u.update.(type) {
			case matchIndex:
				msgs = append(msgs, fmt.Sprintf("(MReplUpdate %d 1 %d)", u.status.id, x.val))
			case removeLTE:
				msgs = append(msgs, fmt.Sprintf("(MReplUpdate %d 2 %d)", u.status.id, x.val))
			case newTerm:
				msgs = append(msgs, fmt.Sprintf("(MReplUpdate %d 3 %d)", u.status.id, x.val))
			}
			continue
		default:
		}
		return msgs
	}
}

// transferMsgs: a timeoutNowReq was handed to a goroutine parked in dial; the
// harness sends it itself.  The target is the one given, or any ready voter.
func (c *simCluster) transferMsgs(n *simNode, hadResp bool) []string {
	l := n.l
	if l.transfer.respCh == nil || hadResp {
		return nil
	}
	target := l.transfer.target
	if target == 0 {
		ids := sortedIDs(n.r.configs.Latest.Nodes)
		for _, id := range ids {
			if id != n.r.nid && n.r.configs.Latest.Nodes[id].Voter {
				if rp := l.repls[id]; rp != nil && rp.status.noContact.IsZero() && rp.status.matchIndex == n.r.lastLogIndex {
					target = id
					break
				}
			}
		}
	}
	q := &timeoutNowReq{req{n.r.term, n.r.nid}}
	c.net = append(c.net, &simMsg{from: n.r.nid, to: target, wire: wireReq(q, nil), kind: rpcTimeoutNow, epoch: c.epoch[n.r.nid],
		lit: fmt.Sprintf("(ETimeoutNowReq %d %d)", q.term, q.src)})
	return []string{"(MTimeoutNow 0)"}
}

// doReplUpdate: the replUpdateCh case of stateLoop for the oldest queued update.
func (c *simCluster) doReplUpdate(n *simNode) {
	l := n.l
	id := n.r.nid
	if len(c.upd[id]) == 0 {
		return
	}
	u := c.upd[id][0]
	c.upd[id] = c.upd[id][1:]
	var lit string
	switch x := u.update.(type) {
	case matchIndex:
		lit = fmt.Sprintf("(UMatch %d)", x.val)
	case removeLTE:
		lit = fmt.Sprintf("(URemoveLTE %d)", x.val)
	case newTerm:
		lit = fmt.Sprintf("(UNewTerm %d)", x.val)
	case noContact:
		lit = fmt.Sprintf("(UNoContact %s)", coqBool(!x.time.IsZero()))
	default:
		return
	}
	had := l.transfer.respCh != nil
	c.run(n, "replUpdate "+lit, fmt.Sprintf("(ELeader (LReplUpdate %d %s))", u.status.id, lit), func() (response, []string) {
		l.checkReplUpdates(u)
		return nil, c.transferMsgs(n, had)
	})
}

// doClient: the newEntryCh case of stateLoop at a leader, for one batch.
func (c *simCluster) doClient(n *simNode, kinds []entryType) {
	l := n.l
	id := n.r.nid
	var head, tail *newEntry
	var lits []string
	for _, k := range kinds {
		var ft FSMTask
		var lit string
		switch k {
		case entryRead:
			ft = ReadFSM(nil)
			lit = fmt.Sprintf("(mkNewReq %d [] ", uint8(entryRead))
		case entryBarrier:
			ft = BarrierFSM()
			lit = fmt.Sprintf("(mkNewReq %d [] ", uint8(entryBarrier))
		default:
			p := c.payload()
			ft = UpdateFSM(p)
			lit = fmt.Sprintf("(mkNewReq %d %s ", uint8(entryUpdate), coqBytes(p))
		}
		st := c.newTask(id, ft, "fsm")
		lits = append(lits, lit+fmt.Sprint(st.id)+")")
		ne := ft.newEntry()
		if tail != nil {
			tail.next, tail = ne, ne
		} else {
			head, tail = ne, ne
		}
	}
	c.run(n, "client batch", "(ELeader (LClient ["+strings.Join(lits, ";")+"]))", func() (response, []string) {
		l.storeEntry(head)
		return nil, nil
	})
}

// doFlr: one piece of work of the replication goroutine for follower fid: consume a
// pending leader update, or write the next request (probe or pipelined entries).
func (c *simCluster) doFlr(n *simNode, fid uint64) { c.doFlrOpt(n, fid, false) }

// doFlrOpt with sendFirst: the goroutine writes its next request although a leader update is
// waiting (its select picked the heartbeat timer, or it was already inside the write).
func (c *simCluster) doFlrOpt(n *simNode, fid uint64, sendFirst bool) {
	l := n.l
	id := n.r.nid
	rp := l.repls[fid]
	rq := c.reqs[rp]
	if rq == nil {
		return
	}
	if len(rp.leaderUpdateCh) > 0 && !sendFirst {
		c.run(n, fmt.Sprintf("flr %d leaderUpdate", fid), fmt.Sprintf("(ELeader (LFlrUpdate %d))", fid), func() (response, []string) {
			u := <-rp.leaderUpdateCh
			rp.onLeaderUpdate(u, rq)
			return nil, c.drainUpdates(n)
		})
		return
	}
	key := [2]uint64{id, fid}
	// replicate(): lock-step probes until matchIndex+1 == nextIndex, then a pipeline
	if !c.piping[key] && c.await[key] > 0 {
		return // a probe waits for its response
	}
	if c.await[key] >= 3 {
		return
	}
	sendEntries := c.piping[key]
	var wire []byte
	var needSnap bool
	sendHint := &absHint{}
	c.hintp = sendHint
	pv := c.run(n, fmt.Sprintf("flr %d send entries=%v", fid, sendEntries), fmt.Sprintf("(ELeader (LFlrSend %d %s))", fid, coqBool(sendEntries)), func() (response, []string) {
		cn, buf := simConn(nil)
		err := rp.writeAppendEntriesReq(cn, rq, sendEntries)
		if err == log.ErrNotFound {
			needSnap = true
			return nil, []string{fmt.Sprintf("(MNeedSnapshot %d)", fid)}
		}
		if err != nil {
			panic(err)
		}
		wire = append([]byte{}, buf.Bytes()...)
		// decode what was really written, for the case file
		rd := bytes.NewReader(wire[1:])
		q := &appendReq{}
		if err := q.decode(rd); err != nil {
			panic(err)
		}
		var es []*entry
		for k := uint64(0); k < q.numEntries; k++ {
			e := &entry{}
			if err := e.decode(rd); err != nil {
				panic(err)
			}
			es = append(es, e)
		}
		*sendHint = absHint{kind: "send", req: q, ents: es}
		return nil, []string{fmt.Sprintf("(MAppend %d %s)", fid, coqAppendReq(q, es))}
	})
	if pv != nil {
		return
	}
	if needSnap {
		c.sendSnapshot(n, fid, rq)
		return
	}
	m := &simMsg{from: id, to: fid, wire: wire, kind: rpcAppendEntries, epoch: c.epoch[id], reqLast: rp.nextIndex - 1}
	rd := bytes.NewReader(wire[1:])
	q := &appendReq{}
	_ = q.decode(rd)
	var es []*entry
	for k := uint64(0); k < q.numEntries; k++ {
		e := &entry{}
		_ = e.decode(rd)
		es = append(es, e)
	}
	m.lit = "(EAppendReq " + coqAppendReq(q, es) + ")"
	m.piped = sendEntries
	c.net = append(c.net, m)
	c.pipes[key] = append(c.pipes[key], m)
	c.await[key]++
}

func (c *simCluster) leaderStep(n *simNode) {
	l := n.l
	id := n.r.nid
	// pending replication updates first, most of the time
	if len(c.upd[id]) > 0 && c.rnd.Intn(4) != 0 {
		c.doReplUpdate(n)
		return
	}
	ids := make([]uint64, 0, len(l.repls))
	for fid := range l.repls {
		ids = append(ids, fid)
	}
	sort.Slice(ids, func(i, j int) bool { return ids[i] < ids[j] })
	x := c.rnd.Intn(100)
	switch {
	case x < 22: // client batch
		k := 1 + c.rnd.Intn(3)
		var kinds []entryType
		for i := 0; i < k; i++ {
			switch c.rnd.Intn(6) {
			case 0:
				kinds = append(kinds, entryRead)
			case 1:
				kinds = append(kinds, entryBarrier)
			default:
				kinds = append(kinds, entryUpdate)
			}
		}
		c.doClient(n, kinds)
	case x < 70 && len(ids) > 0: // replication work for one follower
		c.doFlr(n, ids[c.rnd.Intn(len(ids))])
	case x < 78:
		c.changeConfig(n)
	case x < 81:
		st := c.newTask(id, WaitForStableConfig(), "waitStable")
		c.run(n, "waitStable", fmt.Sprintf("(ELeader (LWaitStable %d))", st.id), func() (response, []string) {
			l.onWaitForStableConfig(st.t.(waitForStableConfig))
			return nil, nil
		})
	case x < 86:
		target := uint64(0)
		if c.rnd.Intn(2) == 0 {
			pool := c.ids
			if c.phantom {
				pool = sortedIDs(n.r.configs.Latest.Nodes)
			}
			target = pool[c.rnd.Intn(len(pool))]
		}
		t := TransferLeadership(target, time.Hour).(transferLdr)
		st := c.newTask(id, t, "transfer")
		had := l.transfer.respCh != nil
		c.run(n, fmt.Sprintf("transfer to %d", target), fmt.Sprintf("(ELeader (LTransfer %d %d))", st.id, target), func() (response, []string) {
			l.onTransfer(t)
			return nil, c.transferMsgs(n, had)
		})
	case x < 88 && l.transfer.timer.active:
		c.run(n, "transferTimeout", "(ELeader LTransferTimeout)", func() (response, []string) {
			l.transfer.timer.active = false
			l.onTransferTimeout()
			return nil, nil
		})
	case x < 90 && l.transfer.newTermTimer.active:
		had := l.transfer.respCh != nil
		c.run(n, "newTermTimeout", "(ELeader LNewTermTimeout)", func() (response, []string) {
			l.transfer.newTermTimer.active = false
			l.onNewTermTimeout()
			return nil, c.transferMsgs(n, had)
		})
	case x < 93 && len(ids) > 0:
		fid := ids[c.rnd.Intn(len(ids))]
		rp := l.repls[fid]
		down := rp.status.noContact.IsZero()
		// what notifyNoContact sends
		u := replUpdate{&rp.status, noContact{time.Time{}, nil}}
		if down {
			u = replUpdate{&rp.status, noContact{time.Now(), errSimAbort}}
			c.breakConn([2]uint64{id, fid})
		}
		c.upd[id] = append(c.upd[id], u)
	}
}

func (c *simCluster) sendSnapshot(n *simNode, fid uint64, rq *appendReq) {
	// what sendInstallSnapReq puts on the wire
	snap, err := n.r.snaps.open()
	if err != nil {
		c.finding("C09", "snapshot-unreadable", fmt.Sprintf("leader %d cannot open its snapshot for follower %d: %v", n.r.nid, fid, err))
		return
	}
	defer snap.release()
	data := make([]byte, snap.meta.size)
	if _, err := snap.file.Read(data); err != nil && snap.meta.size > 0 {
		return
	}
	q := &installSnapReq{req: rq.req, lastIndex: snap.meta.index, lastTerm: snap.meta.term, lastConfig: snap.meta.config, size: snap.meta.size}
	m := &simMsg{from: n.r.nid, to: fid, wire: wireReq(q, data), kind: rpcInstallSnap, epoch: c.epoch[n.r.nid], reqLast: snap.meta.index,
		lit: fmt.Sprintf("(ESnapReq (mkSnapReq %d %d %d %d %s) 0)", q.term, q.src, q.lastIndex, q.lastTerm, coqConfig(q.lastConfig))}
	if c.abs != nil {
		if lg := c.abs.logical(n); uint64(len(lg)) >= sat1(snap.meta.index) {
			m.absK = lg[:sat1(snap.meta.index)]
		}
	}
	if c.cfg != nil {
		if lg := c.cfg.logLits(n); uint64(len(lg)) >= sat1(snap.meta.index) {
			m.absK = lg[:sat1(snap.meta.index)]
		}
	}
	c.net = append(c.net, m)
}

func (c *simCluster) changeConfig(n *simNode) {
	if c.static {
		return
	}
	id := n.r.nid
	cur := n.r.configs.Latest.clone()
	nc := cur.clone()
	switch c.rnd.Intn(8) {
	case 0: // add a non-voter to be promoted
		nid := uint64(len(c.ids) + 1)
		if c.phantom {
			nid = 1
			for id := range cur.Nodes {
				if id >= nid {
					nid = id + 1
				}
			}
		}
		if nid > 5 {
			return
		}
		if !c.phantom {
			if err := c.addNode(nid, nil); err != nil {
				return
			}
		}
		nc.Nodes[nid] = Node{ID: nid, Addr: fmt.Sprintf("M%d:8888", nid), Action: Promote}
	case 1:
		for _, v := range sortedIDs(nc.Nodes) {
			if nc.Nodes[v].Voter && c.rnd.Intn(2) == 0 {
				nn := nc.Nodes[v]
				nn.Action = Demote
				nc.Nodes[v] = nn
				break
			}
		}
	case 2:
		for _, v := range sortedIDs(nc.Nodes) {
			if c.rnd.Intn(3) == 0 {
				nn := nc.Nodes[v]
				nn.Action = Remove
				nc.Nodes[v] = nn
				break
			}
		}
	case 3:
		for _, v := range sortedIDs(nc.Nodes) {
			if c.rnd.Intn(3) == 0 {
				nn := nc.Nodes[v]
				nn.Action = ForceRemove
				nc.Nodes[v] = nn
				break
			}
		}
	case 4:
		for _, v := range sortedIDs(nc.Nodes) {
			if !nc.Nodes[v].Voter {
				nn := nc.Nodes[v]
				nn.Action = Promote
				nc.Nodes[v] = nn
			}
		}
	case 5: // illegal: flip a voting right directly
		for _, v := range sortedIDs(nc.Nodes) {
			nn := nc.Nodes[v]
			nn.Voter = !nn.Voter
			nn.Action = None
			nc.Nodes[v] = nn
			break
		}
	case 6: // stale index
		nc.Index = sub1(nc.Index)
	case 7: // several actions at once
		for _, v := range sortedIDs(nc.Nodes) {
			nn := nc.Nodes[v]
			if nn.Voter && v != id && c.rnd.Intn(2) == 0 {
				nn.Action = Demote
			} else if !nn.Voter {
				nn.Action = Promote
			}
			nc.Nodes[v] = nn
		}
	}
	t := ChangeConfig(nc).(changeConfig)
	st := c.newTask(id, t, "changeConfig")
	c.evImp = actionIDs(nc)
	c.run(n, "changeConfig", fmt.Sprintf("(ELeader (LChangeConfig %d %s))", st.id, coqConfig(nc)), func() (response, []string) {
		n.l.onChangeConfig(t)
		return nil, nil
	})
	c.evImp = nil
}

func actionIDs(cfg Config) map[uint64]bool {
	m := map[uint64]bool{}
	for id, nd := range cfg.Nodes {
		if nd.Action != None {
			m[id] = true
		}
	}
	return m
}

func (t rpcType) String() string {
	switch t {
	case rpcIdentity:
		return "identity"
	case rpcVote:
		return "vote"
	case rpcAppendEntries:
		return "append"
	case rpcInstallSnap:
		return "installSnap"
	case rpcTimeoutNow:
		return "timeoutNow"
	}
	return "rpc?"
}

// deliverRPCNoSettle is deliverRPC without the role transition (the caller settles).
func (n *simNode) deliverRPCNoSettle(wire []byte) (out simResp) {
	cn, _ := simConn(wire)
	b, err := cn.bufr.ReadByte()
	if err != nil {
		out.readErr = err
		return
	}
	rtype := rpcType(b)
	out.typ = rtype
	rpc := &rpc{req: rtype.createReq(), conn: cn, done: make(chan struct{})}
	if !rtype.fromLeader() {
		if err := rpc.req.decode(cn.bufr); err != nil {
			out.readErr = err
			return
		}
	}
	func() {
		defer func() {
			if v := recover(); v != nil {
				out.panicv = v
			}
		}()
		resetTimer := n.r.replyRPC(rpc)
		if n.r.state == Follower && resetTimer {
			n.f.resetTimer()
		}
	}()
	out.resp, out.readErr = rpc.resp, rpc.readErr
	return
}

func clusterMain(args []string) int {
	if len(args) < 4 {
		fmt.Fprintln(os.Stderr, "usage: vh raft cluster <seed> <sequences> <steps> <outdir>")
		return 2
	}
	seed, _ := strconv.ParseInt(args[0], 10, 64)
	nseq, _ := strconv.Atoi(args[1])
	nsteps, _ := strconv.Atoi(args[2])
	out := args[3]
	w := newCaseWriter("cluster", nodeCaseHeader, "ncase")
	rnd := rand.New(rand.NewSource(seed))
	var errs []string
	for s := 0; s < nseq; s++ {
		c := &simCluster{rnd: rnd, w: w, base: simTempDir(out, "cl"), opt: simOptions(1024), nodes: map[uint64]*simNode{}, dirs: map[uint64]string{},
			epoch: map[uint64]int{}, reqs: map[*replication]*appendReq{}, pipes: map[[2]uint64][]*simMsg{}, await: map[[2]uint64]int{}, piping: map[[2]uint64]bool{}, upd: map[uint64][]replUpdate{},
			tasks: map[uint64][]*simTask{}, asked: map[uint64]map[uint64]bool{}, respCh: map[uint64]chan rpcResponse{},
			elected: map[uint64]uint64{}, entries: map[[2]uint64]string{}, committed: map[uint64]string{}, slow: s%4 == 3}
		size := []int{1, 2, 3, 3, 3, 5}[rnd.Intn(6)]
		boot := map[uint64]Node{}
		for id := uint64(1); id <= uint64(size); id++ {
			boot[id] = Node{ID: id, Addr: fmt.Sprintf("M%d:8888", id), Voter: true}
		}
		c.boot = boot
		ok := true
		for id := uint64(1); id <= uint64(size); id++ {
			if err := c.addNode(id, boot); err != nil {
				errs = append(errs, err.Error())
				ok = false
			}
		}
		if ok {
			for k := 0; k < nsteps; k++ {
				c.step()
			}
		}
		for _, n := range c.nodes {
			n.kill()
		}
		os.RemoveAll(c.base)
	}
	w.flush(out, 250, map[string]interface{}{"seed": seed, "errors": errs})
	return 0
}
