//go:build verif

package raft

import (
	"fmt"
	"time"
)

// snapshotOrderOracle: onTakeSnapshot hands the request to the state machine from the main loop's
// goroutine, so that it is ordered after every apply sent before and BEFORE every apply sent
// later: the state captured is the one at the commit index of that moment, which is what the
// membership label describes.  This must hold whatever the backlog of the state machine is.  Here
// the state machine of a real single-voter leader is held inside an Update while its queue is
// filled to capacity; then a snapshot is requested and, as soon as the main loop is free again,
// another update is committed.  The snapshot must not cover that later update.
func snapshotOrderOracle(c *simCluster) {
	n := c.nodes[1]
	if n == nil || !c.elect(1) {
		return
	}
	c.doClient(n, []entryType{entryUpdate})
	r, l := n.r, n.l
	// hold the state machine inside the next Update
	gate := make(chan struct{})
	n.fsm.setGate(gate)
	store := func() {
		ne := UpdateFSM([]byte{7, 7}).newEntry()
		l.storeEntry(ne) // single voter: commits at once and sends the apply
	}
	store() // the state machine takes this apply and blocks in Update
	for i := 0; i < 50 && n.fsm.waiting() == 0; i++ {
		time.Sleep(time.Millisecond)
	}
	if n.fsm.waiting() == 0 {
		n.fsm.setGate(nil)
		close(gate)
		c.w.dist["oracle/snapshot-order-skipped"]++
		return
	}
	// fill the queue
	filled := 0
	for {
		select {
		case r.fsm.ch <- lastApplied{newTask()}:
			filled++
			continue
		default:
		}
		break
	}
	atRequest := r.commitIndex
	// the snapshot goroutine is held at its first statement, as in every simulated snapshot
	sgate, arrived := make(chan struct{}), make(chan struct{})
	simGateMu.Lock()
	simNextGate, simArrived = sgate, arrived
	simGateMu.Unlock()
	returned := make(chan struct{})
	go func() {
		r.onTakeSnapshot(TakeSnapshot(0).(takeSnapshot))
		close(returned)
	}()
	early := false
	select {
	case <-returned:
		early = true // the main loop did not wait for room in the queue
	case <-time.After(40 * time.Millisecond):
	}
	if early {
		// the main loop goes on: the next commit is sent to the state machine (it waits for room)
		sent := make(chan struct{})
		go func() { store(); close(sent) }()
		time.Sleep(5 * time.Millisecond)
		n.fsm.setGate(nil)
		close(gate)
		<-sent
	} else {
		n.fsm.setGate(nil)
		close(gate)
		<-returned
		store()
	}
	n.barrier()
	<-arrived
	close(sgate)
	t := <-r.snapTakenCh
	c.w.dist[fmt.Sprintf("oracle/snapshot-order queue=%d early=%v", filled, early)]++
	if t.err != nil {
		c.finding("C12", "snapshot-order-oracle-error", fmt.Sprintf("snapshot failed: %v", t.err))
	} else if t.meta.index != atRequest {
		c.finding("C12", "snapshot-request-not-ordered", fmt.Sprintf("a snapshot requested when the commit index was %d (state machine backlog %d) captured the state at index %d: the request was not ordered before the applies sent after it, its membership label describes index %d", atRequest, filled, t.meta.index, atRequest))
	}
	r.onSnapshotTaken(t)
	n.barrier()
}
