//go:build verif

package raft

import (
	"fmt"
	"time"
)

// snapshotOrderOracle: onTakeSnapshot hands the request to the state machine from the main loop's
// goroutine, so that it is ordered after every apply sent before and BEFORE every apply sent
// later: the state captured is the one at the commit index of that moment, which is what the
// membership label describes.  This must hold whatever the backlog of the state machine is.  Here
// the state machine of a real single-voter leader is held inside an Update while its queue is
// filled to capacity; then a snapshot is requested and, as soon as the main loop is free again,
// another update is committed.  The snapshot must not cover that later update.
func snapshotOrderOracle(c *simCluster) {
	n := c.nodes[1]
	if n == nil || !c.elect(1) {
		return
	}
	c.doClient(n, []entryType{entryUpdate})
	r, l := n.r, n.l
	// hold the state machine inside the next Update
	gate := make(chan struct{})
	n.fsm.setGate(gate)
	store := func() {
		ne := UpdateFSM([]byte{7, 7}).newEntry()
		l.storeEntry(ne) // single voter: commits at once and sends the apply
	}
	store() // the state machine takes this apply and blocks in Update
	for i := 0; i < 50 && n.fsm.waiting() == 0; i++ {
		time.Sleep(time.Millisecond)
	}
	if n.fsm.waiting() == 0 {
		n.fsm.setGate(nil)
		close(gate)
		c.w.dist["oracle/snapshot-order-skipped"]++
		return
	}
	// fill the queue
	filled := 0
	for {
		select {
		case r.fsm.ch <- lastApplied{newTask()}:
			filled++
			continue
		default:
		}
		break
	}
	atRequest := r.commitIndex
	// the snapshot goroutine is held at its first statement, as in every simulated snapshot
	sgate, arrived := make(chan struct{}), make(chan struct{})
	simGateMu.Lock()
	simNextGate, simArrived = sgate, arrived
	simGateMu.Unlock()
	returned := make(chan struct{})
	go func() {
		r.onTakeSnapshot(TakeSnapshot(0).(takeSnapshot))
		close(returned)
	}()
	early := false
	select {
	case <-returned:
		early = true // the main loop did not wait for room in the queue
	case <-time.After(40 * time.Millisecond):
	}
	if early {
		// the main loop goes on: the next commit is sent to the state machine (it waits for room)
		sent := make(chan struct{})
		go func() { store(); close(sent) }()
		time.Sleep(5 * time.Millisecond)
		n.fsm.setGate(nil)
		close(gate)
		<-sent
	} else {
		n.fsm.setGate(nil)
		close(gate)
		<-returned
		store()
	}
	n.barrier()
	<-arrived
	close(sgate)
	t := <-r.snapTakenCh
	c.w.dist[fmt.Sprintf("oracle/snapshot-order queue=%d early=%v", filled, early)]++
	if t.err != nil {
		c.finding("C12", "snapshot-order-oracle-error", fmt.Sprintf("snapshot failed: %v", t.err))
	} else if t.meta.index != atRequest {
		c.finding("C12", "snapshot-request-not-ordered", fmt.Sprintf("a snapshot requested when the commit index was %d (state machine backlog %d) captured the state at index %d: the request was not ordered before the applies sent after it, its membership label describes index %d", atRequest, filled, t.meta.index, atRequest))
	}
	r.onSnapshotTaken(t)
	n.barrier()
}

// restoreOrderOracle: the state machine goroutine restores from the snapshot it opened; its applied position afterwards is
// that snapshot's index and term - also when a newer snapshot is published while the restore runs - and stays what it was
// when the restore fails (the state machine keeps its state then).  A real single-voter leader with two snapshots.
func restoreOrderOracle(c *simCluster) {
	n := c.nodes[1]
	if n == nil || !c.elect(1) {
		return
	}
	r := n.r
	for k := 0; k < 3; k++ {
		c.doClient(n, []entryType{entryUpdate, entryUpdate})
	}
	for k := 0; k < 3; k++ {
		c.snapshotStep(n) // request, goroutine, taken: snapshot S1
	}
	s1, _ := r.snaps.latest()
	if s1 == 0 {
		c.w.dist["oracle/restore-order-skipped"]++
		return
	}
	for k := 0; k < 2; k++ {
		c.doClient(n, []entryType{entryUpdate})
	}
	applied := r.lastApplied()
	if applied <= s1 {
		c.w.dist["oracle/restore-order-skipped"]++
		return
	}
	// (a) a restore that fails
	n.fsm.mu.Lock()
	n.fsm.restoreErr = fmt.Errorf("sim: restore fails")
	n.fsm.mu.Unlock()
	r.fsm.ch <- fsmRestoreReq{r.fsmRestoredCh}
	err := <-r.fsmRestoredCh
	n.fsm.mu.Lock()
	n.fsm.restoreErr = nil
	n.fsm.mu.Unlock()
	if got := r.lastApplied(); err != nil && got != applied {
		for _, prop := range []string{"C12", "C03"} {
			c.finding(prop, "restore-position", fmt.Sprintf("a restore from snapshot %d failed (the state machine keeps its state, applied up to %d), yet the state machine goroutine now reports position %d: snapshots taken from it would be labelled with an index their state does not have", s1, applied, got))
		}
	}
	// (b) a newer snapshot is published while a restore from S1 runs
	gate := make(chan struct{})
	n.fsm.mu.Lock()
	n.fsm.restoreGate = gate
	n.fsm.mu.Unlock()
	r.fsm.ch <- fsmRestoreReq{r.fsmRestoredCh}
	time.Sleep(20 * time.Millisecond) // the goroutine has opened S1 and waits inside Restore
	s2 := applied
	if sink, err := r.snaps.new(s2, r.term, r.configs.Committed); err == nil {
		_ = simFSMState{n.fsm.snapshotCmds()}.Persist(sink.file)
		_, _ = sink.done(nil)
	}
	n.fsm.mu.Lock()
	n.fsm.restoreGate = nil
	n.fsm.mu.Unlock()
	close(gate)
	err = <-r.fsmRestoredCh
	latest, _ := r.snaps.latest()
	if got := r.lastApplied(); err == nil && latest == s2 && got != s1 {
		for _, prop := range []string{"C12", "C03"} {
			c.finding(prop, "restore-position", fmt.Sprintf("the state machine was restored from snapshot %d while snapshot %d was being published; it holds the state of %d but reports position %d", s1, s2, s1, got))
		}
	}
	c.w.dist["oracle/restore-order"]++
}
