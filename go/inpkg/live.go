//go:build verif

package raft

import (
	"context"
	"encoding/json"
	"errors"
	"fmt"
	"io/ioutil"
	"math/rand"
	"net"
	"os"
	"path/filepath"
	"strconv"
	"sync"
	"sync/atomic"
	"time"
)

// vh raft live <seed> <seconds> <outdir>
//
// Real Serve, real goroutines, real timers on an in-memory network: the parts of C15 no Gallina
// model can exhibit (data races when built with -race, deadlocks, goroutine interleavings of the
// replication / snapshot / state-machine goroutines).  Concurrent clients, snapshots, membership
// changes, leadership transfers, partitions and restarts on a cluster with small log segments.
// Monitors: no panic (the process would die), every submitted task completes, Shutdown returns,
// state machines end up prefix-related.  Supporting exploration only: never a substitute for a theorem.
func init() { verifCmds["live"] = liveMain }

type memNet struct {
	mu        sync.Mutex
	listeners map[string]*memListener
	cut       map[string]bool // nodes cut off from everybody
}

type memListener struct {
	addr   string
	ch     chan net.Conn
	closed chan struct{}
	once   sync.Once
}

func (l *memListener) Accept() (net.Conn, error) {
	select {
	case c := <-l.ch:
		return c, nil
	case <-l.closed:
		return nil, errors.New("listener closed")
	}
}
func (l *memListener) Close() error   { l.once.Do(func() { close(l.closed) }); return nil }
func (l *memListener) Addr() net.Addr { return simAddr{} }

func (n *memNet) listen(addr string) *memListener {
	n.mu.Lock()
	defer n.mu.Unlock()
	l := &memListener{addr: addr, ch: make(chan net.Conn, 64), closed: make(chan struct{})}
	n.listeners[addr] = l
	return l
}

func (n *memNet) dialer(from string) dialFn {
	return func(network, address string, timeout time.Duration) (net.Conn, error) {
		n.mu.Lock()
		l := n.listeners[address]
		blocked := n.cut[from] || n.cut[address]
		n.mu.Unlock()
		if l == nil || blocked {
			return nil, errors.New("memnet: unreachable")
		}
		c1, c2 := net.Pipe()
		select {
		case l.ch <- c2:
			return c1, nil
		case <-l.closed:
			return nil, errors.New("memnet: connection refused")
		case <-time.After(timeout):
			return nil, errors.New("memnet: timeout")
		}
	}
}

type liveNode struct {
	id   uint64
	dir  string
	r    *Raft
	fsm  *simFSM
	lis  *memListener
	done chan error
}

type liveCluster struct {
	net      *memNet
	opt      Options
	nodes    map[uint64]*liveNode
	mu       sync.Mutex
	findings []string
	tasks    int64
	pending  int64
}

func addrOf(id uint64) string { return fmt.Sprintf("M%d:8888", id) }

func (c *liveCluster) find(sig, detail string) {
	c.mu.Lock()
	c.findings = append(c.findings, "C15|"+sig+"|"+detail+"|")
	c.mu.Unlock()
}

func (c *liveCluster) start(id uint64, dir string) error {
	fsm := &simFSM{}
	r, err := New(c.opt, fsm, dir)
	if err != nil {
		return err
	}
	r.dialFn = c.net.dialer(addrOf(id))
	ln := &liveNode{id: id, dir: dir, r: r, fsm: fsm, lis: c.net.listen(addrOf(id)), done: make(chan error, 1)}
	c.mu.Lock()
	c.nodes[id] = ln
	c.mu.Unlock()
	go func() { ln.done <- r.Serve(ln.lis) }()
	return nil
}

func (c *liveCluster) stop(id uint64) {
	c.mu.Lock()
	ln := c.nodes[id]
	c.mu.Unlock()
	if ln == nil {
		return
	}
	ctx, cancel := context.WithTimeout(context.Background(), 30*time.Second)
	defer cancel()
	if err := ln.r.Shutdown(ctx); err != nil {
		c.find("shutdown-hangs", fmt.Sprintf("node %d: Shutdown did not finish within 30s: %v", id, err))
		return
	}
	select {
	case <-ln.done:
	case <-time.After(30 * time.Second):
		c.find("shutdown-hangs", fmt.Sprintf("node %d: Serve did not return within 30s of Shutdown", id))
	}
	_ = ln.lis.Close()
}

func (c *liveCluster) leader() *liveNode {
	c.mu.Lock()
	defer c.mu.Unlock()
	for _, ln := range c.nodes {
		if ln.r.isClosed() {
			continue
		}
		var isLdr bool
		done := make(chan struct{})
		go func() {
			_ = ln.r.inspect(func(r *Raft) { isLdr = r.state == Leader })
			close(done)
		}()
		select {
		case <-done:
			if isLdr {
				return ln
			}
		case <-time.After(2 * time.Second):
		}
	}
	return nil
}

// submit sends a task and waits for its completion (every task must complete).
func (c *liveCluster) submitFSM(ln *liveNode, t FSMTask, what string) {
	atomic.AddInt64(&c.tasks, 1)
	atomic.AddInt64(&c.pending, 1)
	defer atomic.AddInt64(&c.pending, -1)
	select {
	case <-ln.r.Closed():
		return
	case ln.r.FSMTasks() <- t:
	case <-time.After(10 * time.Second):
		return
	}
	select {
	case <-t.Done():
	case <-time.After(60 * time.Second):
		c.find("task-never-completes", fmt.Sprintf("%s submitted to node %d did not complete within 60s", what, ln.id))
	}
}

func (c *liveCluster) submit(ln *liveNode, t Task, what string) {
	atomic.AddInt64(&c.tasks, 1)
	select {
	case <-ln.r.Closed():
		return
	case ln.r.Tasks() <- t:
	case <-time.After(10 * time.Second):
		return
	}
	select {
	case <-t.Done():
	case <-time.After(60 * time.Second):
		c.find("task-never-completes", fmt.Sprintf("%s submitted to node %d did not complete within 60s", what, ln.id))
	}
}

func liveMain(args []string) int {
	if len(args) < 3 {
		fmt.Fprintln(os.Stderr, "usage: vh raft live <seed> <seconds> <outdir>")
		return 2
	}
	seed, _ := strconv.ParseInt(args[0], 10, 64)
	secs, _ := strconv.Atoi(args[1])
	out := args[2]
	rnd := rand.New(rand.NewSource(seed))
	base, _ := ioutil.TempDir(out, "live")
	defer os.RemoveAll(base)
	opt := DefaultOptions()
	opt.HeartbeatTimeout = 60 * time.Millisecond
	opt.PromoteThreshold = 60 * time.Millisecond
	opt.SnapshotInterval = 0
	opt.LogSegmentSize = 1024
	opt.Logger = nil
	opt.ShutdownOnRemove = false
	c := &liveCluster{net: &memNet{listeners: map[string]*memListener{}, cut: map[string]bool{}}, opt: opt, nodes: map[uint64]*liveNode{}}
	boot := map[uint64]Node{}
	for id := uint64(1); id <= 3; id++ {
		boot[id] = Node{ID: id, Addr: addrOf(id), Voter: true}
	}
	for id := uint64(1); id <= 3; id++ {
		dir := filepath.Join(base, fmt.Sprintf("n%d", id))
		if err := bootstrapDir(dir, 7, id, opt, boot); err != nil {
			fmt.Fprintln(os.Stderr, err)
			return 1
		}
		if err := c.start(id, dir); err != nil {
			fmt.Fprintln(os.Stderr, err)
			return 1
		}
	}
	deadline := time.Now().Add(time.Duration(secs) * time.Second)
	var wg sync.WaitGroup
	var seq int64
	// clients
	for k := 0; k < 4; k++ {
		wg.Add(1)
		go func(k int) {
			defer wg.Done()
			lr := rand.New(rand.NewSource(seed*31 + int64(k)))
			for time.Now().Before(deadline) {
				ln := c.leader()
				if ln == nil {
					time.Sleep(20 * time.Millisecond)
					continue
				}
				n := atomic.AddInt64(&seq, 1)
				switch lr.Intn(5) {
				case 0:
					c.submitFSM(ln, ReadFSM(nil), "ReadFSM")
				case 1:
					c.submitFSM(ln, BarrierFSM(), "BarrierFSM")
				default:
					c.submitFSM(ln, UpdateFSM([]byte(fmt.Sprintf("u%06d-%d", n, k))), "UpdateFSM")
				}
			}
		}(k)
	}
	// admin: snapshots on every node, transfers, a non-voter coming and going, partitions, restarts
	wg.Add(1)
	go func() {
		defer wg.Done()
		for time.Now().Before(deadline) {
			time.Sleep(time.Duration(50+rnd.Intn(150)) * time.Millisecond)
			c.mu.Lock()
			ids := make([]uint64, 0, len(c.nodes))
			for id := range c.nodes {
				ids = append(ids, id)
			}
			c.mu.Unlock()
			id := ids[rnd.Intn(len(ids))]
			c.mu.Lock()
			ln := c.nodes[id]
			c.mu.Unlock()
			switch rnd.Intn(10) {
			case 0, 1, 2:
				c.submit(ln, TakeSnapshot(0), "TakeSnapshot")
			case 3:
				if l := c.leader(); l != nil {
					if rnd.Intn(2) == 0 {
						c.submit(l, TransferLeadership(0, 500*time.Millisecond), "TransferLeadership")
					} else if id != l.id {
						// a transfer whose target is cut off right after it was told to time out: it acknowledges,
						// campaigns in vain, and the leader's wait for the new term runs out
						go func(t uint64) {
							time.Sleep(4 * time.Millisecond)
							c.net.mu.Lock()
							c.net.cut[addrOf(t)] = true
							c.net.mu.Unlock()
							time.Sleep(450 * time.Millisecond)
							c.net.mu.Lock()
							delete(c.net.cut, addrOf(t))
							c.net.mu.Unlock()
						}(id)
						c.submit(l, TransferLeadership(id, 900*time.Millisecond), "TransferLeadership(target)")
					}
				}
			case 4:
				if l := c.leader(); l != nil {
					info := GetInfo()
					c.submit(l, info, "GetInfo")
				}
			case 5:
				// cut a node off for a while
				c.net.mu.Lock()
				c.net.cut[addrOf(id)] = true
				c.net.mu.Unlock()
				time.Sleep(time.Duration(100+rnd.Intn(300)) * time.Millisecond)
				c.net.mu.Lock()
				delete(c.net.cut, addrOf(id))
				c.net.mu.Unlock()
			case 6:
				// restart a node
				c.stop(id)
				if err := c.start(id, ln.dir); err != nil {
					c.find("restart-fails", fmt.Sprintf("node %d: %v", id, err))
				}
			case 7:
				// membership: bring in node 4 as a non-voter to be promoted, or take it out again
				if l := c.leader(); l != nil {
					var cfg Config
					_ = l.r.inspect(func(r *Raft) { cfg = r.configs.Latest.clone() })
					if _, ok := cfg.Nodes[4]; !ok {
						c.mu.Lock()
						_, running := c.nodes[4]
						c.mu.Unlock()
						if !running {
							dir := filepath.Join(base, "n4")
							_ = os.MkdirAll(dir, 0700)
							if err := SetIdentity(dir, 7, 4); err == nil {
								_ = c.start(4, dir)
							}
						}
						_ = cfg.AddNonvoter(4, addrOf(4), true)
					} else if rnd.Intn(2) == 0 {
						_ = cfg.SetAction(4, Remove)
					}
					c.submit(l, ChangeConfig(cfg), "ChangeConfig")
				}
			default:
				if l := c.leader(); l != nil {
					c.submitFSM(l, DirtyReadFSM(nil), "DirtyReadFSM")
				}
			}
		}
	}()
	wg.Wait()
	// let things settle, then stop everything
	time.Sleep(300 * time.Millisecond)
	c.mu.Lock()
	ids := make([]uint64, 0, len(c.nodes))
	for id := range c.nodes {
		ids = append(ids, id)
	}
	c.mu.Unlock()
	var fsms [][][]byte
	for _, id := range ids {
		c.stop(id)
		fsms = append(fsms, c.nodes[id].fsm.snapshotCmds())
	}
	for i := range fsms {
		for j := i + 1; j < len(fsms); j++ {
			k := len(fsms[i])
			if len(fsms[j]) < k {
				k = len(fsms[j])
			}
			for x := 0; x < k; x++ {
				if string(fsms[i][x]) != string(fsms[j][x]) {
					c.find("fsm-diverge", fmt.Sprintf("state machines %d and %d differ at command %d: %q vs %q", ids[i], ids[j], x, fsms[i][x], fsms[j][x]))
					break
				}
			}
		}
	}
	meta := map[string]interface{}{"seed": seed, "seconds": secs, "tasks": atomic.LoadInt64(&c.tasks), "findings": c.findings,
		"fsm_lengths": func() []int {
			var l []int
			for _, f := range fsms {
				l = append(l, len(f))
			}
			return l
		}()}
	mb, _ := json.Marshal(meta)
	_ = ioutil.WriteFile(filepath.Join(out, "live_meta.json"), mb, 0644)
	return 0
}
