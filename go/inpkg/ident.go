//go:build verif

package raft

import (
	"context"
	"encoding/json"
	"fmt"
	"io/ioutil"
	"math/rand"
	"net"
	"os"
	"path/filepath"
	"strconv"
	"strings"
	"sync"
	"sync/atomic"
	"time"
)

// vh raft ident <seed> <n> <outdir>
//
// Identity isolation through the REAL connPool.getConn / doRPC on the dialer
// side and the REAL server.handleConn + Raft.replyRPC on the listener side,
// connected by net.Pipe: for every pair of (cluster, node) identities and every
// intended target, does a vote request get through, and how many non-identity
// requests reach the listener's handlers.  Plus concurrent lockDir and SetIdentity.
func init() { verifCmds["ident"] = identMain }

type identListener struct {
	r         *Raft
	s         *server
	processed int64
	stop      chan struct{}
	wg        sync.WaitGroup
}

func newIdentListener(dir string, cid, nid uint64) (*identListener, error) {
	if err := os.MkdirAll(dir, 0700); err != nil {
		return nil, err
	}
	if err := SetIdentity(dir, cid, nid); err != nil {
		return nil, err
	}
	r, err := New(simOptions(1024), &simFSM{}, dir)
	if err != nil {
		return nil, err
	}
	l := &identListener{r: r, s: newServer(r, nil), stop: make(chan struct{})}
	go r.fsm.runLoop()
	l.wg.Add(1)
	go func() { // the rpcCh case of stateLoop
		defer l.wg.Done()
		for {
			select {
			case <-l.stop:
				return
			case rpc := <-r.rpcCh:
				if rpc.req.rpcType() != rpcIdentity {
					atomic.AddInt64(&l.processed, 1)
				}
				func() {
					defer func() { _ = recover() }()
					r.replyRPC(rpc)
				}()
			}
		}
	}()
	return l, nil
}

func (l *identListener) close() {
	close(l.s.stopCh)
	close(l.stop)
	l.wg.Wait()
	close(l.r.fsm.ch)
	_ = l.r.log.Close()
}

func identMain(args []string) int {
	if len(args) < 3 {
		fmt.Fprintln(os.Stderr, "usage: vh raft ident <seed> <n> <outdir>")
		return 2
	}
	seed, _ := strconv.ParseInt(args[0], 10, 64)
	n, _ := strconv.Atoi(args[1])
	out := args[2]
	rnd := rand.New(rand.NewSource(seed))
	var cases, findings []string
	desc := map[string]string{}
	dist := map[string]int{}
	id := 0
	base, _ := ioutil.TempDir(out, "ident")
	defer os.RemoveAll(base)

	// ---- connections: all identity pairs of a small domain, plus random 64-bit ones
	type pair struct{ cid, nid uint64 }
	var listeners []pair
	for c := uint64(1); c <= 2; c++ {
		for x := uint64(1); x <= 3; x++ {
			listeners = append(listeners, pair{c, x})
		}
	}
	for i := 0; i < n; i++ {
		listeners = append(listeners, pair{rnd.Uint64() | 1, rnd.Uint64() | 1})
	}
	for li, lp := range listeners {
		l, err := newIdentListener(filepath.Join(base, fmt.Sprintf("l%d", li)), lp.cid, lp.nid)
		if err != nil {
			findings = append(findings, "C20|listener-setup|"+err.Error())
			continue
		}
		var dialers []struct {
			d      pair
			target uint64
		}
		for c := uint64(1); c <= 2; c++ {
			for t := uint64(1); t <= 3; t++ {
				dialers = append(dialers, struct {
					d      pair
					target uint64
				}{pair{c, 9}, t})
			}
		}
		dialers = append(dialers, struct {
			d      pair
			target uint64
		}{pair{lp.cid, 77}, lp.nid}, struct {
			d      pair
			target uint64
		}{pair{lp.cid ^ 1<<40, 77}, lp.nid}, struct {
			d      pair
			target uint64
		}{pair{lp.cid, 77}, lp.nid ^ 1<<63})
		for _, dl := range dialers {
			before := atomic.LoadInt64(&l.processed)
			pool := &connPool{src: dl.d.nid, cid: dl.d.cid, nid: dl.target, max: 1,
				resolver: &resolver{addrs: map[uint64]string{dl.target: "anywhere:1"}, logger: nopLogger{}, alerts: nopAlerts{}},
				dialFn: func(network, address string, timeout time.Duration) (net.Conn, error) {
					c1, c2 := net.Pipe()
					go func() { _ = l.s.handleConn(c2); _ = c2.Close() }()
					return c1, nil
				}}
			resp := &voteResp{}
			err := pool.doRPC(&voteReq{req: req{0, dl.d.nid}}, resp, time.Now().Add(3*time.Second))
			// a second request reuses the pooled (already verified) connection
			accepted := err == nil
			time.Sleep(2 * time.Millisecond)
			got := atomic.LoadInt64(&l.processed) - before
			pool.closeAll()
			id++
			desc[strconv.Itoa(id)] = fmt.Sprintf("dialer (%d,%d) -> target %d, listener (%d,%d)", dl.d.cid, dl.d.nid, dl.target, lp.cid, lp.nid)
			ok := dl.d.cid == lp.cid && dl.target == lp.nid
			dist[fmt.Sprintf("conn/match=%v", ok)]++
			cases = append(cases, fmt.Sprintf("IConn %d (mkId %d %d) %d (mkId %d %d) %s %d", id, dl.d.cid, dl.d.nid, dl.target, lp.cid, lp.nid, coqBool(accepted), got))
			if !ok && got > 0 {
				findings = append(findings, fmt.Sprintf("C20|foreign-request-processed|%s: %d requests reached the handlers", desc[strconv.Itoa(id)], got))
			}
		}
		l.close()
	}

	// ---- re-dial: one pool dials twice; between the two dials another node took over the address
	for fi := 0; fi < 6 && fi < len(listeners); fi++ {
		for si := 0; si < 6 && si < len(listeners); si++ {
			fp, sp := listeners[fi], listeners[si]
			l1, err1 := newIdentListener(filepath.Join(base, fmt.Sprintf("r%d_%da", fi, si)), fp.cid, fp.nid)
			l2, err2 := newIdentListener(filepath.Join(base, fmt.Sprintf("r%d_%db", fi, si)), sp.cid, sp.nid)
			if err1 != nil || err2 != nil {
				findings = append(findings, "C20|listener-setup|re-dial listeners")
				continue
			}
			cur := l1
			pool := &connPool{src: 9, cid: fp.cid, nid: fp.nid, max: 1,
				resolver: &resolver{addrs: map[uint64]string{fp.nid: "anywhere:1"}, logger: nopLogger{}, alerts: nopAlerts{}},
				dialFn: func(network, address string, timeout time.Duration) (net.Conn, error) {
					c1, c2 := net.Pipe()
					l := cur
					go func() { _ = l.s.handleConn(c2); _ = c2.Close() }()
					return c1, nil
				}}
			for round, l := range []*identListener{l1, l2} {
				cur = l
				lp := fp
				if round == 1 {
					lp = sp
				}
				before := atomic.LoadInt64(&l.processed)
				resp := &voteResp{}
				err := pool.doRPC(&voteReq{req: req{0, 9}}, resp, time.Now().Add(3*time.Second))
				accepted := err == nil
				time.Sleep(2 * time.Millisecond)
				got := atomic.LoadInt64(&l.processed) - before
				pool.closeAll() // the connection is lost; the next request dials again
				id++
				desc[strconv.Itoa(id)] = fmt.Sprintf("dial #%d of one pool: dialer (%d,9) -> target %d, listener now (%d,%d)", round+1, fp.cid, fp.nid, lp.cid, lp.nid)
				ok := fp.cid == lp.cid && fp.nid == lp.nid
				dist[fmt.Sprintf("redial%d/match=%v", round+1, ok)]++
				cases = append(cases, fmt.Sprintf("IConn %d (mkId %d %d) %d (mkId %d %d) %s %d", id, fp.cid, uint64(9), fp.nid, lp.cid, lp.nid, coqBool(accepted), got))
				if !ok && got > 0 {
					findings = append(findings, fmt.Sprintf("C20|foreign-request-processed|%s: %d requests reached the handlers", desc[strconv.Itoa(id)], got))
				}
			}
			l1.close()
			l2.close()
		}
	}

	// ---- SetIdentity
	for i := 0; i < 12+n; i++ {
		dir := filepath.Join(base, fmt.Sprintf("s%d", i))
		_ = os.MkdirAll(dir, 0700)
		var stored pair
		if i%3 != 0 {
			stored = pair{uint64(1 + rnd.Intn(3)), uint64(1 + rnd.Intn(3))}
			if i%5 == 0 {
				stored = pair{rnd.Uint64() | 1, rnd.Uint64() | 1}
			}
			if err := SetIdentity(dir, stored.cid, stored.nid); err != nil {
				findings = append(findings, "C20|setidentity-setup|"+err.Error())
				continue
			}
		}
		req := pair{uint64(rnd.Intn(4)), uint64(rnd.Intn(4))}
		if rnd.Intn(3) == 0 {
			req = stored
		}
		err := SetIdentity(dir, req.cid, req.nid)
		res := 0
		switch {
		case err == nil:
		case err == ErrIdentityAlreadySet:
			res = 2
		case strings.Contains(err.Error(), "is zero"):
			res = 1
		default:
			findings = append(findings, "C20|setidentity-error|"+err.Error())
			continue
		}
		var after pair
		if v, err := openValue(dir, ".id"); err == nil {
			after.cid, after.nid = v.get()
		}
		if _, err := os.Stat(filepath.Join(dir, "lock")); err == nil {
			findings = append(findings, "C20|lock-left-behind|SetIdentity left the lock file in place")
		}
		id++
		desc[strconv.Itoa(id)] = fmt.Sprintf("SetIdentity(%d,%d) on stored (%d,%d)", req.cid, req.nid, stored.cid, stored.nid)
		dist[fmt.Sprintf("setidentity/res=%d", res)]++
		cases = append(cases, fmt.Sprintf("ISet %d (mkId %d %d) %d %d %d (mkId %d %d)", id, stored.cid, stored.nid, req.cid, req.nid, res, after.cid, after.nid))
	}

	// ---- lockDir: concurrent attempts on one directory
	locks := 0
	for round := 0; round < 20; round++ {
		dir := filepath.Join(base, fmt.Sprintf("k%d", round))
		_ = os.MkdirAll(dir, 0700)
		var wg sync.WaitGroup
		var won int64
		for g := 0; g < 8; g++ {
			wg.Add(1)
			go func() {
				defer wg.Done()
				if err := lockDir(dir); err == nil {
					atomic.AddInt64(&won, 1)
				} else if err != ErrLockExists {
					atomic.AddInt64(&won, 100)
				}
			}()
		}
		wg.Wait()
		locks++
		if won != 1 {
			findings = append(findings, fmt.Sprintf("C20|lock-not-exclusive|8 concurrent lockDir on one directory: result code %d (1 = exactly one winner)", won))
		}
		if err := lockDir(dir); err != ErrLockExists {
			findings = append(findings, fmt.Sprintf("C20|lock-not-exclusive|lockDir on a locked directory returned %v", err))
		}
		_ = unlockDir(dir)
		if err := lockDir(dir); err != nil {
			findings = append(findings, fmt.Sprintf("C20|lock-stuck|lockDir after unlockDir returned %v", err))
		}
	}
	dist["lock/rounds"] = locks

	// ---- Serve: a directory being served refuses every other Serve / SetIdentity, for as long as it is served
	for round := 0; round < 3; round++ {
		dir := filepath.Join(base, fmt.Sprintf("v%d", round))
		_ = os.MkdirAll(dir, 0700)
		if err := SetIdentity(dir, 5, 1); err != nil {
			findings = append(findings, "C20|serve-setup|"+err.Error())
			continue
		}
		a, err := New(simOptions(1024), &simFSM{}, dir)
		if err != nil {
			findings = append(findings, "C20|serve-setup|"+err.Error())
			continue
		}
		la := newBlockedListener()
		aDone := make(chan error, 1)
		go func() { aDone <- a.Serve(la) }()
		deadline := time.Now().Add(5 * time.Second)
		for time.Now().Before(deadline) {
			if _, err := os.Stat(filepath.Join(dir, "lock")); err == nil {
				break
			}
			time.Sleep(time.Millisecond)
		}
		for attempt := 0; attempt < 3; attempt++ {
			b, err := New(simOptions(1024), &simFSM{}, dir)
			if err != nil {
				findings = append(findings, "C20|serve-setup|second New: "+err.Error())
				break
			}
			lb := newBlockedListener()
			bDone := make(chan error, 1)
			go func() { bDone <- b.Serve(lb) }()
			select {
			case err := <-bDone:
				if err != ErrLockExists {
					findings = append(findings, fmt.Sprintf("C20|second-serve-not-refused|attempt %d: Serve on a served directory returned %v", attempt, err))
				}
			case <-time.After(2 * time.Second):
				findings = append(findings, fmt.Sprintf("C20|second-serve-not-refused|attempt %d: a second instance is serving the same directory", attempt))
				_ = b.Shutdown(context.Background())
				<-bDone
			}
			_ = lb.Close()
			_ = b.log.Close()
			if err := SetIdentity(dir, 5, 1); err != ErrLockExists {
				findings = append(findings, fmt.Sprintf("C20|lock-lost|attempt %d: SetIdentity on a served directory returned %v", attempt, err))
			}
			if _, err := os.Stat(filepath.Join(dir, "lock")); err != nil {
				findings = append(findings, fmt.Sprintf("C20|lock-lost|attempt %d: the serving instance's lock file is gone", attempt))
			}
		}
		_ = a.Shutdown(context.Background())
		<-aDone
		_ = la.Close()
		if _, err := os.Stat(filepath.Join(dir, "lock")); err == nil {
			findings = append(findings, "C20|lock-left-behind|Serve returned but the lock file is still there")
		}
		dist["serve/rounds"]++
	}

	// ---- Serve that is shutting down while its state machine is still busy: the directory stays locked until
	// Serve has returned (every goroutine of the instance has finished with the files)
	for round := 0; round < 2; round++ {
		dir := filepath.Join(base, fmt.Sprintf("w%d", round))
		opt := simOptions(1024)
		opt.HeartbeatTimeout = 40 * time.Millisecond
		if err := bootstrapDir(dir, 5, 1, opt, map[uint64]Node{1: {ID: 1, Addr: "M1:8888", Voter: true}}); err != nil {
			findings = append(findings, "C20|serve-setup|"+err.Error())
			continue
		}
		fsm := &identBlockFSM{gate: make(chan struct{})}
		a, err := New(opt, fsm, dir)
		if err != nil {
			findings = append(findings, "C20|serve-setup|"+err.Error())
			continue
		}
		la := newBlockedListener()
		aDone := make(chan error, 1)
		go func() { aDone <- a.Serve(la) }()
		// submit updates until one is accepted (the node has elected itself) and the state machine is inside Update
		var t FSMTask
		submitted := false
		for deadline := time.Now().Add(8 * time.Second); time.Now().Before(deadline) && atomic.LoadInt32(&fsm.inside) == 0; {
			t = UpdateFSM([]byte("x"))
			select {
			case a.FSMTasks() <- t:
				submitted = true
				select {
				case <-t.Done(): // refused: not leader yet
				case <-time.After(100 * time.Millisecond):
				}
			case <-time.After(10 * time.Millisecond):
			}
			time.Sleep(5 * time.Millisecond)
		}
		if atomic.LoadInt32(&fsm.inside) == 0 {
			if os.Getenv("VERIF_DEBUG") != "" {
				var st State
				var term, last, commit uint64
				_ = a.inspect(func(r *Raft) { st, term, last, commit = r.state, r.term, r.lastLogIndex, r.commitIndex })
				fmt.Fprintf(os.Stderr, "busy round skipped: submitted=%v state=%v term=%d last=%d commit=%d taskdone=%v\n", submitted, st, term, last, commit, taskDone(t))
			}
			close(fsm.gate)
			_ = a.Shutdown(context.Background())
			<-aDone
			_ = la.Close()
			dist["serve/busy-skipped"]++
			continue
		}
		ctx, cancel := context.WithTimeout(context.Background(), 150*time.Millisecond)
		_ = a.Shutdown(ctx) // expires: the state machine is still busy
		cancel()
		for k := 0; k < 20; k++ {
			select {
			case <-aDone:
				findings = append(findings, "C20|serve-returned-early|Serve returned while its state machine goroutine was still inside Update")
				k = 1000
			default:
			}
			if k >= 1000 {
				break
			}
			if err := SetIdentity(dir, 5, 1); err != ErrLockExists {
				findings = append(findings, fmt.Sprintf("C20|lock-lost|SetIdentity during a shutdown in progress returned %v: the directory is unlocked before Serve has returned", err))
				break
			}
			if _, err := os.Stat(filepath.Join(dir, "lock")); err != nil {
				findings = append(findings, "C20|lock-lost|the lock file is gone while Serve has not returned (shutdown in progress, state machine busy)")
				break
			}
			time.Sleep(10 * time.Millisecond)
		}
		close(fsm.gate)
		select {
		case <-aDone:
		case <-time.After(20 * time.Second):
			findings = append(findings, "C20|serve-hangs|Serve did not return after the state machine was released")
		}
		_ = la.Close()
		dist["serve/busy-rounds"]++
	}

	// ---- the pool pairs replies with requests
	pc, pf := identPoolCases(rnd, 4+n, &id, desc, dist)
	cases = append(cases, pc...)
	findings = append(findings, pf...)

	var sb strings.Builder
	sb.WriteString("From Coq Require Import List NArith.\nFrom Verif Require Import Ident.Ident Ident.Cases.\nImport ListNotations.\nOpen Scope N_scope.\n")
	sb.WriteString("Definition cases : list icase := [\n" + strings.Join(cases, ";\n") + "].\nDefinition M := Eval vm_compute in mismatches cases.\nPrint M.\n")
	if err := ioutil.WriteFile(filepath.Join(out, "cases_ident_0.v"), []byte(sb.String()), 0644); err != nil {
		panic(err)
	}
	samples := cases
	if len(samples) > 5 {
		samples = []string{cases[0], cases[len(cases)/3], cases[len(cases)/2], cases[len(cases)-1]}
	}
	meta := map[string]interface{}{"seed": seed, "cases": len(cases), "files": 1, "dist": dist, "desc": desc, "findings": findings, "samples": samples}
	mb, _ := json.Marshal(meta)
	_ = ioutil.WriteFile(filepath.Join(out, "ident_meta.json"), mb, 0644)
	return 0
}

// identBlockFSM: a state machine whose Update blocks until the gate is closed.
type identBlockFSM struct {
	simFSM
	gate   chan struct{}
	inside int32
}

func (f *identBlockFSM) Update(cmd []byte) interface{} {
	atomic.StoreInt32(&f.inside, 1)
	<-f.gate
	return f.simFSM.Update(cmd)
}

// blockedListener: a net.Listener on which nobody ever connects.
type blockedListener struct {
	ch   chan struct{}
	once sync.Once
}

func newBlockedListener() *blockedListener { return &blockedListener{ch: make(chan struct{})} }
func (l *blockedListener) Accept() (net.Conn, error) {
	<-l.ch
	return nil, fmt.Errorf("listener closed")
}
func (l *blockedListener) Close() error   { l.once.Do(func() { close(l.ch) }); return nil }
func (l *blockedListener) Addr() net.Addr { return simAddr{} }
