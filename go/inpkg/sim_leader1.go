//go:build verif

package raft

import (
	"fmt"
	"math/rand"
	"os"
	"strconv"
)

// vh raft leader1 <seed> <sequences> <steps> <outdir>
//
// One REAL node that leads a configuration of 2-5 nodes whose other members do not exist: the
// harness answers for them, adversarially.  What the cluster driver reaches only through realistic
// schedules (a transfer that times out while an action is pending, a follower that reports any
// match index, a step-down in the middle of a batch, snapshots between any two leader events) is
// routine here.  Every event is a case for the node model, exactly as in the other drivers; the
// answers the harness invents stay within what a follower running the library can send (results of
// the reply types, match indices within the leader's log, terms not below the request's).
func init() { verifCmds["leader1"] = leader1Main }

func (c *simCluster) leader1Step() {
	n := c.nodes[1]
	if n == nil || n.dead {
		return
	}
	if n.stopped {
		c.crash(1, true) // the node shut itself down (removed): a new process on the same directory
		return
	}
	r := n.r
	switch n.cur {
	case Follower:
		if c.rnd.Intn(5) == 0 {
			c.nonLeaderTask(n)
			return
		}
		c.doTimeout(n)
	case Candidate:
		// its own vote first
		select {
		case v := <-n.c.respCh:
			c.hint = absHint{}
			c.run(n, "selfVote", fmt.Sprintf("(EVoteResult %d %d)", v.getTerm(), uint8(v.getResult())), func() (response, []string) {
				n.c.onVoteResult(v)
				return nil, nil
			})
			return
		default:
		}
		// then an answer from one of the others
		var others []uint64
		for _, id := range sortedIDs(r.configs.Latest.Nodes) {
			if id != 1 && r.configs.Latest.Nodes[id].Voter {
				others = append(others, id)
			}
		}
		if len(others) == 0 || c.rnd.Intn(8) == 0 {
			c.doTimeout(n) // another round
			return
		}
		from := others[c.rnd.Intn(len(others))]
		res := []rpcResult{success, success, success, alreadyVoted, leaderKnown, logNotUptodate, staleTerm}[c.rnd.Intn(7)]
		term := r.term
		if res == staleTerm {
			term += uint64(1 + c.rnd.Intn(2))
		}
		vr := rpcResponse{response: &voteResp{resp{term, res, nil}}, from: from}
		c.run(n, fmt.Sprintf("voteResult from %d", from), fmt.Sprintf("(EVoteResult %d %d)", term, uint8(res)), func() (response, []string) {
			n.c.onVoteResult(vr)
			return nil, nil
		})
	case Leader:
		l := n.l
		// the ends of a transfer, more often than a realistic schedule reaches them
		if l.transfer.timer.active && c.rnd.Intn(6) == 0 {
			c.run(n, "transferTimeout", "(ELeader LTransferTimeout)", func() (response, []string) {
				l.transfer.timer.active = false
				l.onTransferTimeout()
				return nil, nil
			})
			return
		}
		if l.transfer.newTermTimer.active && c.rnd.Intn(4) == 0 {
			had := l.transfer.respCh != nil
			c.run(n, "newTermTimeout", "(ELeader LNewTermTimeout)", func() (response, []string) {
				l.transfer.newTermTimer.active = false
				l.onNewTermTimeout()
				return nil, c.transferMsgs(n, had)
			})
			return
		}
		x := c.rnd.Intn(100)
		switch {
		case x < 34:
			c.leaderStep(n)
		case x < 62:
			c.phantomAnswer(n)
		case x < 74:
			c.phantomUpdate(n)
		case x < 82:
			c.snapshotStep(n)
		case x < 86:
			c.doTimeout(n) // quorum check
		case x < 88:
			c.crash(1, true)
		default:
			if len(c.upd[1]) > 0 {
				c.doReplUpdate(n)
			} else {
				c.leaderStep(n)
			}
		}
	}
}

// phantomAnswer: a request of the leader is answered by the member it was sent to.
func (c *simCluster) phantomAnswer(n *simNode) {
	r := n.r
	for i, m := range c.net {
		if m.isResp || m.from != 1 {
			continue
		}
		c.net = append(c.net[:i], c.net[i+1:]...)
		k := [2]uint64{1, m.to}
		switch m.kind {
		case rpcAppendEntries:
			if p := c.pipes[k]; len(p) > 0 && p[0] == m {
				c.pipes[k] = p[1:]
			}
			rp := n.l.repls[m.to]
			if rp == nil {
				return
			}
			var ar *appendResp
			y := c.rnd.Intn(20)
			if q, _ := decodeAppendWire(m.wire); q != nil && q.prevLogIndex <= rp.matchIndex && y >= 13 && y < 18 {
				// a follower cannot reject a request whose previous entry it has acknowledged (nor one without a previous entry)
				y = 0
			}
			switch {
			case y < 13:
				ar = &appendResp{resp{r.term, success, nil}, m.reqLast}
			case y < 18:
				// a follower whose log ends somewhere at or after what it acknowledged before
				lo, hi := rp.status.matchIndex, r.lastLogIndex
				last := lo
				if hi > lo {
					last = lo + uint64(c.rnd.Intn(int(hi-lo)+1))
				}
				res := prevEntryNotFound
				if c.rnd.Intn(2) == 0 {
					res = prevTermMismatch
				}
				ar = &appendResp{resp{r.term, res, nil}, last}
			default:
				ar = &appendResp{resp{r.term + 1, staleTerm, nil}, 0}
			}
			c.net = append(c.net, &simMsg{from: m.to, to: 1, kind: rpcAppendEntries, epoch: m.epoch, reqLast: m.reqLast, isResp: true, resp: ar, piped: m.piped,
				lit: fmt.Sprintf("resp append %d", ar.result)})
			c.deliver(len(c.net) - 1)
		case rpcInstallSnap:
			c.net = append(c.net, &simMsg{from: m.to, to: 1, kind: rpcInstallSnap, epoch: m.epoch, reqLast: m.reqLast, isResp: true,
				resp: &installSnapResp{resp{r.term, success, nil}}, lit: "resp installSnap 1"})
			c.deliver(len(c.net) - 1)
		case rpcTimeoutNow:
			res := success
			if c.rnd.Intn(3) == 0 {
				res = nonVoter
			}
			c.net = append(c.net, &simMsg{from: m.to, to: 1, kind: rpcTimeoutNow, epoch: m.epoch, isResp: true,
				resp: &timeoutNowResp{resp{r.term, res, nil}}, lit: "resp timeoutNow"})
			c.deliver(len(c.net) - 1)
		}
		return
	}
	c.leaderStep(n)
}

// phantomUpdate: a replication reports something about its follower.
func (c *simCluster) phantomUpdate(n *simNode) {
	r := n.r
	ids := sortedReplIDs(n.l)
	if len(ids) == 0 {
		c.leaderStep(n)
		return
	}
	rp := n.l.repls[ids[c.rnd.Intn(len(ids))]]
	switch y := c.rnd.Intn(20); {
	case y < 15:
		lo, hi := rp.status.matchIndex, r.lastLogIndex
		v := hi
		if hi > lo && c.rnd.Intn(3) != 0 {
			v = lo + uint64(c.rnd.Intn(int(hi-lo)+1))
		}
		if v == lo {
			return
		}
		// what onAppendEntriesResp does on success
		rp.matchIndex = v
		if rp.nextIndex <= v {
			rp.nextIndex = v + 1
		}
		c.upd[1] = append(c.upd[1], replUpdate{&rp.status, matchIndex{v}})
	case y < 19:
		return // contact flips are part of leaderStep
	default:
		c.upd[1] = append(c.upd[1], replUpdate{&rp.status, newTerm{r.term + 1}})
	}
	c.doReplUpdate(n)
}

func leader1Main(args []string) int {
	if len(args) < 4 {
		fmt.Fprintln(os.Stderr, "usage: vh raft leader1 <seed> <sequences> <steps> <outdir>")
		return 2
	}
	seed, _ := strconv.ParseInt(args[0], 10, 64)
	nseq, _ := strconv.Atoi(args[1])
	nsteps, _ := strconv.Atoi(args[2])
	out := args[3]
	w := newCaseWriter("leader1", nodeCaseHeader, "ncase")
	rnd := rand.New(rand.NewSource(seed))
	var errs []string
	for s := 0; s < nseq; s++ {
		c := &simCluster{rnd: rnd, w: w, base: simTempDir(out, "l1"), opt: simOptions(1024), nodes: map[uint64]*simNode{}, dirs: map[uint64]string{},
			epoch: map[uint64]int{}, reqs: map[*replication]*appendReq{}, pipes: map[[2]uint64][]*simMsg{}, await: map[[2]uint64]int{}, piping: map[[2]uint64]bool{}, upd: map[uint64][]replUpdate{},
			tasks: map[uint64][]*simTask{}, asked: map[uint64]map[uint64]bool{}, respCh: map[uint64]chan rpcResponse{},
			elected: map[uint64]uint64{}, entries: map[[2]uint64]string{}, committed: map[uint64]string{}, slow: s%4 == 3, phantom: true}
		size := 2 + rnd.Intn(4)
		boot := map[uint64]Node{}
		for id := uint64(1); id <= uint64(size); id++ {
			boot[id] = Node{ID: id, Addr: fmt.Sprintf("M%d:8888", id), Voter: id == 1 || rnd.Intn(5) != 0}
		}
		c.boot = boot
		if err := c.addNode(1, boot); err != nil {
			errs = append(errs, err.Error())
			continue
		}
		// only node 1 exists: requests to the others are answered by the harness
		for k := 0; k < nsteps; k++ {
			c.leader1Step()
		}
		for _, n := range c.nodes {
			n.kill()
		}
		os.RemoveAll(c.base)
	}
	w.flush(out, 250, map[string]interface{}{"seed": seed, "errors": errs})
	return 0
}
