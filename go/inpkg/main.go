//go:build verif

package raft

import (
	"fmt"
	"os"
	"runtime"
	"sync/atomic"
	"time"
)

// simBeat is bumped whenever a simulated event starts; simDoing names it.  The watchdog ends the
// process when a single event of the real code does not return (a handler blocked for ever: a
// deadlock of the node's main loop), so that the check reports it instead of hanging.
var (
	simBeat  int64
	simDoing atomic.Value
)

func simWatchdog(limit time.Duration) {
	go func() {
		last, since := int64(-1), time.Now()
		for {
			time.Sleep(2 * time.Second)
			b := atomic.LoadInt64(&simBeat)
			if b == 0 || b != last {
				last, since = b, time.Now()
				continue
			}
			if time.Since(since) > limit {
				what, _ := simDoing.Load().(string)
				fmt.Fprintf(os.Stderr, "\nSTALL: the event %q did not return within %v: the real code blocked (deadlock of the node's main loop)\n", what, limit)
				buf := make([]byte, 1<<16)
				n := runtime.Stack(buf, true)
				os.Stderr.Write(buf[:n])
				os.Exit(3)
			}
		}
	}()
}

// VerifMain dispatches harness sub-commands that live inside package raft.
func VerifMain(args []string) int {
	if len(args) == 0 {
		fmt.Fprintln(os.Stderr, "vh raft: missing sub-command")
		return 2
	}
	fn, ok := verifCmds[args[0]]
	if !ok {
		fmt.Fprintln(os.Stderr, "vh raft: unknown sub-command", args[0])
		return 2
	}
	if args[0] != "live" {
		simWatchdog(240 * time.Second)
	}
	return fn(args[1:])
}

var verifCmds = map[string]func([]string) int{}
