//go:build verif

package raft

import (
	"bytes"
	"encoding/json"
	"errors"
	"fmt"
	"io"
	"io/ioutil"
	"math/rand"
	"os"
	"path/filepath"
	"strconv"
	"strings"
	"time"
)

// vh raft codec <seed> <n> <outdir>
//
// Runs the real encode/decode methods of the working tree on generated values
// (structured + boundary + a malformed stream) and writes
//
//	<outdir>/cases_codec_<k>.v   Gallina case lists (see coq/Codec/Cases.v)
//	<outdir>/codec_meta.json     what was generated (distribution, samples, id -> description)
func init() { verifCmds["codec"] = codecMain }

type codecGen struct {
	rnd    *rand.Rand
	cases  []string          // Gallina constructor applications
	desc   map[string]string // id -> description (for replays)
	dist   map[string]int
	nextID int
	panics []string
	big    bool
}

func (g *codecGen) id(desc string) int {
	g.nextID++
	g.desc[strconv.Itoa(g.nextID)] = desc
	return g.nextID
}

var u64Boundary = []uint64{0, 1, 2, 255, 256, 65535, 1 << 31, 1<<32 - 1, 1 << 32, 1<<63 - 1, 1 << 63, 1<<63 + 1, 1<<64 - 1}

func (g *codecGen) u64() uint64 {
	switch g.rnd.Intn(4) {
	case 0:
		return u64Boundary[g.rnd.Intn(len(u64Boundary))]
	case 1:
		return uint64(g.rnd.Intn(10))
	case 2:
		return g.rnd.Uint64()
	default:
		return g.rnd.Uint64() >> uint(g.rnd.Intn(64))
	}
}

func (g *codecGen) str(max int) []byte {
	var n int
	switch g.rnd.Intn(6) {
	case 0:
		n = 0
	case 1:
		n = 1
	case 2:
		n = g.rnd.Intn(max + 1)
	case 3:
		n = 255 + g.rnd.Intn(3) // around the 1-byte length boundary
	default:
		n = g.rnd.Intn(12)
	}
	if n > max {
		n = max
	}
	b := make([]byte, n)
	for i := range b {
		if g.rnd.Intn(3) == 0 {
			b[i] = byte(g.rnd.Intn(256))
		} else {
			b[i] = byte('a' + g.rnd.Intn(26))
		}
	}
	return b
}

func (g *codecGen) node(id uint64) Node {
	return Node{ID: id, Addr: string(g.str(40)), Voter: g.rnd.Intn(2) == 0, Data: string(g.str(40)), Action: Action(g.rnd.Intn(6))}
}

func (g *codecGen) config(maxNodes int) Config {
	n := g.rnd.Intn(maxNodes + 1)
	c := Config{Nodes: map[uint64]Node{}, Index: g.u64(), Term: g.u64()}
	for len(c.Nodes) < n {
		id := g.u64()
		if g.rnd.Intn(2) == 0 {
			id = uint64(g.rnd.Intn(8))
		}
		c.Nodes[id] = g.node(id)
	}
	return c
}

func (g *codecGen) resp() resp {
	r := resp{term: g.u64(), result: rpcResult(g.rnd.Intn(13))}
	if g.rnd.Intn(3) == 0 {
		r.result = unexpectedErr
	}
	if r.result == unexpectedErr {
		if g.rnd.Intn(2) == 0 {
			r.err = OpError{Op: string(append([]byte("x"), g.str(30)...)), Err: errors.New(string(g.str(60)))}
		} else {
			r.err = errors.New(string(g.str(60)))
		}
	}
	return r
}

func (g *codecGen) replication(id uint64) Replication {
	r := Replication{ID: id, MatchIndex: g.u64(), Round: g.u64()}
	if g.rnd.Intn(2) == 0 {
		// any instant whose UnixNano fits int64 round-trips through time.Unix(0, n)
		t := time.Unix(0, int64(g.rnd.Uint64()>>1)+1)
		r.Unreachable = &t
	}
	if g.rnd.Intn(2) == 0 {
		r.ErrMessage = string(append([]byte("e"), g.str(50)...))
		r.Err = errors.New(r.ErrMessage)
	}
	return r
}

func (g *codecGen) info() Info {
	i := Info{CID: g.u64(), NID: g.u64(), Addr: string(g.str(40)), Term: g.u64(), State: State(g.rnd.Intn(256)),
		Leader: g.u64(), SnapshotIndex: g.u64(), FirstLogIndex: g.u64(), LastLogIndex: g.u64(), LastLogTerm: g.u64(),
		Committed: g.u64(), LastApplied: g.u64()}
	i.Configs.Committed = g.config(3)
	i.Configs.Latest = g.config(3)
	n := g.rnd.Intn(4)
	if n > 0 {
		i.Followers = map[uint64]Replication{}
		for len(i.Followers) < n {
			id := uint64(g.rnd.Intn(9))
			i.Followers[id] = g.replication(id)
		}
	}
	return i
}

// one generated value of each kind; kind names match the Coq [kind] constructors
var codecKinds = []string{"KEntry", "KIdentityReq", "KVoteReq", "KAppendReq", "KInstallSnapReq", "KTimeoutNowReq",
	"KResp", "KAppendResp", "KNode", "KConfig", "KSnapMeta", "KReplication", "KInfo"}

func (g *codecGen) value(kind string) interface{} {
	maxData := 300
	if g.big && g.rnd.Intn(20) == 0 {
		maxData = 70000 // length needs 3 bytes
	}
	switch kind {
	case "KEntry":
		return &entry{index: g.u64(), term: g.u64(), typ: entryType(g.rnd.Intn(256)), data: g.str(maxData)}
	case "KIdentityReq":
		return &identityReq{req: req{g.u64(), g.u64()}, cid: g.u64(), nid: g.u64()}
	case "KVoteReq":
		return &voteReq{req: req{g.u64(), g.u64()}, lastLogIndex: g.u64(), lastLogTerm: g.u64(), transfer: g.rnd.Intn(2) == 0}
	case "KAppendReq":
		return &appendReq{req: req{g.u64(), g.u64()}, prevLogIndex: g.u64(), prevLogTerm: g.u64(), ldrCommitIndex: g.u64(), numEntries: g.u64()}
	case "KInstallSnapReq":
		return &installSnapReq{req: req{g.u64(), g.u64()}, lastIndex: g.u64(), lastTerm: g.u64(), lastConfig: g.config(5), size: int64(g.u64())}
	case "KTimeoutNowReq":
		return &timeoutNowReq{req{g.u64(), g.u64()}}
	case "KResp":
		return &voteResp{g.resp()}
	case "KAppendResp":
		return &appendResp{g.resp(), g.u64()}
	case "KNode":
		n := g.node(g.u64())
		return &n
	case "KConfig":
		c := g.config(5)
		return &c
	case "KSnapMeta":
		return &snapshotMeta{index: g.u64(), term: g.u64(), config: g.config(5), size: int64(g.u64())}
	case "KReplication":
		r := g.replication(g.u64())
		return &r
	case "KInfo":
		i := g.info()
		return &i
	}
	panic(kind)
}

func goEncode(v interface{}) (out []byte, err error) {
	defer func() {
		if p := recover(); p != nil {
			err = fmt.Errorf("PANIC: %v", p)
		}
	}()
	w := new(bytes.Buffer)
	switch m := v.(type) {
	case *Config:
		err = m.encode().encode(w)
	case *Node:
		err = m.encode(w)
	case *Info:
		err = m.encode(w)
	case interface{ encode(io.Writer) error }:
		err = m.encode(w)
	default:
		panic(fmt.Sprintf("goEncode %T", v))
	}
	return w.Bytes(), err
}

// goDecode runs the real decoder for kind on in. ok=false: decoder returned an
// error.  panicked: it panicked (always a violation: reported separately).
func goDecode(kind string, in []byte) (lit string, left int, ok bool, panicked string) {
	defer func() {
		if p := recover(); p != nil {
			panicked = fmt.Sprint(p)
		}
	}()
	r := bytes.NewReader(in)
	var v interface{}
	var err error
	switch kind {
	case "KEntry":
		m := &entry{}
		err, v = m.decode(r), m
	case "KIdentityReq":
		m := &identityReq{}
		err, v = m.decode(r), m
	case "KVoteReq":
		m := &voteReq{}
		err, v = m.decode(r), m
	case "KAppendReq":
		m := &appendReq{}
		err, v = m.decode(r), m
	case "KInstallSnapReq":
		m := &installSnapReq{}
		err, v = m.decode(r), m
	case "KTimeoutNowReq":
		m := &timeoutNowReq{}
		err, v = m.decode(r), m
	case "KResp":
		m := &voteResp{}
		err, v = m.decode(r), m
	case "KAppendResp":
		m := &appendResp{}
		err, v = m.decode(r), m
	case "KNode":
		m := &Node{}
		err, v = m.decode(r), m
	case "KConfig":
		e := &entry{}
		m := &Config{}
		if err = e.decode(r); err == nil {
			err = m.decode(e)
		}
		v = m
	case "KSnapMeta":
		m := &snapshotMeta{}
		err, v = m.decode(r), m
	case "KReplication":
		m := &Replication{}
		err, v = m.decode(r), m
	case "KInfo":
		m := &Info{}
		err, v = m.decode(r), m
	default:
		panic(kind)
	}
	if err != nil {
		return "", 0, false, ""
	}
	return coqMsg(v), r.Len(), true, ""
}

func coqRes(lit string, left int, ok bool) string {
	if !ok {
		return "None"
	}
	return fmt.Sprintf("(Some (%s, %d))", lit, left)
}

func (g *codecGen) add(c string, bucket string) {
	g.cases = append(g.cases, c)
	g.dist[bucket]++
}

func (g *codecGen) msgCases(kind string) { g.msgCasesOf(kind, g.value(kind)) }

func (g *codecGen) msgCasesOf(kind string, v interface{}) {
	b, err := goEncode(v)
	if err != nil {
		g.panics = append(g.panics, fmt.Sprintf("encode %s %s: %v", kind, coqMsg(v), err))
		return
	}
	lit := coqMsg(v)
	g.add(fmt.Sprintf("CEnc %d %s %s", g.id("encode "+kind+" "+lit), lit, coqBytes(b)), "enc/"+kind)

	// decode with an arbitrary tail: framing
	tail := g.str(20)
	in := append(append([]byte{}, b...), tail...)
	dl, left, ok, pan := goDecode(kind, in)
	if pan != "" {
		g.panics = append(g.panics, fmt.Sprintf("decode %s on %v: panic %s", kind, in, pan))
	}
	g.add(fmt.Sprintf("CDec %d %s %s %s", g.id(fmt.Sprintf("decode %s enc++tail(%d)", kind, len(tail))), kind, coqBytes(in), coqRes(dl, left, ok)), "dec-tail/"+kind)

	// truncations: every proper prefix when short, a sample otherwise
	var cuts []int
	if len(b) <= 120 {
		for i := 0; i < len(b); i++ {
			cuts = append(cuts, i)
		}
	} else if len(b) > 5000 {
		// large byte strings (read in pieces by some readers): few cuts, inside and at the end of the data
		cuts = []int{21, len(b) - 1, len(b) / 2, 5000 + g.rnd.Intn(len(b)-5000)}
	} else {
		cuts = []int{0, 1, 7, 8, 9, 16, 17, 20, 21, len(b) - 1, len(b) - 2, len(b) / 2}
		for i := 0; i < 8; i++ {
			cuts = append(cuts, g.rnd.Intn(len(b)))
		}
	}
	for _, c := range cuts {
		dl, left, ok, pan := goDecode(kind, b[:c])
		if pan != "" {
			g.panics = append(g.panics, fmt.Sprintf("decode %s on prefix %d of %v: panic %s", kind, c, b, pan))
		}
		g.add(fmt.Sprintf("CDec %d %s %s %s", g.id(fmt.Sprintf("decode %s prefix %d/%d", kind, c, len(b))), kind, coqBytes(b[:c]), coqRes(dl, left, ok)), "dec-prefix/"+kind)
	}

	// malformed stream: mutate a few bytes of a valid encoding (counts and
	// lengths are clamped so that a hostile length cannot make Go allocate GBs)
	if len(b) > 0 && len(b) < 400 {
		for k := 0; k < 3; k++ {
			m := append(append([]byte{}, b...), g.str(6)...)
			for j := 0; j < 1+g.rnd.Intn(3); j++ {
				p := g.rnd.Intn(len(m))
				switch g.rnd.Intn(3) {
				case 0:
					m[p] = byte(g.rnd.Intn(256))
				case 1:
					m[p] ^= 1 << uint(g.rnd.Intn(8))
				default:
					m[p] = byte(g.rnd.Intn(4))
				}
			}
			dl, left, ok, pan := goDecode(kind, m)
			if pan != "" {
				g.panics = append(g.panics, fmt.Sprintf("decode %s on malformed %v: panic %s", kind, m, pan))
			}
			g.add(fmt.Sprintf("CDec %d %s %s %s", g.id(fmt.Sprintf("decode %s malformed", kind)), kind, coqBytes(m), coqRes(dl, left, ok)), "dec-malformed/"+kind)
		}
	}
}

// ---- task responses ----------------------------------------------------

type taskRespCase struct {
	name   string
	typ    taskType
	coqTyp string
	result interface{}
	lit    string
}

func (g *codecGen) taskResults() []taskRespCase {
	n := g.node(g.u64())
	cfg := g.config(4)
	inf := g.info()
	ip := InProgressError(string(g.str(20)))
	sentinels := []error{ErrLockExists, ErrServerClosed, ErrNodeRemoved, ErrIdentityAlreadySet, ErrIdentityNotSet, ErrFaultyFollower,
		ErrStaleConfig, ErrSnapshotThreshold, ErrNoUpdates, ErrQuorumUnreachable, ErrTransferNoVoter, ErrTransferSelf,
		ErrTransferTargetNonvoter, ErrTransferInvalidTarget}
	s := sentinels[g.rnd.Intn(len(sentinels))]
	to := TimeoutError(string(g.str(20)))
	oe := OpError{Op: "x" + string(g.str(10)), Err: errors.New(string(g.str(30)))}
	plain := errors.New(string(g.str(40)))
	lost := g.rnd.Intn(2) == 0
	allTyps := []struct {
		t taskType
		c string
	}{{taskInfo, "TInfo"}, {taskChangeConfig, "TChangeConfig"}, {taskWaitForStableConfig, "TWaitStable"}, {taskTakeSnapshot, "TTakeSnapshot"}, {taskTransferLdr, "TTransfer"}}
	any := allTyps[g.rnd.Intn(len(allTyps))]
	u := g.u64()
	return []taskRespCase{
		{"NotLeaderError", any.t, any.c, NotLeaderError{n, lost}, fmt.Sprintf("(TRErr (TENotLeader %s %s))", coqNode(n), coqBool(lost))},
		{"plainError", any.t, any.c, s, fmt.Sprintf("(TRErr (TEPlain %s))", coqBytes([]byte(s.Error())))},
		{"temporaryError", any.t, any.c, ErrNotCommitReady, fmt.Sprintf("(TRErr (TETemporary %s))", coqBytes([]byte(ErrNotCommitReady.Error())))},
		{"InProgressError", any.t, any.c, ip, fmt.Sprintf("(TRErr (TEInProgress %s))", coqBytes([]byte(string(ip))))},
		{"TimeoutError", any.t, any.c, to, fmt.Sprintf("(TRErr (TEOther %s %s))", coqBytes([]byte("raft.TimeoutError")), coqBytes([]byte(to.Error())))},
		{"OpError", any.t, any.c, oe, fmt.Sprintf("(TRErr (TEOther %s %s))", coqBytes([]byte("raft.OpError")), coqBytes([]byte(oe.Error())))},
		{"errorString", any.t, any.c, plain, fmt.Sprintf("(TRErr (TEOther %s %s))", coqBytes([]byte("*errors.errorString")), coqBytes([]byte(plain.Error())))},
		{"nil/changeConfig", taskChangeConfig, "TChangeConfig", nil, "TRNil"},
		{"nil/transfer", taskTransferLdr, "TTransfer", nil, "TRNil"},
		{"uint64", taskTakeSnapshot, "TTakeSnapshot", u, fmt.Sprintf("(TRU64 %d)", u)},
		{"Config", taskWaitForStableConfig, "TWaitStable", cfg, "(TRConfig " + coqConfig(cfg) + ")"},
		{"Info", taskInfo, "TInfo", inf, "(TRInfo " + coqInfo(inf) + ")"},
	}
}

func coqTaskRes(v interface{}, err error) string {
	if err != nil {
		switch e := err.(type) {
		case NotLeaderError:
			return fmt.Sprintf("(TRErr (TENotLeader %s %s))", coqNode(e.Leader), coqBool(e.Lost))
		case plainError:
			return fmt.Sprintf("(TRErr (TEPlain %s))", coqBytes([]byte(string(e))))
		case temporaryError:
			return fmt.Sprintf("(TRErr (TETemporary %s))", coqBytes([]byte(string(e))))
		case InProgressError:
			return fmt.Sprintf("(TRErr (TEInProgress %s))", coqBytes([]byte(string(e))))
		default:
			return fmt.Sprintf("(TRErr (TEOther [] %s))", coqBytes([]byte(err.Error())))
		}
	}
	switch r := v.(type) {
	case nil:
		return "TRNil"
	case uint64:
		return fmt.Sprintf("(TRU64 %d)", r)
	case Config:
		return "(TRConfig " + coqConfig(r) + ")"
	case Info:
		return "(TRInfo " + coqInfo(r) + ")"
	}
	panic(fmt.Sprintf("coqTaskRes %T", v))
}

func goDecodeTask(typ taskType, in []byte) (lit string, left int, ok bool, panicked string) {
	defer func() {
		if p := recover(); p != nil {
			panicked = fmt.Sprint(p)
		}
	}()
	r := bytes.NewReader(in)
	v, err := decodeTaskResp(typ, r)
	if err == io.EOF || err == io.ErrUnexpectedEOF {
		return "", 0, false, ""
	}
	if err != nil && err.Error() == "raft: expected entryConfig in Config.decode" {
		return "", 0, false, "" // Config.decode's own validation error (malformed stream only)
	}
	return coqTaskRes(v, err), r.Len(), true, ""
}

func (g *codecGen) taskCases() {
	for _, tc := range g.taskResults() {
		t := newTask()
		t.reply(tc.result)
		w := new(bytes.Buffer)
		var encErr error
		func() {
			defer func() {
				if p := recover(); p != nil {
					encErr = fmt.Errorf("PANIC %v", p)
				}
			}()
			encErr = encodeTaskResp(t, w)
		}()
		if encErr != nil {
			g.panics = append(g.panics, fmt.Sprintf("encodeTaskResp %s: %v", tc.name, encErr))
			continue
		}
		b := w.Bytes()
		g.add(fmt.Sprintf("CTEnc %d %s %s", g.id("encodeTaskResp "+tc.name), tc.lit, coqBytes(b)), "tenc/"+tc.name)
		tail := g.str(10)
		in := append(append([]byte{}, b...), tail...)
		dl, left, ok, pan := goDecodeTask(tc.typ, in)
		if pan != "" {
			g.panics = append(g.panics, fmt.Sprintf("decodeTaskResp %s: panic %s", tc.name, pan))
		}
		g.add(fmt.Sprintf("CTDec %d %s %s %s", g.id("decodeTaskResp "+tc.name+" enc++tail"), tc.coqTyp, coqBytes(in), coqRes(dl, left, ok)), "tdec-tail/"+tc.name)
		var cuts []int
		if len(b) <= 80 {
			for i := 0; i < len(b); i++ {
				cuts = append(cuts, i)
			}
		} else {
			cuts = []int{0, 1, 3, 4, 5, len(b) - 1, len(b) / 2, g.rnd.Intn(len(b)), g.rnd.Intn(len(b))}
		}
		for _, c := range cuts {
			dl, left, ok, pan := goDecodeTask(tc.typ, b[:c])
			if pan != "" {
				g.panics = append(g.panics, fmt.Sprintf("decodeTaskResp %s prefix %d: panic %s", tc.name, c, pan))
			}
			g.add(fmt.Sprintf("CTDec %d %s %s %s", g.id(fmt.Sprintf("decodeTaskResp %s prefix %d/%d", tc.name, c, len(b))), tc.coqTyp, coqBytes(b[:c]), coqRes(dl, left, ok)), "tdec-prefix/"+tc.name)
		}
	}
}

// ---- value files ----------------------------------------------------------

// valueBoundary: pairs that every run checks (the halves of the unsigned range, its ends)
var valueBoundary = [][2]uint64{{1 << 63, 2}, {1<<64 - 1, 1 << 63}, {1<<63 - 1, 1<<63 + 1}, {1, 1<<64 - 1}, {0, 1 << 63}}

func (g *codecGen) valueCases(tmp string) { g.valueCasesOf(tmp, g.u64(), g.u64()) }

func (g *codecGen) valueCasesOf(tmp string, v1, v2 uint64) {
	exts := []string{".id", ".term"}
	ext := exts[g.rnd.Intn(2)]
	name := filepath.Base(valueFile(tmp, ext, v1, v2))
	g.add(fmt.Sprintf("CVal %d %d %d %s %s", g.id("valueFile"), v1, v2, coqBytes([]byte(ext)), coqBytes([]byte(name))), "value/name")

	open := func(fname, what string) {
		dir, err := ioutil.TempDir(tmp, "val")
		if err != nil {
			panic(err)
		}
		defer os.RemoveAll(dir)
		if err := ioutil.WriteFile(filepath.Join(dir, fname), nil, 0600); err != nil {
			return // name not representable on this file system: skip
		}
		res := "None"
		func() {
			defer func() {
				if p := recover(); p != nil {
					g.panics = append(g.panics, fmt.Sprintf("openValue %q: panic %v", fname, p))
				}
			}()
			if v, err := openValue(dir, ext); err == nil {
				a, b := v.get()
				res = fmt.Sprintf("(Some (%d, %d))", a, b)
			}
		}()
		g.add(fmt.Sprintf("CValOpen %d %s %s %s", g.id("openValue "+fname), coqBytes([]byte(fname)), coqBytes([]byte(ext)), res), what)
	}
	open(name, "value/open-rendered")

	// through the real write path: openValue creates 0-0<ext>, set renames
	func() {
		dir, err := ioutil.TempDir(tmp, "val")
		if err != nil {
			panic(err)
		}
		defer os.RemoveAll(dir)
		v, err := openValue(dir, ext)
		if err != nil {
			g.panics = append(g.panics, "openValue on empty dir: "+err.Error())
			return
		}
		if err := v.set(v1, v2); err != nil {
			g.panics = append(g.panics, "value.set: "+err.Error())
			return
		}
		matches, _ := filepath.Glob(filepath.Join(dir, "*"+ext))
		if len(matches) != 1 {
			g.panics = append(g.panics, fmt.Sprintf("value.set left %d files", len(matches)))
			return
		}
		res := "None"
		if v2x, err := openValue(dir, ext); err == nil {
			a, b := v2x.get()
			res = fmt.Sprintf("(Some (%d, %d))", a, b)
		}
		fname := filepath.Base(matches[0])
		g.add(fmt.Sprintf("CValOpen %d %s %s %s", g.id(fmt.Sprintf("set(%d,%d) then reopen: %s", v1, v2, fname)), coqBytes([]byte(fname)), coqBytes([]byte(ext)), res), "value/set-reopen")
	}()

	// malformed names
	bad := []string{"abc", "1", "1-", "-1", "1-2-3", "-1-2", "+1-2", "1-+2", "1--2", "007-08", "1_0-2", "0x1-2", " 1-2", "1-2 ",
		"18446744073709551616-0", "0-18446744073709551616", "99999999999999999999999-1", "9223372036854775808-9223372036854775807", "-", "--"}
	b := bad[g.rnd.Intn(len(bad))]
	open(b+ext, "value/open-malformed")
}

func codecMain(args []string) int {
	if len(args) < 3 {
		fmt.Fprintln(os.Stderr, "usage: vh raft codec <seed> <rounds> <outdir> [big]")
		return 2
	}
	seed, _ := strconv.ParseInt(args[0], 10, 64)
	rounds, _ := strconv.Atoi(args[1])
	out := args[2]
	g := &codecGen{rnd: rand.New(rand.NewSource(seed)), desc: map[string]string{}, dist: map[string]int{}, big: len(args) > 3}
	tmp, err := ioutil.TempDir("", "vcodec")
	if err != nil {
		panic(err)
	}
	defer os.RemoveAll(tmp)
	for i := 0; i < rounds; i++ {
		for _, k := range codecKinds {
			g.msgCases(k)
		}
		g.taskCases()
		g.valueCases(tmp)
	}
	for _, vb := range valueBoundary {
		g.valueCasesOf(tmp, vb[0], vb[1])
	}
	// large payloads, around the sizes at which readers switch strategy (powers of two) and beyond
	sizes := []int{16385 + g.rnd.Intn(600)}
	if g.big {
		sizes = append(sizes, 4096, 16384, 33000+g.rnd.Intn(3000))
	}
	for _, n := range sizes {
		d := make([]byte, n)
		for i := range d {
			d[i] = byte(g.rnd.Intn(256))
		}
		g.msgCasesOf("KEntry", &entry{index: g.u64(), term: g.u64(), typ: entryUpdate, data: d})
	}
	// shard into files of <= 1500 cases
	const shard = 1500
	nfiles := 0
	for s := 0; s < len(g.cases); s += shard {
		e := s + shard
		if e > len(g.cases) {
			e = len(g.cases)
		}
		var sb strings.Builder
		sb.WriteString("From Coq Require Import List NArith.\nFrom Verif Require Import Base.Bytes Codec.Messages Codec.Cases.\nImport ListNotations.\nOpen Scope N_scope.\n")
		sb.WriteString("Definition cases : list ccase := [\n")
		for i, c := range g.cases[s:e] {
			if i > 0 {
				sb.WriteString(";\n")
			}
			sb.WriteString(c)
		}
		sb.WriteString("].\nDefinition M := Eval vm_compute in mismatches cases.\nPrint M.\n")
		if err := ioutil.WriteFile(filepath.Join(out, fmt.Sprintf("cases_codec_%d.v", nfiles)), []byte(sb.String()), 0644); err != nil {
			panic(err)
		}
		nfiles++
	}
	samples := []string{}
	for i := 0; i < len(g.cases) && len(samples) < 6; i += len(g.cases)/6 + 1 {
		c := g.cases[i]
		if len(c) > 400 {
			c = c[:400] + "..."
		}
		samples = append(samples, c)
	}
	meta := map[string]interface{}{"seed": seed, "cases": len(g.cases), "files": nfiles, "dist": g.dist, "desc": g.desc, "panics": g.panics, "samples": samples}
	mb, _ := json.Marshal(meta)
	if err := ioutil.WriteFile(filepath.Join(out, "codec_meta.json"), mb, 0644); err != nil {
		panic(err)
	}
	return 0
}
