// Command vh is the entry point of the verification harness.  All real work
// is done by in-package files that are overlaid (go build -overlay) onto
// /repo's packages, so they can reach unexported identifiers of the current
// working tree without any copy of the sources.
package main

import (
	"fmt"
	"os"

	"github.com/santhosh-tekuri/raft"
	"github.com/santhosh-tekuri/raft/log"
)

func main() {
	if len(os.Args) < 2 {
		fmt.Fprintln(os.Stderr, "usage: vh raft|log <cmd> args...")
		os.Exit(2)
	}
	switch os.Args[1] {
	case "raft":
		os.Exit(raft.VerifMain(os.Args[2:]))
	case "log":
		os.Exit(log.VerifMain(os.Args[2:]))
	}
	fmt.Fprintln(os.Stderr, "unknown component", os.Args[1])
	os.Exit(2)
}
