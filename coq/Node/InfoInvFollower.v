(* C19: requests, time-outs, elections, restarts, tasks and snapshots preserve [core]. *)
From Coq Require Import List NArith ZArith Bool Lia ZifyN ZifyNat ZifyBool.
From RecordUpdate Require Import RecordUpdate.
From Verif Require Import Base.Bytes Codec.Messages Node.Types Node.Handlers Node.Leader Node.Snap Node.Step Node.Run
  Node.InfoInvDefs Node.InfoInvPrims.
Import ListNotations.
Open Scope N_scope.

(* what a handler that is not the leader's leaves behind *)
Definition hres (s s' : nstate) : Prop :=
  core s' /\ mono s s' /\ st_ldr s' = st_ldr s /\ (st_role s' = Leader -> st_lastidx s <= st_lastidx s').

Lemma hres_refl s : core s -> hres s s.
Proof. intros C. split; [assumption|]. split; [apply mono_refl|]. split; [reflexivity|]. intros; lia. Qed.

Lemma hres_term s s' : core s -> K s' = K s -> st_ldr s' = st_ldr s -> st_term s <= st_term s' ->
  st_commit s' = st_commit s -> st_fsmidx s' = st_fsmidx s -> st_snapidx s' = st_snapidx s -> hres s s'.
Proof.
  intros C E1 E3 T A B D. split; [eapply core_ext; eassumption|]. split; [unfold mono; lia|].
  split; [assumption|]. intros _. unfold K in E1. injection E1 as _ _ -> _. lia.
Qed.

Lemma hres_ext s s' : core s -> K s' = K s -> KM s' = KM s -> st_ldr s' = st_ldr s -> hres s s'.
Proof.
  intros C E1 E2 E3. unfold KM in E2. injection E2 as A B D E. apply hres_term; try assumption; lia.
Qed.

(* ---------------------------------------------------------------- storage *)
Lemma set_term_inv s t s' : set_term s t = Done s' ->
  K s' = K s /\ st_ldr s' = st_ldr s /\ st_role s' = st_role s /\ st_term s <= st_term s' /\ st_term s' = t /\
  st_commit s' = st_commit s /\ st_fsmidx s' = st_fsmidx s /\ st_snapidx s' = st_snapidx s.
Proof.
  unfold set_term. destruct (st_term s =? t) eqn:E1.
  - intros H; inversion H; subst. repeat split; lia.
  - destruct (st_term s <? t) eqn:E2; [|discriminate]. intros H; inversion H; subst. cbn. repeat split; lia.
Qed.

Lemma set_voted_for_inv s t c s' : set_voted_for s t c = Done s' ->
  K s' = K s /\ st_ldr s' = st_ldr s /\ st_role s' = st_role s /\ st_term s <= st_term s' /\
  st_commit s' = st_commit s /\ st_fsmidx s' = st_fsmidx s /\ st_snapidx s' = st_snapidx s.
Proof.
  unfold set_voted_for. destruct (_ && _) eqn:E1.
  - intros H; inversion H; subst. repeat split; lia.
  - destruct (st_term s <=? t) eqn:E2; [|discriminate]. intros H; inversion H; subst. cbn. repeat split; lia.
Qed.

Lemma change_config_K s c : K (change_config s c) = K (set_configs s (st_latest s) c).
Proof. unfold change_config. destruct (_ && _); reflexivity. Qed.
Lemma change_config_frame s c :
  KM (change_config s c) = KM s /\ st_ldr (change_config s c) = st_ldr s /\ st_role (change_config s c) = st_role s.
Proof. unfold change_config. destruct (_ && _); cbn; auto. Qed.

(* ---------------------------------------------------------------- the entries of an append request *)
Definition envP (s : nstate) (es : list entry) : Prop :=
  forall e, In e es -> e_index e <= N.max (st_commit s) (c_index (st_committed s)) ->
  forall me, log_get s (e_index e) = Some me -> e_term me = e_term e.

Lemma consec_gt es : forall p e, consec p es -> In e es -> p < e_index e.
Proof.
  induction es as [|x r IH]; intros p e H Hin; [destruct Hin|].
  destruct H as [H1 H2]. destruct Hin as [<-|Hin]; [lia|]. specialize (IH _ _ H2 Hin). lia.
Qed.

Lemma envP_beyond s es p : core s -> st_lastidx s <= p -> consec p es -> envP s es.
Proof.
  intros C L Hc e He _ me G. pose proof (consec_gt _ _ _ Hc He).
  rewrite log_get_None in G; [discriminate|]. rewrite <- (c_last _ C). lia.
Qed.

Lemma envP_tail s e es : envP s (e :: es) -> envP s es.
Proof. intros H x Hx. apply H. right; assumption. Qed.

Lemma consume_ok es : forall s idx term sync s' idx' term' sync' df,
  consume_entries s es idx term sync = Done (s', idx', term', sync', df) ->
  core s -> consec idx es -> envP s es -> idx <= st_lastidx s ->
  core s' /\ KM s' = KM s /\ st_ldr s' = st_ldr s /\ st_role s' = st_role s /\ idx' <= st_lastidx s'.
Proof.
  induction es as [|ne rest IH]; intros s idx term sync s' idx' term' sync' df H C Hc HP Li.
  { cbn in H. inversion H; subst. auto. }
  destruct Hc as [Hc1 Hc2].
  cbn [consume_entries] in H.
  destruct (e_index ne <=? st_snapidx s) eqn:T1.
  { pose proof (c_snap _ C).
    exact (IH _ _ _ _ _ _ _ _ _ H C Hc2 (envP_tail _ _ _ HP) ltac:(lia)). }
  apply N.leb_gt in T1.
  (* after the append: the rest lies beyond the log *)
  assert (AFTER : forall sx s2, core sx -> KM sx = KM s -> st_ldr sx = st_ldr s -> st_role sx = st_role s ->
            append_entry sx ne = Done s2 ->
            (if e_typ ne =? entryConfig
             then match config_of_entry ne with
                  | Some c => consume_entries (change_config s2 c) rest (e_index ne) (e_term ne) true
                  | None => Done (s2, e_index ne, e_term ne, true, true)
                  end
             else consume_entries s2 rest (e_index ne) (e_term ne) true) = Done (s', idx', term', sync', df) ->
            core s' /\ KM s' = KM s /\ st_ldr s' = st_ldr s /\ st_role s' = st_role s /\ idx' <= st_lastidx s').
  { intros sx s2 Cx KMx Lx Rx HA HR. apply append_entry_inv in HA. destruct HA as [EA ->].
    destruct (config_of_entry ne) as [c|] eqn:D.
    - assert (TY : (e_typ ne =? entryConfig) = true).
      { unfold config_of_entry in D. destruct (e_typ ne =? entryConfig); [reflexivity|discriminate]. }
      rewrite TY in HR.
      set (s2 := set_log sx _ _ _ _) in *.
      assert (C2 : core (change_config s2 c)).
      { eapply core_ext; [apply change_config_K|]. apply (core_append_cfg sx ne c Cx EA D). }
      destruct (change_config_frame s2 c) as (F1 & F2 & F3).
      assert (LI : st_lastidx (change_config s2 c) = e_index ne).
      { unfold change_config. destruct (_ && _); reflexivity. }
      assert (EP : envP (change_config s2 c) rest) by (apply (envP_beyond _ _ (e_index ne)); try assumption; lia).
      pose proof (IH _ _ _ _ _ _ _ _ _ HR C2 Hc2 EP ltac:(lia)) as (R1 & R2 & R3 & R4 & R5).
      rewrite R2, R3, R4, F1, F2, F3. auto.
    - assert (C2 : core (set_log sx (st_logprev sx) (st_log sx ++ [ne]) (e_index ne) (e_term ne)))
        by (apply core_append_plain; assumption).
      set (s2 := set_log sx _ _ _ _) in *.
      destruct (e_typ ne =? entryConfig).
      + inversion HR; subst. split; [exact C2|]. cbn. repeat split; try assumption; lia.
      + assert (EP : envP s2 rest) by (apply (envP_beyond _ _ (e_index ne)); try assumption; cbn; lia).
        pose proof (IH _ _ _ _ _ _ _ _ _ HR C2 Hc2 EP ltac:(cbn; lia)) as (R1 & R2 & R3 & R4 & R5).
        rewrite R2, R3, R4. auto. }
  apply obind_inv in H. destruct H as (r & H1 & H2).
  destruct (e_index ne <=? st_lastidx s) eqn:T2.
  - apply N.leb_le in T2.
    destruct (log_get s (e_index ne)) as [me|] eqn:G; [|discriminate].
    destruct (e_index me =? e_index ne) eqn:T3; [|discriminate].
    destruct (e_term me =? e_term ne) eqn:T4.
    + inversion H1; subst r. exact (IH _ _ _ _ _ _ _ _ _ H2 C Hc2 (envP_tail _ _ _ HP) ltac:(lia)).
    + apply N.eqb_neq in T4.
      apply obind_inv in H1. destruct H1 as (s1 & HR & H1). inversion H1; subst r. clear H1.
      apply obind_inv in H2. destruct H2 as (s2 & HA & H2).
      assert (BIG : N.max (st_commit s) (c_index (st_committed s)) < e_index ne).
      { destruct (N.le_gt_cases (e_index ne) (N.max (st_commit s) (c_index (st_committed s)))) as [L|L]; [|exact L].
        exfalso. apply T4. eapply HP; [left; reflexivity|exact L|exact G]. }
      pose proof (core_truncate s (e_index ne) term s1 C HR ltac:(lia) ltac:(lia) ltac:(lia)) as C1.
      apply remove_gte_inv in HR. destruct HR as (_ & _ & ->).
      eapply AFTER; [exact C1| | | |exact HA|exact H2].
      * destruct (_ <=? _); reflexivity.
      * destruct (_ <=? _); reflexivity.
      * destruct (_ <=? _); reflexivity.
  - inversion H1; subst r. apply obind_inv in H2. destruct H2 as (s2 & HA & H2).
    eapply AFTER; [exact C| | | |exact HA|exact H2]; reflexivity.
Qed.

(* ---------------------------------------------------------------- onAppendEntriesRequest *)
Lemma commit_and_apply_cfg sor s i s' : commit_and_apply sor s i = Done s' ->
  st_logprev s' = st_logprev s /\ st_log s' = st_log s /\
  (st_committed s' = st_committed s \/ c_index (st_committed s') <= i).
Proof.
  unfold commit_and_apply. intros H. apply apply_committed_inv in H. destruct H as [t ->].
  destruct (rsci_cases sor s i) as [[E _]|[E L]]; cbn zeta in E; unfold K in E; cbn in E;
    injection E as E1 E2 _ _ _ E6 _ _ _ _; cbn; rewrite E1, E2, E6; auto.
Qed.

Lemma envP_transfer s s2 es :
  st_logprev s2 = st_logprev s -> st_log s2 = st_log s ->
  (forall e, In e es -> e_index e <= N.max (st_commit s2) (c_index (st_committed s2)) ->
             e_index e <= N.max (st_commit s) (c_index (st_committed s))) ->
  envP s es -> envP s2 es.
Proof.
  intros E1 E2 HM HP e He L me G. apply (HP e He (HM e He L)).
  unfold log_get in *. rewrite E1, E2 in G. exact G.
Qed.

Lemma append_ok sor s q code s' : core s -> env_ok s (EAppendReq q) ->
  on_append_request sor s q = Done (code, s') -> hres s s' /\ (s' = s \/ st_role s' = Follower).
Proof.
  intros C [EC EP] H. unfold on_append_request in H.
  destruct (aq_term q <? st_term s) eqn:T0.
  { inversion H; subst. split; [apply hres_refl; assumption|left; reflexivity]. }
  apply obind_inv in H. destruct H as (s0 & HT & H).
  apply set_term_inv in HT. destruct HT as (K0 & L0 & R0 & T1 & _ & M1 & M2 & M3).
  set (s1 := set_leader (set_role s0 Follower) (aq_src q)) in *.
  assert (K1 : K s1 = K s) by exact K0.
  assert (C1 : core s1) by (eapply core_ext; eassumption).
  assert (KM1 : mono s s1) by (unfold mono; cbn; lia).
  assert (L1 : st_ldr s1 = st_ldr s) by exact L0.
  assert (R1 : st_role s1 = Follower) by reflexivity.
  assert (F1 : st_logprev s1 = st_logprev s /\ st_log s1 = st_log s /\ st_lastidx s1 = st_lastidx s /\
               st_commit s1 = st_commit s /\ st_committed s1 = st_committed s /\ st_snapidx s1 = st_snapidx s).
  { unfold K in K1. injection K1 as Q1 Q2 Q3 Q4 Q5 Q6 Q7 Q8 Q9 Q10. repeat split; assumption. }
  destruct F1 as (F1 & F2 & F3 & F4 & F5 & F6).
  apply obind_inv in H. destruct H as ([oc s2] & HP & H).
  (* the state after the prev check *)
  assert (P2 : core s2 /\ mono s s2 /\ st_ldr s2 = st_ldr s /\ st_role s2 = Follower /\
               st_logprev s2 = st_logprev s /\ st_log s2 = st_log s /\ st_lastidx s2 = st_lastidx s /\
               st_snapidx s2 = st_snapidx s /\
               (oc = None -> aq_previdx q <= st_lastidx s2 /\
                  ((st_commit s2 = st_commit s /\ st_committed s2 = st_committed s) \/
                   (st_commit s2 = aq_previdx q /\
                    (st_committed s2 = st_committed s \/ c_index (st_committed s2) <= aq_previdx q))))).
  { assert (SAME : (oc = None -> aq_previdx q <= st_lastidx s1) -> s2 = s1 ->
       core s2 /\ mono s s2 /\ st_ldr s2 = st_ldr s /\ st_role s2 = Follower /\
               st_logprev s2 = st_logprev s /\ st_log s2 = st_log s /\ st_lastidx s2 = st_lastidx s /\
               st_snapidx s2 = st_snapidx s /\
               (oc = None -> aq_previdx q <= st_lastidx s2 /\
                  ((st_commit s2 = st_commit s /\ st_committed s2 = st_committed s) \/
                   (st_commit s2 = aq_previdx q /\
                    (st_committed s2 = st_committed s \/ c_index (st_committed s2) <= aq_previdx q))))).
    { intros HL ->. split; [assumption|]. split; [assumption|]. split; [assumption|]. split; [assumption|].
      split; [assumption|]. split; [assumption|]. split; [assumption|]. split; [assumption|].
      intros HN. split; [apply HL; assumption|]. left; auto. }
    destruct (st_snapidx s1 <? aq_previdx q) eqn:T2.
    2:{ inversion HP; subst. apply SAME; [|reflexivity]. intros _. pose proof (c_snap _ C1). lia. }
    destruct (st_lastidx s1 <? aq_previdx q) eqn:T3.
    { inversion HP; subst. apply SAME; [discriminate|reflexivity]. }
    match type of HP with match ?PT with _ => _ end = _ => destruct PT as [pt|] end; [|discriminate].
    destruct (negb (aq_prevterm q =? pt)).
    { inversion HP; subst. apply SAME; [discriminate|reflexivity]. }
    destruct (can_commit s1 q (aq_previdx q) (aq_prevterm q)) eqn:CCm.
    2:{ inversion HP; subst. apply SAME; [|reflexivity]. intros _. lia. }
    apply obind_inv in HP. destruct HP as (s2' & HCA & HP). inversion HP; subst oc s2'. clear HP.
    unfold can_commit in CCm.
    assert (G1 : st_commit s1 <= aq_previdx q) by lia.
    assert (G2 : aq_previdx q <= st_lastidx s1) by lia.
    pose proof (core_commit_and_apply _ _ _ _ C1 G1 G2 HCA) as C2.
    pose proof (mono_commit_and_apply _ _ _ _ _ C1 KM1 G1 G2 HCA) as M2'.
    destruct (commit_and_apply_frame _ _ _ _ HCA) as (A1 & A2 & A3 & A4 & A5).
    destruct (commit_and_apply_cfg _ _ _ _ HCA) as (B1 & B2 & B3).
    split; [assumption|]. split; [assumption|]. split; [congruence|]. split; [destruct A5; congruence|].
    split; [congruence|]. split; [congruence|]. split; [congruence|]. split; [congruence|].
    intros _. split; [lia|]. right. split; [assumption|]. rewrite <- F5. exact B3. }
  destruct P2 as (C2 & M2' & L2 & R2 & E1 & E2 & E3 & E4 & PN).
  destruct oc as [code'|].
  { inversion H; subst. split; [|right; assumption].
    split; [assumption|]. split; [assumption|]. split; [assumption|]. rewrite R2. discriminate. }
  destruct (PN eq_refl) as (PL & PC). clear PN.
  apply obind_inv in H. destruct H as ([[[[s3 index] term] sync] df] & HCE & H).
  assert (EP2 : envP s2 (aq_entries q)).
  { apply (envP_transfer s); try assumption.
    intros e He L. pose proof (consec_gt _ _ _ EC He). destruct PC as [[P1 P2]|[P1 [P2|P2]]].
    - rewrite P1, P2 in L. exact L.
    - rewrite P2 in L. lia.
    - lia. }
  pose proof (consume_ok _ _ _ _ _ _ _ _ _ _ HCE C2 EC EP2 PL) as (C3 & KM3 & L3 & R3 & I3).
  assert (M3' : mono s s3) by (eapply mono_ext_r; eassumption).
  apply obind_inv in H. destruct H as (s4 & H4 & H). inversion H; subst s' code. clear H.
  assert (FIN : core s4 /\ mono s s4 /\ st_ldr s4 = st_ldr s3 /\ st_role s4 = Follower).
  { destruct (sync && _).
    - set (s3f := commit_log s3 (st_lastidx s3)) in *.
      assert (C3f : core s3f) by (eapply core_ext; [apply commit_log_K|assumption]).
      assert (M3f : mono s s3f) by exact M3'.
      destruct (can_commit s3f q index term) eqn:CCm.
      + unfold can_commit in CCm.
        assert (G1 : st_commit s3f <= index) by lia.
        assert (G2 : index <= st_lastidx s3f) by exact I3.
        pose proof (core_commit_and_apply _ _ _ _ C3f G1 G2 H4) as C4.
        pose proof (mono_commit_and_apply _ _ _ _ _ C3f M3f G1 G2 H4) as M4.
        destruct (commit_and_apply_frame _ _ _ _ H4) as (A1 & A2 & A3 & A4 & A5).
        split; [assumption|]. split; [assumption|]. split; [assumption|].
        destruct A5 as [A5|A5]; [rewrite A5; cbn; congruence|assumption].
      + inversion H4; subst. split; [assumption|]. split; [assumption|]. split; [reflexivity|]. cbn. congruence.
    - inversion H4; subst. split; [assumption|]. split; [assumption|]. split; [reflexivity|]. congruence. }
  destruct FIN as (C4 & M4 & L4 & R4).
  split; [|right; assumption].
  split; [assumption|]. split; [assumption|]. split; [congruence|]. rewrite R4. discriminate.
Qed.

(* ---------------------------------------------------------------- onInstallSnapRequest *)
Lemma log_get_exists s i : st_logprev s < i -> i <= st_logprev s + N.of_nat (length (st_log s)) ->
  exists me, log_get s i = Some me.
Proof.
  intros L1 L2. unfold log_get. destruct (st_logprev s <? i) eqn:E; [|lia].
  destruct (nth_error (st_log s) (N.to_nat (i - st_logprev s - 1))) eqn:G; [eauto|].
  apply nth_error_None in G. lia.
Qed.

Lemma config_at_ext s s' i : K s' = K s -> config_at s' i = config_at s i.
Proof. unfold K, config_at. intros E. injection E as -> -> _ -> -> _ _ _ _ _. reflexivity. Qed.

Lemma log_get_ext s s' i : st_logprev s' = st_logprev s -> st_log s' = st_log s -> log_get s' i = log_get s i.
Proof. unfold log_get. intros -> ->. reflexivity. Qed.

Lemma K_set_configs_cong x y a b : K x = K y -> K (set_configs x a b) = K (set_configs y a b).
Proof. unfold K; cbn. intros E. injection E as -> -> -> -> -> _ _ -> -> ->. reflexivity. Qed.
Lemma K_latest x y : K x = K y -> st_latest x = st_latest y.
Proof. unfold K. intros E. injection E as _ _ _ _ _ _ -> _ _ _. reflexivity. Qed.

Lemma snap_ok s q np code s' : core s -> env_ok s (ESnapReq q np) ->
  on_install_snap_request s q np = Done (code, s') -> hres s s' /\ (s' = s \/ st_role s' = Follower).
Proof.
  intros C EN H. unfold on_install_snap_request in H.
  destruct (sq_term q <? st_term s) eqn:T0.
  { inversion H; subst. split; [apply hres_refl; assumption|left; reflexivity]. }
  apply obind_inv in H. destruct H as (s0 & HT & H).
  apply set_term_inv in HT. destruct HT as (K0 & L0 & R0 & T1 & _ & M1 & M2 & M3).
  set (s1 := set_leader (set_role s0 Follower) (sq_src q)) in *.
  assert (K1 : K s1 = K s) by exact K0.
  assert (C1 : core s1) by (eapply core_ext; eassumption).
  assert (KM1 : mono s s1) by (unfold mono; cbn; lia).
  assert (L1 : st_ldr s1 = st_ldr s) by exact L0.
  assert (R1 : st_role s1 = Follower) by reflexivity.
  assert (F : st_logprev s1 = st_logprev s /\ st_log s1 = st_log s /\ st_lastidx s1 = st_lastidx s /\
              st_commit s1 = st_commit s /\ st_snapidx s1 = st_snapidx s /\ st_fsmidx s1 = st_fsmidx s).
  { unfold K in K1. injection K1 as Q1 Q2 Q3 Q4 Q5 Q6 Q7 Q8 Q9 Q10. repeat split; assumption. }
  destruct F as (F1 & F2 & F3 & F4 & F5 & F6).
  destruct (sq_lastidx q <=? st_snapidx s1) eqn:T2.
  { inversion H; subst. split; [|right; assumption].
    split; [assumption|]. split; [assumption|]. split; [assumption|]. rewrite R1; discriminate. }
  apply N.leb_gt in T2.
  destruct (EN ltac:(lia) ltac:(lia)) as [X1 X2]. clear EN.
  set (j := sq_lastidx q) in *. set (t := sq_lastterm q) in *. set (c := sq_config q) in *.
  set (s2 := set_snap s1 j t c) in *.
  assert (G2 : log_get s2 j = log_get s j) by (apply log_get_ext; assumption).
  pose proof C1 as [H1 H2 H3 H4 H5 H6 H7 H8 H9 H10 H11].
  assert (LEN : st_lastidx s = st_logprev s + N.of_nat (length (st_log s))) by (rewrite <- F1, <- F2, <- F3; exact H2).
  match type of H with (if ?k then _ else _) = _ => destruct k eqn:KEEP end.
  - (* the log holds the snapshot's last entry: keep what follows *)
    destruct (log_contains s2 j) eqn:LC; [|discriminate].
    rewrite G2 in KEEP. destruct (log_get s j) as [me|] eqn:G; [|discriminate].
    apply N.eqb_eq in KEEP. destruct (X2 me eq_refl) as [_ X3]. specialize (X3 KEEP).
    unfold log_contains in LC. change (st_logprev s2) with (st_logprev s1) in LC. change (st_log s2) with (st_log s1) in LC.
    assert (Ec : c = config_at s1 j) by (rewrite X3; symmetry; apply config_at_ext; assumption).
    destruct (core_raise_snap s1 j t c C1 ltac:(lia) ltac:(lia) Ec) as [C2 _].
    match type of H with (if ?b then _ else _) = _ => destruct b eqn:T3 end; [|discriminate]. injection H as <- <-.
    split; [|right; reflexivity].
    change (st_logprev s2) with (st_logprev s1) in T3.
    assert (A1 : st_logprev s1 <= np) by lia. assert (A2 : np <= j) by lia.
    split.
    { apply (core_compact (commit_log s2 (log_lastindex s2)) np (st_lastterm s2)).
      - eapply core_ext; [apply commit_log_K|exact C2].
      - exact A1.
      - exact A2. }
    split.
    { destruct KM1 as (Q1 & Q2 & Q3 & Q4). split; [exact Q1|]. split; [exact Q2|]. split; [exact Q3|].
      change (st_snapidx s <= j). lia. }
    split; [exact L1|]. intros _. change (st_lastidx s <= st_lastidx s1). lia.
  - (* otherwise the snapshot replaces the log *)
    assert (LC : st_commit s < j).
    { destruct (N.le_gt_cases j (st_commit s)) as [L|L]; [exfalso|exact L].
      destruct (log_get_exists s j ltac:(lia) ltac:(lia)) as [me G].
      destruct (X2 me G) as [X3 _]. specialize (X3 L).
      assert (LCT : log_contains s2 j = true).
      { unfold log_contains. change (st_logprev s2) with (st_logprev s1). change (st_log s2) with (st_log s1). lia. }
      rewrite LCT, G2, G in KEEP. apply N.eqb_neq in KEEP. contradiction. }
    injection H as <- <-.
    split; [|right].
    2:{ unfold commit_config, change_config. repeat (destruct (_ && _)); reflexivity. }
    split.
    { eapply core_ext; [apply commit_config_K|].
      match goal with |- core (set_configs ?X _ _) => set (s5 := X) end.
      assert (K5 : K s5 = K (set_configs (set_commit (set_fsm (clear_log s2) j t) j) (st_latest s1) c))
        by (subst s5; exact (change_config_K _ _)).
      eapply core_ext.
      2:{ apply (core_install_clear s1 j t c t C1); [lia|lia|exact X1]. }
      rewrite (K_latest _ _ K5). change (st_latest (set_configs _ _ c)) with c.
      rewrite (K_set_configs_cong _ _ c c K5). unfold K. cbn. reflexivity. }
    split.
    { unfold mono, commit_config, change_config. repeat (destruct (_ && _)); cbn; lia. }
    split.
    { unfold commit_config, change_config. repeat (destruct (_ && _)); exact L1. }
    unfold commit_config, change_config. repeat (destruct (_ && _)); cbn; discriminate.
Qed.

(* ---------------------------------------------------------------- handlers that only touch term, vote, role, flags *)
Lemma K_inv x y : K x = K y ->
  st_logprev x = st_logprev y /\ st_log x = st_log y /\ st_lastidx x = st_lastidx y /\ st_snapidx x = st_snapidx y /\
  st_snapcfg x = st_snapcfg y /\ st_committed x = st_committed y /\ st_latest x = st_latest y /\
  st_commit x = st_commit y /\ st_fsmidx x = st_fsmidx y /\ st_snapreq x = st_snapreq y.
Proof. unfold K. intros E. injection E as Q1 Q2 Q3 Q4 Q5 Q6 Q7 Q8 Q9 Q10. repeat split; assumption. Qed.

Lemma vote_ok s q code s' : core s -> on_vote_request s q = Done (code, s') -> hres s s'.
Proof.
  intros C H. unfold on_vote_request in H.
  destruct (_ && _ && _); [inversion H; subst; apply hres_refl; assumption|].
  destruct (vq_term q <? st_term s); [inversion H; subst; apply hres_refl; assumption|].
  set (s1 := if st_term s <? vq_term q then set_role s Follower else s) in *.
  assert (E1 : K s1 = K s /\ st_ldr s1 = st_ldr s /\ KM s1 = KM s) by (subst s1; destruct (_ <? _); auto).
  destruct E1 as (E1 & E2 & E3).
  assert (G : forall t v s2, set_voted_for s1 t v = Done s2 -> hres s s2).
  { intros t v s2 HV. apply set_voted_for_inv in HV. destruct HV as (V1 & V2 & V3 & V4 & V5 & V6 & V7).
    unfold KM in E3. injection E3 as Q1 Q2 Q3 Q4.
    apply hres_term; try assumption; try congruence; try lia. }
  destruct (negb _).
  - apply obind_inv in H. destruct H as (s2 & HV & H). inversion H; subst. eapply G; eassumption.
  - destruct (log_more_uptodate s1 q).
    + apply obind_inv in H. destruct H as (s2 & HV & H). inversion H; subst. eapply G; eassumption.
    + apply obind_inv in H. destruct H as (s2 & HV & H). inversion H; subst. eapply G; eassumption.
Qed.

Lemma timeout_now_ok s : core s -> hres s (snd (on_timeout_now_request s)).
Proof.
  intros C. unfold on_timeout_now_request. destruct (negb _); cbn [snd]; [apply hres_refl; assumption|].
  apply hres_ext; [assumption|reflexivity|reflexivity|reflexivity].
Qed.

Lemma follower_on_timeout_ok s : core s -> hres s (follower_on_timeout s).
Proof.
  intros C. unfold follower_on_timeout. destruct (can_start_election _);
    (apply hres_ext; [assumption|reflexivity|reflexivity|reflexivity]).
Qed.

Lemma follower_reset_timer_K s :
  K (follower_reset_timer s) = K s /\ KM (follower_reset_timer s) = KM s /\
  st_ldr (follower_reset_timer s) = st_ldr s /\ st_role (follower_reset_timer s) = st_role s /\
  st_closed (follower_reset_timer s) = st_closed s.
Proof. unfold follower_reset_timer. destruct (can_start_election s); auto. Qed.

Lemma after_rpc_K s b :
  K (after_rpc s b) = K s /\ KM (after_rpc s b) = KM s /\ st_ldr (after_rpc s b) = st_ldr s /\
  st_role (after_rpc s b) = st_role s /\ st_closed (after_rpc s b) = st_closed s.
Proof. unfold after_rpc. destruct (_ && _); [apply follower_reset_timer_K|auto]. Qed.

Lemma start_election_ok s s' : core s -> start_election s = Done s' ->
  hres s s' /\ st_role s' = st_role s.
Proof.
  intros C H. unfold start_election in H. destruct (negb _); [discriminate|].
  apply obind_inv in H. destruct H as (s1 & HV & H). inversion H; subst. clear H.
  apply set_voted_for_inv in HV. destruct HV as (V1 & V2 & V3 & V4 & V5 & V6 & V7).
  split; [|exact V3]. apply hres_term; try assumption.
Qed.

Lemma vote_result_ok s t r s' : core s -> on_vote_result s t r = Done s' -> hres s s'.
Proof.
  intros C H. unfold on_vote_result in H.
  destruct (st_term s <? t).
  - apply obind_inv in H. destruct H as (s1 & HT & H). inversion H; subst.
    apply set_term_inv in HT. destruct HT as (K0 & L0 & R0 & T1 & _ & M1 & M2 & M3).
    apply hres_term; try assumption.
  - destruct (r =? success); [|inversion H; subst; apply hres_refl; assumption].
    destruct (_ =? 0)%Z; inversion H; subst; (apply hres_ext; [assumption|reflexivity|reflexivity|reflexivity]).
Qed.

Lemma check_quorum_ok opt s b s' : core s -> check_quorum opt s b = Done s' -> hres s s'.
Proof.
  intros C H. unfold check_quorum in H.
  apply obind_inv in H. destruct H as (l & _ & H).
  apply obind_inv in H. destruct H as ([voters reachable] & _ & H).
  destruct (_ <=? _).
  - inversion H; subst. destruct (st_timer s); [|apply hres_refl; assumption].
    apply hres_ext; [assumption|reflexivity|reflexivity|reflexivity].
  - destruct (negb b); inversion H; subst.
    + apply hres_ext; [assumption|reflexivity|reflexivity|reflexivity].
    + destruct (st_timer s); [apply hres_refl; assumption|].
      apply hres_ext; [assumption|reflexivity|reflexivity|reflexivity].
Qed.

(* ---------------------------------------------------------------- tasks *)
Lemma set_term_closed s t s' : set_term s t = Done s' -> st_closed s' = st_closed s.
Proof. unfold set_term. intros H. repeat inv1; reflexivity. Qed.

Lemma bootstrap_inv s tid c s' out : bootstrap s tid c = Done (s', out) ->
  s' = s \/
  exists s2, let e := mkEntry 1 1 entryConfig (enc_config_data (c_nodes c)) in
    e_index e = st_lastidx s + 1 /\
    set_term (commit_log (set_log s (st_logprev s) (st_log s ++ [e]) (e_index e) (e_term e)) 1) (N.max 1 (st_term s)) = Done s2 /\
    s' = set_role (change_config (set_log s2 (st_logprev s2) (st_log s2) 1 1) (mkConfig (c_nodes c) 1 1)) Candidate.
Proof.
  intros H. unfold bootstrap in H.
  destruct (is_bootstrapped _); [unfold wreply in H; inversion H; subst; auto|].
  destruct (negb (config_valid c)); [unfold wreply in H; inversion H; subst; auto|].
  destruct (cfg_node c (st_nid s)) as [me|]; [|unfold wreply in H; inversion H; subst; auto].
  destruct (negb (n_voter me)); [unfold wreply in H; inversion H; subst; auto|].
  destruct (negb (is_stable c)); [unfold wreply in H; inversion H; subst; auto|].
  cbn [c_nodes] in H.
  apply obind_inv in H. destruct H as (s1 & HA & H).
  apply obind_inv in H. destruct H as (s2 & HT & H).
  apply append_entry_inv in HA. destruct HA as [EA ->].
  right. exists s2. cbv zeta. split; [exact EA|]. split; [exact HT|].
  unfold wreply, wret, wbind in H. inversion H. reflexivity.
Qed.

Lemma bootstrap_ok s tid c s' out : core s ->
  config_of_entry (mkEntry 1 1 entryConfig (enc_config_data (c_nodes c))) = Some (mkConfig (c_nodes c) 1 1) ->
  bootstrap s tid c = Done (s', out) -> hres s s' /\ st_closed s' = st_closed s.
Proof.
  intros C X H. apply bootstrap_inv in H. destruct H as [->|(s2 & H)]; [split; [apply hres_refl; assumption|reflexivity]|].
  cbv zeta in H. destruct H as (EA & HT & ->).
  set (e := mkEntry 1 1 entryConfig (enc_config_data (c_nodes c))) in *.
  set (c1 := mkConfig (c_nodes c) 1 1) in *.
  pose proof (core_append_cfg s e c1 C EA X) as CC.
  pose proof (set_term_closed _ _ _ HT) as CL. cbn in CL.
  apply set_term_inv in HT. destruct HT as (K0 & L0 & R0 & T1 & T2 & M1 & M2 & M3).
  destruct (K_inv _ _ K0) as (Q1 & Q2 & Q3 & Q4 & Q5 & Q6 & Q7 & Q8 & Q9 & Q10).
  cbn in Q1, Q2, Q3, Q4, Q5, Q6, Q7, Q8, Q9, Q10, M1, M2, M3, L0, T1. clear K0 R0.
  set (s2' := set_log s2 (st_logprev s2) (st_log s2) 1 1).
  assert (K2 : K s2' = K (set_log s (st_logprev s) (st_log s ++ [e]) (e_index e) (e_term e))).
  { unfold K; subst s2'; cbn. rewrite Q1, Q2, Q4, Q5, Q6, Q7, Q8, Q9, Q10. reflexivity. }
  assert (F2 : KM s2' = KM s2 /\ st_ldr s2' = st_ldr s2 /\ st_closed s2' = st_closed s2) by (subst s2'; auto).
  destruct F2 as (F2 & F2' & F2'').
  clearbody s2'.
  destruct (change_config_frame s2' c1) as (A1 & A2 & A3).
  assert (A4 : st_closed (change_config s2' c1) = st_closed s2') by (unfold change_config; destruct (_ && _); reflexivity).
  pose proof (change_config_K s2' c1) as K3.
  rewrite (K_latest _ _ K2) in K3. cbn [st_latest set_log set] in K3.
  set (s3 := change_config s2' c1) in *. clearbody s3.
  rewrite (K_set_configs_cong _ _ (st_latest s) c1 K2) in K3.
  rewrite F2 in A1. unfold KM in A1. injection A1 as G1 G2 G3 G4.
  split.
  - split; [eapply core_ext; [exact K3|exact CC]|].
    split; [unfold mono; cbn; lia|].
    split; [cbn; congruence|]. cbn. discriminate.
  - cbn. rewrite A4, F2''. exact CL.
Qed.

Lemma take_snapshot_ok s tid th s' out : core s ->
  (st_snapbusy s = false -> st_snapidx s < st_fsmidx s -> c_index (st_committed s) <= st_fsmidx s) ->
  on_take_snapshot s tid th = Done (s', out) ->
  core s' /\ KM s' = KM s /\ st_ldr s' = st_ldr s /\ st_lastidx s' = st_lastidx s /\ st_role s' = st_role s /\
  st_closed s' = st_closed s.
Proof.
  intros C X H. unfold on_take_snapshot in H.
  destruct (st_snapbusy s) eqn:B; [unfold wreply in H; inversion H; subst; auto 10|].
  unfold wret in H. inversion H; subst s' out. clear H.
  split; [|auto 10].
  eapply core_with_sr; [|exact C|]; [reflexivity|].
  unfold snapreq_ok; cbn.
  destruct (st_fsmidx s =? st_snapidx s) eqn:T1; [exact I|].
  destruct (st_fsmidx s <? st_snapidx s + th) eqn:T2; [exact I|].
  split; [apply (c_fsm _ C)|]. intros L.
  rewrite (committed_is_config_at s C L (X eq_refl L)). unfold config_at; reflexivity.
Qed.

Lemma node_task_ok s t s' out : core s -> env_ok s (ETask t) -> node_task s t = Done (s', out) ->
  hres s s' /\ (st_closed s' = st_closed s \/ st_closed s' = true).
Proof.
  intros C EN H. destruct t; cbn [node_task] in H.
  - unfold nonleader_client in H. inversion H; subst. split; [apply hres_refl; assumption|auto].
  - destruct (bootstrap_ok _ _ _ _ _ C EN H) as [A B]. split; [assumption|left; assumption].
  - unfold wreply in H. inversion H; subst. split; [apply hres_refl; assumption|auto].
  - unfold wreply in H. inversion H; subst. split; [apply hres_refl; assumption|auto].
  - destruct (take_snapshot_ok _ _ _ _ _ C EN H) as (A1 & A2 & A3 & A4 & A5 & A6).
    split; [|auto]. unfold KM in A2. injection A2 as Q1 Q2 Q3 Q4.
    split; [assumption|]. split; [unfold mono; lia|]. split; [assumption|]. intros; lia.
  - unfold wret in H. inversion H; subst. split; [|right; reflexivity].
    apply hres_ext; [assumption|reflexivity|reflexivity|reflexivity].
Qed.

(* ---------------------------------------------------------------- the snapshot goroutine *)
Lemma snapshot_run_ok s s' : core s -> snapshot_run s = Done s' ->
  hres s s' /\ st_role s' = st_role s /\ st_lastidx s' = st_lastidx s.
Proof.
  intros C H. unfold snapshot_run in H.
  destruct (st_snapreq s) as [rq|] eqn:SR; [|discriminate].
  destruct (sr_done rq) eqn:SD; try (inversion H; subst; split; [apply hres_refl; assumption|auto]).
  pose proof (c_sr _ C) as S. unfold snapreq_ok in S. rewrite SR, SD in S. destruct S as [S1 S2].
  inversion H; subst s'. clear H.
  destruct (st_snapidx s <? sr_index rq) eqn:T.
  - apply N.ltb_lt in T. pose proof (c_commit _ C).
    destruct (core_raise_snap s (sr_index rq) (sr_term rq) (sr_config rq) C T ltac:(lia) (S2 T)) as [C2 _].
    split; [|auto]. split.
    { eapply core_with_sr; [|exact C2|]; [reflexivity|]. unfold snapreq_ok; cbn. lia. }
    split; [unfold mono; cbn; lia|]. split; [reflexivity|]. cbn. intros; lia.
  - split; [|auto]. split.
    { eapply core_with_sr; [|exact C|]; [reflexivity|]. unfold snapreq_ok; cbn. lia. }
    split; [unfold mono; cbn; lia|]. split; [reflexivity|]. cbn. intros; lia.
Qed.
