(* Which handlers touch the persisted pair (st_term, st_voted), and how.
   Only set_term, set_voted_for write it; everything else leaves it alone.
   Used by Node/VoteFacts.v (C05). *)
From Coq Require Import List NArith ZArith Bool Lia.
From RecordUpdate Require Import RecordUpdate.
From Verif Require Import Base.Bytes Codec.Messages Node.Types Node.Handlers Node.Leader Node.Snap Node.Step.
Import ListNotations.
Open Scope N_scope.

(* ---------------------------------------------------------------- the pair and its order *)
Definition tv (s : nstate) : N * N := (st_term s, st_voted s).

Definition pair_le (p q : N * N) : Prop :=
  fst p <= fst q /\ (fst q = fst p -> snd p = 0 \/ snd q = snd p).
Definition tvle (s s' : nstate) : Prop := pair_le (tv s) (tv s').

Lemma pair_le_refl p : pair_le p p.
Proof. unfold pair_le; split; [lia | auto]. Qed.
Lemma pair_le_trans p q r : pair_le p q -> pair_le q r -> pair_le p r.
Proof. unfold pair_le; intros [H1 H2] [H3 H4]; split; [lia|]; intros E; lia. Qed.
Lemma tvle_refl s : tvle s s.
Proof. apply pair_le_refl. Qed.
Lemma tvle_trans a b c : tvle a b -> tvle b c -> tvle a c.
Proof. apply pair_le_trans. Qed.
Lemma tvle_same a b : tv b = tv a -> tvle a b.
Proof. unfold tvle; intros ->; apply pair_le_refl. Qed.
Lemma tvle_same_l a a' b : tv a' = tv a -> tvle a' b -> tvle a b.
Proof. unfold tvle; intros ->; auto. Qed.
Lemma tvle_same_r a b b' : tv b' = tv b -> tvle a b -> tvle a b'.
Proof. unfold tvle; intros ->; auto. Qed.

(* ---------------------------------------------------------------- primitive updates *)
Lemma tv_set_role s r : tv (set_role s r) = tv s. Proof. reflexivity. Qed.
Lemma tv_set_leader s r : tv (set_leader s r) = tv s. Proof. reflexivity. Qed.
Lemma tv_set_commit s r : tv (set_commit s r) = tv s. Proof. reflexivity. Qed.
Lemma tv_set_log s a b c d : tv (set_log s a b c d) = tv s. Proof. reflexivity. Qed.
Lemma tv_set_flushed s r : tv (set_flushed s r) = tv s. Proof. reflexivity. Qed.
Lemma tv_set_snap s a b c : tv (set_snap s a b c) = tv s. Proof. reflexivity. Qed.
Lemma tv_set_configs s a b : tv (set_configs s a b) = tv s. Proof. reflexivity. Qed.
Lemma tv_set_closed s r : tv (set_closed s r) = tv s. Proof. reflexivity. Qed.
Lemma tv_set_fsm s a b : tv (set_fsm s a b) = tv s. Proof. reflexivity. Qed.
Lemma tv_set_flr s a b : tv (set_flr s a b) = tv s. Proof. reflexivity. Qed.
Lemma tv_set_cnd s a b : tv (set_cnd s a b) = tv s. Proof. reflexivity. Qed.
Lemma tv_set_ldr s r : tv (set_ldr s r) = tv s. Proof. reflexivity. Qed.
Lemma tv_set_snapbusy s r : tv (set_snapbusy s r) = tv s. Proof. reflexivity. Qed.
Lemma tv_set_timer s r : tv (set_timer s r) = tv s. Proof. reflexivity. Qed.
Lemma tv_raw_snapbusy s f : tv (set st_snapbusy f s) = tv s. Proof. reflexivity. Qed.
Lemma tv_raw_snapreq s f : tv (set st_snapreq f s) = tv s. Proof. reflexivity. Qed.
Lemma tv_set_term_vote s t v : tv (set_term_vote s t v) = (t, v). Proof. reflexivity. Qed.
Lemma tv_put_ldr s l : tv (put_ldr s l) = tv s. Proof. reflexivity. Qed.
Lemma tv_upd_ldr s f : tv (upd_ldr s f) = tv s.
Proof. unfold upd_ldr; destruct (st_ldr s); reflexivity. Qed.
Lemma tv_upd_repl s i f : tv (upd_repl s i f) = tv s.
Proof. apply tv_upd_ldr. Qed.
Lemma tv_if (b : bool) (x y : nstate) : tv (if b then x else y) = if b then tv x else tv y.
Proof. destruct b; reflexivity. Qed.
Lemma if_same {A} (b : bool) (x : A) : (if b then x else x) = x.
Proof. destruct b; reflexivity. Qed.
Lemma tv_commit_log s n : tv (commit_log s n) = tv s. Proof. reflexivity. Qed.
Lemma tv_clear_log s : tv (clear_log s) = tv s. Proof. reflexivity. Qed.
Lemma tv_change_config s c : tv (change_config s c) = tv s.
Proof. unfold change_config. destruct (_ && _); reflexivity. Qed.
Lemma tv_commit_config s : tv (commit_config s) = tv s.
Proof. unfold commit_config. destruct (_ && _); reflexivity. Qed.
Lemma tv_revert_config s : tv (revert_config s) = tv s. Proof. reflexivity. Qed.
Lemma tv_begin_finished_rounds s : tv (begin_finished_rounds s) = tv s.
Proof. apply tv_upd_ldr. Qed.
Lemma tv_follower_on_timeout s : tv (follower_on_timeout s) = tv s.
Proof. unfold follower_on_timeout. destruct (can_start_election _); reflexivity. Qed.
Lemma tv_follower_reset_timer s : tv (follower_reset_timer s) = tv s.
Proof. unfold follower_reset_timer. destruct (can_start_election _); reflexivity. Qed.
Lemma tv_follower_init s : tv (follower_init s) = tv s. Proof. reflexivity. Qed.
Lemma tv_candidate_release s : tv (candidate_release s) = tv s. Proof. reflexivity. Qed.
Lemma tv_after_rpc s b : tv (after_rpc s b) = tv s.
Proof. unfold after_rpc. destruct (_ && _); [apply tv_follower_reset_timer | reflexivity]. Qed.

#[export] Hint Rewrite tv_set_role tv_set_leader tv_set_commit tv_set_log tv_set_flushed tv_set_snap
  tv_set_configs tv_set_closed tv_set_fsm tv_set_flr tv_set_cnd tv_set_ldr tv_set_snapbusy tv_set_timer
  tv_raw_snapbusy tv_raw_snapreq tv_set_term_vote tv_put_ldr tv_upd_ldr tv_upd_repl tv_commit_log tv_clear_log
  tv_change_config tv_commit_config tv_revert_config tv_begin_finished_rounds tv_follower_on_timeout
  tv_follower_reset_timer tv_follower_init tv_candidate_release tv_after_rpc tv_if @if_same : tv.

Lemma tv_raft_set_commit_index sor s i : tv (fst (raft_set_commit_index sor s i)) = tv s.
Proof.
  unfold raft_set_commit_index.
  destruct (_ && _); [|reflexivity]. cbn [fst].
  destruct sor.
  - destruct (cfg_node _ _); autorewrite with tv; reflexivity.
  - autorewrite with tv; reflexivity.
Qed.
#[export] Hint Rewrite tv_raft_set_commit_index : tv.

(* ---------------------------------------------------------------- inversion of the monads *)
Lemma obind_inv {A B} (o : outcome A) (k : A -> outcome B) r :
  obind o k = Done r -> exists a, o = Done a /\ k a = Done r.
Proof. destruct o; cbn; [eauto | discriminate]. Qed.

Lemma wbind_inv (o : outcome W) (k : nstate -> outcome W) w :
  wbind o k = Done w -> exists s1 o1 w2, o = Done (s1, o1) /\ k s1 = Done w2 /\ fst w = fst w2.
Proof.
  unfold wbind. destruct o as [[s1 o1]|]; [|discriminate].
  destruct (k s1) as [[s2 o2]|] eqn:E; [|discriminate].
  intros H; inversion H; subst. exists s1, o1, (s2, o2). auto.
Qed.

Lemma fold_left_inv {A B} (P : A -> Prop) (f : A -> B -> A) l a :
  P a -> (forall a b, P a -> P (f a b)) -> P (fold_left f l a).
Proof. revert a; induction l; cbn; auto. Qed.

(* one step of taking a hypothesis [... = Done _] apart *)
Ltac inv1 :=
  match goal with
  | H : Err _ = Done _ |- _ => discriminate H
  | H : Done _ = Done _ |- _ => inversion H; subst; clear H
  | H : wret _ = Done _ |- _ => unfold wret in H
  | H : wreply _ _ _ = Done _ |- _ => unfold wreply in H
  | H : wmsg _ _ = Done _ |- _ => unfold wmsg in H
  | H : obind _ _ = Done _ |- _ => apply obind_inv in H; destruct H as (? & ? & H)
  | H : wbind _ _ = Done _ |- _ =>
      let E := fresh "E" in apply wbind_inv in H; destruct H as (? & ? & ? & ? & H & E)
  | H : (if ?b then _ else _) = Done _ |- _ => destruct b eqn:?
  | H : match ?x with _ => _ end = Done _ |- _ => destruct x eqn:?
  end.

(* close a goal about tv / tvle from the collected facts *)
Ltac tv_norm :=
  unfold tvle in *; cbn [fst snd] in *; autorewrite with tv in *.
Ltac tv_done :=
  tv_norm; unfold tvle, pair_le, tv in *; cbn [fst snd] in *;
  repeat match goal with
         | H : (_, _) = (_, _) |- _ => injection H as ? ?
         end;
  try lia; try (split; lia).

(* ---------------------------------------------------------------- storage *)
Lemma tvle_set_term s t s' : set_term s t = Done s' -> tvle s s' /\ st_term s' = t.
Proof.
  unfold set_term. destruct (st_term s =? t) eqn:E1.
  - apply N.eqb_eq in E1. intros H; inversion H; subst. split; [apply tvle_refl | reflexivity].
  - destruct (st_term s <? t) eqn:E2; [|discriminate].
    apply N.ltb_lt in E2. intros H; inversion H; subst. split; [|reflexivity]. tv_done.
Qed.

Lemma set_voted_for_spec s t c s' :
  set_voted_for s t c = Done s' -> tv s' = (t, c) /\ st_term s <= t.
Proof.
  unfold set_voted_for. destruct (_ && _) eqn:E1.
  - apply andb_true_iff in E1. destruct E1 as [E1 E2]. apply N.eqb_eq in E1, E2.
    intros H; inversion H; subst. unfold tv. split; [congruence | lia].
  - destruct (st_term s <=? t) eqn:E2; [|discriminate].
    apply N.leb_le in E2. intros H; inversion H; subst. split; [reflexivity | assumption].
Qed.

Lemma tv_append_entry s e s' : append_entry s e = Done s' -> tv s' = tv s.
Proof. unfold append_entry. intros; repeat inv1; reflexivity. Qed.

Lemma tv_remove_gte s i t s' : remove_gte s i t = Done s' -> tv s' = tv s.
Proof. unfold remove_gte. intros; repeat inv1; reflexivity. Qed.

Lemma tv_apply_committed s s' : apply_committed s = Done s' -> tv s' = tv s.
Proof. unfold apply_committed. intros; repeat inv1; reflexivity. Qed.

Lemma tv_commit_and_apply sor s i s' : commit_and_apply sor s i = Done s' -> tv s' = tv s.
Proof.
  unfold commit_and_apply. intros H. apply tv_apply_committed in H.
  rewrite H. apply tv_raft_set_commit_index.
Qed.

(* apply known preservation facts to hypotheses *)
Ltac use_h :=
  match goal with
  | H : append_entry _ _ = Done _ |- _ => apply tv_append_entry in H
  | H : remove_gte _ _ _ = Done _ |- _ => apply tv_remove_gte in H
  | H : apply_committed _ = Done _ |- _ => apply tv_apply_committed in H
  | H : commit_and_apply _ _ _ = Done _ |- _ => apply tv_commit_and_apply in H
  | H : set_term _ _ = Done _ |- _ => apply tvle_set_term in H; destruct H as [H ?]
  | H : set_voted_for _ _ _ = Done _ |- _ => apply set_voted_for_spec in H; destruct H as [H ?]
  end.

Lemma tv_consume_entries es : forall s i t b r,
  consume_entries s es i t b = Done r -> tv (fst (fst (fst (fst r)))) = tv s.
Proof.
  induction es as [|ne rest IH]; intros s i t b r H.
  - cbn in H. inversion H; reflexivity.
  - cbn [consume_entries] in H.
    repeat (first [use_h | inv1]); try (apply IH in H); tv_norm; try congruence.
Qed.

Ltac use_h2 :=
  match goal with
  | H : consume_entries _ _ _ _ _ = Done _ |- _ => apply tv_consume_entries in H
  end.

Ltac go := repeat (first [use_h | use_h2 | inv1]).

Lemma tvle_on_append_request sor s q c s' :
  on_append_request sor s q = Done (c, s') -> tvle s s'.
Proof.
  unfold on_append_request. intros H. go; tv_done.
Qed.

Lemma tvle_on_install_snap_request s q np c s' :
  on_install_snap_request s q np = Done (c, s') -> tvle s s'.
Proof.
  unfold on_install_snap_request. intros H. go; tv_done.
Qed.

Lemma tv_on_timeout_now_request s : tv (snd (on_timeout_now_request s)) = tv s.
Proof. unfold on_timeout_now_request. destruct (negb _); reflexivity. Qed.

Lemma start_election_spec s s' :
  start_election s = Done s' -> tv s' = (st_term s + 1, st_nid s).
Proof.
  unfold start_election. intros H. go. tv_norm. assumption.
Qed.

Lemma tvle_start_election s s' : start_election s = Done s' -> tvle s s'.
Proof. intros H. apply start_election_spec in H. tv_done. Qed.

Lemma tvle_on_vote_result s t r s' : on_vote_result s t r = Done s' -> tvle s s'.
Proof. unfold on_vote_result. intros H. go; tv_done. Qed.

Lemma tv_restart s k s' : restart s k = Done s' -> tv s' = tv s.
Proof. unfold restart. intros H. go; reflexivity. Qed.

Lemma set_voted_for_role s t c s' : set_voted_for s t c = Done s' -> st_role s' = st_role s.
Proof. unfold set_voted_for. intros H. repeat inv1; reflexivity. Qed.

Lemma on_vote_request_spec s q c s' :
  on_vote_request s q = Done (c, s') ->
  tvle s s' /\ (st_role s' = st_role s \/ st_role s' = Follower) /\
  (c = success -> tv s' = (vq_term q, vq_src q)).
Proof.
  unfold on_vote_request. intros H.
  destruct (_ && _ && _).
  { inversion H; subst. split; [apply tvle_refl|]. split; [auto | discriminate]. }
  destruct (vq_term q <? st_term s) eqn:E0.
  { inversion H; subst. split; [apply tvle_refl|]. split; [auto | discriminate]. }
  apply N.ltb_ge in E0.
  destruct (st_term s <? vq_term q) eqn:E1.
  - apply N.ltb_lt in E1. change (negb (0 =? 0)) with false in H. cbv iota in H.
    destruct (log_more_uptodate _ _).
    + apply obind_inv in H. destruct H as (s2 & H & H2). inversion H2; subst.
      pose proof (set_voted_for_role _ _ _ _ H) as R. apply set_voted_for_spec in H. destruct H as [H _].
      split; [tv_done|]. split; [right; exact R | discriminate].
    + apply obind_inv in H. destruct H as (s2 & H & H2). inversion H2; subst.
      pose proof (set_voted_for_role _ _ _ _ H) as R. apply set_voted_for_spec in H. destruct H as [H _].
      split; [tv_done|]. split; [right; exact R | intros _; exact H].
  - apply N.ltb_ge in E1. assert (ET : vq_term q = st_term s) by lia.
    destruct (st_voted s =? 0) eqn:E2; cbn [negb] in H; cbv iota in H.
    + apply N.eqb_eq in E2.
      destruct (log_more_uptodate _ _).
      * apply obind_inv in H. destruct H as (s2 & H & H2). inversion H2; subst.
        pose proof (set_voted_for_role _ _ _ _ H) as R. apply set_voted_for_spec in H. destruct H as [H _].
        split; [tv_done|]. split; [left; exact R | discriminate].
      * apply obind_inv in H. destruct H as (s2 & H & H2). inversion H2; subst.
        pose proof (set_voted_for_role _ _ _ _ H) as R. apply set_voted_for_spec in H. destruct H as [H _].
        split; [tv_done|]. split; [left; exact R | intros _; rewrite H, ET; reflexivity].
    + apply N.eqb_neq in E2.
      apply obind_inv in H. destruct H as (s2 & H & H2). inversion H2; subst.
      pose proof (set_voted_for_role _ _ _ _ H) as R. apply set_voted_for_spec in H. destruct H as [H _].
      split; [tv_done|]. split; [left; exact R |].
      destruct (st_voted s =? vq_src q) eqn:E3; [|discriminate].
      apply N.eqb_eq in E3. intros _. rewrite H, ET, E3. reflexivity.
Qed.
