(* Which handlers touch the persisted pair (st_term, st_voted), and how.
   Only set_term, set_voted_for write it; everything else leaves it alone.
   Used by Node/VoteFacts.v (C05). *)
From Coq Require Import List NArith ZArith Bool Lia.
From RecordUpdate Require Import RecordUpdate.
From Verif Require Import Base.Bytes Codec.Messages Node.Types Node.Handlers Node.Leader Node.Snap Node.Step.
Import ListNotations.
Open Scope N_scope.

(* ---------------------------------------------------------------- the pair and its order *)
Definition tv (s : nstate) : N * N := (st_term s, st_voted s).

Definition pair_le (p q : N * N) : Prop :=
  fst p <= fst q /\ (fst q = fst p -> snd p = 0 \/ snd q = snd p).
Definition tvle (s s' : nstate) : Prop := pair_le (tv s) (tv s').

Lemma pair_le_refl p : pair_le p p.
Proof. unfold pair_le; split; [lia | auto]. Qed.
Lemma pair_le_trans p q r : pair_le p q -> pair_le q r -> pair_le p r.
Proof. unfold pair_le; intros [H1 H2] [H3 H4]; split; [lia|]; intros E; lia. Qed.
Lemma tvle_refl s : tvle s s.
Proof. apply pair_le_refl. Qed.
Lemma tvle_trans a b c : tvle a b -> tvle b c -> tvle a c.
Proof. apply pair_le_trans. Qed.
Lemma tvle_same a b : tv b = tv a -> tvle a b.
Proof. unfold tvle; intros ->; apply pair_le_refl. Qed.
Lemma tvle_same_l a a' b : tv a' = tv a -> tvle a' b -> tvle a b.
Proof. unfold tvle; intros ->; auto. Qed.
Lemma tvle_same_r a b b' : tv b' = tv b -> tvle a b -> tvle a b'.
Proof. unfold tvle; intros ->; auto. Qed.

(* ---------------------------------------------------------------- primitive updates *)
Lemma tv_set_role s r : tv (set_role s r) = tv s. Proof. reflexivity. Qed.
Lemma tv_set_leader s r : tv (set_leader s r) = tv s. Proof. reflexivity. Qed.
Lemma tv_set_commit s r : tv (set_commit s r) = tv s. Proof. reflexivity. Qed.
Lemma tv_set_log s a b c d : tv (set_log s a b c d) = tv s. Proof. reflexivity. Qed.
Lemma tv_set_flushed s r : tv (set_flushed s r) = tv s. Proof. reflexivity. Qed.
Lemma tv_set_snap s a b c : tv (set_snap s a b c) = tv s. Proof. reflexivity. Qed.
Lemma tv_set_configs s a b : tv (set_configs s a b) = tv s. Proof. reflexivity. Qed.
Lemma tv_set_closed s r : tv (set_closed s r) = tv s. Proof. reflexivity. Qed.
Lemma tv_set_fsm s a b : tv (set_fsm s a b) = tv s. Proof. reflexivity. Qed.
Lemma tv_set_flr s a b : tv (set_flr s a b) = tv s. Proof. reflexivity. Qed.
Lemma tv_set_cnd s a b : tv (set_cnd s a b) = tv s. Proof. reflexivity. Qed.
Lemma tv_set_ldr s r : tv (set_ldr s r) = tv s. Proof. reflexivity. Qed.
Lemma tv_set_snapbusy s r : tv (set_snapbusy s r) = tv s. Proof. reflexivity. Qed.
Lemma tv_set_timer s r : tv (set_timer s r) = tv s. Proof. reflexivity. Qed.
Lemma tv_raw_snapbusy s f : tv (set st_snapbusy f s) = tv s. Proof. reflexivity. Qed.
Lemma tv_raw_snapreq s f : tv (set st_snapreq f s) = tv s. Proof. reflexivity. Qed.
Lemma tv_set_term_vote s t v : tv (set_term_vote s t v) = (t, v). Proof. reflexivity. Qed.
Lemma tv_put_ldr s l : tv (put_ldr s l) = tv s. Proof. reflexivity. Qed.
Lemma tv_upd_ldr s f : tv (upd_ldr s f) = tv s.
Proof. unfold upd_ldr; destruct (st_ldr s); reflexivity. Qed.
Lemma tv_upd_repl s i f : tv (upd_repl s i f) = tv s.
Proof. apply tv_upd_ldr. Qed.
Lemma tv_if (b : bool) (x y : nstate) : tv (if b then x else y) = if b then tv x else tv y.
Proof. destruct b; reflexivity. Qed.
Lemma if_same {A} (b : bool) (x : A) : (if b then x else x) = x.
Proof. destruct b; reflexivity. Qed.
Lemma tv_commit_log s n : tv (commit_log s n) = tv s. Proof. reflexivity. Qed.
Lemma tv_clear_log s : tv (clear_log s) = tv s. Proof. reflexivity. Qed.
Lemma tv_change_config s c : tv (change_config s c) = tv s.
Proof. unfold change_config. destruct (_ && _); reflexivity. Qed.
Lemma tv_commit_config s : tv (commit_config s) = tv s.
Proof. unfold commit_config. destruct (_ && _); reflexivity. Qed.
Lemma tv_revert_config s : tv (revert_config s) = tv s. Proof. reflexivity. Qed.
Lemma tv_begin_finished_rounds s : tv (begin_finished_rounds s) = tv s.
Proof. apply tv_upd_ldr. Qed.
Lemma tv_follower_on_timeout s : tv (follower_on_timeout s) = tv s.
Proof. unfold follower_on_timeout. destruct (can_start_election _); reflexivity. Qed.
Lemma tv_follower_reset_timer s : tv (follower_reset_timer s) = tv s.
Proof. unfold follower_reset_timer. destruct (can_start_election _); reflexivity. Qed.
Lemma tv_follower_init s : tv (follower_init s) = tv s. Proof. reflexivity. Qed.
Lemma tv_candidate_release s : tv (candidate_release s) = tv s. Proof. reflexivity. Qed.
Lemma tv_after_rpc s b : tv (after_rpc s b) = tv s.
Proof. unfold after_rpc. destruct (_ && _); [apply tv_follower_reset_timer | reflexivity]. Qed.

#[export] Hint Rewrite tv_set_role tv_set_leader tv_set_commit tv_set_log tv_set_flushed tv_set_snap
  tv_set_configs tv_set_closed tv_set_fsm tv_set_flr tv_set_cnd tv_set_ldr tv_set_snapbusy tv_set_timer
  tv_raw_snapbusy tv_raw_snapreq tv_set_term_vote tv_put_ldr tv_upd_ldr tv_upd_repl tv_commit_log tv_clear_log
  tv_change_config tv_commit_config tv_revert_config tv_begin_finished_rounds tv_follower_on_timeout
  tv_follower_reset_timer tv_follower_init tv_candidate_release tv_after_rpc tv_if @if_same : tv.

Lemma tv_raft_set_commit_index sor s i : tv (fst (raft_set_commit_index sor s i)) = tv s.
Proof.
  unfold raft_set_commit_index.
  destruct (_ && _); [|reflexivity]. cbn [fst].
  destruct sor.
  - destruct (cfg_node _ _); autorewrite with tv; reflexivity.
  - autorewrite with tv; reflexivity.
Qed.
#[export] Hint Rewrite tv_raft_set_commit_index : tv.

(* ---------------------------------------------------------------- inversion of the monads *)
Lemma obind_inv {A B} (o : outcome A) (k : A -> outcome B) r :
  obind o k = Done r -> exists a, o = Done a /\ k a = Done r.
Proof. destruct o; cbn; [eauto | discriminate]. Qed.

Lemma wbind_inv (o : outcome W) (k : nstate -> outcome W) w :
  wbind o k = Done w -> exists s1 o1 w2, o = Done (s1, o1) /\ k s1 = Done w2 /\ fst w = fst w2.
Proof.
  unfold wbind. destruct o as [[s1 o1]|]; [|discriminate].
  destruct (k s1) as [[s2 o2]|] eqn:E; [|discriminate].
  intros H; inversion H; subst. exists s1, o1, (s2, o2). auto.
Qed.

Lemma fold_left_inv {A B} (P : A -> Prop) (f : A -> B -> A) l a :
  P a -> (forall a b, P a -> P (f a b)) -> P (fold_left f l a).
Proof. revert a; induction l; cbn; auto. Qed.

(* one step of taking a hypothesis [... = Done _] apart *)
Ltac inv1 :=
  match goal with
  | H : Err _ = Done _ |- _ => discriminate H
  | H : Done _ = Done _ |- _ => inversion H; subst; clear H
  | H : wret _ = Done _ |- _ => unfold wret in H
  | H : wreply _ _ _ = Done _ |- _ => unfold wreply in H
  | H : wmsg _ _ = Done _ |- _ => unfold wmsg in H
  | H : obind _ _ = Done _ |- _ => apply obind_inv in H; destruct H as (? & ? & H)
  | H : wbind _ _ = Done _ |- _ =>
      let E := fresh "E" in apply wbind_inv in H; destruct H as (? & ? & ? & ? & H & E)
  | H : (if ?b then _ else _) = Done _ |- _ => destruct b eqn:?
  | H : match ?x with _ => _ end = Done _ |- _ => destruct x eqn:?
  end.

(* close a goal about tv / tvle from the collected facts *)
Ltac tv_norm :=
  unfold tvle in *; cbn [fst snd] in *; autorewrite with tv in *.
Ltac tv_done :=
  repeat match goal with E : fst _ = fst _ |- _ => first [rewrite E in * | clear E] end;
  tv_norm; unfold tvle, pair_le, tv in *; cbn [fst snd] in *;
  repeat match goal with
         | H : (_, _) = (_, _) |- _ => injection H as ? ?
         end;
  try lia; try (split; lia).

(* ---------------------------------------------------------------- storage *)
Lemma tvle_set_term s t s' : set_term s t = Done s' -> tvle s s' /\ st_term s' = t.
Proof.
  unfold set_term. destruct (st_term s =? t) eqn:E1.
  - apply N.eqb_eq in E1. intros H; inversion H; subst. split; [apply tvle_refl | reflexivity].
  - destruct (st_term s <? t) eqn:E2; [|discriminate].
    apply N.ltb_lt in E2. intros H; inversion H; subst. split; [|reflexivity]. tv_done.
Qed.

Lemma set_voted_for_spec s t c s' :
  set_voted_for s t c = Done s' -> tv s' = (t, c) /\ st_term s <= t.
Proof.
  unfold set_voted_for. destruct (_ && _) eqn:E1.
  - apply andb_true_iff in E1. destruct E1 as [E1 E2]. apply N.eqb_eq in E1, E2.
    intros H; inversion H; subst. unfold tv. split; [congruence | lia].
  - destruct (st_term s <=? t) eqn:E2; [|discriminate].
    apply N.leb_le in E2. intros H; inversion H; subst. split; [reflexivity | assumption].
Qed.

Lemma tv_append_entry s e s' : append_entry s e = Done s' -> tv s' = tv s.
Proof. unfold append_entry. intros; repeat inv1; reflexivity. Qed.

Lemma tv_remove_gte s i t s' : remove_gte s i t = Done s' -> tv s' = tv s.
Proof. unfold remove_gte. intros; repeat inv1; reflexivity. Qed.

Lemma tv_apply_committed s s' : apply_committed s = Done s' -> tv s' = tv s.
Proof. unfold apply_committed. intros; repeat inv1; reflexivity. Qed.

Lemma tv_commit_and_apply sor s i s' : commit_and_apply sor s i = Done s' -> tv s' = tv s.
Proof.
  unfold commit_and_apply. intros H. apply tv_apply_committed in H.
  rewrite H. apply tv_raft_set_commit_index.
Qed.

(* apply known preservation facts to hypotheses *)
Ltac use_h :=
  match goal with
  | H : append_entry _ _ = Done _ |- _ => apply tv_append_entry in H
  | H : remove_gte _ _ _ = Done _ |- _ => apply tv_remove_gte in H
  | H : apply_committed _ = Done _ |- _ => apply tv_apply_committed in H
  | H : commit_and_apply _ _ _ = Done _ |- _ => apply tv_commit_and_apply in H
  | H : set_term _ _ = Done _ |- _ => apply tvle_set_term in H; destruct H as [H ?]
  | H : set_voted_for _ _ _ = Done _ |- _ => apply set_voted_for_spec in H; destruct H as [H ?]
  end.

Lemma tv_consume_entries es : forall s i t b r,
  consume_entries s es i t b = Done r -> tv (fst (fst (fst (fst r)))) = tv s.
Proof.
  induction es as [|ne rest IH]; intros s i t b r H.
  - cbn in H. inversion H; reflexivity.
  - cbn [consume_entries] in H.
    repeat (first [use_h | inv1]); try (apply IH in H); tv_norm; try congruence.
Qed.

Ltac use_h2 :=
  match goal with
  | H : consume_entries _ _ _ _ _ = Done _ |- _ => apply tv_consume_entries in H
  end.

Ltac go := repeat (first [use_h | use_h2 | inv1]).

Lemma tvle_on_append_request sor s q c s' :
  on_append_request sor s q = Done (c, s') -> tvle s s'.
Proof.
  unfold on_append_request. intros H. go; tv_done.
Qed.

Lemma tvle_on_install_snap_request s q np c s' :
  on_install_snap_request s q np = Done (c, s') -> tvle s s'.
Proof.
  unfold on_install_snap_request. intros H. go; tv_done.
Qed.

Lemma tv_on_timeout_now_request s : tv (snd (on_timeout_now_request s)) = tv s.
Proof. unfold on_timeout_now_request. destruct (negb _); reflexivity. Qed.

Lemma start_election_spec s s' :
  start_election s = Done s' -> tv s' = (st_term s + 1, st_nid s).
Proof.
  unfold start_election. intros H. go. tv_norm. assumption.
Qed.

Lemma tvle_start_election s s' : start_election s = Done s' -> tvle s s'.
Proof. intros H. apply start_election_spec in H. tv_done. Qed.

Lemma tvle_on_vote_result s t r s' : on_vote_result s t r = Done s' -> tvle s s'.
Proof. unfold on_vote_result. intros H. go; tv_done. Qed.

Lemma tv_restart s k s' : restart s k = Done s' -> tv s' = tv s.
Proof.
  unfold restart. intros H. cbv zeta in H.
  destruct (negb _) in H; [discriminate|].
  destruct ((log_lastindex _ <? st_snapidx _) || _) in H; go; reflexivity.
Qed.

Lemma set_voted_for_role s t c s' : set_voted_for s t c = Done s' -> st_role s' = st_role s.
Proof. unfold set_voted_for. intros H. repeat inv1; reflexivity. Qed.

Lemma on_vote_request_spec s q c s' :
  on_vote_request s q = Done (c, s') ->
  tvle s s' /\ (st_role s' = st_role s \/ st_role s' = Follower) /\
  (c = success -> tv s' = (vq_term q, vq_src q)).
Proof.
  unfold on_vote_request. intros H.
  destruct (_ && _ && _).
  { inversion H; subst. split; [apply tvle_refl|]. split; [auto | discriminate]. }
  destruct (vq_term q <? st_term s) eqn:E0.
  { inversion H; subst. split; [apply tvle_refl|]. split; [auto | discriminate]. }
  apply N.ltb_ge in E0.
  destruct (st_term s <? vq_term q) eqn:E1.
  - apply N.ltb_lt in E1. change (negb (0 =? 0)) with false in H. cbv iota in H.
    destruct (log_more_uptodate _ _).
    + apply obind_inv in H. destruct H as (s2 & H & H2). inversion H2; subst.
      pose proof (set_voted_for_role _ _ _ _ H) as R. apply set_voted_for_spec in H. destruct H as [H _].
      split; [tv_done|]. split; [right; exact R | discriminate].
    + apply obind_inv in H. destruct H as (s2 & H & H2). inversion H2; subst.
      pose proof (set_voted_for_role _ _ _ _ H) as R. apply set_voted_for_spec in H. destruct H as [H _].
      split; [tv_done|]. split; [right; exact R | intros _; exact H].
  - apply N.ltb_ge in E1. assert (ET : vq_term q = st_term s) by lia.
    destruct (st_voted s =? 0) eqn:E2; cbn [negb] in H; cbv iota in H.
    + apply N.eqb_eq in E2.
      destruct (log_more_uptodate _ _).
      * apply obind_inv in H. destruct H as (s2 & H & H2). inversion H2; subst.
        pose proof (set_voted_for_role _ _ _ _ H) as R. apply set_voted_for_spec in H. destruct H as [H _].
        split; [tv_done|]. split; [left; exact R | discriminate].
      * apply obind_inv in H. destruct H as (s2 & H & H2). inversion H2; subst.
        pose proof (set_voted_for_role _ _ _ _ H) as R. apply set_voted_for_spec in H. destruct H as [H _].
        split; [tv_done|]. split; [left; exact R | intros _; rewrite H, ET; reflexivity].
    + apply N.eqb_neq in E2.
      apply obind_inv in H. destruct H as (s2 & H & H2). inversion H2; subst.
      pose proof (set_voted_for_role _ _ _ _ H) as R. apply set_voted_for_spec in H. destruct H as [H _].
      split; [tv_done|]. split; [left; exact R |].
      destruct (st_voted s =? vq_src q) eqn:E3; [|discriminate].
      apply N.eqb_eq in E3. intros _. rewrite H, ET, E3. reflexivity.
Qed.

(* ---------------------------------------------------------------- leader *)
Lemma tv_notify_flr s b s' : notify_flr s b = Done s' -> tv s' = tv s.
Proof. unfold notify_flr. intros H. go; reflexivity. Qed.

Lemma tv_add_replication s n s' : add_replication s n = Done s' -> tv s' = tv s.
Proof. unfold add_replication. intros H. go; reflexivity. Qed.

Lemma tv_add_replications ns : forall s s', add_replications s ns = Done s' -> tv s' = tv s.
Proof.
  induction ns as [|n r IH]; intros s s' H; cbn [add_replications] in H.
  - inversion H; reflexivity.
  - destruct (n_id n =? st_nid s); [eauto|].
    apply obind_inv in H. destruct H as (s1 & H1 & H2).
    apply tv_add_replication in H1. apply IH in H2. congruence.
Qed.

Lemma tv_apply_queue q : forall s out r, apply_queue s q out = Done r -> tv (fst r) = tv s.
Proof.
  induction q as [|ne r IH]; intros s out res H; cbn [apply_queue] in H.
  - inversion H; reflexivity.
  - destruct (negb _); [discriminate|]. apply IH in H. rewrite H. tv_norm. reflexivity.
Qed.

Lemma tv_leader_apply_committed s w : leader_apply_committed s = Done w -> tv (fst w) = tv s.
Proof.
  unfold leader_apply_committed. intros H.
  repeat (first [ match goal with H : apply_queue _ _ _ = Done _ |- _ => apply tv_apply_queue in H end | inv1 ]);
  tv_norm; congruence.
Qed.

Ltac use_l :=
  match goal with
  | H : notify_flr _ _ = Done _ |- _ => apply tv_notify_flr in H
  | H : add_replication _ _ = Done _ |- _ => apply tv_add_replication in H
  | H : add_replications _ _ = Done _ |- _ => apply tv_add_replications in H
  | H : leader_apply_committed _ = Done _ |- _ => apply tv_leader_apply_committed in H
  end.

Definition core_ok (opt : options) (f : nat) : Prop :=
  (forall s nes w, store_entry opt f s nes = Done w -> tv (fst w) = tv s) /\
  (forall s c w, leader_change_config opt f s c = Done w -> tv (fst w) = tv s) /\
  (forall s tid c w, check_config_actions opt f s tid c = Done w -> tv (fst w) = tv s) /\
  (forall s tid c id w, check_config_action opt f s tid c id = Done w -> tv (fst w) = tv s) /\
  (forall s tid c w, do_change_config opt f s tid c = Done w -> tv (fst w) = tv s) /\
  (forall s w, on_majority_commit opt f s = Done w -> tv (fst w) = tv s) /\
  (forall s i w, leader_set_commit_index opt f s i = Done w -> tv (fst w) = tv s).

Ltac refold opt H :=
  fold (store_entry opt) in H; fold (leader_change_config opt) in H;
  fold (check_config_actions opt) in H; fold (check_config_action opt) in H;
  fold (do_change_config opt) in H; fold (on_majority_commit opt) in H;
  fold (leader_set_commit_index opt) in H.

Lemma core_tv opt f : core_ok opt f.
Proof.
  induction f as [|f IH].
  { unfold core_ok; repeat split; intros; discriminate. }
  destruct IH as (I1 & I2 & I3 & I4 & I5 & I6 & I7).
  unfold core_ok; repeat split.
  - (* store_entry *)
    intros s nes w H. cbn [store_entry] in H. refold opt H.
    match type of H with wbind (?L s nes) _ = _ => set (loop := L) in H end.
    assert (HL : forall nes s w, loop s nes = Done w -> tv (fst w) = tv s).
    { clear H. induction nes0 as [|ne rest IHl]; intros s0 w0 H; cbn in H.
      - inversion H; reflexivity.
      - fold loop in H.
        repeat (first [ use_h | use_l
                      | match goal with
                        | H : loop _ _ = Done _ |- _ => apply IHl in H
                        | H : leader_change_config opt f _ _ = Done _ |- _ => apply I2 in H
                        end
                      | inv1 ]); tv_norm; congruence. }
    repeat (first [ use_h | use_l
                  | match goal with
                    | H : loop _ _ = Done _ |- _ => apply HL in H
                    | H : on_majority_commit opt f _ = Done _ |- _ => apply I6 in H
                    end
                  | inv1 ]); tv_norm; congruence.
  - (* leader_change_config *)
    intros s c w H. cbn [leader_change_config] in H. refold opt H.
    apply obind_inv in H. destruct H as (l & Hl & H).
    apply obind_inv in H. destruct H as (s3 & H3 & H).
    apply I3 in H. rewrite H. clear H.
    match type of H3 with fold_left ?F _ (Done ?S2) = _ =>
      assert (HF : forall x, fold_left F (c_nodes c) (Done S2) = Done x -> tv x = tv S2) end.
    { apply fold_left_inv.
      - intros x Hx; inversion Hx; reflexivity.
      - intros acc n Hacc x Hx. go; try use_l; try subst acc; try (specialize (Hacc _ eq_refl)); tv_norm; congruence. }
    apply HF in H3. rewrite H3. tv_norm. reflexivity.
  - (* check_config_actions *)
    intros s tid c w H. cbn [check_config_actions] in H. refold opt H.
    apply obind_inv in H. destruct H as (l & Hl & H).
    apply obind_inv in H. destruct H as (r & Hr & H).
    destruct r as [[s1 out1] c1].
    assert (H1 : tv s1 = tv s).
    { repeat (first [ match goal with H : do_change_config opt f _ _ _ = Done _ |- _ => apply I5 in H end | inv1 ]);
        tv_norm; congruence. }
    clear Hr. apply obind_inv in H. destruct H as (l1 & Hl1 & H).
    revert w H. apply fold_left_inv.
    + intros w Hw; inversion Hw; subst. exact H1.
    + intros acc id Hacc w Hw.
      repeat (first [ match goal with H : check_config_action opt f _ _ _ _ = Done _ |- _ => apply I4 in H end | inv1 ]);
        try subst acc; try (specialize (Hacc _ eq_refl)); tv_norm; congruence.
  - (* check_config_action *)
    intros s tid c id w H. cbn [check_config_action] in H. refold opt H.
    repeat (first [ match goal with H : do_change_config opt f _ _ _ = Done _ |- _ => apply I5 in H end | inv1 ]);
      tv_norm; congruence.
  - (* do_change_config *)
    intros s tid c w H. cbn [do_change_config] in H. refold opt H. apply I1 in H. exact H.
  - (* on_majority_commit *)
    intros s w H. cbn [on_majority_commit] in H. refold opt H.
    repeat (first [ use_l | match goal with H : leader_set_commit_index opt f _ _ = Done _ |- _ => apply I7 in H end | inv1 ]);
      tv_norm; congruence.
  - (* leader_set_commit_index *)
    intros s i w H. cbn [leader_set_commit_index] in H. refold opt H.
    pose proof (tv_raft_set_commit_index (o_shutdown_on_remove opt) (commit_log s i) i) as R.
    destruct (raft_set_commit_index _ _ _) as [s2 committed]. cbn [fst] in R.
    repeat (first [ match goal with H : check_config_actions opt f _ _ _ = Done _ |- _ => apply I3 in H end | inv1 ]);
      tv_norm;
      try (match goal with E : fst ?w = _ |- tv (fst ?w) = _ => rewrite E end; tv_norm);
      congruence.
Qed.

Lemma tv_store_entry opt f s nes w : store_entry opt f s nes = Done w -> tv (fst w) = tv s.
Proof. apply (core_tv opt f). Qed.
Lemma tv_check_config_actions opt f s tid c w : check_config_actions opt f s tid c = Done w -> tv (fst w) = tv s.
Proof. apply (core_tv opt f). Qed.
Lemma tv_check_config_action opt f s tid c id w : check_config_action opt f s tid c id = Done w -> tv (fst w) = tv s.
Proof. apply (core_tv opt f). Qed.
Lemma tv_do_change_config opt f s tid c w : do_change_config opt f s tid c = Done w -> tv (fst w) = tv s.
Proof. apply (core_tv opt f). Qed.
Lemma tv_on_majority_commit opt f s w : on_majority_commit opt f s = Done w -> tv (fst w) = tv s.
Proof. apply (core_tv opt f). Qed.

Ltac use_c :=
  match goal with
  | H : store_entry _ _ _ _ = Done _ |- _ => apply tv_store_entry in H
  | H : check_config_actions _ _ _ _ _ = Done _ |- _ => apply tv_check_config_actions in H
  | H : check_config_action _ _ _ _ _ _ = Done _ |- _ => apply tv_check_config_action in H
  | H : do_change_config _ _ _ _ _ = Done _ |- _ => apply tv_do_change_config in H
  | H : on_majority_commit _ _ _ = Done _ |- _ => apply tv_on_majority_commit in H
  end.

Ltac gol := repeat (first [use_h | use_h2 | use_l | use_c | inv1]).

Lemma tv_leader_init opt s s' : leader_init opt s = Done s' -> tv s' = tv s.
Proof. unfold leader_init. intros H. gol. tv_norm. congruence. Qed.

Lemma tv_leader_release_out s : tv (fst (leader_release_out s)) = tv s.
Proof.
  unfold leader_release_out. destruct (st_ldr s); [|reflexivity].
  cbn [fst]. tv_norm. reflexivity.
Qed.

Lemma tv_check_quorum opt s b s' : check_quorum opt s b = Done s' -> tv s' = tv s.
Proof.
  unfold check_quorum. intros H.
  apply obind_inv in H. destruct H as (l & _ & H).
  apply obind_inv in H. destruct H as (r & _ & H).
  destruct r as [voters reachable].
  repeat inv1; tv_norm; reflexivity.
Qed.

Lemma tv_try_transfer opt s w : try_transfer opt s = Done w -> tv (fst w) = tv s.
Proof.
  unfold try_transfer. intros H.
  apply obind_inv in H. destruct H as (l & _ & H).
  apply obind_inv in H. destruct H as (r & _ & H).
  repeat inv1; tv_norm; reflexivity.
Qed.

Lemma tv_transfer_reply s r w : transfer_reply s r = Done w -> tv (fst w) = tv s.
Proof. unfold transfer_reply. intros H. gol; tv_norm; reflexivity. Qed.

Ltac use_t :=
  match goal with
  | H : try_transfer _ _ = Done _ |- _ => apply tv_try_transfer in H
  | H : transfer_reply _ _ = Done _ |- _ => apply tv_transfer_reply in H
  | H : check_quorum _ _ _ = Done _ |- _ => apply tv_check_quorum in H
  end.
Ltac golt := repeat (first [use_h | use_h2 | use_l | use_c | use_t | inv1]).

Lemma tv_reply_transfer opt s r w : reply_transfer opt s r = Done w -> tv (fst w) = tv s.
Proof. unfold reply_transfer. intros H. golt; tv_norm; congruence. Qed.

Lemma tv_on_transfer opt s tid tg w : on_transfer opt s tid tg = Done w -> tv (fst w) = tv s.
Proof. unfold on_transfer. intros H. golt; tv_norm; congruence. Qed.

Lemma tv_on_timeout_now_result opt s from err res w :
  on_timeout_now_result opt s from err res = Done w -> tv (fst w) = tv s.
Proof.
  unfold on_timeout_now_result. intros H.
  repeat (first [ match goal with H : reply_transfer _ _ _ = Done _ |- _ => apply tv_reply_transfer in H end | use_t | inv1 ]);
  tv_norm; congruence.
Qed.

Lemma tv_on_change_config opt s tid c w : on_change_config opt s tid c = Done w -> tv (fst w) = tv s.
Proof. unfold on_change_config. intros H. golt; tv_norm; congruence. Qed.

Lemma tv_on_wait_stable s tid w : on_wait_stable s tid = Done w -> tv (fst w) = tv s.
Proof. unfold on_wait_stable. intros H. golt; tv_norm; congruence. Qed.

Lemma tv_check_log_compact opt s s' : check_log_compact opt s = Done s' -> tv s' = tv s.
Proof. unfold check_log_compact. intros H. golt; tv_norm; congruence. Qed.

Lemma tvle_check_repl_update opt s id u w : check_repl_update opt s id u = Done w -> tvle s (fst w).
Proof.
  unfold check_repl_update. intros H.
  repeat (first [ match goal with H : check_log_compact _ _ = Done _ |- _ => apply tv_check_log_compact in H end
                | use_h | use_c | use_t | inv1 ]);
  tv_done.
Qed.

Lemma tv_flr_update s id w : flr_update s id = Done w -> tv (fst w) = tv s.
Proof. unfold flr_update. intros H. golt; tv_norm; congruence. Qed.
Lemma tv_flr_send s id b w : flr_send s id b = Done w -> tv (fst w) = tv s.
Proof. unfold flr_send. intros H.
  apply obind_inv in H. destruct H as (l & _ & H).
  destruct (find_repl _ _); [|discriminate].
  destruct (_ =? nil_view); [discriminate|].
  apply obind_inv in H. destruct H as (p & _ & H).
  repeat inv1; tv_norm; congruence. Qed.
Lemma tv_flr_resp s id a b c d w : flr_resp s id a b c d = Done w -> tv (fst w) = tv s.
Proof. unfold flr_resp. intros H. golt; tv_norm; congruence. Qed.
Lemma tv_flr_snap_installed s id i w : flr_snap_installed s id i = Done w -> tv (fst w) = tv s.
Proof. unfold flr_snap_installed. intros H. golt; tv_norm; congruence. Qed.

Lemma tvle_leader_event_out opt s e w : leader_event_out opt s e = Done w -> tvle s (fst w).
Proof.
  destruct e; cbn [leader_event_out]; intros H.
  - apply tv_store_entry in H. tv_done.
  - apply tvle_check_repl_update in H. exact H.
  - apply tv_on_change_config in H. tv_done.
  - apply tv_on_wait_stable in H. tv_done.
  - apply tv_on_transfer in H. tv_done.
  - apply tv_on_timeout_now_result in H. tv_done.
  - apply tv_reply_transfer in H. tv_done.
  - apply tv_try_transfer in H. tv_done.
  - apply tv_flr_update in H. tv_done.
  - apply tv_flr_send in H. tv_done.
  - apply tv_flr_resp in H. tv_done.
  - apply tv_flr_snap_installed in H. tv_done.
Qed.

(* ---------------------------------------------------------------- snapshots, tasks, the step *)
Lemma tv_on_take_snapshot s tid th w : on_take_snapshot s tid th = Done w -> tv (fst w) = tv s.
Proof. unfold on_take_snapshot. intros H. golt; tv_norm; reflexivity. Qed.

Lemma tv_snapshot_run s s' : snapshot_run s = Done s' -> tv s' = tv s.
Proof. unfold snapshot_run. intros H. golt; tv_norm; reflexivity. Qed.

Lemma tv_on_snapshot_taken opt s w : on_snapshot_taken opt s = Done w -> tv (fst w) = tv s.
Proof. unfold on_snapshot_taken. intros H. golt; tv_norm; try congruence; reflexivity. Qed.

Lemma tvle_bootstrap s tid c w : bootstrap s tid c = Done w -> tvle s (fst w).
Proof. unfold bootstrap. intros H. golt; tv_done. Qed.

Lemma tvle_node_task s t w : node_task s t = Done w -> tvle s (fst w).
Proof.
  destruct t; cbn [node_task]; intros H.
  - unfold nonleader_client in H. inversion H; subst. tv_done.
  - apply tvle_bootstrap in H. exact H.
  - unfold wreply in H. inversion H; subst. tv_done.
  - unfold wreply in H. inversion H; subst. tv_done.
  - apply tv_on_take_snapshot in H. tv_done.
  - unfold wret in H. inversion H; subst. tv_done.
Qed.

Lemma tv_release_role opt old s : tv (fst (release_role opt old s)) = tv s.
Proof.
  unfold release_role. destruct (old =? Candidate); [reflexivity|].
  destruct (old =? Leader); [apply tv_leader_release_out | reflexivity].
Qed.

Lemma role_release_role opt old s : st_role (fst (release_role opt old s)) = st_role s.
Proof.
  unfold release_role. destruct (old =? Candidate); [reflexivity|].
  destruct (old =? Leader); [|reflexivity].
  unfold leader_release_out. destruct (st_ldr s); [|reflexivity]. cbn [fst].
  destruct (st_leader s =? st_nid s); reflexivity.
Qed.

Lemma tvle_init_role opt s s' : init_role opt s = Done s' -> tvle s s'.
Proof.
  unfold init_role. intros H.
  destruct (st_role s =? Follower). { inversion H; subst. tv_done. }
  destruct (st_role s =? Candidate). { apply tvle_start_election; assumption. }
  apply tv_leader_init in H. tv_done.
Qed.

Lemma tvle_transition fuel : forall opt old s w, transition fuel opt old s = Done w -> tvle s (fst w).
Proof.
  induction fuel as [|f IH]; intros opt old s w H; cbn [transition] in H.
  - destruct (st_closed s). { inversion H; subst. apply tvle_same, tv_release_role. }
    destruct (st_role s =? old); [|discriminate]. inversion H; subst. apply tvle_refl.
  - destruct (st_closed s). { inversion H; subst. apply tvle_same, tv_release_role. }
    destruct (st_role s =? old). { inversion H; subst. apply tvle_refl. }
    pose proof (tv_release_role opt old (set_timer s false)) as R.
    destruct (release_role opt old (set_timer s false)) as [s1 out]. cbn [fst] in R.
    apply obind_inv in H. destruct H as (s2 & H2 & H).
    apply wbind_inv in H. destruct H as (s2' & o1 & w2 & HE & H & E).
    inversion HE; subst. apply IH in H. apply tvle_init_role in H2.
    rewrite E. apply tvle_trans with s2'; [|exact H].
    tv_done.
Qed.

(* a node that is (or becomes) follower goes through no election in the role change *)
Lemma tv_transition_follower fuel : forall opt old s w,
  st_role s = Follower -> transition fuel opt old s = Done w -> tv (fst w) = tv s.
Proof.
  induction fuel as [|f IH]; intros opt old s w HR H; cbn [transition] in H.
  - destruct (st_closed s). { inversion H; subst. apply tv_release_role. }
    destruct (st_role s =? old); [|discriminate]. inversion H; subst. reflexivity.
  - destruct (st_closed s). { inversion H; subst. apply tv_release_role. }
    destruct (st_role s =? old). { inversion H; subst. reflexivity. }
    pose proof (tv_release_role opt old (set_timer s false)) as R.
    pose proof (role_release_role opt old (set_timer s false)) as RR.
    destruct (release_role opt old (set_timer s false)) as [s1 out]. cbn [fst] in R, RR.
    change (st_role (set_timer s false)) with (st_role s) in RR. rewrite HR in RR.
    apply obind_inv in H. destruct H as (s2 & H2 & H).
    apply wbind_inv in H. destruct H as (s2' & o1 & w2 & HE & H & E).
    inversion HE; subst.
    unfold init_role in H2. rewrite RR in H2. cbn in H2. inversion H2; subst.
    apply IH in H; [|exact RR]. rewrite E, H. tv_norm. exact R.
Qed.

Lemma tv_transition_same fuel opt old s w :
  st_role s = old -> transition fuel opt old s = Done w -> tv (fst w) = tv s.
Proof.
  intros HR H. destruct fuel; cbn [transition] in H.
  - destruct (st_closed s). { inversion H; subst. apply tv_release_role. }
    rewrite HR, N.eqb_refl in H. inversion H; reflexivity.
  - destruct (st_closed s). { inversion H; subst. apply tv_release_role. }
    rewrite HR, N.eqb_refl in H. inversion H; reflexivity.
Qed.

Lemma finish_inv opt old code t last w o s' :
  finish opt old code t last w = Done (o, s') ->
  exists out2, transition 4 opt old (fst w) = Done (s', out2) /\
               ob_result o = code /\ ob_respterm o = t.
Proof.
  unfold finish. destruct w as [s1 out1]. intros H.
  apply obind_inv in H. destruct H as ([s2 out2] & H1 & H). inversion H; subst.
  exists out2. cbn. auto.
Qed.

Lemma tvle_finish opt old code t last w o s' :
  finish opt old code t last w = Done (o, s') -> tvle (fst w) s'.
Proof.
  intros H. apply finish_inv in H. destruct H as (out2 & H & _).
  apply tvle_transition in H. exact H.
Qed.

Lemma model_event_mid opt s ev o s' :
  model_event opt s ev = Done (o, s') ->
  exists sm, tvle s sm /\ tvle sm s' /\ (ob_result o <> 0 -> ob_respterm o = st_term sm).
Proof.
  destruct ev; cbn [model_event]; intros H.
  - (* vote request *)
    apply obind_inv in H. destruct H as ([code s1] & H1 & H).
    apply on_vote_request_spec in H1. destruct H1 as (L & _ & _).
    pose proof (finish_inv _ _ _ _ _ _ _ _ H) as (out2 & _ & _ & T).
    apply tvle_finish in H. cbn [fst] in H.
    exists s1. split; [exact L|]. split; [|intros _; exact T].
    eapply tvle_same_l; [|exact H]. tv_norm. reflexivity.
  - (* append request *)
    apply obind_inv in H. destruct H as ([code s1] & H1 & H).
    apply tvle_on_append_request in H1.
    destruct (code =? unexpectedErr); [discriminate|].
    pose proof (finish_inv _ _ _ _ _ _ _ _ H) as (out2 & _ & _ & T).
    apply tvle_finish in H. cbn [fst] in H.
    exists s1. split; [exact H1|]. split; [|intros _; exact T].
    eapply tvle_same_l; [|exact H]. tv_norm. reflexivity.
  - (* append request cut short by the connection *)
    apply obind_inv in H. destruct H as ([code s1] & H1 & H).
    apply tvle_on_append_request in H1.
    destruct (code =? unexpectedErr); [discriminate|].
    pose proof (finish_inv _ _ _ _ _ _ _ _ H) as (out2 & _ & _ & T).
    apply tvle_finish in H. cbn [fst] in H.
    exists s1. split; [exact H1|]. split; [|intros _; exact T].
    eapply tvle_same_l; [|exact H]. tv_norm. reflexivity.
  - (* install snapshot *)
    apply obind_inv in H. destruct H as ([code s1] & H1 & H).
    apply tvle_on_install_snap_request in H1.
    pose proof (finish_inv _ _ _ _ _ _ _ _ H) as (out2 & _ & _ & T).
    apply tvle_finish in H. cbn [fst] in H.
    exists s1. split; [exact H1|]. split; [|intros _; exact T].
    eapply tvle_same_l; [|exact H]. tv_norm. reflexivity.
  - (* timeout now *)
    pose proof (tv_on_timeout_now_request s) as R.
    destruct (on_timeout_now_request s) as [code s1]. cbn [snd] in R.
    pose proof (finish_inv _ _ _ _ _ _ _ _ H) as (out2 & _ & _ & T).
    apply tvle_finish in H. cbn [fst] in H.
    exists s1. split; [apply tvle_same; exact R|]. split; [|intros _; exact T].
    eapply tvle_same_l; [|exact H]. tv_norm. reflexivity.
  - (* timeout *)
    apply obind_inv in H. destruct H as (s1 & H1 & H).
    pose proof (finish_inv _ _ _ _ _ _ _ _ H) as (out2 & _ & C & _).
    apply tvle_finish in H. cbn [fst] in H.
    exists s1. split; [|split; [exact H | intros X; congruence]].
    destruct (st_role s =? Follower). { inversion H1; subst. tv_done. }
    destruct (st_role s =? Candidate). { apply tvle_start_election in H1. tv_done. }
    unfold leader_on_timeout in H1. apply tv_check_quorum in H1. tv_done.
  - (* vote result *)
    destruct (st_role s =? Candidate).
    + apply obind_inv in H. destruct H as (s1 & H1 & H).
      pose proof (finish_inv _ _ _ _ _ _ _ _ H) as (out2 & _ & C & _).
      apply tvle_finish in H. cbn [fst] in H. apply tvle_on_vote_result in H1.
      exists s1. split; [exact H1|]. split; [exact H | intros X; congruence].
    + inversion H; subst. exists s'. split; [apply tvle_refl|]. split; [apply tvle_refl|]. intros X; exfalso; apply X; reflexivity.
  - (* disconnected *)
    inversion H; subst. exists s. split; [apply tvle_refl|]. split; [tv_done|]. intros X; exfalso; apply X; reflexivity.
  - (* restart *)
    apply obind_inv in H. destruct H as (s1 & H1 & H). inversion H; subst.
    apply tv_restart in H1.
    exists s. split; [apply tvle_refl|]. split; [tv_done|]. intros X; exfalso; apply X; reflexivity.
  - (* leader event *)
    destruct (st_role s =? Leader).
    + apply obind_inv in H. destruct H as (w & H1 & H).
      pose proof (finish_inv _ _ _ _ _ _ _ _ H) as (out2 & _ & C & _).
      apply tvle_finish in H. apply tvle_leader_event_out in H1.
      exists (fst w). split; [exact H1|]. split; [exact H | intros X; congruence].
    + inversion H; subst. exists s'. split; [apply tvle_refl|]. split; [apply tvle_refl|]. intros X; exfalso; apply X; reflexivity.
  - (* task *)
    apply obind_inv in H. destruct H as ([s1 out] & H1 & H).
    pose proof (finish_inv _ _ _ _ _ _ _ _ H) as (out2 & _ & C & _).
    apply tvle_finish in H. cbn [fst] in H. apply tvle_node_task in H1. cbn [fst] in H1.
    exists s1. split; [exact H1|]. split; [|intros X; congruence].
    eapply tvle_same_l; [|exact H]. tv_norm. reflexivity.
  - (* snapshot goroutine *)
    apply obind_inv in H. destruct H as (s1 & H1 & H). inversion H; subst.
    apply tv_snapshot_run in H1.
    exists s. split; [apply tvle_refl|]. split; [tv_done|]. intros X; exfalso; apply X; reflexivity.
  - (* snapshot taken *)
    apply obind_inv in H. destruct H as (w & H1 & H).
    pose proof (finish_inv _ _ _ _ _ _ _ _ H) as (out2 & _ & C & _).
    apply tvle_finish in H. apply tv_on_snapshot_taken in H1.
    exists (fst w). split; [tv_done|]. split; [exact H | intros X; congruence].
Qed.
