(* C19: the remaining leader-side events, leader.init, release, onSnapshotTaken preserve [core] and [ldr_ok]. *)
From Coq Require Import List NArith ZArith Bool Lia ZifyN ZifyNat ZifyBool.
From RecordUpdate Require Import RecordUpdate.
From Verif Require Import Base.Bytes Codec.Messages Node.Types Node.Handlers Node.Leader Node.Snap Node.Step Node.Run
  Node.InfoInvDefs Node.InfoInvPrims Node.InfoInvFollower Node.InfoInvLeader.
Import ListNotations.
Open Scope N_scope.

(* ---------------------------------------------------------------- the mutual block, one lemma per function *)
Lemma store_entry_G opt f s nes w s0 : store_entry opt f s nes = Done w -> G s0 s -> G s0 (fst w).
Proof. destruct (core_G opt f) as (I1 & _). apply I1. Qed.
Lemma check_config_actions_G opt f s tid c w s0 : check_config_actions opt f s tid c = Done w -> G s0 s -> G s0 (fst w).
Proof. destruct (core_G opt f) as (_ & _ & I3 & _). apply I3. Qed.
Lemma check_config_action_G opt f s tid c id w s0 : check_config_action opt f s tid c id = Done w -> G s0 s -> G s0 (fst w).
Proof. destruct (core_G opt f) as (_ & _ & _ & I4 & _). apply I4. Qed.
Lemma do_change_config_G opt f s tid c w s0 : do_change_config opt f s tid c = Done w -> G s0 s -> G s0 (fst w).
Proof. destruct (core_G opt f) as (_ & _ & _ & _ & I5 & _). apply I5. Qed.
Lemma on_majority_commit_G opt f s w s0 : on_majority_commit opt f s = Done w -> G s0 s -> G s0 (fst w).
Proof. destruct (core_G opt f) as (_ & _ & _ & _ & _ & I6 & _). apply I6. Qed.

(* ---------------------------------------------------------------- a leader record written from scratch *)
Lemma G_put_new s0 s l' : core s -> mono s0 s -> ld_removelte l' <= st_snapidx s ->
  Forall (fun r => rp_match r <= st_lastidx s) (ld_repls l') -> G s0 (put_ldr s l').
Proof.
  intros C M A B. split; [eapply core_ext; [|exact C]; reflexivity|].
  split; [unfold ldr_ok; cbn; auto|]. eapply mono_ext_r; [|exact M]. reflexivity.
Qed.

Lemma wret_G s0 s w : G s0 s -> wret s = Done w -> G s0 (fst w).
Proof. intros HG H. unfold wret in H. inversion H; subst. exact HG. Qed.
Lemma wreply_G s0 s t r w : G s0 s -> wreply s t r = Done w -> G s0 (fst w).
Proof. intros HG H. unfold wreply in H. inversion H; subst. exact HG. Qed.
Lemma wmsg_G s0 s m w : G s0 s -> wmsg s m = Done w -> G s0 (fst w).
Proof. intros HG H. unfold wmsg in H. inversion H; subst. exact HG. Qed.

(* ---------------------------------------------------------------- transfer *)
Lemma try_transfer_G opt s0 s w : G s0 s -> try_transfer opt s = Done w -> G s0 (fst w).
Proof.
  intros HG H. unfold try_transfer in H.
  apply obind_inv in H. destruct H as (l & HL & H). apply get_ldr_inv in HL.
  apply obind_inv in H. destruct H as (target & _ & H).
  destruct (target =? 0).
  - eapply wret_G; eassumption.
  - eapply wmsg_G; [|exact H]. eapply G_put_ldr; [exact HG|exact HL|]. apply lsame_eq; reflexivity.
Qed.

Lemma transfer_reply_G s0 s r w : G s0 s -> transfer_reply s r = Done w -> G s0 (fst w).
Proof.
  intros HG H. unfold transfer_reply in H.
  apply obind_inv in H. destruct H as (l & HL & H). apply get_ldr_inv in HL.
  eapply wreply_G; [|exact H]. eapply G_put_ldr; [exact HG|exact HL|]. apply lsame_eq; reflexivity.
Qed.

Lemma reply_transfer_G opt s0 s r w : G s0 s -> reply_transfer opt s r = Done w -> G s0 (fst w).
Proof.
  intros HG H. unfold reply_transfer in H.
  apply wbind_inv in H. destruct H as (s1 & o1 & w2 & H1 & H2 & E). rewrite E.
  pose proof (transfer_reply_G _ _ _ _ HG H1) as G1. cbn [fst] in G1.
  eapply check_config_actions_G; eassumption.
Qed.

Lemma on_transfer_G opt s0 s tid tg w : G s0 s -> on_transfer opt s tid tg = Done w -> G s0 (fst w).
Proof.
  intros HG H. unfold on_transfer in H.
  apply obind_inv in H. destruct H as (l & HL & H). apply get_ldr_inv in HL.
  destruct (transfer_in_progress l). { eapply wreply_G; eassumption. }
  destruct (num_voters _ =? 1). { eapply wreply_G; eassumption. }
  cbv zeta in H.
  match type of H with match ?b with _ => _ end = _ => destruct b end. { eapply wreply_G; eassumption. }
  eapply try_transfer_G; [|exact H].
  eapply G_put_ldr; [exact HG|exact HL|]. apply lsame_eq; reflexivity.
Qed.

Lemma on_timeout_now_result_G opt s0 s from err res w :
  G s0 s -> on_timeout_now_result opt s from err res = Done w -> G s0 (fst w).
Proof.
  intros HG H. unfold on_timeout_now_result in H.
  apply obind_inv in H. destruct H as (l & HL & H). apply get_ldr_inv in HL.
  cbv zeta in H.
  assert (G1 : G s0 (put_ldr s (l <| ld_tr_resp := false |>))).
  { eapply G_put_ldr; [exact HG|exact HL|]. apply lsame_eq; reflexivity. }
  set (s1 := put_ldr s (l <| ld_tr_resp := false |>)) in *. clearbody s1.
  destruct err.
  - destruct (find_repl from (ld_repls l)); [|discriminate].
    assert (G2 : G s0 (upd_repl s1 from (fun r => r <| rp_nocontact := true |>)))
      by (apply G_upd_repl; [assumption|reflexivity]).
    destruct (ld_tr_target l =? 0); [eapply try_transfer_G; eassumption|eapply wret_G; eassumption].
  - destruct (negb (res =? success)).
    + destruct (ld_tr_target l =? 0); [eapply reply_transfer_G; eassumption|eapply try_transfer_G; eassumption].
    + eapply wret_G; [|exact H]. apply G_upd_ldr; [assumption|]. intros l'. apply lsame_eq; reflexivity.
Qed.

(* ---------------------------------------------------------------- configuration tasks *)
Lemma on_change_config_G opt s0 s tid c w : G s0 s -> on_change_config opt s tid c = Done w -> G s0 (fst w).
Proof.
  intros HG H. unfold on_change_config in H.
  apply obind_inv in H. destruct H as (l & HL & H).
  repeat match type of H with
         | (if ?b then wreply _ _ _ else _) = _ => destruct b; [eapply wreply_G; eassumption|]
         end.
  apply wbind_inv in H. destruct H as (s1 & o1 & w2 & H1 & H2 & E). rewrite E.
  pose proof (check_config_actions_G _ _ _ _ _ _ _ H1 HG) as G1. cbn [fst] in G1.
  destruct (_ =? _); [eapply do_change_config_G; eassumption|eapply wret_G; eassumption].
Qed.

Lemma on_wait_stable_G s0 s tid w : G s0 s -> on_wait_stable s tid = Done w -> G s0 (fst w).
Proof.
  intros HG H. unfold on_wait_stable in H.
  apply obind_inv in H. destruct H as (l & HL & H). apply get_ldr_inv in HL.
  destruct (_ && _); [eapply wreply_G; eassumption|].
  eapply wret_G; [|exact H]. eapply G_put_ldr; [exact HG|exact HL|]. apply lsame_eq; reflexivity.
Qed.

(* ---------------------------------------------------------------- the replication goroutines' bookkeeping *)
Lemma flr_update_G s0 s id w : G s0 s -> flr_update s id = Done w -> G s0 (fst w).
Proof.
  intros HG H. unfold flr_update in H.
  apply obind_inv in H. destruct H as (l & HL & H).
  destruct (find_repl id (ld_repls l)) as [rp|]; [|discriminate].
  destruct (rp_pending rp) as [u|]; [|eapply wret_G; eassumption].
  destruct (_ || _); [discriminate|].
  cbv zeta in H.
  match type of H with context [upd_repl s id ?F] =>
    assert (G1 : G s0 (upd_repl s id F)) by (apply G_upd_repl; [assumption|reflexivity]) end.
  destruct (_ <? _); [eapply wmsg_G; eassumption|eapply wret_G; eassumption].
Qed.

Lemma flr_send_G s0 s id b w : G s0 s -> flr_send s id b = Done w -> G s0 (fst w).
Proof.
  intros HG H. unfold flr_send in H.
  apply obind_inv in H. destruct H as (l & HL & H).
  destruct (find_repl id (ld_repls l)) as [rp|]; [|discriminate].
  destruct (_ =? nil_view); [discriminate|].
  apply obind_inv in H. destruct H as (p & _ & H).
  destruct p as [pt|]; [|eapply wmsg_G; eassumption].
  destruct (_ && _); [eapply wmsg_G; eassumption|].
  destruct (negb _); [discriminate|].
  eapply wmsg_G; [|exact H]. apply G_upd_repl; [assumption|reflexivity].
Qed.

Lemma flr_resp_G s0 s id a b c d w : G s0 s -> flr_resp s id a b c d = Done w -> G s0 (fst w).
Proof.
  intros HG H. unfold flr_resp in H.
  apply obind_inv in H. destruct H as (l & HL & H).
  destruct (find_repl id (ld_repls l)) as [rp|]; [|discriminate].
  destruct (a =? staleTerm); [eapply wmsg_G; eassumption|].
  destruct (a =? success).
  { destruct (_ <? _); [|eapply wret_G; eassumption].
    eapply wmsg_G; [|exact H]. apply G_upd_repl; [assumption|reflexivity]. }
  destruct (_ || _).
  { destruct (_ <? _); [eapply wret_G; eassumption|].
    eapply wret_G; [|exact H]. apply G_upd_repl; [assumption|reflexivity]. }
  destruct (a =? unexpectedErr); [eapply wret_G; eassumption|discriminate].
Qed.

Lemma flr_snap_installed_G s0 s id i w : G s0 s -> flr_snap_installed s id i = Done w -> G s0 (fst w).
Proof.
  intros HG H. unfold flr_snap_installed in H.
  apply obind_inv in H. destruct H as (l & HL & H).
  destruct (find_repl id (ld_repls l)) as [rp|]; [|discriminate].
  destruct (_ <? _); [discriminate|].
  eapply wmsg_G; [|exact H]. apply G_upd_repl; [assumption|reflexivity].
Qed.

(* ---------------------------------------------------------------- checkQuorum, checkLogCompact *)
Lemma check_quorum_frame opt s b s' : check_quorum opt s b = Done s' ->
  K s' = K s /\ KM s' = KM s /\ st_ldr s' = st_ldr s.
Proof.
  intros H. unfold check_quorum in H.
  apply obind_inv in H. destruct H as (l & _ & H).
  apply obind_inv in H. destruct H as ([voters reachable] & _ & H).
  destruct (_ <=? _).
  - inversion H; subst. destruct (st_timer s); auto.
  - destruct (negb b); inversion H; subst; [auto|]. destruct (st_timer s); auto.
Qed.

Lemma check_quorum_G opt s0 s b s' : G s0 s -> check_quorum opt s b = Done s' -> G s0 s'.
Proof.
  intros HG H. destruct (check_quorum_frame _ _ _ _ H) as (A & B & C).
  eapply G_frame; [exact HG|exact A|exact B|]. rewrite C. apply lle_refl.
Qed.

Lemma G_compact s0 s x np t : G s0 s -> st_logprev s <= np -> np <= st_snapidx s ->
  G s0 (set_log (commit_log s x) np (skipn (N.to_nat (np - st_logprev (commit_log s x))) (st_log (commit_log s x)))
          (st_lastidx (commit_log s x)) t).
Proof.
  intros (C & L & M) L1 L2. split.
  { apply (core_compact (commit_log s x) np t); [|exact L1|exact L2].
    eapply core_ext; [apply commit_log_K|exact C]. }
  split; [eapply ldr_ok_ext; [|exact L]; reflexivity|].
  eapply mono_ext_r; [|exact M]. reflexivity.
Qed.

Lemma check_log_compact_G opt s0 s s' : G s0 s -> check_log_compact opt s = Done s' -> G s0 s'.
Proof.
  intros HG H. unfold check_log_compact in H.
  apply obind_inv in H. destruct H as (l & HL & H). apply get_ldr_inv in HL.
  destruct (forallb _ _); [|inversion H; subst; exact HG].
  cbv zeta in H.
  destruct (_ && _) eqn:T; [|discriminate]. inversion H; subst s'. clear H.
  assert (LR : ld_removelte l <= st_snapidx s).
  { destruct HG as (_ & L & _). unfold ldr_ok in L. rewrite HL in L. tauto. }
  apply G_compact; [exact HG|lia|lia].
Qed.

(* ---------------------------------------------------------------- checkReplUpdates *)
Lemma upd_repl_put s l id f : st_ldr s = Some l ->
  upd_repl s id f = put_ldr s (l <| ld_repls := map (fun r => if rp_id r =? id then f r else r) (ld_repls l) |>).
Proof. intros E. unfold upd_repl, upd_ldr. rewrite E. reflexivity. Qed.

Lemma set_term_G s0 s t s' : G s0 s -> set_term s t = Done s' -> G s0 s'.
Proof.
  intros (C & L & M) H. apply set_term_inv in H. destruct H as (K0 & L0 & _ & T1 & _ & M1 & M2 & M3).
  split; [eapply core_ext; eassumption|].
  destruct (K_inv _ _ K0) as (_ & _ & Q3 & Q4 & _).
  split; [eapply ldr_ok_ext; [|exact L]; unfold KL; rewrite L0, Q3, Q4; reflexivity|].
  unfold mono in *. lia.
Qed.

Lemma check_repl_update_G opt s0 s id u w :
  G s0 s -> env_ok s (ELeader (LReplUpdate id u)) -> check_repl_update opt s id u = Done w -> G s0 (fst w).
Proof.
  intros HG EN H. unfold check_repl_update in H.
  apply obind_inv in H. destruct H as (l & HL & H). apply get_ldr_inv in HL.
  destruct (find_repl id (ld_repls l)) as [rp|]; [|eapply wret_G; eassumption].
  destruct u as [v|v|b|t].
  - (* matchIndex *)
    cbn [env_ok] in EN. cbv zeta in H.
    assert (G1 : G s0 (upd_repl s id (fun r => r <| rp_match := v |>))).
    { rewrite (upd_repl_put _ _ _ _ HL). destruct HG as (C & L & M).
      unfold ldr_ok in L. rewrite HL in L. destruct L as [A B].
      apply G_put_new; [assumption|assumption|exact A|]. cbn.
      apply Forall_map. eapply Forall_impl; [|exact B]. cbn. intros r Hr.
      destruct (rp_id r =? id); [cbn; lia|exact Hr]. }
    set (s1 := upd_repl s id (fun r => r <| rp_match := v |>)) in *. clearbody s1.
    apply wbind_inv in H. destruct H as (s2 & o2 & w2 & H2 & H & E). rewrite E. clear E.
    assert (G2 : G s0 s2).
    { destruct (_ && _).
      - exact (check_config_action_G _ _ _ _ _ _ _ _ H2 G1).
      - exact (wret_G _ _ _ G1 H2). }
    clear H2.
    apply wbind_inv in H. destruct H as (s3 & o3 & w3 & H3 & H & E). rewrite E. clear E.
    pose proof (on_majority_commit_G _ _ _ _ _ H3 G2) as G3. cbn [fst] in G3.
    apply obind_inv in H. destruct H as (l3 & _ & H).
    destruct (_ && _); [eapply try_transfer_G; eassumption|eapply wret_G; eassumption].
  - (* removeLTE *)
    cbv zeta in H.
    assert (G1 : G s0 (upd_repl s id (fun r => r <| rp_removelte := v |>)))
      by (apply G_upd_repl; [assumption|reflexivity]).
    set (s1 := upd_repl s id (fun r => r <| rp_removelte := v |>)) in *. clearbody s1.
    destruct (_ <? _); [|eapply wret_G; eassumption].
    apply obind_inv in H. destruct H as (s2 & H2 & H).
    eapply wret_G; [|exact H]. eapply check_log_compact_G; eassumption.
  - (* noContact *)
    cbv zeta in H.
    assert (G1 : G s0 (upd_repl s id (fun r => r <| rp_nocontact := b |>)))
      by (apply G_upd_repl; [assumption|reflexivity]).
    set (s1 := upd_repl s id (fun r => r <| rp_nocontact := b |>)) in *. clearbody s1.
    apply obind_inv in H. destruct H as (s2 & H2 & H).
    pose proof (check_quorum_G _ _ _ _ _ G1 H2) as G2.
    apply obind_inv in H. destruct H as (l2 & _ & H).
    destruct (_ && _); [eapply try_transfer_G; eassumption|eapply wret_G; eassumption].
  - (* newTerm *)
    apply obind_inv in H. destruct H as (s1 & H1 & H).
    eapply wret_G; [|exact H]. eapply set_term_G; [|exact H1].
    eapply G_frame; [exact HG|reflexivity|reflexivity|apply lle_refl].
Qed.

(* ---------------------------------------------------------------- every leader event *)
Lemma levent_G opt s0 s e w :
  G s0 s -> env_ok s (ELeader e) -> leader_event_out opt s e = Done w -> G s0 (fst w).
Proof.
  intros HG EN. destruct e; cbn [leader_event_out]; intros H.
  - eapply store_entry_G; eassumption.
  - eapply check_repl_update_G; eassumption.
  - eapply on_change_config_G; eassumption.
  - eapply on_wait_stable_G; eassumption.
  - eapply on_transfer_G; eassumption.
  - eapply on_timeout_now_result_G; eassumption.
  - eapply reply_transfer_G; eassumption.
  - eapply try_transfer_G; [|exact H]. apply G_upd_ldr; [assumption|]. intros l. apply lsame_eq; reflexivity.
  - eapply flr_update_G; eassumption.
  - eapply flr_send_G; eassumption.
  - eapply flr_resp_G; eassumption.
  - eapply flr_snap_installed_G; eassumption.
Qed.

(* ---------------------------------------------------------------- leader.init *)
Lemma leader_init_G opt s0 s s' : core s -> mono s0 s -> leader_init opt s = Done s' -> G s0 s'.
Proof.
  intros C M H. unfold leader_init in H.
  destruct (negb _); [discriminate|]. cbv zeta in H.
  apply obind_inv in H. destruct H as (s1 & H1 & H).
  match type of H1 with add_replications (put_ldr s ?L) _ = _ => assert (G0 : G s0 (put_ldr s L)) end.
  { apply G_put_new; [assumption|assumption|cbn; apply (c_prev _ C)|cbn; constructor]. }
  destruct (add_replications_G _ _ _ _ G0 H1) as [G1 _].
  apply obind_inv in H. destruct H as (w & H2 & H). inversion H; subst s'. clear H.
  apply wbind_inv in H2. destruct H2 as (s2 & o2 & w2 & A & B & E). rewrite E.
  pose proof (check_config_actions_G _ _ _ _ _ _ _ A G1) as G2. cbn [fst] in G2.
  eapply store_entry_G; eassumption.
Qed.

(* ---------------------------------------------------------------- release *)
Lemma leader_release_out_frame s :
  K (fst (leader_release_out s)) = K s /\ KM (fst (leader_release_out s)) = KM s /\
  st_ldr (fst (leader_release_out s)) = None /\ st_role (fst (leader_release_out s)) = st_role s /\
  st_closed (fst (leader_release_out s)) = st_closed s.
Proof.
  unfold leader_release_out. destruct (st_ldr s) as [l|] eqn:E; cbn [fst].
  - destruct (st_leader s =? st_nid s); cbn; auto.
  - auto.
Qed.

Lemma release_role_frame opt old s :
  K (fst (release_role opt old s)) = K s /\ KM (fst (release_role opt old s)) = KM s /\
  st_role (fst (release_role opt old s)) = st_role s /\ st_closed (fst (release_role opt old s)) = st_closed s /\
  (old = Leader -> st_ldr (fst (release_role opt old s)) = None) /\
  (st_ldr s = None -> st_ldr (fst (release_role opt old s)) = None).
Proof.
  unfold release_role. destruct (old =? Candidate) eqn:E1.
  { apply N.eqb_eq in E1. subst old. cbn [fst]. repeat split; auto.
    intros X. unfold Candidate, Leader in X. discriminate X. }
  destruct (old =? Leader) eqn:E2.
  - destruct (leader_release_out_frame s) as (A & B & C & D & E). repeat split; auto.
  - cbn [fst]. repeat split; auto. intros X. subst old. rewrite N.eqb_refl in E2. discriminate.
Qed.

(* ---------------------------------------------------------------- onSnapshotTaken *)
Lemma min_list_le l : forall d, min_list d l <= d.
Proof.
  unfold min_list. induction l as [|x l IH]; intros d; cbn [fold_left]; [lia|].
  specialize (IH (N.min d x)). lia.
Qed.

Lemma on_snapshot_taken_G opt s0 s w : core s -> ldr_ok s -> mono s0 s ->
  on_snapshot_taken opt s = Done w ->
  G s0 (fst w) /\ (st_ldr s = None -> st_ldr (fst w) = None).
Proof.
  intros C L M H. unfold on_snapshot_taken in H.
  destruct (st_snapreq s) as [rq|] eqn:RQ; [|discriminate].
  cbv zeta in H.
  set (sx := s <| st_snapbusy := false |> <| st_snapreq := None |>) in *.
  assert (GX : G s0 sx).
  { split; [|split].
    - eapply core_with_sr; [|exact C|]; [reflexivity|]. unfold snapreq_ok. cbn. exact I.
    - eapply ldr_ok_ext; [|exact L]. reflexivity.
    - eapply mono_ext_r; [|exact M]. reflexivity. }
  assert (FX : st_ldr sx = st_ldr s /\ st_snapidx sx = st_snapidx s /\ st_logprev sx = st_logprev s) by (repeat split; reflexivity).
  destruct FX as (FX1 & FX2 & FX3).
  assert (WR : forall r, wreply sx (sr_tid rq) r = Done w -> G s0 (fst w) /\ (st_ldr s = None -> st_ldr (fst w) = None)).
  { intros r W. split; [eapply wreply_G; eassumption|]. unfold wreply in W. inversion W; subst w. cbn [fst]. congruence. }
  destruct (sr_done rq) as [|idx|code] eqn:SD; [discriminate| |eapply WR; exact H].
  assert (SI : idx <= st_snapidx s).
  { pose proof (c_sr _ C) as S. unfold snapreq_ok in S. rewrite RQ, SD in S. exact S. }
  destruct (log_contains sx idx); [|eapply WR; exact H].
  destruct (negb (_ && _)) eqn:T; [discriminate|].
  set (np := if o_newprev opt =? 0 then st_logprev sx else o_newprev opt) in *.
  match type of H with context [if st_logprev sx <? np then ?A else sx] =>
    set (s1 := if st_logprev sx <? np then A else sx) in * end.
  match type of T with context [N.max ?B _] => pose proof (min_list_le (map (fun r => rp_match r - 1)
     match st_ldr sx with Some l => if st_role sx =? Leader then ld_repls l else [] | None => [] end) idx) as NB end.
  assert (T' : st_logprev sx <= np /\ np <= st_snapidx s).
  { pose proof (c_prev _ C). rewrite FX3 in *. lia. }
  destruct T' as [T1 T2].
  assert (G1 : G s0 s1 /\ st_ldr s1 = st_ldr s /\ st_snapidx s1 = st_snapidx s).
  { subst s1. destruct (st_logprev sx <? np).
    - split; [apply G_compact; [exact GX|exact T1|rewrite FX2; exact T2]|]. split; reflexivity.
    - split; [exact GX|]. split; assumption. }
  destruct G1 as (G1 & F1 & F2). clearbody s1.
  apply obind_inv in H. destruct H as (s2 & H2 & H).
  assert (G2 : G s0 s2 /\ (st_ldr s = None -> st_ldr s2 = None)).
  { destruct (negb (o_newremovelte opt =? 0) && _).
    - match type of H2 with (if ?b then _ else _) = _ => destruct b eqn:T3 end; [discriminate|].
      match type of T3 with context [o_newremovelte opt <=? ?CB] => assert (CB <= idx) by apply min_list_le end.
      split.
      + eapply notify_flr_G; [|exact H2].
        unfold upd_ldr. destruct (st_ldr s1) as [l1|] eqn:E1; [|exact G1].
        destruct G1 as (C1 & L1 & M1). unfold ldr_ok in L1. rewrite E1 in L1. destruct L1 as [A B].
        apply G_put_new; [assumption|assumption|cbn; lia|exact B].
      + intros N0. exfalso. unfold notify_flr in H2.
        apply obind_inv in H2. destruct H2 as (l2 & HL2 & _). apply get_ldr_inv in HL2.
        unfold upd_ldr in HL2. rewrite F1, N0 in HL2. cbv iota in HL2. rewrite F1, N0 in HL2. discriminate.
    - inversion H2; subst s2. split; [exact G1|]. intros N0. congruence. }
  destruct G2 as [G2 N2].
  split; [eapply wreply_G; eassumption|].
  unfold wreply in H. inversion H; subst w. cbn [fst]. exact N2.
Qed.
