(* Executable model of the protocol handlers that run on the node's main
   goroutine for requests from peers, time-outs and elections:
     storage.go   setTerm, setVotedFor, appendEntry, removeGTE, clearLog, openStorage (configs scan)
     rpc.go       onVoteRequest, onAppendEntriesRequest, canCommit, applyCommitted,
                  onInstallSnapRequest, onTimeoutNowRequest
     config.go    Raft.changeConfig / commitConfig / revertConfig / setCommitIndex
     follower.go  onTimeout, canStartElection, resetTimer
     candidate.go startElection, onVoteResult
   One function per Go function, same branch order.  Every assert()/panic is
   an explicit [Err] outcome.  No proofs here. *)
From Coq Require Import List NArith ZArith Bool.
From RecordUpdate Require Import RecordUpdate.
From Verif Require Import Base.Bytes Codec.Messages Node.Types.
Import ListNotations.
Open Scope N_scope.

Inductive errkind :=
| EAssert           (* assert(false): errAssertion *)
| EBug              (* panic(bug{...}) / mustGetEntry on a missing index *)
| ENilView          (* Log.ViewAt returned nil / panicked *)
| EDecode           (* Config.decode failed on a config entry: unexpectedErr *)
| EUnsupported.     (* outside the modelled fragment: the correspondence skips the case and counts it *)

Inductive outcome (A : Type) :=
| Done (a : A)
| Err (e : errkind).
Arguments Done {A} a.
Arguments Err {A} e.

Definition obind {A B} (o : outcome A) (f : A -> outcome B) : outcome B :=
  match o with Done a => f a | Err e => Err e end.
Notation "x <~ o ;; q" := (obind o (fun x => q)) (at level 61, o at next level, right associativity).

(* ---------------------------------------------------------------- storage.go *)

Definition set_term (s : nstate) (t : N) : outcome nstate :=
  if st_term s =? t then Done s
  else if st_term s <? t then Done (set_term_vote s t 0)
  else Err EAssert.

Definition set_voted_for (s : nstate) (t c : N) : outcome nstate :=
  if (t =? st_term s) && (c =? st_voted s) then Done s
  else if st_term s <=? t then Done (set_term_vote s t c)
  else Err EAssert.

Definition append_entry (s : nstate) (e : entry) : outcome nstate :=
  if e_index e =? st_lastidx s + 1 then
    Done (set_log s (st_logprev s) (st_log s ++ [e]) (e_index e) (e_term e))
  else Err EAssert.

(* storage.removeGTE(index, prevTerm): Log.RemoveGTE then assert LastIndex == index-1 *)
Definition remove_gte (s : nstate) (index prevTerm : N) : outcome nstate :=
  if (st_logprev s <? index) && (index <=? log_lastindex s + 1) then
    (* segment.removeGTE ends with sync(): what remains is on disk *)
    Done (set_flushed (set_log s (st_logprev s) (firstn (N.to_nat (index - st_logprev s - 1)) (st_log s)) (index - 1) prevTerm)
                      (index - 1))
  else Err EAssert.

(* storage.commitLog(n) = Log.CommitN(n): at least the entries <= n are flushed *)
Definition commit_log (s : nstate) (n : N) : nstate :=
  set_flushed s (N.max (st_flushed s) (N.min n (log_lastindex s))).

(* storage.clearLog: Log.Reset(snaps.index) *)
Definition clear_log (s : nstate) : nstate :=
  set_flushed (set_log s (st_snapidx s) [] (st_snapidx s) (st_snapterm s)) (st_snapidx s).

(* ---------------------------------------------------------------- config.go (Raft part) *)

Definition change_config (s : nstate) (c : config) : nstate :=
  let s1 := if negb (st_leader s =? 0) && negb (is_voter c (st_leader s)) then set_leader s 0 else s in
  set_configs s1 (st_latest s1) c.

Definition commit_config (s : nstate) : nstate :=
  let s1 := if negb (st_leader s =? 0) && negb (is_voter (st_latest s) (st_leader s)) then set_leader s 0 else s in
  set_configs s1 (st_latest s1) (st_latest s1).

Definition revert_config (s : nstate) : nstate :=
  set_configs s (st_committed s) (st_committed s).

Definition configs_committed (s : nstate) : bool := c_index (st_latest s) =? c_index (st_committed s).

(* Raft.setCommitIndex; [shutdown_on_remove] is the option of that name *)
Definition raft_set_commit_index (shutdown_on_remove : bool) (s : nstate) (index : N) : nstate * bool :=
  let s1 := set_commit s index in
  if negb (configs_committed s1) && (c_index (st_latest s1) <=? index) then
    let s2 := commit_config s1 in
    let s3 := if (st_role s2 =? Leader) && negb (is_voter (st_latest s2) (st_nid s2))
              then set_leader (set_role s2 Follower) 0 else s2 in
    let s4 := if shutdown_on_remove then
                match cfg_node (st_latest s3) (st_nid s3) with
                | None => set_closed s3 true
                | Some _ => s3
                end
              else s3 in
    (s4, true)
  else (s1, false).

(* ---------------------------------------------------------------- applyCommitted (follower side) *)
(* r.fsm.ch <- fsmApply{log: ViewAt(PrevIndex, commitIndex)} followed by the
   state-machine goroutine's onApply: entries fsm.index+1 .. commitIndex are
   read from the view and applied, then assert(fsm.index == commitIndex). *)
Fixpoint terms_upto (s : nstate) (from : N) (n : nat) (cur : N) : option N :=
  match n with
  | O => Some cur
  | S k => match log_get s from with
           | Some e => if e_index e =? from then terms_upto s (from + 1) k (e_term e) else None
           | None => None
           end
  end.

Definition apply_committed (s : nstate) : outcome nstate :=
  if log_lastindex s <? st_commit s then Err ENilView          (* ViewAt panics: lastIndex > l.LastIndex() *)
  else if st_commit s <? st_logprev s then Err ENilView        (* ViewAt returns nil *)
  else if st_commit s <? st_fsmidx s then Err EAssert           (* assert(fsm.index == commitIndex) *)
  else
    match terms_upto s (st_fsmidx s + 1) (N.to_nat (st_commit s - st_fsmidx s)) (st_fsmterm s) with
    | Some t => Done (set_fsm s (st_commit s) t)
    | None => Err EBug                                           (* Log.Get failed: entry compacted away *)
    end.

(* update commands handed to FSM.Update by that apply, in order *)
Definition updates_between (s : nstate) (lo hi : N) : list bytes :=
  map e_data (filter (fun e => (lo <? e_index e) && (e_index e <=? hi) && (e_typ e =? entryUpdate)) (st_log s)).

(* ---------------------------------------------------------------- rpc.go onVoteRequest *)
Record votereq := mkVoteReq { vq_term : N; vq_src : N; vq_lastidx : N; vq_lastterm : N; vq_transfer : bool }.

Definition log_more_uptodate (s : nstate) (q : votereq) : bool :=
  (vq_lastterm q <? st_lastterm s) || ((st_lastterm s =? vq_lastterm q) && (vq_lastidx q <? st_lastidx s)).

(* result code and new state; the deferred setVotedFor(term, votedFor) runs at every return *)
Definition on_vote_request (s : nstate) (q : votereq) : outcome (N * nstate) :=
  if negb (vq_transfer q) && negb (st_leader s =? 0) && negb (vq_src q =? st_leader s) then
    Done (leaderKnown, s)
  else if vq_term q <? st_term s then Done (staleTerm, s)
  else
    let bump := st_term s <? vq_term q in
    let term := if bump then vq_term q else st_term s in
    let voted := if bump then 0 else st_voted s in
    let s1 := if bump then set_role s Follower else s in
    if negb (voted =? 0) then
      s2 <~ set_voted_for s1 term voted ;;
      Done (if voted =? vq_src q then success else alreadyVoted, s2)
    else if log_more_uptodate s1 q then
      s2 <~ set_voted_for s1 term voted ;;
      Done (logNotUptodate, s2)
    else
      s2 <~ set_voted_for s1 term (vq_src q) ;;
      Done (success, s2).

(* the same handler as the code had it before the repair recorded in
   known_findings.json (D1): a request from the node believed to be leader was
   answered [success] without touching term or vote.  Kept for the refutation. *)
Definition on_vote_request_before_fix (s : nstate) (q : votereq) : outcome (N * nstate) :=
  if negb (vq_transfer q) && negb (st_leader s =? 0) then
    Done (if vq_src q =? st_leader s then success else leaderKnown, s)
  else on_vote_request s q.

(* ---------------------------------------------------------------- rpc.go onAppendEntriesRequest *)
Record appendreq := mkAppendReq {
  aq_term : N; aq_src : N; aq_previdx : N; aq_prevterm : N; aq_commit : N; aq_entries : list entry
}.

Definition can_commit (s : nstate) (q : appendreq) (index term : N) : bool :=
  (index <=? aq_commit q) && (term =? aq_term q) && (st_commit s <? index).

Definition commit_and_apply (sor : bool) (s : nstate) (index : N) : outcome nstate :=
  apply_committed (fst (raft_set_commit_index sor s index)).

(* loop over the entries of the request; carries (index, term, syncLog) *)
Fixpoint consume_entries (s : nstate) (es : list entry) (index term : N) (sync : bool)
  : outcome (nstate * N * N * bool * bool (* decode failed *)) :=
  match es with
  | [] => Done (s, index, term, sync, false)
  | ne :: rest =>
      let prevTerm := term in
      if e_index ne <=? st_snapidx s then consume_entries s rest (e_index ne) (e_term ne) sync
      else
        let skip_or_trunc :=
          if e_index ne <=? st_lastidx s then
            match log_get s (e_index ne) with
            | None => Err EBug                      (* mustGetEntry *)
            | Some me =>
                if e_index me =? e_index ne then
                  if e_term me =? e_term ne then Done None   (* same entry: continue *)
                  else
                    s1 <~ remove_gte s (e_index ne) prevTerm ;;
                    Done (Some (if e_index ne <=? c_index (st_latest s1) then revert_config s1 else s1))
                else Err EBug                       (* getEntry: index mismatch *)
            end
          else Done (Some s) in
        r <~ skip_or_trunc ;;
        match r with
        | None => consume_entries s rest (e_index ne) (e_term ne) sync
        | Some s1 =>
            s2 <~ append_entry s1 ne ;;
            if e_typ ne =? entryConfig then
              match config_of_entry ne with
              | Some c => consume_entries (change_config s2 c) rest (e_index ne) (e_term ne) true
              | None => Done (s2, e_index ne, e_term ne, true, true)
              end
            else consume_entries s2 rest (e_index ne) (e_term ne) true
        end
  end.

(* returns (result, resp.lastLogIndex is st_lastidx of the new state, new state) *)
Definition on_append_request (sor : bool) (s : nstate) (q : appendreq) : outcome (N * nstate) :=
  if aq_term q <? st_term s then Done (staleTerm, s)
  else
    s0 <~ set_term s (aq_term q) ;;
    let s1 := set_leader (set_role s0 Follower) (aq_src q) in
    let prev_check : outcome (option N * nstate) :=      (* Some code: reply it; None: go on *)
      if st_snapidx s1 <? aq_previdx q then
        if st_lastidx s1 <? aq_previdx q then Done (Some prevEntryNotFound, s1)
        else
          let pt := if aq_previdx q =? st_lastidx s1 then Some (st_lastterm s1)
                    else match log_get s1 (aq_previdx q) with
                         | Some e => if e_index e =? aq_previdx q then Some (e_term e) else None
                         | None => None end in
          match pt with
          | None => Err EBug
          | Some t =>
              if negb (aq_prevterm q =? t) then Done (Some prevTermMismatch, s1)
              else if can_commit s1 q (aq_previdx q) (aq_prevterm q) then
                s2 <~ commit_and_apply sor s1 (aq_previdx q) ;; Done (None, s2)
              else Done (None, s1)
          end
      else Done (None, s1) in
    pc <~ prev_check ;;
    match pc with
    | (Some code, s2) => Done (code, s2)
    | (None, s2) =>
        r <~ consume_entries s2 (aq_entries q) (aq_previdx q) (aq_prevterm q) false ;;
        match r with
        | (s3, index, term, sync, decode_failed) =>
            (* deferred: only registered when the request carried entries *)
            s4 <~ (if sync && negb (match aq_entries q with [] => true | _ => false end) then
                     let s3f := commit_log s3 (st_lastidx s3) in
                     if can_commit s3f q index term then commit_and_apply sor s3f index else Done s3f
                   else Done s3) ;;
            Done (if decode_failed then unexpectedErr else success, s4)
        end
    end.

(* ---------------------------------------------------------------- rpc.go onInstallSnapRequest *)
Record snapreq := mkSnapReq { sq_term : N; sq_src : N; sq_lastidx : N; sq_lastterm : N; sq_config : config }.

(* [newprev] is the log's PrevIndex after compactLog(meta.index): the segment
   boundary Log.RemoveLTE stops at; it is an input (oracle) because the node
   model does not carry segment boundaries.  Legal values: logprev <= newprev <= meta.index. *)
Definition on_install_snap_request (s : nstate) (q : snapreq) (newprev : N) : outcome (N * nstate) :=
  if sq_term q <? st_term s then Done (staleTerm, s)
  else
    s0 <~ set_term s (sq_term q) ;;
    let s1 := set_leader (set_role s0 Follower) (sq_src q) in
    (* stale or duplicate request: acknowledged, nothing touched *)
    if sq_lastidx q <=? st_snapidx s1 then Done (success, s1) else
    (* sink.done: the snapshot is published, snaps.index/term move to the request's *)
    let s2 := set_snap s1 (sq_lastidx q) (sq_lastterm q) (sq_config q) in
    let keep :=
      if log_contains s2 (sq_lastidx q) then
        match log_get s2 (sq_lastidx q) with
        | Some e => e_term e =? sq_lastterm q
        | None => false
        end
      else false in
    if keep then
      (* compactLog(meta.index) *)
      if (st_logprev s2 <=? newprev) && (newprev <=? sq_lastidx q) then
        (* Log.RemoveLTE commits first *)
        Done (success, set_log (commit_log s2 (log_lastindex s2)) newprev
                               (skipn (N.to_nat (newprev - st_logprev s2)) (st_log s2))
                               (st_lastidx s2) (st_lastterm s2))
      else Err EBug
    else
      let s3 := clear_log s2 in
      (* fsm restore from the snapshot just stored; commitIndex = snaps.index *)
      let s4 := set_commit (set_fsm s3 (st_snapidx s3) (st_snapterm s3)) (st_snapidx s3) in
      Done (success, commit_config (change_config s4 (sq_config q))).

(* ---------------------------------------------------------------- rpc.go onTimeoutNowRequest *)
Definition on_timeout_now_request (s : nstate) : N * nstate :=
  if negb (is_voter (st_latest s) (st_nid s)) then (nonVoter, s)
  else (success, set_cnd (set_leader (set_role s Candidate) 0) (st_votesneeded s) true).

(* ---------------------------------------------------------------- follower.go *)
Definition can_start_election (s : nstate) : bool :=
  is_bootstrapped (st_latest s) &&
  match cfg_node (st_latest s) (st_nid s) with
  | Some n => n_voter n
  | None => false
  end.

Definition follower_on_timeout (s : nstate) : nstate :=
  let s1 := set_timer (set_leader s 0) false in
  if can_start_election s1 then set_role s1 Candidate
  else set_flr s1 true false.

Definition follower_reset_timer (s : nstate) : nstate :=
  if can_start_election s then set_flr s false true else s.

Definition follower_init (s : nstate) : nstate := set_flr s false true.

(* ---------------------------------------------------------------- candidate.go *)
(* startElection up to and including the self vote being queued; the response
   is then handled by [on_vote_result] like any other *)
Definition start_election (s : nstate) : outcome nstate :=
  if negb (is_voter (st_latest s) (st_nid s)) then Err EAssert
  else
    s1 <~ set_voted_for s (st_term s + 1) (st_nid s) ;;
    Done (set_timer (set_cnd s1 (Z.of_N (quorum (st_latest s1))) (st_cndtransfer s1)) true).

(* onVoteResult for a response without transport error *)
Definition on_vote_result (s : nstate) (rterm result : N) : outcome nstate :=
  if st_term s <? rterm then
    s1 <~ set_term (set_role s Follower) rterm ;; Done s1
  else if result =? success then
    let needed := (st_votesneeded s - 1)%Z in
    let s1 := set_cnd s needed (st_cndtransfer s) in
    if (needed =? 0)%Z then Done (set_leader (set_role s1 Leader) (st_nid s1)) else Done s1
  else Done s.

(* candidate.release *)
Definition candidate_release (s : nstate) : nstate := set_cnd s (st_votesneeded s) false.

(* ---------------------------------------------------------------- storage.go openStorage: configs *)
(* scan from lastLogIndex down to snaps.index+1 for the two newest config
   entries; fall back on the snapshot's config *)
Fixpoint scan_configs (es : list entry) (acc : list config) : outcome (list config) :=
  match es with
  | [] => Done acc
  | e :: r =>
      match acc with
      | _ :: _ :: _ => Done acc
      | _ =>
          if e_typ e =? entryConfig then
            match config_of_entry e with
            | Some c => scan_configs r (acc ++ [c])
            | None => Err EDecode
            end
          else scan_configs r acc
      end
  end.

Definition open_configs (s : nstate) : outcome (config * config) :=
  let above := filter (fun e => st_snapidx s <? e_index e) (st_log s) in
  l <~ scan_configs (rev above) [] ;;
  match l with
  | latest :: committed :: _ => Done (committed, latest)
  | [latest] => Done (st_snapcfg s, latest)
  | [] => Done (st_snapcfg s, st_snapcfg s)
  end.

(* New() on the storage directory this node left behind when its process died,
   followed by the start of Serve (restore from the latest snapshot if any).
   [keep] is the last log index found on disk: entries after the last flush
   may or may not have survived (their segment header had not been rewritten);
   legal values: st_flushed <= keep <= last index. *)
Definition restart (s0 : nstate) (keep : N) : outcome nstate :=
  if negb ((st_flushed s0 <=? keep) && (keep <=? log_lastindex s0) && (st_logprev s0 <=? keep)) then Err EBug else
  let s1 := set_flushed (set_log s0 (st_logprev s0) (firstn (N.to_nat (keep - st_logprev s0)) (st_log s0))
                                 (st_lastidx s0) (st_lastterm s0)) keep in
  (* openStorage: a log that ends before the latest snapshot (crash between publishing an
     installed snapshot and resetting the log) is a stale prefix, and a log that starts after it
     (crash inside Log.Reset, which removes the oldest segments first) no longer connects to it:
     reset to the snapshot *)
  let s := if (log_lastindex s1 <? st_snapidx s1) || (st_snapidx s1 <? st_logprev s1) then clear_log s1 else s1 in
  let last := match rev (st_log s) with
              | e :: _ => (e_index e, e_term e)
              | [] => (st_snapidx s, st_snapterm s)
              end in
  let s1 := set_log s (st_logprev s) (st_log s) (fst last) (snd last) in
  cc <~ open_configs s1 ;;
  let s2 := set_configs s1 (fst cc) (snd cc) in
  let s3 := set_ldr (set_cnd (set_flr (set_snapbusy (set_closed (set_leader (set_role s2 Follower) 0) false) false) false false) 0 false) None
              <| st_snapreq := None |> in
  if 0 <? st_snapidx s3 then
    Done (set_commit (set_fsm s3 (st_snapidx s3) (st_snapterm s3)) (st_snapidx s3))
  else Done (set_commit (set_fsm s3 0 0) 0).
