(* Facts about membership changes in the node model (C08): which configurations the leader derives,
   when it may append a configuration entry, what a submitted configuration is checked for, what a
   follower's latest configuration is after an append request.  Proofs only; statements are repeated
   in Props/C08.v. *)
From Coq Require Import List NArith ZArith Bool Lia Sorted.
From RecordUpdate Require Import RecordUpdate.
From Verif Require Import Base.Bytes Codec.Messages Node.Types Node.Handlers Node.Leader Node.Snap Node.Step Node.Run
  Node.PreserveTV.
From Verif Require Abs.Quorum.
Import ListNotations.
Open Scope N_scope.

(* ---------------------------------------------------------------- definitions *)
Definition voters (c : config) : list N := map n_id (filter n_voter (c_nodes c)).

(* the voter sets differ in at most one node id *)
Definition adjacent (c c' : config) : Prop :=
  exists x, forall id, id <> x -> (In id (voters c) <-> In id (voters c')).

Definition majority_of (c : config) (Q : list N) : Prop :=
  NoDup Q /\ incl Q (voters c) /\ (2 * length Q > length (voters c))%nat.

(* strictly increasing indices: what the entries of an append request look like *)
Definition increasing (es : list entry) : Prop := StronglySorted (fun a b => e_index a < e_index b) es.

Lemma in_voters_l id l :
  In id (map n_id (filter n_voter l)) <-> exists n, In n l /\ n_id n = id /\ n_voter n = true.
Proof.
  rewrite in_map_iff. split.
  - intros (n & E & I). apply filter_In in I. exists n. tauto.
  - intros (n & I & E & V). exists n. split; [exact E|]. apply filter_In. tauto.
Qed.

Lemma in_voters id c :
  In id (voters c) <-> exists n, In n (c_nodes c) /\ n_id n = id /\ n_voter n = true.
Proof. apply in_voters_l. Qed.

(* ---------------------------------------------------------------- find_node *)
Lemma find_node_some id l n : find_node id l = Some n -> In n l /\ n_id n = id.
Proof.
  induction l as [|a l IH]; cbn; [discriminate|].
  destruct (n_id a =? id) eqn:E.
  - intros H; inversion H; subst. apply N.eqb_eq in E. auto.
  - intros H. apply IH in H. tauto.
Qed.

Lemma find_node_none id l : find_node id l = None -> forall n, In n l -> n_id n <> id.
Proof.
  induction l as [|a l IH]; cbn; [tauto|].
  destruct (n_id a =? id) eqn:E; [discriminate|].
  apply N.eqb_neq in E. intros H n [<-|I]; auto.
Qed.

Lemma find_node_nodup l n : NoDup (map n_id l) -> In n l -> find_node (n_id n) l = Some n.
Proof.
  induction l as [|a l IH]; cbn; [tauto|].
  intros ND [->|I].
  - rewrite N.eqb_refl. reflexivity.
  - inversion ND; subst.
    destruct (n_id a =? n_id n) eqn:E.
    + apply N.eqb_eq in E. exfalso. apply H1. rewrite E. apply in_map. exact I.
    + auto.
Qed.

(* ---------------------------------------------------------------- one action changes one voter *)
Lemma put_node_voters n l id :
  id <> n_id n ->
  (In id (map n_id (filter n_voter (put_node n l))) <-> In id (map n_id (filter n_voter l))).
Proof.
  intros NE. induction l as [|a l IH]; cbn [put_node].
  - cbn. destruct (n_voter n); cbn; intuition congruence.
  - destruct (n_id a =? n_id n) eqn:E.
    + apply N.eqb_eq in E. cbn. destruct (n_voter n), (n_voter a); cbn; intuition congruence.
    + cbn. destruct (n_voter a); cbn; rewrite IH; tauto.
Qed.

Lemma del_node_voters x l id :
  id <> x ->
  (In id (map n_id (filter n_voter (filter (fun n => negb (n_id n =? x)) l))) <-> In id (map n_id (filter n_voter l))).
Proof.
  intros NE. rewrite !in_voters_l. split.
  - intros (n & I & E & V). apply filter_In in I. exists n. tauto.
  - intros (n & I & E & V). exists n. split; [|tauto]. apply filter_In. split; [exact I|].
    apply negb_true_iff, N.eqb_neq. congruence.
Qed.

Theorem action_result_adjacent :
  forall c id v a,
    adjacent c (cfg_set_node c (with_voter_action (cfg_node0 c id) v a)) /\ adjacent c (cfg_del_node c id).
Proof.
  intros c id v a. split.
  - exists (n_id (cfg_node0 c id)). intros i NE. unfold voters, cfg_set_node. cbn [c_nodes].
    symmetry. apply put_node_voters. exact NE.
  - exists id. intros i NE. unfold voters, cfg_del_node. cbn [c_nodes].
    symmetry. apply del_node_voters. exact NE.
Qed.

(* ---------------------------------------------------------------- majorities of adjacent configurations meet *)
Lemma remove_length_nodup x (l : list N) : NoDup l -> (length l <= S (length (remove N.eq_dec x l)))%nat.
Proof.
  induction 1 as [|a l Ha ND IH]; cbn; [lia|].
  destruct (N.eq_dec x a) as [->|NE].
  - rewrite notin_remove by exact Ha. lia.
  - cbn. lia.
Qed.

Lemma remove_nodup x (l : list N) : NoDup l -> NoDup (remove N.eq_dec x l).
Proof.
  induction 1 as [|a l Ha ND IH]; cbn; [constructor|].
  destruct (N.eq_dec x a); [exact IH|].
  constructor; [|exact IH]. intros I. apply in_remove in I. tauto.
Qed.

Theorem adjacent_majorities_intersect :
  forall c c' Q Q', adjacent c c' -> NoDup (voters c) -> NoDup (voters c') ->
    majority_of c Q -> majority_of c' Q' -> exists v, In v Q /\ In v Q'.
Proof.
  intros c c' Q Q' [x Hx] NV NV' (NQ & IQ & LQ) (NQ' & IQ' & LQ').
  destruct (Quorum.disjoint_or_meet Q Q') as [Hdis|Hm]; [|exact Hm]. exfalso.
  assert (ND : NoDup (Q ++ Q')) by (apply Quorum.NoDup_app_disjoint; assumption).
  destruct (in_dec N.eq_dec x (voters c)) as [Ix|Nx].
  - assert (I : incl (Q ++ Q') (voters c)).
    { apply incl_app; [exact IQ|]. intros v Hv. apply IQ' in Hv.
      destruct (N.eq_dec v x) as [->|NE]; [exact Ix | apply Hx; assumption]. }
    pose proof (NoDup_incl_length ND I) as L. rewrite app_length in L.
    assert (I2 : incl (remove N.eq_dec x (voters c)) (voters c')).
    { intros v Hv. apply in_remove in Hv. destruct Hv as [Hv NE]. apply Hx; assumption. }
    pose proof (NoDup_incl_length (remove_nodup x _ NV) I2) as L2.
    pose proof (remove_length_nodup x _ NV). lia.
  - assert (I : incl (Q ++ Q') (voters c')).
    { apply incl_app; [|exact IQ']. intros v Hv. apply IQ in Hv.
      apply Hx; [|exact Hv]. intros ->. exact (Nx Hv). }
    pose proof (NoDup_incl_length ND I) as L. rewrite app_length in L.
    assert (I2 : incl (remove N.eq_dec x (voters c')) (voters c)).
    { intros v Hv. apply in_remove in Hv. destruct Hv as [Hv NE]. apply Hx; assumption. }
    pose proof (NoDup_incl_length (remove_nodup x _ NV') I2) as L2.
    pose proof (remove_length_nodup x _ NV'). lia.
Qed.

(* ---------------------------------------------------------------- validation of a submitted configuration *)
Lemma wreply_nz s tid r :
  tid <> 0 -> r <> RpNil -> exists r', wreply s tid r = Done (s, mkOut [(tid, r')] []) /\ r' <> RpNil.
Proof.
  intros NZ NR. exists r. unfold wreply. apply N.eqb_neq in NZ. rewrite NZ. auto.
Qed.

Theorem change_config_validation :
  forall opt s tid c l,
    st_ldr s = Some l -> tid <> 0 ->
    (configs_committed s = false \/ st_commit s < ld_start l \/ c_index c <> c_index (st_latest s) \/
     (exists n, In n (c_nodes (st_latest s)) /\ (cfg_node c (n_id n) = None \/
                 exists nn, cfg_node c (n_id n) = Some nn /\ n_voter nn <> n_voter n)) \/
     (exists n, In n (c_nodes c) /\ cfg_node (st_latest s) (n_id n) = None /\ n_voter n = true) \/
     (forall n, In n (c_nodes c) -> n_voter n = true -> n_action n <> ActNone)) ->
    exists r, on_change_config opt s tid c = Done (s, mkOut [(tid, r)] []) /\ r <> RpNil.
Proof.
  intros opt s tid c l Hl NZ D.
  unfold on_change_config, get_ldr. rewrite Hl. cbn [obind].
  destruct (negb (configs_committed s)) eqn:E1; [apply wreply_nz; [exact NZ | discriminate]|].
  destruct (st_commit s <? ld_start l) eqn:E2; [apply wreply_nz; [exact NZ | discriminate]|].
  destruct (negb (c_index c =? c_index (st_latest s))) eqn:E3; [apply wreply_nz; [exact NZ | discriminate]|].
  destruct (negb (config_valid c)) eqn:E4; [apply wreply_nz; [exact NZ | discriminate]|].
  match goal with |- context [if negb ?b then _ else _] => destruct b eqn:E5 end;
    cbn [negb]; [|apply wreply_nz; [exact NZ | discriminate]].
  match goal with |- context [if negb ?b then _ else _] => destruct b eqn:E6 end;
    cbn [negb]; [|apply wreply_nz; [exact NZ | discriminate]].
  match goal with |- context [if negb ?b then _ else _] => destruct b eqn:E7 end;
    cbn [negb]; [|apply wreply_nz; [exact NZ | discriminate]].
  exfalso.
  apply negb_false_iff in E1, E3. apply N.eqb_eq in E3. apply N.ltb_ge in E2.
  rewrite forallb_forall in E5, E6. apply existsb_exists in E7.
  destruct D as [D|[D|[D|[D|[D|D]]]]].
  - congruence.
  - lia.
  - congruence.
  - destruct D as (n & I & D). specialize (E5 n I).
    destruct D as [D|(nn & D & NE)]; rewrite D in E5; [discriminate|].
    apply eqb_prop in E5. congruence.
  - destruct D as (n & I & D & V). specialize (E6 n I). rewrite D, V in E6. discriminate.
  - destruct E7 as (n & I & E7). apply andb_true_iff in E7. destruct E7 as [E7 _].
    apply andb_true_iff in E7. destruct E7 as [V A]. apply N.eqb_eq in A.
    exact (D n I V A).
Qed.

(* an accepted request has the voters of the latest configuration.  The node list of the submitted
   configuration must have distinct ids (Go: a map keyed by id); see [accepted_request_dup_ids]. *)
Theorem accepted_request_same_voters :
  forall opt s tid c s' out,
    NoDup (map n_id (c_nodes c)) ->
    on_change_config opt s tid c = Done (s', out) -> st_lastidx s < st_lastidx s' ->
    (forall id, In id (voters c) <-> In id (voters (st_latest s))).
Proof.
  intros opt s tid c s' out ND H LT.
  unfold on_change_config in H.
  apply obind_inv in H. destruct H as (l & Hl & H).
  destruct (negb (configs_committed s)); [unfold wreply in H; inversion H; subst; lia|].
  destruct (st_commit s <? ld_start l); [unfold wreply in H; inversion H; subst; lia|].
  destruct (negb (c_index c =? c_index (st_latest s))); [unfold wreply in H; inversion H; subst; lia|].
  destruct (negb (config_valid c)); [unfold wreply in H; inversion H; subst; lia|].
  match type of H with (if negb ?b then _ else _) = _ => destruct b eqn:E5 end;
    cbn [negb] in H; [|unfold wreply in H; inversion H; subst; lia].
  match type of H with (if negb ?b then _ else _) = _ => destruct b eqn:E6 end;
    cbn [negb] in H; [|unfold wreply in H; inversion H; subst; lia].
  clear H. rewrite forallb_forall in E5, E6.
  intros id. rewrite !in_voters. split.
  - intros (n & I & E & V). specialize (E6 n I). unfold cfg_node in *.
    destruct (find_node (n_id n) (c_nodes (st_latest s))) as [m|] eqn:F; [|rewrite V in E6; discriminate].
    apply find_node_some in F. destruct F as [Im Em].
    specialize (E5 m Im). rewrite Em in E5. rewrite (find_node_nodup _ _ ND I) in E5.
    apply eqb_prop in E5. exists m. split; [exact Im|]. split; congruence.
  - intros (n & I & E & V). specialize (E5 n I). unfold cfg_node in *.
    destruct (find_node (n_id n) (c_nodes c)) as [nn|] eqn:F; [|discriminate].
    apply eqb_prop in E5. apply find_node_some in F. destruct F as [Inn Enn].
    exists nn. split; [exact Inn|]. split; congruence.
Qed.

(* ---------------------------------------------------------------- a configuration entry needs canChangeConfig *)
Lemma lastidx_upd_ldr s f : st_lastidx (upd_ldr s f) = st_lastidx s.
Proof. unfold upd_ldr. destruct (st_ldr s); reflexivity. Qed.

Lemma ccc_upd_repl s l id f l1 :
  st_ldr s = Some l -> get_ldr (upd_repl s id f) = Done l1 ->
  can_change_config (upd_repl s id f) l1 = can_change_config s l.
Proof.
  intros Hl H. unfold upd_repl, upd_ldr, get_ldr in *. rewrite Hl in *. cbn in H. inversion H; subst.
  reflexivity.
Qed.

Theorem config_action_only_when_ready :
  forall opt fuel s tid c id s' out l,
    st_ldr s = Some l -> check_config_action opt fuel s tid c id = Done (s', out) ->
    st_lastidx s < st_lastidx s' ->
    configs_committed s = true /\ ld_start l <= st_commit s /\ ld_tr_active l = false.
Proof.
  intros opt fuel s tid c id s' out l Hl H LT.
  destruct fuel as [|f]; [discriminate|].
  cbn [check_config_action] in H.
  apply obind_inv in H. destruct H as (l0 & Hl0 & H).
  assert (l0 = l) by (unfold get_ldr in Hl0; rewrite Hl in Hl0; inversion Hl0; reflexivity). subst l0.
  destruct (find_repl id (ld_repls l)) as [rp|]; [|discriminate].
  destruct (next_action (cfg_node0 c id) =? ActNone); [unfold wret in H; inversion H; subst; lia|].
  match type of H with (if ?b then _ else _) = _ => destruct b end.
  { unfold wret in H; inversion H; subst. unfold upd_repl in LT. rewrite lastidx_upd_ldr in LT. lia. }
  apply obind_inv in H. destruct H as (l1 & Hl1 & H).
  pose proof (ccc_upd_repl _ _ _ _ _ Hl Hl1) as CC.
  match type of H with (if negb ?b then _ else _) = _ => destruct b eqn:E end; cbn [negb] in H.
  - clear E. symmetry in CC. rename CC into E. unfold can_change_config in E.
    apply andb_true_iff in E. destruct E as [E E3]. apply andb_true_iff in E. destruct E as [E1 E2].
    apply N.leb_le in E2. apply negb_true_iff in E3. unfold transfer_in_progress in E3. auto.
  - unfold wret in H; inversion H; subst. unfold upd_repl in LT. rewrite lastidx_upd_ldr in LT. lia.
Qed.

(* ---------------------------------------------------------------- followers adopt the newest configuration entry *)
Lemma append_entry_spec s e s2 :
  append_entry s e = Done s2 ->
  st_lastidx s2 = e_index e /\ st_snapidx s2 = st_snapidx s /\ st_latest s2 = st_latest s.
Proof.
  unfold append_entry. destruct (_ =? _); [|discriminate]. intros H; inversion H; subst. auto.
Qed.

Lemma remove_gte_spec s i t s2 :
  remove_gte s i t = Done s2 ->
  st_lastidx s2 = i - 1 /\ st_snapidx s2 = st_snapidx s.
Proof.
  unfold remove_gte. destruct (_ && _); [|discriminate]. intros H; inversion H; subst. auto.
Qed.

Lemma change_config_fields s c :
  st_lastidx (change_config s c) = st_lastidx s /\ st_snapidx (change_config s c) = st_snapidx s /\
  st_latest (change_config s c) = c.
Proof. unfold change_config. destruct (_ && _); auto. Qed.

(* after the newest configuration entry: the rest is appended, no configuration among it *)
Lemma consume_rest_latest es : forall s i t sy s' i' t' sy' f',
  consume_entries s es i t sy = Done (s', i', t', sy', f') ->
  (forall e', In e' es -> e_typ e' <> entryConfig) ->
  increasing es ->
  (forall e', In e' es -> st_lastidx s < e_index e') ->
  st_latest s' = st_latest s.
Proof.
  induction es as [|ne rest IH]; intros s i t sy s' i' t' sy' f' H NC INC GT.
  - cbn in H. inversion H; reflexivity.
  - cbn [consume_entries] in H.
    apply StronglySorted_inv in INC. destruct INC as [INC HD]. rewrite Forall_forall in HD.
    assert (NC' : forall e', In e' rest -> e_typ e' <> entryConfig) by (intros; apply NC; right; assumption).
    destruct (e_index ne <=? st_snapidx s).
    { apply (IH _ _ _ _ _ _ _ _ _ H NC' INC). intros; apply GT; right; assumption. }
    pose proof (GT ne (or_introl eq_refl)) as G. apply N.leb_gt in G. rewrite G in H. cbn [obind] in H.
    apply obind_inv in H. destruct H as (s2 & A & H).
    apply append_entry_spec in A. destruct A as (A1 & A2 & A3).
    pose proof (NC ne (or_introl eq_refl)) as T. apply N.eqb_neq in T. rewrite T in H.
    rewrite (IH _ _ _ _ _ _ _ _ _ H NC' INC); [exact A3|].
    intros e' I. rewrite A1. apply HD. exact I.
Qed.

Theorem follower_adopts_newest_config :
  forall s es index term sync s' i t sy failed c e,
    increasing es ->
    consume_entries s es index term sync = Done (s', i, t, sy, failed) -> failed = false ->
    In e es -> e_typ e = entryConfig -> config_of_entry e = Some c ->
    (forall e', In e' es -> e_typ e' = entryConfig -> e_index e' <= e_index e) ->
    st_lastidx s < e_index e -> st_snapidx s < e_index e ->
    st_latest s' = c.
Proof.
  intros s es index term sync s' i t sy failed c e INC H F I T C MAX L1 L2. subst failed.
  revert s index term sync INC H I MAX L1 L2.
  induction es as [|ne rest IH]; intros s index term sync INC H I MAX L1 L2; [destruct I|].
  cbn [consume_entries] in H.
  apply StronglySorted_inv in INC. destruct INC as [INC HD]. rewrite Forall_forall in HD.
  assert (MAX' : forall e', In e' rest -> e_typ e' = entryConfig -> e_index e' <= e_index e)
    by (intros; apply MAX; [right|]; assumption).
  destruct I as [->|I].
  - (* this is the entry *)
    apply N.leb_gt in L2. rewrite L2 in H. apply N.leb_gt in L1. rewrite L1 in H. cbn [obind] in H.
    apply obind_inv in H. destruct H as (s2 & A & H).
    apply append_entry_spec in A. destruct A as (A1 & A2 & A3).
    rewrite T, N.eqb_refl, C in H.
    destruct (change_config_fields s2 c) as (B1 & B2 & B3).
    rewrite (consume_rest_latest _ _ _ _ _ _ _ _ _ _ H); [exact B3 | | exact INC |].
    + intros e' I' T'. specialize (HD e' I'). specialize (MAX' e' I' T'). lia.
    + intros e' I'. rewrite B1, A1. apply HD. exact I'.
  - (* an earlier entry: whatever happens, the log still ends below e *)
    pose proof (HD e I) as LT.
    destruct (e_index ne <=? st_snapidx s). { eapply IH; eauto. }
    apply obind_inv in H. destruct H as (r & R & H).
    assert (RR : match r with
                 | None => True
                 | Some s1 => st_lastidx s1 < e_index e /\ st_snapidx s1 = st_snapidx s
                 end).
    { destruct (e_index ne <=? st_lastidx s).
      - destruct (log_get s (e_index ne)) as [me|]; [|discriminate].
        destruct (e_index me =? e_index ne); [|discriminate].
        destruct (e_term me =? e_term ne). { inversion R; subst. exact Logic.I. }
        apply obind_inv in R. destruct R as (s1 & G & R). inversion R; subst.
        apply remove_gte_spec in G. destruct G as [G1 G2].
        destruct (_ <=? _); cbn; split; try assumption; lia.
      - inversion R; subst. auto. }
    destruct r as [s1|]; [|eapply IH; eauto].
    destruct RR as [R1 R2].
    apply obind_inv in H. destruct H as (s2 & A & H).
    apply append_entry_spec in A. destruct A as (A1 & A2 & A3).
    destruct (e_typ ne =? entryConfig).
    + destruct (config_of_entry ne) as [c'|]; [|discriminate].
      destruct (change_config_fields s2 c') as (B1 & B2 & B3).
      eapply IH; eauto; lia.
    + eapply IH; eauto; lia.
Qed.

(* ---------------------------------------------------------------- the pre-repair guard *)
Definition init_witness_ldr : ldrst := mkLdr true true 1 1 [] [] false 0 0 false false 0 [] 0.
Definition init_witness : nstate := fresh_node 1 1 <| st_ldr := Some init_witness_ldr |>.

Theorem pending_action_at_init_before_fix_refuted :
  exists s l, st_ldr s = Some l /\ st_commit s < ld_start l /\ can_change_config_before_fix s l = true /\
              can_change_config s l = false.
Proof.
  exists init_witness, init_witness_ldr. vm_compute. repeat split; reflexivity.
Qed.

(* ---------------------------------------------------------------- why the two extra hypotheses *)
(* [accepted_request_same_voters] without distinct ids: a node list with two nodes of id 2 (one
   non-voter, one voter) passes onChangeConfig's checks, which look nodes up by id and so see only the
   first; the appended entry decodes (nodes_of_list: last one wins) to a configuration where 2 votes.
   Go's Config.Nodes is a map, so such a list cannot be submitted there. *)
Module DupIds.
Definition na := mkNode 1 [97] true [] 0.
Definition nb := mkNode 2 [98] false [] 0.
Definition nb' := mkNode 2 [99] true [] 0.
Definition c0 := mkConfig [na; nb] 1 1.
Definition cdup := mkConfig [na; nb; nb'] 1 1.
Definition e1 := mkEntry 1 1 entryConfig (enc_config_data (c_nodes c0)).
Definition r2 := mkRepl 2 1 false false 0 None 0 1 2 1 0 false 1 None.
Definition l0 := mkLdr true true 1 1 [] [r2] false 0 0 false false 0 [] 0.
Definition s0 : nstate :=
  fresh_node 1 1 <| st_term := 1 |> <| st_log := [e1] |> <| st_flushed := 1 |> <| st_lastidx := 1 |> <| st_lastterm := 1 |>
    <| st_committed := c0 |> <| st_latest := c0 |> <| st_role := Leader |> <| st_leader := 1 |> <| st_commit := 1 |>
    <| st_fsmidx := 1 |> <| st_fsmterm := 1 |> <| st_ldr := Some l0 |>.
Definition opt0 := mkOptions false false false 0 0 [].

Theorem counterexample :
  exists s' out, on_change_config opt0 s0 7 cdup = Done (s', out) /\ st_lastidx s0 < st_lastidx s' /\
                 In 2 (voters cdup) /\ ~ In 2 (voters (st_latest s0)) /\ In 2 (voters (st_latest s')).
Proof.
  assert (H : exists w, on_change_config opt0 s0 7 cdup = Done w /\ st_lastidx (fst w) = 2 /\
                        voters (st_latest (fst w)) = [1; 2]).
  { vm_compute. eexists. split; [reflexivity|]. split; reflexivity. }
  destruct H as ([s' out] & H & L & V). cbn [fst] in L, V.
  exists s', out. split; [exact H|]. rewrite L, V. vm_compute.
  split; [reflexivity|]. split; [tauto|]. split; [|tauto].
  intros [X|[]]. discriminate.
Qed.
End DupIds.

(* [follower_adopts_newest_config] without increasing indices: a second entry with the same index and
   another term makes the follower truncate the first and adopt the second. *)
Module NotIncreasing.
Definition ca := mkConfig [mkNode 1 [97] true [] 0] 1 1.
Definition cb := mkConfig [mkNode 1 [97] true [] 0; mkNode 2 [98] false [] 0] 1 2.
Definition ea := mkEntry 1 1 entryConfig (enc_config_data (c_nodes ca)).
Definition eb := mkEntry 1 2 entryConfig (enc_config_data (c_nodes cb)).
Definition s0 : nstate := fresh_node 1 1.

Theorem counterexample :
  exists s' i t sy,
    consume_entries s0 [ea; eb] 0 0 false = Done (s', i, t, sy, false) /\
    config_of_entry ea = Some ca /\ e_typ ea = entryConfig /\
    (forall e', In e' [ea; eb] -> e_typ e' = entryConfig -> e_index e' <= e_index ea) /\
    st_lastidx s0 < e_index ea /\ st_snapidx s0 < e_index ea /\ st_latest s' <> ca.
Proof.
  assert (H : exists r, consume_entries s0 [ea; eb] 0 0 false = Done r /\ snd r = false /\
                        st_latest (fst (fst (fst (fst r)))) = cb).
  { vm_compute. eexists. split; [reflexivity|]. split; reflexivity. }
  destruct H as ([[[[s' i] t] sy] f] & H & F & L). cbn [fst snd] in F, L. subst f.
  exists s', i, t, sy. split; [exact H|].
  split; [vm_compute; reflexivity|]. split; [reflexivity|].
  split. { intros e' [<-|[<-|[]]] _; vm_compute; discriminate. }
  split; [vm_compute; reflexivity|]. split; [vm_compute; reflexivity|].
  rewrite L. discriminate.
Qed.
End NotIncreasing.
