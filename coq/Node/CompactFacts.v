(* Proofs for Props/C09.v: what is applied, what a snapshot contains, what a
   compaction may remove, what a replication is sent, what an installed snapshot resets. *)
From Coq Require Import List NArith ZArith Bool Lia.
From RecordUpdate Require Import RecordUpdate.
From Verif Require Import Base.Bytes Codec.Messages Node.Types Node.Handlers Node.Leader Node.Snap Node.Step Node.Run
  Node.PreserveTV.
Import ListNotations.
Open Scope N_scope.

(* ---------------------------------------------------------------- applyCommitted *)
Lemma terms_upto_spec s : forall n from cur t,
  terms_upto s from n cur = Some t ->
  forall i, from <= i -> i < from + N.of_nat n -> exists e, log_get s i = Some e /\ e_index e = i.
Proof.
  induction n as [|n IH]; intros from cur t H i H1 H2; [lia|].
  cbn [terms_upto] in H.
  destruct (log_get s from) as [e|] eqn:E; [|discriminate].
  destruct (e_index e =? from) eqn:E2; [|discriminate]. apply N.eqb_eq in E2.
  destruct (N.eq_dec i from) as [->|NE].
  - exists e. split; assumption.
  - apply (IH _ _ _ H); lia.
Qed.

Lemma apply_is_contiguous :
  forall s s', apply_committed s = Done s' ->
    st_fsmidx s' = st_commit s /\ st_log s' = st_log s /\ st_fsmidx s <= st_commit s /\
    forall i, st_fsmidx s < i -> i <= st_commit s -> exists e, log_get s i = Some e /\ e_index e = i.
Proof.
  intros s s' H. unfold apply_committed in H.
  destruct (log_lastindex s <? st_commit s); [discriminate|].
  destruct (st_commit s <? st_logprev s); [discriminate|].
  destruct (st_commit s <? st_fsmidx s) eqn:E; [discriminate|]. apply N.ltb_ge in E.
  destruct (terms_upto _ _ _ _) as [t|] eqn:ET; [|discriminate].
  inversion H; subst s'. split; [reflexivity|]. split; [reflexivity|]. split; [exact E|].
  intros i H1 H2. apply (terms_upto_spec _ _ _ _ _ ET); lia.
Qed.

(* ---------------------------------------------------------------- onTakeSnapshot *)
Lemma snapshot_only_committed :
  forall s tid th s' out rq, st_fsmidx s <= st_commit s -> on_take_snapshot s tid th = Done (s', out) ->
    st_snapbusy s = false -> st_snapreq s' = Some rq -> sr_index rq <= st_commit s.
Proof.
  intros s tid th s' out rq HF H HB HR. unfold on_take_snapshot in H. rewrite HB in H.
  unfold wret in H. inversion H; subst s' out. cbn in HR. inversion HR; subst rq. exact HF.
Qed.

(* ---------------------------------------------------------------- onSnapshotTaken *)
Lemma min_list_le_d l : forall d, min_list d l <= d.
Proof.
  unfold min_list. induction l as [|x r IH]; intros d; cbn [fold_left]; [lia|].
  specialize (IH (N.min d x)). lia.
Qed.

Lemma min_list_le_in l : forall d x, In x l -> min_list d l <= x.
Proof.
  unfold min_list. induction l as [|y r IH]; intros d x HI; [destruct HI|].
  cbn [fold_left]. destruct HI as [->|HI].
  - pose proof (min_list_le_d r (N.min d x)) as M. unfold min_list in M. lia.
  - apply IH. exact HI.
Qed.

(* the fields a compaction is about *)
Definition CK (s : nstate) := (st_logprev s, st_log s, st_lastidx s, st_snapidx s).

Lemma CK_notify_flr s b s' : notify_flr s b = Done s' -> CK s' = CK s.
Proof. unfold notify_flr. intros H. repeat inv1. reflexivity. Qed.

Lemma CK_upd_ldr s f : CK (upd_ldr s f) = CK s.
Proof. unfold upd_ldr. destruct (st_ldr s); reflexivity. Qed.

(* what onSnapshotTaken does, case by case *)
Lemma on_snapshot_taken_inv opt s s' out :
  on_snapshot_taken opt s = Done (s', out) ->
  exists rq, st_snapreq s = Some rq /\
  let s0 := s <| st_snapbusy := false |> <| st_snapreq := None |> in
  ((exists c, sr_done rq = SnapFail c /\ s' = s0) \/
   (exists idx, sr_done rq = SnapOk idx /\ log_contains s idx = false /\ s' = s0) \/
   (exists idx, sr_done rq = SnapOk idx /\ log_contains s idx = true /\
      let is_ldr := st_role s =? Leader in
      let repls := match st_ldr s with Some l => if is_ldr then ld_repls l else [] | None => [] end in
      let now_bound := min_list idx (map (fun r => rp_match r - 1) repls) in
      let can_bound := min_list idx (map rp_match (filter (fun r => negb (rp_nocontact r)) repls)) in
      let np := if o_newprev opt =? 0 then st_logprev s else o_newprev opt in
      st_logprev s <= np /\ np <= N.max now_bound (st_logprev s) /\
      let s1 := if st_logprev s <? np then
                  set_log (commit_log s0 (log_lastindex s0)) np (skipn (N.to_nat (np - st_logprev s)) (st_log s))
                          (st_lastidx s) (st_lastterm s)
                else s0 in
      ((o_newremovelte opt = 0 \/ is_ldr = false) /\ s' = s1 \/
       (o_newremovelte opt <> 0 /\ is_ldr = true /\ np <= o_newremovelte opt /\ o_newremovelte opt <= can_bound /\
        notify_flr (upd_ldr s1 (fun l => l <| ld_removelte := o_newremovelte opt |>)) false = Done s')))).
Proof.
  intros H. unfold on_snapshot_taken in H.
  destruct (st_snapreq s) as [rq|]; [|discriminate]. exists rq. split; [reflexivity|]. cbv zeta.
  destruct (sr_done rq) as [|idx|c]; [discriminate| |].
  2:{ left. exists c. split; [reflexivity|]. unfold wreply in H. inversion H; reflexivity. }
  right.
  change (log_contains (s <| st_snapbusy := false |> <| st_snapreq := None |>) idx) with (log_contains s idx) in H.
  destruct (log_contains s idx) eqn:ELC.
  2:{ left. exists idx. split; [reflexivity|]. split; [exact ELC|]. unfold wreply in H. inversion H; reflexivity. }
  right. exists idx. split; [reflexivity|]. split; [exact ELC|].
  cbv zeta in H.
  match type of H with (if negb (?a && ?b) then _ else _) = _ => destruct a eqn:EA; [destruct b eqn:EB|]; cbn [negb andb] in H; try discriminate end.
  apply N.leb_le in EA, EB.
  split; [exact EA|]. split; [exact EB|].
  apply obind_inv in H. destruct H as (s2 & H2 & H). unfold wreply in H. inversion H; subst s2 out. clear H.
  destruct (negb (o_newremovelte opt =? 0)) eqn:E1.
  - apply negb_true_iff, N.eqb_neq in E1.
    change (st_role (s <| st_snapbusy := false |> <| st_snapreq := None |>)) with (st_role s) in H2.
    destruct (st_role s =? Leader) eqn:E2; cbn [andb] in H2.
    + right.
      match type of H2 with (if negb (?a && ?b) then _ else _) = _ => destruct a eqn:EC; [destruct b eqn:ED|]; cbn [negb andb] in H2; try discriminate end.
      apply N.leb_le in EC, ED.
      split; [exact E1|]. split; [reflexivity|]. split; [exact EC|]. split; [exact ED|]. exact H2.
    + left. split; [right; reflexivity|]. inversion H2; reflexivity.
  - apply negb_false_iff, N.eqb_eq in E1. cbn [andb] in H2. left. split; [left; exact E1|]. inversion H2; reflexivity.
Qed.

Definition cur_repls (s : nstate) : list replst :=
  match st_ldr s with Some l => if st_role s =? Leader then ld_repls l else [] | None => [] end.

(* the log after onSnapshotTaken: a suffix starting at [np]; when [np] moved, it stayed within the bound *)
Lemma on_snapshot_taken_log opt s s' out :
  on_snapshot_taken opt s = Done (s', out) ->
  exists np, st_logprev s <= np /\
    CK s' = (np, skipn (N.to_nat (np - st_logprev s)) (st_log s), st_lastidx s, st_snapidx s) /\
    (np = st_logprev s \/
     exists rq idx, st_snapreq s = Some rq /\ sr_done rq = SnapOk idx /\ log_contains s idx = true /\
       st_logprev s < np /\ np <= min_list idx (map (fun r => rp_match r - 1) (cur_repls s))).
Proof.
  intros H. apply on_snapshot_taken_inv in H. destruct H as (rq & Hrq & H). cbv zeta in H.
  assert (Same : forall x, CK x = CK s ->
            CK x = (st_logprev s, skipn (N.to_nat (st_logprev s - st_logprev s)) (st_log s), st_lastidx s, st_snapidx s)).
  { intros x Hx. rewrite Hx, N.sub_diag. reflexivity. }
  destruct H as [(c & _ & ->)|[(idx & _ & _ & ->)|(idx & Hd & Hc & H1 & H2 & H)]].
  - exists (st_logprev s). split; [lia|]. split; [apply Same; reflexivity | left; reflexivity].
  - exists (st_logprev s). split; [lia|]. split; [apply Same; reflexivity | left; reflexivity].
  - fold (cur_repls s) in H2.
    set (np := if o_newprev opt =? 0 then st_logprev s else o_newprev opt) in *.
    match type of H with (_ /\ s' = ?X) \/ _ => set (s1 := X) in H end.
    assert (K1 : CK s' = CK s1).
    { destruct H as [[_ ->]|(_ & _ & _ & _ & H)]; [reflexivity|].
      apply CK_notify_flr in H. rewrite H. apply CK_upd_ldr. }
    exists np. split; [exact H1|]. rewrite K1. unfold s1.
    destruct (st_logprev s <? np) eqn:E.
    + apply N.ltb_lt in E. split; [reflexivity|]. right. exists rq, idx.
      repeat (split; [assumption|]). lia.
    + apply N.ltb_ge in E. assert (np = st_logprev s) by lia.
      split; [|left; assumption]. rewrite H0. apply Same. reflexivity.
Qed.

Lemma compaction_never_beyond_snapshot :
  forall opt s s' out, st_logprev s <= st_snapidx s -> on_snapshot_taken opt s = Done (s', out) ->
    (forall rq idx, st_snapreq s = Some rq -> sr_done rq = SnapOk idx -> idx <= st_snapidx s) ->
    st_logprev s <= st_logprev s' /\ st_logprev s' <= st_snapidx s' /\ st_snapidx s' = st_snapidx s /\
    st_log s' = skipn (N.to_nat (st_logprev s' - st_logprev s)) (st_log s) /\ st_lastidx s' = st_lastidx s.
Proof.
  intros opt s s' out HP H HI. apply on_snapshot_taken_log in H.
  destruct H as (np & H1 & HK & H2). unfold CK in HK. inversion HK as [[A B C D]]. clear HK.
  rewrite A, B, C, D. repeat split; try assumption.
  destruct H2 as [->|(rq & idx & Hrq & Hd & _ & _ & Hb)]; [exact HP|].
  pose proof (min_list_le_d (map (fun r => rp_match r - 1) (cur_repls s)) idx).
  specialize (HI _ _ Hrq Hd). lia.
Qed.

Lemma compaction_keeps_what_replications_read :
  forall opt s s' out l rp, st_ldr s = Some l -> st_role s = Leader -> In rp (ld_repls l) ->
    on_snapshot_taken opt s = Done (s', out) ->
    st_logprev s' = st_logprev s \/ st_logprev s' < rp_match rp.
Proof.
  intros opt s s' out l rp Hl HR HI H. apply on_snapshot_taken_log in H.
  destruct H as (np & H1 & HK & H2). unfold CK in HK. inversion HK as [[A B C D]]. clear HK.
  rewrite A. destruct H2 as [->|(rq & idx & _ & _ & _ & Hlt & Hb)]; [left; reflexivity|]. right.
  unfold cur_repls in Hb. rewrite Hl, HR in Hb. change (Leader =? Leader) with true in Hb. cbv iota in Hb.
  assert (M : min_list idx (map (fun r => rp_match r - 1) (ld_repls l)) <= rp_match rp - 1).
  { apply min_list_le_in. apply in_map_iff. exists rp. split; [reflexivity | exact HI]. }
  lia.
Qed.

Lemma compaction_refreshes_views :
  forall opt s s' out l l', st_ldr s = Some l -> st_role s = Leader -> st_ldr s' = Some l' ->
    on_snapshot_taken opt s = Done (s', out) -> st_logprev s <= ld_removelte l -> o_newremovelte opt <> 0 ->
    st_logprev s' <= ld_removelte l' /\
    (forall rq idx, st_snapreq s = Some rq -> sr_done rq = SnapOk idx -> log_contains s idx = true ->
       idx <= st_lastidx s ->
       forall rp, In rp (ld_repls l') -> exists u, rp_pending rp = Some u /\ pu_viewprev u = ld_removelte l').
Proof.
  intros opt s s' out l l' Hl HR Hl' H HP HN.
  apply on_snapshot_taken_inv in H. destruct H as (rq & Hrq & H). cbv zeta in H.
  destruct H as [(c & Hd & ->)|[(idx & Hd & Hc & ->)|(idx & Hd & Hc & H1 & H2 & H)]].
  - cbn in Hl'. rewrite Hl in Hl'. inversion Hl'; subst l'. split; [exact HP|].
    intros rq' idx' Hrq' Hd'. rewrite Hrq in Hrq'. inversion Hrq'; subst rq'. congruence.
  - cbn in Hl'. rewrite Hl in Hl'. inversion Hl'; subst l'. split; [exact HP|].
    intros rq' idx' Hrq' Hd' Hc'. rewrite Hrq in Hrq'. inversion Hrq'; subst rq'.
    rewrite Hd in Hd'. inversion Hd'; subst idx'. congruence.
  - rewrite HR in H. change (Leader =? Leader) with true in H.
    destruct H as [[[H|H] _]|(_ & _ & H3 & H4 & H)]; [contradiction | discriminate |].
    set (np := if o_newprev opt =? 0 then st_logprev s else o_newprev opt) in *.
    match type of H with notify_flr (upd_ldr ?X _) _ = _ => set (s1 := X) in H end.
    assert (L1 : st_ldr s1 = Some l) by (unfold s1; destruct (_ <? _); exact Hl).
    assert (P1 : st_logprev s1 = np).
    { unfold s1. destruct (st_logprev s <? np) eqn:E; [reflexivity|]. apply N.ltb_ge in E. cbn. lia. }
    assert (I1 : st_lastidx s1 = st_lastidx s) by (unfold s1; destruct (_ <? _); reflexivity).
    unfold upd_ldr in H. rewrite L1 in H.
    unfold notify_flr, get_ldr in H. cbn [st_ldr put_ldr set_ldr] in H.
    change (st_ldr (put_ldr s1 ?x)) with (Some x) in H. cbn [obind] in H.
    apply obind_inv in H. destruct H as (vp & Hv & H). inversion H; subst s'. clear H.
    cbn in Hl'. inversion Hl'; subst l'. clear Hl'. cbn.
    split; [rewrite P1; exact H3|].
    intros rq' idx' Hrq' Hd' Hc' Hle rp Hin.
    rewrite Hrq in Hrq'. inversion Hrq'; subst rq'. rewrite Hd in Hd'. inversion Hd'; subst idx'.
    apply in_map_iff in Hin. destruct Hin as (r0 & <- & _). cbn.
    eexists. split; [reflexivity|]. cbn.
    unfold view_at in Hv. cbn in Hv.
    change (st_lastidx (put_ldr s1 ?x)) with (st_lastidx s1) in Hv.
    change (st_logprev (put_ldr s1 ?x)) with (st_logprev s1) in Hv.
    destruct (_ <? st_lastidx s1); [discriminate|].
    rewrite I1, P1 in Hv.
    pose proof (min_list_le_d (map rp_match (filter (fun r => negb (rp_nocontact r))
                  (match st_ldr s with Some l => if true then ld_repls l else [] | None => [] end))) idx) as M.
    assert (E1 : st_lastidx s <? o_newremovelte opt = false) by (apply N.ltb_ge; lia).
    assert (E2 : o_newremovelte opt <? np = false) by (apply N.ltb_ge; lia).
    rewrite E1, E2 in Hv. cbn in Hv. inversion Hv; reflexivity.
Qed.

(* ---------------------------------------------------------------- writeAppendEntriesReq *)
Lemma in_firstn {A} n : forall (l : list A) x, In x (firstn n l) -> In x l.
Proof.
  induction n as [|n IH]; intros l x H; [destruct H|].
  destruct l as [|y l]; [destruct H|]. cbn in H. destruct H as [H|H]; [left; exact H | right; apply IH; exact H].
Qed.
Lemma in_skipn {A} n : forall (l : list A) x, In x (skipn n l) -> In x l.
Proof.
  induction n as [|n IH]; intros l x H; [exact H|].
  destruct l as [|y l]; [destruct H|]. cbn in H. right. apply IH. exact H.
Qed.

Lemma lagging_follower_gets_entries_or_snapshot :
  forall s id b s' out l rp, st_ldr s = Some l -> find_repl id (ld_repls l) = Some rp ->
    flr_send s id b = Done (s', out) ->
    lo_msgs out = [MNeedSnapshot id] \/
    exists q, lo_msgs out = [MAppend id q] /\ aq_previdx q = rp_next rp - 1 /\
              forall e, In e (aq_entries q) -> In e (st_log s).
Proof.
  intros s id b s' out l rp Hl Hf H. unfold flr_send, get_ldr in H.
  rewrite Hl in H. cbn [obind] in H. rewrite Hf in H.
  destruct (rp_viewprev rp =? nil_view); [discriminate|].
  apply obind_inv in H. destruct H as (p & _ & H).
  destruct p as [prevterm|].
  2:{ left. unfold wmsg in H. inversion H; reflexivity. }
  destruct (_ && _).
  { left. unfold wmsg in H. inversion H; reflexivity. }
  destruct (negb _); [discriminate|].
  right. unfold wmsg in H. inversion H; subst s' out. cbn [lo_msgs].
  eexists. split; [reflexivity|]. cbn [aq_previdx aq_entries]. split; [reflexivity|].
  intros e He. apply in_firstn in He. apply in_skipn in He. exact He.
Qed.

(* ---------------------------------------------------------------- onInstallSnapRequest *)
Lemma install_resets_consistently :
  forall s q np s', on_install_snap_request s q np = Done (success, s') -> st_term s <= sq_term q ->
    st_snapidx s < sq_lastidx q -> log_contains s (sq_lastidx q) = false ->
    st_logprev s' = sq_lastidx q /\ st_lastidx s' = sq_lastidx q /\ st_fsmidx s' = sq_lastidx q /\
    st_commit s' = sq_lastidx q /\ st_lastterm s' = sq_lastterm q.
Proof.
  intros s q np s' H HT HS HC. unfold on_install_snap_request in H.
  assert (E0 : sq_term q <? st_term s = false) by (apply N.ltb_ge; exact HT). rewrite E0 in H.
  apply obind_inv in H. destruct H as (s0 & H0 & H).
  assert (F : st_snapidx s0 = st_snapidx s /\ st_logprev s0 = st_logprev s /\ st_log s0 = st_log s).
  { unfold set_term in H0. destruct (st_term s =? sq_term q); [inversion H0; auto|].
    destruct (st_term s <? sq_term q); [inversion H0; auto | discriminate]. }
  destruct F as (F1 & F2 & F3).
  change (st_snapidx (set_leader (set_role s0 Follower) (sq_src q))) with (st_snapidx s0) in H.
  assert (E1 : sq_lastidx q <=? st_snapidx s0 = false) by (apply N.leb_gt; lia). rewrite E1 in H.
  match type of H with context [log_contains ?X (sq_lastidx q)] =>
    change (log_contains X (sq_lastidx q)) with
      ((st_logprev s0 <? sq_lastidx q) && (sq_lastidx q <=? st_logprev s0 + N.of_nat (length (st_log s0)))) in H end.
  unfold log_contains in HC. rewrite F2, F3, HC in H.
  unfold commit_config, change_config in H. inversion H as [H1]. clear H H1.
  repeat match goal with |- context [if ?b then _ else _] => destruct b end; cbn; repeat split.
Qed.

(* ================================================================ why the second half of
   compaction_refreshes_views is conditional: as first written (unconditional) it is false *)
Module Refuted.
Definition r2 := mkRepl 2 1 false true 0 None 0 1 2 1 0 true 1 None.
Definition l0 := mkLdr true true 2 1 [] [r2] false 0 0 false false 0 [] 0.
Definition opt0 := mkOptions false false false 0 1 [].
(* (1) the snapshot task failed (ErrNoUpdates): nothing is compacted, nobody is notified *)
Definition s1 : nstate :=
  fresh_node 1 1 <| st_role := Leader |> <| st_ldr := Some l0 |> <| st_snapbusy := true |>
    <| st_snapreq := Some (mkSnapReqSt 7 0 0 empty_config (SnapFail 1)) |>.
Theorem failed_snapshot_notifies_nobody :
  st_ldr s1 = Some l0 /\ st_role s1 = Leader /\ st_logprev s1 <= ld_removelte l0 /\ o_newremovelte opt0 <> 0 /\
  exists s' out, on_snapshot_taken opt0 s1 = Done (s', out) /\ st_ldr s' = Some l0 /\
                 In r2 (ld_repls l0) /\ rp_pending r2 = None.
Proof.
  repeat (split; [first [reflexivity | (intros X; discriminate X)]|]).
  vm_compute. eexists. eexists. repeat split. left. reflexivity.
Qed.
(* (2) a state whose cached last index is behind the log (never the case on a run: wf_last of
   CommitFacts) and behind the snapshot: Log.ViewAt(removeLTE, lastIndex) is the nil view *)
Definition e (i : N) := mkEntry i 1 entryNop [].
Definition r3 := mkRepl 2 3 false true 0 None 0 3 4 3 0 true 1 None.
Definition l3 := mkLdr true true 2 1 [] [r3] false 0 0 false false 0 [] 0.
Definition opt3 := mkOptions false false false 0 2 [].
Definition s3 : nstate :=
  fresh_node 1 1 <| st_role := Leader |> <| st_ldr := Some l3 |> <| st_snapbusy := true |>
    <| st_log := [e 1; e 2; e 3] |> <| st_lastidx := 1 |> <| st_snapidx := 3 |>
    <| st_snapreq := Some (mkSnapReqSt 7 3 1 empty_config (SnapOk 3)) |>.
Theorem stale_last_index_gives_nil_view :
  exists s' out l', on_snapshot_taken opt3 s3 = Done (s', out) /\ st_ldr s' = Some l' /\ ld_removelte l' = 2 /\
    map (fun r => option_map pu_viewprev (rp_pending r)) (ld_repls l') = [Some nil_view].
Proof. vm_compute. eexists. eexists. eexists. repeat split. Qed.
End Refuted.
