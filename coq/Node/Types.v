(* State of one Raft node as the handlers of /repo see it: a field-by-field
   mirror of the Go structs Raft, storage, snapshots, Configs, follower,
   candidate, leader, replication(Status), transfer and stateMachine.
   Configurations and entries are the codec model's types, so a config entry in
   the log is decoded by the same function the wire uses. *)
From Coq Require Import List NArith ZArith Bool.
From RecordUpdate Require Import RecordUpdate.
From Verif Require Import Base.Bytes Codec.Messages.
Import ListNotations.
Open Scope N_scope.

(* Raft.state: 'F' 'C' 'L' *)
Definition Follower : N := 70.
Definition Candidate : N := 67.
Definition Leader : N := 76.

(* entryType *)
Definition entryBarrier : N := 1.
Definition entryUpdate : N := 2.
Definition entryRead : N := 3.
Definition entryDirtyRead : N := 4.
Definition entryNop : N := 5.
(* entryConfig = 6 is Codec.Messages.entryConfig *)

(* rpcResult *)
Definition success : N := 1.
Definition identityMismatch : N := 2.
Definition staleTerm : N := 3.
Definition alreadyVoted : N := 4.
Definition leaderKnown : N := 5.
Definition logNotUptodate : N := 6.
Definition prevEntryNotFound : N := 7.
Definition prevTermMismatch : N := 8.
Definition nonVoter : N := 9.
Definition readErr : N := 10.
(* unexpectedErr = 11 is Codec.Messages.unexpectedErr *)

(* Action *)
Definition ActNone : N := 0.
Definition ActPromote : N := 1.
Definition ActDemote : N := 2.
Definition ActRemove : N := 3.
Definition ActForceRemove : N := 4.

Definition is_log_entry (typ : N) : bool :=
  negb ((typ =? entryRead) || (typ =? entryDirtyRead) || (typ =? entryBarrier)).

(* ---- configuration helpers (config.go) ---- *)
Fixpoint find_node (id : N) (l : list node) : option node :=
  match l with
  | [] => None
  | n :: r => if n_id n =? id then Some n else find_node id r
  end.
Definition cfg_node (c : config) (id : N) : option node := find_node id (c_nodes c).
Definition is_voter (c : config) (id : N) : bool :=
  match cfg_node c id with Some n => n_voter n | None => false end.
Definition num_voters (c : config) : N :=
  N.of_nat (length (filter n_voter (c_nodes c))).
Definition quorum (c : config) : N := num_voters c / 2 + 1.
Definition is_bootstrapped (c : config) : bool := 0 <? c_index c.
Definition is_stable (c : config) : bool := forallb (fun n => n_action n =? ActNone) (c_nodes c).
Definition empty_config : config := mkConfig [] 0 0.

(* Node.nextAction *)
Definition next_action (n : node) : N :=
  if n_action n =? ActForceRemove then ActForceRemove
  else if n_voter n then
    (if (n_action n =? ActDemote) || (n_action n =? ActRemove) then ActDemote else ActNone)
  else if (n_action n =? ActPromote) || (n_action n =? ActRemove) then n_action n
  else ActNone.

(* ---- leader-side records ---- *)
Record roundst := mkRound { rd_ordinal : N; rd_last : N; rd_finished : bool }.

(* leaderUpdate waiting in a replication's leaderUpdateCh *)
Record pendupd := mkPend {
  pu_viewprev : N;        (* u.log.PrevIndex(); 2^64-1 stands for the nil view *)
  pu_last : N;            (* u.log.LastIndex() *)
  pu_commit : N;
  pu_voter : bool         (* u.config != nil (a pointer to the leader's Latest, read when consumed) *)
}.

Record replst := mkRepl {
  rp_id : N;
  (* replicationStatus: owned by the leader goroutine *)
  rp_match : N;
  rp_nocontact : bool;
  rp_voter : bool;
  rp_action : N;
  rp_round : option roundst;
  rp_removelte : N;
  (* replication: owned by the replication goroutine *)
  rp_gmatch : N;
  rp_next : N;
  rp_ldrlast : N;
  rp_viewprev : N;
  rp_gvoter : bool;
  rp_commit : N;          (* ldrCommitIndex of the appendReq this replication reuses *)
  rp_pending : option pendupd   (* content of leaderUpdateCh (capacity 1, newest wins) *)
}.

Record newent := mkNewEnt { ne_index : N; ne_typ : N; ne_tid : N }.

Record ldrst := mkLdr {
  ld_present : bool;      (* l.node.ID != 0: leader is in Latest *)
  ld_voter : bool;        (* l.node.Voter *)
  ld_numvoters : N;
  ld_start : N;
  ld_queue : list newent;
  ld_repls : list replst; (* sorted by id *)
  ld_tr_active : bool;    (* transfer.timer.active = inProgress() *)
  ld_tr_term : N;
  ld_tr_target : N;
  ld_tr_resp : bool;      (* transfer.respCh != nil *)
  ld_tr_newterm : bool;   (* transfer.newTermTimer.active *)
  ld_tr_tid : N;          (* id of the transfer task *)
  ld_waitstable : list N; (* ids of the waitForStableConfig tasks *)
  ld_removelte : N
}.

(* a TakeSnapshot task in flight: captured by onTakeSnapshot, run by its goroutine
   (through the state-machine goroutine), reported back through snapTakenCh *)
Inductive snapdone :=
| SnapPending                      (* state captured by the state machine, goroutine not yet run *)
| SnapOk (index : N)               (* snapshot published at this index *)
| SnapFail (code : N).             (* 1 ErrNoUpdates, 2 ErrSnapshotThreshold *)
(* sr_index/sr_term: fsm.index/term when the request reached the state machine *)
Record snapreqst := mkSnapReqSt { sr_tid : N; sr_index : N; sr_term : N; sr_config : config; sr_done : snapdone }.

Record nstate := mkNode_ {
  st_cid : N;
  st_nid : N;
  (* storage *)
  st_term : N;
  st_voted : N;
  st_logprev : N;             (* log.PrevIndex() *)
  st_log : list entry;        (* entries logprev+1 .. *)
  st_flushed : N;             (* every entry <= this index is known to be on stable storage (lower bound) *)
  st_lastidx : N;             (* storage.lastLogIndex *)
  st_lastterm : N;            (* storage.lastLogTerm *)
  st_snapidx : N;             (* snaps.index *)
  st_snapterm : N;            (* snaps.term *)
  st_snapcfg : config;        (* config stored in the latest snapshot's meta *)
  st_committed : config;      (* configs.Committed *)
  st_latest : config;         (* configs.Latest *)
  (* volatile *)
  st_role : N;
  st_leader : N;
  st_commit : N;
  st_timer : bool;            (* Raft.timer.active *)
  st_snapbusy : bool;         (* snapTakenCh != nil *)
  st_snapreq : option snapreqst;
  st_closed : bool;           (* isClosed() *)
  (* state machine goroutine *)
  st_fsmidx : N;
  st_fsmterm : N;
  (* follower / candidate / leader *)
  st_aborted : bool;          (* follower.electionAborted *)
  st_votesneeded : Z;         (* candidate.votesNeeded (Go int) *)
  st_cndtransfer : bool;      (* candidate.transfer *)
  st_ldr : option ldrst
}.

(* functional record update (coq-record-update: plain definitions, no axioms) *)
#[export] Instance eta_nstate : Settable _ := settable! mkNode_
  <st_cid; st_nid; st_term; st_voted; st_logprev; st_log; st_flushed; st_lastidx; st_lastterm;
   st_snapidx; st_snapterm; st_snapcfg; st_committed; st_latest; st_role; st_leader; st_commit;
   st_timer; st_snapbusy; st_snapreq; st_closed; st_fsmidx; st_fsmterm; st_aborted; st_votesneeded; st_cndtransfer; st_ldr>.
#[export] Instance eta_ldrst : Settable _ := settable! mkLdr
  <ld_present; ld_voter; ld_numvoters; ld_start; ld_queue; ld_repls; ld_tr_active; ld_tr_term; ld_tr_target;
   ld_tr_resp; ld_tr_newterm; ld_tr_tid; ld_waitstable; ld_removelte>.
#[export] Instance eta_replst : Settable _ := settable! mkRepl
  <rp_id; rp_match; rp_nocontact; rp_voter; rp_action; rp_round; rp_removelte; rp_gmatch; rp_next; rp_ldrlast;
   rp_viewprev; rp_gvoter; rp_commit; rp_pending>.

Definition nil_view : N := 18446744073709551615.

Definition set_term_vote (s : nstate) (t v : N) : nstate := s <| st_term := t |> <| st_voted := v |>.
Definition set_role (s : nstate) (r : N) : nstate := s <| st_role := r |>.
Definition set_leader (s : nstate) (l : N) : nstate := s <| st_leader := l |>.
Definition set_commit (s : nstate) (c : N) : nstate := s <| st_commit := c |>.
Definition set_log (s : nstate) (prev : N) (l : list entry) (li lt : N) : nstate :=
  s <| st_logprev := prev |> <| st_log := l |> <| st_lastidx := li |> <| st_lastterm := lt |>.
Definition set_flushed (s : nstate) (f : N) : nstate := s <| st_flushed := f |>.
Definition set_snap (s : nstate) (i t : N) (c : config) : nstate :=
  s <| st_snapidx := i |> <| st_snapterm := t |> <| st_snapcfg := c |>.
Definition set_configs (s : nstate) (cm lt : config) : nstate := s <| st_committed := cm |> <| st_latest := lt |>.
Definition set_closed (s : nstate) (b : bool) : nstate := s <| st_closed := b |>.
Definition set_fsm (s : nstate) (i t : N) : nstate := s <| st_fsmidx := i |> <| st_fsmterm := t |>.
Definition set_flr (s : nstate) (aborted timer : bool) : nstate := s <| st_aborted := aborted |> <| st_timer := timer |>.
Definition set_cnd (s : nstate) (needed : Z) (transfer : bool) : nstate :=
  s <| st_votesneeded := needed |> <| st_cndtransfer := transfer |>.
Definition set_ldr (s : nstate) (l : option ldrst) : nstate := s <| st_ldr := l |>.
Definition set_snapbusy (s : nstate) (b : bool) : nstate := s <| st_snapbusy := b |>.
Definition set_timer (s : nstate) (b : bool) : nstate := s <| st_timer := b |>.

(* log lookups *)
Definition log_get (s : nstate) (i : N) : option entry :=
  if st_logprev s <? i then nth_error (st_log s) (N.to_nat (i - st_logprev s - 1)) else None.
Definition log_contains (s : nstate) (i : N) : bool :=
  (st_logprev s <? i) && (i <=? st_logprev s + N.of_nat (length (st_log s))).
Definition log_lastindex (s : nstate) : N := st_logprev s + N.of_nat (length (st_log s)).
