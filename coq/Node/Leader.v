(* Executable model of the leader side:
     leader.go        init, release, storeEntry, addReplication, checkReplUpdates, checkQuorum,
                      majorityMatchIndex, onMajorityCommit, applyCommitted, notifyFlr, checkLogCompact
     config.go        leader.setCommitIndex, leader.changeConfig
     changeconfig.go  onChangeConfig, doChangeConfig, beginFinishedRounds, checkConfigActions,
                      checkConfigAction, canChangeConfig, onWaitForStableConfig, round
     transfer.go      onTransfer, validateTransfer, tryTransfer, onTransferTimeout, replyTransfer,
                      onTimeoutNowResult, onNewTermTimeout
     replication.go   onLeaderUpdate, writeAppendEntriesReq, onAppendEntriesResp, the result handling of
                      sendInstallSnapReq (the bookkeeping a replication goroutine does; its control
                      flow -- probe, pipeline, back-off -- is the scheduler's, see DESIGN.md)
     fsm.go           onApply for the leader's queue
   One function per Go function, same branch order; asserts/panics are [Err].  No proofs here. *)
From Coq Require Import List NArith ZArith Bool.
From RecordUpdate Require Import RecordUpdate.
From Verif Require Import Base.Bytes Codec.Messages Node.Types Node.Handlers.
Import ListNotations.
Open Scope N_scope.

Record options := mkOptions {
  o_shutdown_on_remove : bool;
  o_quorum_wait : bool;       (* Raft.quorumWait != 0 *)
  o_slow : bool;              (* oracle: round.Duration() > promoteThreshold *)
  o_newprev : N;              (* oracle: Log.PrevIndex() after a compaction performed by this event (0: none) *)
  o_newremovelte : N;         (* oracle: leader.removeLTE chosen by onSnapshotTaken (a segment boundary; 0: unchanged) *)
  o_order : list N            (* oracle: order in which Go iterates maps keyed by node id *)
}.

(* what a task is told (canonical form of the value/error handed to task.reply) *)
Inductive reply :=
| RpNil | RpVal (n : N) | RpConfig (c : config)
| RpNotLeader (lost : bool)
| RpInProgress (k : N)     (* 1 transferLeadership 2 demoteLeader 3 removeLeader 4 configChange 5 takeSnapshot *)
| RpNotCommitReady | RpStaleConfig | RpInvalid | RpServerClosed | RpQuorumUnreachable
| RpTimeout | RpTransferNoVoter | RpTransferSelf | RpTransferTargetNonvoter | RpTransferInvalidTarget
| RpTargetRejected | RpSnapThreshold | RpNoUpdates.

(* messages a step puts on the wire / into channels *)
Inductive lmsg :=
| MTimeoutNow (target : N)                                   (* timeoutNowReq{term, nid} to target *)
| MReplUpdate (id : N) (kind : N) (val : N)                  (* replUpdate from a replication: 1 matchIndex 2 removeLTE 3 newTerm *)
| MAppend (id : N) (q : appendreq)                           (* appendReq written by a replication *)
| MNeedSnapshot (id : N).                                    (* writeAppendEntriesReq returned ErrNotFound *)

Record lout := mkOut { lo_replies : list (N * reply); lo_msgs : list lmsg }.
Definition no_out : lout := mkOut [] [].
Definition out_app (a b : lout) : lout := mkOut (lo_replies a ++ lo_replies b) (lo_msgs a ++ lo_msgs b).
Definition W := (nstate * lout)%type.

Definition wret (s : nstate) : outcome W := Done (s, no_out).
Definition wreply (s : nstate) (tid : N) (r : reply) : outcome W :=
  Done (s, mkOut (if tid =? 0 then [] else [(tid, r)]) []).
Definition wmsg (s : nstate) (m : lmsg) : outcome W := Done (s, mkOut [] [m]).
Definition wbind (o : outcome W) (f : nstate -> outcome W) : outcome W :=
  match o with
  | Err e => Err e
  | Done (s, out) => match f s with
                     | Err e => Err e
                     | Done (s', out') => Done (s', out_app out out')
                     end
  end.
Notation "s <~~ o ;; q" := (wbind o (fun s => q)) (at level 61, o at next level, right associativity).

Definition get_ldr (s : nstate) : outcome ldrst :=
  match st_ldr s with Some l => Done l | None => Err EBug end.
Definition put_ldr (s : nstate) (l : ldrst) : nstate := set_ldr s (Some l).
Definition upd_ldr (s : nstate) (f : ldrst -> ldrst) : nstate :=
  match st_ldr s with Some l => put_ldr s (f l) | None => s end.

Fixpoint find_repl (id : N) (l : list replst) : option replst :=
  match l with [] => None | r :: t => if rp_id r =? id then Some r else find_repl id t end.
Fixpoint put_repl_sorted (r : replst) (l : list replst) : list replst :=
  match l with
  | [] => [r]
  | x :: t => if rp_id x =? rp_id r then r :: t
              else if rp_id r <? rp_id x then r :: l else x :: put_repl_sorted r t
  end.
Definition upd_repl (s : nstate) (id : N) (f : replst -> replst) : nstate :=
  upd_ldr s (fun l => l <| ld_repls := map (fun r => if rp_id r =? id then f r else r) (ld_repls l) |>).

Definition transfer_in_progress (l : ldrst) : bool := ld_tr_active l.
Definition target_chosen (l : ldrst) : bool := ld_tr_resp l || ld_tr_newterm l.
(* canChangeConfig: the latest configuration is committed, this leader has committed an entry
   of its own term (commitIndex >= startIndex), and no transfer is in progress *)
Definition can_change_config (s : nstate) (l : ldrst) : bool :=
  configs_committed s && (ld_start l <=? st_commit s) && negb (transfer_in_progress l).

(* before the repair recorded in known_findings.json (D3) the own-term-commit condition was only
   applied to requests submitted by the user, not to actions found pending at leader.init *)
Definition can_change_config_before_fix (s : nstate) (l : ldrst) : bool :=
  configs_committed s && negb (transfer_in_progress l).

(* Log.ViewAt(p, q) on the node's log: Err = panic, nil_view = nil *)
Definition view_at (s : nstate) (p q : N) : outcome N :=
  if log_lastindex s <? q then Err ENilView
  else if (q <? p) || (p <? st_logprev s) then Done nil_view
  else Done p.

(* ---------------------------------------------------------------- notifyFlr *)
Definition notify_flr (s : nstate) (include_config : bool) : outcome nstate :=
  l <~ get_ldr s ;;
  vp <~ view_at s (ld_removelte l) (st_lastidx s) ;;
  let u := mkPend vp (st_lastidx s) (st_commit s) include_config in
  Done (put_ldr s (l <| ld_repls := map (fun r => r <| rp_pending := Some u |>) (ld_repls l) |>)).

(* ---------------------------------------------------------------- addReplication *)
Definition add_replication (s : nstate) (n : node) : outcome nstate :=
  l <~ get_ldr s ;;
  if n_id n =? st_nid s then Err EAssert else
  vp <~ view_at s (ld_removelte l) (st_lastidx s) ;;
  let r := mkRepl (n_id n) 0 false (n_voter n) (n_action n) None (ld_removelte l)
                  0 (st_lastidx s + 1) (st_lastidx s) vp (n_voter n) (st_commit s) None in
  Done (put_ldr s (l <| ld_repls := put_repl_sorted r (ld_repls l) |>)).

Fixpoint add_replications (s : nstate) (ns : list node) : outcome nstate :=
  match ns with
  | [] => Done s
  | n :: r => if n_id n =? st_nid s then add_replications s r
              else s1 <~ add_replication s n ;; add_replications s1 r
  end.

(* ---------------------------------------------------------------- majorityMatchIndex *)
Fixpoint insert_desc (x : N) (l : list N) : list N :=
  match l with [] => [x] | y :: t => if y <? x then x :: l else y :: insert_desc x t end.
Definition sort_desc (l : list N) : list N := fold_right insert_desc [] l.

Definition voter_matches (s : nstate) (l : ldrst) : outcome (list N) :=
  fold_right (fun n acc =>
      a <~ acc ;;
      if n_voter n then
        if n_id n =? st_nid s then Done (st_lastidx s :: a)
        else match find_repl (n_id n) (ld_repls l) with
             | Some r => Done (rp_match r :: a)
             | None => Err EBug                 (* l.repls[n.ID] is nil: nil dereference *)
             end
      else Done a) (Done []) (c_nodes (st_latest s)).

Definition majority_match (s : nstate) (l : ldrst) : outcome N :=
  if (ld_numvoters l =? 1) && ld_voter l then Done (st_lastidx s)
  else
    ms <~ voter_matches s l ;;
    let sorted := sort_desc ms in
    let q := (length ms / 2 + 1)%nat in      (* quorum := i/2 + 1 *)
    match nth_error (sorted ++ repeat 0 (length (c_nodes (st_latest s)) - length ms)%nat) (q - 1)%nat with
    | Some m => Done m
    | None => Err EBug                          (* index out of range *)
    end.

(* ---------------------------------------------------------------- the leader's applyCommitted + fsm.onApply *)
Definition update_result (data : bytes) : N :=
  N.of_nat (length data) * 256 + match data with b :: _ => b | [] => 0 end.

Fixpoint split_queue (commit : N) (q : list newent) : list newent * list newent :=
  match q with
  | [] => ([], [])
  | ne :: r =>
      if (ne_index ne <=? commit) || ((ne_index ne =? commit + 1) && negb (is_log_entry (ne_typ ne))) then
        let (a, b) := split_queue commit r in (ne :: a, b)
      else ([], q)
  end.

(* the queue part of fsm.onApply: every item must sit at fsm.index+1 *)
Fixpoint apply_queue (s : nstate) (q : list newent) (out : list (N * reply)) : outcome (nstate * list (N * reply)) :=
  match q with
  | [] => Done (s, out)
  | ne :: r =>
      if negb (ne_index ne =? st_fsmidx s + 1) then Err EAssert else
      let rep :=
        if ne_typ ne =? entryUpdate then
          match log_get s (ne_index ne) with Some e => RpVal (update_result (e_data e)) | None => RpNil end
        else RpNil in
      let s1 := if is_log_entry (ne_typ ne) then set_fsm s (ne_index ne) (st_term s) else s in
      apply_queue s1 r (out ++ (if ne_tid ne =? 0 then [] else [(ne_tid ne, rep)]))
  end.

Definition leader_apply_committed (s : nstate) : outcome W :=
  l <~ get_ldr s ;;
  let (head, rest) := split_queue (st_commit s) (ld_queue l) in
  let s1 := put_ldr s (l <| ld_queue := rest |>) in
  if log_lastindex s1 <? st_commit s1 then Err ENilView
  else if st_commit s1 <? st_logprev s1 then Err ENilView
  else
    let front := match head with ne :: _ => ne_index ne | [] => st_commit s1 + 1 end in
    if front <? st_fsmidx s1 + 1 then
      (* nothing to read from the log; the queue items are handled next *)
      r <~ apply_queue s1 head [] ;;
      let (s2, reps) := r in
      if st_fsmidx s2 =? st_commit s2 then Done (s2, mkOut reps []) else Err EAssert
    else
      match terms_upto s1 (st_fsmidx s1 + 1) (N.to_nat (front - 1 - st_fsmidx s1)) (st_fsmterm s1) with
      | None => Err EBug
      | Some t =>
          let s2 := if st_fsmidx s1 <? front - 1 then set_fsm s1 (front - 1) t else s1 in
          r <~ apply_queue s2 head [] ;;
          let (s3, reps) := r in
          if st_fsmidx s3 =? st_commit s3 then Done (s3, mkOut reps []) else Err EAssert
      end.

(* ---------------------------------------------------------------- rounds *)
Definition begin_round (r : roundst) (last : N) : roundst := mkRound (rd_ordinal r + 1) last false.

(* beginFinishedRounds *)
Definition begin_finished_rounds (s : nstate) : nstate :=
  upd_ldr s (fun l => l <| ld_repls := map (fun r =>
     match rp_round r with
     | Some rd => if rd_finished rd then r <| rp_round := Some (begin_round rd (st_lastidx s)) |> else r
     | None => r
     end) (ld_repls l) |>).

(* ---------------------------------------------------------------- config helpers *)
Definition zero_node : node := mkNode 0 [] false [] 0.
Definition cfg_node0 (c : config) (id : N) : node :=
  match cfg_node c id with Some n => n | None => zero_node end.
Definition cfg_set_node (c : config) (n : node) : config :=
  mkConfig (put_node n (c_nodes c)) (c_index c) (c_term c).
Definition cfg_del_node (c : config) (id : N) : config :=
  mkConfig (filter (fun n => negb (n_id n =? id)) (c_nodes c)) (c_index c) (c_term c).
Definition with_voter_action (n : node) (v : bool) (a : N) : node := mkNode (n_id n) (n_addr n) v (n_data n) a.

(* the entry Config.encode() yields; storeEntry overwrites index and term *)
Definition config_new_entry (c : config) : N * bytes := (entryConfig, enc_config_data (c_nodes c)).

(* ---------------------------------------------------------------- the mutually recursive core:
   storeEntry -> leader.changeConfig -> checkConfigActions -> checkConfigAction -> doChangeConfig -> storeEntry
   and storeEntry -> onMajorityCommit -> leader.setCommitIndex -> checkConfigActions.
   Recursion is on explicit fuel; running out is [Err EBug] and never happens on
   the runs compared with the implementation (depth is bounded by the number of
   pending configuration actions). *)
Record newreq := mkNewReq { nq_typ : N; nq_data : bytes; nq_tid : N }.

Section Core.
Variable opt : options.

Fixpoint store_entry (fuel : nat) (s : nstate) (nes : list newreq) {struct fuel} : outcome W :=
  match fuel with O => Err EBug | S f =>
  let last0 := st_lastidx s in
  let cfgidx0 := c_index (st_latest s) in
  let fix loop (s : nstate) (nes : list newreq) {struct nes} : outcome W :=
    match nes with
    | [] => wret s
    | ne :: rest =>
        l <~ get_ldr s ;;
        if transfer_in_progress l then
          s1 <~~ wreply s (nq_tid ne) (RpInProgress 1) ;; loop s1 rest
        else if negb (ld_voter l) then
          s1 <~~ wreply s (nq_tid ne)
                   (match cfg_node (st_latest s) (st_nid s) with Some _ => RpInProgress 2 | None => RpInProgress 3 end) ;;
          loop s1 rest
        else
          let e := mkEntry (st_lastidx s + 1) (st_term s) (nq_typ ne) (nq_data ne) in
          let s1 := put_ldr s (l <| ld_queue := ld_queue l ++ [mkNewEnt (e_index e) (e_typ e) (nq_tid ne)] |>) in
          if is_log_entry (nq_typ ne) then
            s2 <~ append_entry s1 e ;;
            if nq_typ ne =? entryConfig then
              match config_of_entry e with
              | None => Err EBug
              | Some c => s3 <~~ leader_change_config f s2 c ;; loop s3 rest
              end
            else loop s2 rest
          else loop s1 rest
    end in
  s1 <~~ loop s nes ;;
  l1 <~ get_ldr s1 ;;
  s2 <~~ (match ld_queue l1 with
          | ne :: _ => if negb (is_log_entry (ne_typ ne)) then leader_apply_committed s1 else wret s1
          | [] => wret s1
          end) ;;
  if last0 <? st_lastidx s2 then
    let s3 := begin_finished_rounds s2 in
    s4 <~ notify_flr s3 (cfgidx0 <? c_index (st_latest s3)) ;;
    l4 <~ get_ldr s4 ;;
    if (ld_numvoters l4 =? 1) && ld_voter l4 then on_majority_commit f s4 else wret s4
  else wret s2
  end

with leader_change_config (fuel : nat) (s : nstate) (c : config) {struct fuel} : outcome W :=
  match fuel with O => Err EBug | S f =>
  l <~ get_ldr s ;;
  let me := cfg_node c (st_nid s) in
  let l1 := l <| ld_present := match me with Some _ => true | None => false end |>
              <| ld_voter := match me with Some n => n_voter n | None => false end |>
              <| ld_numvoters := num_voters c |> in
  let s1 := change_config (put_ldr s l1) c in
  (* remove replications of nodes that left *)
  let s2 := upd_ldr s1 (fun l => l <| ld_repls := filter (fun r => match cfg_node c (rp_id r) with Some _ => true | None => false end) (ld_repls l) |>) in
  (* add new ones, refresh status.node of the others *)
  s3 <~ fold_left (fun acc n =>
          s <~ acc ;;
          if n_id n =? st_nid s then Done s else
          l <~ get_ldr s ;;
          match find_repl (n_id n) (ld_repls l) with
          | None => add_replication s n
          | Some _ => Done (upd_repl s (n_id n) (fun r => r <| rp_voter := n_voter n |> <| rp_action := n_action n |>))
          end) (c_nodes c) (Done s2) ;;
  check_config_actions f s3 0 (st_latest s3)
  end

with check_config_actions (fuel : nat) (s : nstate) (tid : N) (c : config) {struct fuel} : outcome W :=
  match fuel with O => Err EBug | S f =>
  l <~ get_ldr s ;;
  let n := cfg_node0 c (st_nid s) in
  r <~ (if can_change_config s l && negb (n_action n =? ActNone) then
          if n_action n =? ActDemote then
            let c' := cfg_set_node c (with_voter_action n false ActNone) in
            w <~ do_change_config f s tid c' ;; Done (w, c')
          else if (n_action n =? ActRemove) || (n_action n =? ActForceRemove) then
            let c' := cfg_del_node c (st_nid s) in
            w <~ do_change_config f s tid c' ;; Done (w, c')
          else Err EBug                         (* panic(unreachable()) *)
        else Done ((s, no_out), c)) ;;
  let '((s1, out1), c1) := r in
  l1 <~ get_ldr s1 ;;
  let present := map rp_id (ld_repls l1) in
  let visit := filter (fun id => existsb (N.eqb id) present) (o_order opt) ++
               filter (fun id => negb (existsb (N.eqb id) (o_order opt))) present in
  fold_left (fun acc id =>
      s <~~ acc ;;
      l <~ get_ldr s ;;
      match find_repl id (ld_repls l) with
      | None => wret s
      | Some _ => check_config_action f s tid c1 id
      end) visit (Done (s1, out1))
  end

with check_config_action (fuel : nat) (s : nstate) (tid : N) (c : config) (id : N) {struct fuel} : outcome W :=
  match fuel with O => Err EBug | S f =>
  l <~ get_ldr s ;;
  match find_repl id (ld_repls l) with
  | None => Err EBug
  | Some rp =>
      let n := cfg_node0 c id in
      let action := next_action n in
      if action =? ActNone then wret s else
      (* start or stop rounds *)
      let round1 := if negb (action =? ActPromote) then None
                    else match rp_round rp with
                         | None => Some (mkRound 1 (st_lastidx s) false)
                         | Some r => Some r
                         end in
      (* finish round if completed, start new round if necessary *)
      let round2 := match round1 with
                    | Some r => if negb (rd_finished r) && (rd_last r <=? rp_match rp)
                                then Some (mkRound (rd_ordinal r) (rd_last r) true) else Some r
                    | None => None
                    end in
      let keep_waiting := match round2 with Some r => negb (rd_finished r) | None => false end in
      let restart := match round2 with
                     | Some r => rd_finished r && (rp_match rp <? st_lastidx s) && o_slow opt
                     | None => false
                     end in
      let round3 := if restart then option_map (fun r => begin_round r (st_lastidx s)) round2 else round2 in
      let s1 := upd_repl s id (fun r => r <| rp_round := round3 |>) in
      if keep_waiting || restart then wret s1 else
      l1 <~ get_ldr s1 ;;
      if negb (can_change_config s1 l1) then wret s1 else
      if action =? ActPromote then
        do_change_config f s1 tid (cfg_set_node c (with_voter_action n true ActNone))
      else if action =? ActRemove then
        if c_index (st_latest s1) <=? rp_match rp then do_change_config f s1 tid (cfg_del_node c id) else wret s1
      else if action =? ActForceRemove then
        do_change_config f s1 tid (cfg_del_node c id)
      else (* Demote *)
        do_change_config f s1 tid
          (cfg_set_node c (with_voter_action n false (if n_action n =? ActDemote then ActNone else n_action n)))
  end
  end

with do_change_config (fuel : nat) (s : nstate) (tid : N) (c : config) {struct fuel} : outcome W :=
  match fuel with O => Err EBug | S f =>
  store_entry f s [mkNewReq entryConfig (enc_config_data (c_nodes c)) tid]
  end

with on_majority_commit (fuel : nat) (s : nstate) {struct fuel} : outcome W :=
  match fuel with O => Err EBug | S f =>
  l <~ get_ldr s ;;
  m <~ majority_match s l ;;
  if (st_commit s <? m) && (ld_start l <=? m) then
    s1 <~~ leader_set_commit_index f s m ;;
    s2 <~~ leader_apply_committed s1 ;;
    s3 <~ notify_flr s2 false ;;
    wret s3
  else wret s
  end

with leader_set_commit_index (fuel : nat) (s : nstate) (index : N) {struct fuel} : outcome W :=
  match fuel with O => Err EBug | S f =>
  let s1 := commit_log s index in
  l0 <~ get_ldr s ;;
  let ready := (st_commit s <? ld_start l0) && (ld_start l0 <=? index) in
  let (s2, committed) := raft_set_commit_index (o_shutdown_on_remove opt) s1 index in
  s2 <~~ (if negb committed && ready then check_config_actions f s2 0 (st_latest s2) else wret s2) ;;
  if committed then
    l <~ get_ldr s2 ;;
    if configs_committed s2 && is_stable (st_latest s2) then
      Done (put_ldr s2 (l <| ld_waitstable := [] |>),
            mkOut (map (fun t => (t, RpConfig (st_latest s2))) (ld_waitstable l)) [])
    else check_config_actions f s2 0 (st_latest s2)
  else wret s2
  end.

End Core.

Definition FUEL : nat := 40.

(* ---------------------------------------------------------------- leader.init / release / onTimeout *)
Definition leader_init (opt : options) (s : nstate) : outcome nstate :=
  if negb (st_leader s =? st_nid s) then Err EAssert else
  let me := cfg_node (st_latest s) (st_nid s) in
  let l := mkLdr (match me with Some _ => true | None => false end)
                 (match me with Some n => n_voter n | None => false end)
                 (num_voters (st_latest s)) (st_lastidx s + 1) [] []
                 false 0 0 false false 0 [] (st_logprev s) in
  s1 <~ add_replications (put_ldr s l) (c_nodes (st_latest s)) ;;
  w <~ (s2 <~~ check_config_actions opt FUEL s1 0 (st_latest s1) ;;
        store_entry opt FUEL s2 [mkNewReq entryNop [] 0]) ;;
  Done (fst w).

(* replies produced by init (none can occur: no task is pending yet) are dropped above;
   [leader_init_out] exposes them for the theorems *)
Definition leader_release_out (s : nstate) : nstate * lout :=
  match st_ldr s with
  | None => (s, no_out)
  | Some l =>
      let tr := if transfer_in_progress l then
                  [(ld_tr_tid l, if ld_tr_term l <? st_term s then RpNil
                                 else if st_closed s then RpServerClosed else RpQuorumUnreachable)]
                else [] in
      let s1 := if st_leader s =? st_nid s then set_leader s 0 else s in
      let err := if st_closed s1 then RpServerClosed else RpNotLeader true in
      let qs := map (fun ne => (ne_tid ne, err)) (filter (fun ne => negb (ne_tid ne =? 0)) (ld_queue l)) in
      let ws := map (fun t => (t, err)) (ld_waitstable l) in
      (set_ldr s1 None, mkOut (tr ++ qs ++ ws) [])
  end.
Definition leader_release (s : nstate) : nstate := fst (leader_release_out s).

(* checkQuorum(wait); wait = 0 is "step down now" *)
Definition check_quorum (opt : options) (s : nstate) (wait_nonzero : bool) : outcome nstate :=
  l <~ get_ldr s ;;
  r <~ fold_left (fun acc n =>
         a <~ acc ;;
         let '(voters, reachable) := a in
         if n_voter n then
           if n_id n =? st_nid s then Done (voters + 1, reachable + 1)
           else match find_repl (n_id n) (ld_repls l) with
                | Some rp => Done (voters + 1, if rp_nocontact rp then reachable else reachable + 1)
                | None => Err EBug
                end
         else Done a) (c_nodes (st_latest s)) (Done (0, 0)) ;;
  let '(voters, reachable) := r in
  if voters / 2 + 1 <=? reachable then Done (if st_timer s then set_timer s false else s)
  else if negb wait_nonzero then Done (set_leader (set_role s Follower) 0)
  else Done (if st_timer s then s else set_timer s true).

Definition leader_on_timeout (opt : options) (s : nstate) : outcome nstate := check_quorum opt s false.

(* ---------------------------------------------------------------- transfer.go *)
Definition repl_ready (s : nstate) (l : ldrst) (id : N) : outcome bool :=
  match find_repl id (ld_repls l) with
  | Some rp => Done (negb (rp_nocontact rp) && (rp_match rp =? st_lastidx s))
  | None => Err EBug
  end.

Definition try_transfer (opt : options) (s : nstate) : outcome W :=
  l <~ get_ldr s ;;
  target <~ (if negb (ld_tr_target l =? 0) then
               if is_voter (st_latest s) (ld_tr_target l) then
                 ok <~ repl_ready s l (ld_tr_target l) ;; Done (if ok then ld_tr_target l else 0)
               else Done 0
             else
               let ids := map n_id (c_nodes (st_latest s)) in
               let visit := filter (fun id => existsb (N.eqb id) ids) (o_order opt) ++
                            filter (fun id => negb (existsb (N.eqb id) (o_order opt))) ids in
               fold_left (fun acc id =>
                   a <~ acc ;;
                   if negb (a =? 0) then Done a
                   else if negb (id =? st_nid s) && is_voter (st_latest s) id then
                     ok <~ repl_ready s l id ;; Done (if ok then id else 0)
                   else Done 0) visit (Done 0)) ;;
  if target =? 0 then wret s
  else wmsg (put_ldr s (l <| ld_tr_resp := true |>)) (MTimeoutNow target).

Definition transfer_reply (s : nstate) (r : reply) : outcome W :=
  l <~ get_ldr s ;;
  (* term, target and task of a finished transfer are dead values: cleared, as the state dump does *)
  wreply (put_ldr s (l <| ld_tr_active := false |> <| ld_tr_resp := false |> <| ld_tr_newterm := false |>
                       <| ld_tr_term := 0 |> <| ld_tr_target := 0 |> <| ld_tr_tid := 0 |>))
         (ld_tr_tid l) r.

Definition reply_transfer (opt : options) (s : nstate) (r : reply) : outcome W :=
  s1 <~~ transfer_reply s r ;; check_config_actions opt FUEL s1 0 (st_latest s1).

Definition on_transfer (opt : options) (s : nstate) (tid target : N) : outcome W :=
  l <~ get_ldr s ;;
  if transfer_in_progress l then wreply s tid (RpInProgress 1)
  else if num_voters (st_latest s) =? 1 then wreply s tid RpTransferNoVoter
  else
    let bad := if target =? 0 then None
               else if target =? st_nid s then Some RpTransferSelf
               else match cfg_node (st_latest s) target with
                    | Some n => if n_voter n then None else Some RpTransferTargetNonvoter
                    | None => Some RpTransferInvalidTarget
                    end in
    match bad with
    | Some r => wreply s tid r
    | None =>
        try_transfer opt (put_ldr s (l <| ld_tr_term := st_term s |> <| ld_tr_tid := tid |> <| ld_tr_target := target |>
                                        <| ld_tr_active := true |>))
    end.

Definition on_timeout_now_result (opt : options) (s : nstate) (from : N) (err : bool) (result : N) : outcome W :=
  l <~ get_ldr s ;;
  let s1 := put_ldr s (l <| ld_tr_resp := false |>) in
  if err then
    match find_repl from (ld_repls l) with
    | None => Err EBug
    | Some _ =>
        let s2 := upd_repl s1 from (fun r => r <| rp_nocontact := true |>) in
        if ld_tr_target l =? 0 then try_transfer opt s2 else wret s2
    end
  else if negb (result =? success) then
    if ld_tr_target l =? 0 then reply_transfer opt s1 RpTargetRejected else try_transfer opt s1
  else wret (upd_ldr s1 (fun l => l <| ld_tr_newterm := true |>)).

(* ---------------------------------------------------------------- changeconfig.go onChangeConfig *)
Fixpoint has_dup_addr (ns : list node) : bool :=
  match ns with
  | [] => false
  | n :: r => existsb (fun m => Messages.bytes_eqb (n_addr m) (n_addr n)) r || has_dup_addr r
  end.
(* Config.validate for configurations whose addresses are syntactically valid host:port *)
Definition config_valid (c : config) : bool :=
  forallb (fun n => negb (n_id n =? 0) && negb (match n_addr n with [] => true | _ => false end) &&
                    negb ((n_action n =? ActPromote) && n_voter n) &&
                    negb ((n_action n =? ActDemote) && negb (n_voter n))) (c_nodes c) &&
  negb (has_dup_addr (c_nodes c)) && negb (num_voters c =? 0).

Definition on_change_config (opt : options) (s : nstate) (tid : N) (c : config) : outcome W :=
  l <~ get_ldr s ;;
  if negb (configs_committed s) then wreply s tid (RpInProgress 4)
  else if st_commit s <? ld_start l then wreply s tid RpNotCommitReady
  else if negb (c_index c =? c_index (st_latest s)) then wreply s tid RpStaleConfig
  else if negb (config_valid c) then wreply s tid RpInvalid
  else if negb (forallb (fun n => match cfg_node c (n_id n) with
                                  | Some nn => Bool.eqb (n_voter n) (n_voter nn)
                                  | None => false end) (c_nodes (st_latest s))) then wreply s tid RpInvalid
  else if negb (forallb (fun n => match cfg_node (st_latest s) (n_id n) with
                                  | Some _ => true
                                  | None => negb (n_voter n) end) (c_nodes c)) then wreply s tid RpInvalid
  else if negb (existsb (fun n => n_voter n && (n_action n =? ActNone) && negb (n_id n =? 0)) (c_nodes c)) then wreply s tid RpInvalid
  else
    s1 <~~ check_config_actions opt FUEL s tid c ;;
    if c_index (st_latest s1) =? c_index (st_latest s) then do_change_config opt FUEL s1 tid c else wret s1.

Definition on_wait_stable (s : nstate) (tid : N) : outcome W :=
  l <~ get_ldr s ;;
  if configs_committed s && is_stable (st_latest s) then wreply s tid (RpConfig (st_latest s))
  else wret (put_ldr s (l <| ld_waitstable := ld_waitstable l ++ [tid] |>)).

(* ---------------------------------------------------------------- checkReplUpdates (one update) *)
Inductive replupd := UMatch (v : N) | URemoveLTE (v : N) | UNoContact (b : bool) | UNewTerm (t : N).

(* checkLogCompact: compact when every replication released the prefix *)
Definition check_log_compact (opt : options) (s : nstate) : outcome nstate :=
  l <~ get_ldr s ;;
  if forallb (fun r => ld_removelte l <=? rp_removelte r) (ld_repls l) then
    let np := o_newprev opt in
    if (st_logprev s <=? np) && (np <=? ld_removelte l) then
      let s1 := commit_log s (log_lastindex s) in
      Done (set_log s1 np (skipn (N.to_nat (np - st_logprev s1)) (st_log s1)) (st_lastidx s1) (st_lastterm s1))
    else Err EBug
  else Done s.

Definition check_repl_update (opt : options) (s : nstate) (id : N) (u : replupd) : outcome W :=
  l <~ get_ldr s ;;
  match find_repl id (ld_repls l) with
  | None => wret s                                   (* status.removed *)
  | Some rp =>
      match u with
      | UNewTerm t =>
          s1 <~ set_term (set_leader (set_role s Follower) 0) t ;; wret s1
      | UMatch v =>
          let s1 := upd_repl s id (fun r => r <| rp_match := v |>) in
          s2 <~~ (if negb (rp_voter rp) && negb (rp_action rp =? ActNone)
                  then check_config_action opt FUEL s1 0 (st_latest s1) id else wret s1) ;;
          s3 <~~ on_majority_commit opt FUEL s2 ;;
          l3 <~ get_ldr s3 ;;
          if transfer_in_progress l3 && negb (target_chosen l3) then try_transfer opt s3 else wret s3
      | URemoveLTE v =>
          let s1 := upd_repl s id (fun r => r <| rp_removelte := v |>) in
          if st_logprev s1 <? ld_removelte l then s2 <~ check_log_compact opt s1 ;; wret s2 else wret s1
      | UNoContact b =>
          let s1 := upd_repl s id (fun r => r <| rp_nocontact := b |>) in
          s2 <~ check_quorum opt s1 (o_quorum_wait opt) ;;
          l2 <~ get_ldr s2 ;;
          if transfer_in_progress l2 && negb (target_chosen l2) then try_transfer opt s2 else wret s2
      end
  end.

(* ---------------------------------------------------------------- replication.go bookkeeping *)
(* onLeaderUpdate: consume what sits in leaderUpdateCh *)
Definition flr_update (s : nstate) (id : N) : outcome W :=
  l <~ get_ldr s ;;
  match find_repl id (ld_repls l) with
  | None => Err EBug
  | Some rp =>
      match rp_pending rp with
      | None => wret s
      | Some u =>
          if (pu_viewprev u =? nil_view) || (rp_viewprev rp =? nil_view) then Err ENilView else
          let voter := match pu_voter u with
                       | true => n_voter (cfg_node0 (st_latest s) id)
                       | false => rp_gvoter rp end in
          let s1 := upd_repl s id (fun r => r <| rp_pending := None |> <| rp_viewprev := pu_viewprev u |>
                                            <| rp_ldrlast := pu_last u |> <| rp_commit := pu_commit u |>
                                            <| rp_gvoter := voter |>) in
          if rp_viewprev rp <? pu_viewprev u then wmsg s1 (MReplUpdate id 2 (pu_viewprev u)) else wret s1
      end
  end.

(* writeAppendEntriesReq(c, req, sendEntries) *)
Definition flr_send (s : nstate) (id : N) (send_entries : bool) : outcome W :=
  l <~ get_ldr s ;;
  match find_repl id (ld_repls l) with
  | None => Err EBug
  | Some rp =>
      if rp_viewprev rp =? nil_view then Err ENilView else
      let prev := rp_next rp - 1 in
      let in_view i := (rp_viewprev rp <? i) && (i <=? rp_ldrlast rp) in
      let pt : outcome (option N) :=
        if prev =? 0 then Done (Some 0)
        else if prev =? st_snapidx s then Done (Some (st_snapterm s))
        else if rp_ldrlast rp <? prev then Err ENilView              (* Log.Get panics: i > lastIndex *)
        else if in_view prev then
          match log_get s prev with Some e => Done (Some (e_term e)) | None => Err EBug end
        else Done None in
      p <~ pt ;;
      match p with
      | None => wmsg s (MNeedSnapshot id)
      | Some prevterm =>
          let num := if send_entries then N.min (rp_ldrlast rp - prev) 64 else 0 in
          if (0 <? num) && negb (in_view (rp_next rp)) then wmsg s (MNeedSnapshot id)
          else
            let es := firstn (N.to_nat num) (skipn (N.to_nat (rp_next rp - st_logprev s - 1)) (st_log s)) in
            if negb (N.of_nat (length es) =? num) then Err EBug else
            wmsg (upd_repl s id (fun r => r <| rp_next := rp_next r + num |>))
                 (MAppend id (mkAppendReq (st_term s) (st_nid s) prev prevterm (rp_commit rp) es))
      end
  end.

(* onAppendEntriesResp(resp, reqLastIndex); [faulty] = ErrFaultyFollower returned *)
Definition flr_resp (s : nstate) (id : N) (result rterm rlast reqlast : N) : outcome W :=
  l <~ get_ldr s ;;
  match find_repl id (ld_repls l) with
  | None => Err EBug
  | Some rp =>
      if result =? staleTerm then wmsg s (MReplUpdate id 3 rterm)
      else if result =? success then
        if rp_gmatch rp <? reqlast then
          wmsg (upd_repl s id (fun r => r <| rp_gmatch := reqlast |>)) (MReplUpdate id 1 reqlast)
        else wret s
      else if (result =? prevEntryNotFound) || (result =? prevTermMismatch) then
        if rlast <? rp_gmatch rp then wret s                       (* ErrFaultyFollower *)
        else wret (upd_repl s id (fun r => r <| rp_next := N.min (rp_next r - 1) (rlast + 1) |>))
      else if result =? unexpectedErr then wret s                   (* remoteError *)
      else Err EBug
  end.

(* sendInstallSnapReq, response = success *)
Definition flr_snap_installed (s : nstate) (id : N) (snapidx : N) : outcome W :=
  l <~ get_ldr s ;;
  match find_repl id (ld_repls l) with
  | None => Err EBug
  | Some rp =>
      if rp_ldrlast rp <? snapidx then Err EUnsupported             (* waits for a leader update first *)
      else wmsg (upd_repl s id (fun r => r <| rp_gmatch := snapidx |> <| rp_next := snapidx + 1 |>))
                (MReplUpdate id 1 snapidx)
  end.

(* ---------------------------------------------------------------- events of a leader *)
Inductive levent :=
| LClient (nes : list newreq)
| LReplUpdate (id : N) (u : replupd)
| LChangeConfig (tid : N) (c : config)
| LWaitStable (tid : N)
| LTransfer (tid target : N)
| LTimeoutNowResult (from : N) (err : bool) (result : N)
| LTransferTimeout
| LNewTermTimeout
| LFlrUpdate (id : N)
| LFlrSend (id : N) (send_entries : bool)
| LFlrResp (id : N) (result rterm rlast reqlast : N)
| LFlrSnapInstalled (id : N) (snapidx : N).

Definition leader_event_out (opt : options) (s : nstate) (e : levent) : outcome W :=
  match e with
  | LClient nes => store_entry opt FUEL s nes
  | LReplUpdate id u => check_repl_update opt s id u
  | LChangeConfig tid c => on_change_config opt s tid c
  | LWaitStable tid => on_wait_stable s tid
  | LTransfer tid target => on_transfer opt s tid target
  | LTimeoutNowResult from err result => on_timeout_now_result opt s from err result
  | LTransferTimeout => reply_transfer opt s RpTimeout
  | LNewTermTimeout => try_transfer opt (upd_ldr s (fun l => l <| ld_tr_newterm := false |>))
  | LFlrUpdate id => flr_update s id
  | LFlrSend id b => flr_send s id b
  | LFlrResp id r t l q => flr_resp s id r t l q
  | LFlrSnapInstalled id i => flr_snap_installed s id i
  end.

Definition leader_event (opt : options) (s : nstate) (e : levent) : outcome nstate :=
  w <~ leader_event_out opt s e ;; Done (fst w).
