(* Leader-side handlers (leader.go, changeconfig.go, transfer.go, config.go
   leader part, replication.go bookkeeping).  STUB: filled in below. *)
From Coq Require Import List NArith ZArith Bool.
From Verif Require Import Base.Bytes Codec.Messages Node.Types Node.Handlers.
Import ListNotations.
Open Scope N_scope.

Record options := mkOptions {
  o_shutdown_on_remove : bool;
  o_quorum_wait : bool;       (* Raft.quorumWait != 0 *)
  o_order : list N            (* order in which Go iterates maps keyed by node id (oracle) *)
}.

Inductive levent := LNone.

Definition leader_init (opt : options) (s : nstate) : outcome nstate := Err EUnsupported.
Definition leader_release (s : nstate) : nstate := s.
Definition leader_on_timeout (opt : options) (s : nstate) : outcome nstate := Err EUnsupported.
Definition leader_event (opt : options) (s : nstate) (e : levent) : outcome nstate := Err EUnsupported.
