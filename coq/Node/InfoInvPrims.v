(* C19: the primitive updates preserve [core]. *)
From Coq Require Import List NArith ZArith Bool Lia ZifyN ZifyNat ZifyBool.
From RecordUpdate Require Import RecordUpdate.
From Verif Require Import Base.Bytes Codec.Messages Node.Types Node.Handlers Node.Leader Node.Snap Node.Step Node.Run Node.InfoInvDefs.
Import ListNotations.
Open Scope N_scope.

(* ---------------------------------------------------------------- consequences of core *)
Lemma core_cfg_bounds s c : core s -> In c (cfgs s) -> st_snapidx s < c_index c /\ c_index c <= st_lastidx s.
Proof.
  intros C Hc. pose proof (cfgs_above_bounds _ _ _ _ (c_ls _ C) Hc). rewrite (c_last _ C). lia.
Qed.

Lemma core_latest_cases s : core s ->
  (cfgs s = [] /\ st_latest s = st_snapcfg s) \/ (cfgs s <> [] /\ In (st_latest s) (cfgs s)).
Proof.
  intros C. rewrite (c_latest _ C). unfold newest_config.
  destruct (cfgs s) eqn:E; [left; auto|]. right. split; [congruence|]. apply last_In. congruence.
Qed.

Lemma core_latest_le s : core s -> c_index (st_latest s) <= st_lastidx s.
Proof.
  intros C. destruct (core_latest_cases s C) as [[_ ->]|[_ H]].
  - pose proof (c_snapcfg _ C). pose proof (c_snap _ C). lia.
  - apply core_cfg_bounds in H; [lia|assumption].
Qed.

Lemma core_committed_le s : core s -> c_index (st_committed s) <= c_index (st_latest s).
Proof. intros C. destruct (c_committed _ C) as [->|[H _]]; lia. Qed.

Lemma core_ordered s : core s -> info_ordered s.
Proof.
  intros C. unfold info_ordered.
  pose proof (c_fsm _ C). pose proof (c_commit _ C). pose proof (c_prev _ C). pose proof (c_snap _ C).
  pose proof (core_committed_le _ C). lia.
Qed.

(* ---------------------------------------------------------------- log lookups *)
Lemma log_get_Some s i me : idx_from (st_logprev s) (st_log s) -> log_get s i = Some me ->
  e_index me = i /\ st_logprev s < i /\ i <= st_logprev s + N.of_nat (length (st_log s)) /\ In me (st_log s).
Proof.
  unfold log_get. intros H. destruct (st_logprev s <? i) eqn:E; [|discriminate]. apply N.ltb_lt in E.
  intros G. pose proof (H _ _ G). assert (N.to_nat (i - st_logprev s - 1) < length (st_log s))%nat
    by (apply nth_error_Some; congruence). apply nth_error_In in G. repeat split; try assumption; lia.
Qed.

Lemma log_get_None s i : st_logprev s + N.of_nat (length (st_log s)) < i -> log_get s i = None.
Proof.
  unfold log_get. intros H. destruct (st_logprev s <? i); [|reflexivity].
  apply nth_error_None. lia.
Qed.

(* ---------------------------------------------------------------- config_at *)
Lemma config_at_all s : core s -> config_at s (st_lastidx s) = newest_config s.
Proof.
  intros C. unfold config_at, newest_config, cfgs. rewrite (c_last _ C).
  rewrite firstn_all2 by lia. reflexivity.
Qed.

(* the log up to i is what config_at reads *)
Lemma config_at_firstn b p sc l l' i :
  firstn (N.to_nat (i - p)) l' = firstn (N.to_nat (i - p)) l ->
  last (cfgs_above b (firstn (N.to_nat (i - p)) l')) sc = last (cfgs_above b (firstn (N.to_nat (i - p)) l)) sc.
Proof. intros ->. reflexivity. Qed.

Lemma config_at_le s i c : core s -> st_snapidx s < i -> c = config_at s i -> c_index c <= i.
Proof.
  intros C L ->. unfold config_at.
  destruct (cfgs_above (st_snapidx s) (firstn (N.to_nat (i - st_logprev s)) (st_log s))) eqn:E.
  - cbn. pose proof (c_snapcfg _ C). lia.
  - rewrite <- E. assert (NE : cfgs_above (st_snapidx s) (firstn (N.to_nat (i - st_logprev s)) (st_log s)) <> []) by congruence.
    pose proof (last_In _ (st_snapcfg s) NE) as Hin.
    pose proof (cfgs_above_bounds _ _ _ _ (idx_from_firstn _ _ _ (c_ls _ C)) Hin) as B.
    rewrite firstn_length in B. lia.
Qed.

(* ---------------------------------------------------------------- snapreq *)
Lemma core_with_sr s s' :
  (st_logprev s', st_log s', st_lastidx s', st_snapidx s', st_snapcfg s', st_committed s', st_latest s',
   st_commit s', st_fsmidx s') =
  (st_logprev s, st_log s, st_lastidx s, st_snapidx s, st_snapcfg s, st_committed s, st_latest s,
   st_commit s, st_fsmidx s) ->
  core s -> snapreq_ok s' -> core s'.
Proof.
  destruct s, s'; cbn. intros E. injection E as -> -> -> -> -> -> -> -> ->.
  intros [H1 H2 H3 H4 H5 H6 H7 H8 H9 H10 H11] S. constructor; assumption.
Qed.

(* ---------------------------------------------------------------- append *)
Lemma append_entry_inv s e s' : append_entry s e = Done s' ->
  e_index e = st_lastidx s + 1 /\ s' = set_log s (st_logprev s) (st_log s ++ [e]) (e_index e) (e_term e).
Proof.
  unfold append_entry. destruct (e_index e =? st_lastidx s + 1) eqn:E; [|discriminate].
  apply N.eqb_eq in E. intros H; inversion H. auto.
Qed.

Lemma config_at_append s e i : core s -> i <= st_lastidx s ->
  config_at (set_log s (st_logprev s) (st_log s ++ [e]) (e_index e) (e_term e)) i = config_at s i.
Proof.
  intros C L. unfold config_at; cbn. rewrite firstn_app.
  replace (N.to_nat (i - st_logprev s) - length (st_log s))%nat with 0%nat by (rewrite (c_last _ C) in L; lia).
  cbn. rewrite app_nil_r. reflexivity.
Qed.

Lemma snapreq_ok_same_cfgat s s' :
  st_snapreq s' = st_snapreq s -> st_commit s <= st_commit s' -> st_snapidx s <= st_snapidx s' ->
  (forall i, st_snapidx s' < i -> i <= st_commit s -> config_at s' i = config_at s i) ->
  snapreq_ok s -> snapreq_ok s'.
Proof.
  unfold snapreq_ok. intros -> L1 L2 H. destruct (st_snapreq s) as [rq|]; [|auto].
  destruct (sr_done rq); [|lia|auto].
  intros [A B]. split; [lia|]. intros L. rewrite H by lia. apply B. lia.
Qed.

Lemma cfgs_append s e : core s -> e_index e = st_lastidx s + 1 ->
  cfgs (set_log s (st_logprev s) (st_log s ++ [e]) (e_index e) (e_term e)) =
  cfgs s ++ match config_of_entry e with Some c => [c] | None => [] end.
Proof.
  intros C E. unfold cfgs; cbn. rewrite cfgs_above_app. f_equal.
  unfold cfgs_above; cbn. rewrite app_nil_r. unfold cfg_of.
  pose proof (c_snap _ C). destruct (st_snapidx s <? e_index e) eqn:T; [reflexivity|lia].
Qed.

Lemma core_append_plain s e : core s -> e_index e = st_lastidx s + 1 -> config_of_entry e = None ->
  core (set_log s (st_logprev s) (st_log s ++ [e]) (e_index e) (e_term e)).
Proof.
  intros C E D. pose proof (cfgs_append s e C E) as CF. rewrite D, app_nil_r in CF.
  set (s' := set_log _ _ _ _ _) in *.
  pose proof C as [H1 H2 H3 H4 H5 H6 H7 H8 H9 H10 H11].
  constructor; cbn.
  - apply idx_from_app. split; [assumption|]. apply idx_from_single. lia.
  - rewrite app_length; cbn. lia.
  - assumption.
  - lia.
  - assumption.
  - lia.
  - assumption.
  - unfold newest_config. rewrite CF. exact H8.
  - unfold prev_config. rewrite CF. exact H9.
  - assumption.
  - apply (snapreq_ok_same_cfgat s s'); try reflexivity; try assumption; cbn; try lia.
    intros i _ L. apply config_at_append; [assumption|lia].
Qed.

Lemma core_append_cfg s e c : core s -> e_index e = st_lastidx s + 1 -> config_of_entry e = Some c ->
  core (set_configs (set_log s (st_logprev s) (st_log s ++ [e]) (e_index e) (e_term e)) (st_latest s) c).
Proof.
  intros C E D. pose proof (cfgs_append s e C E) as CF. rewrite D in CF.
  pose proof (core_latest_le _ C) as LL. pose proof (config_of_entry_index _ _ D) as CI.
  set (s1 := set_log _ _ _ _ _) in *. set (s' := set_configs _ _ _).
  assert (CF' : cfgs s' = cfgs s ++ [c]) by exact CF.
  pose proof C as [H1 H2 H3 H4 H5 H6 H7 H8 H9 H10 H11].
  constructor; cbn.
  - apply idx_from_app. split; [assumption|]. apply idx_from_single. lia.
  - rewrite app_length; cbn. lia.
  - assumption.
  - lia.
  - assumption.
  - lia.
  - assumption.
  - unfold newest_config. rewrite CF'. rewrite last_snoc. reflexivity.
  - right. split; [lia|]. right. unfold prev_config. rewrite CF', removelast_snoc. exact H8.
  - right. lia.
  - apply (snapreq_ok_same_cfgat s s'); try reflexivity; try assumption; cbn; try lia.
    intros i _ L. apply (config_at_append s e i); [assumption|lia].
Qed.

(* ---------------------------------------------------------------- truncation *)
Lemma In_removelast {A} (l : list A) x : In x (removelast l) -> In x l.
Proof.
  destruct (list_snoc_cases l) as [->|(a & y & ->)]; [auto|].
  rewrite removelast_snoc. intros H. apply in_or_app. left. assumption.
Qed.

Lemma remove_gte_inv s i t s' : remove_gte s i t = Done s' ->
  st_logprev s < i /\ i <= st_logprev s + N.of_nat (length (st_log s)) + 1 /\
  s' = set_flushed (set_log s (st_logprev s) (firstn (N.to_nat (i - st_logprev s - 1)) (st_log s)) (i - 1) t) (i - 1).
Proof.
  unfold remove_gte, log_lastindex. destruct (_ && _) eqn:E; [|discriminate].
  intros H; inversion H. split; [lia|]. split; [lia|reflexivity].
Qed.

Lemma config_at_truncate s i t j : core s -> j < i ->
  config_at (set_flushed (set_log s (st_logprev s) (firstn (N.to_nat (i - st_logprev s - 1)) (st_log s)) (i - 1) t) (i - 1)) j
  = config_at s j.
Proof.
  intros C L. unfold config_at; cbn. rewrite firstn_firstn.
  replace (Nat.min (N.to_nat (j - st_logprev s)) (N.to_nat (i - st_logprev s - 1))) with (N.to_nat (j - st_logprev s)) by lia.
  reflexivity.
Qed.

Lemma core_truncate s i t s1 :
  core s -> remove_gte s i t = Done s1 ->
  st_snapidx s < i -> st_commit s < i -> c_index (st_committed s) < i ->
  core (if i <=? c_index (st_latest s1) then revert_config s1 else s1).
Proof.
  intros C R Ls Lc Lm. apply remove_gte_inv in R. destruct R as (R1 & R2 & ->).
  pose proof C as [H1 H2 H3 H4 H5 H6 H7 H8 H9 H10 H11].
  set (n := N.to_nat (i - st_logprev s - 1)).
  set (l1 := firstn n (st_log s)). set (l2 := skipn n (st_log s)).
  assert (EL : st_log s = l1 ++ l2) by (symmetry; apply firstn_skipn).
  assert (Ln : length l1 = n) by (apply firstn_length_le; lia).
  assert (I1 : idx_from (st_logprev s) l1) by (apply idx_from_firstn; assumption).
  assert (I2 : idx_from (st_logprev s + N.of_nat n) l2) by (apply idx_from_skipn; [assumption|lia]).
  set (A := cfgs_above (st_snapidx s) l1). set (B := cfgs_above (st_snapidx s) l2).
  assert (EC : cfgs s = A ++ B) by (unfold cfgs; rewrite EL; apply cfgs_above_app).
  assert (HA : forall c, In c A -> c_index c < i).
  { intros c Hc. pose proof (cfgs_above_bounds _ _ _ _ I1 Hc). lia. }
  assert (HB : forall c, In c B -> i <= c_index c).
  { intros c Hc. pose proof (cfgs_above_bounds _ _ _ _ I2 Hc). lia. }
  assert (HLA : c_index (last A (st_snapcfg s)) < i).
  { destruct A as [|a A'] eqn:EA; [cbn; lia|]. apply HA. rewrite <- EA. apply last_In. congruence. }
  set (s1 := set_flushed _ _).
  assert (CF1 : cfgs s1 = A) by reflexivity.
  (* the part of the invariant that does not depend on the configs *)
  assert (SR : snapreq_ok s1).
  { apply (snapreq_ok_same_cfgat s s1); try reflexivity; try assumption; cbn; try lia.
    intros j _ L. exact (config_at_truncate s i t j C ltac:(lia)). }
  cbn [st_latest]. change (st_latest s1) with (st_latest s).
  destruct (i <=? c_index (st_latest s)) eqn:T.
  - (* the latest configuration goes: back to the committed one *)
    apply N.leb_le in T.
    assert (NB : B <> []).
    { intros E. rewrite H8 in T. unfold newest_config in T. rewrite EC, E, app_nil_r in T. lia. }
    assert (CM : st_committed s = last A (st_snapcfg s)).
    { destruct H9 as [E|[_ [E|E]]].
      - rewrite E in Lm. lia.
      - rewrite EC in E. apply app_eq_nil in E. tauto.
      - unfold prev_config in E. rewrite EC, removelast_app, last_app in E by assumption.
        destruct (removelast B) as [|b B'] eqn:EB; [exact E|].
        assert (In (st_committed s) B).
        { rewrite E. rewrite <- EB.
          assert (In (last (removelast B) (last A (st_snapcfg s))) (removelast B)) by (apply last_In; congruence).
          apply In_removelast. assumption. }
        apply HB in H. lia. }
    constructor; cbn.
    + exact I1.
    + fold n. rewrite Ln. lia.
    + assumption.
    + lia.
    + assumption.
    + lia.
    + assumption.
    + unfold newest_config. change (cfgs (revert_config s1)) with A. exact CM.
    + left; reflexivity.
    + left; reflexivity.
    + exact SR.
  - apply N.leb_gt in T.
    assert (EB : B = []).
    { destruct (list_snoc_cases B) as [E|(a & x & E)]; [exact E|]. exfalso.
      assert (In (st_latest s) B).
      { rewrite H8. unfold newest_config. rewrite EC, last_app, E, last_snoc.
        apply in_or_app; right; left; reflexivity. }
      apply HB in H. lia. }
    assert (CF : cfgs s1 = cfgs s) by (rewrite EC, EB, app_nil_r; reflexivity).
    constructor; cbn.
    + exact I1.
    + fold n. rewrite Ln. lia.
    + assumption.
    + lia.
    + assumption.
    + lia.
    + assumption.
    + unfold newest_config. rewrite CF. exact H8.
    + unfold prev_config. rewrite CF. exact H9.
    + assumption.
    + exact SR.
Qed.

(* ---------------------------------------------------------------- commit index *)
Lemma core_set_configs_latest s : core s -> core (set_configs s (st_latest s) (st_latest s)).
Proof.
  intros [H1 H2 H3 H4 H5 H6 H7 H8 H9 H10 H11]. constructor; cbn; try assumption; left; reflexivity.
Qed.

Lemma commit_config_K s : K (commit_config s) = K (set_configs s (st_latest s) (st_latest s)).
Proof. unfold commit_config. destruct (_ && _); reflexivity. Qed.

Lemma core_commit_config s : core s -> core (commit_config s).
Proof. intros C. eapply core_ext; [apply commit_config_K|]. apply core_set_configs_latest; assumption. Qed.

Lemma core_set_commit s i : core s -> st_commit s <= i -> i <= st_lastidx s ->
  (st_committed s = st_latest s \/ i < c_index (st_latest s)) -> core (set_commit s i).
Proof.
  intros [H1 H2 H3 H4 H5 H6 H7 H8 H9 H10 H11] L1 L2 CC. constructor; cbn; try assumption; try lia.
  unfold snapreq_ok in *; cbn. destruct (st_snapreq s) as [rq|]; [|auto].
  destruct (sr_done rq); [|assumption|auto]. destruct H11 as [A B]. split; [lia|exact B].
Qed.

Lemma rsci_cases sor s i :
  let r := fst (raft_set_commit_index sor s i) in
  (K r = K (set_commit s i) /\ (c_index (st_latest s) = c_index (st_committed s) \/ i < c_index (st_latest s)))
  \/ (K r = K (set_configs (set_commit s i) (st_latest s) (st_latest s)) /\ c_index (st_latest s) <= i).
Proof.
  unfold raft_set_commit_index. cbn zeta.
  destruct (negb (configs_committed (set_commit s i))) eqn:E1; cbn [andb].
  2:{ left. split; [reflexivity|]. left. unfold configs_committed in E1. cbn in E1. lia. }
  destruct (c_index (st_latest (set_commit s i)) <=? i) eqn:E2.
  2:{ left. split; [reflexivity|]. right. cbn in E2. lia. }
  right. cbn in E2. split; [|lia]. cbn [fst].
  set (s2 := commit_config (set_commit s i)).
  assert (K2 : K s2 = K (set_configs (set_commit s i) (st_latest s) (st_latest s))) by apply (commit_config_K (set_commit s i)).
  rewrite <- K2.
  destruct (_ && _); destruct sor; try destruct (cfg_node _ _); reflexivity.
Qed.

Lemma core_rsci sor s i : core s -> st_commit s <= i -> i <= st_lastidx s ->
  core (fst (raft_set_commit_index sor s i)).
Proof.
  intros C L1 L2. destruct (rsci_cases sor s i) as [[E Hc]|[E Hc]]; eapply core_ext; try exact E.
  - apply core_set_commit; try assumption.
    destruct Hc as [Hc|Hc]; [|right; assumption]. left.
    destruct (c_committed _ C) as [?|[? _]]; [assumption|lia].
  - apply (core_ext (set_commit (set_configs s (st_latest s) (st_latest s)) i)); [reflexivity|].
    apply core_set_commit; try assumption.
    + apply core_set_configs_latest; assumption.
    + left; reflexivity.
Qed.

Lemma rsci_frame sor s i :
  let r := fst (raft_set_commit_index sor s i) in
  st_term r = st_term s /\ st_commit r = i /\ st_fsmidx r = st_fsmidx s /\ st_snapidx r = st_snapidx s /\
  st_ldr r = st_ldr s /\ st_lastidx r = st_lastidx s /\ (st_role r = st_role s \/ st_role r = Follower).
Proof.
  unfold raft_set_commit_index, commit_config. cbn zeta.
  destruct (negb (configs_committed (set_commit s i)) && _); cbn [fst]; [|cbn; tauto].
  destruct (negb (st_leader (set_commit s i) =? 0) && _);
  destruct (_ && _); destruct sor; try destruct (cfg_node _ _); cbn; tauto.
Qed.

Lemma mono_rsci sor s0 s i : mono s0 s -> st_commit s <= i -> mono s0 (fst (raft_set_commit_index sor s i)).
Proof.
  intros M L. pose proof (rsci_frame sor s i) as F. cbn zeta in F.
  destruct F as (F1 & F2 & F3 & F4 & _). unfold mono in *. rewrite F1, F2, F3, F4. lia.
Qed.

(* ---------------------------------------------------------------- apply *)
Lemma apply_committed_inv s s' : apply_committed s = Done s' -> exists t, s' = set_fsm s (st_commit s) t.
Proof.
  unfold apply_committed. intros H. repeat inv1. eauto.
Qed.

Lemma core_set_fsm s i t : core s -> i <= st_commit s -> core (set_fsm s i t).
Proof. intros [H1 H2 H3 H4 H5 H6 H7 H8 H9 H10 H11] L. constructor; cbn; assumption. Qed.

Lemma core_apply_committed s s' : core s -> apply_committed s = Done s' -> core s'.
Proof. intros C H. apply apply_committed_inv in H. destruct H as [t ->]. apply core_set_fsm; [assumption|lia]. Qed.

Lemma mono_apply_committed s0 s s' : core s -> mono s0 s -> apply_committed s = Done s' -> mono s0 s'.
Proof.
  intros C M H. apply apply_committed_inv in H. destruct H as [t ->]. pose proof (c_fsm _ C).
  unfold mono in *; cbn. lia.
Qed.

Lemma core_commit_and_apply sor s i s' : core s -> st_commit s <= i -> i <= st_lastidx s ->
  commit_and_apply sor s i = Done s' -> core s'.
Proof.
  unfold commit_and_apply. intros C L1 L2 H. eapply core_apply_committed; [|exact H]. apply core_rsci; assumption.
Qed.

Lemma mono_commit_and_apply sor s0 s i s' : core s -> mono s0 s -> st_commit s <= i -> i <= st_lastidx s ->
  commit_and_apply sor s i = Done s' -> mono s0 s'.
Proof.
  unfold commit_and_apply. intros C M L1 L2 H. eapply mono_apply_committed; [| |exact H].
  - apply core_rsci; assumption.
  - apply mono_rsci; assumption.
Qed.

Lemma commit_and_apply_frame sor s i s' : commit_and_apply sor s i = Done s' ->
  st_ldr s' = st_ldr s /\ st_lastidx s' = st_lastidx s /\ st_snapidx s' = st_snapidx s /\
  st_commit s' = i /\ (st_role s' = st_role s \/ st_role s' = Follower).
Proof.
  unfold commit_and_apply. intros H. apply apply_committed_inv in H. destruct H as [t ->].
  pose proof (rsci_frame sor s i) as F. cbn zeta in F. cbn. tauto.
Qed.

(* commit_log only moves st_flushed *)
Lemma commit_log_K s n : K (commit_log s n) = K s. Proof. reflexivity. Qed.

(* ---------------------------------------------------------------- compaction *)
Lemma core_compact s np t : core s -> st_logprev s <= np -> np <= st_snapidx s ->
  core (set_log s np (skipn (N.to_nat (np - st_logprev s)) (st_log s)) (st_lastidx s) t).
Proof.
  intros C L1 L2. pose proof C as [H1 H2 H3 H4 H5 H6 H7 H8 H9 H10 H11].
  set (n := N.to_nat (np - st_logprev s)).
  assert (Ln : (n <= length (st_log s))%nat) by lia.
  assert (I1 : idx_from (st_logprev s) (firstn n (st_log s))) by (apply idx_from_firstn; assumption).
  assert (E0 : cfgs_above (st_snapidx s) (firstn n (st_log s)) = []).
  { eapply cfgs_above_skip; [exact I1|]. rewrite firstn_length_le by assumption. lia. }
  set (s' := set_log _ _ _ _ _).
  assert (CF : cfgs s' = cfgs s).
  { unfold cfgs; cbn. fold n. rewrite <- (firstn_skipn n (st_log s)) at 2. rewrite cfgs_above_app, E0. reflexivity. }
  assert (CA : forall i, np <= i -> config_at s' i = config_at s i).
  { intros i Li. unfold config_at; cbn. fold n.
    replace (N.to_nat (i - st_logprev s)) with (n + N.to_nat (i - np))%nat by lia.
    rewrite firstn_add, cfgs_above_app, E0. reflexivity. }
  constructor; cbn.
  - replace np with (st_logprev s + N.of_nat n) by lia. apply idx_from_skipn; assumption.
  - rewrite skipn_length. lia.
  - assumption.
  - assumption.
  - assumption.
  - assumption.
  - assumption.
  - unfold newest_config. rewrite CF. exact H8.
  - unfold prev_config. rewrite CF. exact H9.
  - assumption.
  - apply (snapreq_ok_same_cfgat s s'); try reflexivity; try assumption; cbn; try lia.
    intros i Li _. apply CA. lia.
Qed.

(* ---------------------------------------------------------------- a newer snapshot over a retained log *)
Lemma core_raise_snap s j t c : core s -> st_snapidx s < j -> j <= st_lastidx s -> c = config_at s j ->
  core (set_snap s j t c) /\
  (forall i, j <= i -> config_at (set_snap s j t c) i = config_at s i).
Proof.
  intros C L1 L2 Ec. pose proof C as [H1 H2 H3 H4 H5 H6 H7 H8 H9 H10 H11].
  set (n := N.to_nat (j - st_logprev s)).
  assert (Ln : (n <= length (st_log s))%nat) by lia.
  set (l1 := firstn n (st_log s)). set (l2 := skipn n (st_log s)).
  assert (EL : st_log s = l1 ++ l2) by (symmetry; apply firstn_skipn).
  assert (Ln1 : length l1 = n) by (apply firstn_length_le; lia).
  assert (I1 : idx_from (st_logprev s) l1) by (apply idx_from_firstn; assumption).
  assert (I2 : idx_from (st_logprev s + N.of_nat n) l2) by (apply idx_from_skipn; [assumption|lia]).
  set (b := st_snapidx s).
  set (A := cfgs_above b l1). set (M := cfgs_above b l2).
  assert (EC : cfgs s = A ++ M) by (unfold cfgs; rewrite EL; apply cfgs_above_app).
  assert (EA : cfgs_above j l1 = []).
  { eapply cfgs_above_skip; [exact I1|]. lia. }
  assert (Ecc : c = last A (st_snapcfg s)) by exact Ec.
  set (s' := set_snap s j t c).
  assert (CF : cfgs s' = M).
  { unfold cfgs; cbn. rewrite EL, cfgs_above_app, EA. cbn [app].
    eapply cfgs_above_raise; [exact I2| |]; lia. }
  assert (CA : forall i, j <= i -> config_at s' i = config_at s i).
  { intros i Li. unfold config_at; cbn. fold b.
    replace (N.to_nat (i - st_logprev s)) with (n + N.to_nat (i - j))%nat by lia.
    rewrite firstn_add. fold l1 l2. rewrite !cfgs_above_app. rewrite EA. cbn [app].
    fold A. rewrite last_app, <- Ecc. f_equal.
    eapply cfgs_above_raise; [apply idx_from_firstn; exact I2| |]; lia. }
  split; [|exact CA].
  constructor; cbn.
  - assumption.
  - assumption.
  - assumption.
  - assumption.
  - lia.
  - assumption.
  - eapply config_at_le; [exact C|exact L1|exact Ec].
  - unfold newest_config. rewrite CF. cbn. rewrite H8. unfold newest_config. rewrite EC, last_app, <- Ecc. reflexivity.
  - destruct H9 as [E|[E1 E2]]; [left; assumption|]. right. split; [assumption|].
    rewrite CF. destruct (list_snoc_cases M) as [EM|(M' & x & EM)]; [left; assumption|]. right.
    destruct E2 as [E2|E2]; [rewrite EC, EM in E2; apply app_eq_nil in E2; destruct E2 as [_ E2];
                             apply app_eq_nil in E2; destruct E2; discriminate|].
    rewrite E2. unfold prev_config. rewrite CF, EC. cbn. rewrite EM, app_assoc, !removelast_snoc, last_app, <- Ecc.
    reflexivity.
  - assumption.
  - unfold snapreq_ok in *; cbn. destruct (st_snapreq s) as [rq|]; [|auto].
    destruct (sr_done rq); [|lia|auto]. destruct H11 as [P Q]. split; [assumption|].
    intros Lj. change (config_at (set_snap s j t c) (sr_index rq)) with (config_at s' (sr_index rq)).
    rewrite CA by lia. apply Q. lia.
Qed.

(* ---------------------------------------------------------------- a snapshot replacing the log *)
Lemma core_install_clear s j t c tt : core s -> st_commit s < j -> st_snapidx s < j -> c_index c <= j ->
  core (set_configs (set_commit (set_fsm (clear_log (set_snap s j t c)) j tt) j) c c).
Proof.
  intros C L1 L2 L3. pose proof C as [H1 H2 H3 H4 H5 H6 H7 H8 H9 H10 H11].
  constructor; cbn; try lia.
  - apply idx_from_nil.
  - reflexivity.
  - left; reflexivity.
  - left; reflexivity.
  - unfold snapreq_ok in *; cbn. destruct (st_snapreq s) as [rq|]; [|auto].
    destruct (sr_done rq); [|lia|auto]. destruct H11 as [P Q]. split; [lia|]. intros; lia.
Qed.

(* ---------------------------------------------------------------- snapshots taken locally *)
Lemma cfgs_split_at s i : core s ->
  exists A B, cfgs s = A ++ B /\ config_at s i = last A (st_snapcfg s) /\
              (forall c, In c A -> c_index c <= i) /\ (forall c, In c B -> i < c_index c).
Proof.
  intros C. set (n := N.to_nat (i - st_logprev s)).
  exists (cfgs_above (st_snapidx s) (firstn n (st_log s))), (cfgs_above (st_snapidx s) (skipn n (st_log s))).
  split; [unfold cfgs; rewrite <- (firstn_skipn n (st_log s)) at 1; apply cfgs_above_app|].
  split; [reflexivity|]. split.
  - intros c Hc. pose proof (cfgs_above_bounds _ _ _ _ (idx_from_firstn _ _ n (c_ls _ C)) Hc) as B.
    rewrite firstn_length in B. lia.
  - intros c Hc. destruct (Nat.le_gt_cases n (length (st_log s))) as [Ln|Ln].
    + pose proof (cfgs_above_bounds _ _ _ _ (idx_from_skipn _ _ n (c_ls _ C) Ln) Hc) as B. lia.
    + rewrite skipn_all2 in Hc by lia. destruct Hc.
Qed.

(* what onTakeSnapshot captures is the configuration in force at the captured index *)
Lemma committed_is_config_at s : core s -> st_snapidx s < st_fsmidx s ->
  c_index (st_committed s) <= st_fsmidx s -> st_committed s = config_at s (st_fsmidx s).
Proof.
  intros C L1 L2. pose proof C as [H1 H2 H3 H4 H5 H6 H7 H8 H9 H10 H11].
  destruct (cfgs_split_at s (st_fsmidx s) C) as (A & B & EC & -> & HA & HB).
  destruct H9 as [E|[E1 E2]].
  - (* committed = latest: nothing newer than the applied index *)
    assert (B = []).
    { destruct (list_snoc_cases B) as [EB|(B' & x & EB)]; [assumption|]. exfalso.
      assert (In (st_latest s) B).
      { rewrite H8. unfold newest_config. rewrite EC, last_app, EB, last_snoc. apply in_or_app; right; left; reflexivity. }
      apply HB in H. rewrite E in L2. lia. }
    subst B. rewrite app_nil_r in EC. rewrite E, H8. unfold newest_config. rewrite EC. reflexivity.
  - destruct H10 as [E|E]; [rewrite E in E1; lia|].
    destruct E2 as [E2|E2].
    + (* latest is the snapshot's: the applied index would be below the snapshot *)
      exfalso. rewrite H8 in E. unfold newest_config in E. rewrite E2 in E. cbn in E. lia.
    + destruct (list_snoc_cases (cfgs s)) as [EN|(P & x & EP)].
      { exfalso. rewrite H8 in E. unfold newest_config in E. rewrite EN in E. cbn in E. lia. }
      assert (Lx : st_latest s = x) by (rewrite H8; unfold newest_config; rewrite EP; apply last_snoc).
      assert (CM : st_committed s = last P (st_snapcfg s)) by (rewrite E2; unfold prev_config; rewrite EP, removelast_snoc; reflexivity).
      (* x is in B (its index is above the commit index), everything before is in A *)
      assert (NB : B <> []).
      { intros ->. rewrite app_nil_r in EC. assert (In x A) by (rewrite <- EC, EP; apply in_or_app; right; left; reflexivity).
        apply HA in H. rewrite Lx in E. lia. }
      destruct (list_snoc_cases B) as [EB|(B' & y & EB)]; [contradiction|].
      rewrite EB, app_assoc in EC. rewrite EP in EC. apply app_inj_tail in EC. destruct EC as [EP' _].
      destruct (list_snoc_cases B') as [EB'|(B'' & z & EB')].
      * subst B'. rewrite app_nil_r in EP'. rewrite CM, EP'. reflexivity.
      * exfalso. assert (In (st_committed s) B).
        { rewrite CM, EP', EB', app_assoc, last_snoc, EB, EB'. apply in_or_app; left. apply in_or_app; right; left; reflexivity. }
        apply HB in H. lia.
Qed.

(* ---------------------------------------------------------------- restart: configs are re-read from the log *)
Definition dec1 (e : entry) : list config := match config_of_entry e with Some c => [c] | None => [] end.

Lemma scan_configs_spec es : forall acc l, (length acc <= 2)%nat ->
  scan_configs es acc = Done l -> l = firstn 2 (acc ++ flat_map dec1 es).
Proof.
  induction es as [|e r IH]; intros acc l La H.
  - cbn in H. inversion H; subst. cbn. rewrite app_nil_r.
    destruct l as [|a [|a' [|a'' l]]]; cbn in *; try reflexivity; lia.
  - cbn [scan_configs] in H.
    destruct acc as [|a [|a' acc']].
    + destruct (e_typ e =? entryConfig) eqn:T.
      * destruct (config_of_entry e) as [c|] eqn:D; [|discriminate].
        apply IH in H; [|cbn; lia]. rewrite H. cbn [flat_map]. unfold dec1 at 2. rewrite D. reflexivity.
      * apply IH in H; [|cbn; lia]. rewrite H. cbn [flat_map]. unfold dec1 at 2.
        unfold config_of_entry. rewrite T. reflexivity.
    + destruct (e_typ e =? entryConfig) eqn:T.
      * destruct (config_of_entry e) as [c|] eqn:D; [|discriminate].
        apply IH in H; [|cbn; lia]. rewrite H. cbn [flat_map]. unfold dec1 at 2. rewrite D. reflexivity.
      * apply IH in H; [|cbn; lia]. rewrite H. cbn [flat_map]. unfold dec1 at 2.
        unfold config_of_entry. rewrite T. reflexivity.
    + inversion H; subst. cbn in La. assert (acc' = []) by (destruct acc'; [reflexivity|cbn in La; lia]). subst. reflexivity.
Qed.

Lemma flat_map_dec1_rev l : flat_map dec1 (rev l) = rev (flat_map dec1 l).
Proof.
  induction l as [|e l IH]; [reflexivity|]. cbn [rev flat_map]. rewrite flat_map_app, IH, rev_app_distr.
  cbn [flat_map]. rewrite app_nil_r. f_equal. unfold dec1. destruct (config_of_entry e); reflexivity.
Qed.

Lemma flat_map_dec1_filter b l :
  flat_map dec1 (filter (fun e => b <? e_index e) l) = cfgs_above b l.
Proof.
  unfold cfgs_above. induction l as [|e l IH]; [reflexivity|]. cbn [filter flat_map]. unfold cfg_of at 1.
  destruct (b <? e_index e); cbn [flat_map]; rewrite IH; reflexivity.
Qed.

Lemma open_configs_spec s cm lt : open_configs s = Done (cm, lt) ->
  lt = newest_config s /\ ((cfgs s = [] /\ cm = st_snapcfg s) \/ (cfgs s <> [] /\ cm = prev_config s)).
Proof.
  unfold open_configs. intros H. apply obind_inv in H. destruct H as (l & H1 & H2).
  apply scan_configs_spec in H1; [|cbn; lia]. cbn [app] in H1.
  rewrite flat_map_dec1_rev, flat_map_dec1_filter in H1. fold (cfgs s) in H1.
  unfold newest_config, prev_config.
  destruct (list_snoc_cases (cfgs s)) as [E|(P & x & E)]; rewrite E in *.
  - cbn in H1. subst l. inversion H2; subst. auto.
  - rewrite rev_app_distr in H1. cbn [rev app] in H1.
    rewrite last_snoc, removelast_snoc.
    destruct (list_snoc_cases P) as [EP|(P' & y & EP)]; rewrite EP in *.
    + cbn in H1. subst l. inversion H2; subst. split; [reflexivity|]. right. split; [discriminate|reflexivity].
    + rewrite rev_app_distr in H1. cbn in H1. subst l. inversion H2; subst. split; [reflexivity|]. right.
      split; [intros E'; apply app_eq_nil in E'; destruct E'; discriminate|]. rewrite last_snoc. reflexivity.
Qed.

Lemma rev_cons_last {A} (l : list A) e r : rev l = e :: r -> l = rev r ++ [e].
Proof. intros H. rewrite <- (rev_involutive l), H. reflexivity. Qed.

Lemma core_of_K_nosr s' p l li si sc cm lt ci fi :
  K s' = (p, l, li, si, sc, cm, lt, ci, fi, None) ->
  idx_from p l -> li = p + N.of_nat (length l) -> fi <= ci -> ci <= li -> p <= si -> si <= li ->
  c_index sc <= si -> lt = last (cfgs_above si l) sc ->
  (cm = lt \/ (c_index cm < c_index lt /\ (cfgs_above si l = [] \/ cm = last (removelast (cfgs_above si l)) sc))) ->
  (cm = lt \/ ci < c_index lt) -> core s'.
Proof.
  destruct s'. unfold K; cbn. intros E. injection E as -> -> -> -> -> -> -> -> -> ->.
  intros. constructor; cbn; try assumption. exact I.
Qed.

(* the part of restart after the log has been opened *)
Definition restart_tail (sb : nstate) (cm lt : config) (ci ct : N) : nstate :=
  set_commit (set_fsm (set_ldr (set_cnd (set_flr (set_snapbusy (set_closed (set_leader (set_role
    (set_configs sb cm lt) Follower) 0) false) false) false false) 0 false) None <| st_snapreq := None |>) ci ct) ci.

Lemma restart_tail_fields sb cm lt ci ct :
  K (restart_tail sb cm lt ci ct) =
    (st_logprev sb, st_log sb, st_lastidx sb, st_snapidx sb, st_snapcfg sb, cm, lt, ci, ci, None) /\
  st_ldr (restart_tail sb cm lt ci ct) = None /\ st_term (restart_tail sb cm lt ci ct) = st_term sb /\
  st_role (restart_tail sb cm lt ci ct) = Follower.
Proof. repeat split; reflexivity. Qed.

Definition restart_fin (sb : nstate) : outcome nstate :=
  cc <~ open_configs sb ;;
  let s2 := set_configs sb (fst cc) (snd cc) in
  let s3 := set_ldr (set_cnd (set_flr (set_snapbusy (set_closed (set_leader (set_role s2 Follower) 0) false) false) false false) 0 false) None
              <| st_snapreq := None |> in
  if 0 <? st_snapidx s3 then
    Done (set_commit (set_fsm s3 (st_snapidx s3) (st_snapterm s3)) (st_snapidx s3))
  else Done (set_commit (set_fsm s3 0 0) 0).

Lemma restart_fin_inv sb s' : restart_fin sb = Done s' ->
  exists cm lt ci ct, open_configs sb = Done (cm, lt) /\ s' = restart_tail sb cm lt ci ct /\ ci = st_snapidx sb.
Proof.
  unfold restart_fin. intros H. apply obind_inv in H. destruct H as ([cm lt] & OC & H). cbn [fst snd] in H.
  cbv zeta in H.
  match type of H with (if 0 <? ?X then _ else _) = _ => change X with (st_snapidx sb) in H end.
  destruct (0 <? st_snapidx sb) eqn:Z.
  - exists cm, lt, (st_snapidx sb), (st_snapterm sb). split; [assumption|]. split; [|reflexivity].
    inversion H. reflexivity.
  - exists cm, lt, 0, 0. split; [assumption|]. split; [|lia]. inversion H. reflexivity.
Qed.

Lemma core_restart_fin sb s' :
  idx_from (st_logprev sb) (st_log sb) -> st_lastidx sb = st_logprev sb + N.of_nat (length (st_log sb)) ->
  st_logprev sb <= st_snapidx sb -> st_snapidx sb <= st_lastidx sb -> c_index (st_snapcfg sb) <= st_snapidx sb ->
  restart_fin sb = Done s' ->
  core s' /\ st_ldr s' = None /\ st_term s' = st_term sb /\ st_role s' = Follower.
Proof.
  intros I1 EL L1 L2 L3 H. apply restart_fin_inv in H. destruct H as (cm & lt & ci & ct & OC & -> & ->).
  destruct (restart_tail_fields sb cm lt (st_snapidx sb) ct) as (R1 & R2 & R3 & R4).
  split; [|auto].
  apply open_configs_spec in OC. destruct OC as (OL & OC).
  unfold newest_config, prev_config, cfgs in OL, OC.
  set (cf := cfgs_above (st_snapidx sb) (st_log sb)) in *.
  assert (LT : cm = lt \/ (c_index cm < c_index lt /\ In lt cf)).
  { destruct OC as [[E ->]|[NE ->]].
    - subst lt. rewrite E. left; reflexivity.
    - subst lt.
      destruct (list_snoc_cases cf) as [E|(P & x & E)]; [contradiction|]. rewrite E, last_snoc, removelast_snoc.
      right. split; [|apply in_or_app; right; left; reflexivity].
      destruct (list_snoc_cases P) as [EP|(P' & y & EP)].
      + subst P. cbn.
        assert (Hx : In x cf) by (rewrite E; apply in_or_app; right; left; reflexivity).
        pose proof (cfgs_above_bounds _ _ _ _ I1 Hx). lia.
      + rewrite EP, last_snoc. eapply (cfgs_above_last_max _ _ _ _ _ I1 E).
        rewrite EP. apply in_or_app; right; left; reflexivity. }
  assert (LTB : In lt cf -> st_snapidx sb < c_index lt).
  { intros Hin. pose proof (cfgs_above_bounds _ _ _ _ I1 Hin). lia. }
  assert (CCM : cm = lt \/ (c_index cm < c_index lt /\ (cf = [] \/ cm = last (removelast cf) (st_snapcfg sb)))).
  { destruct LT as [E|[E1 E2]]; [left; assumption|]. right. split; [assumption|].
    destruct OC as [[E _]|[_ E]]; [left; assumption|right; assumption]. }
  eapply core_of_K_nosr; [exact R1|exact I1|exact EL|lia|lia|assumption|lia|assumption|exact OL|exact CCM|].
  destruct LT as [E|[E1 E2]]; [left; assumption|]. right. apply LTB. assumption.
Qed.

Lemma core_restart s keep s' : core s -> restart s keep = Done s' ->
  core s' /\ st_ldr s' = None /\ st_term s' = st_term s /\ st_role s' = Follower.
Proof.
  intros C H. pose proof C as [H1 H2 H3 H4 H5 H6 H7 H8 H9 H10 H11].
  unfold restart in H.
  destruct (negb _) eqn:T; [discriminate|].
  assert (T1 : keep <= st_logprev s + N.of_nat (length (st_log s)) /\ st_logprev s <= keep)
    by (unfold log_lastindex in T; lia). destruct T1 as [T1 T2]. clear T.
  set (n := N.to_nat (keep - st_logprev s)) in *.
  set (l' := firstn n (st_log s)) in *.
  assert (Ln : length l' = n) by (apply firstn_length_le; lia).
  assert (I1 : idx_from (st_logprev s) l') by (apply idx_from_firstn; assumption).
  cbv zeta in H.
  match type of H with obind (open_configs ?S) _ = _ => set (sb := S) in H end.
  change (restart_fin sb = Done s') in H.
  match goal with sb := set_log (if ?b then _ else _) _ _ _ _ |- _ => destruct b eqn:Z end.
  - (* the log ended before the snapshot: reset *)
    assert (Eb : st_logprev sb = st_snapidx s /\ st_log sb = [] /\ st_snapidx sb = st_snapidx s /\
                 st_snapcfg sb = st_snapcfg s /\ st_term sb = st_term s /\ st_lastidx sb = st_snapidx s)
      by (subst sb; repeat split; reflexivity).
    destruct Eb as (Eb1 & Eb2 & Eb3 & Eb4 & Eb5 & Eb6). clearbody sb.
    rewrite <- Eb5. apply core_restart_fin; try assumption.
    + rewrite Eb1, Eb2. apply idx_from_nil.
    + rewrite Eb1, Eb2, Eb6. cbn. lia.
    + lia.
    + lia.
    + rewrite Eb3, Eb4. assumption.
  - assert (Eb : st_logprev sb = st_logprev s /\ st_log sb = l' /\ st_snapidx sb = st_snapidx s /\
                 st_snapcfg sb = st_snapcfg s /\ st_term sb = st_term s /\
                 st_lastidx sb = fst match rev l' with [] => (st_snapidx s, st_snapterm s) | e :: _ => (e_index e, e_term e) end)
      by (subst sb; repeat split; reflexivity).
    destruct Eb as (Eb1 & Eb2 & Eb3 & Eb4 & Eb5 & Eb6). clearbody sb.
    assert (Zk : st_snapidx s <= st_logprev s + N.of_nat n).
    { unfold log_lastindex in Z. cbn in Z. fold n in Z. fold l' in Z. rewrite Ln in Z. lia. }
    assert (EL : st_lastidx sb = st_logprev s + N.of_nat n).
    { rewrite Eb6. destruct (rev l') as [|e r] eqn:ER.
      - cbn. apply (f_equal (@length _)) in ER. rewrite rev_length in ER. cbn in ER. lia.
      - cbn. apply rev_cons_last in ER.
        assert (Hn : nth_error l' (length (rev r)) = Some e) by (rewrite ER, nth_error_app2, Nat.sub_diag by lia; reflexivity).
        apply I1 in Hn. rewrite ER, app_length in Ln. cbn in Ln. lia. }
    rewrite <- Eb5. apply core_restart_fin; try assumption.
    + rewrite Eb1, Eb2. assumption.
    + rewrite Eb1, Eb2, EL, Ln. reflexivity.
    + lia.
    + lia.
    + rewrite Eb3, Eb4. assumption.
Qed.
