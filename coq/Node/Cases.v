(* Correspondence cases for the node model: go/inpkg/sim*.go runs real *Raft
   values and prints for every event the implementation's own pre-state, the
   event, what the peer saw, and the post-state.  Executable only. *)
From Coq Require Import List NArith ZArith Bool String.
From Verif Require Import Base.Bytes Codec.Messages Codec.Cases Node.Types Node.Handlers Node.Leader Node.Step.
Import ListNotations.
Open Scope N_scope.

Definition opt_eqb {A} (eqb : A -> A -> bool) (a b : option A) : bool :=
  match a, b with
  | None, None => true
  | Some x, Some y => eqb x y
  | _, _ => false
  end.
Fixpoint list_eqb {A} (eqb : A -> A -> bool) (a b : list A) : bool :=
  match a, b with
  | [], [] => true
  | x :: a', y :: b' => eqb x y && list_eqb eqb a' b'
  | _, _ => false
  end.

(* a config entry encodes a Go map: compare such entries as configurations *)
Definition entry_equiv (a b : entry) : bool :=
  if (e_typ a =? entryConfig) && (e_typ b =? entryConfig) then
    match config_of_entry a, config_of_entry b with
    | Some x, Some y => config_eqb x y
    | _, _ => entry_eqb a b
    end
  else entry_eqb a b.

Definition round_eqb (a b : roundst) : bool :=
  (rd_ordinal a =? rd_ordinal b) && (rd_last a =? rd_last b) && Bool.eqb (rd_finished a) (rd_finished b).
Definition pend_eqb (a b : pendupd) : bool :=
  (pu_viewprev a =? pu_viewprev b) && (pu_last a =? pu_last b) && (pu_commit a =? pu_commit b) &&
  Bool.eqb (pu_voter a) (pu_voter b).
Definition repl_eqb (a b : replst) : bool :=
  (rp_id a =? rp_id b) && (rp_match a =? rp_match b) && Bool.eqb (rp_nocontact a) (rp_nocontact b) &&
  Bool.eqb (rp_voter a) (rp_voter b) && (rp_action a =? rp_action b) && opt_eqb round_eqb (rp_round a) (rp_round b) &&
  (rp_removelte a =? rp_removelte b) && (rp_gmatch a =? rp_gmatch b) && (rp_next a =? rp_next b) &&
  (rp_ldrlast a =? rp_ldrlast b) && (rp_viewprev a =? rp_viewprev b) && Bool.eqb (rp_gvoter a) (rp_gvoter b) &&
  (rp_commit a =? rp_commit b) && opt_eqb pend_eqb (rp_pending a) (rp_pending b).
Definition newent_eqb (a b : newent) : bool :=
  (ne_index a =? ne_index b) && (ne_typ a =? ne_typ b) && (ne_tid a =? ne_tid b).
Definition ldr_eqb (a b : ldrst) : bool :=
  Bool.eqb (ld_present a) (ld_present b) && Bool.eqb (ld_voter a) (ld_voter b) && (ld_numvoters a =? ld_numvoters b) &&
  (ld_start a =? ld_start b) && list_eqb newent_eqb (ld_queue a) (ld_queue b) && list_eqb repl_eqb (ld_repls a) (ld_repls b) &&
  Bool.eqb (ld_tr_active a) (ld_tr_active b) && (ld_tr_term a =? ld_tr_term b) && (ld_tr_target a =? ld_tr_target b) &&
  Bool.eqb (ld_tr_resp a) (ld_tr_resp b) && Bool.eqb (ld_tr_newterm a) (ld_tr_newterm b) &&
  (ld_tr_tid a =? ld_tr_tid b) && list_eqb N.eqb (ld_waitstable a) (ld_waitstable b) && (ld_removelte a =? ld_removelte b).

Definition snapreq_eqb (a b : snapreqst) : bool :=
  (sr_tid a =? sr_tid b) && (sr_index a =? sr_index b) && (sr_term a =? sr_term b) && config_eqb (sr_config a) (sr_config b) &&
  match sr_done a, sr_done b with
  | SnapPending, SnapPending => true
  | SnapOk x, SnapOk y => x =? y
  | SnapFail x, SnapFail y => x =? y
  | _, _ => false
  end.

(* [m] is the model's state, [g] the implementation's.  Equal field by field,
   except st_flushed where the model carries a lower bound. *)
Definition nstate_eqb (m g : nstate) : bool :=
  (st_cid m =? st_cid g) && (st_nid m =? st_nid g) && (st_term m =? st_term g) && (st_voted m =? st_voted g) &&
  (st_logprev m =? st_logprev g) && list_eqb entry_equiv (st_log m) (st_log g) && (st_flushed m <=? st_flushed g) &&
  (st_lastidx m =? st_lastidx g) && (st_lastterm m =? st_lastterm g) && (st_snapidx m =? st_snapidx g) &&
  (st_snapterm m =? st_snapterm g) && config_eqb (st_snapcfg m) (st_snapcfg g) &&
  config_eqb (st_committed m) (st_committed g) && config_eqb (st_latest m) (st_latest g) &&
  (st_role m =? st_role g) && (st_leader m =? st_leader g) && (st_commit m =? st_commit g) &&
  Bool.eqb (st_timer m) (st_timer g) && Bool.eqb (st_snapbusy m) (st_snapbusy g) &&
  opt_eqb snapreq_eqb (st_snapreq m) (st_snapreq g) && Bool.eqb (st_closed m) (st_closed g) &&
  (st_fsmidx m =? st_fsmidx g) && (st_fsmterm m =? st_fsmterm g) && Bool.eqb (st_aborted m) (st_aborted g) &&
  (st_votesneeded m =? st_votesneeded g)%Z && Bool.eqb (st_cndtransfer m) (st_cndtransfer g) &&
  opt_eqb ldr_eqb (st_ldr m) (st_ldr g).

(* names of the fields on which model and implementation differ (for replays) *)
Definition diff_fields (m g : nstate) : list string :=
  let f (b : bool) (n : string) := if b then [] else [n] in
  (f (st_term m =? st_term g) "term"%string ++ f (st_voted m =? st_voted g) "votedFor"%string ++
   f (st_logprev m =? st_logprev g) "log.prev"%string ++ f (list_eqb entry_equiv (st_log m) (st_log g)) "log"%string ++
   f (st_flushed m <=? st_flushed g) "flushed"%string ++ f (st_lastidx m =? st_lastidx g) "lastLogIndex"%string ++
   f (st_lastterm m =? st_lastterm g) "lastLogTerm"%string ++ f (st_snapidx m =? st_snapidx g) "snaps.index"%string ++
   f (st_snapterm m =? st_snapterm g) "snaps.term"%string ++ f (config_eqb (st_snapcfg m) (st_snapcfg g)) "snapshot.config"%string ++
   f (config_eqb (st_committed m) (st_committed g)) "configs.Committed"%string ++ f (config_eqb (st_latest m) (st_latest g)) "configs.Latest"%string ++
   f (st_role m =? st_role g) "state"%string ++ f (st_leader m =? st_leader g) "leader"%string ++ f (st_commit m =? st_commit g) "commitIndex"%string ++
   f (Bool.eqb (st_timer m) (st_timer g)) "timer.active"%string ++ f (Bool.eqb (st_snapbusy m) (st_snapbusy g)) "snapInProgress"%string ++
   f (opt_eqb snapreq_eqb (st_snapreq m) (st_snapreq g)) "snapshot-task"%string ++
   f (Bool.eqb (st_closed m) (st_closed g)) "closed"%string ++ f (st_fsmidx m =? st_fsmidx g) "fsm.index"%string ++
   f (st_fsmterm m =? st_fsmterm g) "fsm.term"%string ++ f (Bool.eqb (st_aborted m) (st_aborted g)) "electionAborted"%string ++
   f (st_votesneeded m =? st_votesneeded g)%Z "votesNeeded"%string ++ f (Bool.eqb (st_cndtransfer m) (st_cndtransfer g)) "cnd.transfer"%string ++
   match st_ldr m, st_ldr g with
   | Some a, Some b =>
       f (Bool.eqb (ld_present a) (ld_present b)) "ldr.node.present"%string ++ f (Bool.eqb (ld_voter a) (ld_voter b)) "ldr.node.Voter"%string ++
       f (ld_numvoters a =? ld_numvoters b) "ldr.numVoters"%string ++ f (ld_start a =? ld_start b) "ldr.startIndex"%string ++
       f (list_eqb newent_eqb (ld_queue a) (ld_queue b)) "ldr.queue"%string ++
       f (list_eqb N.eqb (map rp_id (ld_repls a)) (map rp_id (ld_repls b))) "ldr.repls(ids)"%string ++
       f (list_eqb (fun x y => (rp_match x =? rp_match y) && Bool.eqb (rp_nocontact x) (rp_nocontact y) && Bool.eqb (rp_voter x) (rp_voter y) && (rp_action x =? rp_action y) && (rp_removelte x =? rp_removelte y)) (ld_repls a) (ld_repls b)) "repl.status"%string ++
       f (list_eqb (fun x y => opt_eqb round_eqb (rp_round x) (rp_round y)) (ld_repls a) (ld_repls b)) "repl.round"%string ++
       f (list_eqb (fun x y => (rp_gmatch x =? rp_gmatch y) && (rp_next x =? rp_next y) && (rp_ldrlast x =? rp_ldrlast y) && (rp_viewprev x =? rp_viewprev y) && Bool.eqb (rp_gvoter x) (rp_gvoter y)) (ld_repls a) (ld_repls b)) "repl.goroutine"%string ++
       f (list_eqb (fun x y => (rp_commit x =? rp_commit y)) (ld_repls a) (ld_repls b)) "repl.req.commit"%string ++
       f (list_eqb (fun x y => opt_eqb pend_eqb (rp_pending x) (rp_pending y)) (ld_repls a) (ld_repls b)) "repl.pending"%string ++
       f (Bool.eqb (ld_tr_active a) (ld_tr_active b) && (ld_tr_term a =? ld_tr_term b) && (ld_tr_target a =? ld_tr_target b) && Bool.eqb (ld_tr_resp a) (ld_tr_resp b) && Bool.eqb (ld_tr_newterm a) (ld_tr_newterm b) && (ld_tr_tid a =? ld_tr_tid b)) "ldr.transfer"%string ++
       f (list_eqb N.eqb (ld_waitstable a) (ld_waitstable b)) "ldr.waitStable"%string ++ f (ld_removelte a =? ld_removelte b) "ldr.removeLTE"%string
   | None, None => []
   | _, _ => ["leader-state present/absent"%string]
   end)%list.

Definition reply_eqb (a b : reply) : bool :=
  match a, b with
  | RpNil, RpNil | RpNotCommitReady, RpNotCommitReady | RpStaleConfig, RpStaleConfig | RpInvalid, RpInvalid
  | RpServerClosed, RpServerClosed | RpQuorumUnreachable, RpQuorumUnreachable | RpTimeout, RpTimeout
  | RpTransferNoVoter, RpTransferNoVoter | RpTransferSelf, RpTransferSelf
  | RpTransferTargetNonvoter, RpTransferTargetNonvoter | RpTransferInvalidTarget, RpTransferInvalidTarget
  | RpTargetRejected, RpTargetRejected | RpSnapThreshold, RpSnapThreshold | RpNoUpdates, RpNoUpdates => true
  | RpVal x, RpVal y => x =? y
  | RpConfig x, RpConfig y => config_eqb x y
  | RpNotLeader x, RpNotLeader y => Bool.eqb x y
  | RpInProgress x, RpInProgress y => x =? y
  | _, _ => false
  end.
Definition appendreq_eqb (a b : appendreq) : bool :=
  (aq_term a =? aq_term b) && (aq_src a =? aq_src b) && (aq_previdx a =? aq_previdx b) &&
  (aq_prevterm a =? aq_prevterm b) && (aq_commit a =? aq_commit b) && list_eqb entry_equiv (aq_entries a) (aq_entries b).
Definition lmsg_eqb (a b : lmsg) : bool :=
  match a, b with
  | MTimeoutNow x, MTimeoutNow y => x =? y
  | MReplUpdate i k v, MReplUpdate i' k' v' => (i =? i') && (k =? k') && (v =? v')
  | MAppend i q, MAppend i' q' => (i =? i') && appendreq_eqb q q'
  | MNeedSnapshot i, MNeedSnapshot i' => i =? i'
  | _, _ => false
  end.
(* replies are compared as a set keyed by task id (completion order inside one step is not observable);
   a timeout-now target chosen among several ready voters is accepted whichever it is when the
   implementation does not expose it (target 0 in the observed message) *)
Definition replies_eqb (a b : list (N * reply)) : bool :=
  set_eqb (fun x y => (fst x =? fst y) && reply_eqb (snd x) (snd y)) a b.
Definition msgs_eqb (m g : list lmsg) : bool :=
  list_eqb (fun x y => match x, y with
                       | MTimeoutNow _, MTimeoutNow 0 => true
                       | _, _ => lmsg_eqb x y end) m g.
Definition obs_eqb (a b : nobs) : bool :=
  (ob_result a =? ob_result b) && (ob_respterm a =? ob_respterm b) && (ob_resplast a =? ob_resplast b) &&
  replies_eqb (lo_replies (ob_out a)) (lo_replies (ob_out b)) && msgs_eqb (lo_msgs (ob_out a)) (lo_msgs (ob_out b)).

(* outcome observed on the implementation *)
Inductive gout :=
| GOk (o : nobs) (post : nstate)
| GPanic.                           (* the handler panicked (assert, bug, nil dereference, ...) *)

Inductive ncase := NCase (id : N) (opt : options) (pre : nstate) (ev : nevent) (out : gout).

(* 0 = agree, 1 = disagree, 2 = outside the modelled fragment *)
Definition check_with (opt : options) (pre : nstate) (ev : nevent) (out : gout) : N :=
  match model_event opt pre ev, out with
  | Err EUnsupported, _ => 2
  | Done (o, post), GOk o' post' => if obs_eqb o o' && nstate_eqb post post' then 0 else 1
  | Err _, GPanic => 0
  | _, _ => 1
  end.

(* map-iteration oracle: the case agrees if some visiting order reproduces it *)
Definition orders (opt : options) : list options :=
  map (fun o => mkOptions (o_shutdown_on_remove opt) (o_quorum_wait opt) (o_slow opt) (o_newprev opt) (o_newremovelte opt) o)
      (perms (o_order opt)).

Definition check_ncase (c : ncase) : N :=
  match c with
  | NCase _ opt pre ev out =>
      let rs := map (fun o => check_with o pre ev out) (orders opt) in
      if existsb (N.eqb 0) rs then 0 else if existsb (N.eqb 2) rs then 2 else 1
  end.
Definition ncase_id (c : ncase) : N := match c with NCase i _ _ _ _ => i end.

Definition mismatches (l : list ncase) : list N :=
  map ncase_id (filter (fun c => check_ncase c =? 1) l).
Definition unsupported (l : list ncase) : list N :=
  map ncase_id (filter (fun c => check_ncase c =? 2) l).

Definition explain (c : ncase) : list string :=
  match c with
  | NCase _ opt pre ev out =>
      match model_event opt pre ev, out with
      | Done (o, post), GOk o' post' =>
          ((if obs_eqb o o' then [] else ["reply"%string]) ++ diff_fields post post')%list
      | Err _, GOk _ _ => ["model: handler fails (assert/bug), implementation: returned"%string]
      | Done _, GPanic => ["%stringmodel: returns, implementation: panicked"%string]
      | Err _, GPanic => []
      end
  end.
Definition explain_all (l : list ncase) : list (N * list string) :=
  map (fun c => (ncase_id c, explain c)) (filter (fun c => check_ncase c =? 1) l).
