(* C05: one durable vote per term, the term never goes backwards.
   Proofs of the statements in Props/C05.v; the preservation lemmas are in Node/PreserveTV.v. *)
From Coq Require Import List NArith ZArith Bool Lia.
From RecordUpdate Require Import RecordUpdate.
From Verif Require Import Base.Bytes Codec.Messages Node.Types Node.Handlers Node.Leader Node.Snap Node.Step Node.Run
  Node.PreserveTV.
Import ListNotations.
Open Scope N_scope.

Lemma tv_eq s t v : tv s = (t, v) -> st_term s = t /\ st_voted s = v.
Proof. unfold tv. intros H; inversion H; auto. Qed.

Lemma tvle_unfold s s' :
  tvle s s' ->
  st_term s <= st_term s' /\ (st_term s' = st_term s -> st_voted s = 0 \/ st_voted s' = st_voted s).
Proof. intros H; exact H. Qed.

Theorem grant_is_durable :
  forall s q s', on_vote_request s q = Done (success, s') ->
    st_term s' = vq_term q /\ st_voted s' = vq_src q.
Proof.
  intros s q s' H. apply on_vote_request_spec in H. destruct H as (_ & _ & H).
  apply tv_eq, H. reflexivity.
Qed.

Lemma role_after_rpc s b : st_role (after_rpc s b) = st_role s.
Proof.
  unfold after_rpc. destruct (_ && _); [|reflexivity].
  unfold follower_reset_timer. destruct (can_start_election s); reflexivity.
Qed.

Theorem granted_reply_means_persisted :
  forall opt s q o s', model_event opt s (EVoteReq q) = Done (o, s') -> ob_result o = success ->
    st_term s' = vq_term q /\ st_voted s' = vq_src q /\ ob_respterm o = vq_term q.
Proof.
  intros opt s q o s' H HS. cbn [model_event] in H.
  apply obind_inv in H. destruct H as ([code s1] & H1 & H).
  apply finish_inv in H. destruct H as (out2 & HT & HC & HR). cbn [fst] in HT.
  assert (HC2 : code = success) by congruence.
  apply on_vote_request_spec in H1. destruct H1 as (_ & R & G).
  specialize (G HC2).
  assert (T : tv s' = tv s1).
  { destruct R as [R|R].
    - apply tv_transition_same in HT; [|rewrite role_after_rpc; exact R].
      cbn [fst] in HT. rewrite HT. apply tv_after_rpc.
    - apply tv_transition_follower in HT; [|rewrite role_after_rpc; exact R].
      cbn [fst] in HT. rewrite HT. apply tv_after_rpc. }
  rewrite G in T. apply tv_eq in T. apply tv_eq in G. destruct T, G.
  repeat split; congruence.
Qed.

Lemma nstep_tvle s s' : nstep s s' -> tvle s s'.
Proof.
  intros (opt & ev & o & H). apply model_event_mid in H.
  destruct H as (sm & A & B & _). eapply tvle_trans; eassumption.
Qed.

Theorem step_term_vote_monotone :
  forall s s', nstep s s' ->
    st_term s <= st_term s' /\ (st_term s' = st_term s -> st_voted s = 0 \/ st_voted s' = st_voted s).
Proof. intros s s' H. apply tvle_unfold, nstep_tvle, H. Qed.

Lemma npath_tvle l : npath l -> forall i j sa sb, (i <= j)%nat ->
  nth_error l i = Some sa -> nth_error l j = Some sb -> tvle sa sb.
Proof.
  induction 1 as [s | s s' l HS HP IH]; intros i j sa sb Hij Hi Hj.
  - destruct i as [|i]; [|destruct i; discriminate].
    destruct j as [|j]; [|destruct j; discriminate].
    cbn in Hi, Hj. inversion Hi; inversion Hj; subst. apply tvle_refl.
  - destruct i as [|i].
    + cbn in Hi. inversion Hi; subst.
      destruct j as [|j].
      * cbn in Hj. inversion Hj; subst. apply tvle_refl.
      * cbn [nth_error] in Hj. apply tvle_trans with s'; [apply nstep_tvle; exact HS|].
        apply (IH 0%nat j); [lia | reflexivity | exact Hj].
    + destruct j as [|j]; [lia|]. cbn [nth_error] in Hi, Hj.
      apply (IH i j); [lia | exact Hi | exact Hj].
Qed.

Theorem one_vote_per_term :
  forall l, npath l -> forall i j sa sb,
    nth_error l i = Some sa -> nth_error l j = Some sb ->
    st_term sa = st_term sb -> st_voted sa <> 0 -> st_voted sb <> 0 -> st_voted sa = st_voted sb.
Proof.
  intros l HP i j sa sb Hi Hj HT Ha Hb.
  destruct (Nat.le_ge_cases i j) as [L|L].
  - pose proof (npath_tvle l HP i j sa sb L Hi Hj) as H. apply tvle_unfold in H.
    destruct H as [_ H]. destruct (H (eq_sym HT)); [contradiction | congruence].
  - pose proof (npath_tvle l HP j i sb sa L Hj Hi) as H. apply tvle_unfold in H.
    destruct H as [_ H]. destruct (H HT); [contradiction | congruence].
Qed.

Theorem term_monotone :
  forall l, npath l -> forall i j sa sb, (i <= j)%nat ->
    nth_error l i = Some sa -> nth_error l j = Some sb -> st_term sa <= st_term sb.
Proof.
  intros l HP i j sa sb L Hi Hj.
  apply (npath_tvle l HP i j sa sb L Hi Hj).
Qed.

Theorem reported_term_between :
  forall opt s ev o s', model_event opt s ev = Done (o, s') -> ob_result o <> 0 ->
    st_term s <= ob_respterm o /\ ob_respterm o <= st_term s'.
Proof.
  intros opt s ev o s' H HR. apply model_event_mid in H.
  destruct H as (sm & A & B & E). rewrite (E HR).
  apply tvle_unfold in A, B. split; [apply A | apply B].
Qed.

Theorem self_vote_persisted :
  forall s s', start_election s = Done s' -> st_term s' = st_term s + 1 /\ st_voted s' = st_nid s.
Proof. intros s s' H. apply tv_eq, start_election_spec, H. Qed.

Definition ex_state : nstate := fresh_node 7 1 <| st_term := 1 |> <| st_leader := 2 |>.

Theorem grant_is_durable_before_fix_refuted :
  exists s q s', on_vote_request_before_fix s q = Done (success, s') /\ st_term s' <> vq_term q.
Proof.
  exists ex_state, (mkVoteReq 2 2 0 0 false), ex_state.
  split; [vm_compute; reflexivity | vm_compute; discriminate].
Qed.

Theorem grant_example :
  exists s q s', on_vote_request s q = Done (success, s') /\ st_leader s <> 0 /\ st_term s < vq_term q.
Proof.
  exists ex_state, (mkVoteReq 2 3 0 0 true), (set_term_vote (set_role ex_state Follower) 2 3).
  split; [vm_compute; reflexivity|]. split; [vm_compute; discriminate | vm_compute; reflexivity].
Qed.
