(* Facts about commit points in the node model (C06): the leader's majority match, the cache it is
   computed from, flushing before acknowledging.  Proofs only; statements are repeated in
   Props/C06_rules.v. *)
From Coq Require Import List NArith ZArith Bool Lia Arith.
From RecordUpdate Require Import RecordUpdate.
From Verif Require Import Base.Bytes Codec.Messages Node.Types Node.Handlers Node.Leader Node.Snap Node.Step Node.Run
  Node.PreserveTV.
Import ListNotations.
Open Scope N_scope.

(* ================================================================ majority match *)
Lemma insert_desc_length x l : length (insert_desc x l) = S (length l).
Proof. induction l as [|a l IH]; cbn; [reflexivity|]. destruct (a <? x); cbn; congruence. Qed.

Lemma sort_desc_length l : length (sort_desc l) = length l.
Proof. unfold sort_desc. induction l as [|a l IH]; cbn; [reflexivity|]. rewrite insert_desc_length. congruence. Qed.

Lemma insert_desc_count p x l : length (filter p (insert_desc x l)) = length (filter p (x :: l)).
Proof.
  induction l as [|a l IH]; [reflexivity|]. cbn [insert_desc].
  destruct (a <? x); [reflexivity|].
  cbn [filter] in *. destruct (p a), (p x); cbn [length] in *; rewrite IH; reflexivity.
Qed.

Lemma sort_desc_count p l : length (filter p (sort_desc l)) = length (filter p l).
Proof.
  unfold sort_desc. induction l as [|a l IH]; [reflexivity|]. cbn [fold_right].
  rewrite insert_desc_count. cbn [filter]. destruct (p a); cbn [length]; rewrite IH; reflexivity.
Qed.

Fixpoint desc (l : list N) : Prop :=
  match l with [] => True | x :: t => (forall y, In y t -> y <= x) /\ desc t end.

Lemma insert_desc_in y x l : In y (insert_desc x l) <-> y = x \/ In y l.
Proof.
  induction l as [|a l IH]; cbn; [intuition|].
  destruct (a <? x); cbn; [intuition|]. rewrite IH. intuition.
Qed.

Lemma insert_desc_desc x l : desc l -> desc (insert_desc x l).
Proof.
  induction l as [|a l IH]; cbn [insert_desc desc].
  - intros _. split; [intros y []|exact I].
  - intros [D1 D2]. destruct (a <? x) eqn:E.
    + apply N.ltb_lt in E. cbn [desc]. split; [|split; assumption].
      intros y [<-|Hy]; [lia|]. specialize (D1 y Hy). lia.
    + apply N.ltb_ge in E. cbn [desc]. split; [|apply IH; exact D2].
      intros y Hy. apply insert_desc_in in Hy. destruct Hy as [->|Hy]; [exact E | apply D1; exact Hy].
Qed.

Lemma sort_desc_desc l : desc (sort_desc l).
Proof. unfold sort_desc. induction l as [|a l IH]; cbn; [exact I|]. apply insert_desc_desc. exact IH. Qed.

Lemma desc_nth_count l : desc l -> forall k m, nth_error l k = Some m ->
  (k < length (filter (fun x => (m <=? x)%N) l))%nat.
Proof.
  induction l as [|a l IH]; intros D k m H; [destruct k; discriminate|].
  destruct D as [D1 D2]. destruct k as [|k]; cbn in H.
  - inversion H; subst. cbn. rewrite N.leb_refl. cbn. lia.
  - pose proof (nth_error_In _ _ H) as Hin. specialize (D1 m Hin).
    cbn. apply N.leb_le in D1. rewrite D1. cbn. specialize (IH D2 k m H). lia.
Qed.

Section MM.
Variables (s : nstate) (l : ldrst) (m : N).

Definition okv (v : N) : Prop :=
  (v = st_nid s /\ m <= st_lastidx s) \/
  (exists rp, find_repl v (ld_repls l) = Some rp /\ m <= rp_match rp).

Lemma vm_sound nodes : forall ms,
  fold_right (fun n acc =>
      a <~ acc ;;
      if n_voter n then
        if n_id n =? st_nid s then Done (st_lastidx s :: a)
        else match find_repl (n_id n) (ld_repls l) with
             | Some r => Done (rp_match r :: a)
             | None => Err EBug
             end
      else Done a) (Done []) nodes = Done ms ->
  NoDup (map n_id nodes) ->
  length ms = length (filter n_voter nodes) /\
  exists Q, NoDup Q /\ (forall v, In v Q -> exists n, In n nodes /\ n_id n = v /\ n_voter n = true) /\
            length Q = length (filter (fun x => m <=? x) ms) /\ forall v, In v Q -> okv v.
Proof.
  induction nodes as [|n rest IH]; intros ms H ND.
  - cbn in H. inversion H; subst. split; [reflexivity|]. exists []. cbn.
    split; [constructor|]. split; [tauto|]. split; [reflexivity|tauto].
  - cbn [fold_right] in H. apply obind_inv in H. destruct H as (a & Ha & H).
    inversion ND as [|? ? Hn ND']; subst.
    destruct (IH a Ha ND') as (L & Q & NQ & VQ & LQ & OQ).
    assert (VQ' : forall v, In v Q -> exists n0, In n0 (n :: rest) /\ n_id n0 = v /\ n_voter n0 = true).
    { intros v Hv. destruct (VQ v Hv) as (n0 & I0 & E0). exists n0. split; [right; exact I0 | exact E0]. }
    assert (NI : ~ In (n_id n) Q).
    { intros Hq. destruct (VQ _ Hq) as (n0 & I0 & E0 & _). apply Hn. rewrite <- E0. apply in_map. exact I0. }
    cbn [filter]. destruct (n_voter n) eqn:V.
    + assert (GEN : forall x, (m <=? x = true -> okv (n_id n)) ->
                length (x :: a) = length (n :: filter n_voter rest) /\
                exists Q0, NoDup Q0 /\ (forall v, In v Q0 -> exists n0, In n0 (n :: rest) /\ n_id n0 = v /\ n_voter n0 = true) /\
                           length Q0 = length (filter (fun y => m <=? y) (x :: a)) /\
                           forall v, In v Q0 -> okv v).
      { intros x K. split; [cbn; congruence|].
        cbn [filter]. destruct (m <=? x) eqn:E.
        - exists (n_id n :: Q). split; [constructor; assumption|].
          split. { intros v [<-|Hv]; [exists n; split; [left; reflexivity | auto] | apply VQ'; exact Hv]. }
          split; [cbn; congruence|].
          intros v [<-|Hv]; [apply K; reflexivity | apply OQ; exact Hv].
        - exists Q. split; [exact NQ|]. split; [exact VQ'|]. split; [exact LQ|]. exact OQ. }
      destruct (n_id n =? st_nid s) eqn:E.
      * apply N.eqb_eq in E. inversion H; subst ms. apply GEN.
        intros E2. left. split; [exact E | apply N.leb_le; exact E2].
      * destruct (find_repl (n_id n) (ld_repls l)) as [r|] eqn:F; [|discriminate].
        inversion H; subst ms. apply GEN.
        intros E2. right. exists r. split; [exact F | apply N.leb_le; exact E2].
    + inversion H; subst ms. split; [exact L|]. exists Q. repeat split; auto.
Qed.
End MM.

Lemma find_node_nodup l n : NoDup (map n_id l) -> In n l -> find_node (n_id n) l = Some n.
Proof.
  induction l as [|a l IH]; cbn; [tauto|].
  intros ND [->|I].
  - rewrite N.eqb_refl. reflexivity.
  - inversion ND; subst.
    destruct (n_id a =? n_id n) eqn:E.
    + apply N.eqb_eq in E. exfalso. apply H1. rewrite E. apply in_map. exact I.
    + auto.
Qed.

Theorem majority_match_sound :
  forall s l m,
    majority_match s l = Done m ->
    ld_numvoters l = num_voters (st_latest s) -> ld_voter l = is_voter (st_latest s) (st_nid s) ->
    NoDup (map n_id (c_nodes (st_latest s))) -> 1 <= num_voters (st_latest s) ->
    exists Q, NoDup Q /\ (forall v, In v Q -> is_voter (st_latest s) v = true) /\
              quorum (st_latest s) <= N.of_nat (length Q) /\
              forall v, In v Q ->
                (v = st_nid s /\ m <= st_lastidx s) \/
                (exists rp, find_repl v (ld_repls l) = Some rp /\ m <= rp_match rp).
Proof.
  intros s l m H C1 C2 ND NV. unfold majority_match in H.
  destruct ((ld_numvoters l =? 1) && ld_voter l) eqn:E.
  - apply andb_true_iff in E. destruct E as [E1 E2]. apply N.eqb_eq in E1. inversion H; subst m.
    exists [st_nid s]. split; [constructor; [intros []|constructor]|].
    split. { intros v [<-|[]]. congruence. }
    split. { unfold quorum. rewrite <- C1, E1. cbn. lia. }
    intros v [<-|[]]. left. split; [reflexivity | lia].
  - clear E. apply obind_inv in H. destruct H as (ms & Hms & H).
    unfold voter_matches in Hms.
    destruct (vm_sound s l m _ _ Hms ND) as (L & Q & NQ & VQ & LQ & OQ).
    unfold num_voters in NV.
    assert (L1 : (1 <= length ms)%nat) by lia.
    cbv zeta in H. rewrite Nat.add_sub in H.
    assert (LT : (length ms / 2 < length ms)%nat) by (apply Nat.div_lt; lia).
    destruct (nth_error _ _) as [m'|] eqn:NE in H; [|discriminate]. inversion H; subst m'. clear H.
    rewrite nth_error_app1 in NE by (rewrite sort_desc_length; exact LT).
    apply (desc_nth_count _ (sort_desc_desc ms)) in NE.
    rewrite sort_desc_count, <- LQ in NE.
    exists Q. split; [exact NQ|].
    split.
    { intros v Hv. destruct (VQ v Hv) as (n & I & E & V). unfold is_voter, cfg_node.
      rewrite <- E, (find_node_nodup _ _ ND I). exact V. }
    split; [|exact OQ].
    unfold quorum, num_voters. rewrite <- L.
    change 2 with (N.of_nat 2). rewrite <- Nat2N.inj_div. lia.
Qed.

(* ================================================================ the follower's commit rule *)
Theorem follower_commit_rule :
  forall s q index term, can_commit s q index term = true ->
    index <= aq_commit q /\ term = aq_term q /\ st_commit s < index.
Proof.
  intros s q index term H. unfold can_commit in H.
  apply andb_true_iff in H. destruct H as [H H3]. apply andb_true_iff in H. destruct H as [H1 H2].
  apply N.leb_le in H1. apply N.eqb_eq in H2. apply N.ltb_lt in H3. auto.
Qed.

(* ================================================================ the follower flushes before it answers success *)
Definition LK (s : nstate) := (st_logprev s, st_log s, st_lastidx s, st_flushed s).
Definition wf_last (s : nstate) : Prop := st_lastidx s = log_lastindex s.

Lemma LK_set_term s t s' : set_term s t = Done s' -> LK s' = LK s.
Proof. unfold set_term. intros H. repeat inv1; reflexivity. Qed.

Lemma LK_raft_set_commit_index sor s i : LK (fst (raft_set_commit_index sor s i)) = LK s.
Proof.
  unfold raft_set_commit_index. destruct (_ && _); [|reflexivity]. cbn [fst].
  unfold commit_config. cbn [st_leader st_latest set_commit set]. 
  destruct sor; repeat match goal with |- context [if ?b then _ else _] => destruct b end;
    try destruct (cfg_node _ _); reflexivity.
Qed.

Lemma LK_apply_committed s s' : apply_committed s = Done s' -> LK s' = LK s.
Proof. unfold apply_committed. intros H. repeat inv1; reflexivity. Qed.

Lemma LK_commit_and_apply sor s i s' : commit_and_apply sor s i = Done s' -> LK s' = LK s.
Proof.
  unfold commit_and_apply. intros H. apply LK_apply_committed in H. rewrite H. apply LK_raft_set_commit_index.
Qed.

Lemma LK_fields s s' : LK s' = LK s ->
  st_logprev s' = st_logprev s /\ st_log s' = st_log s /\ st_lastidx s' = st_lastidx s /\ st_flushed s' = st_flushed s.
Proof. unfold LK. intros H. inversion H. auto. Qed.

Lemma wf_append_entry s e s' : wf_last s -> append_entry s e = Done s' -> wf_last s'.
Proof.
  unfold append_entry, wf_last, log_lastindex. intros W H.
  destruct (e_index e =? st_lastidx s + 1) eqn:E; [|discriminate]. apply N.eqb_eq in E.
  inversion H; subst. cbn. rewrite app_length. cbn [length]. lia.
Qed.

Lemma wf_remove_gte s i t s' : remove_gte s i t = Done s' -> wf_last s'.
Proof.
  unfold remove_gte, wf_last, log_lastindex. intros H.
  destruct ((st_logprev s <? i) && (i <=? st_logprev s + N.of_nat (length (st_log s)) + 1)) eqn:E; [|discriminate].
  apply andb_true_iff in E. destruct E as [E1 E2]. apply N.ltb_lt in E1. apply N.leb_le in E2.
  inversion H; subst. cbn. rewrite firstn_length. lia.
Qed.

Lemma wf_change_config s c : wf_last s -> wf_last (change_config s c).
Proof. unfold change_config, wf_last, log_lastindex. destruct (_ && _); auto. Qed.

Lemma consume_entries_wf es : forall s i t sy r,
  wf_last s -> consume_entries s es i t sy = Done r -> wf_last (fst (fst (fst (fst r)))).
Proof.
  induction es as [|ne rest IH]; intros s i t sy r W H.
  - cbn in H. inversion H; subst. exact W.
  - cbn [consume_entries] in H.
    destruct (e_index ne <=? st_snapidx s); [eapply IH; eauto|].
    apply obind_inv in H. destruct H as (r0 & R & H).
    assert (W0 : match r0 with Some s1 => wf_last s1 | None => True end).
    { destruct (e_index ne <=? st_lastidx s).
      - destruct (log_get s (e_index ne)) as [me|]; [|discriminate].
        destruct (e_index me =? e_index ne); [|discriminate].
        destruct (e_term me =? e_term ne). { inversion R; subst. exact I. }
        apply obind_inv in R. destruct R as (s1 & G & R). inversion R; subst.
        apply wf_remove_gte in G. destruct (_ <=? _); exact G.
      - inversion R; subst. exact W. }
    destruct r0 as [s1|]; [|eapply IH; eauto].
    apply obind_inv in H. destruct H as (s2 & A & H).
    pose proof (wf_append_entry _ _ _ W0 A) as W2.
    destruct (e_typ ne =? entryConfig).
    + destruct (config_of_entry ne) as [c|].
      * eapply IH; [|exact H]. apply wf_change_config. exact W2.
      * inversion H; subst. exact W2.
    + eapply IH; eauto.
Qed.

Lemma consume_entries_sync_true es : forall s i t s' i' t' sy f,
  consume_entries s es i t true = Done (s', i', t', sy, f) -> sy = true.
Proof.
  induction es as [|ne rest IH]; intros s i t s' i' t' sy f H.
  - cbn in H. inversion H; reflexivity.
  - cbn [consume_entries] in H.
    destruct (e_index ne <=? st_snapidx s); [eapply IH; eauto|].
    apply obind_inv in H. destruct H as (r0 & R & H).
    destruct r0 as [s1|]; [|eapply IH; eauto].
    apply obind_inv in H. destruct H as (s2 & A & H).
    destruct (e_typ ne =? entryConfig).
    + destruct (config_of_entry ne) as [c|]; [eapply IH; eauto|]. inversion H; reflexivity.
    + eapply IH; eauto.
Qed.

Lemma consume_entries_nosync es : forall s i t s' i' t' f,
  consume_entries s es i t false = Done (s', i', t', false, f) -> s' = s.
Proof.
  induction es as [|ne rest IH]; intros s i t s' i' t' f H.
  - cbn in H. inversion H; reflexivity.
  - cbn [consume_entries] in H.
    destruct (e_index ne <=? st_snapidx s); [eapply IH; eauto|].
    apply obind_inv in H. destruct H as (r0 & R & H).
    destruct r0 as [s1|]; [|eapply IH; eauto].
    apply obind_inv in H. destruct H as (s2 & A & H).
    destruct (e_typ ne =? entryConfig).
    + destruct (config_of_entry ne) as [c|]; [|inversion H].
      apply consume_entries_sync_true in H. discriminate.
    + apply consume_entries_sync_true in H. discriminate.
Qed.

(* the stored last index must be the log's last index, as it is in every state the implementation
   reaches (storage.lastLogIndex is read from the log at start-up and updated with it) *)
Theorem follower_flush_before_success :
  forall sor s q s', st_lastidx s = log_lastindex s -> on_append_request sor s q = Done (success, s') ->
    st_log s' = st_log s \/ log_lastindex s' <= st_flushed s'.
Proof.
  intros sor s q s' W H. unfold on_append_request in H.
  destruct (aq_term q <? st_term s); [inversion H|].
  apply obind_inv in H. destruct H as (s0 & T & H). apply LK_set_term in T.
  set (s1 := set_leader (set_role s0 Follower) (aq_src q)) in *.
  assert (K1 : LK s1 = LK s) by exact T.
  apply obind_inv in H. destruct H as ([code s2] & P & H).
  assert (K2 : LK s2 = LK s).
  { destruct (st_snapidx s1 <? aq_previdx q); [|inversion P; subst; exact K1].
    destruct (st_lastidx s1 <? aq_previdx q); [inversion P; subst; exact K1|].
    match type of P with match ?x with _ => _ end = _ => destruct x end; [|discriminate].
    destruct (negb _); [inversion P; subst; exact K1|].
    destruct (can_commit _ _ _ _); [|inversion P; subst; exact K1].
    apply obind_inv in P. destruct P as (s2' & C & P). inversion P; subst.
    apply LK_commit_and_apply in C. congruence. }
  destruct code as [code|]; [inversion H; subst; left; apply (LK_fields _ _ K2)|].
  apply obind_inv in H. destruct H as ([[[[s3 index] term] sync] failed] & C & H).
  apply obind_inv in H. destruct H as (s4 & D & H). inversion H; subst s4. clear H.
  assert (W2 : wf_last s2).
  { unfold wf_last, log_lastindex. destruct (LK_fields _ _ K2) as (-> & -> & -> & _). exact W. }
  pose proof (consume_entries_wf _ _ _ _ _ _ W2 C) as W3. cbn [fst] in W3.
  destruct (sync && negb match aq_entries q with [] => true | _ :: _ => false end) eqn:E.
  - right.
    assert (K4 : LK s' = LK (commit_log s3 (st_lastidx s3))).
    { match type of D with (if ?b then _ else _) = _ => destruct b end;
        [apply LK_commit_and_apply in D; exact D | inversion D; reflexivity]. }
    destruct (LK_fields _ _ K4) as (F1 & F2 & _ & F4).
    unfold log_lastindex. rewrite F1, F2, F4. unfold commit_log. cbn.
    unfold wf_last in W3. unfold log_lastindex in *. lia.
  - left. inversion D; subst s3.
    destruct sync.
    + cbn in E. destruct (aq_entries q); [|discriminate]. cbn in C. inversion C.
    + apply consume_entries_nosync in C. subst. apply (LK_fields _ _ K2).
Qed.

(* ================================================================ what the leader's functions leave alone *)
(* the cached voter count and voter flag describe the latest configuration *)
Definition Cache (s : nstate) : Prop :=
  match st_ldr s with
  | Some l => ld_numvoters l = num_voters (st_latest s) /\ ld_voter l = is_voter (st_latest s) (st_nid s)
  | None => True
  end.

(* id unchanged, flushed index not lowered, cache relation kept *)
Definition R (s s' : nstate) : Prop :=
  st_nid s' = st_nid s /\ st_flushed s <= st_flushed s' /\ (Cache s -> Cache s').

Lemma R_refl s : R s s.
Proof. unfold R. split; [reflexivity|]. split; [lia | auto]. Qed.
Lemma R_trans a b c : R a b -> R b c -> R a c.
Proof. unfold R. intros (A1 & A2 & A3) (B1 & B2 & B3). split; [congruence|]. split; [lia | auto]. Qed.

Definition ck (s : nstate) :=
  (st_nid s, st_flushed s, st_latest s, option_map (fun l => (ld_numvoters l, ld_voter l)) (st_ldr s)).

Lemma Cache_ck x y : ck y = ck x -> Cache x -> Cache y.
Proof.
  unfold ck, Cache. intros H. inversion H as [[H1 H2 H3 H4]]. rewrite H1, H3.
  destruct (st_ldr y), (st_ldr x); cbn in H4; try discriminate; auto.
  inversion H4 as [[E1 E2]]. rewrite E1, E2. auto.
Qed.

Lemma R_ck a x y : ck y = ck x -> R a x -> R a y.
Proof.
  intros H (A1 & A2 & A3). pose proof (Cache_ck _ _ H) as C.
  unfold ck in H. inversion H as [[H1 H2 H3 H4]].
  unfold R. rewrite H1, H2. auto.
Qed.

Lemma R_set_role a x r : R a x -> R a (set_role x r). Proof. apply R_ck; reflexivity. Qed.
Lemma R_set_leader a x r : R a x -> R a (set_leader x r). Proof. apply R_ck; reflexivity. Qed.
Lemma R_set_commit a x r : R a x -> R a (set_commit x r). Proof. apply R_ck; reflexivity. Qed.
Lemma R_set_closed a x r : R a x -> R a (set_closed x r). Proof. apply R_ck; reflexivity. Qed.
Lemma R_set_timer a x r : R a x -> R a (set_timer x r). Proof. apply R_ck; reflexivity. Qed.
Lemma R_set_fsm a x i t : R a x -> R a (set_fsm x i t). Proof. apply R_ck; reflexivity. Qed.
Lemma R_set_term_vote a x i t : R a x -> R a (set_term_vote x i t). Proof. apply R_ck; reflexivity. Qed.
Lemma R_set_log a x p l i t : R a x -> R a (set_log x p l i t). Proof. apply R_ck; reflexivity. Qed.

Lemma R_commit_config a x : R a x -> R a (commit_config x).
Proof. apply R_ck. unfold commit_config. destruct (_ && _); reflexivity. Qed.

Lemma R_commit_log a x n : R a x -> R a (commit_log x n).
Proof.
  intros H. apply R_trans with x; [exact H|]. unfold R, commit_log. cbn.
  split; [reflexivity|]. split; [lia|]. auto.
Qed.

Lemma R_put_ldr a x l l' :
  st_ldr x = Some l -> ld_numvoters l' = ld_numvoters l -> ld_voter l' = ld_voter l -> R a x -> R a (put_ldr x l').
Proof.
  intros Hl E1 E2. apply R_ck. unfold ck. cbn. rewrite Hl. cbn. congruence.
Qed.

Lemma R_upd_ldr a x f :
  (forall l, ld_numvoters (f l) = ld_numvoters l /\ ld_voter (f l) = ld_voter l) -> R a x -> R a (upd_ldr x f).
Proof.
  intros Hf. unfold upd_ldr. destruct (st_ldr x) as [l|] eqn:Hl; [|auto].
  destruct (Hf l). apply R_put_ldr with l; assumption.
Qed.

Lemma R_upd_repl a x id f : R a x -> R a (upd_repl x id f).
Proof. apply R_upd_ldr. intros l. split; reflexivity. Qed.

Lemma R_begin_finished_rounds a x : R a x -> R a (begin_finished_rounds x).
Proof. apply R_upd_ldr. intros l. split; reflexivity. Qed.

(* leader.changeConfig: the one place that installs a configuration, and it recomputes the cache *)
Lemma R_lcc a x l l1 c :
  st_ldr x = Some l -> ld_numvoters l1 = num_voters c ->
  ld_voter l1 = match cfg_node c (st_nid x) with Some n => n_voter n | None => false end ->
  R a x -> R a (change_config (put_ldr x l1) c).
Proof.
  intros Hl E1 E2 H. apply R_trans with x; [exact H|].
  unfold R, Cache, change_config. destruct (_ && _); cbn; (split; [reflexivity|]; split; [lia|]; intros _; split; assumption).
Qed.

Lemma get_ldr_inv s l : get_ldr s = Done l -> st_ldr s = Some l.
Proof. unfold get_ldr. destruct (st_ldr s); [|discriminate]. intros H; inversion H; reflexivity. Qed.

(* bring the goal [R a (expression)] back to facts in the context *)
Ltac rstep :=
  match goal with
  | |- R ?a ?a => apply R_refl
  | H : R ?a ?b |- R ?a ?b => exact H
  | E : fst ?w = _ |- R _ (fst ?w) => rewrite E
  | |- R _ (fst (_, _)) => cbn [fst]
  | |- R _ (set_role _ _) => apply R_set_role
  | |- R _ (set_leader _ _) => apply R_set_leader
  | |- R _ (set_commit _ _) => apply R_set_commit
  | |- R _ (set_closed _ _) => apply R_set_closed
  | |- R _ (set_timer _ _) => apply R_set_timer
  | |- R _ (set_fsm _ _ _) => apply R_set_fsm
  | |- R _ (set_term_vote _ _ _) => apply R_set_term_vote
  | |- R _ (set_log _ _ _ _ _) => apply R_set_log
  | |- R _ (commit_config _) => apply R_commit_config
  | |- R _ (commit_log _ _) => apply R_commit_log
  | |- R _ (change_config (put_ldr _ _) _) => eapply R_lcc; [eassumption | reflexivity | reflexivity |]
  | |- R _ (put_ldr _ _) => eapply R_put_ldr; [eassumption | reflexivity | reflexivity |]
  | |- R _ (upd_repl _ _ _) => apply R_upd_repl
  | |- R _ (begin_finished_rounds _) => apply R_begin_finished_rounds
  | |- R _ (upd_ldr _ _) => apply R_upd_ldr; [intros ?; split; reflexivity|]
  | |- R _ (if ?b then _ else _) => destruct b
  | |- R _ (match ?x with _ => _ end) => destruct x
  | H : R ?b ?c |- R ?a ?c => apply (R_trans a b c); [|exact H]
  end.
Ltac rchain := cbn [fst snd] in *; repeat rstep.

Ltac ldr_inv :=
  match goal with H : get_ldr _ = Done _ |- _ => apply get_ldr_inv in H end.

(* ---------------------------------------------------------------- non-recursive pieces *)
Lemma R_append_entry s e s' : append_entry s e = Done s' -> R s s'.
Proof. unfold append_entry. intros H. repeat inv1. rchain. Qed.

Lemma R_set_term s t s' : set_term s t = Done s' -> R s s'.
Proof. unfold set_term. intros H. repeat inv1; rchain. Qed.

Lemma R_notify_flr s b s' : notify_flr s b = Done s' -> R s s'.
Proof. unfold notify_flr. intros H. repeat (first [ldr_inv | inv1]); rchain. Qed.

Lemma R_add_replication s n s' : add_replication s n = Done s' -> R s s'.
Proof. unfold add_replication. intros H. repeat (first [ldr_inv | inv1]); rchain. Qed.

Lemma R_add_replications ns : forall s s', add_replications s ns = Done s' -> R s s'.
Proof.
  induction ns as [|n r IH]; intros s s' H; cbn [add_replications] in H.
  - inversion H; apply R_refl.
  - destruct (n_id n =? st_nid s); [eauto|].
    apply obind_inv in H. destruct H as (s1 & H1 & H2).
    apply R_add_replication in H1. apply IH in H2. eapply R_trans; eauto.
Qed.

Lemma R_apply_queue q : forall s out r, apply_queue s q out = Done r -> R s (fst r).
Proof.
  induction q as [|ne r IH]; intros s out res H; cbn [apply_queue] in H.
  - inversion H; apply R_refl.
  - destruct (negb _); [discriminate|]. apply IH in H. rchain.
Qed.

Lemma R_leader_apply_committed s w : leader_apply_committed s = Done w -> R s (fst w).
Proof.
  unfold leader_apply_committed. intros H.
  repeat (first [ match goal with H : apply_queue _ _ _ = Done _ |- _ => apply R_apply_queue in H end | ldr_inv | inv1 ]);
  rchain.
Qed.

Lemma R_raft_set_commit_index sor s i : R s (fst (raft_set_commit_index sor s i)).
Proof.
  unfold raft_set_commit_index. destruct (_ && _); cbn [fst]; [|rchain].
  destruct sor; rchain.
Qed.

Ltac use_r :=
  match goal with
  | H : append_entry _ _ = Done _ |- _ => apply R_append_entry in H
  | H : set_term _ _ = Done _ |- _ => apply R_set_term in H
  | H : notify_flr _ _ = Done _ |- _ => apply R_notify_flr in H
  | H : add_replication _ _ = Done _ |- _ => apply R_add_replication in H
  | H : add_replications _ _ = Done _ |- _ => apply R_add_replications in H
  | H : leader_apply_committed _ = Done _ |- _ => apply R_leader_apply_committed in H
  | H : get_ldr _ = Done _ |- _ => apply get_ldr_inv in H
  end.

(* ---------------------------------------------------------------- the mutually recursive core *)
Definition core_R (opt : options) (f : nat) : Prop :=
  (forall s nes w, store_entry opt f s nes = Done w -> R s (fst w)) /\
  (forall s c w, leader_change_config opt f s c = Done w -> R s (fst w)) /\
  (forall s tid c w, check_config_actions opt f s tid c = Done w -> R s (fst w)) /\
  (forall s tid c id w, check_config_action opt f s tid c id = Done w -> R s (fst w)) /\
  (forall s tid c w, do_change_config opt f s tid c = Done w -> R s (fst w)) /\
  (forall s w, on_majority_commit opt f s = Done w -> R s (fst w)) /\
  (forall s i w, leader_set_commit_index opt f s i = Done w -> R (commit_log s i) (fst w)).

Lemma core_r opt f : core_R opt f.
Proof.
  induction f as [|f IH].
  { unfold core_R; repeat split; intros; discriminate. }
  destruct IH as (I1 & I2 & I3 & I4 & I5 & I6 & I7).
  unfold core_R; split; [|split; [|split; [|split; [|split; [|split]]]]].
  - (* store_entry *)
    intros s nes w H. cbn [store_entry] in H. refold opt H.
    match type of H with wbind (?L s nes) _ = _ => set (loop := L) in H end.
    assert (HL : forall nes s w, loop s nes = Done w -> R s (fst w)).
    { clear H. induction nes0 as [|ne rest IHl]; intros s0 w0 H; cbn in H.
      - inversion H; apply R_refl.
      - fold loop in H.
        repeat (first [ use_r
                      | match goal with
                        | H : loop _ _ = Done _ |- _ => apply IHl in H
                        | H : leader_change_config opt f _ _ = Done _ |- _ => apply I2 in H
                        end
                      | inv1 ]); rchain. }
    repeat (first [ use_r
                  | match goal with
                    | H : loop _ _ = Done _ |- _ => apply HL in H
                    | H : on_majority_commit opt f _ = Done _ |- _ => apply I6 in H
                    end
                  | inv1 ]); rchain.
  - (* leader_change_config *)
    intros s c w H. cbn [leader_change_config] in H. refold opt H.
    apply obind_inv in H. destruct H as (l & Hl & H). apply get_ldr_inv in Hl.
    apply obind_inv in H. destruct H as (s3 & H3 & H).
    apply I3 in H.
    match type of H3 with fold_left ?F _ (Done ?S2) = _ =>
      assert (HF : forall x, fold_left F (c_nodes c) (Done S2) = Done x -> R S2 x) end.
    { apply fold_left_inv.
      - intros x Hx; inversion Hx; apply R_refl.
      - intros acc n Hacc x Hx.
        repeat (first [use_r | inv1]); try subst acc; try (specialize (Hacc _ eq_refl)); rchain. }
    apply HF in H3. rchain.
  - (* check_config_actions *)
    intros s tid c w H. cbn [check_config_actions] in H. refold opt H.
    apply obind_inv in H. destruct H as (l & Hl & H).
    apply obind_inv in H. destruct H as (r & Hr & H).
    destruct r as [[s1 out1] c1].
    assert (H1 : R s s1).
    { repeat (first [ match goal with H : do_change_config opt f _ _ _ = Done _ |- _ => apply I5 in H end | inv1 ]);
        rchain. }
    clear Hr. apply obind_inv in H. destruct H as (l1 & Hl1 & H).
    revert w H. apply fold_left_inv.
    + intros w Hw; inversion Hw; subst. exact H1.
    + intros acc id Hacc w Hw.
      repeat (first [ match goal with H : check_config_action opt f _ _ _ _ = Done _ |- _ => apply I4 in H end | inv1 ]);
        try subst acc; try (specialize (Hacc _ eq_refl)); rchain.
  - (* check_config_action *)
    intros s tid c id w H. cbn [check_config_action] in H. refold opt H.
    repeat (first [ match goal with H : do_change_config opt f _ _ _ = Done _ |- _ => apply I5 in H end | inv1 ]);
      rchain.
  - (* do_change_config *)
    intros s tid c w H. cbn [do_change_config] in H. refold opt H. apply I1 in H. exact H.
  - (* on_majority_commit *)
    intros s w H. cbn [on_majority_commit] in H. refold opt H.
    repeat (first [ use_r | match goal with H : leader_set_commit_index opt f _ _ = Done _ |- _ => apply I7 in H end | inv1 ]);
      rchain.
  - (* leader_set_commit_index *)
    intros s i w H. cbn [leader_set_commit_index] in H. refold opt H.
    pose proof (R_raft_set_commit_index (o_shutdown_on_remove opt) (commit_log s i) i) as RS.
    destruct (raft_set_commit_index _ _ _) as [s2 committed]. cbn [fst] in RS.
    repeat (first [ use_r | match goal with H : check_config_actions opt f _ _ _ = Done _ |- _ => apply I3 in H end | inv1 ]);
      rchain.
Qed.

Lemma R_store_entry opt f s nes w : store_entry opt f s nes = Done w -> R s (fst w).
Proof. apply (core_r opt f). Qed.
Lemma R_check_config_actions opt f s tid c w : check_config_actions opt f s tid c = Done w -> R s (fst w).
Proof. apply (core_r opt f). Qed.
Lemma R_check_config_action opt f s tid c id w : check_config_action opt f s tid c id = Done w -> R s (fst w).
Proof. apply (core_r opt f). Qed.
Lemma R_do_change_config opt f s tid c w : do_change_config opt f s tid c = Done w -> R s (fst w).
Proof. apply (core_r opt f). Qed.
Lemma R_on_majority_commit opt f s w : on_majority_commit opt f s = Done w -> R s (fst w).
Proof. apply (core_r opt f). Qed.
Lemma R_leader_set_commit_index opt f s i w :
  leader_set_commit_index opt f s i = Done w -> R (commit_log s i) (fst w).
Proof. apply (core_r opt f). Qed.

Ltac use_c :=
  match goal with
  | H : store_entry _ _ _ _ = Done _ |- _ => apply R_store_entry in H
  | H : check_config_actions _ _ _ _ _ = Done _ |- _ => apply R_check_config_actions in H
  | H : check_config_action _ _ _ _ _ _ = Done _ |- _ => apply R_check_config_action in H
  | H : do_change_config _ _ _ _ _ = Done _ |- _ => apply R_do_change_config in H
  | H : on_majority_commit _ _ _ = Done _ |- _ => apply R_on_majority_commit in H
  end.

(* ---------------------------------------------------------------- the other leader events *)
Lemma R_check_quorum opt s b s' : check_quorum opt s b = Done s' -> R s s'.
Proof.
  unfold check_quorum. intros H.
  apply obind_inv in H. destruct H as (l & _ & H).
  apply obind_inv in H. destruct H as (r & _ & H).
  destruct r as [voters reachable].
  repeat inv1; rchain.
Qed.

Lemma R_try_transfer opt s w : try_transfer opt s = Done w -> R s (fst w).
Proof.
  unfold try_transfer. intros H.
  apply obind_inv in H. destruct H as (l & Hl & H). apply get_ldr_inv in Hl.
  apply obind_inv in H. destruct H as (r & _ & H).
  repeat inv1; rchain.
Qed.

Lemma R_transfer_reply s r w : transfer_reply s r = Done w -> R s (fst w).
Proof. unfold transfer_reply. intros H. repeat (first [use_r | inv1]); rchain. Qed.

Lemma R_check_log_compact opt s s' : check_log_compact opt s = Done s' -> R s s'.
Proof. unfold check_log_compact. intros H. repeat (first [use_r | inv1]); rchain. Qed.

Ltac use_t :=
  match goal with
  | H : try_transfer _ _ = Done _ |- _ => apply R_try_transfer in H
  | H : transfer_reply _ _ = Done _ |- _ => apply R_transfer_reply in H
  | H : check_quorum _ _ _ = Done _ |- _ => apply R_check_quorum in H
  | H : check_log_compact _ _ = Done _ |- _ => apply R_check_log_compact in H
  end.
Ltac rgo := repeat (first [use_r | use_c | use_t | inv1]).

Lemma R_reply_transfer opt s r w : reply_transfer opt s r = Done w -> R s (fst w).
Proof. unfold reply_transfer. intros H. rgo; rchain. Qed.

Lemma R_on_transfer opt s tid tg w : on_transfer opt s tid tg = Done w -> R s (fst w).
Proof. unfold on_transfer. intros H. rgo; rchain. Qed.

Lemma R_on_timeout_now_result opt s from err res w :
  on_timeout_now_result opt s from err res = Done w -> R s (fst w).
Proof.
  unfold on_timeout_now_result. intros H.
  repeat (first [ match goal with H : reply_transfer _ _ _ = Done _ |- _ => apply R_reply_transfer in H end
                | use_r | use_t | inv1 ]);
  rchain.
Qed.

Lemma R_on_change_config opt s tid c w : on_change_config opt s tid c = Done w -> R s (fst w).
Proof. unfold on_change_config. intros H. rgo; rchain. Qed.

Lemma R_on_wait_stable s tid w : on_wait_stable s tid = Done w -> R s (fst w).
Proof. unfold on_wait_stable. intros H. rgo; rchain. Qed.

Lemma R_check_repl_update opt s id u w : check_repl_update opt s id u = Done w -> R s (fst w).
Proof. unfold check_repl_update. intros H. rgo; rchain. Qed.

Lemma R_flr_update s id w : flr_update s id = Done w -> R s (fst w).
Proof. unfold flr_update. intros H. rgo; rchain. Qed.
Lemma R_flr_send s id b w : flr_send s id b = Done w -> R s (fst w).
Proof.
  unfold flr_send. intros H.
  apply obind_inv in H. destruct H as (l & _ & H).
  destruct (find_repl _ _); [|discriminate].
  destruct (_ =? nil_view); [discriminate|].
  apply obind_inv in H. destruct H as (p & _ & H).
  repeat inv1; rchain.
Qed.
Lemma R_flr_resp s id a b c d w : flr_resp s id a b c d = Done w -> R s (fst w).
Proof. unfold flr_resp. intros H. rgo; rchain. Qed.
Lemma R_flr_snap_installed s id i w : flr_snap_installed s id i = Done w -> R s (fst w).
Proof. unfold flr_snap_installed. intros H. rgo; rchain. Qed.

Lemma R_leader_event_out opt s e w : leader_event_out opt s e = Done w -> R s (fst w).
Proof.
  destruct e; cbn [leader_event_out]; intros H.
  - apply R_store_entry in H. exact H.
  - apply R_check_repl_update in H. exact H.
  - apply R_on_change_config in H. exact H.
  - apply R_on_wait_stable in H. exact H.
  - apply R_on_transfer in H. exact H.
  - apply R_on_timeout_now_result in H. exact H.
  - apply R_reply_transfer in H. exact H.
  - apply R_try_transfer in H. rchain.
  - apply R_flr_update in H. exact H.
  - apply R_flr_send in H. exact H.
  - apply R_flr_resp in H. exact H.
  - apply R_flr_snap_installed in H. exact H.
Qed.

(* ================================================================ the cache *)
Theorem leader_cache_invariant :
  forall opt s e s' l l',
    leader_event opt s e = Done s' -> st_ldr s = Some l -> st_ldr s' = Some l' ->
    ld_numvoters l = num_voters (st_latest s) -> ld_voter l = is_voter (st_latest s) (st_nid s) ->
    ld_numvoters l' = num_voters (st_latest s') /\ ld_voter l' = is_voter (st_latest s') (st_nid s').
Proof.
  intros opt s e s' l l' H Hl Hl' C1 C2. unfold leader_event in H.
  apply obind_inv in H. destruct H as (w & H & E). inversion E; subst s'. clear E.
  apply R_leader_event_out in H. destruct H as (_ & _ & HC).
  unfold Cache in HC. rewrite Hl, Hl' in HC. apply HC. auto.
Qed.

Theorem leader_init_cache :
  forall opt s s' l', leader_init opt s = Done s' -> st_ldr s' = Some l' ->
    ld_numvoters l' = num_voters (st_latest s') /\ ld_voter l' = is_voter (st_latest s') (st_nid s').
Proof.
  intros opt s s' l' H Hl'. unfold leader_init in H.
  destruct (negb _); [discriminate|].
  apply obind_inv in H. destruct H as (s1 & A & H).
  apply obind_inv in H. destruct H as (w & B & H). inversion H; subst s'. clear H.
  apply R_add_replications in A.
  assert (RW : R s1 (fst w)). { rgo; rchain. }
  pose proof (R_trans _ _ _ A RW) as (_ & _ & HC).
  unfold Cache in HC at 2. rewrite Hl' in HC. apply HC.
  unfold Cache, put_ldr, is_voter. cbn. auto.
Qed.

(* ================================================================ the leader's commit rule *)
Theorem leader_commit_rule :
  forall opt fuel s s' out l,
    st_ldr s = Some l -> on_majority_commit opt fuel s = Done (s', out) -> st_commit s < st_commit s' ->
    exists m, majority_match s l = Done m /\ ld_start l <= m /\ st_commit s < m /\
              N.min m (log_lastindex s) <= st_flushed s'.
Proof.
  intros opt fuel s s' out l Hl H LT.
  destruct fuel as [|f]; [discriminate|].
  cbn [on_majority_commit] in H. refold opt H.
  apply obind_inv in H. destruct H as (l0 & Hl0 & H). apply get_ldr_inv in Hl0.
  assert (l0 = l) by congruence. subst l0.
  apply obind_inv in H. destruct H as (m & Hm & H).
  destruct ((st_commit s <? m) && (ld_start l <=? m)) eqn:E.
  - apply andb_true_iff in E. destruct E as [E1 E2]. apply N.ltb_lt in E1. apply N.leb_le in E2.
    exists m. split; [exact Hm|]. split; [exact E2|]. split; [exact E1|].
    assert (RR : R (commit_log s m) s').
    { repeat (first [ use_r | match goal with H : leader_set_commit_index _ _ _ _ = Done _ |- _ => apply R_leader_set_commit_index in H end | inv1 ]);
      cbn [fst] in *; subst; rchain. }
    destruct RR as (_ & F & _). unfold commit_log in F. cbn in F. lia.
  - unfold wret in H. inversion H; subst. lia.
Qed.

(* [follower_flush_before_success] without st_lastidx s = log_lastindex s: a state whose stored last
   index lags behind its log (not reachable: restart recomputes it, every log operation updates it) *)
Module StaleLastIndex.
Definition e1 := mkEntry 1 1 entryNop [].
Definition s0 : nstate := fresh_node 1 1 <| st_log := [e1] |>.
Definition q0 := mkAppendReq 1 2 0 0 0 [e1].

Theorem counterexample :
  exists s', on_append_request false s0 q0 = Done (success, s') /\
             st_log s' <> st_log s0 /\ st_flushed s' < log_lastindex s'.
Proof.
  assert (H : exists r, on_append_request false s0 q0 = Done r /\ fst r = success /\
                        st_log (snd r) = [e1; e1] /\ st_flushed (snd r) = 1 /\ log_lastindex (snd r) = 2).
  { vm_compute. eexists. split; [reflexivity|]. repeat split; reflexivity. }
  destruct H as ([c s'] & H & C & L & F & LL). cbn [fst snd] in *. subst c.
  exists s'. split; [exact H|]. rewrite L, F, LL. split; [discriminate | reflexivity].
Qed.
End StaleLastIndex.
