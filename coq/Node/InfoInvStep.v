(* C19: the role change (transition / finish) and every event of [model_event] preserve [node_inv];
   events other than a restart are monotone. *)
From Coq Require Import List NArith ZArith Bool Lia ZifyN ZifyNat ZifyBool.
From RecordUpdate Require Import RecordUpdate.
From Verif Require Import Base.Bytes Codec.Messages Node.Types Node.Handlers Node.Leader Node.Snap Node.Step Node.Run
  Node.InfoInvDefs Node.InfoInvPrims Node.InfoInvFollower Node.InfoInvLeader Node.InfoInvLeader2.
From Verif Require Node.AuthFacts.
Import ListNotations.
Open Scope N_scope.

(* ---------------------------------------------------------------- roles *)
Definition rolev (s : nstate) : Prop := st_role s = Follower \/ st_role s = Candidate \/ st_role s = Leader.
(* a handler keeps the role or moves to one of the three *)
Definition rstep (s s1 : nstate) : Prop := st_role s1 = st_role s \/ rolev s1.

Lemma quiet_rstep s s1 : AuthFacts.quiet s s1 -> rstep s s1.
Proof.
  unfold AuthFacts.quiet, AuthFacts.rt, rstep, rolev. intros [H|H]; [right; left; exact H|].
  left. injection H as H _. exact H.
Qed.

Lemma cls_rstep s s1 : AuthFacts.cls s s1 -> rstep s s1.
Proof.
  intros [Q|Cd _|_ Ld _]; [apply quiet_rstep; exact Q| |]; right; unfold rolev; auto.
Qed.

Lemma rstep_role s s1 s2 : rstep s s1 -> st_role s2 = st_role s1 -> rstep s s2.
Proof. unfold rstep, rolev. intros H E. rewrite E. exact H. Qed.

(* ---------------------------------------------------------------- the role change *)
(* what [transition] needs of the state a handler leaves behind; [old] is the role before the handler *)
Definition TP (old : N) (s : nstate) : Prop :=
  core s /\ (st_role s = Leader -> ldr_ok s) /\ (old <> Leader -> st_ldr s = None) /\ (st_role s = old \/ rolev s).

Lemma ldr_ok_none s : st_ldr s = None -> ldr_ok s.
Proof. unfold ldr_ok. intros ->. exact I. Qed.

Lemma mono_of_KM s s' : KM s' = KM s -> mono s s'.
Proof. unfold KM, mono. intros E. injection E as -> -> -> ->. lia. Qed.

Lemma closed_case opt s0 old s : TP old s -> mono s0 s ->
  node_inv (fst (release_role opt old s)) /\ mono s0 (fst (release_role opt old s)).
Proof.
  intros (C & L & N0 & R) M.
  destruct (release_role_frame opt old s) as (A & B & _ & _ & E & F).
  assert (LN : st_ldr (fst (release_role opt old s)) = None).
  { destruct (N.eq_dec old Leader) as [X|X]; [apply E; exact X|apply F, N0; exact X]. }
  split; [|eapply mono_ext_r; eassumption].
  split; [eapply core_ext; eassumption|]. split; [apply ldr_ok_none; exact LN|].
  intros X. contradiction.
Qed.

Lemma same_case old s : TP old s -> st_role s = old -> node_inv s.
Proof.
  intros (C & L & N0 & R) E. split; [exact C|].
  destruct (N.eq_dec old Leader) as [X|X].
  - split; [apply L; congruence|]. intros _. congruence.
  - specialize (N0 X). split; [apply ldr_ok_none; exact N0|]. intros Y. contradiction.
Qed.

Lemma init_role_ok opt s0 s1 s2 : core s1 -> st_ldr s1 = None -> rolev s1 -> mono s0 s1 ->
  init_role opt s1 = Done s2 -> TP (st_role s1) s2 /\ mono s0 s2.
Proof.
  intros C N0 R M H. unfold init_role in H.
  destruct (st_role s1 =? Follower) eqn:E1.
  { inversion H; subst s2. clear H. split; [|eapply mono_ext_r; [|exact M]; reflexivity].
    split; [eapply core_ext; [|exact C]; reflexivity|].
    split; [intros _; apply ldr_ok_none; exact N0|]. split; [intros _; exact N0|]. left; reflexivity. }
  destruct (st_role s1 =? Candidate) eqn:E2.
  { destruct (start_election_ok _ _ C H) as [(C2 & M2 & L2 & _) R2].
    split; [|eapply mono_trans; eassumption].
    split; [exact C2|]. split; [intros _; apply ldr_ok_none; congruence|].
    split; [intros _; congruence|]. left; exact R2. }
  assert (RL : st_role s1 = Leader).
  { apply N.eqb_neq in E1, E2. destruct R as [R|[R|R]]; [contradiction|contradiction|exact R]. }
  pose proof (leader_init_G _ _ _ _ C M H) as (C2 & L2 & M2).
  split; [|exact M2].
  split; [exact C2|]. split; [intros _; exact L2|]. split; [intros X; contradiction|].
  apply AuthFacts.nr_leader_init in H. apply (AuthFacts.nr_quiet _ _ RL) in H.
  destruct (quiet_rstep _ _ H) as [X|X]; [left; exact X|right; exact X].
Qed.

Lemma transition_ok opt s0 fuel : forall old s w,
  transition fuel opt old s = Done w -> TP old s -> mono s0 s -> node_inv (fst w) /\ mono s0 (fst w).
Proof.
  induction fuel as [|f IH]; intros old s w H T M; cbn [transition] in H.
  - destruct (st_closed s). { inversion H; subst w. apply closed_case; assumption. }
    destruct (st_role s =? old) eqn:E; [|discriminate]. apply N.eqb_eq in E.
    unfold wret in H. inversion H; subst w. cbn [fst]. split; [eapply same_case; eassumption|exact M].
  - destruct (st_closed s). { inversion H; subst w. apply closed_case; assumption. }
    destruct (st_role s =? old) eqn:E.
    { apply N.eqb_eq in E. unfold wret in H. inversion H; subst w. cbn [fst].
      split; [eapply same_case; eassumption|exact M]. }
    apply N.eqb_neq in E.
    destruct (release_role_frame opt old (set_timer s false)) as (A & B & RR & _ & E1 & E2).
    destruct (release_role opt old (set_timer s false)) as [s1 out]. cbn [fst] in *.
    destruct T as (C & L & N0 & R).
    assert (C1 : core s1) by (eapply core_ext; [exact A|]; eapply core_ext; [|exact C]; reflexivity).
    assert (M1 : mono s0 s1) by (eapply mono_ext_r; [exact B|]; eapply mono_ext_r; [|exact M]; reflexivity).
    assert (N1 : st_ldr s1 = None).
    { destruct (N.eq_dec old Leader) as [X|X]; [apply E1; exact X|apply E2; cbn; apply N0; exact X]. }
    assert (R1 : rolev s1).
    { unfold rolev. rewrite RR. cbn. destruct R as [R|R]; [contradiction|exact R]. }
    apply obind_inv in H. destruct H as (s2 & H2 & H).
    destruct (init_role_ok _ _ _ _ C1 N1 R1 M1 H2) as [T2 M2].
    apply wbind_inv in H. destruct H as (s2' & o1 & w2 & HE & H & EW). rewrite EW.
    inversion HE; subst s2' o1. clear HE.
    eapply IH; eassumption.
Qed.

(* ---------------------------------------------------------------- what a handler leaves behind *)
Definition PRE (s s1 : nstate) : Prop :=
  core s1 /\ mono s s1 /\ (st_role s1 = Leader -> ldr_ok s1) /\ (st_role s <> Leader -> st_ldr s1 = None) /\ rstep s s1.

Lemma finish_ok opt s code t last s1 out o s' :
  PRE s s1 -> finish opt (st_role s) code t last (s1, out) = Done (o, s') -> node_inv s' /\ mono s s'.
Proof.
  intros (C & M & L & N0 & R) H. unfold finish in H.
  apply obind_inv in H. destruct H as ([s2 out2] & H1 & H). inversion H; subst. clear H.
  apply (transition_ok opt s _ _ _ _ H1); [|exact M].
  split; [exact C|]. split; [exact L|]. split; [exact N0|]. exact R.
Qed.

Lemma PRE_hres s s1 : node_inv s -> hres s s1 -> rstep s s1 -> PRE s s1.
Proof.
  intros (C & L & T) (C1 & M1 & L1 & I1) R.
  split; [exact C1|]. split; [exact M1|]. split.
  { intros RL. eapply ldr_ok_lle; [exact L|rewrite L1; apply lle_refl| |apply I1; exact RL].
    unfold mono in M1. lia. }
  split; [|exact R].
  intros NL. rewrite L1. destruct (st_ldr s) eqn:E; [|reflexivity].
  exfalso. apply NL. apply T. congruence.
Qed.

Lemma PRE_frame s s1 s2 : PRE s s1 -> K s2 = K s1 -> KM s2 = KM s1 -> st_ldr s2 = st_ldr s1 ->
  st_role s2 = st_role s1 -> PRE s s2.
Proof.
  intros (C & M & L & N0 & R) E1 E2 E3 E4.
  split; [eapply core_ext; eassumption|]. split; [eapply mono_ext_r; eassumption|].
  destruct (K_inv _ _ E1) as (_ & _ & Q3 & Q4 & _).
  split.
  { intros RL. eapply ldr_ok_ext; [|apply L; congruence]. unfold KL. rewrite E3, Q3, Q4. reflexivity. }
  split; [intros NL; rewrite E3; apply N0; exact NL|].
  eapply rstep_role; eassumption.
Qed.

Lemma PRE_G s s1 : G s s1 -> (st_role s <> Leader -> st_ldr s1 = None) -> rstep s s1 -> PRE s s1.
Proof. intros (C & L & M) N0 R. split; [exact C|]. split; [exact M|]. split; [intros _; exact L|]. split; assumption. Qed.

Lemma node_inv_ext s s' : K s' = K s -> st_ldr s' = st_ldr s -> st_role s' = st_role s -> node_inv s -> node_inv s'.
Proof.
  intros E1 E2 E3 (C & L & T). split; [eapply core_ext; eassumption|].
  destruct (K_inv _ _ E1) as (_ & _ & Q3 & Q4 & _).
  split; [eapply ldr_ok_ext; [|exact L]; unfold KL; rewrite E2, Q3, Q4; reflexivity|].
  unfold tie. rewrite E2, E3. exact T.
Qed.

Lemma hres_pre s sa s1 : core s -> K sa = K s -> KM sa = KM s -> st_ldr sa = st_ldr s -> hres sa s1 -> hres s s1.
Proof.
  intros C E1 E2 E3 (C1 & M1 & L1 & I1).
  destruct (K_inv _ _ E1) as (_ & _ & Q3 & _).
  split; [exact C1|]. split; [eapply mono_trans; [apply mono_of_KM; exact E2|exact M1]|].
  split; [congruence|]. intros RL. rewrite <- Q3. apply I1; exact RL.
Qed.

(* ---------------------------------------------------------------- one event *)
Lemma step_ok opt s ev o s' :
  node_inv s -> env_ok s ev -> model_event opt s ev = Done (o, s') ->
  node_inv s' /\ ((forall k, ev <> ERestart k) -> mono s s').
Proof.
  intros NI EN H. pose proof NI as (C & L & T).
  assert (FIN : forall code t last s1 out, PRE s s1 ->
            finish opt (st_role s) code t last (s1, out) = Done (o, s') ->
            node_inv s' /\ ((forall k, ev <> ERestart k) -> mono s s')).
  { intros code t last s1 out P F. destruct (finish_ok _ _ _ _ _ _ _ _ _ P F) as [A B]. split; [exact A|intros _; exact B]. }
  assert (SAME : node_inv s /\ ((forall k, ev <> ERestart k) -> mono s s)).
  { split; [exact NI|intros _; apply mono_refl]. }
  destruct ev; cbn [model_event] in H.
  - (* vote request *)
    apply obind_inv in H. destruct H as ([code s1] & H1 & H).
    pose proof (vote_ok _ _ _ _ C H1) as HR. apply AuthFacts.quiet_on_vote_request, quiet_rstep in H1.
    destruct (after_rpc_K s1 (code =? success)) as (A1 & A2 & A3 & A4 & _).
    eapply FIN; [|exact H]. eapply PRE_frame; [apply PRE_hres; eassumption|assumption..].
  - (* append request *)
    apply obind_inv in H. destruct H as ([code s1] & H1 & H).
    destruct (append_ok _ _ _ _ _ C EN H1) as [HR RR].
    destruct (code =? unexpectedErr); [discriminate|].
    assert (R : rstep s s1).
    { destruct RR as [->|RR]; [left; reflexivity|right; left; exact RR]. }
    destruct (after_rpc_K s1 true) as (A1 & A2 & A3 & A4 & _).
    eapply FIN; [|exact H]. eapply PRE_frame; [apply PRE_hres; eassumption|assumption..].
  - (* append request cut short *)
    apply obind_inv in H. destruct H as ([code s1] & H1 & H).
    change (env_ok s (EAppendReq q)) in EN.
    destruct (append_ok _ _ _ _ _ C EN H1) as [HR RR].
    destruct (code =? unexpectedErr); [discriminate|].
    assert (R : rstep s s1).
    { destruct RR as [->|RR]; [left; reflexivity|right; left; exact RR]. }
    destruct (after_rpc_K s1 true) as (A1 & A2 & A3 & A4 & _).
    eapply FIN; [|exact H]. eapply PRE_frame; [apply PRE_hres; eassumption|assumption..].
  - (* install snapshot *)
    apply obind_inv in H. destruct H as ([code s1] & H1 & H).
    destruct (snap_ok _ _ _ _ _ C EN H1) as [HR RR].
    assert (R : rstep s s1).
    { destruct RR as [->|RR]; [left; reflexivity|right; left; exact RR]. }
    destruct (after_rpc_K s1 true) as (A1 & A2 & A3 & A4 & _).
    eapply FIN; [|exact H]. eapply PRE_frame; [apply PRE_hres; eassumption|assumption..].
  - (* timeout now *)
    pose proof (timeout_now_ok s C) as HR.
    assert (R : rstep s (snd (on_timeout_now_request s))).
    { unfold on_timeout_now_request. destruct (negb _); cbn [snd]; [left; reflexivity|].
      right. right; left. reflexivity. }
    destruct (on_timeout_now_request s) as [code s1]. cbn [snd] in HR, R.
    destruct (after_rpc_K s1 true) as (A1 & A2 & A3 & A4 & _).
    eapply FIN; [|exact H]. eapply PRE_frame; [apply PRE_hres; eassumption|assumption..].
  - (* timeout *)
    apply obind_inv in H. destruct H as (s1 & H1 & H).
    eapply FIN; [|exact H].
    destruct (st_role s =? Follower).
    { inversion H1; subst s1. apply PRE_hres; [exact NI|apply follower_on_timeout_ok; exact C|].
      unfold follower_on_timeout. destruct (can_start_election _); [|left; reflexivity].
      right. right; left. reflexivity. }
    assert (CT : core (set_timer s false)) by (eapply core_ext; [|exact C]; reflexivity).
    destruct (st_role s =? Candidate).
    { destruct (start_election_ok _ _ CT H1) as [HR RR].
      apply PRE_hres; [exact NI| |left; exact RR].
      eapply hres_pre; [exact C| | | |exact HR]; reflexivity. }
    unfold leader_on_timeout in H1.
    pose proof (check_quorum_ok _ _ _ _ CT H1) as HR.
    apply AuthFacts.quiet_check_quorum, quiet_rstep in H1.
    apply PRE_hres; [exact NI| |exact H1].
    eapply hres_pre; [exact C| | | |exact HR]; reflexivity.
  - (* vote result *)
    destruct (st_role s =? Candidate) eqn:EC; [|inversion H; subst; exact SAME].
    apply N.eqb_eq in EC.
    apply obind_inv in H. destruct H as (s1 & H1 & H).
    eapply FIN; [|exact H].
    apply PRE_hres; [exact NI|eapply vote_result_ok; eassumption|].
    apply cls_rstep. eapply AuthFacts.cls_on_vote_result; eassumption.
  - (* disconnected *)
    inversion H; subst. clear H. split.
    + eapply node_inv_ext; [| | |exact NI]; destruct (_ && _); reflexivity.
    + intros _. apply mono_of_KM. destruct (_ && _); reflexivity.
  - (* restart *)
    apply obind_inv in H. destruct H as (s1 & H1 & H). inversion H; subst. clear H.
    destruct (core_restart _ _ _ C H1) as (C1 & L1 & _ & R1).
    split; [|intros X; exfalso; apply (X keep); reflexivity].
    split; [eapply core_ext; [|exact C1]; reflexivity|].
    split; [apply ldr_ok_none; exact L1|]. intros X. exfalso. apply X. exact L1.
  - (* leader event *)
    destruct (st_role s =? Leader) eqn:EL; [|inversion H; subst; exact SAME].
    apply N.eqb_eq in EL.
    apply obind_inv in H. destruct H as ([s1 out1] & H1 & H).
    eapply FIN; [|exact H].
    assert (G0 : G s s) by (split; [exact C|]; split; [exact L|apply mono_refl]).
    pose proof (levent_G _ _ _ _ _ G0 EN H1) as G1. cbn [fst] in G1.
    apply (AuthFacts.quiet_leader_event_out _ _ _ _ EL), quiet_rstep in H1. cbn [fst] in H1.
    apply PRE_G; [exact G1|intros X; contradiction|exact H1].
  - (* task *)
    apply obind_inv in H. destruct H as ([s1 out] & H1 & H).
    destruct (node_task_ok _ _ _ _ C EN H1) as [HR _].
    apply AuthFacts.cls_node_task, cls_rstep in H1. cbn [fst] in H1.
    eapply FIN; [|exact H].
    pose proof (PRE_hres _ _ NI HR H1) as P.
    destruct (_ && _ && _); [|exact P].
    destruct (follower_reset_timer_K s1) as (A1 & A2 & A3 & A4 & _).
    eapply PRE_frame; eassumption.
  - (* snapshot goroutine *)
    apply obind_inv in H. destruct H as (s1 & H1 & H). inversion H; subst. clear H.
    destruct (snapshot_run_ok _ _ C H1) as ((C1 & M1 & L1 & _) & R1 & I1).
    split; [|intros _; exact M1].
    split; [exact C1|]. split.
    + eapply ldr_ok_lle; [exact L|rewrite L1; apply lle_refl|unfold mono in M1; lia|lia].
    + unfold tie. rewrite L1, R1. exact T.
  - (* snapshot taken *)
    apply obind_inv in H. destruct H as ([s1 out1] & H1 & H).
    destruct (on_snapshot_taken_G _ s _ _ C L (mono_refl s) H1) as [G1 N1]. cbn [fst] in G1, N1.
    apply AuthFacts.rt_on_snapshot_taken in H1. cbn [fst] in H1.
    eapply FIN; [|exact H].
    apply PRE_G; [exact G1| |left].
    + intros NL. apply N1. destruct (st_ldr s) eqn:E; [|reflexivity]. exfalso. apply NL, T. congruence.
    + unfold AuthFacts.rt in H1. injection H1 as H1 _. exact H1.
Qed.
