(* Node/AbsLinkLeader.v  The LEADER side of the node model against the guards of the abstract steps
   SCommit and SReconfig of Abs/CfgRaft.v.  The node-level facts are those of Node/CommitFacts.v
   (Props/C06_rules.v) and Node/ConfigFacts.v (Props/C08.v); here are only the bridges to
   Abs/Quorum.majority and Abs/CfgQuorum.near. *)
From Coq Require Import List NArith ZArith Bool Lia Arith.
From Verif Require Import Base.Bytes Codec.Messages Node.Types Node.Handlers Node.Leader Node.Snap Node.Step Node.Run.
From Verif Require Import Node.LogFacts Node.CommitFacts Node.ConfigFacts Node.InfoInvDefs.
From Verif Require Abs.Quorum Abs.CfgQuorum.
Import ListNotations.
Open Scope N_scope.

Definition voters_of (c : config) : list N := map n_id (filter n_voter (c_nodes c)).

Lemma voters_of_voters c : voters_of c = ConfigFacts.voters c.
Proof. reflexivity. Qed.

Lemma is_voter_in c v : is_voter c v = true -> In v (voters_of c).
Proof.
  unfold is_voter, cfg_node. destruct (find_node v (c_nodes c)) as [n|] eqn:F; [|discriminate].
  intro V. apply ConfigFacts.find_node_some in F. destruct F as [I E].
  apply (ConfigFacts.in_voters v c). exists n. auto.
Qed.

Lemma num_voters_len c : num_voters c = N.of_nat (length (voters_of c)).
Proof. unfold num_voters, voters_of. rewrite map_length. reflexivity. Qed.

Lemma quorum_majority_size c (Q : list N) :
  quorum c <= N.of_nat (length Q) -> (2 * length Q > length (voters_of c))%nat.
Proof.
  unfold quorum. rewrite num_voters_len. set (n := N.of_nat (length (voters_of c))).
  pose proof (N.div_mod n 2 ltac:(lia)) as D. pose proof (N.mod_lt n 2 ltac:(lia)) as M.
  intro H. assert (n < 2 * N.of_nat (length Q)) by lia. unfold n in H0. lia.
Qed.

Lemma find_repl_in v rs rp : find_repl v rs = Some rp -> In rp rs /\ rp_id rp = v.
Proof.
  induction rs as [|r rs IH]; cbn; [discriminate|].
  destruct (N.eqb_spec (rp_id r) v).
  - intro H; inversion H; subst. auto.
  - intro H. apply IH in H. tauto.
Qed.

(* ================================================================ L1: SCommit *)
Theorem leader_commit_refines_SCommit opt fuel s s' out l :
  st_ldr s = Some l -> node_inv s ->
  ld_numvoters l = num_voters (st_latest s) -> ld_voter l = is_voter (st_latest s) (st_nid s) ->
  NoDup (map n_id (c_nodes (st_latest s))) -> 1 <= num_voters (st_latest s) ->
  on_majority_commit opt fuel s = Done (s', out) -> st_commit s < st_commit s' ->
  exists k Q,
    majority_match s l = Done k /\                       (* the index handed to leader.setCommitIndex *)
    st_commit s < k /\ k <= st_lastidx s /\ ld_start l <= k /\
    Quorum.majority (voters_of (st_latest s)) Q /\
    (forall v, In v Q ->
       (v = st_nid s /\ In (st_nid s) (voters_of (st_latest s))) \/
       (exists rp, In rp (ld_repls l) /\ rp_id rp = v /\ k <= rp_match rp)) /\
    k <= st_flushed s'.
Proof.
  intros Hl (Co & Lo & _) C1 C2 ND NV H LT.
  destruct (CommitFacts.leader_commit_rule _ _ _ _ _ _ Hl H LT) as (k & MM & St & Cm & Fl).
  destruct (CommitFacts.majority_match_sound _ _ _ MM C1 C2 ND NV) as (Q & NQ & VQ & QQ & MQ).
  assert (IQ : incl Q (voters_of (st_latest s))) by (intros v Hv; apply is_voter_in, VQ, Hv).
  assert (Kl : k <= st_lastidx s).
  { pose proof (quorum_majority_size _ _ QQ) as SZ. destruct Q as [|v Q]; [cbn in SZ; lia|].
    destruct (MQ v (or_introl eq_refl)) as [[_ A]|(rp & F & A)]; [exact A|].
    apply find_repl_in in F. destruct F as [I _].
    unfold ldr_ok in Lo. rewrite Hl in Lo. destruct Lo as [_ Fa].
    rewrite Forall_forall in Fa. specialize (Fa rp I). lia. }
  exists k, Q. split; [exact MM|]. split; [exact Cm|]. split; [exact Kl|]. split; [exact St|].
  split; [|split].
  - split; [exact NQ|]. split; [exact IQ|]. apply quorum_majority_size. exact QQ.
  - intros v Hv. destruct (MQ v Hv) as [[E _]|(rp & F & A)].
    + left. split; [exact E|]. rewrite <- E. apply IQ, Hv.
    + right. exists rp. apply find_repl_in in F. tauto.
  - pose proof (c_last _ Co) as CL. unfold log_lastindex in Fl. lia.
Qed.

(* the abstract guard term_at log k = cur, given that the leader's own entries carry its term *)
Lemma leader_commit_own_term s l k e :
  core s ->
  (forall e, In e (st_log s) -> ld_start l <= e_index e -> e_term e = st_term s) ->
  ld_start l <= k -> log_get s k = Some e -> e_index e = k /\ e_term e = st_term s.
Proof.
  intros Co Own St G. unfold log_get in G. destruct (N.ltb_spec (st_logprev s) k) as [L|L]; [|discriminate].
  pose proof (c_ls _ Co _ _ G) as I. assert (E : e_index e = k) by lia.
  split; [exact E|]. apply Own; [eapply nth_error_In; exact G | lia].
Qed.

(* ================================================================ L2: SReconfig *)
Lemma one_apart_near (V V' : list N) x :
  (forall id, id <> x -> (In id V <-> In id V')) -> NoDup V -> NoDup V' -> CfgQuorum.near V V'.
Proof.
  intros Hx NV NV'.
  destruct (in_dec N.eq_dec x V) as [I|I]; destruct (in_dec N.eq_dec x V') as [I'|I'].
  - assert (A : incl V V') by (intros v Hv; destruct (N.eq_dec v x) as [->|NE]; [exact I'|apply Hx; assumption]).
    assert (B : incl V' V) by (intros v Hv; destruct (N.eq_dec v x) as [->|NE]; [exact I|apply Hx; assumption]).
    left. split; [exact A|]. pose proof (NoDup_incl_length NV' B). lia.
  - assert (B : incl V' V).
    { intros v Hv. apply Hx; [|exact Hv]. intros ->. exact (I' Hv). }
    assert (A : incl V (x :: V')).
    { intros v Hv. destruct (N.eq_dec v x) as [->|NE]; [left; reflexivity|right; apply Hx; assumption]. }
    right. split; [exact B|]. pose proof (NoDup_incl_length NV A) as L. cbn in L. lia.
  - assert (A : incl V V').
    { intros v Hv. apply Hx; [|exact Hv]. intros ->. exact (I Hv). }
    assert (B : incl V' (x :: V)).
    { intros v Hv. destruct (N.eq_dec v x) as [->|NE]; [left; reflexivity|right; apply Hx; assumption]. }
    left. split; [exact A|]. pose proof (NoDup_incl_length NV' B) as L. cbn in L. lia.
  - assert (A : incl V V') by (intros v Hv; apply Hx; [intros ->; exact (I Hv)|exact Hv]).
    assert (B : incl V' V) by (intros v Hv; apply Hx; [intros ->; exact (I' Hv)|exact Hv]).
    left. split; [exact A|]. pose proof (NoDup_incl_length NV' B). lia.
Qed.

Lemma adjacent_near c c' :
  ConfigFacts.adjacent c c' -> NoDup (voters_of c) -> NoDup (voters_of c') ->
  CfgQuorum.near (voters_of c) (voters_of c').
Proof. intros [x Hx]. apply (one_apart_near _ _ x). exact Hx. Qed.

Lemma voters_nodup_l (l : list node) : NoDup (map n_id l) -> NoDup (map n_id (filter n_voter l)).
Proof.
  induction l as [|n l IH]; cbn; [auto|]. intro H. inversion H as [|? ? Hn Hl]; subst.
  destruct (n_voter n); [|apply IH; exact Hl].
  cbn. constructor; [|apply IH; exact Hl].
  intro I. apply Hn. apply in_map_iff in I. destruct I as (m & E & I). apply filter_In in I.
  apply in_map_iff. exists m. tauto.
Qed.
Lemma voters_nodup c : NoDup (map n_id (c_nodes c)) -> NoDup (voters_of c).
Proof. apply voters_nodup_l. Qed.

Lemma put_node_ids_in n l id : In id (map n_id (put_node n l)) -> id = n_id n \/ In id (map n_id l).
Proof.
  induction l as [|m r IH]; cbn.
  - intros [H|[]]; auto.
  - destruct (n_id m =? n_id n); cbn; intros [H|H]; auto. apply IH in H. tauto.
Qed.

Lemma put_node_ids_nodup n l : NoDup (map n_id l) -> NoDup (map n_id (put_node n l)).
Proof.
  induction l as [|m r IH]; cbn; intro H.
  - constructor; [intros []|constructor].
  - inversion H as [|? ? Hm Hr]; subst. destruct (N.eqb_spec (n_id m) (n_id n)) as [E|E]; cbn.
    + constructor; [rewrite <- E; exact Hm|exact Hr].
    + constructor; [|apply IH; exact Hr]. intro I. apply put_node_ids_in in I.
      destruct I as [I|I]; [congruence|exact (Hm I)].
Qed.

Lemma del_node_ids_nodup x (l : list node) :
  NoDup (map n_id l) -> NoDup (map n_id (filter (fun n => negb (n_id n =? x)) l)).
Proof.
  induction l as [|m r IH]; cbn; [auto|]. intro H. inversion H as [|? ? Hm Hr]; subst.
  destruct (negb _); [|apply IH; exact Hr]. cbn. constructor; [|apply IH; exact Hr].
  intro I. apply Hm. apply in_map_iff in I. destruct I as (k & E & I). apply filter_In in I.
  apply in_map_iff. exists k. tauto.
Qed.

(* every configuration the leader derives by one action is [near] the one it started from *)
Theorem derived_config_near c id v a :
  NoDup (map n_id (c_nodes c)) ->
  let c1 := cfg_set_node c (with_voter_action (cfg_node0 c id) v a) in
  let c2 := cfg_del_node c id in
  NoDup (voters_of c) /\
  (NoDup (map n_id (c_nodes c1)) /\ NoDup (voters_of c1) /\ CfgQuorum.near (voters_of c) (voters_of c1)) /\
  (NoDup (map n_id (c_nodes c2)) /\ NoDup (voters_of c2) /\ CfgQuorum.near (voters_of c) (voters_of c2)).
Proof.
  intros ND c1 c2. destruct (ConfigFacts.action_result_adjacent c id v a) as [A1 A2].
  pose proof (voters_nodup _ ND) as NV.
  assert (N1 : NoDup (map n_id (c_nodes c1))) by (apply put_node_ids_nodup; exact ND).
  assert (N2 : NoDup (map n_id (c_nodes c2))) by (apply del_node_ids_nodup; exact ND).
  pose proof (voters_nodup _ N1) as V1. pose proof (voters_nodup _ N2) as V2.
  split; [exact NV|]. split; (split; [assumption|]; split; [assumption|]; apply adjacent_near; assumption).
Qed.

(* where checkConfigAction appends: one call of doChangeConfig, on a configuration derived from c by
   one action on node id *)
Lemma check_config_action_appends opt fuel s tid c id s' out l :
  st_ldr s = Some l -> check_config_action opt fuel s tid c id = Done (s', out) ->
  st_lastidx s < st_lastidx s' ->
  exists f s1 c',
    do_change_config opt f s1 tid c' = Done (s', out) /\ st_lastidx s1 = st_lastidx s /\
    st_latest s1 = st_latest s /\ st_commit s1 = st_commit s /\
    ((exists v a, c' = cfg_set_node c (with_voter_action (cfg_node0 c id) v a)) \/ c' = cfg_del_node c id).
Proof.
  intros Hl H LT. destruct fuel as [|f]; [discriminate|].
  cbn [check_config_action] in H. refold opt H.
  apply obind_inv in H. destruct H as (l0 & Hl0 & H).
  destruct (find_repl id (ld_repls l0)) as [rp|]; [|discriminate].
  destruct (next_action (cfg_node0 c id) =? ActNone); [unfold wret in H; inversion H; subst; lia|].
  match type of H with (if ?b then _ else _) = _ => destruct b end.
  { unfold wret in H; inversion H; subst. unfold upd_repl in LT. rewrite ConfigFacts.lastidx_upd_ldr in LT. lia. }
  apply obind_inv in H. destruct H as (l1 & Hl1 & H).
  match type of H with (if negb ?b then _ else _) = _ => destruct b end; cbn [negb] in H.
  2:{ unfold wret in H; inversion H; subst. unfold upd_repl in LT. rewrite ConfigFacts.lastidx_upd_ldr in LT. lia. }
  match type of H with context [do_change_config _ _ ?st _ _] => set (s1 := st) in * end.
  assert (F : st_lastidx s1 = st_lastidx s /\ st_latest s1 = st_latest s /\ st_commit s1 = st_commit s).
  { unfold s1, upd_repl, upd_ldr. destruct (st_ldr s); split; try split; reflexivity. }
  destruct F as (F1 & F2 & F3).
  destruct (_ =? ActPromote).
  { exists f, s1, (cfg_set_node c (with_voter_action (cfg_node0 c id) true ActNone)). eauto 8. }
  destruct (_ =? ActRemove).
  { destruct (_ <=? _).
    - exists f, s1, (cfg_del_node c id). eauto 8.
    - unfold wret in H; inversion H; subst. lia. }
  destruct (_ =? ActForceRemove).
  { exists f, s1, (cfg_del_node c id). eauto 8. }
  eexists f, s1, _. split; [exact H|]. eauto 8.
Qed.

(* L2, for the entries checkConfigAction appends (pending promote / demote / remove / force-remove) *)
Theorem reconfig_refines_SReconfig opt fuel s tid c id s' out l :
  st_ldr s = Some l -> NoDup (map n_id (c_nodes c)) ->
  check_config_action opt fuel s tid c id = Done (s', out) -> st_lastidx s < st_lastidx s' ->
  exists f s1 c',
    do_change_config opt f s1 tid c' = Done (s', out) /\
    st_lastidx s1 = st_lastidx s /\ st_latest s1 = st_latest s /\ st_commit s1 = st_commit s /\
    configs_committed s = true /\ ld_start l <= st_commit s /\ ld_tr_active l = false /\
    NoDup (voters_of c) /\ NoDup (voters_of c') /\ CfgQuorum.near (voters_of c) (voters_of c').
Proof.
  intros Hl ND H LT.
  destruct (ConfigFacts.config_action_only_when_ready _ _ _ _ _ _ _ _ _ Hl H LT) as (G1 & G2 & G3).
  destruct (check_config_action_appends _ _ _ _ _ _ _ _ _ Hl H LT) as (f & s1 & c' & D & F1 & F2 & F3 & Fc).
  exists f, s1, c'. repeat (split; [assumption|]).
  destruct Fc as [(v & a & ->)| ->].
  - destruct (derived_config_near c id v a ND) as (NV & (_ & V1 & N1) & _). auto.
  - destruct (derived_config_near c id true 0 ND) as (NV & _ & (_ & V2 & N2)). auto.
Qed.

(* the same in the abstract guards' terms, when the configuration acted on is the latest one (as in
   every call from checkConfigActions made right after reading st_latest) and given the link between
   "configs committed" and the commit index that is not among the node invariants proved so far *)
Corollary reconfig_refines_SReconfig_latest opt fuel s tid id s' out l :
  st_ldr s = Some l -> NoDup (map n_id (c_nodes (st_latest s))) ->
  (configs_committed s = true -> c_index (st_latest s) < ld_start l \/ c_index (st_latest s) <= st_commit s) ->
  check_config_action opt fuel s tid (st_latest s) id = Done (s', out) -> st_lastidx s < st_lastidx s' ->
  exists f s1 c',
    do_change_config opt f s1 tid c' = Done (s', out) /\
    c_index (st_latest s) <= st_commit s /\ ld_start l <= st_commit s /\
    NoDup (voters_of (st_latest s)) /\ NoDup (voters_of c') /\
    CfgQuorum.near (voters_of (st_latest s)) (voters_of c').
Proof.
  intros Hl ND Hc H LT.
  destruct (reconfig_refines_SReconfig _ _ _ _ _ _ _ _ _ Hl ND H LT)
    as (f & s1 & c' & D & _ & _ & _ & G1 & G2 & _ & N1 & N2 & Nr).
  exists f, s1, c'. specialize (Hc G1). repeat (split; [assumption || lia|]). exact Nr.
Qed.

(* L2, for a configuration submitted by the user (onChangeConfig): accepted only under the guards,
   and with the voters of the latest configuration (a submitted configuration only sets actions) *)
Theorem user_reconfig_refines_SReconfig opt s tid c s' out l :
  st_ldr s = Some l -> tid <> 0 ->
  NoDup (map n_id (c_nodes c)) -> NoDup (map n_id (c_nodes (st_latest s))) ->
  on_change_config opt s tid c = Done (s', out) -> st_lastidx s < st_lastidx s' ->
  configs_committed s = true /\ ld_start l <= st_commit s /\
  NoDup (voters_of (st_latest s)) /\ NoDup (voters_of c) /\
  CfgQuorum.near (voters_of (st_latest s)) (voters_of c).
Proof.
  intros Hl Ht NDc NDl H LT.
  assert (G : configs_committed s = true /\ ld_start l <= st_commit s).
  { destruct (configs_committed s) eqn:CC.
    - split; [reflexivity|]. destruct (N.le_gt_cases (ld_start l) (st_commit s)) as [L|L]; [exact L|].
      exfalso. destruct (ConfigFacts.change_config_validation opt s tid c l Hl Ht) as (r & E & _);
        [right; left; lia|]. rewrite E in H. inversion H; subst. lia.
    - exfalso. destruct (ConfigFacts.change_config_validation opt s tid c l Hl Ht) as (r & E & _);
        [left; exact CC|]. rewrite E in H. inversion H; subst. lia. }
  destruct G as [G1 G2]. pose proof (voters_nodup _ NDc) as Vc. pose proof (voters_nodup _ NDl) as Vl.
  repeat (split; [assumption|]).
  apply (one_apart_near _ _ 0); [|assumption|assumption].
  intros id _. symmetry. apply (ConfigFacts.accepted_request_same_voters opt s tid c s' out NDc H LT).
Qed.
