(* C10: facts about [Handlers.restart], the model of New()+Serve start on the storage a dead process
   left behind, and about the crash points inside snapshot installation.  Statements are re-exported
   by Props/C10.v.  Nothing here changes the model. *)
From Coq Require Import List NArith ZArith Bool Lia.
From RecordUpdate Require Import RecordUpdate.
From Verif Require Import Base.Bytes Codec.Messages Node.Types Node.Handlers.
Import ListNotations.
Open Scope N_scope.

(* ---------------------------------------------------------------- definitions used by Props/C10.v *)

(* well-formed log: the k-th stored entry carries index logprev + 1 + k *)
Definition log_indexed (s : nstate) : Prop :=
  forall k e, nth_error (st_log s) k = Some e -> e_index e = st_logprev s + 1 + N.of_nat k.

(* the states [on_install_snap_request s q _] goes through at its storage-operation boundaries when
   the request is neither stale-term nor not-newer (same let-bindings s0..s3 as the handler):
     s1  term raised, role/leader set;
     s2  snapshot published (snaps.index/term/config are the request's), log untouched;
     s3  log reset to the snapshot (only in the discard branch), fsm/commit/configs not yet updated. *)
Definition install_crash_states (s : nstate) (q : snapreq) : list nstate :=
  if sq_term q <? st_term s then []
  else
    match set_term s (sq_term q) with
    | Err _ => []
    | Done s0 =>
        let s1 := set_leader (set_role s0 Follower) (sq_src q) in
        if sq_lastidx q <=? st_snapidx s1 then [] else
        let s2 := set_snap s1 (sq_lastidx q) (sq_lastterm q) (sq_config q) in
        let keep :=
          if log_contains s2 (sq_lastidx q) then
            match log_get s2 (sq_lastidx q) with
            | Some e => e_term e =? sq_lastterm q
            | None => false
            end
          else false in
        if keep then [s1; s2]
        else
          let s3 := clear_log s2 in
          [s1; s2; s3]
    end.

(* [Handlers.restart] as it was before the repair of finding D9: identical except that a log ending
   before the latest snapshot is NOT reset (the line [let s := if ... then clear_log s1 else s1]
   is [let s := s1]). *)
Definition restart_before_fix (s0 : nstate) (keep : N) : outcome nstate :=
  if negb ((st_flushed s0 <=? keep) && (keep <=? log_lastindex s0) && (st_logprev s0 <=? keep)) then Err EBug else
  let s1 := set_flushed (set_log s0 (st_logprev s0) (firstn (N.to_nat (keep - st_logprev s0)) (st_log s0))
                                 (st_lastidx s0) (st_lastterm s0)) keep in
  let s := s1 in
  let last := match rev (st_log s) with
              | e :: _ => (e_index e, e_term e)
              | [] => (st_snapidx s, st_snapterm s)
              end in
  let s1 := set_log s (st_logprev s) (st_log s) (fst last) (snd last) in
  cc <~ open_configs s1 ;;
  let s2 := set_configs s1 (fst cc) (snd cc) in
  let s3 := set_ldr (set_cnd (set_flr (set_snapbusy (set_closed (set_leader (set_role s2 Follower) 0) false) false) false false) 0 false) None
              <| st_snapreq := None |> in
  if 0 <? st_snapidx s3 then
    Done (set_commit (set_fsm s3 (st_snapidx s3) (st_snapterm s3)) (st_snapidx s3))
  else Done (set_commit (set_fsm s3 0 0) 0).

(* ---------------------------------------------------------------- restart in three stages *)

(* what the segment headers cover *)
Definition trunc_state (s0 : nstate) (keep : N) : nstate :=
  set_flushed (set_log s0 (st_logprev s0) (firstn (N.to_nat (keep - st_logprev s0)) (st_log s0))
                       (st_lastidx s0) (st_lastterm s0)) keep.

(* openStorage: a stale prefix behind the snapshot, or a tail that starts after it, is dropped *)
Definition reset_state (s1 : nstate) : nstate :=
  if (log_lastindex s1 <? st_snapidx s1) || (st_snapidx s1 <? st_logprev s1) then clear_log s1 else s1.

Definition last_of (s : nstate) : N * N :=
  match rev (st_log s) with
  | e :: _ => (e_index e, e_term e)
  | [] => (st_snapidx s, st_snapterm s)
  end.

Definition restart_tail (s : nstate) : outcome nstate :=
  let last := last_of s in
  let s1 := set_log s (st_logprev s) (st_log s) (fst last) (snd last) in
  cc <~ open_configs s1 ;;
  let s2 := set_configs s1 (fst cc) (snd cc) in
  let s3 := set_ldr (set_cnd (set_flr (set_snapbusy (set_closed (set_leader (set_role s2 Follower) 0) false) false) false false) 0 false) None
              <| st_snapreq := None |> in
  if 0 <? st_snapidx s3 then
    Done (set_commit (set_fsm s3 (st_snapidx s3) (st_snapterm s3)) (st_snapidx s3))
  else Done (set_commit (set_fsm s3 0 0) 0).

Definition keep_ok (s0 : nstate) (keep : N) : bool :=
  (st_flushed s0 <=? keep) && (keep <=? log_lastindex s0) && (st_logprev s0 <=? keep).

Lemma restart_stages s0 keep :
  restart s0 keep = if negb (keep_ok s0 keep) then Err EBug else restart_tail (reset_state (trunc_state s0 keep)).
Proof.
  cbv beta zeta delta [restart restart_tail reset_state trunc_state last_of keep_ok]. reflexivity.
Qed.

Lemma restart_before_fix_stages s0 keep :
  restart_before_fix s0 keep = if negb (keep_ok s0 keep) then Err EBug else restart_tail (trunc_state s0 keep).
Proof.
  cbv beta zeta delta [restart_before_fix restart_tail trunc_state last_of keep_ok]. reflexivity.
Qed.

Lemma restart_done s0 keep s' :
  restart s0 keep = Done s' ->
  (st_flushed s0 <= keep /\ keep <= log_lastindex s0 /\ st_logprev s0 <= keep) /\
  restart_tail (reset_state (trunc_state s0 keep)) = Done s'.
Proof.
  rewrite restart_stages. unfold keep_ok.
  destruct (st_flushed s0 <=? keep) eqn:E1; cbn [andb negb]; try discriminate.
  destruct (keep <=? log_lastindex s0) eqn:E2; cbn [andb negb]; try discriminate.
  destruct (st_logprev s0 <=? keep) eqn:E3; cbn [andb negb]; try discriminate.
  intros H. split; [|exact H].
  apply N.leb_le in E1, E2, E3. auto.
Qed.

(* everything the last stage does, field by field *)
Lemma restart_tail_fields s s' :
  restart_tail s = Done s' ->
  st_term s' = st_term s /\ st_voted s' = st_voted s /\
  st_logprev s' = st_logprev s /\ st_log s' = st_log s /\
  st_snapidx s' = st_snapidx s /\ st_snapterm s' = st_snapterm s /\
  st_lastidx s' = fst (last_of s) /\ st_lastterm s' = snd (last_of s) /\
  st_role s' = Follower /\ st_leader s' = 0 /\ st_ldr s' = None /\
  st_commit s' = st_snapidx s /\ st_fsmidx s' = st_snapidx s.
Proof.
  unfold restart_tail. cbv zeta.
  destruct (open_configs _) as [cc|e]; cbn [obind]; try discriminate.
  match goal with |- context [if ?b then _ else _] => destruct b eqn:E end;
    intros H; inversion H; subst s'; clear H; cbn in *.
  - repeat split; reflexivity.
  - apply N.ltb_ge in E. repeat split; try reflexivity; lia.
Qed.

Lemma trunc_fields s0 keep :
  st_term (trunc_state s0 keep) = st_term s0 /\ st_voted (trunc_state s0 keep) = st_voted s0 /\
  st_logprev (trunc_state s0 keep) = st_logprev s0 /\
  st_log (trunc_state s0 keep) = firstn (N.to_nat (keep - st_logprev s0)) (st_log s0) /\
  st_snapidx (trunc_state s0 keep) = st_snapidx s0 /\ st_snapterm (trunc_state s0 keep) = st_snapterm s0.
Proof. cbn. repeat split; reflexivity. Qed.

Lemma trunc_lastindex s0 keep :
  keep <= log_lastindex s0 -> st_logprev s0 <= keep -> log_lastindex (trunc_state s0 keep) = keep.
Proof.
  unfold log_lastindex. cbn. intros H1 H2. rewrite firstn_length. lia.
Qed.

Lemma reset_term_vote s : st_term (reset_state s) = st_term s /\ st_voted (reset_state s) = st_voted s /\
  st_snapidx (reset_state s) = st_snapidx s /\ st_snapterm (reset_state s) = st_snapterm s.
Proof. unfold reset_state. destruct (_ || _); cbn; repeat split; reflexivity. Qed.

Lemma reset_noop s : st_snapidx s <= log_lastindex s -> st_logprev s <= st_snapidx s -> reset_state s = s.
Proof.
  unfold reset_state. intros H H2.
  destruct (log_lastindex s <? st_snapidx s) eqn:E; [apply N.ltb_lt in E; lia|].
  destruct (st_snapidx s <? st_logprev s) eqn:E2; [apply N.ltb_lt in E2; lia|reflexivity].
Qed.

Lemma reset_stale s : log_lastindex s < st_snapidx s -> reset_state s = clear_log s.
Proof. unfold reset_state. intros H. destruct (_ <? _) eqn:E; [reflexivity|apply N.ltb_ge in E; lia]. Qed.

Lemma reset_detached s : st_snapidx s < st_logprev s -> reset_state s = clear_log s.
Proof.
  unfold reset_state. intros H. destruct (st_snapidx s <? st_logprev s) eqn:E; [rewrite orb_true_r; reflexivity|].
  apply N.ltb_ge in E. lia.
Qed.

(* ---------------------------------------------------------------- list helpers *)

Lemma nth_error_firstn_lt {A} (l : list A) n k : (k < n)%nat -> nth_error (firstn n l) k = nth_error l k.
Proof.
  revert n k. induction l as [|a l IH]; intros n k H.
  - rewrite firstn_nil. reflexivity.
  - destruct n as [|n]; [lia|]. destruct k as [|k]; cbn; [reflexivity|]. apply IH. lia.
Qed.

Lemma nth_error_firstn_some {A} (l : list A) n k x : nth_error (firstn n l) k = Some x -> nth_error l k = Some x.
Proof.
  intros H. destruct (Nat.lt_ge_cases k n) as [L|G].
  - rewrite nth_error_firstn_lt in H by exact L. exact H.
  - assert (nth_error (firstn n l) k = None) as N0.
    { apply nth_error_None. pose proof (firstn_le_length n l). rewrite firstn_length. lia. }
    congruence.
Qed.

Lemma rev_head_nth {A} (l : list A) x r : rev l = x :: r -> nth_error l (length l - 1) = Some x /\ (0 < length l)%nat.
Proof.
  intros H. assert (l = rev r ++ [x]) as ->.
  { rewrite <- (rev_involutive l), H. reflexivity. }
  rewrite app_length. cbn. split; [|lia].
  rewrite nth_error_app2 by lia. replace (length (rev r) + 1 - 1 - length (rev r))%nat with O by lia. reflexivity.
Qed.

(* ---------------------------------------------------------------- the lemmas of C10 *)

Lemma restart_keeps_term_vote :
  forall s keep s', restart s keep = Done s' -> st_term s' = st_term s /\ st_voted s' = st_voted s.
Proof.
  intros s keep s' H. apply restart_done in H. destruct H as [_ H].
  apply restart_tail_fields in H. destruct H as (T & V & _).
  destruct (reset_term_vote (trunc_state s keep)) as (T1 & V1 & _).
  destruct (trunc_fields s keep) as (T2 & V2 & _).
  split; congruence.
Qed.

(* REPAIRED STATEMENT.  The original hypothesis [st_snapidx s <= log_lastindex s] is not enough:
   the part of the log that survived ([keep]) must reach the snapshot, otherwise restart resets the
   log to the snapshot and drops the (flushed, but snapshot-covered) entries.  See
   [restart_keeps_flushed_entries_original_refuted]. *)
Lemma restart_keeps_flushed_entries :
  forall s keep s' i, restart s keep = Done s' -> i <= st_flushed s -> st_snapidx s <= keep ->
    st_logprev s <= st_snapidx s ->
    st_flushed s <= log_lastindex s -> log_get s' i = log_get s i.
Proof.
  intros s keep s' i H Hi Hsnap Hconn _.
  apply restart_done in H. destruct H as [(K1 & K2 & K3) H].
  rewrite reset_noop in H.
  2:{ rewrite (trunc_lastindex s keep K2 K3). destruct (trunc_fields s keep) as (_ & _ & _ & _ & S2 & _).
      rewrite S2. exact Hsnap. }
  2:{ destruct (trunc_fields s keep) as (_ & _ & P2 & _ & S2 & _). rewrite P2, S2. exact Hconn. }
  apply restart_tail_fields in H. destruct H as (_ & _ & P & L & _).
  destruct (trunc_fields s keep) as (_ & _ & P2 & L2 & _).
  unfold log_get. rewrite P, L, P2, L2.
  destruct (st_logprev s <? i) eqn:E2; [|reflexivity].
  apply N.ltb_lt in E2. apply nth_error_firstn_lt. lia.
Qed.

Lemma restart_log_contiguous_with_snapshot :
  forall s keep s', restart s keep = Done s' -> log_indexed s ->
    st_logprev s' <= st_snapidx s' /\ st_snapidx s' <= st_lastidx s' /\ st_lastidx s' = N.max (log_lastindex s') (st_snapidx s').
Proof.
  intros s keep s' H Hidx.
  apply restart_done in H. destruct H as [(K1 & K2 & K3) H].
  apply restart_tail_fields in H. destruct H as (_ & _ & P & L & S & _ & LI & _).
  destruct (reset_term_vote (trunc_state s keep)) as (_ & _ & S1 & _).
  destruct (trunc_fields s keep) as (_ & _ & P2 & L2 & S2 & _).
  unfold log_lastindex. rewrite P, L, S, S1, S2, LI. clear P L S LI S1.
  unfold last_of, reset_state.
  rewrite (trunc_lastindex s keep K2 K3), S2, P2.
  destruct (keep <? st_snapidx s) eqn:E; cbn [orb].
  - (* stale prefix: log reset to the snapshot *)
    cbn. lia.
  - destruct (st_snapidx s <? st_logprev s) eqn:E0.
    + (* tail that starts after the snapshot: reset as well *)
      cbn. lia.
    + apply N.ltb_ge in E. apply N.ltb_ge in E0. rewrite P2, L2.
      destruct (rev (firstn (N.to_nat (keep - st_logprev s)) (st_log s))) as [|x r] eqn:R.
      * (* nothing left in the log *)
        assert (firstn (N.to_nat (keep - st_logprev s)) (st_log s) = []) as Z.
        { rewrite <- (rev_involutive (firstn _ _)), R. reflexivity. }
        rewrite Z. cbn [length fst]. apply (f_equal (@length _)) in Z. rewrite firstn_length in Z.
        unfold log_lastindex in K2. cbn [length] in Z. lia.
      * apply rev_head_nth in R. destruct R as [R Hlen].
        apply nth_error_firstn_some in R. apply Hidx in R. cbn [fst]. rewrite R.
        rewrite firstn_length in *. unfold log_lastindex in K2. lia.
Qed.

(* indexedness and [logprev <= snapidx] at the three crash points *)
Lemma install_crash_states_ok s q cs :
  In cs (install_crash_states s q) -> log_indexed s -> st_logprev s <= st_snapidx s ->
  log_indexed cs /\ st_logprev cs <= st_snapidx cs.
Proof.
  unfold install_crash_states. intros H Hidx Hprev.
  destruct (sq_term q <? st_term s); [destruct H|].
  assert (forall s0, set_term s (sq_term q) = Done s0 ->
            st_log s0 = st_log s /\ st_logprev s0 = st_logprev s /\ st_snapidx s0 = st_snapidx s) as ST.
  { unfold set_term. intros s0 H0.
    destruct (st_term s =? sq_term q); [inversion H0; auto|].
    destruct (st_term s <? sq_term q); inversion H0; cbn; auto. }
  destruct (set_term s (sq_term q)) as [s0|e]; [|destruct H].
  destruct (ST s0 eq_refl) as (L0 & P0 & S0). clear ST.
  cbv zeta in H.
  destruct (sq_lastidx q <=? _) eqn:E; [destruct H|].
  apply N.leb_gt in E. cbn in E. rewrite S0 in E.
  assert (forall c, st_log c = st_log s -> st_logprev c = st_logprev s -> log_indexed c) as LI.
  { intros c Lc Pc k e0. unfold log_indexed in Hidx. rewrite Lc, Pc. apply Hidx. }
  assert (log_indexed (clear_log (set_snap (set_leader (set_role s0 Follower) (sq_src q))
                                          (sq_lastidx q) (sq_lastterm q) (sq_config q))) /\
          st_logprev (clear_log (set_snap (set_leader (set_role s0 Follower) (sq_src q))
                                          (sq_lastidx q) (sq_lastterm q) (sq_config q))) <=
          st_snapidx (clear_log (set_snap (set_leader (set_role s0 Follower) (sq_src q))
                                          (sq_lastidx q) (sq_lastterm q) (sq_config q)))) as C3.
  { split; [|cbn; lia]. intros k e0. cbn. destruct k; discriminate. }
  match type of H with In _ (if ?b then _ else _) => destruct b end.
  - destruct H as [<-|[<-|[]]]; (split; [apply LI; cbn; assumption | cbn; lia]).
  - destruct H as [<-|[<-|[<-|[]]]]; try exact C3; (split; [apply LI; cbn; assumption | cbn; lia]).
Qed.

Lemma install_crash_points_restart_contiguous :
  forall s q cs keep s', In cs (install_crash_states s q) -> log_indexed s ->
    st_logprev s <= st_snapidx s -> restart cs keep = Done s' ->
    st_logprev s' <= st_snapidx s' /\ st_snapidx s' <= st_lastidx s'.
Proof.
  intros s q cs keep s' Hin Hidx Hprev H.
  destruct (install_crash_states_ok s q cs Hin Hidx Hprev) as [I P].
  destruct (restart_log_contiguous_with_snapshot cs keep s' H I) as (A & B & _). auto.
Qed.

Lemma restart_role_and_config :
  forall s keep s', restart s keep = Done s' ->
    st_role s' = Follower /\ st_leader s' = 0 /\ st_ldr s' = None /\ st_commit s' = st_snapidx s' /\ st_fsmidx s' = st_snapidx s'.
Proof.
  intros s keep s' H. apply restart_done in H. destruct H as [_ H].
  apply restart_tail_fields in H.
  destruct H as (_ & _ & _ & _ & S & _ & _ & _ & R & Ld & LD & C & F).
  repeat split; congruence.
Qed.

(* ---------------------------------------------------------------- witnesses *)

Definition wit_cfg : config := mkConfig [mkNode 1 [] true [] ActNone; mkNode 2 [] true [] ActNone] 1 1.

(* node 1, term 1: entries 1..3 (index 1 is the bootstrap configuration's slot, kept as a nop here),
   all flushed, no snapshot *)
Definition wit_node : nstate :=
  mkNode_ 7 1 1 0 0
    [mkEntry 1 1 entryNop []; mkEntry 2 1 entryNop []; mkEntry 3 1 entryNop []]
    3 3 1 0 0 empty_config wit_cfg wit_cfg
    Follower 2 3 true false None false 3 1 false 0%Z false None.

(* the leader (node 2, term 1) installs a snapshot at index 10, which is not in this log *)
Definition wit_req : snapreq := mkSnapReq 1 2 10 1 wit_cfg.

(* crash point: snapshot published, log not yet reset *)
Definition wit_crash : nstate := set_snap (set_leader (set_role wit_node Follower) 2) 10 1 wit_cfg.

Lemma wit_node_indexed : log_indexed wit_node.
Proof.
  intros k e. cbn.
  destruct k as [|[|[|k]]]; cbn; intros H; inversion H; subst; try reflexivity.
  destruct k; discriminate.
Qed.

Lemma install_crash_before_fix_refuted :
  exists s q cs keep s', In cs (install_crash_states s q) /\ log_indexed s /\
    st_logprev s <= st_snapidx s /\ restart_before_fix cs keep = Done s' /\ st_lastidx s' < st_snapidx s'.
Proof.
  exists wit_node, wit_req, wit_crash, 3.
  eexists. split; [|split; [|split; [|split]]].
  - vm_compute. right. left. reflexivity.
  - exact wit_node_indexed.
  - vm_compute. discriminate.
  - vm_compute. reflexivity.
  - vm_compute. reflexivity.
Qed.

(* with the repair the same crash point restarts on the snapshot *)
Lemma install_crash_after_fix_witness :
  exists s', restart wit_crash 3 = Done s' /\ st_logprev s' = 10 /\ st_log s' = [] /\ st_lastidx s' = 10 /\ st_snapidx s' = 10.
Proof. eexists. split; [vm_compute; reflexivity|]. vm_compute. auto. Qed.

(* counterexample to the ORIGINAL statement of restart_keeps_flushed_entries (hypothesis
   [st_snapidx s <= log_lastindex s] instead of [st_snapidx s <= keep]): entries 1..3, only entry 1
   flushed, snapshot at 3 (e.g. crash point s2 of an installation at index 3 with a different term),
   and only entry 1 survived (keep = 1): the log is reset to the snapshot and entry 1 is gone. *)
Definition wit2_node : nstate := (set_snap wit_node 3 2 wit_cfg) <| st_flushed := 1 |>.

Lemma restart_keeps_flushed_entries_original_refuted :
  exists s keep s' i, restart s keep = Done s' /\ i <= st_flushed s /\ st_snapidx s <= log_lastindex s /\
    st_flushed s <= log_lastindex s /\ log_get s' i <> log_get s i.
Proof.
  exists wit2_node, 1. eexists. exists 1.
  split; [vm_compute; reflexivity|].
  repeat split; vm_compute; discriminate.
Qed.

(* ---------------------------------------------------------------- crash inside Log.Reset (finding D19)
   Log.Reset removes the segment files oldest first and then creates the new one.  A crash after
   some removals leaves the TAIL of the old log: a log that starts after the published snapshot.
   Before the second repair openStorage only reset a log that ENDS before the snapshot. *)
Definition restart_before_fix2 (s0 : nstate) (keep : N) : outcome nstate :=
  if negb (keep_ok s0 keep) then Err EBug else
  let t := trunc_state s0 keep in
  restart_tail (if log_lastindex t <? st_snapidx t then clear_log t else t).

(* node 1 held entries 1..7; a snapshot at index 3 was installed over a conflicting entry, so the log
   is being reset; the segment holding entries 1..5 is already removed, the one holding 6..7 not yet *)
Definition wit3_crash : nstate :=
  mkNode_ 7 1 1 0 5
    [mkEntry 6 1 entryNop []; mkEntry 7 1 entryNop []]
    7 7 1 3 2 wit_cfg wit_cfg wit_cfg
    Follower 2 3 true false None false 3 1 false 0%Z false None.

Lemma wit3_indexed : log_indexed wit3_crash.
Proof.
  intros k e H. destruct k as [|[|k']]; cbn in H.
  - inversion H; subst; reflexivity.
  - inversion H; subst; reflexivity.
  - destruct k'; discriminate.
Qed.

Lemma reset_crash_before_fix2_refuted :
  exists cs keep s', log_indexed cs /\ st_snapidx cs < st_logprev cs /\
    restart_before_fix2 cs keep = Done s' /\ st_snapidx s' < st_logprev s'.
Proof.
  exists wit3_crash, 7. eexists. split; [exact wit3_indexed|].
  split; [vm_compute; reflexivity|]. split; [vm_compute; reflexivity|]. vm_compute. reflexivity.
Qed.

Lemma reset_crash_after_fix2_witness :
  exists s', restart wit3_crash 7 = Done s' /\ st_logprev s' = 3 /\ st_log s' = [] /\ st_lastidx s' = 3 /\ st_snapidx s' = 3.
Proof. eexists. split; [vm_compute; reflexivity|]. vm_compute. auto. Qed.
