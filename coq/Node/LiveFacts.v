(* Proofs for Props/C17.v: leader stickiness, the mechanisms that make progress
   (election start, vote granting, winning at quorum, next-index back-off, match
   index, the single-voter commit, stepping down on quorum loss). *)
From Coq Require Import List NArith ZArith Bool Lia.
From RecordUpdate Require Import RecordUpdate.
From Verif Require Import Base.Bytes Codec.Messages Node.Types Node.Handlers Node.Leader Node.Snap Node.Step Node.Run
  Node.PreserveTV.
Import ListNotations.
Open Scope N_scope.

(* ---------------------------------------------------------------- vote requests *)
Lemma leader_stickiness :
  forall s q, st_leader s <> 0 -> vq_transfer q = false -> vq_src q <> st_leader s ->
    on_vote_request s q = Done (leaderKnown, s).
Proof.
  intros s q HL HT HS. unfold on_vote_request.
  rewrite HT. apply N.eqb_neq in HL, HS. rewrite HL, HS. reflexivity.
Qed.

Lemma leader_stickiness_step :
  forall opt s q o s', st_leader s <> 0 -> vq_transfer q = false -> vq_src q <> st_leader s ->
    st_closed s = false \/ st_role s = Follower ->
    model_event opt s (EVoteReq q) = Done (o, s') -> s' = s /\ ob_result o = leaderKnown.
Proof.
  intros opt s q o s' HL HT HS HC H. cbn [model_event] in H.
  rewrite (leader_stickiness s q HL HT HS) in H. cbn [obind] in H.
  change (leaderKnown =? success) with false in H.
  unfold after_rpc in H. rewrite andb_false_r in H.
  apply finish_inv in H. destruct H as (out2 & H & C & _). cbn [fst] in H.
  split; [|exact C].
  cbn [transition] in H.
  destruct (st_closed s) eqn:EC.
  - destruct HC as [HC|HC]; [discriminate|].
    unfold release_role in H. rewrite HC in H. cbn in H. inversion H; reflexivity.
  - rewrite N.eqb_refl in H. inversion H; reflexivity.
Qed.

Lemma uptodate_candidate_gets_vote :
  forall s q, (vq_transfer q = true \/ st_leader s = 0 \/ vq_src q = st_leader s) ->
    (st_term s < vq_term q \/ (st_term s = vq_term q /\ (st_voted s = 0 \/ st_voted s = vq_src q))) ->
    log_more_uptodate s q = false ->
    exists s', on_vote_request s q = Done (success, s') /\ st_term s' = vq_term q /\ st_voted s' = vq_src q.
Proof.
  intros s q H1 H2 H3. unfold on_vote_request.
  assert (E1 : negb (vq_transfer q) && negb (st_leader s =? 0) && negb (vq_src q =? st_leader s) = false).
  { destruct H1 as [H1|[H1|H1]].
    - rewrite H1. reflexivity.
    - rewrite H1. change (0 =? 0) with true. destruct (vq_transfer q); reflexivity.
    - rewrite H1, N.eqb_refl. destruct (vq_transfer q), (st_leader s =? 0); reflexivity. }
  rewrite E1.
  assert (E2 : vq_term q <? st_term s = false) by (apply N.ltb_ge; lia).
  rewrite E2.
  destruct (st_term s <? vq_term q) eqn:E3.
  - apply N.ltb_lt in E3. change (negb (0 =? 0)) with false. cbv iota.
    change (log_more_uptodate (set_role s Follower) q) with (log_more_uptodate s q). rewrite H3.
    unfold set_voted_for. change (st_term (set_role s Follower)) with (st_term s).
    assert (E4 : vq_term q =? st_term s = false) by (apply N.eqb_neq; lia).
    assert (E5 : st_term s <=? vq_term q = true) by (apply N.leb_le; lia).
    rewrite E4, E5. cbn [andb obind]. eexists. split; [reflexivity|]. split; reflexivity.
  - apply N.ltb_ge in E3. destruct H2 as [H2|[H2 H4]]; [lia|].
    destruct (st_voted s =? 0) eqn:E4; cbn [negb]; cbv iota.
    + apply N.eqb_eq in E4. rewrite H3.
      unfold set_voted_for. rewrite N.eqb_refl. cbn [andb].
      destruct (vq_src q =? st_voted s) eqn:E5.
      * apply N.eqb_eq in E5. cbn [obind]. eexists. split; [reflexivity|]. split; [exact H2 | congruence].
      * rewrite N.leb_refl. cbn [obind]. eexists. split; [reflexivity|]. split; [exact H2 | reflexivity].
    + apply N.eqb_neq in E4. destruct H4 as [H4|H4]; [contradiction|].
      unfold set_voted_for. rewrite !N.eqb_refl. cbn [andb obind].
      rewrite H4, N.eqb_refl. eexists. split; [reflexivity|]. split; [exact H2 | exact H4].
Qed.

(* ---------------------------------------------------------------- elections *)
Lemma transition_S f opt old s :
  transition (S f) opt old s =
  if st_closed s then Done (release_role opt old s)
  else if st_role s =? old then wret s
  else let (s1, out) := release_role opt old (set_timer s false) in
       s2 <~ init_role opt s1 ;;
       wbind (Done (s2, out)) (fun s2 => transition f opt (st_role s1) s2).
Proof. reflexivity. Qed.

Lemma transition_same f opt old s : st_closed s = false -> st_role s = old -> transition f opt old s = wret s.
Proof. intros H1 H2. destruct f; cbn [transition]; rewrite H1, H2, N.eqb_refl; reflexivity. Qed.
Lemma timeout_starts_election :
  forall opt s o s', st_role s = Follower -> can_start_election s = true -> st_closed s = false ->
    model_event opt s ETimeout = Done (o, s') ->
    st_role s' = Candidate /\ st_term s' = st_term s + 1 /\ st_voted s' = st_nid s /\
    st_votesneeded s' = Z.of_N (quorum (st_latest s)).
Proof.
  intros opt s o s' HR HE HC H. cbn [model_event] in H.
  rewrite HR in H. change (Follower =? Follower) with true in H. cbv iota in H. cbn [obind] in H.
  apply finish_inv in H. destruct H as (out2 & H & _). cbn [fst] in H.
  unfold follower_on_timeout in H.
  change (can_start_election (set_timer (set_leader s 0) false)) with (can_start_election s) in H.
  rewrite HE in H.
  assert (HV : is_voter (st_latest s) (st_nid s) = true).
  { unfold can_start_election in HE. apply andb_true_iff in HE. destruct HE as [_ HE].
    unfold is_voter. exact HE. }
  rewrite transition_S in H.
  change (st_closed (set_role (set_timer (set_leader s 0) false) Candidate)) with (st_closed s) in H.
  rewrite HC in H.
  change (st_role (set_role (set_timer (set_leader s 0) false) Candidate)) with Candidate in H.
  change (Candidate =? Follower) with false in H. cbv iota in H.
  unfold release_role in H.
  change (Follower =? Candidate) with false in H. change (Follower =? Leader) with false in H. cbv iota in H.
  unfold init_role in H.
  match type of H with context [start_election ?X] => set (sc := X) in H end.
  change (st_role sc) with Candidate in H.
  change (Candidate =? Follower) with false in H. change (Candidate =? Candidate) with true in H. cbv iota in H.
  unfold start_election in H.
  change (st_latest sc) with (st_latest s) in H. change (st_nid sc) with (st_nid s) in H.
  rewrite HV in H. cbn [negb] in H.
  unfold set_voted_for in H. change (st_term sc) with (st_term s) in H.
  assert (E4 : st_term s + 1 =? st_term s = false) by (apply N.eqb_neq; lia).
  assert (E5 : st_term s <=? st_term s + 1 = true) by (apply N.leb_le; lia).
  rewrite E4, E5 in H. cbn [andb obind] in H.
  unfold wbind in H.
  match type of H with context [transition 3 opt Candidate ?X] => set (s2 := X) in H end.
  rewrite (transition_same 3 opt Candidate s2 HC eq_refl) in H.
  unfold wret in H. inversion H; subst s'.
  repeat split.
Qed.

Lemma quorum_of_grants_wins :
  forall s, st_votesneeded s = 1%Z -> on_vote_result s (st_term s) success =
    Done (set_leader (set_role (set_cnd s 0%Z (st_cndtransfer s)) Leader) (st_nid s)).
Proof.
  intros s H. unfold on_vote_result. rewrite N.ltb_irrefl.
  change (success =? success) with true. cbv iota. rewrite H. reflexivity.
Qed.

(* ---------------------------------------------------------------- replication bookkeeping *)
Lemma find_repl_map_upd id (g : replst -> replst) l :
  (forall r, rp_id (g r) = rp_id r) ->
  find_repl id (map (fun r => if rp_id r =? id then g r else r) l) = option_map g (find_repl id l).
Proof.
  intros Hg. induction l as [|r t IH]; [reflexivity|]. cbn [map find_repl].
  destruct (rp_id r =? id) eqn:E.
  - rewrite Hg, E. reflexivity.
  - rewrite E. exact IH.
Qed.

Lemma upd_repl_find s l id g rp :
  st_ldr s = Some l -> find_repl id (ld_repls l) = Some rp -> (forall r, rp_id (g r) = rp_id r) ->
  exists l', st_ldr (upd_repl s id g) = Some l' /\ find_repl id (ld_repls l') = Some (g rp).
Proof.
  intros Hl Hf Hg. unfold upd_repl, upd_ldr. rewrite Hl.
  eexists. split; [reflexivity|]. cbn. rewrite (find_repl_map_upd id g _ Hg), Hf. reflexivity.
Qed.

Lemma next_index_converges :
  forall s id result rterm rlast reqlast s' out l rp,
    st_ldr s = Some l -> find_repl id (ld_repls l) = Some rp ->
    (result = prevEntryNotFound \/ result = prevTermMismatch) -> rp_gmatch rp <= rlast -> 1 <= rp_next rp ->
    flr_resp s id result rterm rlast reqlast = Done (s', out) ->
    exists l' rp', st_ldr s' = Some l' /\ find_repl id (ld_repls l') = Some rp' /\
      rp_next rp' < rp_next rp /\ rp_gmatch rp' = rp_gmatch rp /\ rp_next rp' = N.min (rp_next rp - 1) (rlast + 1).
Proof.
  intros s id result rterm rlast reqlast s' out l rp Hl Hf Hr Hg Hn H.
  unfold flr_resp, get_ldr in H. rewrite Hl in H. cbn [obind] in H. rewrite Hf in H.
  assert (E : rlast <? rp_gmatch rp = false) by (apply N.ltb_ge; exact Hg).
  destruct Hr; subst result; cbn in H; rewrite E in H; unfold wret in H; inversion H; subst s' out;
    (destruct (upd_repl_find s l id (fun r => r <| rp_next := N.min (rp_next r - 1) (rlast + 1) |>) rp Hl Hf)
       as (l' & H1 & H2); [reflexivity|];
     exists l'; eexists; split; [exact H1|]; split; [exact H2|]; cbn; repeat split; lia).
Qed.

Lemma success_raises_match :
  forall s id rterm rlast reqlast s' out l rp,
    st_ldr s = Some l -> find_repl id (ld_repls l) = Some rp -> rp_gmatch rp < reqlast ->
    flr_resp s id success rterm rlast reqlast = Done (s', out) ->
    In (MReplUpdate id 1 reqlast) (lo_msgs out) /\
    exists l' rp', st_ldr s' = Some l' /\ find_repl id (ld_repls l') = Some rp' /\ rp_gmatch rp' = reqlast.
Proof.
  intros s id rterm rlast reqlast s' out l rp Hl Hf Hg H.
  unfold flr_resp, get_ldr in H. rewrite Hl in H. cbn [obind] in H. rewrite Hf in H.
  apply N.ltb_lt in Hg. cbn in H. rewrite Hg in H. unfold wmsg in H. inversion H; subst s' out.
  split; [left; reflexivity|].
  destruct (upd_repl_find s l id (fun r => r <| rp_gmatch := reqlast |>) rp Hl Hf) as (l' & H1 & H2); [reflexivity|].
  exists l'. eexists. split; [exact H1|]. split; [exact H2|]. reflexivity.
Qed.

(* ---------------------------------------------------------------- quorum loss *)
Lemma self_voter_count (nid : N) (ns : list node) :
  NoDup (map n_id ns) -> (length (filter (fun n => n_voter n && N.eqb (n_id n) nid) ns) <= 1)%nat.
Proof.
  induction ns as [|n r IH]; intros ND; cbn [filter]; [cbn; lia|].
  inversion ND as [|x xs Hnot ND']; subst.
  destruct (n_voter n && (n_id n =? nid)) eqn:E.
  - apply andb_true_iff in E. destruct E as [_ E]. apply N.eqb_eq in E.
    assert (Z : filter (fun n => n_voter n && (n_id n =? nid)) r = []).
    { clear IH ND ND'. induction r as [|m r IH]; [reflexivity|]. cbn [filter].
      destruct (n_voter m && (n_id m =? nid)) eqn:E2.
      - apply andb_true_iff in E2. destruct E2 as [_ E2]. apply N.eqb_eq in E2.
        exfalso. apply Hnot. cbn [map]. left. congruence.
      - apply IH. intros HI. apply Hnot. cbn [map]. right. exact HI. }
    rewrite Z. cbn. lia.
  - apply IH. exact ND'.
Qed.

Lemma quorum_loss_steps_down :
  forall opt s l, st_ldr s = Some l ->
    (forall n, In n (c_nodes (st_latest s)) -> n_voter n = true -> n_id n <> st_nid s ->
       exists rp, find_repl (n_id n) (ld_repls l) = Some rp /\ rp_nocontact rp = true) ->
    3 <= num_voters (st_latest s) -> NoDup (map n_id (c_nodes (st_latest s))) ->
    exists s', check_quorum opt s false = Done s' /\ st_role s' = Follower /\ st_leader s' = 0.
Proof.
  intros opt s l Hl HP HV ND. unfold check_quorum, get_ldr. rewrite Hl. cbn [obind].
  match goal with |- context [fold_left ?F _ _] => set (F0 := F) end.
  assert (HF : forall ns v r,
             (forall n, In n ns -> n_voter n = true -> n_id n <> st_nid s ->
                exists rp, find_repl (n_id n) (ld_repls l) = Some rp /\ rp_nocontact rp = true) ->
             fold_left F0 ns (Done (v, r)) =
             Done (v + N.of_nat (length (filter n_voter ns)),
                   r + N.of_nat (length (filter (fun n => n_voter n && (n_id n =? st_nid s)) ns)))).
  { induction ns as [|n t IH]; intros v r HPn.
    - cbn. rewrite !N.add_0_r. reflexivity.
    - cbn [fold_left filter]. unfold F0 at 2. cbn [obind].
      destruct (n_voter n) eqn:EV; cbn [andb].
      + destruct (n_id n =? st_nid s) eqn:EI.
        * rewrite IH by (intros; apply HPn; [right|..]; assumption).
          cbn [length]. f_equal. f_equal; lia.
        * apply N.eqb_neq in EI.
          destruct (HPn n (or_introl eq_refl) EV EI) as (rp & Hf & Hc). rewrite Hf, Hc.
          rewrite IH by (intros; apply HPn; [right|..]; assumption).
          cbn [length]. f_equal. f_equal; lia.
      + rewrite IH by (intros; apply HPn; [right|..]; assumption). reflexivity. }
  rewrite (HF _ _ _ HP). cbn [obind]. rewrite !N.add_0_l.
  pose proof (self_voter_count (st_nid s) _ ND) as HC.
  unfold num_voters in HV.
  set (V := N.of_nat (length (filter n_voter (c_nodes (st_latest s))))) in *.
  set (Rc := N.of_nat (length (filter (fun n => n_voter n && (n_id n =? st_nid s)) (c_nodes (st_latest s))))) in *.
  assert (HR : Rc <= 1) by (unfold Rc; lia).
  assert (HD : 1 <= V / 2) by (apply N.div_le_lower_bound; lia).
  assert (E : V / 2 + 1 <=? Rc = false) by (apply N.leb_gt; lia).
  rewrite E. cbn [negb]. eexists. split; [reflexivity|]. split; reflexivity.
Qed.

(* ---------------------------------------------------------------- single voter *)
Definition lkey (l : ldrst) := (ld_voter l, ld_numvoters l, ld_start l, ld_tr_active l).
Definition K (s : nstate) :=
  (st_commit s, st_lastidx s, st_latest s, st_committed s, option_map lkey (st_ldr s)).

Lemma K_begin_finished_rounds s : K (begin_finished_rounds s) = K s.
Proof. unfold begin_finished_rounds, upd_ldr. destruct (st_ldr s) eqn:E; [|reflexivity]. unfold K. cbn. rewrite E. reflexivity. Qed.

Lemma K_notify_flr s b s' : notify_flr s b = Done s' -> K s' = K s.
Proof.
  unfold notify_flr. intros H. repeat inv1.
  match goal with H : get_ldr _ = _ |- _ => unfold get_ldr in H end.
  destruct (st_ldr s) eqn:E; [|discriminate]. inv1. unfold K. cbn. rewrite E. reflexivity.
Qed.

Lemma K_apply_queue q : forall s out r, apply_queue s q out = Done r ->
  K (fst r) = K s.
Proof.
  induction q as [|ne r IH]; intros s out res H; cbn [apply_queue] in H.
  - inversion H; reflexivity.
  - destruct (negb _); [discriminate|]. apply IH in H. rewrite H. destruct (is_log_entry _); reflexivity.
Qed.

Lemma K_if_fsm (b : bool) s i t : K (if b then set_fsm s i t else s) = K s.
Proof. destruct b; reflexivity. Qed.

Lemma K_leader_apply_committed s w : leader_apply_committed s = Done w -> K (fst w) = K s.
Proof.
  unfold leader_apply_committed. intros H.
  apply obind_inv in H. destruct H as (l & Hl & H).
  unfold get_ldr in Hl. destruct (st_ldr s) eqn:E; [|discriminate]. inversion Hl; subst l0.
  destruct (split_queue _ _) as [head rest].
  assert (K0 : K (put_ldr s (l <| ld_queue := rest |>)) = K s).
  { unfold K. cbn. rewrite E. reflexivity. }
  repeat (first [ match goal with H : apply_queue _ _ _ = Done _ |- _ => apply K_apply_queue in H end | inv1 ]);
    cbn [fst] in *; try congruence.
  all: match goal with H : K _ = K _ |- _ => rewrite H end; try exact K0.
  rewrite K_if_fsm. exact K0.
Qed.

(* with a stable configuration (no pending action on any node) the configuration machinery is idle *)
Lemma find_node_in id l n : find_node id l = Some n -> In n l.
Proof.
  induction l as [|m r IH]; cbn [find_node]; [discriminate|].
  destruct (n_id m =? id); [intros H; inversion H; left; reflexivity | intros H; right; auto].
Qed.

Lemma cfg_node0_stable c id : is_stable c = true -> n_action (cfg_node0 c id) = ActNone.
Proof.
  intros H. unfold cfg_node0, cfg_node. destruct (find_node id (c_nodes c)) as [n|] eqn:E; [|reflexivity].
  apply find_node_in in E. unfold is_stable in H. rewrite forallb_forall in H.
  apply N.eqb_eq. apply H. exact E.
Qed.

Lemma next_action_none n : n_action n = ActNone -> next_action n = ActNone.
Proof. intros H. unfold next_action. rewrite H. cbn. destruct (n_voter n); reflexivity. Qed.

Lemma cca1_stable opt f s tid c id w :
  is_stable c = true -> check_config_action opt f s tid c id = Done w -> fst w = s.
Proof.
  intros HS H. destruct f as [|f]; [discriminate|]. cbn [check_config_action] in H. refold opt H.
  apply obind_inv in H. destruct H as (l & _ & H).
  destruct (find_repl id (ld_repls l)); [|discriminate].
  rewrite (next_action_none _ (cfg_node0_stable c id HS)) in H.
  change (ActNone =? ActNone) with true in H. cbv iota in H. inversion H; reflexivity.
Qed.

Lemma cca_stable opt f s tid c w :
  is_stable c = true -> check_config_actions opt f s tid c = Done w -> fst w = s.
Proof.
  intros HS H. destruct f as [|f]; [discriminate|]. cbn [check_config_actions] in H. refold opt H.
  apply obind_inv in H. destruct H as (l & _ & H).
  rewrite (cfg_node0_stable c (st_nid s) HS) in H.
  change (negb (ActNone =? ActNone)) with false in H. rewrite andb_false_r in H. cbn [obind] in H.
  apply obind_inv in H. destruct H as (l1 & _ & H).
  revert w H. apply fold_left_inv.
  - intros w Hw. inversion Hw; reflexivity.
  - intros acc id Hacc w Hw.
    apply wbind_inv in Hw. destruct Hw as (s1 & o1 & w2 & Ha & Hk & E).
    apply Hacc in Ha. cbn [fst] in Ha. subst s1. rewrite E.
    apply obind_inv in Hk. destruct Hk as (l2 & _ & Hk).
    destruct (find_repl id (ld_repls l2)).
    + eapply cca1_stable; eassumption.
    + inversion Hk; reflexivity.
Qed.

Definition quiet (s : nstate) (l : ldrst) : Prop :=
  is_stable (st_latest s) = true \/ (configs_committed s = true /\ ld_start l <= st_commit s).

Lemma lsci_quiet opt f s i w l :
  st_ldr s = Some l -> quiet s l -> leader_set_commit_index opt f s i = Done w ->
  st_commit (fst w) = i /\ st_lastidx (fst w) = st_lastidx s.
Proof.
  intros Hl HQ H. destruct f as [|f]; [discriminate|]. cbn [leader_set_commit_index] in H. refold opt H.
  unfold get_ldr in H. rewrite Hl in H. cbn [obind] in H.
  unfold raft_set_commit_index in H.
  change (configs_committed (set_commit (commit_log s i) i)) with (configs_committed s) in H.
  change (st_latest (set_commit (commit_log s i) i)) with (st_latest s) in H.
  destruct (negb (configs_committed s) && (c_index (st_latest s) <=? i)) eqn:EC.
  - (* the latest configuration gets committed: it is stable *)
    apply andb_true_iff in EC. destruct EC as [EC _]. apply negb_true_iff in EC.
    destruct HQ as [HS|[HQ _]]; [|congruence].
    cbn [negb andb] in H.
    match type of H with context [wbind (wret ?X)] => set (s4 := X) in H end.
    assert (F : st_commit s4 = i /\ st_lastidx s4 = st_lastidx s /\ st_latest s4 = st_latest s /\ configs_committed s4 = true).
    { unfold s4, commit_config, configs_committed.
      repeat match goal with |- context [if ?b then _ else _] => destruct b end;
      try match goal with |- context [match ?b with Some _ => _ | None => _ end] => destruct b end;
      cbn; rewrite N.eqb_refl; repeat split. }
    destruct F as (F1 & F2 & F3 & F4).
    apply wbind_inv in H. destruct H as (s5 & o5 & w2 & Ha & Hk & E).
    unfold wret in Ha. inversion Ha; subst s5 o5. rewrite E.
    apply obind_inv in Hk. destruct Hk as (l2 & _ & Hk).
    rewrite F4, F3, HS in Hk. cbn [andb] in Hk. inversion Hk; subst w2. cbn [fst].
    split; [exact F1 | exact F2].
  - cbn [negb andb] in H.
    apply wbind_inv in H. destruct H as (s5 & o5 & w2 & Ha & Hk & E).
    unfold wret in Hk. inversion Hk; subst w2. rewrite E. cbn [fst].
    destruct ((st_commit s <? ld_start l) && (ld_start l <=? i)) eqn:ER.
    + destruct HQ as [HS|[_ HQ]].
      * apply cca_stable in Ha; [|exact HS]. cbn [fst] in Ha. subst s5. split; reflexivity.
      * apply andb_true_iff in ER. destruct ER as [ER _]. apply N.ltb_lt in ER. lia.
    + unfold wret in Ha. inversion Ha; subst s5. split; reflexivity.
Qed.

Lemma K_fields s s' : K s' = K s ->
  st_commit s' = st_commit s /\ st_lastidx s' = st_lastidx s /\ st_latest s' = st_latest s /\
  st_committed s' = st_committed s /\ option_map lkey (st_ldr s') = option_map lkey (st_ldr s).
Proof. unfold K. intros H. inversion H. auto. Qed.

Lemma omc_single opt f s w l :
  st_ldr s = Some l -> ld_voter l = true -> ld_numvoters l = 1 -> quiet s l ->
  st_commit s < st_lastidx s -> ld_start l <= st_lastidx s ->
  on_majority_commit opt f s = Done w ->
  st_commit (fst w) = st_lastidx s /\ st_lastidx (fst w) = st_lastidx s.
Proof.
  intros Hl HV HN HQ HC HS H. destruct f as [|f]; [discriminate|]. cbn [on_majority_commit] in H. refold opt H.
  unfold get_ldr in H. rewrite Hl in H. cbn [obind] in H.
  unfold majority_match in H. rewrite HV, HN in H. change ((1 =? 1) && true) with true in H. cbv iota in H.
  cbn [obind] in H.
  apply N.ltb_lt in HC. apply N.leb_le in HS. rewrite HC, HS in H. cbn [andb] in H.
  apply wbind_inv in H. destruct H as (s1 & o1 & w2 & Ha & Hk & E). rewrite E.
  apply (lsci_quiet _ _ _ _ _ _ Hl HQ) in Ha. cbn [fst] in Ha. destruct Ha as [A1 A2].
  apply wbind_inv in Hk. destruct Hk as (s2 & o2 & w3 & Hb & Hk & E2). rewrite E2.
  apply K_leader_apply_committed in Hb. cbn [fst] in Hb.
  apply obind_inv in Hk. destruct Hk as (s3 & Hc & Hk). unfold wret in Hk. inversion Hk; subst w3. cbn [fst].
  apply K_notify_flr in Hc.
  apply K_fields in Hb. apply K_fields in Hc. destruct Hb as (B1 & B2 & _). destruct Hc as (C1 & C2 & _).
  split; congruence.
Qed.

Lemma single_voter_commits_alone :
  forall opt fuel s datas s' out l,
    st_ldr s = Some l -> ld_tr_active l = false -> ld_voter l = true -> ld_numvoters l = 1 -> datas <> [] ->
    ld_start l <= st_lastidx s + 1 -> st_commit s <= st_lastidx s ->
    is_stable (st_latest s) = true \/ (configs_committed s = true /\ ld_start l <= st_commit s) ->
    store_entry opt fuel s (map (fun d => mkNewReq entryUpdate d 0) datas) = Done (s', out) ->
    st_commit s' = st_lastidx s' /\ st_lastidx s' = st_lastidx s + N.of_nat (length datas).
Proof.
  intros opt fuel s datas s' out l Hl HT HV HN HD HS HC HQ H.
  destruct fuel as [|f]; [discriminate|]. cbn [store_entry] in H. refold opt H.
  match type of H with wbind (?L s _) _ = _ => set (loop := L) in H end.
  assert (HL : forall datas s w l, st_ldr s = Some l -> ld_tr_active l = false -> ld_voter l = true ->
             loop s (map (fun d => mkNewReq entryUpdate d 0) datas) = Done w ->
             K (fst w) = (st_commit s, st_lastidx s + N.of_nat (length datas), st_latest s, st_committed s,
                          Some (lkey l))).
  { clear. induction datas as [|d rest IH]; intros s w l Hl HT HV H.
    - cbn in H. inversion H; subst w. unfold K. cbn. rewrite Hl, N.add_0_r. reflexivity.
    - cbn [map] in H. unfold loop in H. cbn fix in H. fold loop in H.
      unfold get_ldr in H. rewrite Hl in H. cbn [obind] in H.
      unfold transfer_in_progress in H. rewrite HT, HV in H. cbn [negb nq_typ nq_data nq_tid] in H.
      change (is_log_entry entryUpdate) with true in H. change (entryUpdate =? entryConfig) with false in H.
      cbv iota in H.
      apply obind_inv in H. destruct H as (s2 & Ha & H).
      unfold append_entry in Ha. cbn [e_index e_term] in Ha.
      change (st_lastidx (put_ldr s ?x)) with (st_lastidx s) in Ha. rewrite N.eqb_refl in Ha.
      inversion Ha; subst s2; clear Ha.
      eapply IH in H; [|reflexivity|exact HT|exact HV].
      rewrite H.
      replace (N.of_nat (length (d :: rest))) with (1 + N.of_nat (length rest)) by (cbn [length]; lia).
      rewrite N.add_assoc. reflexivity. }
  apply wbind_inv in H. destruct H as (s1 & o1 & w2 & Ha & H & E).
  apply (HL _ _ _ _ Hl HT HV) in Ha. cbn [fst] in Ha. clear HL loop.
  apply obind_inv in H. destruct H as (l1 & _ & H).
  apply wbind_inv in H. destruct H as (s2 & o2 & w3 & Hb & H & E2).
  assert (K2 : K s2 = K s1).
  { destruct (ld_queue l1) as [|ne ?]; [inversion Hb; reflexivity|].
    destruct (negb _); [|inversion Hb; reflexivity].
    apply K_leader_apply_committed in Hb. exact Hb. }
  clear Hb. rewrite Ha in K2. clear Ha.
  assert (HLn : 1 <= N.of_nat (length datas)) by (destruct datas; [congruence | cbn [length]; lia]).
  assert (K2' := K2). unfold K in K2'. inversion K2' as [[C2 L2 T2 M2 O2]]. clear K2'.
  assert (EL : st_lastidx s <? st_lastidx s2 = true) by (apply N.ltb_lt; lia).
  rewrite EL in H.
  apply obind_inv in H. destruct H as (s4 & Hn & H).
  apply K_notify_flr in Hn. rewrite K_begin_finished_rounds, K2 in Hn.
  unfold K in Hn. inversion Hn as [[C4 L4 T4 M4 O4]]. clear Hn.
  apply obind_inv in H. destruct H as (l4 & Hl4 & H).
  unfold get_ldr in Hl4. destruct (st_ldr s4) as [l4'|] eqn:El4; [|discriminate]. inversion Hl4; subst l4'. clear Hl4.
  cbn [option_map] in O4. unfold lkey in O4. inversion O4 as [[V4 N4 S4 A4]]. clear O4.
  rewrite N4, V4, HN, HV in H. change ((1 =? 1) && true) with true in H. cbv iota in H.
  eapply omc_single in H; [| exact El4 | congruence | congruence | | lia | lia ].
  - destruct H as [R1 R2]. cbn [fst] in E. rewrite E, E2. split; lia.
  - unfold quiet. unfold configs_committed in *. rewrite T4, M4, C4, S4. exact HQ.
Qed.

(* ================================================================ why three statements of C17 carry an
   extra hypothesis: the statements as first written are false for the model *)
Module Refuted.
(* (1) single_voter_commits_alone without the last hypothesis: a single-voter leader that has not yet
   committed in its term and whose own node has a pending Demote.  The first commit of the term
   triggers checkConfigActions, which appends the demoting configuration: the log ends one entry
   after the client's, and that entry is not committed (the leader is no longer a voter). *)
Definition na := mkNode 1 [97] true [] ActDemote.
Definition nb := mkNode 2 [98] false [] 0.
Definition c0 := mkConfig [na; nb] 1 1.
Definition e1 := mkEntry 1 1 entryConfig (enc_config_data (c_nodes c0)).
Definition r2 := mkRepl 2 1 false false 0 None 0 1 2 1 0 false 1 None.
Definition l0 := mkLdr true true 1 2 [] [r2] false 0 0 false false 0 [] 0.
Definition s0 : nstate :=
  fresh_node 1 1 <| st_term := 2 |> <| st_log := [e1] |> <| st_flushed := 1 |> <| st_lastidx := 1 |> <| st_lastterm := 1 |>
    <| st_committed := c0 |> <| st_latest := c0 |> <| st_role := Leader |> <| st_leader := 1 |> <| st_commit := 1 |>
    <| st_fsmidx := 1 |> <| st_fsmterm := 1 |> <| st_ldr := Some l0 |>.
Definition opt0 := mkOptions false false false 0 0 [].

Theorem single_voter_unrepaired :
  st_ldr s0 = Some l0 /\ ld_tr_active l0 = false /\ ld_voter l0 = true /\ ld_numvoters l0 = 1 /\
  ld_start l0 <= st_lastidx s0 + 1 /\ st_commit s0 <= st_lastidx s0 /\
  exists s' out, store_entry opt0 FUEL s0 (map (fun d => mkNewReq entryUpdate d 0) [[7]]) = Done (s', out) /\
    st_commit s' = 2 /\ st_lastidx s' = 3 /\ st_lastidx s0 + N.of_nat (length [[7]]) = 2.
Proof.
  repeat (split; [first [reflexivity | (intros X; discriminate X)]|]).
  vm_compute. eexists. eexists. repeat split.
Qed.

(* (2) leader_stickiness_step without [st_closed s = false \/ st_role s = Follower]: a closed node
   that is not a follower runs the deferred release of its role on every step *)
Definition s1 : nstate :=
  fresh_node 1 1 <| st_role := Candidate |> <| st_leader := 2 |> <| st_closed := true |> <| st_cndtransfer := true |>.
Definition q1 := mkVoteReq 1 3 0 0 false.
Theorem stickiness_step_unrepaired :
  st_leader s1 <> 0 /\ vq_transfer q1 = false /\ vq_src q1 <> st_leader s1 /\
  exists o s', model_event opt0 s1 (EVoteReq q1) = Done (o, s') /\ st_cndtransfer s' = false /\ st_cndtransfer s1 = true.
Proof.
  repeat (split; [first [reflexivity | (intros X; discriminate X)]|]).
  vm_compute. eexists. eexists. repeat split.
Qed.

(* (3) timeout_starts_election without [st_closed s = false]: a closed follower that times out turns
   candidate but the loop returns before startElection runs *)
Definition c2 := mkConfig [mkNode 1 [97] true [] 0] 1 1.
Definition s2 : nstate := fresh_node 1 1 <| st_term := 1 |> <| st_latest := c2 |> <| st_committed := c2 |> <| st_closed := true |>.
Theorem timeout_unrepaired :
  st_role s2 = Follower /\ can_start_election s2 = true /\
  exists o s', model_event opt0 s2 ETimeout = Done (o, s') /\ st_term s' = st_term s2 /\ st_voted s' = 0.
Proof.
  repeat (split; [first [reflexivity | (intros X; discriminate X)]|]).
  vm_compute. eexists. eexists. repeat split.
Qed.
End Refuted.
