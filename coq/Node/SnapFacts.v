(* C12: snapshots are labelled with the right index, term and membership.
   Proofs for Props/C12.v.  Depends on the model files only. *)
From Coq Require Import List NArith ZArith Bool Lia.
From RecordUpdate Require Import RecordUpdate.
From Verif Require Import Base.Bytes Codec.Messages Node.Types Node.Handlers Node.Leader Node.Snap.
Import ListNotations.
Open Scope N_scope.

(* ---------------------------------------------------------------- the configuration in force *)
Definition is_config_entry (e : entry) : bool := e_typ e =? entryConfig.

(* configuration of the newest (= last in log order) config entry of [es], else [dflt].
   An entry of type entryConfig whose payload does not decode yields [dflt] as well; the
   handlers refuse to store such an entry (EDecode / EBug / unexpectedErr). *)
Definition newest_config (es : list entry) (dflt : config) : config :=
  match find is_config_entry (rev es) with
  | Some e => match config_of_entry e with Some c => c | None => dflt end
  | None => dflt
  end.

(* the configuration in force at index i: the newest config entry with
   st_snapidx s < index <= i, else the configuration of the snapshot *)
Definition config_at (s : nstate) (i : N) : config :=
  newest_config (filter (fun e => (st_snapidx s <? e_index e) && (e_index e <=? i)) (st_log s)) (st_snapcfg s).

(* the newest config entry above the snapshot, else the snapshot's *)
Definition newest_config_above_snapshot (s : nstate) : config :=
  newest_config (filter (fun e => st_snapidx s <? e_index e) (st_log s)) (st_snapcfg s).

Definition config_bookkeeping (s : nstate) : Prop := st_committed s = config_at s (st_commit s).

(* both readings of "newest above the snapshot" agree when no entry claims an index past the end *)
Lemma newest_config_above_snapshot_is_config_at_last s :
  (forall e, In e (st_log s) -> e_index e <= log_lastindex s) ->
  newest_config_above_snapshot s = config_at s (log_lastindex s).
Proof.
  intros H. unfold newest_config_above_snapshot, config_at. f_equal.
  apply filter_ext_in. intros e He. specialize (H e He). apply N.leb_le in H. rewrite H.
  rewrite andb_true_r. reflexivity.
Qed.

(* ---------------------------------------------------------------- inversion *)
Lemma obind_inv {A B} (o : outcome A) (k : A -> outcome B) r :
  obind o k = Done r -> exists a, o = Done a /\ k a = Done r.
Proof. destruct o; cbn; [eauto | discriminate]. Qed.

(* ---------------------------------------------------------------- taking a snapshot *)
Theorem snapshot_captures_fsm_position_and_committed_config :
  forall s tid th s' out rq, on_take_snapshot s tid th = Done (s', out) -> st_snapbusy s = false ->
    st_snapreq s' = Some rq ->
    sr_index rq = st_fsmidx s /\ sr_term rq = st_fsmterm s /\ sr_config rq = st_committed s /\ sr_tid rq = tid.
Proof.
  intros s tid th s' out rq H Hb Hr. unfold on_take_snapshot in H. rewrite Hb in H.
  unfold wret in H. inversion H; subst. cbn in Hr. inversion Hr; subst. cbn. auto.
Qed.

Theorem published_label_is_the_captured_one :
  forall s s' rq, snapshot_run s = Done s' -> st_snapreq s = Some rq -> sr_done rq = SnapPending ->
    (st_snapidx s < sr_index rq ->
       st_snapidx s' = sr_index rq /\ st_snapterm s' = sr_term rq /\ st_snapcfg s' = sr_config rq) /\
    (sr_index rq <= st_snapidx s ->
       st_snapidx s' = st_snapidx s /\ st_snapterm s' = st_snapterm s /\ st_snapcfg s' = st_snapcfg s).
Proof.
  intros s s' rq H Hr Hd. unfold snapshot_run in H. rewrite Hr, Hd in H. inversion H; subst. clear H.
  split; intros Hlt.
  - apply N.ltb_lt in Hlt. rewrite Hlt. cbn. auto.
  - apply N.ltb_ge in Hlt. rewrite Hlt. cbn. auto.
Qed.

Theorem label_config_in_force :
  forall s tid th s' out rq,
    config_bookkeeping s -> st_fsmidx s = st_commit s ->
    on_take_snapshot s tid th = Done (s', out) -> st_snapbusy s = false -> st_snapreq s' = Some rq ->
    sr_config rq = config_at s (sr_index rq).
Proof.
  intros s tid th s' out rq Hbk Hf H Hb Hr.
  destruct (snapshot_captures_fsm_position_and_committed_config _ _ _ _ _ _ H Hb Hr) as (H1 & _ & H3 & _).
  rewrite H1, H3, Hf. exact Hbk.
Qed.

(* ---------------------------------------------------------------- restart: the scan of the log *)
Definition from_config_entry (es : list entry) (c : config) : Prop :=
  exists e, In e es /\ e_typ e = entryConfig /\ config_of_entry e = Some c.

Lemma scan_configs_spec es : forall acc l, scan_configs es acc = Done l ->
  exists extra, l = acc ++ extra /\ Forall (from_config_entry es) extra /\
    match acc with
    | _ :: _ :: _ => extra = []
    | _ => match extra with
           | [] => find is_config_entry es = None
           | c :: _ => exists e, find is_config_entry es = Some e /\ config_of_entry e = Some c
           end
    end.
Proof.
  induction es as [|e r IH]; intros acc l H.
  - cbn in H. injection H as <-. exists []. rewrite app_nil_r. split; [reflexivity|]. split; [constructor|].
    destruct acc as [|a [|b acc]]; reflexivity.
  - assert (Hmono : forall c, from_config_entry r c -> from_config_entry (e :: r) c).
    { intros c (e0 & Hin & Ht & Hc). exists e0. split; [right; exact Hin | auto]. }
    assert (Hshort : forall acc, (match acc with _ :: _ :: _ => False | _ => True end) ->
              forall l, (if e_typ e =? entryConfig then
                           match config_of_entry e with
                           | Some c => scan_configs r (acc ++ [c])
                           | None => Err EDecode
                           end
                         else scan_configs r acc) = Done l ->
              exists extra, l = acc ++ extra /\ Forall (from_config_entry (e :: r)) extra /\
                match extra with
                | [] => find is_config_entry (e :: r) = None
                | c :: _ => exists e0, find is_config_entry (e :: r) = Some e0 /\ config_of_entry e0 = Some c
                end).
    { clear H acc l. intros acc Hacc l H. cbn [find]. unfold is_config_entry at 1 3.
      destruct (e_typ e =? entryConfig) eqn:Et.
      - destruct (config_of_entry e) as [c|] eqn:Ec; [|discriminate].
        apply IH in H. destruct H as (extra & -> & HF & _).
        exists (c :: extra). rewrite <- app_assoc. split; [reflexivity|]. split.
        + constructor.
          * exists e. split; [left; reflexivity|]. split; [apply N.eqb_eq; exact Et | exact Ec].
          * eapply Forall_impl; [|exact HF]. exact Hmono.
        + exists e. auto.
      - apply IH in H. destruct H as (extra & -> & HF & Hfirst).
        exists extra. split; [reflexivity|]. split.
        + eapply Forall_impl; [|exact HF]. exact Hmono.
        + destruct acc as [|a [|b acc]]; [exact Hfirst | exact Hfirst | destruct Hacc]. }
    cbn [scan_configs] in H.
    destruct acc as [|a [|b acc]].
    + destruct (Hshort [] I l H) as (extra & E1 & E2 & E3). exists extra. auto.
    + destruct (Hshort [a] I l H) as (extra & E1 & E2 & E3). exists extra. auto.
    + inversion H; subst. exists []. rewrite app_nil_r. split; [reflexivity|]. split; [constructor | reflexivity].
Qed.

Lemma open_configs_spec s cm lt :
  open_configs s = Done (cm, lt) ->
  lt = newest_config_above_snapshot s /\
  (cm = st_snapcfg s \/ exists e, In e (st_log s) /\ e_typ e = entryConfig /\ config_of_entry e = Some cm).
Proof.
  unfold open_configs. intros H.
  apply obind_inv in H. destruct H as (l & Hs & H).
  apply scan_configs_spec in Hs. destruct Hs as (extra & E1 & HF & Hfirst). cbn in E1. subst l.
  unfold newest_config_above_snapshot, newest_config.
  destruct extra as [|c1 [|c2 rest]].
  - inversion H; subst. rewrite Hfirst. auto.
  - inversion H; subst. destruct Hfirst as (e & -> & ->). auto.
  - inversion H; subst. destruct Hfirst as (e & -> & ->). split; [reflexivity|]. right.
    inversion HF as [|? ? _ HF2]; subst. inversion HF2 as [|? ? (e2 & Hin & Ht & Hc) _]; subst.
    exists e2. split; [|auto].
    apply in_rev in Hin. apply filter_In in Hin. exact (proj1 Hin).
Qed.

Theorem membership_after_restart :
  forall s keep s', restart s keep = Done s' ->
    st_latest s' = newest_config_above_snapshot s' /\
    (st_committed s' = st_snapcfg s' \/ exists e, In e (st_log s') /\ e_typ e = entryConfig /\ config_of_entry e = Some (st_committed s')).
Proof.
  intros s keep s' H. unfold restart in H. cbv zeta in H.
  destruct (negb _); [discriminate|].
  apply obind_inv in H. destruct H as ([cm lt] & Ho & H).
  apply open_configs_spec in Ho. destruct Ho as (Hlt & Hcm).
  cbn [fst snd] in H.
  destruct (0 <? _) in H; inversion H; subst s'; clear H;
    unfold newest_config_above_snapshot in *; cbn in *; auto.
Qed.

(* ---------------------------------------------------------------- installing a snapshot *)
Theorem install_adopts_label :
  forall s q np s', on_install_snap_request s q np = Done (success, s') -> st_term s <= sq_term q ->
    st_snapidx s < sq_lastidx q ->
    st_snapidx s' = sq_lastidx q /\ st_snapterm s' = sq_lastterm q /\ st_snapcfg s' = sq_config q /\
    ((st_log s' = [] /\ st_latest s' = sq_config q /\ st_committed s' = sq_config q /\ st_commit s' = sq_lastidx q)
     \/ (st_latest s' = st_latest s /\ st_committed s' = st_committed s /\ st_commit s' = st_commit s)).
Proof.
  intros s q np s' H Ht Hi. unfold on_install_snap_request in H.
  apply N.ltb_ge in Ht. rewrite Ht in H.
  apply obind_inv in H. destruct H as (s0 & H0 & H).
  assert (F0 : st_snapidx s0 = st_snapidx s /\ st_latest s0 = st_latest s /\ st_committed s0 = st_committed s /\
               st_commit s0 = st_commit s).
  { unfold set_term in H0. destruct (_ =? _); [inversion H0; subst; auto|].
    destruct (_ <? _); [|discriminate]. inversion H0; subst. cbn. auto. }
  destruct F0 as (F1 & F2 & F3 & F4).
  cbn [st_snapidx set_leader set_role set] in H.
  change (st_snapidx (set_leader (set_role s0 Follower) (sq_src q))) with (st_snapidx s0) in H.
  rewrite F1 in H. apply N.leb_gt in Hi. rewrite Hi in H.
  match type of H with (if ?k then _ else _) = _ => destruct k end.
  - destruct (_ && _); [|discriminate]. inversion H; subst s'. clear H.
    cbn. split; [reflexivity|]. split; [reflexivity|]. split; [reflexivity|]. right. auto.
  - inversion H; subst s'. clear H.
    unfold commit_config, change_config.
    repeat match goal with |- context [if ?b then _ else _] => destruct b end;
      cbn; (split; [reflexivity|]); (split; [reflexivity|]); (split; [reflexivity|]); left; auto.
Qed.
