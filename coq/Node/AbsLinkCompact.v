(* Node/AbsLinkCompact.v  Theorems A, B, D of Node/AbsLink.v for COMPACTED logs.
   The physical log holds indices p+1 .. st_lastidx (p = st_logprev), a snapshot sits at
   st_snapidx >= p; the abstract (logical) log is a ghost prefix G of length p followed by the
   abstraction of the physical log. *)
From Coq Require Import List NArith ZArith Bool Lia Arith.
From RecordUpdate Require Import RecordUpdate.
From Verif Require Import Base.Bytes Codec.Messages Node.Types Node.Handlers.
From Verif Require Import Node.InfoInvDefs Node.AbsLink.
From Verif Require Abs.RaftBase Abs.CfgBase Abs.CfgRaft.
Import ListNotations.
Open Scope N_scope.

Section Compact.
Variable pay : entry -> CfgBase.payload.
Variable p : N.                       (* st_logprev *)
Variable G : list CfgBase.entry.      (* what compaction removed *)
Hypothesis G_len : length G = N.to_nat p.

Notation absE := (abs_entry pay).
Definition abs_logical (s : nstate) : list CfgBase.entry := G ++ map absE (st_log s).

Record wf_log_at (s : nstate) : Prop := mkWfAt {
  wa_prev : st_logprev s = p;
  wa_idx : idx_from p (st_log s);
  wa_last : st_lastidx s = p + N.of_nat (length (st_log s));
  wa_lterm : st_log s <> [] -> st_lastterm s = last_term (st_log s);
  wa_fl : st_flushed s <= st_lastidx s;
  wa_snap : p <= st_snapidx s /\ st_snapidx s <= st_lastidx s
}.

Lemma wfa_K s s' : K s' = K s -> wf_log_at s -> wf_log_at s'.
Proof.
  intros H W. apply K_fields in H. destruct H as (_ & Hp & Hl & Hf & Hi & Ht & Hs).
  destruct W. constructor; rewrite ?Hp, ?Hl, ?Hf, ?Hi, ?Ht, ?Hs; assumption.
Qed.
Lemma wfa_KL s s' : KL s' = KL s -> wf_log_at s -> wf_log_at s'.
Proof.
  intros H W. apply KL_fields in H. destruct H as (Hp & Hl & Hf & Hi & Ht & Hs).
  destruct W. constructor; rewrite ?Hp, ?Hl, ?Hf, ?Hi, ?Ht, ?Hs; assumption.
Qed.
Lemma absl_KL s s' : KL s' = KL s -> abs_logical s' = abs_logical s.
Proof. intros H. apply KL_fields in H. unfold abs_logical. destruct H as (_ & -> & _). reflexivity. Qed.

Lemma absl_length s : wf_log_at s -> length (abs_logical s) = N.to_nat (st_lastidx s).
Proof. intros W. unfold abs_logical. rewrite app_length, map_length, G_len, (wa_last _ W). lia. Qed.

(* the logical entry at position n >= p (from 0) is the physical one at n - p *)
Lemma absl_nth s n e : (N.to_nat p <= n)%nat -> nth_error (st_log s) (n - N.to_nat p) = Some e ->
  nth_error (abs_logical s) n = Some (absE e).
Proof.
  intros L H. unfold abs_logical. rewrite nth_error_app2 by lia. rewrite G_len.
  apply map_nth_error. exact H.
Qed.

Lemma absl_firstn s n : (N.to_nat p <= n)%nat ->
  firstn n (abs_logical s) = G ++ map absE (firstn (n - N.to_nat p) (st_log s)).
Proof.
  intros L. unfold abs_logical. rewrite firstn_app, firstn_all2 by lia. rewrite G_len, firstn_map. reflexivity.
Qed.

Ltac splits := repeat match goal with |- _ /\ _ => split end.

Lemma idxf_snoc l e : idx_from p l -> e_index e = p + N.of_nat (length l) + 1 -> idx_from p (l ++ [e]).
Proof.
  intros I E k x H. destruct (Nat.lt_ge_cases k (length l)) as [L|L].
  - rewrite nth_error_app1 in H by assumption. apply I; assumption.
  - rewrite nth_error_app2 in H by assumption.
    destruct (k - length l)%nat eqn:D; cbn in H.
    + inversion H; subst x. replace k with (length l) by lia. lia.
    + destruct n; discriminate.
Qed.

Lemma idxf_firstn l n : idx_from p l -> idx_from p (firstn n l).
Proof.
  intros I k e H. apply I.
  assert (k < length (firstn n l))%nat by (apply nth_error_Some; congruence).
  rewrite firstn_length in H0.
  rewrite <- (firstn_skipn n l) at 1. rewrite nth_error_app1; [assumption|].
  rewrite firstn_length. lia.
Qed.

Lemma append_wfa s e s' :
  st_logprev s = p -> idx_from p (st_log s) -> st_lastidx s = p + N.of_nat (length (st_log s)) ->
  st_flushed s <= st_lastidx s -> p <= st_snapidx s /\ st_snapidx s <= st_lastidx s ->
  append_entry s e = Done s' ->
  wf_log_at s' /\ st_log s' = st_log s ++ [e] /\ st_term s' = st_term s /\ st_commit s' = st_commit s /\
  st_flushed s' = st_flushed s /\ st_lastidx s' = st_lastidx s + 1 /\
  st_snapidx s' = st_snapidx s /\ e_index e = st_lastidx s + 1.
Proof.
  intros P I L F [S1 S2]. unfold append_entry.
  destruct (N.eqb_spec (e_index e) (st_lastidx s + 1)) as [E|]; [|discriminate].
  intros H; inversion H; subst s'; clear H. cbn.
  splits; try reflexivity; try assumption.
  constructor; cbn; try assumption; try lia.
  - apply idxf_snoc; [assumption|lia].
  - rewrite app_length. cbn. lia.
  - intros _. symmetry. apply (last_term_snoc pay).
Qed.

Lemma consume_appenda es : forall s index term sync s' i t sy,
  wf_log_at s -> consec (st_lastidx s) es -> index = st_lastidx s ->
  consume_entries s es index term sync = Done (s', i, t, sy, false) ->
  wf_log_at s' /\ st_log s' = st_log s ++ es /\ st_term s' = st_term s /\
  st_commit s' = st_commit s /\ st_snapidx s' = st_snapidx s /\ i = st_lastidx s' /\
  st_lastidx s' = st_lastidx s + N.of_nat (length es) /\ (es <> [] -> sy = true) /\ (es = [] -> sy = sync).
Proof.
  induction es as [|ne rest IH]; intros s index term sync s' i t sy W C Ei H.
  - cbn in H. inversion H; subst. rewrite app_nil_r. cbn. splits; try assumption; try reflexivity; try lia. congruence.
  - destruct C as [C1 C2]. pose proof W as [Wp Wi Wl Wt Wf [Ws1 Ws2]]. cbn [consume_entries] in H.
    destruct (N.leb_spec (e_index ne) (st_snapidx s)) as [X|_]; [lia|].
    destruct (N.leb_spec (e_index ne) (st_lastidx s)) as [X|_]; [lia|].
    cbn [obind] in H. apply obind_inv in H. destruct H as (s2 & A & H).
    destruct (append_wfa _ _ _ Wp Wi Wl Wf (conj Ws1 Ws2) A) as (W2 & L2 & T2 & Cm2 & F2 & I2 & S2 & E2).
    assert (forall sc, K sc = K s2 -> st_commit sc = st_commit s2 ->
              consume_entries sc rest (e_index ne) (e_term ne) true = Done (s', i, t, sy, false) ->
              wf_log_at s' /\ st_log s' = st_log s ++ ne :: rest /\ st_term s' = st_term s /\
              st_commit s' = st_commit s /\ st_snapidx s' = st_snapidx s /\ i = st_lastidx s' /\
              st_lastidx s' = st_lastidx s + N.of_nat (length (ne :: rest)) /\ sy = true) as Fin.
    { intros sc Kc Cc Hc. pose proof (K_fields _ _ Kc) as (k1 & k2 & k3 & k4 & k5 & k6 & k7).
      apply IH in Hc.
      - destruct Hc as (a1 & a3 & a4 & a5 & a6 & a7 & a8 & a9 & a10).
        splits; try assumption; try congruence.
        + rewrite a3, k3, L2, <- app_assoc. reflexivity.
        + rewrite a8, k5, I2. cbn [length]. lia.
        + destruct rest; [apply a10; reflexivity | apply a9; discriminate].
      - eapply wfa_K; eassumption.
      - rewrite k5, I2, <- E2. assumption.
      - rewrite k5, I2, <- E2. reflexivity. }
    destruct (e_typ ne =? entryConfig).
    + destruct (config_of_entry ne) as [c|]; [|discriminate].
      destruct (Fin _ (K_change_config _ _) (commit_change_config _ _) H) as (a1&a3&a4&a5&a6&a7&a8&a9).
      splits; try assumption; try discriminate. intros _; assumption.
    + destruct (Fin s2 eq_refl eq_refl H) as (a1&a3&a4&a5&a6&a7&a8&a9).
      splits; try assumption; try discriminate. intros _; assumption.
Qed.

Lemma tail_stepa s2 ne rest s' i t sy :
  wf_log_at s2 -> e_index ne = st_lastidx s2 -> consec (e_index ne) rest ->
  (if e_typ ne =? entryConfig
   then match config_of_entry ne with
        | Some c => consume_entries (change_config s2 c) rest (e_index ne) (e_term ne) true
        | None => Done (s2, e_index ne, e_term ne, true, true)
        end
   else consume_entries s2 rest (e_index ne) (e_term ne) true) = Done (s', i, t, sy, false) ->
  wf_log_at s' /\ st_log s' = st_log s2 ++ rest /\ st_term s' = st_term s2 /\
  st_commit s' = st_commit s2 /\ st_snapidx s' = st_snapidx s2 /\ i = st_lastidx s' /\
  st_lastidx s' = st_lastidx s2 + N.of_nat (length rest) /\ sy = true.
Proof.
  intros W E C H.
  assert (forall sc, K sc = K s2 -> st_commit sc = st_commit s2 ->
            consume_entries sc rest (e_index ne) (e_term ne) true = Done (s', i, t, sy, false) ->
            wf_log_at s' /\ st_log s' = st_log s2 ++ rest /\ st_term s' = st_term s2 /\
            st_commit s' = st_commit s2 /\ st_snapidx s' = st_snapidx s2 /\ i = st_lastidx s' /\
            st_lastidx s' = st_lastidx s2 + N.of_nat (length rest) /\ sy = true) as Fin.
  { intros sc Kc Cc Hc. pose proof (K_fields _ _ Kc) as (k1 & k2 & k3 & k4 & k5 & k6 & k7).
    apply consume_appenda in Hc.
    - destruct Hc as (a1 & a3 & a4 & a5 & a6 & a7 & a8 & a9 & a10).
      splits; try assumption; try congruence.
      destruct rest; [apply a10; reflexivity | apply a9; discriminate].
    - eapply wfa_K; eassumption.
    - rewrite k5, <- E. assumption.
    - rewrite k5. assumption. }
  destruct (e_typ ne =? entryConfig).
  - destruct (config_of_entry ne) as [c|]; [|discriminate].
    apply (Fin _ (K_change_config _ _) (commit_change_config _ _) H).
  - apply (Fin s2 eq_refl eq_refl H).
Qed.

Lemma trunc_stepa s k pt s1 :
  wf_log_at s -> st_snapidx s <= k -> k < st_lastidx s -> remove_gte s (k + 1) pt = Done s1 ->
  forall s1', (s1' = s1 \/ s1' = revert_config s1) ->
  st_logprev s1' = p /\ idx_from p (st_log s1') /\
  st_lastidx s1' = p + N.of_nat (length (st_log s1')) /\
  st_flushed s1' <= st_lastidx s1' /\ st_log s1' = firstn (N.to_nat k - N.to_nat p) (st_log s) /\
  st_lastidx s1' = k /\ st_term s1' = st_term s /\ st_commit s1' = st_commit s /\
  st_snapidx s1' = st_snapidx s.
Proof.
  intros [Wp Wi Wl Wt Wf [Ws1 Ws2]] Sk Lt H s1' Hs.
  unfold remove_gte in H. destruct (_ && _); [|discriminate]. inversion H; subst s1; clear H.
  assert (E : N.to_nat (k + 1 - st_logprev s - 1) = (N.to_nat k - N.to_nat p)%nat) by lia.
  destruct Hs as [-> | ->]; cbn; rewrite E; (splits; try reflexivity; try lia;
    [apply idxf_firstn; assumption | rewrite firstn_length; lia]).
Qed.

Lemma finish_appenda s s2 ne rest n s' i t sy :
  wf_log_at s2 -> (N.to_nat p <= n)%nat ->
  st_log s2 = firstn (n - N.to_nat p) (st_log s) ++ [ne] -> (n <= length (abs_logical s))%nat ->
  e_index ne = st_lastidx s2 -> e_index ne = N.of_nat n + 1 -> consec (e_index ne) rest ->
  nth_error (abs_logical s) n <> Some (absE ne) ->
  CfgBase.merge (skipn n (abs_logical s)) (map absE (ne :: rest)) = map absE (ne :: rest) ->
  (if e_typ ne =? entryConfig
   then match config_of_entry ne with
        | Some c => consume_entries (change_config s2 c) rest (e_index ne) (e_term ne) true
        | None => Done (s2, e_index ne, e_term ne, true, true)
        end
   else consume_entries s2 rest (e_index ne) (e_term ne) true) = Done (s', i, t, sy, false) ->
  wf_log_at s' /\
  abs_logical s' = CfgBase.recv_log (abs_logical s) n (map absE (ne :: rest)) /\
  st_term s' = st_term s2 /\ st_commit s' = st_commit s2 /\ st_snapidx s' = st_snapidx s2 /\
  i = N.of_nat n + N.of_nat (length (ne :: rest)) /\
  sy = true /\ abs_logical s' <> abs_logical s /\ st_lastidx s' = i.
Proof.
  intros W2 Pn L2 Ln E1 E2 C Nn M H.
  destruct (tail_stepa _ _ _ _ _ _ _ W2 E1 C H) as (a1&a3&a4&a5&a6&a7&a8&a9).
  assert (AL : abs_logical s' = firstn n (abs_logical s) ++ map absE (ne :: rest)).
  { rewrite (absl_firstn s n Pn). unfold abs_logical. rewrite a3, L2, !map_app. cbn [map]. rewrite <- !app_assoc.
    reflexivity. }
  splits; try assumption.
  - rewrite AL. unfold CfgBase.recv_log. rewrite M. reflexivity.
  - cbn [length]. lia.
  - intro Eq. apply Nn. rewrite <- Eq, AL. cbn [map]. apply nth_firstn_app. assumption.
  - cbn [length]. lia.
Qed.

Lemma log_get_at s j : st_logprev s = p -> p < j ->
  log_get s j = nth_error (st_log s) (N.to_nat j - 1 - N.to_nat p).
Proof.
  intros P H. unfold log_get. rewrite P. destruct (N.ltb_spec p j); [|lia]. f_equal. lia.
Qed.

(* the request agrees (in terms) with the logical log wherever the snapshot covers it *)
Definition agree_snap (s : nstate) (es : list entry) : Prop :=
  forall e x, In e es -> e_index e <= st_snapidx s ->
    nth_error (abs_logical s) (N.to_nat (e_index e) - 1) = Some x -> CfgBase.eterm x = e_term e.

Lemma consume_mergea es : forall s index term s' i t sy,
  wf_log_at s -> consec index es -> index <= st_lastidx s -> agree_snap s es ->
  consume_entries s es index term false = Done (s', i, t, sy, false) ->
  wf_log_at s' /\
  abs_logical s' = CfgBase.recv_log (abs_logical s) (N.to_nat index) (map absE es) /\
  st_term s' = st_term s /\ st_commit s' = st_commit s /\ st_snapidx s' = st_snapidx s /\
  i = index + N.of_nat (length es) /\
  ((sy = false /\ s' = s) \/ (sy = true /\ abs_logical s' <> abs_logical s /\ st_lastidx s' = i)).
Proof.
  induction es as [|ne rest IH]; intros s index term s' i t sy W C Le Ag H.
  - cbn in H. inversion H; subst. splits; auto.
    + unfold CfgBase.recv_log. cbn [map CfgBase.merge]. rewrite firstn_skipn. reflexivity.
    + cbn; lia.
  - destruct C as [C1 C2]. pose proof W as [Wp Wi Wl Wt Wf [Ws1 Ws2]].
    pose proof (absl_length s W) as LL.
    assert (Ag' : agree_snap s rest) by (intros e x I; apply Ag; right; exact I).
    cbn [consume_entries] in H.
    set (n := N.to_nat index).
    assert (En : e_index ne = N.of_nat n + 1) by lia.
    destruct (N.leb_spec (e_index ne) (st_snapidx s)) as [Sk|Sk].
    { (* covered by the snapshot: skipped *)
      destruct (nth_error (abs_logical s) n) as [x|] eqn:Gx.
      2:{ apply nth_error_None in Gx. lia. }
      assert (Tx : CfgBase.eterm x = e_term ne).
      { apply (Ag ne x (or_introl eq_refl) Sk). replace (N.to_nat (e_index ne) - 1)%nat with n by lia. exact Gx. }
      apply IH in H; try assumption; [|lia].
      destruct H as (a1&a3&a4&a5&a6&a7&a8). splits; try assumption.
      - rewrite a3. unfold CfgBase.recv_log. cbn [map].
        replace (N.to_nat (e_index ne)) with (S n) by lia.
        symmetry. apply merge_match with (x := x); [assumption|]. cbn. auto.
      - cbn [length]. lia. }
    assert (Pn : (N.to_nat p <= n)%nat) by lia.
    destruct (N.leb_spec (e_index ne) (st_lastidx s)) as [In|Out].
    + rewrite (log_get_at s _ Wp) in H by lia.
      replace (N.to_nat (e_index ne) - 1 - N.to_nat p)%nat with (n - N.to_nat p)%nat in H by lia.
      destruct (nth_error (st_log s) (n - N.to_nat p)) as [me|] eqn:Gm.
      2:{ apply nth_error_None in Gm. lia. }
      pose proof (Wi _ _ Gm) as Ime. pose proof (absl_nth s n me Pn Gm) as Ga.
      destruct (N.eqb_spec (e_index me) (e_index ne)); [|lia].
      destruct (N.eqb_spec (e_term me) (e_term ne)) as [Te|Tn].
      * cbn [obind] in H. apply IH in H; try assumption.
        destruct H as (a1&a3&a4&a5&a6&a7&a8). splits; try assumption.
        -- rewrite a3. unfold CfgBase.recv_log. cbn [map].
           replace (N.to_nat (e_index ne)) with (S n) by lia.
           symmetry. apply merge_match with (x := absE me); [assumption|]. cbn. auto.
        -- cbn [length]. lia.
      * apply obind_inv in H. destruct H as (r & H1 & H).
        apply obind_inv in H1. destruct H1 as (s1 & R & H1). inversion H1; subst r; clear H1.
        apply obind_inv in H. destruct H as (s2 & A & H).
        set (s1' := if e_index ne <=? c_index (st_latest s1) then revert_config s1 else s1) in *.
        rewrite C1 in R.
        assert (Hs : s1' = s1 \/ s1' = revert_config s1) by (unfold s1'; destruct (_ <=? _); auto).
        assert (Sk' : st_snapidx s <= index) by lia. assert (Lt : index < st_lastidx s) by lia.
        destruct (trunc_stepa _ _ _ _ W Sk' Lt R s1' Hs) as (b0&b1&b2&b3&b4&b5&b6&b7&b8).
        assert (SS : p <= st_snapidx s1' /\ st_snapidx s1' <= st_lastidx s1') by lia.
        destruct (append_wfa _ _ _ b0 b1 b2 b3 SS A) as (W2 & L2 & T2 & Cm2 & F2 & I2 & S2 & E2).
        eapply finish_appenda with (s := s) (n := n) in H; try eassumption.
        -- destruct H as (a1&a3&a4&a5&a6&a7&a8&a9&a10).
           splits; try assumption; try congruence; try lia. right; splits; congruence.
        -- rewrite L2, b4. reflexivity.
        -- lia.
        -- lia.
        -- rewrite Ga. intro Q. inversion Q. congruence.
        -- cbn [map]. apply merge_mismatch with (x := absE me); [assumption|]. cbn. congruence.
    + cbn [obind] in H. apply obind_inv in H. destruct H as (s2 & A & H).
      destruct (append_wfa _ _ _ Wp Wi Wl Wf (conj Ws1 Ws2) A) as (W2 & L2 & T2 & Cm2 & F2 & I2 & S2 & E2).
      eapply finish_appenda with (s := s) (n := n) in H; try eassumption.
      * destruct H as (a1&a3&a4&a5&a6&a7&a8&a9&a10).
        splits; try assumption; try congruence; try lia. right; splits; congruence.
      * rewrite L2. replace (n - N.to_nat p)%nat with (length (st_log s)) by lia. rewrite firstn_all. reflexivity.
      * lia.
      * lia.
      * intro Q. assert (n < length (abs_logical s))%nat by (apply nth_error_Some; congruence). lia.
      * cbn [map]. apply merge_beyond. lia.
Qed.

Lemma node_prev_term_absa s j : wf_log_at s -> st_snapidx s < j -> j <= st_lastidx s ->
  node_prev_term s j = Some (CfgBase.term_at (abs_logical s) (N.to_nat j)).
Proof.
  intros [Wp Wi Wl Wt Wf [Ws1 Ws2]] P0 P1. unfold node_prev_term.
  destruct (nth_error (st_log s) (N.to_nat j - 1 - N.to_nat p)) as [e|] eqn:Ge.
  2:{ apply nth_error_None in Ge. lia. }
  assert (TA : CfgBase.term_at (abs_logical s) (N.to_nat j) = e_term e).
  { replace (N.to_nat j) with (S (N.to_nat j - 1)) by lia.
    apply (CfgBase.term_at_nth _ _ (absE e)). apply absl_nth; [lia|exact Ge]. }
  rewrite TA. destruct (N.eqb_spec j (st_lastidx s)) as [E|E].
  - rewrite Wt by (intro Z; rewrite Z in Wl; cbn in Wl; lia). unfold last_term.
    replace (pred (length (st_log s))) with (N.to_nat j - 1 - N.to_nat p)%nat by lia.
    rewrite Ge. reflexivity.
  - rewrite (log_get_at s j Wp) by lia. rewrite Ge. pose proof (Wi _ _ Ge).
    destruct (N.eqb_spec (e_index e) j); [reflexivity|lia].
Qed.

Lemma prev_check_inva sor s1 q pc : wf_log_at s1 ->
  (aq_previdx q <= st_snapidx s1 ->
     CfgRaft.prev_ok (abs_logical s1) (N.to_nat (aq_previdx q)) (aq_prevterm q) = true) ->
  prev_check_of sor s1 q = Done pc ->
  (pc = (Some prevEntryNotFound, s1) /\ st_lastidx s1 < aq_previdx q) \/
  (pc = (Some prevTermMismatch, s1) /\ 0 < aq_previdx q /\ aq_previdx q <= st_lastidx s1 /\
     CfgBase.term_at (abs_logical s1) (N.to_nat (aq_previdx q)) <> aq_prevterm q) \/
  (exists s2, pc = (None, s2) /\ K s2 = K s1 /\
     CfgRaft.prev_ok (abs_logical s1) (N.to_nat (aq_previdx q)) (aq_prevterm q) = true /\
     aq_previdx q <= st_lastidx s1 /\
     (st_commit s2 = st_commit s1 \/
      (st_commit s2 = aq_previdx q /\ st_commit s1 < aq_previdx q /\ aq_previdx q <= aq_commit q /\
       aq_prevterm q = aq_term q))).
Proof.
  intros W Hp H. pose proof W as [Wp Wi Wl Wt Wf [Ws1 Ws2]]. unfold prev_check_of in H.
  destruct (N.ltb_spec (st_snapidx s1) (aq_previdx q)) as [P0|P0].
  2:{ inversion H; subst pc. right; right. exists s1. splits; auto; lia. }
  destruct (N.ltb_spec (st_lastidx s1) (aq_previdx q)) as [P1|P1].
  { inversion H; subst pc. left. auto. }
  rewrite (node_prev_term_absa s1 _ W P0 P1) in H.
  set (ta := CfgBase.term_at (abs_logical s1) (N.to_nat (aq_previdx q))) in *.
  destruct (N.eqb_spec (aq_prevterm q) ta) as [E|E]; cbn [negb] in H.
  2:{ inversion H; subst pc. right; left. splits; auto. lia. }
  assert (PO : CfgRaft.prev_ok (abs_logical s1) (N.to_nat (aq_previdx q)) (aq_prevterm q) = true).
  { unfold CfgRaft.prev_ok. apply orb_true_iff. right. apply andb_true_iff. split.
    - apply Nat.leb_le. rewrite (absl_length s1 W). lia.
    - fold ta. apply N.eqb_eq. congruence. }
  right; right.
  destruct (can_commit s1 q (aq_previdx q) (aq_prevterm q)) eqn:CC.
  - apply can_commit_inv in CC. destruct CC as (c1 & c2 & c3).
    apply obind_inv in H. destruct H as (s2 & CA & H). inversion H; subst pc.
    apply K_commit_and_apply in CA. destruct CA as [k1 k2].
    exists s2. splits; auto.
  - inversion H; subst pc. exists s1. splits; auto.
Qed.

Lemma finish_inva sor q s3 i t sy df code s4 : wf_log_at s3 ->
  finish_of sor q (s3, i, t, sy, df) = Done (code, s4) ->
  code = (if df then unexpectedErr else success) /\
  if sy && has_entries q then
    st_term s4 = st_term s3 /\ st_logprev s4 = st_logprev s3 /\ st_log s4 = st_log s3 /\
    st_lastidx s4 = st_lastidx s3 /\ st_lastterm s4 = st_lastterm s3 /\ st_snapidx s4 = st_snapidx s3 /\
    st_flushed s4 = st_lastidx s3 /\
    (st_commit s4 = st_commit s3 \/ (st_commit s4 = i /\ i <= aq_commit q /\ st_commit s3 < i))
  else s4 = s3.
Proof.
  intros [Wp Wi Wl Wt Wf [Ws1 Ws2]] H. unfold finish_of in H. fold (has_entries q) in H.
  apply obind_inv in H. destruct H as (x & H & E). inversion E; subst x code; clear E.
  split; [reflexivity|]. destruct (sy && has_entries q).
  2:{ inversion H; reflexivity. }
  cbv zeta in H. set (s3f := commit_log s3 (st_lastidx s3)) in *.
  assert (F : st_flushed s3f = st_lastidx s3).
  { unfold s3f, commit_log, log_lastindex. cbn. lia. }
  assert (KK : st_term s3f = st_term s3 /\ st_logprev s3f = st_logprev s3 /\ st_log s3f = st_log s3 /\
    st_lastidx s3f = st_lastidx s3 /\ st_lastterm s3f = st_lastterm s3 /\ st_snapidx s3f = st_snapidx s3 /\
    st_commit s3f = st_commit s3) by (splits; reflexivity).
  destruct KK as (k1&k2&k3&k4&k5&k6&k7).
  destruct (can_commit s3f q i t) eqn:CC.
  - apply can_commit_inv in CC. destruct CC as (c1&c2&c3).
    apply K_commit_and_apply in H. destruct H as [H1 H2].
    apply K_fields in H1. destruct H1 as (h1&h2&h3&h4&h5&h6&h7).
    splits; try congruence. right. splits; auto.
  - inversion H; subst s4. splits; auto.
Qed.

(* hypotheses on the request that replace "the snapshot covers only committed entries" *)
Definition req_agrees (s : nstate) (q : appendreq) : Prop :=
  agree_snap s (aq_entries q) /\
  (aq_previdx q <= st_snapidx s ->
     CfgRaft.prev_ok (abs_logical s) (N.to_nat (aq_previdx q)) (aq_prevterm q) = true).

Lemma append_accepta sor s q s' :
  wf_log_at s -> consec (aq_previdx q) (aq_entries q) -> req_agrees s q ->
  on_append_request sor s q = Done (success, s') ->
  st_term s <= aq_term q /\
  CfgRaft.prev_ok (abs_logical s) (N.to_nat (aq_previdx q)) (aq_prevterm q) = true /\
  abs_logical s' = CfgBase.recv_log (abs_logical s) (N.to_nat (aq_previdx q)) (map absE (aq_entries q)) /\
  st_term s' = aq_term q /\ wf_log_at s' /\ st_snapidx s' = st_snapidx s /\
  ((st_log s' = st_log s /\ st_flushed s' = st_flushed s) \/
   (abs_logical s' <> abs_logical s /\ st_flushed s' = st_lastidx s' /\
    st_lastidx s' = aq_previdx q + N.of_nat (length (aq_entries q)))) /\
  (st_commit s' = st_commit s \/
   (st_commit s' = aq_previdx q /\ st_commit s < aq_previdx q /\ aq_previdx q <= aq_commit q /\
    aq_prevterm q = aq_term q /\ aq_previdx q <= st_lastidx s) \/
   (st_commit s' = aq_previdx q + N.of_nat (length (aq_entries q)) /\
    st_commit s' <= aq_commit q /\ abs_logical s' <> abs_logical s)).
Proof.
  intros W C [Ag Hp] H. rewrite on_append_unfold in H.
  destruct (aq_term q <? st_term s); [inversion H|].
  apply obind_inv in H. destruct H as (s0 & ST & H).
  destruct (front_inv _ _ (aq_src q) _ ST) as (f1 & f2 & f3 & f4).
  set (s1 := set_leader (set_role s0 Follower) (aq_src q)) in *.
  pose proof (wfa_KL _ _ f3 W) as W1.
  pose proof (absl_KL _ _ f3) as A1. pose proof (KL_fields _ _ f3) as (g1&g2&g3&g4&g5&g6).
  apply obind_inv in H. destruct H as (pc & PC & H).
  assert (Hp1 : aq_previdx q <= st_snapidx s1 ->
     CfgRaft.prev_ok (abs_logical s1) (N.to_nat (aq_previdx q)) (aq_prevterm q) = true).
  { rewrite g6, A1. exact Hp. }
  destruct (prev_check_inva _ _ _ _ W1 Hp1 PC) as [[-> _]|[[-> _]|(s2 & -> & k2 & PO & Ple & Cm)]];
    [inversion H|inversion H|].
  apply obind_inv in H. destruct H as (r & CE & H). destruct r as [[[[s3 i] t] sy] df].
  pose proof (K_fields _ _ k2) as (h1&h2&h3&h4&h5&h6&h7).
  pose proof (K_KL _ _ k2) as kl2.
  pose proof (wfa_KL _ _ kl2 W1) as W2. pose proof (absl_KL _ _ kl2) as A2.
  assert (df = false) as ->.
  { unfold finish_of in H. apply obind_inv in H. destruct H as (x & _ & E).
    destruct df; [inversion E|reflexivity]. }
  rewrite <- h5 in Ple.
  assert (Ag2 : agree_snap s2 (aq_entries q)).
  { unfold agree_snap. rewrite h7, g6, A2, A1. exact Ag. }
  destruct (consume_mergea _ _ _ _ _ _ _ _ W2 C Ple Ag2 CE) as (m1&m3&m4&m5&m5'&m6&m7).
  destruct (finish_inva _ _ _ _ _ _ _ _ _ m1 H) as [_ Fin].
  assert (HE : sy && has_entries q = true -> sy = true /\ abs_logical s3 <> abs_logical s2 /\ st_lastidx s3 = i).
  { intro X. apply andb_prop in X. destruct X as [-> _]. destruct m7 as [[? _]|?]; [discriminate|assumption]. }
  assert (HN : sy && has_entries q = false -> sy = false /\ s3 = s2).
  { intro X. destruct m7 as [?|(-> & Ne & _)]; [assumption|]. exfalso. apply Ne.
    unfold has_entries in X. destruct (aq_entries q); [|discriminate X].
    rewrite m3. apply recv_log_nil. }
  destruct (sy && has_entries q) eqn:B.
  - destruct (HE eq_refl) as (-> & Ne & Li). destruct Fin as (t1&t2&t3&t4&t5&t6&t7&t8).
    assert (A3 : abs_logical s' = abs_logical s3) by (unfold abs_logical; rewrite t3; reflexivity).
    assert (W' : wf_log_at s').
    { destruct m1 as [x0 x1 x2 x3 x4 x5]. constructor; rewrite ?t7, ?t2, ?t3, ?t4, ?t5, ?t6; try assumption. lia. }
    assert (Ch : abs_logical s' <> abs_logical s) by (rewrite A3, <- A1, <- A2; assumption).
    splits; try assumption.
    + congruence.
    + rewrite A3, m3, A2, A1. reflexivity.
    + congruence.
    + congruence.
    + right. splits; [assumption|congruence|]. rewrite t4, Li, m6. reflexivity.
    + destruct t8 as [c|(c1&c2&c3)].
      * destruct Cm as [d|(d1&d2&d3&d4)]; [left; congruence|].
        right; left. splits; try congruence; lia.
      * right; right. splits; [rewrite c1, m6; reflexivity|rewrite c1; assumption|assumption].
  - destruct (HN eq_refl) as (-> & ->). subst s'.
    splits; try assumption.
    + congruence.
    + rewrite <- A1, <- A2. exact m3.
    + congruence.
    + congruence.
    + left. split; congruence.
    + destruct Cm as [d|(d1&d2&d3&d4)]; [left; congruence|].
      right; left. splits; try congruence; lia.
Qed.

Lemma finish_code sor q r code s4 : finish_of sor q r = Done (code, s4) ->
  code = success \/ code = unexpectedErr.
Proof.
  destruct r as [[[[s3 i] t] sy] df]. unfold finish_of. intro H.
  apply obind_inv in H. destruct H as (x & _ & E). inversion E. destruct df; auto.
Qed.

Lemma append_rejecta sor s q code s' :
  wf_log_at s ->
  on_append_request sor s q = Done (code, s') ->
  code = staleTerm \/ code = prevEntryNotFound \/ code = prevTermMismatch ->
  KL s' = KL s /\ st_commit s' = st_commit s /\ st_term s' = N.max (st_term s) (aq_term q) /\
  (code = staleTerm -> aq_term q < st_term s) /\
  (code <> staleTerm -> st_term s <= aq_term q /\ st_snapidx s < aq_previdx q /\
     CfgRaft.prev_ok (abs_logical s) (N.to_nat (aq_previdx q)) (aq_prevterm q) = false).
Proof.
  intros W H Cd. rewrite on_append_unfold in H.
  destruct (N.ltb_spec (aq_term q) (st_term s)) as [L|L].
  { inversion H; subst. splits; auto; [lia|]. intros X; contradiction. }
  apply obind_inv in H. destruct H as (s0 & ST & H).
  destruct (front_inv _ _ (aq_src q) _ ST) as (f1 & f2 & f3 & f4).
  set (s1 := set_leader (set_role s0 Follower) (aq_src q)) in *.
  pose proof (wfa_KL _ _ f3 W) as W1.
  pose proof (absl_KL _ _ f3) as A1. pose proof (KL_fields _ _ f3) as (g1&g2&g3&g4&g5&g6).
  apply obind_inv in H. destruct H as (pc & PC & H).
  assert (NoFin : forall s2, pc = (None, s2) -> False).
  { intros s2 ->. apply obind_inv in H. destruct H as (r & _ & H). apply finish_code in H.
    destruct H as [-> | ->]; destruct Cd as [X|[X|X]]; discriminate X. }
  destruct (N.le_gt_cases (aq_previdx q) (st_snapidx s1)) as [Sn|Sn].
  { exfalso. unfold prev_check_of in PC. destruct (N.ltb_spec (st_snapidx s1) (aq_previdx q)); [lia|].
    inversion PC. eapply NoFin. symmetry. eassumption. }
  assert (Hp1 : aq_previdx q <= st_snapidx s1 ->
     CfgRaft.prev_ok (abs_logical s1) (N.to_nat (aq_previdx q)) (aq_prevterm q) = true) by (intro; lia).
  pose proof (absl_length s1 W1) as Len.
  destruct (prev_check_inva _ _ _ _ W1 Hp1 PC) as [[-> P]|[(-> & P0 & P1 & P2)|(s2 & -> & _)]].
  - inversion H; subst. splits; auto; try lia; [intro X; discriminate X|].
    intros _. splits; [assumption|lia|]. rewrite <- A1. unfold CfgRaft.prev_ok.
    apply orb_false_iff. split; [apply Nat.eqb_neq; lia|].
    apply andb_false_iff. left. apply Nat.leb_gt. lia.
  - inversion H; subst. splits; auto; try lia; [intro X; discriminate X|].
    intros _. splits; [assumption|lia|]. rewrite <- A1. unfold CfgRaft.prev_ok.
    apply orb_false_iff. split; [apply Nat.eqb_neq; lia|].
    apply andb_false_iff. right. apply N.eqb_neq. assumption.
  - exfalso. eapply NoFin. reflexivity.
Qed.

Lemma consec_above es : forall prev e, consec prev es -> In e es -> prev < e_index e.
Proof.
  induction es as [|a r IH]; intros prev e C I; [destruct I|]. destruct C as [C1 C2].
  destruct I as [->|I]; [lia|]. specialize (IH _ _ C2 I). lia.
Qed.

(* the agreement hypothesis from statements about terms of the logical log *)
Lemma req_agrees_intro s q :
  wf_log_at s -> consec (aq_previdx q) (aq_entries q) ->
  (forall e, In e (aq_entries q) -> e_index e <= st_snapidx s ->
     CfgBase.term_at (abs_logical s) (N.to_nat (e_index e)) = e_term e) ->
  (aq_previdx q <= st_snapidx s -> aq_previdx q = 0 \/
     CfgBase.term_at (abs_logical s) (N.to_nat (aq_previdx q)) = aq_prevterm q) ->
  req_agrees s q.
Proof.
  intros W C H1 H2. split.
  - intros e x I Le Gx. pose proof (consec_above _ _ _ C I) as Pos.
    rewrite <- (H1 e I Le). replace (N.to_nat (e_index e)) with (S (N.to_nat (e_index e) - 1)) by lia.
    symmetry. apply CfgBase.term_at_nth. exact Gx.
  - intros Le. unfold CfgRaft.prev_ok. apply orb_true_iff.
    destruct (H2 Le) as [Z|T]; [left; apply Nat.eqb_eq; lia|right].
    apply andb_true_iff. split; [|apply N.eqb_eq; exact T].
    apply Nat.leb_le. rewrite (absl_length s W). destruct W as [_ _ _ _ _ [_ S2]]. lia.
Qed.

(* ================================================================ final statements *)
(* A' *)
Theorem append_request_refines_recv_log_compacted sor s q s' :
  wf_log_at s -> consec (aq_previdx q) (aq_entries q) -> req_agrees s q ->
  on_append_request sor s q = Done (success, s') ->
  abs_logical s' = CfgBase.recv_log (abs_logical s) (N.to_nat (aq_previdx q)) (map absE (aq_entries q)) /\
  st_term s <= aq_term q /\ st_term s' = aq_term q /\
  CfgRaft.prev_ok (abs_logical s) (N.to_nat (aq_previdx q)) (aq_prevterm q) = true /\
  wf_log_at s' /\ st_logprev s' = p /\ st_snapidx s' = st_snapidx s.
Proof.
  intros W C A H. destruct (append_accepta _ _ _ _ W C A H) as (a1&a2&a3&a4&a5&a6&_).
  splits; try assumption. apply a5.
Qed.

(* B' *)
Theorem append_request_flush_rule_compacted sor s q s' :
  wf_log_at s -> consec (aq_previdx q) (aq_entries q) -> req_agrees s q ->
  on_append_request sor s q = Done (success, s') ->
  N.to_nat (st_flushed s') =
    if CfgRaft.log_eqb (abs_logical s') (abs_logical s) then N.to_nat (st_flushed s)
    else length (abs_logical s').
Proof.
  intros W C A H. destruct (append_accepta _ _ _ _ W C A H) as (_&_&_&_&W'&_&Fr&_).
  unfold CfgRaft.log_eqb. destruct (list_eq_dec _ _ _) as [E|E].
  - destruct Fr as [[_ F]|[Ne _]]; [congruence|contradiction].
  - destruct Fr as [[L _]|[_ [F _]]].
    + exfalso. apply E. unfold abs_logical. rewrite L. reflexivity.
    + rewrite F, (absl_length s' W'). reflexivity.
Qed.

Theorem append_request_flush_exact_compacted sor s q s' :
  wf_log_at s -> consec (aq_previdx q) (aq_entries q) -> req_agrees s q ->
  on_append_request sor s q = Done (success, s') ->
  (st_log s' = st_log s /\ st_flushed s' = st_flushed s) \/
  (abs_logical s' <> abs_logical s /\ st_flushed s' = st_lastidx s' /\
   st_lastidx s' = aq_previdx q + N.of_nat (length (aq_entries q))).
Proof.
  intros W C A H. destruct (append_accepta _ _ _ _ W C A H) as (_&_&_&_&_&_&Fr&_). exact Fr.
Qed.

(* C', exact form *)
Theorem append_request_commit_exact_compacted sor s q s' :
  wf_log_at s -> consec (aq_previdx q) (aq_entries q) -> req_agrees s q ->
  on_append_request sor s q = Done (success, s') ->
  st_commit s' = st_commit s \/
  (st_commit s' = aq_previdx q /\ st_commit s < aq_previdx q /\ aq_previdx q <= aq_commit q /\
   aq_prevterm q = aq_term q /\ aq_previdx q <= st_lastidx s) \/
  (st_commit s' = aq_previdx q + N.of_nat (length (aq_entries q)) /\
   st_commit s' <= aq_commit q /\ abs_logical s' <> abs_logical s).
Proof.
  intros W C A H. destruct (append_accepta _ _ _ _ W C A H) as (_&_&_&_&_&_&_&Cm). exact Cm.
Qed.

(* D' (no hypothesis on the request) *)
Theorem append_reject_changes_no_log_compacted sor s q code s' :
  wf_log_at s ->
  on_append_request sor s q = Done (code, s') ->
  code = staleTerm \/ code = prevEntryNotFound \/ code = prevTermMismatch ->
  st_logprev s' = st_logprev s /\ st_log s' = st_log s /\ st_flushed s' = st_flushed s /\
  st_lastidx s' = st_lastidx s /\ st_lastterm s' = st_lastterm s /\ st_snapidx s' = st_snapidx s /\
  st_commit s' = st_commit s /\ st_term s' = N.max (st_term s) (aq_term q) /\
  (code = staleTerm -> aq_term q < st_term s) /\
  (code <> staleTerm -> st_term s <= aq_term q /\ st_snapidx s < aq_previdx q /\
     CfgRaft.prev_ok (abs_logical s) (N.to_nat (aq_previdx q)) (aq_prevterm q) = false).
Proof.
  intros W H Cd. destruct (append_rejecta _ _ _ _ _ W H Cd) as (a1&a2&a3&a4&a5).
  apply KL_fields in a1. destruct a1 as (b1&b2&b3&b4&b5&b6). splits; assumption.
Qed.
End Compact.

(* ---- the hypotheses are satisfiable: a compacted follower (entry 1 compacted away, snapshot at 2,
   physical log [2]) takes a request from index 0 carrying entries 1,2,3: entries 1 and 2 are skipped,
   3 is appended ---- *)
Module Sample.
Definition pay0 : entry -> CfgBase.payload := fun _ => CfgBase.PData 0.
Definition en (i : N) : entry := mkEntry i 1 entryNop [].
Definition s0 : nstate :=
  mkNode_ 1 2 1 0 1 [en 2] 2 2 1 2 1 empty_config empty_config empty_config
          Follower 0 2 false false None false 2 1 false 0%Z false None.
Definition q0 : appendreq := mkAppendReq 1 3 0 0 0 [en 1; en 2; en 3].
Definition G0 : list CfgBase.entry := [(1, CfgBase.PData 0)].

Example compacted_sample :
  wf_log_at 1 s0 /\ consec (aq_previdx q0) (aq_entries q0) /\ req_agrees pay0 G0 s0 q0 /\
  exists s', on_append_request false s0 q0 = Done (success, s') /\
             abs_logical pay0 G0 s' = [(1, CfgBase.PData 0); (1, CfgBase.PData 0); (1, CfgBase.PData 0)] /\
             st_flushed s' = 3.
Proof.
  split; [|split; [|split]].
  - constructor; cbn; try reflexivity; try lia.
    intros [|[|k]] e H; cbn in H; inversion H. reflexivity.
  - cbn. auto.
  - split.
    + intros e x [<-|[<-|[<-|[]]]] Le; cbn in *; try lia; intro H; inversion H; reflexivity.
    + intros _. reflexivity.
  - eexists. split; [vm_compute; reflexivity|]. split; reflexivity.
Qed.
End Sample.
