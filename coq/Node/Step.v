(* One step of a node = one iteration of stateLoop's select: the handler for the
   event, the timer rule that follows an RPC, and the role change
   (release of the old role, init of the new one).  Executable, no proofs. *)
From Coq Require Import List NArith ZArith Bool.
From Verif Require Import Base.Bytes Codec.Messages Node.Types Node.Handlers Node.Leader Node.Snap.
Import ListNotations.
Open Scope N_scope.

Inductive nevent :=
| EVoteReq (q : votereq)
| EAppendReq (q : appendreq)
| EAppendReqCut (q : appendreq)   (* a request whose connection broke after the entries of q were read (it announced
                                     more): what was consumed is handled like a complete request, the answer is readErr *)
| ESnapReq (q : snapreq) (newprev : N)
| ETimeoutNowReq (term src : N)
| ETimeout
| EVoteResult (term result : N)
| EDisconnected (nid : N)
| ERestart (keep : N)
| ELeader (e : levent)
| ETask (t : ntask)          (* a task or client batch handled in any role (leaders: only TTakeSnapshot / TShutdown) *)
| ESnapRun                   (* the snapshot goroutine runs (not an iteration of stateLoop) *)
| ESnapTaken.                (* snapTakenCh case *)

(* what the peer / caller sees *)
Record nobs := mkObs {
  ob_result : N;        (* rpcResult of the reply, 0 when the event has no reply *)
  ob_respterm : N;      (* resp.term *)
  ob_resplast : N;      (* appendResp.lastLogIndex, 0 otherwise *)
  ob_out : lout         (* task replies and messages produced by the step *)
}.
Definition no_obs : nobs := mkObs 0 0 0 no_out.
Definition obs_out (o : lout) : nobs := mkObs 0 0 0 o.

Definition release_role (opt : options) (old : N) (s : nstate) : nstate * lout :=
  if old =? Candidate then (candidate_release s, no_out)
  else if old =? Leader then leader_release_out s
  else (s, no_out).

Definition init_role (opt : options) (s : nstate) : outcome nstate :=
  if st_role s =? Follower then Done (follower_init s)
  else if st_role s =? Candidate then start_election s
  else leader_init opt s.

(* the outer loop of stateLoop; init may itself change the role (a leader that
   finds itself demoted by a commit inside init) *)
Fixpoint transition (fuel : nat) (opt : options) (old : N) (s : nstate) : outcome W :=
  if st_closed s then
    (* the loop returns: the deferred release of the role whose init ran last *)
    Done (release_role opt old s)
  else if st_role s =? old then wret s else
  match fuel with
  | O => Err EBug
  | S f =>
      let (s1, out) := release_role opt old (set_timer s false) in
      s2 <~ init_role opt s1 ;;
      wbind (Done (s2, out)) (fun s2 => transition f opt (st_role s1) s2)
  end.

Definition after_rpc (s : nstate) (reset : bool) : nstate :=
  if (st_role s =? Follower) && reset then follower_reset_timer s else s.

Definition finish (opt : options) (old : N) (code t last : N) (w : W) : outcome (nobs * nstate) :=
  let (s1, out1) := w in
  r <~ transition 4 opt old s1 ;;
  let (s2, out2) := r in
  Done (mkObs code t last (out_app out1 out2), s2).

Definition model_event (opt : options) (s : nstate) (ev : nevent) : outcome (nobs * nstate) :=
  let old := st_role s in
  match ev with
  | EVoteReq q =>
      r <~ on_vote_request s q ;;
      let (code, s1) := r in
      finish opt old code (st_term s1) 0 (after_rpc s1 (code =? success), no_out)
  | EAppendReq q =>
      r <~ on_append_request (o_shutdown_on_remove opt) s q ;;
      let (code, s1) := r in
      if code =? unexpectedErr then Err EDecode else
      finish opt old code (st_term s1) (st_lastidx s1) (after_rpc s1 true, no_out)
  | EAppendReqCut q =>
      r <~ on_append_request (o_shutdown_on_remove opt) s q ;;
      let (code, s1) := r in
      if code =? unexpectedErr then Err EDecode else
      finish opt old readErr (st_term s1) (st_lastidx s1) (after_rpc s1 true, no_out)
  | ESnapReq q np =>
      r <~ on_install_snap_request s q np ;;
      let (code, s1) := r in
      finish opt old code (st_term s1) 0 (after_rpc s1 true, no_out)
  | ETimeoutNowReq _ _ =>
      let (code, s1) := on_timeout_now_request s in
      finish opt old code (st_term s1) 0 (after_rpc s1 true, no_out)
  | ETimeout =>
      s1 <~ (if old =? Follower then Done (follower_on_timeout s)
             else if old =? Candidate then start_election (set_timer s false)
             else leader_on_timeout opt (set_timer s false)) ;;
      finish opt old 0 0 0 (s1, no_out)
  | EVoteResult t res =>
      if old =? Candidate then
        s1 <~ on_vote_result s t res ;;
        finish opt old 0 0 0 (s1, no_out)
      else Done (no_obs, s)
  | EDisconnected nid =>
      Done (no_obs, if negb (st_leader s =? 0) && negb (nid =? 0) && (st_leader s =? nid) then set_leader s 0 else s)
  | ERestart keep =>
      s1 <~ restart s keep ;;
      Done (no_obs, follower_init s1)
  | ELeader e =>
      if old =? Leader then
        w <~ leader_event_out opt s e ;;
        finish opt old 0 0 0 w
      else Done (no_obs, s)
  | ETask t =>
      w <~ node_task s t ;;
      (* executeTask is followed by: if Follower and electionAborted then resetTimer *)
      let (s1, out) := w in
      let s2 := if (st_role s1 =? Follower) && st_aborted s1 &&
                   match t with TClient _ | TShutdown => false | _ => true end
                then follower_reset_timer s1 else s1 in
      finish opt old 0 0 0 (s2, out)
  | ESnapRun =>
      s1 <~ snapshot_run s ;; Done (no_obs, s1)
  | ESnapTaken =>
      w <~ on_snapshot_taken opt s ;;
      finish opt old 0 0 0 w
  end.
