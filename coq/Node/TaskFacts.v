(* C15: the task ledger of a node.  Every task the model accepts is answered exactly once; nothing is
   dropped; a release answers everything the leader holds.  Proofs only; statements are repeated in
   Props/C15.v.  Requires the model files, the inversion tactics of Node/LogFacts.v and the round trip of
   the configuration codec (Codec/MessagesProofs.v).

   Layout: per-handler ledgers (the Led_ lemmas), the outer loop (transition_spec), the case analysis over the
   events (step_fin), the theorems task_ledger / run_ledger / answered_at_most_once /
   release_leaves_nothing_pending, two concrete histories meeting every hypothesis (ex_history;
   ex2_history with a changeConfig task whose action is carried out), and the counterexamples that
   justify the hypotheses.

   What [fresh] excludes (machine-checked counterexamples cex_... in the last section):
     - ELeader events on a node that is not leader ([enabled]): such a node does not take them;
     - ERestart of a node with pending tasks: the process died, its tasks died with it;
     - LWaitStable / LTransfer submitted with the reserved task id 0: the model reports such a task
       on some paths and not on others (ids are a modelling device, 0 is reserved for internal entries);
     - LChangeConfig tid c with tid <> 0 and membership actions in c is covered under
       [covered_change s c] (Led_on_change_config_act):
         wf_config c            c is a value Go's types allow (distinct ids, fields in range), so that the
                                configuration appended for an action is read back unchanged; not
                                claimed necessary;
         leader_votes s         the leader is a voter unless a transfer is in progress
                                (cex_change_config_nonvoter: answered twice otherwise);
         c_index Latest <= lastLogIndex   (cex_change_config_index: answered twice otherwise);
         no_solo c nid = true   no single action of c (demote/remove of the only other voter, removal
                                of a non-voter from a one-voter cluster) leaves the leader as the only
                                voter.  Then the configuration appended for the first ready action
                                stays uncommitted until the call returns, canChangeConfig is false for
                                the remaining actions and the index test of onChangeConfig sees the
                                change.  Otherwise the entry commits inside storeEntry, the task is
                                answered there, and canChangeConfig is true again while
                                checkConfigActions is still visiting the replications with the stale
                                submitted configuration: cex_change_config_solo shows the task answered
                                twice for a Demote when the oracle o_order repeats an id (task_ledger
                                quantifies over every oracle and [fresh] does not see it).  For an
                                oracle without repetitions, and for Remove/ForceRemove, no
                                counterexample is known: these cases are simply not covered.
       The id 0 and configurations without actions need none of this (Led_on_change_config). *)
From Coq Require Import List NArith ZArith Bool Lia Arith Permutation.
From RecordUpdate Require Import RecordUpdate.
From Verif Require Import Base.Bytes Codec.Parser Codec.Messages Codec.MessagesProofs
  Node.Types Node.Handlers Node.Leader Node.Snap Node.Step Node.Run Node.LogFacts.
Import ListNotations.
Open Scope N_scope.

(* ================================================================ task ids held by a node *)
Definition one (t : N) : list N := if t =? 0 then [] else [t].
(* the non-zero ids of a list *)
Definition nz (l : list N) : list N := flat_map one l.

(* the part of the leader's record that holds tasks *)
Definition lkeyT := (list newent * list N * bool * N)%type.
Definition lkey (l : ldrst) : lkeyT := (ld_queue l, ld_waitstable l, ld_tr_active l, ld_tr_tid l).
Definition tids_of (k : lkeyT) : list N :=
  let '(q, ws, act, ti) := k in nz (map ne_tid q) ++ nz ws ++ (if act then one ti else []).
Definition zok_of (k : lkeyT) : Prop :=
  let '(q, ws, act, ti) := k in ~ In 0 ws /\ (if act then ti <> 0 else ti = 0).

Definition lk (s : nstate) : option lkeyT := option_map lkey (st_ldr s).
Definition sk (s : nstate) : bool * option snapreqst := (st_snapbusy s, st_snapreq s).

Definition LPk (k : option lkeyT) : list N := match k with Some x => tids_of x | None => [] end.
Definition SPk (k : bool * option snapreqst) : list N :=
  match snd k with Some rq => one (sr_tid rq) | None => [] end.
Definition Zk (k : option lkeyT) : Prop := match k with Some x => zok_of x | None => True end.
Definition SIk (k : bool * option snapreqst) : Prop := fst k = false -> snd k = None.

Definition leader_pending (s : nstate) : list N := LPk (lk s).
Definition pending (s : nstate) : list N := LPk (lk s) ++ SPk (sk s).

(* structural facts: no reserved id in the waitStable list; the transfer's task id is non-zero exactly
   while a transfer is in progress; a snapshot request is recorded only while one is in flight *)
Definition Inv0 (s : nstate) : Prop := Zk (lk s) /\ SIk (sk s).

Definition ledger_ok (s : nstate) : Prop :=
  NoDup (pending s) /\ (st_role s <> Leader -> leader_pending s = []) /\ Inv0 s.

(* ---------------------------------------------------------------- what an event submits *)
Definition submitted (ev : nevent) : list N :=
  match ev with
  | ELeader (LClient nes) => nz (map nq_tid nes)
  | ELeader (LChangeConfig tid _) => one tid
  | ELeader (LWaitStable tid) => one tid
  | ELeader (LTransfer tid _) => one tid
  | ETask (TClient nes) => nz (map nq_tid nes)
  | ETask (TChangeConfig tid _) => one tid
  | ETask (TWaitStable tid) => one tid
  | ETask (TTransfer tid _) => one tid
  | ETask (TTakeSnapshot tid _) => one tid
  | _ => []
  end.

(* ---------------------------------------------------------------- a changeConfig task with membership actions *)
(* the configuration checkConfigActions hands to doChangeConfig for the leader's own action *)
Definition cand_self (c : config) (me : N) : option config :=
  let n := cfg_node0 c me in
  if n_action n =? ActNone then None
  else if n_action n =? ActDemote then Some (cfg_set_node c (with_voter_action n false ActNone))
  else Some (cfg_del_node c me).
(* ... and checkConfigAction for node id *)
Definition cand (c : config) (id : N) : option config :=
  let n := cfg_node0 c id in
  let action := next_action n in
  if action =? ActNone then None
  else if action =? ActPromote then Some (cfg_set_node c (with_voter_action n true ActNone))
  else if (action =? ActRemove) || (action =? ActForceRemove) then Some (cfg_del_node c id)
  else Some (cfg_set_node c (with_voter_action n false (if n_action n =? ActDemote then ActNone else n_action n))).
(* a leader of this configuration commits on its own *)
Definition solo (c : config) (me : N) : bool := (num_voters c =? 1) && is_voter c me.
Definition no_solo (c : config) (me : N) : bool :=
  forallb (fun n => match cand c (n_id n) with Some cx => negb (solo cx me) | None => true end) (c_nodes c).

(* the part of wf_config that makes a node list survive encode/decode *)
Definition nodes_ok (ns : list node) : Prop :=
  Forall wf_node ns /\ NoDup (map n_id ns) /\ wfstr (enc_config_data ns).

(* unless a transfer is in progress (then nothing is appended at all) the leader is a voter of its
   configuration *)
Definition leader_votes (s : nstate) : Prop :=
  match st_ldr s with Some l => ld_tr_active l = false -> ld_voter l = true | None => True end.

(* the changeConfig tasks with membership actions the ledger covers: the configuration is what Go's
   types guarantee (distinct ids, fields in range: it survives encode/decode), the leader is a voter,
   Latest was read from the log, and no single action of c leaves the leader as the only voter *)
Definition covered_change (s : nstate) (c : config) : Prop :=
  wf_config c /\ leader_votes s /\ c_index (st_latest s) <= st_lastidx s /\ no_solo c (st_nid s) = true.

(* events the ledger does not cover; the clauses are justified by the counterexamples below *)
Definition admissible (s : nstate) (ev : nevent) : Prop :=
  match ev with
  | ERestart _ => pending s = []
  | ELeader (LWaitStable tid) => tid <> 0
  | ELeader (LTransfer tid _) => tid <> 0
  | ELeader (LChangeConfig tid c) => tid = 0 \/ is_stable c = true \/ covered_change s c
  | _ => True
  end.

(* ELeader events are the cases of the leader's select loop: a node that is not leader does not take
   them (the model makes them no-ops there), so a task handed over that way to a non-leader is not a
   submission at all -- tasks reach a non-leader as ETask.  Without this clause the ledger is false:
   ELeader (LClient [task 5]) on a follower changes nothing and answers nobody. *)
Definition enabled (s : nstate) (ev : nevent) : Prop :=
  match ev with
  | ELeader _ => st_role s = Leader \/ submitted ev = []
  | _ => True
  end.

Definition fresh (s : nstate) (ev : nevent) : Prop :=
  NoDup (submitted ev) /\ (forall t, In t (submitted ev) -> ~ In t (pending s)) /\ admissible s ev /\
  enabled s ev.

(* ================================================================ counting *)
Definition cn (t : N) (l : list N) : nat := count_occ N.eq_dec l t.
Definition rt (o : lout) : list N := map fst (lo_replies o).

Lemma cn_nil t : cn t [] = 0%nat. Proof. reflexivity. Qed.
Lemma cn_app t a b : cn t (a ++ b) = (cn t a + cn t b)%nat.
Proof. apply count_occ_app. Qed.
Lemma nz_nil : nz [] = []. Proof. reflexivity. Qed.
Lemma nz_cons x l : nz (x :: l) = one x ++ nz l. Proof. reflexivity. Qed.
Lemma nz_app a b : nz (a ++ b) = nz a ++ nz b.
Proof. apply flat_map_app. Qed.
Lemma one_0 : one 0 = []. Proof. reflexivity. Qed.
Lemma one_nz t : t <> 0 -> one t = [t].
Proof. unfold one. intros H. apply N.eqb_neq in H. rewrite H. reflexivity. Qed.
Lemma rt_out_app a b : rt (out_app a b) = rt a ++ rt b.
Proof. unfold rt, out_app. cbn. apply map_app. Qed.
Lemma rt_no_out : rt no_out = []. Proof. reflexivity. Qed.
Lemma rt_mkOut r m : rt (mkOut r m) = map fst r. Proof. reflexivity. Qed.
Lemma in_nz t l : In t (nz l) <-> In t l /\ t <> 0.
Proof.
  induction l as [|a l IH]; [cbn; tauto|].
  rewrite nz_cons, in_app_iff, IH. unfold one. destruct (a =? 0) eqn:E.
  - apply N.eqb_eq in E. subst a. cbn. intuition congruence.
  - apply N.eqb_neq in E. cbn. intuition congruence.
Qed.
Lemma nz_id l : ~ In 0 l -> nz l = l.
Proof.
  induction l as [|a l IH]; [reflexivity|]. intros H. rewrite nz_cons, IH.
  - rewrite one_nz; [reflexivity|]. intros ->. apply H. left. reflexivity.
  - intros I. apply H. right. exact I.
Qed.
Lemma not_in_nz l : ~ In 0 (nz l).
Proof. intros H. apply in_nz in H. destruct H as [_ H]. apply H. reflexivity. Qed.
Lemma not_in_one t : ~ In 0 (one t).
Proof. unfold one. destruct (t =? 0) eqn:E; [intros []|]. apply N.eqb_neq in E. intros [H|[]]. congruence. Qed.

Lemma map_fst_reply (tid : N) (r : reply) :
  map fst (if tid =? 0 then [] else [(tid, r)]) = one tid.
Proof. unfold one. destruct (tid =? 0); reflexivity. Qed.

#[export] Hint Rewrite cn_nil cn_app nz_nil nz_cons nz_app one_0 rt_out_app rt_no_out rt_mkOut map_fst_reply
  map_app app_nil_r Nat.add_0_r Nat.add_0_l : cn.

(* ================================================================ the two projections under the setters *)
Lemma lk_ldr s l : st_ldr s = Some l -> lk s = Some (lkey l).
Proof. unfold lk. intros ->. reflexivity. Qed.
Lemma lk_none s : st_ldr s = None -> lk s = None.
Proof. unfold lk. intros ->. reflexivity. Qed.

Lemma lk_put_ldr s l : lk (put_ldr s l) = Some (lkey l). Proof. reflexivity. Qed.
Lemma sk_put_ldr s l : sk (put_ldr s l) = sk s. Proof. reflexivity. Qed.
Lemma lk_set_ldr_none s : lk (set_ldr s None) = None. Proof. reflexivity. Qed.
Lemma sk_set_ldr s l : sk (set_ldr s l) = sk s. Proof. reflexivity. Qed.

Lemma lk_upd_ldr s f : (forall l, lkey (f l) = lkey l) -> lk (upd_ldr s f) = lk s.
Proof. intros H. unfold upd_ldr, lk. destruct (st_ldr s) eqn:E; cbn; [rewrite H | rewrite E]; reflexivity. Qed.
Lemma sk_upd_ldr s f : sk (upd_ldr s f) = sk s.
Proof. unfold upd_ldr. destruct (st_ldr s); reflexivity. Qed.
Lemma lk_upd_repl s i f : lk (upd_repl s i f) = lk s.
Proof. apply lk_upd_ldr. reflexivity. Qed.
Lemma sk_upd_repl s i f : sk (upd_repl s i f) = sk s.
Proof. apply sk_upd_ldr. Qed.
Lemma lk_begin_finished_rounds s : lk (begin_finished_rounds s) = lk s.
Proof. apply lk_upd_ldr. reflexivity. Qed.
Lemma sk_begin_finished_rounds s : sk (begin_finished_rounds s) = sk s.
Proof. apply sk_upd_ldr. Qed.

Lemma lk_set_role s r : lk (set_role s r) = lk s. Proof. reflexivity. Qed.
Lemma sk_set_role s r : sk (set_role s r) = sk s. Proof. reflexivity. Qed.
Lemma lk_set_leader s r : lk (set_leader s r) = lk s. Proof. reflexivity. Qed.
Lemma sk_set_leader s r : sk (set_leader s r) = sk s. Proof. reflexivity. Qed.
Lemma lk_set_commit s r : lk (set_commit s r) = lk s. Proof. reflexivity. Qed.
Lemma sk_set_commit s r : sk (set_commit s r) = sk s. Proof. reflexivity. Qed.
Lemma lk_set_closed s r : lk (set_closed s r) = lk s. Proof. reflexivity. Qed.
Lemma sk_set_closed s r : sk (set_closed s r) = sk s. Proof. reflexivity. Qed.
Lemma lk_set_timer s r : lk (set_timer s r) = lk s. Proof. reflexivity. Qed.
Lemma sk_set_timer s r : sk (set_timer s r) = sk s. Proof. reflexivity. Qed.
Lemma lk_set_fsm s a b : lk (set_fsm s a b) = lk s. Proof. reflexivity. Qed.
Lemma sk_set_fsm s a b : sk (set_fsm s a b) = sk s. Proof. reflexivity. Qed.
Lemma lk_set_term_vote s a b : lk (set_term_vote s a b) = lk s. Proof. reflexivity. Qed.
Lemma sk_set_term_vote s a b : sk (set_term_vote s a b) = sk s. Proof. reflexivity. Qed.
Lemma lk_set_log s a b c d : lk (set_log s a b c d) = lk s. Proof. reflexivity. Qed.
Lemma sk_set_log s a b c d : sk (set_log s a b c d) = sk s. Proof. reflexivity. Qed.
Lemma lk_set_flushed s a : lk (set_flushed s a) = lk s. Proof. reflexivity. Qed.
Lemma sk_set_flushed s a : sk (set_flushed s a) = sk s. Proof. reflexivity. Qed.
Lemma lk_set_snap s a b c : lk (set_snap s a b c) = lk s. Proof. reflexivity. Qed.
Lemma sk_set_snap s a b c : sk (set_snap s a b c) = sk s. Proof. reflexivity. Qed.
Lemma lk_set_configs s a b : lk (set_configs s a b) = lk s. Proof. reflexivity. Qed.
Lemma sk_set_configs s a b : sk (set_configs s a b) = sk s. Proof. reflexivity. Qed.
Lemma lk_set_flr s a b : lk (set_flr s a b) = lk s. Proof. reflexivity. Qed.
Lemma sk_set_flr s a b : sk (set_flr s a b) = sk s. Proof. reflexivity. Qed.
Lemma lk_set_cnd s a b : lk (set_cnd s a b) = lk s. Proof. reflexivity. Qed.
Lemma sk_set_cnd s a b : sk (set_cnd s a b) = sk s. Proof. reflexivity. Qed.
Lemma lk_commit_log s a : lk (commit_log s a) = lk s. Proof. reflexivity. Qed.
Lemma sk_commit_log s a : sk (commit_log s a) = sk s. Proof. reflexivity. Qed.
Lemma lk_clear_log s : lk (clear_log s) = lk s. Proof. reflexivity. Qed.
Lemma sk_clear_log s : sk (clear_log s) = sk s. Proof. reflexivity. Qed.
Lemma lk_revert_config s : lk (revert_config s) = lk s. Proof. reflexivity. Qed.
Lemma sk_revert_config s : sk (revert_config s) = sk s. Proof. reflexivity. Qed.
Lemma lk_change_config s c : lk (change_config s c) = lk s.
Proof. unfold change_config. destruct (_ && _); reflexivity. Qed.
Lemma sk_change_config s c : sk (change_config s c) = sk s.
Proof. unfold change_config. destruct (_ && _); reflexivity. Qed.
Lemma lk_commit_config s : lk (commit_config s) = lk s.
Proof. unfold commit_config. destruct (_ && _); reflexivity. Qed.
Lemma sk_commit_config s : sk (commit_config s) = sk s.
Proof. unfold commit_config. destruct (_ && _); reflexivity. Qed.
Lemma lk_follower_on_timeout s : lk (follower_on_timeout s) = lk s.
Proof. unfold follower_on_timeout. destruct (can_start_election _); reflexivity. Qed.
Lemma sk_follower_on_timeout s : sk (follower_on_timeout s) = sk s.
Proof. unfold follower_on_timeout. destruct (can_start_election _); reflexivity. Qed.
Lemma lk_follower_reset_timer s : lk (follower_reset_timer s) = lk s.
Proof. unfold follower_reset_timer. destruct (can_start_election _); reflexivity. Qed.
Lemma sk_follower_reset_timer s : sk (follower_reset_timer s) = sk s.
Proof. unfold follower_reset_timer. destruct (can_start_election _); reflexivity. Qed.
Lemma lk_follower_init s : lk (follower_init s) = lk s. Proof. reflexivity. Qed.
Lemma sk_follower_init s : sk (follower_init s) = sk s. Proof. reflexivity. Qed.
Lemma lk_candidate_release s : lk (candidate_release s) = lk s. Proof. reflexivity. Qed.
Lemma sk_candidate_release s : sk (candidate_release s) = sk s. Proof. reflexivity. Qed.
Lemma lk_after_rpc s b : lk (after_rpc s b) = lk s.
Proof. unfold after_rpc. destruct (_ && _); [apply lk_follower_reset_timer | reflexivity]. Qed.
Lemma sk_after_rpc s b : sk (after_rpc s b) = sk s.
Proof. unfold after_rpc. destruct (_ && _); [apply sk_follower_reset_timer | reflexivity]. Qed.
Lemma lk_if (b : bool) (x y : nstate) : lk (if b then x else y) = if b then lk x else lk y.
Proof. destruct b; reflexivity. Qed.
Lemma sk_if (b : bool) (x y : nstate) : sk (if b then x else y) = if b then sk x else sk y.
Proof. destruct b; reflexivity. Qed.
Lemma if_same {A} (b : bool) (x : A) : (if b then x else x) = x.
Proof. destruct b; reflexivity. Qed.

#[export] Hint Rewrite lk_put_ldr sk_put_ldr lk_set_ldr_none sk_set_ldr lk_upd_repl sk_upd_repl sk_upd_ldr
  lk_begin_finished_rounds sk_begin_finished_rounds
  lk_set_role sk_set_role lk_set_leader sk_set_leader lk_set_commit sk_set_commit lk_set_closed sk_set_closed
  lk_set_timer sk_set_timer lk_set_fsm sk_set_fsm lk_set_term_vote sk_set_term_vote lk_set_log sk_set_log
  lk_set_flushed sk_set_flushed lk_set_snap sk_set_snap lk_set_configs sk_set_configs lk_set_flr sk_set_flr
  lk_set_cnd sk_set_cnd lk_commit_log sk_commit_log lk_clear_log sk_clear_log lk_revert_config sk_revert_config
  lk_change_config sk_change_config lk_commit_config sk_commit_config
  lk_follower_on_timeout sk_follower_on_timeout lk_follower_reset_timer sk_follower_reset_timer
  lk_follower_init sk_follower_init lk_candidate_release sk_candidate_release lk_after_rpc sk_after_rpc
  lk_if sk_if @if_same : key.

(* a step that leaves both projections alone *)
Definition FR (s s' : nstate) : Prop := lk s' = lk s /\ sk s' = sk s.
Lemma FR_refl s : FR s s. Proof. split; reflexivity. Qed.
Lemma FR_trans a b c : FR a b -> FR b c -> FR a c.
Proof. unfold FR. intros [A1 A2] [B1 B2]. split; congruence. Qed.

(* ================================================================ the ledger of one function call *)
Definition InvK (k1 : option lkeyT) (k2 : bool * option snapreqst) : Prop := Zk k1 /\ SIk k2.
Definition PendK (k1 : option lkeyT) (k2 : bool * option snapreqst) : list N := LPk k1 ++ SPk k2.
Lemma Inv0_K s : Inv0 s = InvK (lk s) (sk s). Proof. reflexivity. Qed.
Lemma pending_K s : pending s = PendK (lk s) (sk s). Proof. reflexivity. Qed.

(* [c t]: how many times the call is handed task id t *)
Definition LedC (s : nstate) (c : N -> nat) (w : W) : Prop :=
  sk (fst w) = sk s /\
  (InvK (lk s) (sk s) ->
  InvK (lk (fst w)) (sk (fst w)) /\
  forall t, (cn t (PendK (lk s) (sk s)) + c t = cn t (PendK (lk (fst w)) (sk (fst w))) + cn t (rt (snd w)))%nat).
Definition Led (s : nstate) (sub : list N) (w : W) : Prop := LedC s (fun t => cn t sub) w.

Ltac red_key :=
  unfold lkey in *;
  cbn [fst snd set ld_queue ld_waitstable ld_tr_active ld_tr_tid] in *.

Ltac inv_solve :=
  first [ assumption
        | solve [ unfold InvK, Zk, SIk, zok_of in *; red_key;
                  repeat match goal with H : _ /\ _ |- _ => destruct H end;
                  repeat split; auto ] ].

Ltac cnt_solve :=
  intros;
  repeat match goal with H : forall t : N, (_ = _)%nat |- _ =>
    match goal with t : N |- _ => specialize (H t) end end;
  unfold PendK, LPk, SPk, tids_of in *; red_key;
  autorewrite with cn in *; cbn [map ne_tid] in *; autorewrite with cn in *; try lia.

(* normal form of the hypotheses: the projections of the states as far as they are known *)
Ltac key_norm :=
  unfold Led, LedC, FR in *; cbn [fst snd] in *;
  repeat match goal with H : _ /\ _ |- _ => destruct H end;
  autorewrite with key in *;
  try (rewrite lk_upd_ldr in * by reflexivity); autorewrite with key in *;
  repeat match goal with
         | H : st_ldr ?x = Some ?l |- _ => apply lk_ldr in H
         end;
  repeat match goal with
         | E : lk ?x = _ |- _ => is_var x; try rewrite E in *; clear E
         | E : sk ?x = _ |- _ => is_var x; try rewrite E in *; clear E
         | E : Some (lkey ?a) = Some (lkey ?b) |- _ =>
             first [ constr_eq a b; clear E
                   | let E1 := fresh "E" in let E2 := fresh "E" in let E3 := fresh "E" in let E4 := fresh "E" in
                     assert (E1 : ld_queue a = ld_queue b) by (unfold lkey in E; congruence);
                     assert (E2 : ld_waitstable a = ld_waitstable b) by (unfold lkey in E; congruence);
                     assert (E3 : ld_tr_active a = ld_tr_active b) by (unfold lkey in E; congruence);
                     assert (E4 : ld_tr_tid a = ld_tr_tid b) by (unfold lkey in E; congruence);
                     clear E; red_key;
                     try rewrite E1 in *; try rewrite E2 in *; try rewrite E3 in *; try rewrite E4 in *;
                     clear E1 E2 E3 E4 ]
         | E : Some _ = lk ?x |- _ => is_var x; symmetry in E
         | E : None = lk ?x |- _ => is_var x; symmetry in E
         | E : Some _ = None |- _ => discriminate E
         | E : None = Some _ |- _ => discriminate E
         end.

Ltac led_chain :=
  repeat match goal with
         | H : InvK ?a ?b -> _ |- _ =>
             let HP := fresh "HP" in
             assert (HP : InvK a b) by inv_solve;
             specialize (H HP); destruct H as [? ?]
         end.

Ltac clear_ih :=
  repeat match goal with
         | H : forall _ : nstate, _ |- _ => clear H
         | H : forall _ : list newreq, _ |- _ => clear H
         end.

Ltac led_solve :=
  clear_ih; key_norm;
  match goal with |- _ = _ /\ _ => split; [first [reflexivity | congruence]|] | _ => idtac end;
  match goal with |- InvK _ _ -> _ => intros ?I0 | _ => idtac end;
  led_chain;
  match goal with
  | |- _ /\ _ => split; [try inv_solve | cnt_solve]
  | _ => idtac
  end.

(* ---------------------------------------------------------------- steps that are frames *)
Ltac fr_solve := unfold FR; autorewrite with key; split; congruence.

Lemma fr_set_term s t s' : set_term s t = Done s' -> FR s s'.
Proof. unfold set_term. intros H. repeat inv1w; fr_solve. Qed.
Lemma fr_set_voted_for s t c s' : set_voted_for s t c = Done s' -> FR s s'.
Proof. unfold set_voted_for. intros H. repeat inv1w; fr_solve. Qed.
Lemma fr_append_entry s e s' : append_entry s e = Done s' -> FR s s'.
Proof. unfold append_entry. intros H. repeat inv1w; fr_solve. Qed.
Lemma fr_remove_gte s i t s' : remove_gte s i t = Done s' -> FR s s'.
Proof. unfold remove_gte. intros H. repeat inv1w; fr_solve. Qed.
Lemma fr_apply_committed s s' : apply_committed s = Done s' -> FR s s'.
Proof. unfold apply_committed. intros H. repeat inv1w; fr_solve. Qed.
Lemma fr_raft_set_commit_index sor s i : FR s (fst (raft_set_commit_index sor s i)).
Proof.
  unfold raft_set_commit_index. destruct (_ && _); cbn [fst]; [|fr_solve].
  destruct sor; [destruct (cfg_node _ _)|]; fr_solve.
Qed.
Lemma fr_commit_and_apply sor s i s' : commit_and_apply sor s i = Done s' -> FR s s'.
Proof.
  unfold commit_and_apply. intros H. apply fr_apply_committed in H.
  eapply FR_trans; [apply fr_raft_set_commit_index | exact H].
Qed.
Lemma fr_notify_flr s b s' : notify_flr s b = Done s' -> FR s s'.
Proof.
  unfold notify_flr. intros H. repeat inv1w. unfold FR. autorewrite with key.
  rewrite (lk_ldr _ _ H0). split; reflexivity.
Qed.
Lemma fr_add_replication s n s' : add_replication s n = Done s' -> FR s s'.
Proof.
  unfold add_replication. intros H. repeat inv1w. unfold FR. autorewrite with key.
  rewrite (lk_ldr _ _ H0). split; reflexivity.
Qed.
Lemma fr_add_replications ns : forall s s', add_replications s ns = Done s' -> FR s s'.
Proof.
  induction ns as [|n r IH]; intros s s' H; cbn [add_replications] in H.
  - inversion H; apply FR_refl.
  - destruct (n_id n =? st_nid s); [eauto|].
    apply obind_inv in H. destruct H as (s1 & H1 & H2).
    apply fr_add_replication in H1. apply IH in H2. eapply FR_trans; eauto.
Qed.

(* a W-valued step that is a frame and answers nobody *)
Definition FRW (s : nstate) (w : W) : Prop := FR s (fst w) /\ rt (snd w) = [].

Lemma Led_of_FRW s w : FRW s w -> Led s [] w.
Proof.
  destruct w as [s' o]. intros [[E1 E2] E3]. unfold Led, LedC. cbn [fst snd] in *.
  rewrite E1, E2, E3. split; [reflexivity|]. intros I0. split; [exact I0|]. intros t. cbn. lia.
Qed.

Lemma Led_wreply s tid r w : wreply s tid r = Done w -> Led s (one tid) w.
Proof.
  unfold wreply. intros H. inversion H; subst. unfold Led, LedC. cbn [fst snd].
  split; [reflexivity|]. intros I0. split; [exact I0|]. intros t. unfold one. destruct (tid =? 0); cbn; lia.
Qed.

Lemma split_queue_app c q : forall a b, split_queue c q = (a, b) -> q = a ++ b.
Proof.
  induction q as [|ne r IH]; intros a b H; cbn [split_queue] in H.
  - inversion H; reflexivity.
  - destruct (_ || _).
    + destruct (split_queue c r) as [a0 b0]. inversion H; subst. cbn. f_equal. apply IH. reflexivity.
    + inversion H; reflexivity.
Qed.

Lemma apply_queue_replies q : forall s out s' out',
  apply_queue s q out = Done (s', out') -> FR s s' /\ map fst out' = map fst out ++ nz (map ne_tid q).
Proof.
  induction q as [|ne r IH]; intros s out s' out' H; cbn [apply_queue] in H.
  - inversion H; subst. split; [apply FR_refl|]. cbn. rewrite app_nil_r. reflexivity.
  - destruct (negb _); [discriminate|].
    apply IH in H. destruct H as [F E]. split.
    + eapply FR_trans; [|exact F]. destruct (is_log_entry _); fr_solve.
    + rewrite E, map_app, <- app_assoc. f_equal. cbn [map]. rewrite nz_cons. f_equal.
      unfold one. destruct (ne_tid ne =? 0); reflexivity.
Qed.

Lemma Led_leader_apply_committed s w : leader_apply_committed s = Done w -> Led s [] w.
Proof.
  unfold leader_apply_committed. intros H.
  apply obind_inv in H. destruct H as (l & Hl & H). apply get_ldr_inv in Hl.
  destruct (split_queue (st_commit s) (ld_queue l)) as [head rest] eqn:SQ.
  apply split_queue_app in SQ.
  assert (K : forall sx r, FR (put_ldr s (l <| ld_queue := rest |>)) sx ->
            apply_queue sx head [] = Done r -> Led s [] (fst r, mkOut (snd r) [])).
  { intros sx [s2 reps] F A. apply apply_queue_replies in A. destruct A as [F2 E]. cbn [fst snd].
    pose proof (FR_trans _ _ _ F F2) as F3. clear F F2.
    led_solve. rewrite SQ, E in *. cnt_solve. }
  repeat (first [ match goal with
                  | H : apply_queue _ _ _ = Done (?a, ?b) |- _ => apply (K _ (a, b)) in H; [|fr_solve]
                  end
                | inv1w ]); assumption.
Qed.

Lemma Led_transfer_reply s r w : transfer_reply s r = Done w -> Led s [] w.
Proof.
  unfold transfer_reply. intros H.
  apply obind_inv in H. destruct H as (l & Hl & H). apply get_ldr_inv in Hl.
  unfold wreply in H. inversion H; subst w. clear H.
  led_solve.
  unfold InvK, Zk, zok_of in I0. red_key. destruct I0 as [[A B] C].
  unfold one. destruct (ld_tr_active l); [|rewrite B in *]; destruct (ld_tr_tid l =? 0) eqn:E;
    cbn; autorewrite with cn; lia.
Qed.

Lemma frw_try_transfer opt s w : try_transfer opt s = Done w -> FRW s w.
Proof.
  unfold try_transfer. intros H.
  apply obind_inv in H. destruct H as (l & Hl & H). apply get_ldr_inv in Hl.
  apply obind_inv in H. destruct H as (r & _ & H).
  repeat inv1w; unfold FRW, FR; cbn [fst snd]; autorewrite with key;
    rewrite ?(lk_ldr _ _ Hl); repeat split; reflexivity.
Qed.

(* ================================================================ the mutually recursive core *)
Definition LedT (s : nstate) (tid : N) (w : W) : Prop :=
  exists k : nat, LedC s (fun t => k * cn t (one tid))%nat w.

Lemma LedT_of_Led0 s tid w : Led s [] w -> LedT s tid w.
Proof. intros [S H]. exists 0%nat. unfold Led, LedC in *. split; [exact S|]. intros I0. destruct (H I0) as [A B]. split; [exact A|]. intros t. specialize (B t). cbn in *. lia. Qed.
Lemma LedT_of_Led1 s tid w : Led s (one tid) w -> LedT s tid w.
Proof. intros [S H]. exists 1%nat. unfold Led, LedC in *. split; [exact S|]. intros I0. destruct (H I0) as [A B]. split; [exact A|]. intros t. specialize (B t). lia. Qed.
Lemma Led0_of_LedT s w : LedT s 0 w -> Led s [] w.
Proof. intros [k [S H]]. unfold Led, LedC in *. split; [exact S|]. intros I0. destruct (H I0) as [A B]. split; [exact A|]. intros t. specialize (B t). cbn in *. lia. Qed.

Lemma LedT_bind s tid s1 o1 w2 :
  LedT s tid (s1, o1) -> LedT s1 tid w2 -> LedT s tid (fst w2, out_app o1 (snd w2)).
Proof.
  intros [k1 [S1 H1]] [k2 [S2 H2]]. exists (k1 + k2)%nat. unfold LedC in *. cbn [fst snd] in *.
  split; [congruence|].
  intros I0. destruct (H1 I0) as [A1 B1]. destruct (H2 A1) as [A2 B2]. split; [exact A2|].
  intros t. specialize (B1 t). specialize (B2 t). rewrite rt_out_app, cn_app. lia.
Qed.

Definition core_Led (opt : options) (f : nat) : Prop :=
  (forall s nes w, store_entry opt f s nes = Done w -> Led s (nz (map nq_tid nes)) w) /\
  (forall s c w, leader_change_config opt f s c = Done w -> Led s [] w) /\
  (forall s tid c w, check_config_actions opt f s tid c = Done w -> LedT s tid w) /\
  (forall s tid c id w, check_config_action opt f s tid c id = Done w -> LedT s tid w) /\
  (forall s tid c w, do_change_config opt f s tid c = Done w -> Led s (one tid) w) /\
  (forall s w, on_majority_commit opt f s = Done w -> Led s [] w) /\
  (forall s i w, leader_set_commit_index opt f s i = Done w -> Led s [] w).

Ltac use_fr :=
  match goal with
  | H : set_term _ _ = Done _ |- _ => apply fr_set_term in H
  | H : append_entry _ _ = Done _ |- _ => apply fr_append_entry in H
  | H : notify_flr _ _ = Done _ |- _ => apply fr_notify_flr in H
  | H : add_replication _ _ = Done _ |- _ => apply fr_add_replication in H
  | H : add_replications _ _ = Done _ |- _ => apply fr_add_replications in H
  | H : leader_apply_committed _ = Done _ |- _ => apply Led_leader_apply_committed in H
  | H : wreply _ _ _ = Done _ |- _ => apply Led_wreply in H
  end.

Lemma core_led opt f : core_Led opt f.
Proof.
  induction f as [|f IH].
  { unfold core_Led; repeat split; intros; discriminate. }
  destruct IH as (I1 & I2 & I3 & I4 & I5 & I6 & I7).
  unfold core_Led; split; [|split; [|split; [|split; [|split; [|split]]]]].
  - (* store_entry *)
    intros s nes w H. cbn [store_entry] in H. refold opt H.
    match type of H with wbind (?L s nes) _ = _ => set (loop := L) in H end.
    assert (HL : forall nes s w, loop s nes = Done w -> Led s (nz (map nq_tid nes)) w).
    { clear H. induction nes0 as [|ne rest IHl]; intros s0 w0 H; cbn in H.
      - inversion H; subst. apply Led_of_FRW. split; [apply FR_refl | reflexivity].
      - fold loop in H.
        repeat (first [ use_fr
                      | match goal with
                        | H : loop _ _ = Done _ |- _ => apply IHl in H
                        | H : leader_change_config opt f _ _ = Done _ |- _ => apply I2 in H
                        end
                      | inv1w ]); led_solve. }
    repeat (first [ use_fr
                  | match goal with
                    | H : loop _ _ = Done _ |- _ => apply HL in H
                    | H : on_majority_commit opt f _ = Done _ |- _ => apply I6 in H
                    end
                  | inv1w ]); led_solve.
  - (* leader_change_config *)
    intros s c w H. cbn [leader_change_config] in H. refold opt H.
    apply obind_inv in H. destruct H as (l & Hl & H). apply get_ldr_inv in Hl.
    apply obind_inv in H. destruct H as (s3 & H3 & H).
    apply I3, Led0_of_LedT in H.
    match type of H3 with fold_left ?F _ (Done ?S2) = _ =>
      assert (HF : forall x, fold_left F (c_nodes c) (Done S2) = Done x -> FR S2 x) end.
    { apply fold_left_inv.
      - intros x Hx; inversion Hx; apply FR_refl.
      - intros acc n Hacc x Hx.
        apply obind_inv in Hx. destruct Hx as (sa & Ea & Hx). subst acc. specialize (Hacc _ eq_refl).
        repeat (first [use_fr | inv1w]);
          (eapply FR_trans; [exact Hacc|]); try assumption; try apply FR_refl.
        unfold FR. autorewrite with key. split; reflexivity. }
    apply HF in H3. clear HF.
    assert (F0 : FR s s3).
    { eapply FR_trans; [|exact H3]. unfold FR. autorewrite with key.
      rewrite lk_upd_ldr by reflexivity. autorewrite with key. rewrite (lk_ldr _ _ Hl). split; reflexivity. }
    clear H3. destruct w as [s4 o4]. led_solve.
  - (* check_config_actions *)
    intros s tid c w H. cbn [check_config_actions] in H. refold opt H.
    apply obind_inv in H. destruct H as (l & Hl & H).
    apply obind_inv in H. destruct H as (r & Hr & H).
    destruct r as [[s1 out1] c1].
    assert (H1 : LedT s tid (s1, out1)).
    { repeat (first [ match goal with H : do_change_config opt f _ _ _ = Done _ |- _ => apply I5 in H end | inv1w ]);
        first [ apply LedT_of_Led1; assumption
              | apply LedT_of_Led0, Led_of_FRW; split; [apply FR_refl | reflexivity] ]. }
    clear Hr. apply obind_inv in H. destruct H as (l1 & Hl1 & H).
    revert w H. apply fold_left_inv.
    + intros w Hw; inversion Hw; subst. exact H1.
    + intros acc id Hacc w Hw.
      apply wbind_inv in Hw. destruct Hw as (sa & oa & sb & ob & Ea & Hb & Ew). subst w acc.
      specialize (Hacc _ eq_refl).
      apply (LedT_bind _ _ _ _ (sb, ob) Hacc).
      repeat (first [ match goal with H : check_config_action opt f _ _ _ _ = Done _ |- _ => apply I4 in H end | inv1w ]);
        first [ assumption | apply LedT_of_Led0, Led_of_FRW; split; [apply FR_refl | reflexivity] ].
  - (* check_config_action *)
    intros s tid c id w H. cbn [check_config_action] in H. refold opt H.
    apply obind_inv in H. destruct H as (l & Hl & H). apply get_ldr_inv in Hl.
    destruct (find_repl id (ld_repls l)) as [rp|]; [|discriminate].
    cbv zeta in H.
    repeat (first [ match goal with H : do_change_config opt f _ _ _ = Done _ |- _ => apply I5 in H end | inv1w ]);
      first [ apply LedT_of_Led0, Led_of_FRW; split;
                [unfold FR; cbn [fst snd]; autorewrite with key; split; reflexivity | reflexivity]
            | apply LedT_of_Led1; led_solve ].
  - (* do_change_config *)
    intros s tid c w H. cbn [do_change_config] in H. refold opt H. apply I1 in H.
    cbn [map nq_tid] in H. rewrite nz_cons, nz_nil, app_nil_r in H. exact H.
  - (* on_majority_commit *)
    intros s w H. cbn [on_majority_commit] in H. refold opt H.
    repeat (first [ use_fr | match goal with H : leader_set_commit_index opt f _ _ = Done _ |- _ => apply I7 in H end | inv1w ]);
      led_solve.
  - (* leader_set_commit_index *)
    intros s i w H. cbn [leader_set_commit_index] in H. refold opt H.
    pose proof (fr_raft_set_commit_index (o_shutdown_on_remove opt) (commit_log s i) i) as RS.
    destruct (raft_set_commit_index _ _ _) as [s2 committed]. cbn [fst] in RS.
    assert (RS' : FR s s2) by (eapply FR_trans; [|exact RS]; unfold FR; autorewrite with key; split; reflexivity).
    clear RS.
    repeat (first [ use_fr
                  | match goal with H : check_config_actions opt f _ _ _ = Done _ |- _ => apply I3, Led0_of_LedT in H end
                  | inv1w ]);
      led_solve.
    unfold InvK, Zk, zok_of in I0; red_key; destruct I0 as [[A B] C].
    rewrite map_map. cbn [fst]. rewrite map_id, (nz_id _ A). lia.
Qed.

Lemma Led_store_entry opt f s nes w : store_entry opt f s nes = Done w -> Led s (nz (map nq_tid nes)) w.
Proof. apply (core_led opt f). Qed.
Lemma LedT_check_config_actions opt f s tid c w : check_config_actions opt f s tid c = Done w -> LedT s tid w.
Proof. apply (core_led opt f). Qed.
Lemma LedT_check_config_action opt f s tid c id w : check_config_action opt f s tid c id = Done w -> LedT s tid w.
Proof. apply (core_led opt f). Qed.
Lemma Led_do_change_config opt f s tid c w : do_change_config opt f s tid c = Done w -> Led s (one tid) w.
Proof. apply (core_led opt f). Qed.
Lemma Led_on_majority_commit opt f s w : on_majority_commit opt f s = Done w -> Led s [] w.
Proof. apply (core_led opt f). Qed.
Lemma Led_check_config_actions0 opt f s c w : check_config_actions opt f s 0 c = Done w -> Led s [] w.
Proof. intros H. apply Led0_of_LedT. eapply LedT_check_config_actions; eauto. Qed.
Lemma Led_check_config_action0 opt f s c id w : check_config_action opt f s 0 c id = Done w -> Led s [] w.
Proof. intros H. apply Led0_of_LedT. eapply LedT_check_config_action; eauto. Qed.

(* ================================================================ a submitted configuration without actions *)
Lemma stable_node c id : is_stable c = true -> n_action (cfg_node0 c id) = ActNone.
Proof.
  unfold is_stable, cfg_node0, cfg_node. intros H. rewrite forallb_forall in H.
  induction (c_nodes c) as [|n r IH]; [reflexivity|]. cbn [find_node].
  destruct (n_id n =? id).
  - apply N.eqb_eq. apply H. left. reflexivity.
  - apply IH. intros x I. apply H. right. exact I.
Qed.

Lemma stable_next_action c id : is_stable c = true -> next_action (cfg_node0 c id) = ActNone.
Proof.
  intros H. pose proof (stable_node c id H) as A. unfold next_action. rewrite A.
  destruct (n_voter _); reflexivity.
Qed.

Lemma cca_stable opt f s tid c id w :
  is_stable c = true -> check_config_action opt f s tid c id = Done w -> w = (s, no_out).
Proof.
  intros ST H. destruct f as [|f]; [discriminate|]. cbn [check_config_action] in H.
  apply obind_inv in H. destruct H as (l & Hl & H).
  destruct (find_repl id (ld_repls l)); [|discriminate].
  cbv zeta in H. rewrite (stable_next_action c id ST) in H. cbn in H. inversion H. reflexivity.
Qed.

Lemma ccas_stable opt f s tid c w :
  is_stable c = true -> check_config_actions opt f s tid c = Done w -> fst w = s /\ rt (snd w) = [].
Proof.
  intros ST H. destruct f as [|f]; [discriminate|]. cbn [check_config_actions] in H. refold opt H.
  apply obind_inv in H. destruct H as (l & Hl & H).
  apply obind_inv in H. destruct H as (r & Hr & H).
  rewrite (stable_node c (st_nid s) ST) in Hr. rewrite andb_false_r in Hr. inversion Hr; subst r. clear Hr.
  apply obind_inv in H. destruct H as (l1 & Hl1 & H).
  revert w H. apply fold_left_inv.
  - intros w Hw. inversion Hw; subst. split; reflexivity.
  - intros acc id Hacc w Hw.
    apply wbind_inv in Hw. destruct Hw as (sa & oa & sb & ob & Ea & Hb & Ew). subst w acc.
    destruct (Hacc _ eq_refl) as [A B]. cbn [fst snd] in *. subst sa.
    apply obind_inv in Hb. destruct Hb as (l2 & _ & Hb).
    destruct (find_repl id (ld_repls l2)).
    + apply (cca_stable _ _ _ _ _ _ _ ST) in Hb. inversion Hb; subst. split; [reflexivity|].
      rewrite rt_out_app, B. reflexivity.
    + unfold wret in Hb. inversion Hb; subst. split; [reflexivity|]. rewrite rt_out_app, B. reflexivity.
Qed.

(* ================================================================ a submitted configuration with actions *)
(* checkConfigActions hands the task to doChangeConfig for the first action that is ready.  Under
   [covered_change] the configuration appended for it stays uncommitted until the call returns
   (the leader cannot commit alone), canChangeConfig is false for the remaining actions, and
   onChangeConfig sees the index of Latest changed and does not append the submitted one. *)
(* ---------------------------------------------------------------- nodes_ok is kept by the actions *)
Lemma find_node_some id l n : find_node id l = Some n -> In n l /\ n_id n = id.
Proof.
  induction l as [|m r IH]; [discriminate|]. cbn [find_node]. destruct (n_id m =? id) eqn:E.
  - intros H; inversion H; subst. apply N.eqb_eq in E. split; [left; reflexivity | exact E].
  - intros H. destruct (IH H) as [A B]. split; [right; exact A | exact B].
Qed.

Lemma enc_node_wva_len n v a : length (enc_node (with_voter_action n v a)) = length (enc_node n).
Proof. unfold enc_node, with_voter_action. cbn [n_id n_addr n_voter n_data n_action]. rewrite !app_length. reflexivity. Qed.

Lemma put_node_found n' l n :
  find_node (n_id n') l = Some n ->
  map n_id (put_node n' l) = map n_id l /\
  (length (enc_node n') = length (enc_node n) ->
   length (concat (map enc_node (put_node n' l))) = length (concat (map enc_node l))) /\
  (forall P : node -> Prop, P n' -> Forall P l -> Forall P (put_node n' l)).
Proof.
  induction l as [|m r IH]; [discriminate|]. cbn [find_node put_node]. destruct (n_id m =? n_id n') eqn:E.
  - intros H; inversion H; subst m. apply N.eqb_eq in E. split; [cbn; congruence|]. split.
    + intros L. cbn [map concat]. rewrite !app_length. lia.
    + intros P Pn F. inversion F; subst. constructor; assumption.
  - intros H. destruct (IH H) as (A & B & C). split; [cbn; congruence|]. split.
    + intros L. cbn [map concat]. rewrite !app_length, (B L). reflexivity.
    + intros P Pn F. inversion F; subst. constructor; auto.
Qed.

Lemma filter_nodes_ok (p : node -> bool) ns : nodes_ok ns -> nodes_ok (filter p ns).
Proof.
  intros (F & ND & W). split; [|split].
  - apply Forall_forall. intros x I. apply filter_In in I. rewrite Forall_forall in F. apply F, I.
  - clear F W. induction ns as [|m r IH]; [constructor|]. cbn [map] in ND. inversion ND; subst.
    cbn [filter]. destruct (p m); [|auto]. cbn [map]. constructor; [|auto].
    intros I. apply H1. apply in_map_iff in I. destruct I as (x & E & I). apply filter_In in I.
    apply in_map_iff. exists x. split; [exact E | apply I].
  - unfold wfstr, enc_config_data in *. rewrite app_length in *. unfold wU32 in *. rewrite le_enc_length in *.
    assert (L : (length (concat (map enc_node (filter p ns))) <= length (concat (map enc_node ns)))%nat).
    { clear. induction ns as [|m r IH]; [apply Nat.le_refl|]. cbn [filter]. destruct (p m); cbn [map concat]; rewrite ?app_length; lia. }
    lia.
Qed.

Lemma set_node_ok c id v a :
  nodes_ok (c_nodes c) -> cfg_node c id <> None -> (a = ActNone \/ a = n_action (cfg_node0 c id)) ->
  nodes_ok (c_nodes (cfg_set_node c (with_voter_action (cfg_node0 c id) v a))).
Proof.
  intros (F & ND & W) NN HA. unfold cfg_node0 in *. unfold cfg_node in *.
  destruct (find_node id (c_nodes c)) as [n|] eqn:FN; [|congruence].
  destruct (find_node_some _ _ _ FN) as [I E].
  assert (FN' : find_node (n_id (with_voter_action n v a)) (c_nodes c) = Some n) by (cbn; rewrite E; exact FN).
  destruct (put_node_found _ _ _ FN') as (A & B & C).
  unfold cfg_set_node. cbn [c_nodes]. split; [|split].
  - apply C; [|exact F]. rewrite Forall_forall in F. destruct (F n I) as (W1 & W2 & W3 & W4).
    unfold wf_node, with_voter_action. cbn. repeat split; auto.
    destruct HA as [->| ->]; [unfold u8, ActNone; lia | exact W4].
  - rewrite A. exact ND.
  - unfold wfstr, enc_config_data in *. rewrite app_length in *. unfold wU32 in *. rewrite le_enc_length in *.
    rewrite (B (enc_node_wva_len n v a)). exact W.
Qed.

Lemma next_action_zero : next_action zero_node = ActNone. Proof. reflexivity. Qed.

Lemma cand_ok c id cx : nodes_ok (c_nodes c) -> cand c id = Some cx -> nodes_ok (c_nodes cx).
Proof.
  intros OK. unfold cand.
  assert (NN : next_action (cfg_node0 c id) <> ActNone -> cfg_node c id <> None).
  { unfold cfg_node0. destruct (cfg_node c id); [discriminate|]. rewrite next_action_zero. intros H; exfalso; apply H; reflexivity. }
  destruct (next_action (cfg_node0 c id) =? ActNone) eqn:E0; [discriminate|]. apply N.eqb_neq in E0. specialize (NN E0).
  destruct (_ =? ActPromote).
  { intros H; inversion H; subst. apply set_node_ok; auto. }
  destruct (_ || _).
  { intros H; inversion H; subst. apply filter_nodes_ok. exact OK. }
  intros H; inversion H; subst. apply set_node_ok; auto. destruct (_ =? ActDemote); auto.
Qed.

Lemma cand_self_ok c me cx : nodes_ok (c_nodes c) -> cand_self c me = Some cx -> nodes_ok (c_nodes cx).
Proof.
  intros OK. unfold cand_self.
  assert (NN : n_action (cfg_node0 c me) <> ActNone -> cfg_node c me <> None).
  { unfold cfg_node0. destruct (cfg_node c me); [discriminate|]. cbn. intros H; exfalso; apply H; reflexivity. }
  destruct (n_action (cfg_node0 c me) =? ActNone) eqn:E0; [discriminate|]. apply N.eqb_neq in E0. specialize (NN E0).
  destruct (_ =? ActDemote).
  { intros H; inversion H; subst. apply set_node_ok; auto. }
  intros H; inversion H; subst. apply filter_nodes_ok. exact OK.
Qed.

(* the leader's own action leaves it without a vote *)
Lemma cand_self_not_solo c me cx : cand_self c me = Some cx -> solo cx me = false.
Proof.
  unfold cand_self, solo, is_voter.
  destruct (n_action (cfg_node0 c me) =? ActNone) eqn:E0; [discriminate|]. apply N.eqb_neq in E0.
  assert (FN : exists n, find_node me (c_nodes c) = Some n /\ cfg_node0 c me = n).
  { unfold cfg_node0, cfg_node in *. destruct (find_node me (c_nodes c)) as [n|]; [eauto|]. exfalso; apply E0; reflexivity. }
  destruct FN as (n & FN & EN). rewrite EN.
  destruct (_ =? ActDemote); intros H; inversion H; subst cx; clear H; apply andb_false_intro2.
  - unfold cfg_node, cfg_set_node. cbn [c_nodes].
    assert (K : forall l, find_node (n_id n) l = Some n ->
              find_node (n_id n) (put_node (with_voter_action n false ActNone) l) = Some (with_voter_action n false ActNone)).
    { clear. induction l as [|m r IH]; [discriminate|]. cbn [find_node put_node with_voter_action n_id].
      destruct (n_id m =? n_id n) eqn:E; intros H.
      - cbn [find_node n_id]. rewrite N.eqb_refl. reflexivity.
      - cbn [find_node]. rewrite E. exact (IH H). }
    destruct (find_node_some _ _ _ FN) as [_ EI]. subst me.
    rewrite (K _ FN). reflexivity.
  - unfold cfg_node, cfg_del_node. cbn [c_nodes].
    assert (K : forall l, find_node me (filter (fun n0 => negb (n_id n0 =? me)) l) = None).
    { induction l as [|m r IH]; [reflexivity|]. cbn [filter]. destruct (n_id m =? me) eqn:E; cbn [negb]; [exact IH|].
      cbn [find_node]. rewrite E. exact IH. }
    rewrite K. reflexivity.
Qed.

Lemma codec_roundtrip ns i t :
  nodes_ok ns -> config_of_entry (mkEntry i t entryConfig (enc_config_data ns)) = Some (mkConfig ns i t).
Proof.
  intros (F & ND & W). unfold config_of_entry. cbn [e_typ e_data e_index e_term]. rewrite N.eqb_refl.
  rewrite <- (app_nil_r (enc_config_data ns)). rewrite config_data_sound by assumption. reflexivity.
Qed.

Section Act.
Variable opt : options.

Definition bkl (l : ldrst) := (ld_voter l, ld_numvoters l, ld_start l, ld_tr_active l).
Definition bk (s : nstate) :=
  (st_nid s, st_lastidx s, st_latest s, st_committed s, st_commit s, option_map bkl (st_ldr s)).
Definition QS (s s' : nstate) : Prop := bk s' = bk s /\ lk s' = lk s /\ sk s' = sk s.

Lemma QS_refl s : QS s s. Proof. repeat split. Qed.
Lemma QS_trans a b c : QS a b -> QS b c -> QS a c.
Proof. unfold QS. intros (A1 & A2 & A3) (B1 & B2 & B3). repeat split; congruence. Qed.

Lemma bk_upd_ldr s f : (forall l, bkl (f l) = bkl l) -> bk (upd_ldr s f) = bk s.
Proof. intros H. unfold upd_ldr, bk. destruct (st_ldr s) eqn:E; cbn; [rewrite H | rewrite E]; reflexivity. Qed.
Lemma QS_upd_repl s i f : QS s (upd_repl s i f).
Proof. split; [apply bk_upd_ldr; reflexivity|]. split; [apply lk_upd_repl | apply sk_upd_repl]. Qed.

Lemma bk_ldr s s' l : bk s' = bk s -> st_ldr s = Some l ->
  exists l', st_ldr s' = Some l' /\ bkl l' = bkl l.
Proof.
  unfold bk. intros H Hl. inversion H as [[H1 H2 H3 H4 H5 H6]]. rewrite Hl in H6.
  destruct (st_ldr s') as [l'|]; [|discriminate]. cbn [option_map] in H6. exists l'. split; [reflexivity | congruence].
Qed.

Lemma bk_can_change s s' l l' : bk s' = bk s -> st_ldr s = Some l -> st_ldr s' = Some l' ->
  can_change_config s' l' = can_change_config s l.
Proof.
  unfold bk. intros H Hl Hl'. inversion H as [[H1 H2 H3 H4 H5 H6]]. rewrite Hl, Hl' in H6. cbn in H6.
  inversion H6 as [[E1 E2 E3 E4]].
  unfold can_change_config, configs_committed, transfer_in_progress. rewrite H3, H4, H5, E3, E4. reflexivity.
Qed.


Lemma bk_put_ldr s l l' : st_ldr s = Some l -> bkl l' = bkl l -> bk (put_ldr s l') = bk s.
Proof. intros Hl E. unfold bk, put_ldr. cbn. rewrite Hl. cbn. rewrite E. reflexivity. Qed.
Lemma bk_begin_finished_rounds s : bk (begin_finished_rounds s) = bk s.
Proof. apply bk_upd_ldr. reflexivity. Qed.
Lemma bk_notify_flr s b s' : notify_flr s b = Done s' -> bk s' = bk s.
Proof. unfold notify_flr. intros H. repeat inv1w. eapply bk_put_ldr; [eassumption | reflexivity]. Qed.
Lemma bk_add_replication s n s' : add_replication s n = Done s' -> bk s' = bk s.
Proof. unfold add_replication. intros H. repeat inv1w. eapply bk_put_ldr; [eassumption | reflexivity]. Qed.

Lemma bk_apply_queue q : forall s out r, apply_queue s q out = Done r -> bk (fst r) = bk s.
Proof.
  induction q as [|ne r IH]; intros s out x H; cbn [apply_queue] in H.
  - inversion H; reflexivity.
  - destruct (negb _); [discriminate|]. apply IH in H. rewrite H. destruct (is_log_entry _); reflexivity.
Qed.

Lemma bk_leader_apply_committed s w : leader_apply_committed s = Done w -> bk (fst w) = bk s.
Proof.
  unfold leader_apply_committed. intros H.
  apply obind_inv in H. destruct H as (l & Hl & H). apply get_ldr_inv in Hl.
  destruct (split_queue (st_commit s) (ld_queue l)) as [head rest].
  assert (B : bk (put_ldr s (l <| ld_queue := rest |>)) = bk s) by (eapply bk_put_ldr; [eassumption | reflexivity]).
  repeat (first [ match goal with
                  | H : apply_queue _ _ _ = Done (_, _) |- _ => apply bk_apply_queue in H; cbn [fst] in H
                  end
                | inv1w ]); cbn [fst]; try congruence;
    match goal with HB : bk ?n = bk _ |- bk ?n = _ => rewrite HB end;
    try match goal with |- bk (if ?b then _ else _) = _ => destruct b end; exact B.
Qed.

(* nothing is handed to doChangeConfig while a configuration change is not allowed *)
Definition blocked (s : nstate) : Prop := forall l, st_ldr s = Some l -> can_change_config s l = false.

Lemma blocked_QS s s' : QS s s' -> blocked s -> blocked s'.
Proof.
  intros (B & _ & _) BL l' Hl'. destruct (st_ldr s) as [l|] eqn:Hl.
  - rewrite (bk_can_change _ _ _ _ B Hl Hl'). apply BL. exact Hl.
  - unfold bk in B. inversion B as [[H1 H2 H3 H4 H5 H6]]. rewrite Hl, Hl' in H6. discriminate.
Qed.

Lemma cca_inv f s tid c id w :
  check_config_action opt f s tid c id = Done w ->
  (QS s (fst w) /\ rt (snd w) = []) \/
  (exists f' s1 l1 cx, QS s s1 /\ st_ldr s1 = Some l1 /\ can_change_config s1 l1 = true /\ cand c id = Some cx /\
       do_change_config opt f' s1 tid cx = Done w).
Proof.
  destruct f as [|f]; [discriminate|]. cbn [check_config_action]. intros H. refold opt H.
  apply obind_inv in H. destruct H as (l & Hl & H). apply get_ldr_inv in Hl.
  destruct (find_repl id (ld_repls l)) as [rp|]; [|discriminate].
  cbv zeta in H. unfold cand.
  destruct (next_action (cfg_node0 c id) =? ActNone).
  { left. inversion H; subst. split; [apply QS_refl | reflexivity]. }
  match type of H with (if ?b then wret ?x else _) = _ => set (s1 := x) in H; destruct b end.
  { left. inversion H; subst. split; [apply QS_upd_repl | reflexivity]. }
  apply obind_inv in H. destruct H as (l1 & Hl1 & H). apply get_ldr_inv in Hl1.
  destruct (can_change_config s1 l1) eqn:CC; cbn [negb] in H.
  2:{ left. inversion H; subst. split; [apply QS_upd_repl | reflexivity]. }
  assert (Q : QS s s1) by apply QS_upd_repl.
  destruct (next_action (cfg_node0 c id) =? ActPromote).
  { right. exists f, s1, l1. eexists. repeat split; try apply Q; try eassumption. }
  destruct (next_action (cfg_node0 c id) =? ActRemove).
  { cbn [orb]. destruct (_ <=? _).
    - right. exists f, s1, l1. eexists. repeat split; try apply Q; try eassumption.
    - left. inversion H; subst. split; [apply QS_upd_repl | reflexivity]. }
  destruct (next_action (cfg_node0 c id) =? ActForceRemove).
  { cbn [orb]. right. exists f, s1, l1. eexists. repeat split; try apply Q; try eassumption. }
  cbn [orb]. right. exists f, s1, l1. eexists. repeat split; try apply Q; try eassumption.
Qed.

Lemma cca_blocked f s tid c id w :
  blocked s -> check_config_action opt f s tid c id = Done w -> QS s (fst w) /\ rt (snd w) = [].
Proof.
  intros BL H. apply cca_inv in H. destruct H as [H|(f' & s1 & l1 & cx & Q & Hl1 & CC & _)]; [exact H|].
  rewrite (blocked_QS _ _ Q BL _ Hl1) in CC. discriminate.
Qed.

Definition ccas_step (f : nat) (tid : N) (c1 : config) :=
  (fun (acc : outcome W) (id : N) =>
      s <~~ acc ;;
      l <~ get_ldr s ;;
      match find_repl id (ld_repls l) with
      | None => wret s
      | Some _ => check_config_action opt f s tid c1 id
      end).

Lemma ccas_fold_blocked f tid c1 visit : forall s0 o0 w,
  blocked s0 -> fold_left (ccas_step f tid c1) visit (Done (s0, o0)) = Done w ->
  QS s0 (fst w) /\ rt (snd w) = rt o0.
Proof.
  intros s0 o0 w BL. revert w.
  apply fold_left_inv.
  - intros w H; inversion H; subst. split; [apply QS_refl | reflexivity].
  - intros acc id Hacc w Hw. unfold ccas_step in Hw.
    apply wbind_inv in Hw. destruct Hw as (sa & oa & sb & ob & Ea & Hb & ->). subst acc.
    destruct (Hacc _ eq_refl) as [QA RA]. cbn [fst snd] in *.
    apply obind_inv in Hb. destruct Hb as (l & _ & Hb).
    destruct (find_repl id (ld_repls l)).
    + apply cca_blocked in Hb; [|eapply blocked_QS; eassumption]. destruct Hb as [QB RB]. cbn [fst snd] in *.
      split; [eapply QS_trans; eassumption|]. rewrite rt_out_app, RA, RB, app_nil_r. reflexivity.
    + inversion Hb; subst. split; [exact QA|]. rewrite rt_out_app, RA, app_nil_r. reflexivity.
Qed.

Lemma ccas_blocked f s tid c w :
  blocked s -> check_config_actions opt f s tid c = Done w -> QS s (fst w) /\ rt (snd w) = [].
Proof.
  intros BL. destruct f as [|f]; [discriminate|]. cbn [check_config_actions]. intros H. refold opt H.
  apply obind_inv in H. destruct H as (l & Hl & H). apply get_ldr_inv in Hl.
  rewrite (BL _ Hl) in H. cbn [andb] in H. cbn [obind] in H.
  apply obind_inv in H. destruct H as (l1 & _ & H).
  apply (ccas_fold_blocked f tid c _ s no_out w BL) in H. exact H.
Qed.

(* the projection after leader.changeConfig installed c *)
Definition bk_after (s : nstate) (l : ldrst) (c : config) :=
  (st_nid s, st_lastidx s, c, st_latest s, st_commit s,
   Some (is_voter c (st_nid s), num_voters c, ld_start l, ld_tr_active l)).

Lemma lcc_closes f s l c w :
  st_ldr s = Some l -> c_index c <> c_index (st_latest s) ->
  leader_change_config opt f s c = Done w -> bk (fst w) = bk_after s l c.
Proof.
  intros Hl NE. destruct f as [|f]; [discriminate|]. cbn [leader_change_config]. intros H. refold opt H.
  apply obind_inv in H. destruct H as (l0 & Hl0 & H). apply get_ldr_inv in Hl0.
  assert (l0 = l) by congruence. subst l0. clear Hl0.
  apply obind_inv in H. destruct H as (s3 & H3 & H).
  match type of H3 with fold_left ?F _ (Done ?S2) = _ =>
    assert (HF : forall x, fold_left F (c_nodes c) (Done S2) = Done x -> bk x = bk S2) end.
  { apply fold_left_inv.
    - intros x Hx; inversion Hx; reflexivity.
    - intros acc n Hacc x Hx.
      apply obind_inv in Hx. destruct Hx as (sa & Ea & Hx). subst acc. specialize (Hacc _ eq_refl).
      destruct (n_id n =? st_nid sa). { inversion Hx; subst. exact Hacc. }
      apply obind_inv in Hx. destruct Hx as (la & _ & Hx).
      destruct (find_repl _ _).
      + inversion Hx; subst. rewrite <- Hacc. apply bk_upd_ldr. reflexivity.
      + apply bk_add_replication in Hx. congruence. }
  apply HF in H3. clear HF.
  assert (B3 : bk s3 = bk_after s l c).
  { rewrite H3. rewrite bk_upd_ldr by reflexivity.
    unfold bk_after, bk, change_config, is_voter. destruct (_ && _); cbn; rewrite ?Hl; reflexivity. }
  clear H3.
  apply ccas_blocked in H; [destruct H as [(B & _) _]; congruence|].
  intros l3 Hl3. unfold can_change_config, configs_committed.
  unfold bk_after, bk in B3. inversion B3 as [[E1 E2 E3 E4 E5 E6]]. rewrite E3, E4.
  apply N.eqb_neq in NE. rewrite NE. reflexivity.
Qed.

Lemma dcc_closes f s l tid cx w :
  st_ldr s = Some l -> ld_tr_active l = false -> ld_voter l = true ->
  nodes_ok (c_nodes cx) -> solo cx (st_nid s) = false ->
  c_index (st_latest s) <> st_lastidx s + 1 ->
  do_change_config opt f s tid cx = Done w ->
  configs_committed (fst w) = false /\ c_index (st_latest (fst w)) = st_lastidx s + 1.
Proof.
  intros Hl TA LV OK NS F2. assert (F2b : st_lastidx s + 1 <> c_index (st_latest s)) by congruence.
  destruct f as [|f]; [discriminate|]. cbn [do_change_config].
  destruct f as [|f]; [discriminate|]. cbn [store_entry].
  intros H. refold opt H.
  apply wbind_inv in H. destruct H as (s1 & o1 & s2 & o2 & H1 & H2 & ->). cbn [fst].
  cbn [nq_typ nq_data nq_tid e_index e_typ e_data e_term] in H1.
  (* the loop: the entry is appended and the configuration installed *)
  assert (B1 : bk s1 = bk_after (set_log s (st_logprev s) (st_log s) (st_lastidx s + 1) (st_term s)) l
                                (mkConfig (c_nodes cx) (st_lastidx s + 1) (st_term s))).
  { apply obind_inv in H1. destruct H1 as (l0 & Hl0 & H1). apply get_ldr_inv in Hl0.
    assert (l0 = l) by congruence. subst l0. clear Hl0.
    unfold transfer_in_progress in H1. rewrite TA, LV in H1. cbn [negb] in H1.
    change (is_log_entry entryConfig) with true in H1. cbv iota in H1.
    apply obind_inv in H1. destruct H1 as (sa & HA & H1).
    rewrite N.eqb_refl in H1. rewrite (codec_roundtrip _ _ _ OK) in H1.
    apply wbind_inv in H1. destruct H1 as (s3 & o3 & s4 & o4 & H3 & H4 & E). inversion H4; subst s4 o4. clear H4.
    inversion E; subst s1 o1. clear E.
    unfold append_entry in HA. cbn [e_index e_term] in HA.
    match type of HA with (if ?b then _ else _) = _ => destruct b end; [|discriminate].
    inversion HA; subst sa. clear HA.
    eapply lcc_closes in H3; [| reflexivity | cbn; exact F2b].
    exact H3. }
  clear H1.
  apply obind_inv in H2. destruct H2 as (l1 & Hl1 & H2).
  apply wbind_inv in H2. destruct H2 as (s3 & o3 & s4 & o4 & H3 & H4 & E). inversion E; subst s4 o2. clear E.
  assert (B3 : bk s3 = bk s1).
  { destruct (ld_queue l1) as [|ne q]; [inversion H3; reflexivity|].
    destruct (negb _); [apply bk_leader_apply_committed in H3; exact H3 | inversion H3; reflexivity]. }
  clear H3. rewrite B1 in B3. clear B1.
  assert (L3 : st_lastidx s3 = st_lastidx s + 1) by (unfold bk, bk_after in B3; inversion B3; reflexivity).
  rewrite L3 in H4. assert (LT : (st_lastidx s <? st_lastidx s + 1) = true) by (apply N.ltb_lt; lia).
  rewrite LT in H4. clear LT.
  apply obind_inv in H4. destruct H4 as (s5 & H5 & H4).
  apply bk_notify_flr in H5. rewrite bk_begin_finished_rounds, B3 in H5. clear B3.
  apply obind_inv in H4. destruct H4 as (l5 & Hl5 & H4). apply get_ldr_inv in Hl5.
  unfold bk, bk_after in H5. rewrite Hl5 in H5. cbn [option_map bkl] in H5.
  injection H5 as E1 E2 E3 E4 E5 E6 E7 E8 E9.
  assert (SOLO : (ld_numvoters l5 =? 1) && ld_voter l5 = false).
  { rewrite E6, E7. exact NS. }
  rewrite SOLO in H4. inversion H4; subst s2 o4.
  unfold configs_committed. rewrite E3, E4. cbn [c_index]. split; [|reflexivity].
  apply N.eqb_neq. exact F2b.
Qed.

Lemma bk_fields s s' : bk s' = bk s ->
  st_nid s' = st_nid s /\ st_lastidx s' = st_lastidx s /\ st_latest s' = st_latest s /\
  configs_committed s' = configs_committed s.
Proof.
  unfold bk, configs_committed. intros H. injection H as E1 E2 E3 E4 E5 E6. rewrite E3, E4. auto.
Qed.

Lemma Led_pre_QS s s1 sub w : QS s s1 -> Led s1 sub w -> Led s sub w.
Proof. intros (_ & L & S). unfold Led, LedC. rewrite L, S. auto. Qed.

Lemma Led_post_QS s sub sa oa sb ob :
  Led s sub (sa, oa) -> QS sa sb -> rt ob = [] -> Led s sub (sb, out_app oa ob).
Proof.
  intros H (_ & L & S) R. unfold Led, LedC in *. cbn [fst snd] in *.
  rewrite rt_out_app, R, app_nil_r, L, S. exact H.
Qed.

Lemma Led_prefix_quiet s sub oa sb ob : rt oa = [] -> Led s sub (sb, ob) -> Led s sub (sb, out_app oa ob).
Proof. intros R H. unfold Led, LedC in *. cbn [fst snd] in *. rewrite rt_out_app, R. exact H. Qed.

(* nothing carried out yet / one action carried out, the configuration it appended is in flight *)
Definition NFd (s : nstate) (w : W) : Prop := QS s (fst w) /\ rt (snd w) = [].
Definition FDd (s : nstate) (tid : N) (w : W) : Prop :=
  Led s (one tid) w /\ configs_committed (fst w) = false /\ c_index (st_latest (fst w)) = st_lastidx s + 1.

Lemma fire_closes f s0 l0 s1 l1 tid cx w :
  st_ldr s0 = Some l0 -> (ld_tr_active l0 = false -> ld_voter l0 = true) ->
  c_index (st_latest s0) <= st_lastidx s0 ->
  QS s0 s1 -> st_ldr s1 = Some l1 -> can_change_config s1 l1 = true ->
  nodes_ok (c_nodes cx) -> solo cx (st_nid s0) = false ->
  do_change_config opt f s1 tid cx = Done w -> FDd s0 tid w.
Proof.
  intros Hl0 LV F2 Q Hl1 CC OK NS H. pose proof Q as (B & _ & _).
  destruct (bk_fields _ _ B) as (E1 & E2 & E3 & _).
  destruct (bk_ldr _ _ _ B Hl0) as (l1' & Hl1' & EL). assert (l1' = l1) by congruence. subst l1'.
  unfold bkl in EL. injection EL as V1 V2 V3 V4.
  unfold can_change_config, transfer_in_progress in CC.
  apply andb_true_iff in CC. destruct CC as [_ CC]. apply negb_true_iff in CC.
  split; [eapply Led_pre_QS; [exact Q | eapply Led_do_change_config; exact H]|].
  rewrite <- E2. eapply dcc_closes; [exact Hl1 | exact CC | rewrite V1; apply LV; congruence | exact OK | congruence | | exact H].
  rewrite E2, E3. lia.
Qed.

Lemma no_solo_cand c me id cx : no_solo c me = true -> cand c id = Some cx -> solo cx me = false.
Proof.
  unfold no_solo. rewrite forallb_forall. intros H C.
  assert (FN : exists n, In n (c_nodes c) /\ n_id n = id).
  { unfold cand, cfg_node0, cfg_node in C. destruct (find_node id (c_nodes c)) as [n|] eqn:FN.
    - exists n. eapply find_node_some; eassumption.
    - rewrite next_action_zero in C. cbn in C. discriminate. }
  destruct FN as (n & I & E). specialize (H n I). rewrite E, C in H. apply negb_true_iff in H. exact H.
Qed.

Lemma ccas_once f s l tid c w :
  st_ldr s = Some l -> (ld_tr_active l = false -> ld_voter l = true) -> c_index (st_latest s) <= st_lastidx s ->
  nodes_ok (c_nodes c) -> no_solo c (st_nid s) = true ->
  check_config_actions opt f s tid c = Done w -> NFd s w \/ FDd s tid w.
Proof.
  intros Hl LV F2 OK NS. destruct f as [|f]; [discriminate|]. cbn [check_config_actions]. intros H. refold opt H.
  apply obind_inv in H. destruct H as (l0 & Hl0 & H). apply get_ldr_inv in Hl0.
  assert (l0 = l) by congruence. subst l0. clear Hl0.
  apply obind_inv in H. destruct H as (r & Hr & H). destruct r as [[s1 out1] c1].
  assert (H1 : (NFd s (s1, out1) /\ c1 = c) \/ FDd s tid (s1, out1)).
  { destruct (can_change_config s l && negb (n_action (cfg_node0 c (st_nid s)) =? ActNone)) eqn:CC.
    - apply andb_true_iff in CC. destruct CC as [CC NA]. apply negb_true_iff in NA.
      right.
      assert (K : forall cx w0, cand_self c (st_nid s) = Some cx -> do_change_config opt f s tid cx = Done w0 -> FDd s tid w0).
      { intros cx w0 CS D.
        apply (fire_closes f s l s l tid cx w0 Hl LV F2 (QS_refl s) Hl CC);
          [eapply cand_self_ok; eassumption | eapply cand_self_not_solo; eassumption | exact D]. }
      unfold cand_self in K. rewrite NA in K.
      destruct (n_action (cfg_node0 c (st_nid s)) =? ActDemote).
      + apply obind_inv in Hr. destruct Hr as (w0 & D & Hr). inversion Hr; subst. eapply K; [reflexivity | exact D].
      + destruct (_ || _); [|discriminate].
        apply obind_inv in Hr. destruct Hr as (w0 & D & Hr). inversion Hr; subst. eapply K; [reflexivity | exact D].
    - inversion Hr; subst. left. split; [split; [apply QS_refl | reflexivity] | reflexivity]. }
  clear Hr. apply obind_inv in H. destruct H as (l1 & _ & H).
  cut ((NFd s w /\ c1 = c) \/ FDd s tid w). { intros [[A _]|A]; auto. }
  revert w H. apply fold_left_inv.
  - intros w Hw; inversion Hw; subst. exact H1.
  - clear H1. intros acc id Hacc w Hw.
    apply wbind_inv in Hw. destruct Hw as (sa & oa & sb & ob & Ea & Hb & ->). subst acc.
    specialize (Hacc _ eq_refl).
    apply obind_inv in Hb. destruct Hb as (la & _ & Hb).
    assert (Hb' : (QS sa sb /\ rt ob = []) \/
                  (exists f' s1 l1 cx, QS sa s1 /\ st_ldr s1 = Some l1 /\ can_change_config s1 l1 = true /\
                      cand c1 id = Some cx /\ do_change_config opt f' s1 tid cx = Done (sb, ob))).
    { destruct (find_repl id (ld_repls la)); [apply cca_inv in Hb; exact Hb|].
      inversion Hb; subst. left. split; [apply QS_refl | reflexivity]. }
    clear Hb. destruct Hacc as [[[QA RA] EC]|(LA & CA & IA)]; cbn [fst snd] in *.
    + destruct Hb' as [[QB RB]|(f' & s1' & l1' & cx & Q1 & Hl1' & CC & CD & D)].
      * left. split; [|exact EC]. split; cbn [fst snd]; [eapply QS_trans; eassumption|].
        rewrite rt_out_app, RA, RB. reflexivity.
      * right. subst c1.
        assert (FD : FDd s tid (sb, ob)).
        { apply (fire_closes f' s l s1' l1' tid cx (sb, ob) Hl LV F2 (QS_trans _ _ _ QA Q1) Hl1' CC);
            [eapply cand_ok; eassumption | eapply no_solo_cand; eassumption | exact D]. }
        destruct FD as (L & C & I). split; [apply Led_prefix_quiet; assumption | split; assumption].
    + right. destruct Hb' as [[QB RB]|(f' & s1' & l1' & cx & Q1 & Hl1' & CC & CD & D)].
      * destruct QB as (BB & LB & SB). destruct (bk_fields _ _ BB) as (_ & _ & E3 & E4).
        split; [apply Led_post_QS with sa; [exact LA | repeat split; assumption | exact RB]|].
        cbn [fst]. rewrite E3, E4. split; assumption.
      * exfalso. destruct Q1 as (B1 & _). destruct (bk_fields _ _ B1) as (_ & _ & _ & E4).
        unfold can_change_config in CC. rewrite E4, CA in CC. discriminate.
Qed.

Lemma Led_on_change_config_act s l tid c w :
  st_ldr s = Some l -> (ld_tr_active l = false -> ld_voter l = true) -> c_index (st_latest s) <= st_lastidx s ->
  nodes_ok (c_nodes c) -> no_solo c (st_nid s) = true ->
  on_change_config opt s tid c = Done w -> Led s (one tid) w.
Proof.
  intros Hl LV F2 OK NS. unfold on_change_config. intros H.
  apply obind_inv in H. destruct H as (l0 & Hl0 & H).
  repeat match type of H with
         | (if ?b then wreply _ _ _ else _) = _ => destruct b; [apply Led_wreply in H; exact H|]
         end.
  apply wbind_inv in H. destruct H as (s1 & o1 & s2 & o2 & H1 & H2 & ->).
  eapply ccas_once in H1; try eassumption.
  destruct H1 as [[Q R]|(L & C & I)]; cbn [fst snd] in *.
  - pose proof Q as (B & _). destruct (bk_fields _ _ B) as (_ & _ & E3 & _).
    rewrite E3, N.eqb_refl in H2. apply Led_do_change_config in H2.
    apply Led_prefix_quiet; [exact R|]. eapply Led_pre_QS; eassumption.
  - assert (NE : (c_index (st_latest s1) =? c_index (st_latest s)) = false) by (apply N.eqb_neq; lia).
    rewrite NE in H2. inversion H2; subst. apply Led_post_QS with s2; [exact L | apply QS_refl | reflexivity].
Qed.
End Act.

Lemma wf_config_nodes_ok c : wf_config c -> nodes_ok (c_nodes c).
Proof. intros (_ & _ & A & B & C). repeat split; assumption. Qed.

(* ================================================================ the other leader events *)
Lemma fr_check_quorum opt s b s' : check_quorum opt s b = Done s' -> FR s s'.
Proof.
  unfold check_quorum. intros H.
  apply obind_inv in H. destruct H as (l & _ & H).
  apply obind_inv in H. destruct H as (r & _ & H).
  destruct r as [voters reachable].
  repeat inv1w; fr_solve.
Qed.

Lemma fr_check_log_compact opt s s' : check_log_compact opt s = Done s' -> FR s s'.
Proof. unfold check_log_compact. intros H. repeat inv1w; fr_solve. Qed.

Ltac use_ev :=
  match goal with
  | H : store_entry _ _ _ _ = Done _ |- _ => apply Led_store_entry in H
  | H : check_config_actions _ _ _ 0 _ = Done _ |- _ => apply Led_check_config_actions0 in H
  | H : check_config_action _ _ _ 0 _ _ = Done _ |- _ => apply Led_check_config_action0 in H
  | H : do_change_config _ _ _ _ _ = Done _ |- _ => apply Led_do_change_config in H
  | H : on_majority_commit _ _ _ = Done _ |- _ => apply Led_on_majority_commit in H
  | H : try_transfer _ _ = Done _ |- _ => apply frw_try_transfer, Led_of_FRW in H
  | H : transfer_reply _ _ = Done _ |- _ => apply Led_transfer_reply in H
  | H : check_quorum _ _ _ = Done _ |- _ => apply fr_check_quorum in H
  | H : check_log_compact _ _ = Done _ |- _ => apply fr_check_log_compact in H
  end.
Ltac ego := repeat (first [use_fr | use_ev | inv1w]).

Lemma Led_reply_transfer opt s r w : reply_transfer opt s r = Done w -> Led s [] w.
Proof. unfold reply_transfer. intros H. ego; led_solve. Qed.

Lemma Led_on_wait_stable s tid w : tid <> 0 -> on_wait_stable s tid = Done w -> Led s (one tid) w.
Proof.
  intros NZ. unfold on_wait_stable. intros H. ego; led_solve.
  unfold InvK, Zk, SIk, zok_of in *. red_key. destruct I0 as [[A B] C].
  repeat split; auto. rewrite in_app_iff. intros [I|[I|[]]]; auto.
Qed.

Lemma Led_on_transfer opt s tid tg w : tid <> 0 -> on_transfer opt s tid tg = Done w -> Led s (one tid) w.
Proof.
  intros NZ. unfold on_transfer. intros H.
  apply obind_inv in H. destruct H as (l & Hl & H). apply get_ldr_inv in Hl.
  destruct (transfer_in_progress l) eqn:TP. { apply Led_wreply in H. exact H. }
  destruct (num_voters _ =? 1). { apply Led_wreply in H. exact H. }
  cbv zeta in H.
  match type of H with match ?b with _ => _ end = _ => destruct b end. { apply Led_wreply in H. exact H. }
  apply frw_try_transfer, Led_of_FRW in H. unfold transfer_in_progress in TP.
  led_solve.
  rewrite TP in *. autorewrite with cn in *. lia.
Qed.

Lemma Led_on_timeout_now_result opt s from err res w :
  on_timeout_now_result opt s from err res = Done w -> Led s [] w.
Proof.
  unfold on_timeout_now_result. intros H.
  repeat (first [ match goal with H : reply_transfer _ _ _ = Done _ |- _ => apply Led_reply_transfer in H end
                | use_fr | use_ev | inv1w ]);
  led_solve.
Qed.

Lemma Led_on_change_config opt s tid c w :
  tid = 0 \/ is_stable c = true \/ covered_change s c ->
  on_change_config opt s tid c = Done w -> Led s (one tid) w.
Proof.
  intros AD. destruct AD as [AD|[AD|(WF & LV & F2 & NS)]].
  3:{ intros H. pose proof H as H'. unfold on_change_config in H'.
      apply obind_inv in H'. destruct H' as (l & Hl & _). apply get_ldr_inv in Hl.
      unfold leader_votes in LV. rewrite Hl in LV.
      eapply Led_on_change_config_act; eauto using wf_config_nodes_ok. }
  all: unfold on_change_config; intros H;
    apply obind_inv in H; destruct H as (l & Hl & H); apply get_ldr_inv in Hl;
    repeat match type of H with
           | (if ?b then wreply _ _ _ else _) = _ => destruct b; [apply Led_wreply in H; exact H|]
           end;
    apply wbind_inv in H; destruct H as (s1 & o1 & s2 & o2 & H1 & H2 & ->).
  - subst tid. apply Led_check_config_actions0 in H1. ego; led_solve.
  - apply (ccas_stable _ _ _ _ _ _ AD) in H1. cbn [fst snd] in H1. destruct H1 as [-> R1].
    rewrite N.eqb_refl in H2. apply Led_do_change_config in H2.
    unfold Led, LedC in *. cbn [fst snd] in *. rewrite rt_out_app, R1. exact H2.
Qed.

Lemma Led_check_repl_update opt s id u w : check_repl_update opt s id u = Done w -> Led s [] w.
Proof. unfold check_repl_update. intros H. ego; led_solve. Qed.

Lemma Led_flr_update s id w : flr_update s id = Done w -> Led s [] w.
Proof. unfold flr_update. intros H. ego; led_solve. Qed.
Lemma Led_flr_send s id b w : flr_send s id b = Done w -> Led s [] w.
Proof.
  unfold flr_send. intros H.
  apply obind_inv in H. destruct H as (l & Hl & H).
  destruct (find_repl _ _); [|discriminate].
  destruct (_ =? nil_view); [discriminate|].
  apply obind_inv in H. destruct H as (p & _ & H).
  ego; led_solve.
Qed.
Lemma Led_flr_resp s id a b c d w : flr_resp s id a b c d = Done w -> Led s [] w.
Proof. unfold flr_resp. intros H. ego; led_solve. Qed.
Lemma Led_flr_snap_installed s id i w : flr_snap_installed s id i = Done w -> Led s [] w.
Proof. unfold flr_snap_installed. intros H. ego; led_solve. Qed.

Lemma Led_leader_event_out opt s e w :
  admissible s (ELeader e) -> leader_event_out opt s e = Done w -> Led s (submitted (ELeader e)) w.
Proof.
  destruct e; cbn [leader_event_out submitted admissible]; intros AD H.
  - apply Led_store_entry in H. exact H.
  - apply Led_check_repl_update in H. exact H.
  - eapply Led_on_change_config; eauto.
  - eapply Led_on_wait_stable; eauto.
  - eapply Led_on_transfer; eauto.
  - apply Led_on_timeout_now_result in H. exact H.
  - apply Led_reply_transfer in H. exact H.
  - apply frw_try_transfer, Led_of_FRW in H. led_solve.
  - apply Led_flr_update in H. exact H.
  - apply Led_flr_send in H. exact H.
  - apply Led_flr_resp in H. exact H.
  - apply Led_flr_snap_installed in H. exact H.
Qed.

(* ================================================================ release of the leader's structures *)
Lemma map_fst_filter_nz {A} (g : A -> N) (h : A -> reply) (l : list A) :
  map fst (map (fun x => (g x, h x)) (filter (fun x => negb (g x =? 0)) l)) = nz (map g l).
Proof.
  induction l as [|a l IH]; [reflexivity|]. cbn [filter map]. rewrite nz_cons. unfold one.
  destruct (g a =? 0); cbn; rewrite IH; reflexivity.
Qed.

Lemma lk_none_inv s : lk s = None -> st_ldr s = None.
Proof. unfold lk. destruct (st_ldr s); [discriminate | reflexivity]. Qed.

Lemma release_spec s s' out :
  leader_release_out s = (s', out) ->
  st_ldr s' = None /\ sk s' = sk s /\ st_role s' = st_role s /\ st_closed s' = st_closed s /\
  (Zk (lk s) -> forall t, cn t (LPk (lk s)) = cn t (rt out)).
Proof.
  unfold leader_release_out. destruct (st_ldr s) as [l|] eqn:Hl.
  - intros H. inversion H; subst. clear H.
    split; [reflexivity|]. split; [destruct (st_leader s =? st_nid s); reflexivity|].
    split; [destruct (st_leader s =? st_nid s); reflexivity|].
    split; [destruct (st_leader s =? st_nid s); reflexivity|].
    rewrite (lk_ldr _ _ Hl). unfold Zk, zok_of, LPk, tids_of, lkey. intros [A B] t.
    rewrite rt_mkOut, !map_app, !cn_app.
    rewrite (map_fst_filter_nz ne_tid (fun _ => _)).
    rewrite map_map. cbn [fst]. rewrite map_id, (nz_id _ A).
    unfold transfer_in_progress. destruct (ld_tr_active l).
    + rewrite (one_nz _ B). cbn [map fst]. lia.
    + cbn. lia.
  - intros H. inversion H; subst. rewrite (lk_none _ Hl). repeat split; auto.
Qed.

(* ================================================================ the outer loop *)
(* nothing is held in a leader structure outside leadership *)
Definition J (old : N) (s : nstate) : Prop := old <> Leader -> LPk (lk s) = [].

(* the ledger of a top-level step (snapshot requests included) *)
Definition TLed (s : nstate) (c : N -> nat) (w : W) : Prop :=
  InvK (lk s) (sk s) ->
  InvK (lk (fst w)) (sk (fst w)) /\
  forall t, (cn t (PendK (lk s) (sk s)) + c t = cn t (PendK (lk (fst w)) (sk (fst w))) + cn t (rt (snd w)))%nat.

Lemma TLed_of_LedC s c w : LedC s c w -> TLed s c w.
Proof. intros [_ H]. exact H. Qed.

Lemma TLed_of_FR s s' : FR s s' -> TLed s (fun _ => 0%nat) (s', no_out).
Proof.
  intros [E1 E2]. unfold TLed. cbn [fst snd]. rewrite E1, E2. intros I0. split; [exact I0|].
  intros t. cbn. lia.
Qed.

Lemma cn_zero_nil l : (forall t, cn t l = 0%nat) -> l = [].
Proof. intros H. apply (count_occ_inv_nil N.eq_dec). exact H. Qed.

Lemma release_role_spec opt old s s1 out :
  release_role opt old s = (s1, out) -> J old s ->
  LPk (lk s1) = [] /\ sk s1 = sk s /\ st_role s1 = st_role s /\ st_closed s1 = st_closed s /\
  (Zk (lk s) -> Zk (lk s1) /\ forall t, cn t (LPk (lk s)) = cn t (rt out)).
Proof.
  unfold release_role, J. intros H Jo.
  destruct (old =? Candidate) eqn:E1.
  { apply N.eqb_eq in E1. inversion H; subst.
    assert (N0 : LPk (lk s) = []) by (apply Jo; discriminate).
    rewrite lk_candidate_release. repeat split; auto; rewrite N0; reflexivity. }
  destruct (old =? Leader) eqn:E2.
  - apply release_spec in H. destruct H as (A & B & C & D & E).
    rewrite (lk_none _ A). repeat split; auto; try (apply E; assumption).
  - apply N.eqb_neq in E2. inversion H; subst. specialize (Jo E2).
    repeat split; auto; rewrite Jo; reflexivity.
Qed.

Lemma fr_start_election s s' : start_election s = Done s' -> FR s s'.
Proof.
  unfold start_election. intros H. repeat (first [use_fr | inv1w]).
  apply fr_set_voted_for in H0. eapply FR_trans; [exact H0|]. fr_solve.
Qed.

Lemma leader_init_spec opt s s' :
  leader_init opt s = Done s' ->
  sk s' = sk s /\ (SIk (sk s) -> InvK (lk s') (sk s') /\ LPk (lk s') = []).
Proof.
  unfold leader_init. intros H.
  destruct (negb _); [discriminate|].
  apply obind_inv in H. destruct H as (s1 & A & H). apply fr_add_replications in A.
  apply obind_inv in H. destruct H as (w & B & H). inversion H; subst s'. clear H.
  apply wbind_inv in B. destruct B as (s2 & o2 & s3 & o3 & B1 & B2 & ->).
  apply Led_check_config_actions0 in B1. apply Led_store_entry in B2.
  cbn [map nq_tid] in B2. rewrite nz_cons, one_0, nz_nil in B2. cbn [app] in B2.
  cbn [fst].
  key_norm. split; [congruence|]. intros SI.
  assert (I0 : InvK (Some ([], [], false, 0)) (sk s)).
  { unfold InvK, Zk, zok_of. repeat split; auto. }
  led_chain. split; [assumption|]. apply cn_zero_nil. intros t.
  repeat match goal with H : forall t : N, (_ = _)%nat |- _ => specialize (H t) end.
  unfold PendK in *. cbn [LPk tids_of] in *. autorewrite with cn in *. cbn [map] in *.
  autorewrite with cn in *. lia.
Qed.

Lemma init_role_spec opt s1 s2 :
  init_role opt s1 = Done s2 -> LPk (lk s1) = [] ->
  sk s2 = sk s1 /\ (InvK (lk s1) (sk s1) -> InvK (lk s2) (sk s2) /\ LPk (lk s2) = []).
Proof.
  unfold init_role. intros H N0.
  assert (FRC : forall x, FR s1 x -> sk x = sk s1 /\ (InvK (lk s1) (sk s1) -> InvK (lk x) (sk x) /\ LPk (lk x) = [])).
  { intros x [L S]. rewrite L, S. auto. }
  destruct (st_role s1 =? Follower). { inversion H; subst. apply FRC. fr_solve. }
  destruct (st_role s1 =? Candidate). { apply FRC. apply fr_start_election. exact H. }
  apply leader_init_spec in H. destruct H as [S H]. split; [exact S|].
  intros [_ SI]. apply H. exact SI.
Qed.

Definition TOut (s : nstate) (w : W) : Prop :=
  InvK (lk (fst w)) (sk (fst w)) /\
  (forall t, cn t (PendK (lk s) (sk s)) = (cn t (PendK (lk (fst w)) (sk (fst w))) + cn t (rt (snd w)))%nat) /\
  (st_role (fst w) <> Leader -> LPk (lk (fst w)) = []).

Lemma transition_spec opt fuel : forall old s w,
  transition fuel opt old s = Done w -> J old s -> InvK (lk s) (sk s) -> TOut s w.
Proof.
  assert (CLOSED : forall old s, J old s -> InvK (lk s) (sk s) -> TOut s (release_role opt old s)).
  { intros old s Jo [Z SI]. destruct (release_role opt old s) as [s1 out] eqn:R.
    destruct (release_role_spec _ _ _ _ _ R Jo) as (A & B & C & D & E).
    destruct (E Z) as [Z1 CN]. unfold TOut. cbn [fst snd].
    split; [split; [exact Z1 | rewrite B; exact SI]|].
    split; [|intros _; exact A].
    intros t. unfold PendK. rewrite A, B, !cn_app, (CN t). cbn. lia. }
  assert (SAME : forall old s, J old s -> st_role s = old -> InvK (lk s) (sk s) -> TOut s (s, no_out)).
  { intros old s Jo E I0. unfold TOut. cbn [fst snd]. split; [exact I0|]. split; [intros t; cbn; lia|].
    intros NL. apply Jo. congruence. }
  induction fuel as [|f IH]; intros old s w H Jo I0; cbn [transition] in H.
  - destruct (st_closed s). { inversion H; subst. apply CLOSED; assumption. }
    destruct (st_role s =? old) eqn:E; [|discriminate]. apply N.eqb_eq in E.
    inversion H; subst w. eapply SAME; eauto.
  - destruct (st_closed s). { inversion H; subst. apply CLOSED; assumption. }
    destruct (st_role s =? old) eqn:E.
    { apply N.eqb_eq in E. inversion H; subst w. eapply SAME; eauto. }
    destruct (release_role opt old (set_timer s false)) as [s1 out] eqn:R.
    assert (Jo' : J old (set_timer s false)) by exact Jo.
    destruct (release_role_spec _ _ _ _ _ R Jo') as (A & B & C & D & E1).
    rewrite lk_set_timer, sk_set_timer in *.
    apply obind_inv in H. destruct H as (s2 & H2 & H).
    destruct (init_role_spec _ _ _ H2 A) as [S2 I2].
    apply wbind_inv in H. destruct H as (s2' & o1 & s3 & o3 & HE & H & ->).
    inversion HE; subst s2' o1. clear HE.
    destruct I0 as [Z SI]. destruct (E1 Z) as [Z1 CN].
    assert (I1 : InvK (lk s1) (sk s1)) by (split; [exact Z1 | rewrite B; exact SI]).
    destruct (I2 I1) as [I3 L3].
    assert (J2 : J (st_role s1) s2) by (intros _; exact L3).
    destruct (IH _ _ _ H J2 I3) as (O1 & O2 & O3). cbn [fst snd] in *.
    unfold TOut. cbn [fst snd]. split; [exact O1|]. split; [|exact O3].
    intros t. specialize (O2 t). specialize (CN t).
    rewrite rt_out_app, cn_app. unfold PendK in *. rewrite L3, S2, B in O2. rewrite !cn_app in *. cbn in O2. lia.
Qed.

(* ================================================================ handlers that hold no task *)
Lemma fr_consume_entries es : forall s i t b r,
  consume_entries s es i t b = Done r -> FR s (fst (fst (fst (fst r)))).
Proof.
  induction es as [|ne rest IH]; intros s i t b r H.
  - cbn in H. inversion H; apply FR_refl.
  - cbn [consume_entries] in H.
    repeat (first [ match goal with
                    | H : remove_gte _ _ _ = Done _ |- _ => apply fr_remove_gte in H
                    | H : consume_entries _ rest _ _ _ = Done _ |- _ => apply IH in H
                    end
                  | use_fr | inv1w ]);
      cbn [fst] in *; unfold FR in *;
      repeat match goal with H : _ /\ _ |- _ => destruct H end;
      autorewrite with key in *; split; congruence.
Qed.

Ltac use_fr2 :=
  match goal with
  | H : consume_entries _ _ _ _ _ = Done _ |- _ => apply fr_consume_entries in H
  | H : commit_and_apply _ _ _ = Done _ |- _ => apply fr_commit_and_apply in H
  | H : set_voted_for _ _ _ = Done _ |- _ => apply fr_set_voted_for in H
  | H : remove_gte _ _ _ = Done _ |- _ => apply fr_remove_gte in H
  end.
Ltac fr_chain :=
  cbn [fst snd] in *; unfold FR in *;
  repeat match goal with H : _ /\ _ |- _ => destruct H end;
  autorewrite with key in *; split; congruence.

Lemma fr_on_append_request sor s q c s' : on_append_request sor s q = Done (c, s') -> FR s s'.
Proof. unfold on_append_request. intros H. repeat (first [use_fr2 | use_fr | inv1w]); fr_chain. Qed.

Lemma fr_on_install_snap_request s q np c s' : on_install_snap_request s q np = Done (c, s') -> FR s s'.
Proof. unfold on_install_snap_request. intros H. repeat (first [use_fr2 | use_fr | inv1w]); fr_chain. Qed.

Lemma fr_on_vote_request s q c s' : on_vote_request s q = Done (c, s') -> FR s s'.
Proof. unfold on_vote_request. intros H. repeat (first [use_fr2 | use_fr | inv1w]); fr_chain. Qed.

Lemma fr_on_timeout_now_request s : FR s (snd (on_timeout_now_request s)).
Proof. unfold on_timeout_now_request. destruct (negb _); cbn [snd]; fr_solve. Qed.

Lemma fr_on_vote_result s t r s' : on_vote_result s t r = Done s' -> FR s s'.
Proof. unfold on_vote_result. intros H. repeat (first [use_fr2 | use_fr | inv1w]); fr_chain. Qed.

(* ================================================================ tasks handled in any role, snapshots *)
Lemma Led_bootstrap s tid c w : bootstrap s tid c = Done w -> Led s (one tid) w.
Proof. unfold bootstrap. intros H. ego; led_solve. Qed.

Lemma lk_of_Led s sub w : Led s sub w -> True. Proof. auto. Qed.

Lemma lk_bootstrap s tid c w : bootstrap s tid c = Done w -> lk (fst w) = lk s.
Proof.
  unfold bootstrap. intros H.
  repeat (first [ match goal with
                  | H : set_term _ _ = Done _ |- _ => apply fr_set_term in H
                  | H : append_entry _ _ = Done _ |- _ => apply fr_append_entry in H
                  end | inv1w ]);
    cbn [fst]; unfold FR in *; repeat match goal with H : _ /\ _ |- _ => destruct H end;
    autorewrite with key in *; congruence.
Qed.

Lemma node_task_spec s t w :
  node_task s t = Done w -> lk (fst w) = lk s /\ TLed s (fun x => cn x (submitted (ETask t))) w.
Proof.
  destruct t; cbn [node_task submitted]; intros H.
  - unfold nonleader_client in H. inversion H; subst. cbn [fst snd]. split; [reflexivity|].
    unfold TLed. cbn [fst snd]. intros I0. split; [exact I0|]. intros x.
    rewrite rt_mkOut. rewrite (map_fst_filter_nz nq_tid (fun ne => _)). lia.
  - split; [eapply lk_bootstrap; eauto|]. apply TLed_of_LedC. apply Led_bootstrap in H. exact H.
  - split; [unfold wreply in H; inversion H; reflexivity|]. apply TLed_of_LedC. apply Led_wreply in H. exact H.
  - split; [unfold wreply in H; inversion H; reflexivity|]. apply TLed_of_LedC. apply Led_wreply in H. exact H.
  - unfold on_take_snapshot in H. destruct (st_snapbusy s) eqn:B.
    + split; [unfold wreply in H; inversion H; reflexivity|]. apply TLed_of_LedC. apply Led_wreply in H. exact H.
    + unfold wret in H. inversion H; subst w. clear H. cbn [fst snd]. split; [reflexivity|].
      unfold TLed. cbn [fst snd]. intros [Z SI]. unfold SIk, sk in SI. cbn [fst snd] in SI. specialize (SI B).
      split.
      * split; [exact Z|]. unfold SIk, sk. cbn. discriminate.
      * intros x. unfold PendK, SPk, sk. cbn [fst snd]. rewrite SI. cbn [st_snapreq set sr_tid].
        change (lk (set st_snapreq _ (set st_snapbusy _ s))) with (lk s).
        autorewrite with cn. lia.
  - unfold wret in H. inversion H; subst. cbn [fst]. split; [reflexivity|].
    apply (TLed_of_FR s (set_closed s true)). fr_solve.
Qed.

Lemma on_snapshot_taken_spec opt s w :
  on_snapshot_taken opt s = Done w -> lk (fst w) = lk s /\ TLed s (fun _ => 0%nat) w.
Proof.
  unfold on_snapshot_taken. intros H.
  destruct (st_snapreq s) as [rq|] eqn:RQ; [|discriminate].
  assert (K : forall sx r, lk sx = lk s -> sk sx = (false, None) -> wreply sx (sr_tid rq) r = Done w ->
            lk (fst w) = lk s /\ TLed s (fun _ => 0%nat) w).
  { intros sx r L S W. unfold wreply in W. inversion W; subst w. cbn [fst snd]. split; [exact L|].
    unfold TLed. cbn [fst snd]. rewrite L, S. intros [Z SI]. split; [split; [exact Z | intros _; reflexivity]|].
    intros x. unfold PendK, SPk, sk. cbn [fst snd]. rewrite RQ, rt_mkOut, map_fst_reply. autorewrite with cn. lia. }
  cbv zeta in H.
  destruct (sr_done rq); [discriminate| |eapply K; [| |exact H]; reflexivity].
  destruct (log_contains _ _); [|eapply K; [| |exact H]; reflexivity].
  destruct (negb (_ && _)); [discriminate|].
  apply obind_inv in H. destruct H as (s2 & H2 & H).
  eapply K; [| |exact H].
  - destruct (negb _ && _).
    + destruct (negb (_ && _)); [discriminate|]. apply fr_notify_flr in H2. destruct H2 as [L _].
      rewrite L, lk_upd_ldr by reflexivity. destruct (_ <? _); reflexivity.
    + inversion H2; subst. destruct (_ <? _); reflexivity.
  - destruct (negb _ && _).
    + destruct (negb (_ && _)); [discriminate|]. apply fr_notify_flr in H2. destruct H2 as [_ S].
      rewrite S, sk_upd_ldr. destruct (_ <? _); reflexivity.
    + inversion H2; subst. destruct (_ <? _); reflexivity.
Qed.

Lemma snapshot_run_spec s s' :
  snapshot_run s = Done s' -> lk s' = lk s /\ TLed s (fun _ => 0%nat) (s', no_out).
Proof.
  unfold snapshot_run. intros H.
  destruct (st_snapreq s) as [rq|] eqn:RQ; [|discriminate].
  destruct (sr_done rq);
    try (inversion H; subst; split; [reflexivity | apply TLed_of_FR, FR_refl]).
  inversion H; subst s'. clear H.
  assert (L : forall x, lk (set st_snapreq x (if st_snapidx s <? sr_index rq then set_snap s (sr_index rq) (sr_term rq) (sr_config rq) else s)) = lk s).
  { intros x. destruct (_ <? _); reflexivity. }
  split; [apply L|]. unfold TLed. cbn [fst snd]. rewrite L. intros [Z SI].
  split.
  - split; [exact Z|]. unfold SIk, sk in *. cbn [fst snd] in *. rewrite RQ in SI.
    intros B. exfalso. assert (BB : st_snapbusy s = false) by (destruct (_ <? _); exact B).
    specialize (SI BB). discriminate.
  - intros x. unfold PendK, SPk, sk. cbn [fst snd]. rewrite RQ. cbn [st_snapreq set sr_tid]. cbn. lia.
Qed.

(* ================================================================ the step *)
Lemma NoDup_app_intro {A} (l l' : list A) :
  NoDup l -> NoDup l' -> (forall a, In a l' -> ~ In a l) -> NoDup (l ++ l').
Proof.
  induction l as [|x l IH]; intros N1 N2 D; [exact N2|].
  inversion N1; subst. cbn. constructor.
  - rewrite in_app_iff. intros [I|I]; [contradiction|]. apply (D x I). left. reflexivity.
  - apply IH; auto. intros a I I'. apply (D a I). right. exact I'.
Qed.

Lemma NoDup_app_left {A} (l l' : list A) : NoDup (l ++ l') -> NoDup l.
Proof.
  induction l as [|x l IH]; intros H; [constructor|]. cbn in H. inversion H; subst.
  constructor; [|apply IH; assumption]. intros I. apply H2. apply in_or_app. left. exact I.
Qed.

(* what a step must establish *)
Definition Fin (s : nstate) (sub : list N) (s' : nstate) (rep : list N) : Prop :=
  InvK (lk s') (sk s') /\
  (forall t, (cn t (pending s) + cn t sub = cn t (pending s') + cn t rep)%nat) /\
  (st_role s' <> Leader -> leader_pending s' = []).

Lemma conclude s sub s' rep :
  ledger_ok s -> NoDup sub -> (forall t, In t sub -> ~ In t (pending s)) -> Fin s sub s' rep ->
  Permutation (pending s ++ sub) (pending s' ++ rep) /\ ledger_ok s'.
Proof.
  intros (ND & _ & _) NS D (I & C & R).
  assert (P : Permutation (pending s ++ sub) (pending s' ++ rep)).
  { apply (Permutation_count_occ N.eq_dec). intros x. rewrite !count_occ_app. apply (C x). }
  split; [exact P|]. split; [|split; [exact R | exact I]].
  apply NoDup_app_left with (l' := rep). eapply Permutation_NoDup; [exact P|].
  apply NoDup_app_intro; assumption.
Qed.

Lemma finish_out opt old code t last s1 out1 o s' :
  finish opt old code t last (s1, out1) = Done (o, s') ->
  exists out2, transition 4 opt old s1 = Done (s', out2) /\ ob_out o = out_app out1 out2.
Proof.
  unfold finish. intros H. apply obind_inv in H. destruct H as ([s2 out2] & H1 & H).
  inversion H; subst. exists out2. split; [exact H1 | reflexivity].
Qed.

Lemma fin_finish opt s sub s1 out1 old code t last o s' :
  InvK (lk s) (sk s) -> TLed s (fun x => cn x sub) (s1, out1) -> J old s1 ->
  finish opt old code t last (s1, out1) = Done (o, s') ->
  Fin s sub s' (rt (ob_out o)).
Proof.
  intros I0 T Jo H. apply finish_out in H. destruct H as (out2 & H & E).
  destruct (T I0) as [I1 C1]. cbn [fst snd] in *.
  destruct (transition_spec _ _ _ _ _ H Jo I1) as (I2 & C2 & R2). cbn [fst snd] in *.
  unfold Fin. split; [exact I2|]. split; [|exact R2].
  intros x. rewrite E, rt_out_app, cn_app. specialize (C1 x). specialize (C2 x).
  rewrite !pending_K. lia.
Qed.

Lemma J_of_lk s s1 : (st_role s <> Leader -> leader_pending s = []) -> lk s1 = lk s -> J (st_role s) s1.
Proof. unfold J, leader_pending. intros H E. rewrite E. exact H. Qed.

Lemma TLed_frame s s1 sub :
  FR s s1 -> sub = [] -> TLed s (fun x => cn x sub) (s1, no_out).
Proof. intros F ->. apply (TLed_of_FR _ _ F). Qed.

Lemma fin_same s s' :
  lk s' = lk s -> st_role s' = st_role s -> InvK (lk s) (sk s) ->
  (st_role s <> Leader -> leader_pending s = []) ->
  TLed s (fun _ => 0%nat) (s', no_out) -> Fin s [] s' [].
Proof.
  intros L R I0 I1 T. destruct (T I0) as [I2 C]. cbn [fst snd] in *.
  unfold Fin. split; [exact I2|]. split.
  - intros x. specialize (C x). rewrite !pending_K. cbn in *. lia.
  - unfold leader_pending. rewrite L, R. exact I1.
Qed.

(* ================================================================ the case analysis over the events *)
Lemma fr_after_rpc s b : FR s (after_rpc s b).
Proof. fr_solve. Qed.

(* an RPC handler that is a frame, followed by the timer rule and the role change *)
Lemma fin_rpc opt s s1 b code t last o s' :
  ledger_ok s -> FR s s1 ->
  finish opt (st_role s) code t last (after_rpc s1 b, no_out) = Done (o, s') ->
  Fin s [] s' (rt (ob_out o)).
Proof.
  intros (_ & LP & I0) F H.
  assert (F2 : FR s (after_rpc s1 b)) by (eapply FR_trans; [exact F | apply fr_after_rpc]).
  eapply fin_finish; [exact I0 | apply TLed_frame; [exact F2 | reflexivity] | | exact H].
  apply J_of_lk; [exact LP | apply F2].
Qed.

Lemma fin_frame opt s s1 code t last o s' :
  ledger_ok s -> FR s s1 ->
  finish opt (st_role s) code t last (s1, no_out) = Done (o, s') ->
  Fin s [] s' (rt (ob_out o)).
Proof.
  intros (_ & LP & I0) F H.
  eapply fin_finish; [exact I0 | apply TLed_frame; [exact F | reflexivity] | | exact H].
  apply J_of_lk; [exact LP | apply F].
Qed.

Lemma fin_noop s s' :
  ledger_ok s -> FR s s' -> st_role s' = st_role s -> Fin s [] s' (rt (ob_out no_obs)).
Proof.
  intros (_ & LP & I0) F R. change (rt (ob_out no_obs)) with (@nil N).
  apply fin_same; [apply F | exact R | exact I0 | exact LP | apply TLed_of_FR; exact F].
Qed.

Lemma restart_tail (y : nstate) s1 :
  (let s3 := set_ldr (set_cnd (set_flr (set_snapbusy (set_closed (set_leader (set_role y Follower) 0) false) false)
                                false false) 0 false) None <| st_snapreq := None |> in
   if 0 <? st_snapidx s3 then
     Done (set_commit (set_fsm s3 (st_snapidx s3) (st_snapterm s3)) (st_snapidx s3))
   else Done (set_commit (set_fsm s3 0 0) 0)) = Done s1 -> lk s1 = None /\ sk s1 = (false, None).
Proof. cbv zeta. destruct (0 <? _); intros H; inversion H; subst; split; reflexivity. Qed.

(* a restarted process holds no task *)
Lemma restart_spec s keep s1 :
  restart s keep = Done s1 -> lk s1 = None /\ sk s1 = (false, None).
Proof.
  unfold restart. intros H.
  destruct (negb _); [discriminate|].
  apply obind_inv in H. destruct H as (cc & _ & H).
  eapply restart_tail. exact H.
Qed.

Lemma role_snapshot_run s s' : snapshot_run s = Done s' -> st_role s' = st_role s.
Proof.
  unfold snapshot_run. intros H.
  destruct (st_snapreq s) as [rq|]; [|discriminate].
  destruct (sr_done rq); inversion H; subst; try reflexivity.
  destruct (_ <? _); reflexivity.
Qed.

Theorem step_fin opt s ev o s' :
  model_event opt s ev = Done (o, s') -> ledger_ok s -> admissible s ev -> enabled s ev ->
  Fin s (submitted ev) s' (rt (ob_out o)).
Proof.
  intros H LO AD EN. pose proof LO as (ND & LP & I0).
  destruct ev; cbn [model_event submitted] in H |- *.
  - (* EVoteReq *)
    apply obind_inv in H. destruct H as ([code s1] & H1 & H).
    apply fr_on_vote_request in H1. eapply fin_rpc; eauto.
  - (* EAppendReq *)
    apply obind_inv in H. destruct H as ([code s1] & H1 & H).
    destruct (code =? unexpectedErr); [discriminate|].
    apply fr_on_append_request in H1. eapply fin_rpc; eauto.
  - (* EAppendReqCut *)
    apply obind_inv in H. destruct H as ([code s1] & H1 & H).
    destruct (code =? unexpectedErr); [discriminate|].
    apply fr_on_append_request in H1. eapply fin_rpc; eauto.
  - (* ESnapReq *)
    apply obind_inv in H. destruct H as ([code s1] & H1 & H).
    apply fr_on_install_snap_request in H1. eapply fin_rpc; eauto.
  - (* ETimeoutNowReq *)
    pose proof (fr_on_timeout_now_request s) as F.
    destruct (on_timeout_now_request s) as [code s1]. cbn [snd] in F.
    eapply fin_rpc; eauto.
  - (* ETimeout *)
    apply obind_inv in H. destruct H as (s1 & H1 & H).
    assert (F : FR s s1).
    { destruct (st_role s =? Follower).
      - inversion H1; subst. fr_solve.
      - destruct (st_role s =? Candidate).
        + apply fr_start_election in H1. eapply FR_trans; [|exact H1]. fr_solve.
        + unfold leader_on_timeout in H1. apply fr_check_quorum in H1.
          eapply FR_trans; [|exact H1]. fr_solve. }
    eapply fin_frame; eauto.
  - (* EVoteResult *)
    destruct (st_role s =? Candidate).
    + apply obind_inv in H. destruct H as (s1 & H1 & H).
      apply fr_on_vote_result in H1. eapply fin_frame; eauto.
    + inversion H; subst. apply fin_noop; [exact LO | apply FR_refl | reflexivity].
  - (* EDisconnected *)
    inversion H; subst. apply fin_noop; [exact LO | fr_solve | destruct (_ && _); reflexivity].
  - (* ERestart *)
    apply obind_inv in H. destruct H as (s1 & H1 & H). inversion H; subst. clear H.
    apply restart_spec in H1. destruct H1 as [L S].
    cbn [admissible] in AD.
    change (rt (ob_out no_obs)) with (@nil N).
    unfold Fin, leader_pending. rewrite !pending_K, <- pending_K, AD.
    rewrite lk_follower_init, sk_follower_init, L, S.
    split; [split; [exact I | intros _; reflexivity]|].
    split; [intros t; reflexivity | intros _; reflexivity].
  - (* ELeader *)
    destruct (st_role s =? Leader) eqn:E.
    + apply N.eqb_eq in E.
      apply obind_inv in H. destruct H as ([s1 out1] & H1 & H).
      apply Led_leader_event_out in H1; [|exact AD].
      eapply fin_finish; [exact I0 | apply TLed_of_LedC; exact H1 | | exact H].
      unfold J. rewrite E. intros C. exfalso. apply C. reflexivity.
    + apply N.eqb_neq in E. inversion H; subst.
      cbn [enabled] in EN. destruct EN as [EN|EN]; [contradiction|].
      cbn [submitted] in EN. rewrite EN.
      apply fin_noop; [exact LO | apply FR_refl | reflexivity].
  - (* ETask *)
    apply obind_inv in H. destruct H as ([s1 out1] & H1 & H).
    apply node_task_spec in H1. destruct H1 as [L T]. cbn [fst] in L.
    match type of H with finish _ _ _ _ _ (?x, _) = _ => set (s2 := x) in H end.
    assert (F : FR s1 s2) by (subst s2; fr_solve).
    eapply fin_finish; [exact I0 | | | exact H].
    + unfold TLed in *. cbn [fst snd] in *. destruct F as [F1 F2]. rewrite F1, F2. exact T.
    + apply J_of_lk; [exact LP|]. destruct F as [F1 _]. congruence.
  - (* ESnapRun *)
    apply obind_inv in H. destruct H as (s1 & H1 & H). inversion H; subst. clear H.
    pose proof (role_snapshot_run _ _ H1) as R.
    apply snapshot_run_spec in H1. destruct H1 as [L T].
    change (rt (ob_out no_obs)) with (@nil N).
    apply fin_same; assumption.
  - (* ESnapTaken *)
    apply obind_inv in H. destruct H as ([s1 out1] & H1 & H).
    apply on_snapshot_taken_spec in H1. destruct H1 as [L T]. cbn [fst] in L.
    eapply fin_finish; [exact I0 | exact T | | exact H].
    apply J_of_lk; [exact LP | exact L].
Qed.

Theorem task_ledger :
  forall opt s ev o s', model_event opt s ev = Done (o, s') ->
    ledger_ok s -> fresh s ev ->
    Permutation (pending s ++ submitted ev) (pending s' ++ map fst (lo_replies (ob_out o))) /\
    ledger_ok s'.
Proof.
  intros opt s ev o s' H LO (NS & D & AD & EN).
  apply conclude; try assumption.
  exact (step_fin _ _ _ _ _ H LO AD EN).
Qed.

(* ================================================================ histories *)
Definition trace := list (options * nevent * nobs).
(* every task id the history submits / answers, in order *)
Definition submitted_tr (tr : trace) : list N := flat_map (fun x => submitted (snd (fst x))) tr.
Definition answered (tr : trace) : list N := flat_map (fun x => map fst (lo_replies (ob_out (snd x)))) tr.

(* histories in which the callers behave: every event is fresh for the state it meets, and a task id
   is used for one task only (an id submitted now is not submitted again later).  The second clause
   is needed: [fresh] alone allows an id to be submitted again once it has been answered, and the
   second answer would then, rightly, carry the same id. *)
Inductive nrun_fresh : nstate -> trace -> nstate -> Prop :=
| runf_nil s : nrun_fresh s [] s
| runf_cons s opt ev o s1 tr s2 :
    model_event opt s ev = Done (o, s1) -> fresh s ev ->
    (forall t, In t (submitted ev) -> ~ In t (submitted_tr tr)) ->
    nrun_fresh s1 tr s2 ->
    nrun_fresh s ((opt, ev, o) :: tr) s2.

Lemma nrun_fresh_nrun s tr s' : nrun_fresh s tr s' -> nrun s tr s'.
Proof. induction 1; econstructor; eauto. Qed.

(* the ledger of a history: what was pending at the start plus everything submitted is, as a multiset,
   everything answered plus what is pending at the end *)
Theorem run_ledger s tr s' :
  nrun_fresh s tr s' -> ledger_ok s -> (forall t, In t (pending s) -> ~ In t (submitted_tr tr)) ->
  Permutation (pending s ++ submitted_tr tr) (answered tr ++ pending s') /\
  NoDup (submitted_tr tr) /\ ledger_ok s'.
Proof.
  induction 1 as [s | s opt ev o s1 tr s2 HS HF HD HR IH]; intros LO D.
  - cbn. rewrite app_nil_r. split; [apply Permutation_refl|]. split; [constructor | exact LO].
  - pose proof HF as (NS & DS & _).
    destruct (task_ledger _ _ _ _ _ HS LO HF) as [P1 LO1].
    assert (D1 : forall t, In t (pending s1) -> ~ In t (submitted_tr tr)).
    { intros t I.
      assert (I' : In t (pending s ++ submitted ev)).
      { apply (Permutation_in t (Permutation_sym P1)). apply in_or_app. left. exact I. }
      apply in_app_or in I'. destruct I' as [I'|I'].
      - intros X. apply (D t I'). cbn [submitted_tr flat_map fst snd]. apply in_or_app. right. exact X.
      - apply HD. exact I'. }
    destruct (IH LO1 D1) as (P2 & N2 & LO2).
    cbn [submitted_tr answered flat_map fst snd].
    fold (submitted_tr tr). fold (answered tr).
    split; [|split; [|exact LO2]].
    + rewrite app_assoc.
      eapply Permutation_trans; [apply Permutation_app_tail; exact P1|].
      eapply Permutation_trans; [apply Permutation_app_tail; apply Permutation_app_comm|].
      rewrite <- !app_assoc. apply Permutation_app_head. exact P2.
    + apply NoDup_app_intro; [exact NS | exact N2|].
      intros a I I'. exact (HD a I' I).
Qed.

Theorem answered_at_most_once :
  forall s tr s', nrun_fresh s tr s' -> ledger_ok s -> pending s = [] ->
    NoDup (answered tr ++ pending s').
Proof.
  intros s tr s' HR LO E.
  destruct (run_ledger _ _ _ HR LO) as (P & ND & _).
  { rewrite E. intros t []. }
  rewrite E in P. cbn [app] in P.
  eapply Permutation_NoDup; [exact P | exact ND].
Qed.

(* the same without assuming that the history starts with nothing pending *)
Theorem answered_at_most_once_gen :
  forall s tr s', nrun_fresh s tr s' -> ledger_ok s ->
    (forall t, In t (pending s) -> ~ In t (submitted_tr tr)) ->
    NoDup (answered tr ++ pending s').
Proof.
  intros s tr s' HR LO D.
  destruct (run_ledger _ _ _ HR LO D) as (P & ND & _).
  eapply Permutation_NoDup; [exact P|].
  apply NoDup_app_intro; [apply LO | exact ND|].
  intros a I I'. exact (D a I' I).
Qed.

(* ================================================================ release *)
Theorem release_leaves_nothing_pending :
  forall s s' out, leader_release_out s = (s', out) ->
    leader_pending s' = [] /\
    (st_closed s = true -> forall t r, In (t, r) (lo_replies out) -> r = RpServerClosed \/ r = RpNil).
Proof.
  intros s s' out H. split.
  - apply release_spec in H. destruct H as (A & _). unfold leader_pending. rewrite (lk_none _ A). reflexivity.
  - intros C t r I. unfold leader_release_out in H.
    destruct (st_ldr s) as [l|]; [|inversion H; subst; destruct I].
    assert (C1 : st_closed (if st_leader s =? st_nid s then set_leader s 0 else s) = true)
      by (destruct (st_leader s =? st_nid s); exact C).
    rewrite C1, C in H. inversion H; subst. clear H.
    cbn [lo_replies] in I. apply in_app_or in I. destruct I as [I|I].
    + destruct (transfer_in_progress l); [|destruct I].
      destruct I as [I|[]]. inversion I; subst. destruct (_ <? _); auto.
    + apply in_app_or in I. destruct I as [I|I]; apply in_map_iff in I; destruct I as (x & E & _);
        inversion E; auto.
Qed.

(* ================================================================ the hypotheses are satisfiable *)
(* a two-node cluster: node 1 is bootstrapped (task 3), wins the election, accepts a client batch
   (tasks 5 and 6 and an internal entry), a transfer (9), a snapshot (7), a waitForStableConfig (8),
   and is shut down while all of them are pending *)
Fixpoint exec (opt : options) (s : nstate) (evs : list nevent) : option (trace * nstate) :=
  match evs with
  | [] => Some ([], s)
  | ev :: r =>
      match model_event opt s ev with
      | Done (o, s1) =>
          match exec opt s1 r with Some (tr, s2) => Some ((opt, ev, o) :: tr, s2) | None => None end
      | Err _ => None
      end
  end.

Definition ex_opt := mkOptions false false false 0 0 [].
Definition ex_cfg := mkConfig [mkNode 1 [65] true [] 0; mkNode 2 [66] true [] 0] 0 0.
Definition ex_events : list nevent :=
  [ ETask (TChangeConfig 3 ex_cfg); EVoteResult 1 1; EVoteResult 1 1;
    ELeader (LClient [mkNewReq entryUpdate [1] 5; mkNewReq entryRead [] 6; mkNewReq entryUpdate [2] 0]);
    ELeader (LTransfer 9 0); ETask (TTakeSnapshot 7 0); ELeader (LWaitStable 8); ESnapRun;
    ETask TShutdown; ESnapTaken ].
Definition ex_run := Eval vm_compute in exec ex_opt (fresh_node 1 1) ex_events.
Definition ex_trace : trace := match ex_run with Some (tr, _) => tr | None => [] end.
Definition ex_end : nstate := match ex_run with Some (_, s) => s | None => fresh_node 1 1 end.

Lemma ledger_ok_fresh_node cid nid : ledger_ok (fresh_node cid nid).
Proof.
  unfold ledger_ok. split; [constructor|]. split; [reflexivity|].
  split; [exact I | intros _; reflexivity].
Qed.

Ltac ex_fresh :=
  unfold fresh; split; [|split; [|split]]; vm_compute;
  first [ exact I | solve [repeat constructor; cbn; intuition congruence] | solve [intuition congruence] ].

Example ex_history : nrun_fresh (fresh_node 1 1) ex_trace ex_end.
Proof.
  unfold ex_trace, ex_end, ex_run.
  repeat (eapply runf_cons; [vm_compute; reflexivity | ex_fresh | vm_compute; intuition congruence |]).
  apply runf_nil.
Qed.

Example ex_answered : answered ex_trace = [3; 9; 5; 6; 8; 7] /\ pending ex_end = [] /\ st_closed ex_end = true.
Proof. vm_compute. auto. Qed.

(* ---------------------------------------------------------------- a changeConfig task with an action *)
(* a cluster that grows: node 1 is bootstrapped alone (task 3) and elected, learns of nodes 2 and 3
   (task 10, no actions), node 2 catches up, node 2 is promoted (task 11: the action is carried out in
   the same step, the submitted configuration is not appended), the promotion commits *)
Definition ex2_n1 := mkNode 1 [65] true [] ActNone.
Definition ex2_cfg1 := mkConfig [ex2_n1] 0 0.
Definition ex2_cfg2 := mkConfig [ex2_n1; mkNode 2 [66] false [] ActNone; mkNode 3 [67] false [] ActNone] 1 1.
Definition ex2_cfg3 := mkConfig [ex2_n1; mkNode 2 [66] false [] ActPromote; mkNode 3 [67] false [] ActNone] 3 1.
Definition ex2_events : list nevent :=
  [ ETask (TChangeConfig 3 ex2_cfg1); EVoteResult 1 1;
    ELeader (LChangeConfig 10 ex2_cfg2); ELeader (LReplUpdate 2 (UMatch 3));
    ELeader (LChangeConfig 11 ex2_cfg3); ELeader (LReplUpdate 2 (UMatch 4)) ].
Definition ex2_run := Eval vm_compute in exec ex_opt (fresh_node 1 1) ex2_events.
Definition ex2_trace : trace := match ex2_run with Some (tr, _) => tr | None => [] end.
Definition ex2_end : nstate := match ex2_run with Some (_, s) => s | None => fresh_node 1 1 end.
Definition ex2_after (n : nat) : nstate :=
  match exec ex_opt (fresh_node 1 1) (firstn n ex2_events) with Some (_, s) => s | None => fresh_node 1 1 end.

Lemma wf_config_intro c :
  u64 (c_index c) -> u64 (c_term c) -> Forall wf_node (c_nodes c) -> NoDup (map n_id (c_nodes c)) ->
  wfstr (enc_config_data (c_nodes c)) -> wf_config c.
Proof. unfold wf_config. auto. Qed.

Ltac wf_config_solve :=
  apply wf_config_intro;
  [ vm_compute; reflexivity | vm_compute; reflexivity
  | repeat constructor; vm_compute; reflexivity
  | cbn; repeat constructor; cbn; intuition discriminate
  | vm_compute; reflexivity ].

Definition ex2_s4 : nstate := Eval vm_compute in ex2_after 4.
Example ex2_covered : covered_change ex2_s4 ex2_cfg3.
Proof.
  split; [wf_config_solve|]. split; [vm_compute; reflexivity|]. split; [vm_compute; discriminate | vm_compute; reflexivity].
Qed.

Ltac ex_solve :=
  vm_compute;
  first [ exact I | solve [repeat constructor; cbn; intuition congruence] | solve [intuition congruence] ].
Ltac ex2_fresh :=
  unfold fresh; split; [ex_solve | split; [ex_solve | split; [first [right; left; vm_compute; reflexivity | right; right; exact ex2_covered | ex_solve] | ex_solve]]].

Example ex2_history : nrun_fresh (fresh_node 1 1) ex2_trace ex2_end.
Proof.
  unfold ex2_trace, ex2_end, ex2_run.
  repeat (eapply runf_cons; [vm_compute; reflexivity | ex2_fresh | vm_compute; intuition congruence |]).
  apply runf_nil.
Qed.

Example ex2_answered :
  answered ex2_trace = [3; 10; 11] /\ pending ex2_end = [] /\
  pending (ex2_after 5) = [11] /\ c_index (st_latest (ex2_after 5)) = 4 /\ is_voter (st_latest (ex2_after 5)) 2 = true.
Proof. vm_compute. auto 10. Qed.

(* ================================================================ what is excluded, and why *)
(* the state of the example after its first n events: n = 3 a leader holding nothing, n = 4 a leader
   holding tasks 5 and 6 *)
Definition ex_after (n : nat) : nstate :=
  match exec ex_opt (fresh_node 1 1) (firstn n ex_events) with Some (_, s) => s | None => fresh_node 1 1 end.

Ltac ex_ledger_ok :=
  unfold ledger_ok, Inv0; vm_compute;
  repeat match goal with |- _ /\ _ => split end;
  first [ exact I | solve [repeat constructor; cbn; intuition congruence] | solve [intuition congruence] ].

Example ex_after_ok : ledger_ok (ex_after 3) /\ ledger_ok (ex_after 4).
Proof. split; ex_ledger_ok. Qed.

(* [enabled]: a leader event handed to a node that is not leader is not taken: nobody is answered,
   nothing is recorded *)
Example cex_not_leader :
  let s := fresh_node 1 1 in
  let ev := ELeader (LClient [mkNewReq entryUpdate [1] 5]) in
  ledger_ok s /\ submitted ev = [5] /\ model_event ex_opt s ev = Done (no_obs, s).
Proof. split; [apply ledger_ok_fresh_node|]. split; reflexivity. Qed.

(* [admissible], ERestart: the tasks a process held die with it *)
Example cex_restart :
  let s := ex_after 4 in
  exists o s', model_event ex_opt s (ERestart 4) = Done (o, s') /\
    pending s = [5; 6] /\ pending s' = [] /\ lo_replies (ob_out o) = [].
Proof. eexists. eexists. split; [vm_compute; reflexivity|]. vm_compute. auto. Qed.

(* [admissible], LWaitStable 0: the reserved id enters the waitStable list (and a later release
   reports it), which the ledger does not count as a task *)
Example cex_wait_stable_0 :
  let s := ex_after 3 in
  exists o s', model_event ex_opt s (ELeader (LWaitStable 0)) = Done (o, s') /\
    option_map ld_waitstable (st_ldr s') = Some [0] /\ ~ ledger_ok s'.
Proof.
  eexists. eexists. split; [vm_compute; reflexivity|]. split; [vm_compute; reflexivity|].
  intros (_ & _ & Z & _). vm_compute in Z. apply Z. left. reflexivity.
Qed.

(* [covered_change], no_solo: the end of the second example has voters 1 (leader) and 2; demoting 2
   leaves the leader alone, the configuration commits inside the step, the task is answered, and
   canChangeConfig is true again for the rest of the visit.  task_ledger holds for every oracle, also
   one that makes the visit meet node 2 twice: the stale submitted configuration still carries the
   Demote, the task is handed to doChangeConfig a second time and answered twice.  (With an oracle
   without repetitions the same step answers once.) *)
Definition cex_cfg_demote :=
  mkConfig [ex2_n1; mkNode 2 [66] true [] ActDemote; mkNode 3 [67] false [] ActNone] 4 1.
Example cex_change_config_solo :
  let s := ex2_end in
  let ev := ELeader (LChangeConfig 12 cex_cfg_demote) in
  ledger_ok s /\ pending s = [] /\ wf_config cex_cfg_demote /\ leader_votes s /\
  c_index (st_latest s) <= st_lastidx s /\ no_solo cex_cfg_demote (st_nid s) = false /\
  (exists o s', model_event (mkOptions false false false 0 0 [2; 2]) s ev = Done (o, s') /\
     map fst (lo_replies (ob_out o)) = [12; 12]) /\
  (exists o s', model_event ex_opt s ev = Done (o, s') /\ map fst (lo_replies (ob_out o)) = [12]).
Proof.
  cbv zeta. split; [ex_ledger_ok|]. split; [reflexivity|]. split; [wf_config_solve|].
  split; [vm_compute; reflexivity|]. split; [vm_compute; discriminate|]. split; [vm_compute; reflexivity|].
  split; eexists; eexists; (split; [vm_compute; reflexivity|]); reflexivity.
Qed.

(* [covered_change], leader_votes: a leader that is not a voter refuses every configuration entry at
   once (InProgressError) and stays free to be asked again: the action that is ready and the
   submitted configuration both answer the task *)
Example cex_change_config_nonvoter :
  let s := upd_ldr ex2_s4 (fun l => l <| ld_voter := false |>) in
  let ev := ELeader (LChangeConfig 11 ex2_cfg3) in
  ledger_ok s /\ pending s = [] /\ no_solo ex2_cfg3 (st_nid s) = true /\ ~ leader_votes s /\
  exists o s', model_event ex_opt s ev = Done (o, s') /\ map fst (lo_replies (ob_out o)) = [11; 11].
Proof.
  cbv zeta. split; [ex_ledger_ok|]. split; [reflexivity|]. split; [vm_compute; reflexivity|].
  split; [vm_compute; intros H; specialize (H eq_refl); discriminate|].
  eexists. eexists. split; [vm_compute; reflexivity|]. reflexivity.
Qed.

(* [covered_change], the index of Latest: were it lastLogIndex+1 (no reachable state: Latest is read
   from the log), the entry appended for the action would get that very index, onChangeConfig would
   conclude that no action was carried out and append the submitted configuration as well: two
   entries carry the task, both are answered *)
Example cex_change_config_index :
  let c4 := mkConfig (c_nodes (st_latest ex2_s4)) 4 1 in
  let s := ex2_s4 <| st_committed := c4 |> <| st_latest := c4 |> in
  let ev := ELeader (LChangeConfig 11 (mkConfig (c_nodes ex2_cfg3) 4 1)) in
  ledger_ok s /\ pending s = [] /\ leader_votes s /\ st_lastidx s = 3 /\
  exists o s', model_event ex_opt s ev = Done (o, s') /\ map fst (lo_replies (ob_out o)) = [11; 11].
Proof.
  cbv zeta. split; [ex_ledger_ok|]. split; [reflexivity|]. split; [vm_compute; reflexivity|]. split; [reflexivity|].
  eexists. eexists. split; [vm_compute; reflexivity|]. reflexivity.
Qed.
