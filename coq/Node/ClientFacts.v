(* C07: what the node a client talks to does with updates, reads and barriers.
   Proofs for Props/C07.v.  Depends on the model files only. *)
From Coq Require Import List NArith ZArith Bool Lia.
From RecordUpdate Require Import RecordUpdate.
From Verif Require Import Base.Bytes Codec.Messages Node.Types Node.Handlers Node.Leader Node.Snap.
Import ListNotations.
Open Scope N_scope.

(* ---------------------------------------------------------------- definitions used by the statements *)
(* entries (first+k, term, entryUpdate, data_k) *)
Fixpoint numbered (first : N) (term : N) (datas : list bytes) : list entry :=
  match datas with
  | [] => []
  | d :: r => mkEntry first term entryUpdate d :: numbered (first + 1) term r
  end.

(* queue items (first+k, entryUpdate, tid_k) *)
Fixpoint queued (first : N) (tids : list N) : list newent :=
  match tids with
  | [] => []
  | t :: r => mkNewEnt first entryUpdate t :: queued (first + 1) r
  end.

Lemma numbered_nth first term datas k d :
  nth_error datas k = Some d ->
  nth_error (numbered first term datas) k = Some (mkEntry (first + N.of_nat k) term entryUpdate d).
Proof.
  revert first k. induction datas as [|x r IH]; intros first [|k] H; cbn in *; try discriminate.
  - inversion H; subst. rewrite N.add_0_r. reflexivity.
  - rewrite (IH _ _ H). do 2 f_equal. lia.
Qed.

Lemma queued_nth first tids k t :
  nth_error tids k = Some t ->
  nth_error (queued first tids) k = Some (mkNewEnt (first + N.of_nat k) entryUpdate t).
Proof.
  revert first k. induction tids as [|x r IH]; intros first [|k] H; cbn in *; try discriminate.
  - inversion H; subst. rewrite N.add_0_r. reflexivity.
  - rewrite (IH _ _ H). do 2 f_equal. lia.
Qed.

Lemma numbered_length first term datas : length (numbered first term datas) = length datas.
Proof. revert first; induction datas; intros; cbn; auto. Qed.
Lemma queued_length first tids : length (queued first tids) = length tids.
Proof. revert first; induction tids; intros; cbn; auto. Qed.

(* ---------------------------------------------------------------- inversion of the monads *)
Lemma obind_inv {A B} (o : outcome A) (k : A -> outcome B) r :
  obind o k = Done r -> exists a, o = Done a /\ k a = Done r.
Proof. destruct o; cbn; [eauto | discriminate]. Qed.

Lemma wbind_inv (o : outcome W) (k : nstate -> outcome W) s' out :
  wbind o k = Done (s', out) ->
  exists s1 o1 o2, o = Done (s1, o1) /\ k s1 = Done (s', o2) /\ out = out_app o1 o2.
Proof.
  unfold wbind. destruct o as [[s1 o1]|]; [|discriminate].
  destruct (k s1) as [[s2 o2]|] eqn:E; [|discriminate].
  intros H; inversion H; subst. exists s1, o1, o2. auto.
Qed.

Lemma get_ldr_inv s l : get_ldr s = Done l -> st_ldr s = Some l.
Proof. unfold get_ldr. destruct (st_ldr s); intros H; inversion H; reflexivity. Qed.

Lemma get_ldr_some s l : st_ldr s = Some l -> get_ldr s = Done l.
Proof. unfold get_ldr. intros ->. reflexivity. Qed.

(* ---------------------------------------------------------------- 1. not leader *)
Theorem nonleader_rejects_definitively :
  forall s nes s' out, nonleader_client s nes = Done (s', out) ->
    s' = s /\ forall ne, In ne nes -> nq_tid ne <> 0 ->
      In (nq_tid ne, if nq_typ ne =? entryDirtyRead then RpNil else RpNotLeader false) (lo_replies out).
Proof.
  intros s nes s' out H. unfold nonleader_client in H. inversion H; subst. split; [reflexivity|].
  intros ne Hin Hz. cbn [lo_replies].
  apply (in_map (fun ne => (nq_tid ne, if nq_typ ne =? entryDirtyRead then RpNil else RpNotLeader false))).
  apply filter_In. split; [exact Hin|]. apply N.eqb_neq in Hz. rewrite Hz. reflexivity.
Qed.

(* ---------------------------------------------------------------- the leader's apply *)
Lemma apply_queue_frame q : forall s out r, apply_queue s q out = Done r ->
  st_log (fst r) = st_log s /\ st_lastidx (fst r) = st_lastidx s /\ st_logprev (fst r) = st_logprev s /\
  st_ldr (fst r) = st_ldr s.
Proof.
  induction q as [|ne r IH]; intros s out res H; cbn [apply_queue] in H.
  - inversion H; subst. auto.
  - destruct (negb _); [discriminate|]. apply IH in H. destruct H as (H1 & H2 & H3 & H4).
    rewrite H1, H2, H3, H4. destruct (is_log_entry _); auto.
Qed.

Lemma leader_apply_committed_frame s s' out :
  leader_apply_committed s = Done (s', out) -> st_log s' = st_log s /\ st_lastidx s' = st_lastidx s.
Proof.
  unfold leader_apply_committed. intros H.
  apply obind_inv in H. destruct H as (l & Hl & H).
  destruct (split_queue _ _) as [head rest].
  destruct (_ <? _); [discriminate|]. destruct (_ <? _); [discriminate|].
  destruct (_ <? _).
  - apply obind_inv in H. destruct H as ([s2 reps] & Hq & H).
    destruct (_ =? _); [|discriminate]. inversion H; subst.
    apply apply_queue_frame in Hq. cbn [fst] in Hq. destruct Hq as (H1 & H2 & _). rewrite H1, H2. auto.
  - destruct (terms_upto _ _ _ _); [|discriminate].
    apply obind_inv in H. destruct H as ([s3 reps] & Hq & H).
    destruct (_ =? _); [|discriminate]. inversion H; subst.
    apply apply_queue_frame in Hq. cbn [fst] in Hq. destruct Hq as (H1 & H2 & _). rewrite H1, H2.
    destruct (_ <? _); auto.
Qed.

(* ---------------------------------------------------------------- 2. transferring / demoted leader *)
Theorem leader_rejects_while_transferring_or_demoted :
  forall opt fuel s nes s' out l,
    st_ldr s = Some l -> (ld_tr_active l = true \/ ld_voter l = false) ->
    store_entry opt fuel s nes = Done (s', out) ->
    st_log s' = st_log s /\ st_lastidx s' = st_lastidx s /\
    forall ne, In ne nes -> nq_tid ne <> 0 -> exists k, In (nq_tid ne, RpInProgress k) (lo_replies out).
Proof.
  intros opt fuel s nes s' out l Hl Hrej H.
  destruct fuel as [|f]; [discriminate|].
  cbn [store_entry] in H.
  match type of H with wbind (?L s nes) _ = _ => set (loop := L) in H end.
  assert (HL : forall nes s1 o1, loop s nes = Done (s1, o1) ->
            s1 = s /\ forall ne, In ne nes -> nq_tid ne <> 0 -> exists k, In (nq_tid ne, RpInProgress k) (lo_replies o1)).
  { clear H. induction nes0 as [|ne rest IHl]; intros s1 o1 H; cbn in H.
    - inversion H; subst. split; [reflexivity|]. intros ? [].
    - fold loop in H. rewrite (get_ldr_some _ _ Hl) in H. cbn [obind] in H.
      unfold transfer_in_progress in H.
      assert (HR : exists k, (s2 <~~ wreply s (nq_tid ne) (RpInProgress k) ;; loop s2 rest) = Done (s1, o1)).
      { destruct (ld_tr_active l) eqn:Ea; [exists 1; exact H|].
        destruct Hrej as [Hr|Hr]; [congruence|]. rewrite Hr in H. cbn [negb] in H.
        destruct (cfg_node _ _); [exists 2 | exists 3]; exact H. }
      clear H. destruct HR as (k & H).
      apply wbind_inv in H. destruct H as (s2 & o2 & o3 & Hw & H & ->).
      unfold wreply in Hw. inversion Hw; subst. apply IHl in H. destruct H as (-> & H).
      split; [reflexivity|]. intros ne' [<-|Hin] Hz.
      + exists k. cbn. apply N.eqb_neq in Hz. rewrite Hz. left; reflexivity.
      + destruct (H ne' Hin Hz) as (k' & Hk). exists k'. cbn. apply in_or_app. right; exact Hk. }
  apply wbind_inv in H. destruct H as (s1 & o1 & o2 & Hloop & H & ->).
  apply HL in Hloop. destruct Hloop as (-> & Hrep).
  rewrite (get_ldr_some _ _ Hl) in H. cbn [obind] in H.
  apply wbind_inv in H. destruct H as (s2 & o3 & o4 & H2 & H & ->).
  assert (F : st_log s2 = st_log s /\ st_lastidx s2 = st_lastidx s).
  { destruct (ld_queue l) as [|ne q].
    - unfold wret in H2. inversion H2; subst. auto.
    - destruct (negb _).
      + apply leader_apply_committed_frame in H2. exact H2.
      + unfold wret in H2. inversion H2; subst. auto. }
  destruct F as (F1 & F2). rewrite F2, N.ltb_irrefl in H. unfold wret in H. inversion H; subst.
  split; [exact F1|]. split; [exact F2|].
  intros ne Hin Hz. destruct (Hrep ne Hin Hz) as (k & Hk). exists k.
  cbn. apply in_or_app. left; exact Hk.
Qed.

(* ---------------------------------------------------------------- 3. accepted updates *)
Lemma begin_finished_rounds_frame s :
  st_log (begin_finished_rounds s) = st_log s /\ st_lastidx (begin_finished_rounds s) = st_lastidx s /\
  match st_ldr s with
  | Some l => exists l', st_ldr (begin_finished_rounds s) = Some l' /\ ld_queue l' = ld_queue l /\
                         ld_numvoters l' = ld_numvoters l /\ ld_voter l' = ld_voter l
  | None => st_ldr (begin_finished_rounds s) = None
  end.
Proof.
  unfold begin_finished_rounds, upd_ldr. destruct (st_ldr s) eqn:E.
  - cbn. split; [reflexivity|]. split; [reflexivity|]. eexists. split; [reflexivity|]. auto.
  - rewrite E. auto.
Qed.

Lemma notify_flr_frame s b s' l :
  st_ldr s = Some l -> notify_flr s b = Done s' ->
  st_log s' = st_log s /\ exists l', st_ldr s' = Some l' /\ ld_queue l' = ld_queue l /\
                          ld_numvoters l' = ld_numvoters l /\ ld_voter l' = ld_voter l.
Proof.
  intros Hl H. unfold notify_flr in H. rewrite (get_ldr_some _ _ Hl) in H. cbn [obind] in H.
  apply obind_inv in H. destruct H as (vp & _ & H). inversion H; subst.
  split; [reflexivity|]. eexists. split; [reflexivity|]. auto.
Qed.

Theorem accepted_updates_appended_in_order :
  forall opt fuel s datas tids s' out l,
    st_ldr s = Some l -> ld_tr_active l = false -> ld_voter l = true -> length datas = length tids ->
    negb (ld_numvoters l =? 1) = true ->
    (match ld_queue l with ne :: _ => is_log_entry (ne_typ ne) = true | [] => True end) ->
    store_entry opt fuel s (map (fun p => mkNewReq entryUpdate (fst p) (snd p)) (combine datas tids)) = Done (s', out) ->
    st_log s' = st_log s ++ numbered (st_lastidx s + 1) (st_term s) datas /\
    exists l', st_ldr s' = Some l' /\
      ld_queue l' = ld_queue l ++ queued (st_lastidx s + 1) tids.
Proof.
  intros opt fuel s datas tids s' out l Hl Htr Hv Hlen Hnv Hq H.
  destruct fuel as [|f]; [discriminate|].
  cbn [store_entry] in H.
  match type of H with wbind (?L s ?nes) _ = _ => set (loop := L) in H end.
  assert (HL : forall datas tids, length datas = length tids ->
            forall s0 l0 s1 o1, st_ldr s0 = Some l0 -> ld_tr_active l0 = false -> ld_voter l0 = true ->
            loop s0 (map (fun p => mkNewReq entryUpdate (fst p) (snd p)) (combine datas tids)) = Done (s1, o1) ->
            st_log s1 = st_log s0 ++ numbered (st_lastidx s0 + 1) (st_term s0) datas /\
            exists l1, st_ldr s1 = Some l1 /\ ld_queue l1 = ld_queue l0 ++ queued (st_lastidx s0 + 1) tids /\
                       ld_numvoters l1 = ld_numvoters l0 /\ ld_voter l1 = ld_voter l0).
  { clear. induction datas as [|d dr IHl]; intros [|t tr] Hlen s0 l0 s1 o1 Hl Htr Hv H; try discriminate.
    - cbn in H. inversion H; subst. cbn. rewrite !app_nil_r. split; [reflexivity|]. exists l0. auto.
    - cbn [combine map] in H. cbn in H. fold loop in H.
      rewrite (get_ldr_some _ _ Hl) in H. cbn [obind] in H. unfold transfer_in_progress in H.
      rewrite Htr, Hv in H. cbn [negb] in H.
      apply obind_inv in H. destruct H as (s2 & Ha & H).
      unfold append_entry in Ha. cbn in Ha. rewrite N.eqb_refl in Ha. inversion Ha; subst s2. clear Ha.
      eapply IHl in H; [| cbn in Hlen; lia | cbn; reflexivity | cbn; exact Htr | cbn; exact Hv].
      cbn in H. destruct H as (HA & l1 & H1 & H2 & H3 & H4).
      split.
      + rewrite HA. rewrite <- app_assoc. reflexivity.
      + exists l1. split; [exact H1|]. split; [|auto]. rewrite H2, <- app_assoc. reflexivity. }
  apply wbind_inv in H. destruct H as (s1 & o1 & o2 & Hloop & H & ->).
  eapply HL in Hloop; [| exact Hlen | exact Hl | exact Htr | exact Hv]. clear HL.
  destruct Hloop as (HA & l1 & H1 & H2 & H3 & H4).
  rewrite (get_ldr_some _ _ H1) in H. cbn [obind] in H.
  apply wbind_inv in H. destruct H as (s2 & o3 & o4 & Hs2 & H & ->).
  assert (E2 : s2 = s1).
  { rewrite H2 in Hs2. destruct (ld_queue l) as [|ne0 q0].
    - destruct tids as [|t tr]; cbn in Hs2.
      + unfold wret in Hs2. inversion Hs2; reflexivity.
      + change (is_log_entry entryUpdate) with true in Hs2. cbn in Hs2. unfold wret in Hs2. inversion Hs2; reflexivity.
    - cbn in Hs2. rewrite Hq in Hs2. cbn in Hs2. unfold wret in Hs2. inversion Hs2; reflexivity. }
  subst s2. clear Hs2.
  destruct (_ <? _).
  - pose proof (begin_finished_rounds_frame s1) as (B1 & _ & B3). rewrite H1 in B3.
    destruct B3 as (lb & Lb & Q1 & Q2 & Q3).
    apply obind_inv in H. destruct H as (s4 & Hn & H).
    eapply notify_flr_frame in Hn; [|exact Lb]. destruct Hn as (N1 & l4 & L4 & Q4 & Q5 & Q6).
    rewrite (get_ldr_some _ _ L4) in H. cbn [obind] in H.
    rewrite Q5, Q2, H3 in H. apply negb_true_iff in Hnv. rewrite Hnv in H. cbn [andb] in H.
    unfold wret in H. inversion H; subst.
    split; [congruence|]. exists l4. split; [exact L4|]. congruence.
  - unfold wret in H. inversion H; subst.
    split; [exact HA|]. exists l1. auto.
Qed.

(* ---------------------------------------------------------------- 4. what is released *)
Theorem release_is_a_committed_prefix :
  forall commit q head rest, split_queue commit q = (head, rest) ->
    q = head ++ rest /\
    (forall ne, In ne head -> ne_index ne <= commit \/ (ne_index ne = commit + 1 /\ is_log_entry (ne_typ ne) = false)) /\
    (match rest with
     | ne :: _ => commit < ne_index ne /\ (ne_index ne = commit + 1 -> is_log_entry (ne_typ ne) = true)
     | [] => True end).
Proof.
  intros commit q. induction q as [|ne r IH]; intros head rest H; cbn [split_queue] in H.
  - inversion H; subst. split; [reflexivity|]. split; [intros ? []| exact I].
  - destruct (_ || _) eqn:E.
    + destruct (split_queue commit r) as [a b]. inversion H; subst.
      destruct (IH _ _ eq_refl) as (I1 & I2 & I3).
      split; [cbn; rewrite <- I1; reflexivity|]. split; [|exact I3].
      intros x [<-|Hin]; [|auto].
      apply orb_true_iff in E. destruct E as [E|E].
      * left. apply N.leb_le in E. exact E.
      * right. apply andb_true_iff in E. destruct E as [E1 E2].
        apply N.eqb_eq in E1. apply negb_true_iff in E2. auto.
    + inversion H; subst. split; [reflexivity|]. split; [intros ? []|].
      apply orb_false_iff in E. destruct E as [E1 E2]. apply N.leb_gt in E1.
      split; [exact E1|]. intros Heq. apply N.eqb_eq in Heq. rewrite Heq in E2. cbn in E2.
      apply negb_false_iff in E2. exact E2.
Qed.

(* ---------------------------------------------------------------- 5. the result of an update *)
Lemma apply_queue_replies q : forall s out0 s' out,
  apply_queue s q out0 = Done (s', out) ->
  (forall x, In x out0 -> In x out) /\
  forall ne, In ne q -> ne_typ ne = entryUpdate -> ne_tid ne <> 0 ->
    In (ne_tid ne, match log_get s (ne_index ne) with Some e => RpVal (update_result (e_data e)) | None => RpNil end) out.
Proof.
  induction q as [|ne r IH]; intros s out0 s' out H; cbn [apply_queue] in H.
  - inversion H; subst. split; [auto|]. intros ? [].
  - destruct (negb _); [discriminate|].
    apply IH in H. destruct H as (Hincl & Hrep). split.
    + intros x Hx. apply Hincl. apply in_or_app. left; exact Hx.
    + intros ne' [<-|Hin] Ht Hz.
      * apply Hincl. apply in_or_app. right.
        apply N.eqb_neq in Hz. rewrite Hz. apply N.eqb_eq in Ht. rewrite Ht. left; reflexivity.
      * specialize (Hrep ne' Hin Ht Hz).
        replace (log_get s (ne_index ne')) with
          (log_get (if is_log_entry (ne_typ ne) then set_fsm s (ne_index ne) (st_term s) else s) (ne_index ne')).
        { exact Hrep. }
        destruct (is_log_entry _); reflexivity.
Qed.

Theorem update_reply_is_result_at_its_position :
  forall s q out s' ne,
    apply_queue s q [] = Done (s', out) -> In ne q -> ne_typ ne = entryUpdate -> ne_tid ne <> 0 ->
    exists e, log_get s (ne_index ne) = Some e /\ In (ne_tid ne, RpVal (update_result (e_data e))) out
    \/ log_get s (ne_index ne) = None /\ In (ne_tid ne, RpNil) out.
Proof.
  intros s q out s' ne H Hin Ht Hz.
  apply apply_queue_replies in H. destruct H as (_ & H). specialize (H ne Hin Ht Hz).
  destruct (log_get s (ne_index ne)) as [e|].
  - exists e. left. auto.
  - exists (mkEntry 0 0 0 []). right. auto.
Qed.

(* ---------------------------------------------------------------- 6. end of leadership *)
Theorem release_answers_every_queued_task :
  forall s l s' out, st_ldr s = Some l -> leader_release_out s = (s', out) ->
    st_ldr s' = None /\
    forall ne, In ne (ld_queue l) -> ne_tid ne <> 0 ->
      In (ne_tid ne, if st_closed s then RpServerClosed else RpNotLeader true) (lo_replies out).
Proof.
  intros s l s' out Hl H. unfold leader_release_out in H. rewrite Hl in H.
  inversion H; subst. clear H. split; [reflexivity|].
  intros ne Hin Hz. cbn [lo_replies].
  apply in_or_app. right. apply in_or_app. left.
  replace (st_closed (if st_leader s =? st_nid s then set_leader s 0 else s)) with (st_closed s)
    by (destruct (_ =? _); reflexivity).
  apply (in_map (fun ne => (ne_tid ne, if st_closed s then RpServerClosed else RpNotLeader true))).
  apply filter_In. split; [exact Hin|]. apply N.eqb_neq in Hz. rewrite Hz. reflexivity.
Qed.
