(* Histories of one node: any sequence of events, each with any oracle value. *)
From Coq Require Import List NArith ZArith Bool.
From Verif Require Import Base.Bytes Codec.Messages Node.Types Node.Handlers Node.Leader Node.Snap Node.Step.
Import ListNotations.
Open Scope N_scope.

(* one iteration of the node: some event, some oracle, the model does not fail *)
Definition nstep (s s' : nstate) : Prop :=
  exists opt ev o, model_event opt s ev = Done (o, s').

(* the states a node goes through, oldest first *)
Inductive npath : list nstate -> Prop :=
| path_one s : npath [s]
| path_step s s' l : nstep s s' -> npath (s' :: l) -> npath (s :: s' :: l).

(* labelled version: events and what the peers/callers saw *)
Inductive nrun : nstate -> list (options * nevent * nobs) -> nstate -> Prop :=
| run_nil s : nrun s [] s
| run_cons s opt ev o s1 tr s2 :
    model_event opt s ev = Done (o, s1) -> nrun s1 tr s2 -> nrun s ((opt, ev, o) :: tr) s2.

(* a node as New() leaves it on an empty or bootstrapped storage directory *)
Definition fresh_node (cid nid : N) : nstate :=
  mkNode_ cid nid 0 0 0 [] 0 0 0 0 0 empty_config empty_config empty_config
          Follower 0 0 true false None false 0 0 false 0%Z false None.
