(* Snapshots and the tasks a node handles in any role:
     fsm.go      onTakeSnapshot, doTakeSnapshot (+ stateMachine.onSnapReq), onSnapshotTaken
     task.go     executeTask for non-leaders, the newEntryCh case of stateLoop
     config.go   Raft.bootstrap
     raft.go     doClose (Shutdown)
   No proofs here. *)
From Coq Require Import List NArith ZArith Bool.
From RecordUpdate Require Import RecordUpdate.
From Verif Require Import Base.Bytes Codec.Messages Node.Types Node.Handlers Node.Leader.
Import ListNotations.
Open Scope N_scope.

(* onTakeSnapshot: the fsmSnapReq is enqueued by the main loop, so the state
   machine answers it in the state reached by every apply sent so far *)
Definition on_take_snapshot (s : nstate) (tid threshold : N) : outcome W :=
  if st_snapbusy s then wreply s tid (RpInProgress 5)
  else
    let done := if st_fsmidx s =? st_snapidx s then SnapFail 1
                else if st_fsmidx s <? st_snapidx s + threshold then SnapFail 2
                else SnapPending in
    wret (s <| st_snapbusy := true |>
            <| st_snapreq := Some (mkSnapReqSt tid (st_fsmidx s) (st_fsmterm s) (st_committed s) done) |>).

(* the goroutine started by onTakeSnapshot: writes the captured state and
   PUBLISHES it (snaps.index/term move) before the main loop hears about it *)
Definition snapshot_run (s : nstate) : outcome nstate :=
  match st_snapreq s with
  | Some rq =>
      match sr_done rq with
      | SnapPending =>
          (* sink.done publishes only a snapshot newer than the one already there *)
          let s1 := if st_snapidx s <? sr_index rq then set_snap s (sr_index rq) (sr_term rq) (sr_config rq) else s in
          Done (s1 <| st_snapreq := Some (mkSnapReqSt (sr_tid rq) (sr_index rq) (sr_term rq) (sr_config rq) (SnapOk (sr_index rq))) |>)
      | _ => Done s
      end
  | None => Err EBug
  end.

Definition min_list (d : N) (l : list N) : N := fold_left N.min l d.

(* onSnapshotTaken *)
Definition on_snapshot_taken (opt : options) (s : nstate) : outcome W :=
  match st_snapreq s with
  | None => Err EBug
  | Some rq =>
      let s0 := s <| st_snapbusy := false |> <| st_snapreq := None |> in
      match sr_done rq with
      | SnapPending => Err EBug
      | SnapFail c => wreply s0 (sr_tid rq) (if c =? 1 then RpNoUpdates else RpSnapThreshold)
      | SnapOk idx =>
          if log_contains s0 idx then
            let is_ldr := st_role s0 =? Leader in
            let repls := match st_ldr s0 with Some l => if is_ldr then ld_repls l else [] | None => [] end in
            (* the entry at a follower's matchIndex is still read through its replication's view: kept *)
            let now_bound := min_list idx (map (fun r => rp_match r - 1) repls) in
            let can_bound := min_list idx (map rp_match (filter (fun r => negb (rp_nocontact r)) repls)) in
            (* CanLTE picks segment boundaries: oracles, constrained by the bounds *)
            let np := if o_newprev opt =? 0 then st_logprev s0 else o_newprev opt in
            if negb ((st_logprev s0 <=? np) && (np <=? N.max now_bound (st_logprev s0))) then Err EBug else
            let s1 := if st_logprev s0 <? np then
                        let sc := commit_log s0 (log_lastindex s0) in
                        set_log sc np (skipn (N.to_nat (np - st_logprev sc)) (st_log sc)) (st_lastidx sc) (st_lastterm sc)
                      else s0 in
            s2 <~ (if negb (o_newremovelte opt =? 0) && is_ldr then
                     if negb ((np <=? o_newremovelte opt) && (o_newremovelte opt <=? can_bound)) then Err EBug else
                     notify_flr (upd_ldr s1 (fun l => l <| ld_removelte := o_newremovelte opt |>)) false
                   else Done s1) ;;
            wreply s2 (sr_tid rq) (RpVal idx)
          else wreply s0 (sr_tid rq) (RpVal idx)
      end
  end.

(* ---------------------------------------------------------------- tasks outside leadership *)
(* stateLoop, newEntryCh case, r.state != Leader: dirty reads go to the state
   machine, everything else is refused *)
Definition nonleader_client (s : nstate) (nes : list newreq) : outcome W :=
  Done (s, mkOut (map (fun ne => (nq_tid ne, if nq_typ ne =? entryDirtyRead then RpNil else RpNotLeader false))
                      (filter (fun ne => negb (nq_tid ne =? 0)) nes)) []).

(* Raft.bootstrap *)
Definition bootstrap (s : nstate) (tid : N) (c : config) : outcome W :=
  if is_bootstrapped (st_latest s) then wreply s tid (RpNotLeader false)
  else if negb (config_valid c) then wreply s tid RpInvalid
  else match cfg_node c (st_nid s) with
       | None => wreply s tid RpInvalid
       | Some me =>
           if negb (n_voter me) then wreply s tid RpInvalid
           else if negb (is_stable c) then wreply s tid RpInvalid
           else
             let c1 := mkConfig (c_nodes c) 1 1 in
             (* storage.bootstrap: appendEntry, commitLog(1), setTerm(1) *)
             s1 <~ append_entry s (mkEntry 1 1 entryConfig (enc_config_data (c_nodes c1))) ;;
             (* storage.bootstrap: a node that already took part in an election keeps its term and vote *)
             s2 <~ set_term (commit_log s1 1) (N.max 1 (st_term s1)) ;;   (* = the term it has, unless that is 0 *)
             let s3 := change_config (set_log s2 (st_logprev s2) (st_log s2) 1 1) c1 in
             s4 <~~ wreply s3 tid RpNil ;;
             wret (set_role s4 Candidate)
       end.

Inductive ntask :=
| TClient (nes : list newreq)
| TChangeConfig (tid : N) (c : config)
| TWaitStable (tid : N)
| TTransfer (tid target : N)
| TTakeSnapshot (tid threshold : N)
| TShutdown.

(* executeTask / newEntryCh for a node that is not leader; TTakeSnapshot and
   TShutdown are role independent *)
Definition node_task (s : nstate) (t : ntask) : outcome W :=
  match t with
  | TClient nes => nonleader_client s nes
  | TChangeConfig tid c => bootstrap s tid c
  | TWaitStable tid | TTransfer tid _ => wreply s tid (RpNotLeader false)
  | TTakeSnapshot tid th => on_take_snapshot s tid th
  | TShutdown => wret (set_closed s true)
  end.
