(* C16: leadership transfer.  Proofs of the statements in Props/C16.v. *)
From Coq Require Import List NArith ZArith Bool Lia ZifyN ZifyBool.
From RecordUpdate Require Import RecordUpdate.
From Verif Require Import Base.Bytes Codec.Messages Node.Types Node.Handlers Node.Leader Node.Snap Node.Step Node.Run
  Node.PreserveTV.
Import ListNotations.
Open Scope N_scope.

(* ---------------------------------------------------------------- the target of timeout-now *)
Definition eligible (s : nstate) (l : ldrst) (t : N) : Prop :=
  t <> st_nid s /\ is_voter (st_latest s) t = true /\
  exists rp, find_repl t (ld_repls l) = Some rp /\ rp_match rp = st_lastidx s /\ rp_nocontact rp = false.

Lemma repl_ready_true s l id :
  repl_ready s l id = Done true ->
  exists rp, find_repl id (ld_repls l) = Some rp /\ rp_match rp = st_lastidx s /\ rp_nocontact rp = false.
Proof.
  unfold repl_ready. destruct (find_repl id (ld_repls l)) as [rp|]; [|discriminate].
  intros H. inversion H as [H1]. apply andb_true_iff in H1. destruct H1 as [A B].
  apply negb_true_iff in A. apply N.eqb_eq in B. exists rp. auto.
Qed.

Lemma transfer_target_eligible :
  forall opt s s' out t l,
    try_transfer opt s = Done (s', out) -> st_ldr s = Some l ->
    (ld_tr_target l <> st_nid s \/ find_repl (st_nid s) (ld_repls l) = None) ->
    In (MTimeoutNow t) (lo_msgs out) ->
    t <> st_nid s /\ is_voter (st_latest s) t = true /\
    exists rp, find_repl t (ld_repls l) = Some rp /\ rp_match rp = st_lastidx s /\ rp_nocontact rp = false.
Proof.
  intros opt s s' out t l H Hl Hself Hin.
  unfold try_transfer, get_ldr in H. rewrite Hl in H. cbn [obind] in H.
  apply obind_inv in H. destruct H as (target & HT & H).
  destruct (target =? 0) eqn:E0.
  { unfold wret in H. inversion H; subst. cbn in Hin. destruct Hin. }
  unfold wmsg in H. inversion H; subst. cbn in Hin. destruct Hin as [Hin|[]]. inversion Hin; subst t. clear Hin H.
  apply N.eqb_neq in E0.
  change (eligible s l target).
  destruct (negb (ld_tr_target l =? 0)).
  - destruct (is_voter (st_latest s) (ld_tr_target l)) eqn:EV.
    + apply obind_inv in HT. destruct HT as (ok & HR & HT). inversion HT; subst. clear HT.
      destruct ok; [|congruence].
      apply repl_ready_true in HR. destruct HR as (rp & F & M & C).
      split; [|split; [exact EV | exists rp; auto]].
      destruct Hself as [Hs|Hs]; [exact Hs|]. intros X. rewrite X in F. congruence.
    + inversion HT; congruence.
  - revert HT. match goal with |- fold_left ?F ?V ?A = _ -> _ => generalize V end.
    intros visit HT.
    assert (Q : forall r, fold_left
              (fun acc id => a <~ acc ;;
                 if negb (a =? 0) then Done a
                 else if negb (id =? st_nid s) && is_voter (st_latest s) id
                      then ok <~ repl_ready s l id ;; Done (if ok then id else 0) else Done 0)
              visit (Done 0) = Done r -> r = 0 \/ eligible s l r).
    { apply fold_left_inv.
      - intros r Hr; inversion Hr; auto.
      - intros acc id IH r Hr.
        apply obind_inv in Hr. destruct Hr as (a & Ha & Hr). subst acc.
        specialize (IH _ eq_refl).
        destruct (negb (a =? 0)). { inversion Hr; subst; exact IH. }
        destruct (negb (id =? st_nid s) && is_voter (st_latest s) id) eqn:EC.
        + apply obind_inv in Hr. destruct Hr as (ok & HR & Hr). inversion Hr; subst. clear Hr.
          destruct ok; [|auto]. right.
          apply andb_true_iff in EC. destruct EC as [A B].
          apply negb_true_iff, N.eqb_neq in A.
          apply repl_ready_true in HR. split; [exact A | split; [exact B | exact HR]].
        + inversion Hr; auto. }
    apply Q in HT. destruct HT; [congruence | assumption].
Qed.

(* ---------------------------------------------------------------- nothing is accepted during a transfer *)
Lemma log_apply_queue q : forall s out r,
  apply_queue s q out = Done r -> st_log (fst r) = st_log s /\ st_lastidx (fst r) = st_lastidx s.
Proof.
  induction q as [|ne r IH]; intros s out res H; cbn [apply_queue] in H.
  - inversion H; auto.
  - destruct (negb _); [discriminate|]. apply IH in H. destruct H as [A B]. rewrite A, B.
    destruct (is_log_entry _); auto.
Qed.

(* the leader's applyCommitted hands entries to the state machine; it does not touch the log *)
Lemma log_leader_apply_committed s w :
  leader_apply_committed s = Done w -> st_log (fst w) = st_log s /\ st_lastidx (fst w) = st_lastidx s.
Proof.
  unfold leader_apply_committed. intros H.
  repeat (first [ match goal with H : apply_queue _ _ _ = Done _ |- _ => apply log_apply_queue in H; destruct H end | inv1 ]);
  cbn [fst] in *;
  repeat match goal with H : st_log _ = _ |- _ => rewrite H; clear H end;
  repeat match goal with H : st_lastidx _ = _ |- _ => rewrite H; clear H end;
  try (destruct (st_fsmidx _ <? _)); auto.
Qed.

Definition in_progress_replies (nes : list newreq) : list (N * reply) :=
  flat_map (fun ne => if nq_tid ne =? 0 then [] else [(nq_tid ne, RpInProgress 1)]) nes.

Lemma no_new_entries_during_transfer :
  forall opt fuel s nes s' out l,
    st_ldr s = Some l -> ld_tr_active l = true -> store_entry opt fuel s nes = Done (s', out) ->
    st_log s' = st_log s /\ st_lastidx s' = st_lastidx s /\
    forall ne, In ne nes -> nq_tid ne <> 0 -> In (nq_tid ne, RpInProgress 1) (lo_replies out).
Proof.
  intros opt fuel s nes s' out l Hl Ha H.
  destruct fuel as [|f]; [discriminate|].
  cbn [store_entry] in H. refold opt H.
  match type of H with wbind (?L s nes) _ = _ => set (loop := L) in H end.
  assert (HL : forall nes, loop s nes = Done (s, mkOut (in_progress_replies nes) [])).
  { clear H. induction nes0 as [|ne rest IHl].
    - reflexivity.
    - cbn. fold loop. unfold get_ldr. rewrite Hl. cbn [obind]. unfold transfer_in_progress. rewrite Ha.
      unfold wreply. cbn [wbind]. rewrite IHl. unfold out_app. cbn. reflexivity. }
  rewrite HL in H. clear HL loop. cbn [wbind] in H.
  unfold get_ldr in H at 1. rewrite Hl in H. cbn [obind] in H.
  match type of H with match wbind ?X _ with _ => _ end = _ => destruct X as [[s2 o2]|] eqn:E2 end; [|discriminate].
  assert (F : st_log s2 = st_log s /\ st_lastidx s2 = st_lastidx s).
  { destruct (ld_queue l) as [|ne q].
    - unfold wret in E2. inversion E2; auto.
    - destruct (negb (is_log_entry (ne_typ ne))).
      + apply log_leader_apply_committed in E2. exact E2.
      + unfold wret in E2. inversion E2; auto. }
  destruct F as [F1 F2]. cbn [wbind] in H.
  rewrite F2, N.ltb_irrefl in H. unfold wret in H. inversion H; subst. clear H.
  split; [exact F1 | split; [exact F2|]].
  intros ne Hin Hne. cbn. apply in_or_app. left.
  unfold in_progress_replies. apply in_flat_map. exists ne. split; [exact Hin|].
  apply N.eqb_neq in Hne. rewrite Hne. left; reflexivity.
Qed.

Lemma no_config_action_during_transfer :
  forall s l, st_ldr s = Some l -> ld_tr_active l = true -> can_change_config s l = false.
Proof.
  intros s l _ H. unfold can_change_config, transfer_in_progress. rewrite H. apply andb_false_r.
Qed.

(* ---------------------------------------------------------------- what the task is told *)
Lemma transfer_success_means_higher_term :
  forall s l s' out,
    st_ldr s = Some l -> ld_tr_active l = true -> leader_release_out s = (s', out) ->
    In (ld_tr_tid l, RpNil) (lo_replies out) -> ld_tr_tid l <> 0 ->
    (forall ne, In ne (ld_queue l) -> ne_tid ne <> ld_tr_tid l) -> (~ In (ld_tr_tid l) (ld_waitstable l)) ->
    ld_tr_term l < st_term s.
Proof.
  intros s l s' out Hl Ha H Hin _ _ _.
  unfold leader_release_out in H. rewrite Hl in H. unfold transfer_in_progress in H. rewrite Ha in H.
  inversion H; subst; clear H. cbn [lo_replies app] in Hin.
  destruct Hin as [Hin|Hin].
  - destruct (ld_tr_term l <? st_term s) eqn:E; [apply N.ltb_lt; exact E|].
    destruct (st_closed s); inversion Hin.
  - apply in_app_or in Hin. destruct Hin as [Hin|Hin]; apply in_map_iff in Hin; destruct Hin as (x & Hx & _);
      inversion Hx as [[A B]]; destruct (st_closed _); discriminate.
Qed.

(* ---------------------------------------------------------------- the transfer record is only written by the transfer handlers *)
Definition trl (l : ldrst) : bool * N * N * bool * bool * N :=
  (ld_tr_active l, ld_tr_term l, ld_tr_target l, ld_tr_resp l, ld_tr_newterm l, ld_tr_tid l).
Definition trf (s : nstate) : option (bool * N * N * bool * bool * N) := option_map trl (st_ldr s).

Lemma trf_set_role s r : trf (set_role s r) = trf s. Proof. reflexivity. Qed.
Lemma trf_set_leader s r : trf (set_leader s r) = trf s. Proof. reflexivity. Qed.
Lemma trf_set_commit s r : trf (set_commit s r) = trf s. Proof. reflexivity. Qed.
Lemma trf_set_log s a b c d : trf (set_log s a b c d) = trf s. Proof. reflexivity. Qed.
Lemma trf_set_flushed s r : trf (set_flushed s r) = trf s. Proof. reflexivity. Qed.
Lemma trf_set_configs s a b : trf (set_configs s a b) = trf s. Proof. reflexivity. Qed.
Lemma trf_set_closed s r : trf (set_closed s r) = trf s. Proof. reflexivity. Qed.
Lemma trf_set_fsm s a b : trf (set_fsm s a b) = trf s. Proof. reflexivity. Qed.
Lemma trf_commit_log s n : trf (commit_log s n) = trf s. Proof. reflexivity. Qed.
Lemma trf_put_ldr s l : trf (put_ldr s l) = Some (trl l). Proof. reflexivity. Qed.
Lemma trf_upd_ldr s f : (forall l, trl (f l) = trl l) -> trf (upd_ldr s f) = trf s.
Proof. intros Hf. unfold upd_ldr, trf. destruct (st_ldr s) eqn:E; cbn; [rewrite Hf | rewrite E]; reflexivity. Qed.
Lemma trf_upd_repl s i f : trf (upd_repl s i f) = trf s.
Proof. apply trf_upd_ldr. reflexivity. Qed.
Lemma trf_begin_finished_rounds s : trf (begin_finished_rounds s) = trf s.
Proof. apply trf_upd_ldr. reflexivity. Qed.
Lemma trf_if (b : bool) (x y : nstate) : trf (if b then x else y) = if b then trf x else trf y.
Proof. destruct b; reflexivity. Qed.
Lemma trf_change_config s c : trf (change_config s c) = trf s.
Proof. unfold change_config. destruct (_ && _); reflexivity. Qed.
Lemma trf_commit_config s : trf (commit_config s) = trf s.
Proof. unfold commit_config. destruct (_ && _); reflexivity. Qed.
Lemma trl_queue l f : trl (set ld_queue f l) = trl l. Proof. reflexivity. Qed.
Lemma trl_repls l f : trl (set ld_repls f l) = trl l. Proof. reflexivity. Qed.
Lemma trl_present l f : trl (set ld_present f l) = trl l. Proof. reflexivity. Qed.
Lemma trl_voter l f : trl (set ld_voter f l) = trl l. Proof. reflexivity. Qed.
Lemma trl_numvoters l f : trl (set ld_numvoters f l) = trl l. Proof. reflexivity. Qed.
Lemma trl_waitstable l f : trl (set ld_waitstable f l) = trl l. Proof. reflexivity. Qed.
Lemma trl_removelte l f : trl (set ld_removelte f l) = trl l. Proof. reflexivity. Qed.

#[local] Hint Rewrite trf_set_role trf_set_leader trf_set_commit trf_set_log trf_set_flushed trf_set_configs
  trf_set_closed trf_set_fsm trf_commit_log trf_put_ldr trf_upd_repl trf_begin_finished_rounds trf_if
  trf_change_config trf_commit_config trl_queue trl_repls trl_present trl_voter trl_numvoters trl_waitstable
  trl_removelte @if_same : trf.

Lemma trf_get_ldr s l : get_ldr s = Done l -> trf s = Some (trl l).
Proof. unfold get_ldr, trf. destruct (st_ldr s); intros H; inversion H; reflexivity. Qed.

Lemma trf_raft_set_commit_index sor s i : trf (fst (raft_set_commit_index sor s i)) = trf s.
Proof.
  unfold raft_set_commit_index.
  destruct (_ && _); [|reflexivity]. cbn [fst].
  destruct sor.
  - destruct (cfg_node _ _); autorewrite with trf; reflexivity.
  - autorewrite with trf; reflexivity.
Qed.

Lemma trf_append_entry s e s' : append_entry s e = Done s' -> trf s' = trf s.
Proof. unfold append_entry. intros; repeat inv1; reflexivity. Qed.

Lemma trf_apply_queue q : forall s out r, apply_queue s q out = Done r -> trf (fst r) = trf s.
Proof.
  induction q as [|ne r IH]; intros s out res H; cbn [apply_queue] in H.
  - inversion H; reflexivity.
  - destruct (negb _); [discriminate|]. apply IH in H. rewrite H. autorewrite with trf. reflexivity.
Qed.

Ltac get_l :=
  match goal with
  | H : get_ldr _ = Done _ |- _ => apply trf_get_ldr in H
  end.
Ltac trf_norm := cbn [fst snd] in *; autorewrite with trf in *.

Lemma trf_leader_apply_committed s w : leader_apply_committed s = Done w -> trf (fst w) = trf s.
Proof.
  unfold leader_apply_committed. intros H.
  repeat (first [ get_l | match goal with H : apply_queue _ _ _ = Done _ |- _ => apply trf_apply_queue in H end | inv1 ]);
  trf_norm; congruence.
Qed.

Lemma trf_notify_flr s b s' : notify_flr s b = Done s' -> trf s' = trf s.
Proof. unfold notify_flr. intros H. repeat (first [get_l | inv1]); trf_norm; congruence. Qed.

Lemma trf_add_replication s n s' : add_replication s n = Done s' -> trf s' = trf s.
Proof. unfold add_replication. intros H. repeat (first [get_l | inv1]); trf_norm; congruence. Qed.

Ltac use_f :=
  match goal with
  | H : append_entry _ _ = Done _ |- _ => apply trf_append_entry in H
  | H : notify_flr _ _ = Done _ |- _ => apply trf_notify_flr in H
  | H : add_replication _ _ = Done _ |- _ => apply trf_add_replication in H
  | H : leader_apply_committed _ = Done _ |- _ => apply trf_leader_apply_committed in H
  | H : get_ldr _ = Done _ |- _ => apply trf_get_ldr in H
  end.

Definition core_trf (opt : options) (f : nat) : Prop :=
  (forall s nes w, store_entry opt f s nes = Done w -> trf (fst w) = trf s) /\
  (forall s c w, leader_change_config opt f s c = Done w -> trf (fst w) = trf s) /\
  (forall s tid c w, check_config_actions opt f s tid c = Done w -> trf (fst w) = trf s) /\
  (forall s tid c id w, check_config_action opt f s tid c id = Done w -> trf (fst w) = trf s) /\
  (forall s tid c w, do_change_config opt f s tid c = Done w -> trf (fst w) = trf s) /\
  (forall s w, on_majority_commit opt f s = Done w -> trf (fst w) = trf s) /\
  (forall s i w, leader_set_commit_index opt f s i = Done w -> trf (fst w) = trf s).

Lemma core_trf_all opt f : core_trf opt f.
Proof.
  induction f as [|f IH].
  { unfold core_trf; repeat split; intros; discriminate. }
  destruct IH as (I1 & I2 & I3 & I4 & I5 & I6 & I7).
  unfold core_trf; repeat split.
  - (* store_entry *)
    intros s nes w H. cbn [store_entry] in H. refold opt H.
    match type of H with wbind (?L s nes) _ = _ => set (loop := L) in H end.
    assert (HL : forall nes s w, loop s nes = Done w -> trf (fst w) = trf s).
    { clear H. induction nes0 as [|ne rest IHl]; intros s0 w0 H; cbn in H.
      - inversion H; reflexivity.
      - fold loop in H.
        repeat (first [ use_f
                      | match goal with
                        | H : loop _ _ = Done _ |- _ => apply IHl in H
                        | H : leader_change_config opt f _ _ = Done _ |- _ => apply I2 in H
                        end
                      | inv1 ]); trf_norm; congruence. }
    repeat (first [ use_f
                  | match goal with
                    | H : loop _ _ = Done _ |- _ => apply HL in H
                    | H : on_majority_commit opt f _ = Done _ |- _ => apply I6 in H
                    end
                  | inv1 ]); trf_norm; congruence.
  - (* leader_change_config *)
    intros s c w H. cbn [leader_change_config] in H. refold opt H.
    apply obind_inv in H. destruct H as (l & Hl & H).
    apply obind_inv in H. destruct H as (s3 & H3 & H).
    apply I3 in H. rewrite H. clear H.
    match type of H3 with fold_left ?F _ (Done ?S2) = _ =>
      assert (HF : forall x, fold_left F (c_nodes c) (Done S2) = Done x -> trf x = trf S2) end.
    { apply fold_left_inv.
      - intros x Hx; inversion Hx; reflexivity.
      - intros acc n Hacc x Hx.
        repeat (first [use_f | inv1]); try subst acc; try (specialize (Hacc _ eq_refl)); trf_norm; congruence. }
    apply HF in H3. rewrite H3. apply trf_get_ldr in Hl.
    rewrite trf_upd_ldr by reflexivity. trf_norm. congruence.
  - (* check_config_actions *)
    intros s tid c w H. cbn [check_config_actions] in H. refold opt H.
    apply obind_inv in H. destruct H as (l & Hl & H).
    apply obind_inv in H. destruct H as (r & Hr & H).
    destruct r as [[s1 out1] c1].
    assert (H1 : trf s1 = trf s).
    { repeat (first [ match goal with H : do_change_config opt f _ _ _ = Done _ |- _ => apply I5 in H end | inv1 ]);
        trf_norm; congruence. }
    clear Hr. apply obind_inv in H. destruct H as (l1 & Hl1 & H).
    revert w H. apply fold_left_inv.
    + intros w Hw; inversion Hw; subst. exact H1.
    + intros acc id Hacc w Hw.
      repeat (first [ match goal with H : check_config_action opt f _ _ _ _ = Done _ |- _ => apply I4 in H end
                    | use_f | inv1 ]);
        try subst acc; try (specialize (Hacc _ eq_refl)); trf_norm; congruence.
  - (* check_config_action *)
    intros s tid c id w H. cbn [check_config_action] in H. refold opt H.
    repeat (first [ match goal with H : do_change_config opt f _ _ _ = Done _ |- _ => apply I5 in H end | use_f | inv1 ]);
      trf_norm; congruence.
  - (* do_change_config *)
    intros s tid c w H. cbn [do_change_config] in H. refold opt H. apply I1 in H. exact H.
  - (* on_majority_commit *)
    intros s w H. cbn [on_majority_commit] in H. refold opt H.
    repeat (first [ use_f | match goal with H : leader_set_commit_index opt f _ _ = Done _ |- _ => apply I7 in H end | inv1 ]);
      trf_norm; congruence.
  - (* leader_set_commit_index *)
    intros s i w H. cbn [leader_set_commit_index] in H. refold opt H.
    pose proof (trf_raft_set_commit_index (o_shutdown_on_remove opt) (commit_log s i) i) as R.
    destruct (raft_set_commit_index _ _ _) as [s2 committed]. cbn [fst] in R.
    repeat (first [ match goal with H : check_config_actions opt f _ _ _ = Done _ |- _ => apply I3 in H end | use_f | inv1 ]);
      trf_norm;
      try (match goal with E : fst ?w = _ |- trf (fst ?w) = _ => rewrite E end; trf_norm);
      congruence.
Qed.

Lemma trf_check_config_actions opt f s tid c w : check_config_actions opt f s tid c = Done w -> trf (fst w) = trf s.
Proof. apply (core_trf_all opt f). Qed.

Lemma transfer_failure_clears :
  forall opt s r s' out,
    reply_transfer opt s r = Done (s', out) ->
    exists l', st_ldr s' = Some l' /\ ld_tr_active l' = false /\ ld_tr_resp l' = false /\ ld_tr_newterm l' = false.
Proof.
  intros opt s r s' out H. unfold reply_transfer in H.
  apply wbind_inv in H. destruct H as (s1 & o1 & w2 & H1 & H2 & E). cbn [fst] in E.
  apply trf_check_config_actions in H2. rewrite <- E in H2. clear E.
  unfold transfer_reply in H1. apply obind_inv in H1. destruct H1 as (l & _ & H1).
  unfold wreply in H1. injection H1 as H1 _. rewrite <- H1 in H2. clear H1.
  unfold trf in H2. cbn in H2. destruct (st_ldr s') as [l'|]; [|discriminate].
  exists l'. cbn in H2. inversion H2. auto.
Qed.

(* ---------------------------------------------------------------- validation *)
(* REPAIRED: the original third alternative was [target = st_nid s] without [target <> 0]; target 0
   means "any node", so at a (never occurring) leader whose own id is 0 the request is not refused. *)
Lemma transfer_validation :
  forall opt s tid target l,
    st_ldr s = Some l -> tid <> 0 ->
    (ld_tr_active l = true \/ num_voters (st_latest s) = 1 \/
     (target <> 0 /\ (target = st_nid s \/ is_voter (st_latest s) target = false))) ->
    exists r, on_transfer opt s tid target = Done (s, mkOut [(tid, r)] []) /\ r <> RpNil.
Proof.
  intros opt s tid target l Hl Htid Hc.
  unfold on_transfer, get_ldr. rewrite Hl. cbn [obind]. unfold transfer_in_progress, wreply.
  apply N.eqb_neq in Htid. rewrite Htid.
  destruct (ld_tr_active l) eqn:Ea. { eexists; split; [reflexivity | discriminate]. }
  destruct (num_voters (st_latest s) =? 1) eqn:En. { eexists; split; [reflexivity | discriminate]. }
  apply N.eqb_neq in En.
  destruct Hc as [Hc|[Hc|[H0 Hc]]]; [discriminate | contradiction |].
  apply N.eqb_neq in H0. rewrite H0.
  destruct (target =? st_nid s) eqn:Es. { eexists; split; [reflexivity | discriminate]. }
  apply N.eqb_neq in Es. destruct Hc as [Hc|Hc]; [contradiction|].
  unfold is_voter in Hc. destruct (cfg_node (st_latest s) target) as [n|].
  - rewrite Hc. eexists; split; [reflexivity | discriminate].
  - eexists; split; [reflexivity | discriminate].
Qed.

(* ---------------------------------------------------------------- the receiving side *)
Lemma timeout_now_sets_transfer_flag :
  forall s, is_voter (st_latest s) (st_nid s) = true ->
    fst (on_timeout_now_request s) = success /\ st_role (snd (on_timeout_now_request s)) = Candidate /\
    st_cndtransfer (snd (on_timeout_now_request s)) = true /\ st_term (snd (on_timeout_now_request s)) = st_term s.
Proof.
  intros s H. unfold on_timeout_now_request. rewrite H. cbn. auto.
Qed.

(* ---------------------------------------------------------------- the statements as first written are refutable *)
Module Refutations.
Definition opt0 := mkOptions false false false 0 0 [].
Definition rp0 (id m : N) := mkRepl id m false true 0 None 0 m (m+1) m 0 true 0 None.

(* a transfer record that names the leader itself, and a replication to itself (neither ever exists) *)
Definition c3 := mkConfig [mkNode 1 [1] true [] 0; mkNode 2 [2] true [] 0] 1 1.
Definition l3 := mkLdr true true 2 1 [] [rp0 1 4; rp0 2 0] true 3 1 false false 9 [] 0.
Definition s3 := (fresh_node 1 1) <| st_latest := c3 |> <| st_committed := c3 |> <| st_lastidx := 4 |>
                                  <| st_role := Leader |> <| st_ldr := Some l3 |>.

Lemma transfer_target_eligible_original_false :
  ~ (forall opt s s' out t l,
      try_transfer opt s = Done (s', out) -> st_ldr s = Some l -> In (MTimeoutNow t) (lo_msgs out) ->
      t <> st_nid s /\ is_voter (st_latest s) t = true /\
      exists rp, find_repl t (ld_repls l) = Some rp /\ rp_match rp = st_lastidx s /\ rp_nocontact rp = false).
Proof.
  intros H.
  destruct (try_transfer opt0 s3) as [[s' out]|] eqn:E; [|vm_compute in E; discriminate].
  specialize (H _ _ _ _ 1 l3 E eq_refl).
  vm_compute in E. injection E as _ E. subst out.
  destruct H as [H _]; [left; reflexivity | apply H; reflexivity].
Qed.

(* a leader whose own id is 0: target 0 means "any node" and is not refused *)
Definition c4 := mkConfig [mkNode 0 [1] true [] 0; mkNode 2 [2] true [] 0] 1 1.
Definition l4 := mkLdr true true 2 1 [] [rp0 2 4] false 0 0 false false 0 [] 0.
Definition s4 := (fresh_node 1 0) <| st_latest := c4 |> <| st_committed := c4 |> <| st_lastidx := 4 |>
                                  <| st_role := Leader |> <| st_ldr := Some l4 |>.

Lemma transfer_validation_original_false :
  ~ (forall opt s tid target l,
      st_ldr s = Some l -> tid <> 0 ->
      (ld_tr_active l = true \/ num_voters (st_latest s) = 1 \/ target = st_nid s \/
       (target <> 0 /\ is_voter (st_latest s) target = false)) ->
      exists r, on_transfer opt s tid target = Done (s, mkOut [(tid, r)] []) /\ r <> RpNil).
Proof.
  intros H.
  destruct (H opt0 s4 5 0 l4 eq_refl) as (r & E & _); [discriminate | right; right; left; reflexivity |].
  vm_compute in E. discriminate.
Qed.
End Refutations.
