(* C19: definitions for the "observable state is ordered" invariant of one node.
   - cfgs_above / newest_config / prev_config / config_at : configurations held by log-or-snapshot
   - env_ok   : what is assumed of the environment, event by event
   - core / ldr_ok / node_inv : the inductive invariant
   - mono     : what never goes backwards inside one incarnation
   Proofs: InfoInvPrims.v (primitive updates), InfoInvFollower.v, InfoInvLeader.v, InfoInv.v. *)
From Coq Require Import List NArith ZArith Bool Lia ZifyN ZifyNat ZifyBool.
From RecordUpdate Require Import RecordUpdate.
From Verif Require Import Base.Bytes Codec.Messages Node.Types Node.Handlers Node.Leader Node.Snap Node.Step Node.Run.
Import ListNotations.
Open Scope N_scope.

(* ---------------------------------------------------------------- configurations in the log *)
(* the configuration an entry with index above [b] carries, if it is a (decodable) config entry.
   [config_of_entry e = Some c] implies [e_typ e = entryConfig]; an entry of that type that does not
   decode never enters the log (the step that would store it is [Err]). *)
Definition cfg_of (b : N) (e : entry) : list config :=
  if b <? e_index e then match config_of_entry e with Some c => [c] | None => [] end else [].
Definition cfgs_above (b : N) (l : list entry) : list config := flat_map (cfg_of b) l.
Definition cfgs (s : nstate) : list config := cfgs_above (st_snapidx s) (st_log s).

(* configuration of the newest config entry above the snapshot, else the snapshot's *)
Definition newest_config (s : nstate) : config := last (cfgs s) (st_snapcfg s).
(* the one before it *)
Definition prev_config (s : nstate) : config := last (removelast (cfgs s)) (st_snapcfg s).
(* configuration in force at index i according to this node's log and snapshot:
   newest config entry with snapidx < index <= i, else the snapshot's *)
Definition config_at (s : nstate) (i : N) : config :=
  last (cfgs_above (st_snapidx s) (firstn (N.to_nat (i - st_logprev s)) (st_log s))) (st_snapcfg s).

(* ---------------------------------------------------------------- environment *)
Fixpoint consec (prev : N) (es : list entry) : Prop :=
  match es with
  | [] => True
  | e :: r => e_index e = prev + 1 /\ consec (e_index e) r
  end.

Definition env_ok (s : nstate) (ev : nevent) : Prop :=
  match ev with
  | EAppendReq q | EAppendReqCut q =>
      (* entries are numbered prev+1, prev+2, ... *)
      consec (aq_previdx q) (aq_entries q) /\
      (* the request does not contradict an index the receiver knows committed *)
      (forall e, In e (aq_entries q) ->
         e_index e <= N.max (st_commit s) (c_index (st_committed s)) ->
         forall me, log_get s (e_index e) = Some me -> e_term me = e_term e)
  | ESnapReq q _ =>
      st_term s <= sq_term q -> st_snapidx s < sq_lastidx q ->
      (* [X1] the snapshot's configuration is not newer than the snapshot *)
      c_index (sq_config q) <= sq_lastidx q /\
      (forall me, log_get s (sq_lastidx q) = Some me ->
         (* the snapshot does not contradict an index the receiver knows committed *)
         (sq_lastidx q <= st_commit s -> e_term me = sq_lastterm q) /\
         (* [X2] if the receiver holds the snapshot's last entry, the snapshot's configuration is the
            one in force at that index in the receiver's log *)
         (e_term me = sq_lastterm q -> sq_config q = config_at s (sq_lastidx q)))
  | ETask (TChangeConfig _ c) =>
      (* [X3] the configuration handed to Bootstrap is a Go value: it survives its own encoding
         (ids distinct, numbers fit their width) *)
      config_of_entry (mkEntry 1 1 entryConfig (enc_config_data (c_nodes c))) = Some (mkConfig (c_nodes c) 1 1)
  | ETask (TTakeSnapshot _ _) =>
      (* [X4] no snapshot is requested while the committed configuration is newer than what the
         state machine has applied (window after a restart / after a follower stored two
         configurations beyond its commit index) *)
      st_snapbusy s = false -> st_snapidx s < st_fsmidx s -> c_index (st_committed s) <= st_fsmidx s
  | ELeader (LReplUpdate _ (UMatch v)) =>
      (* a replication acknowledges indices of the leader's log only *)
      v <= st_lastidx s
  | _ => True
  end.

(* ---------------------------------------------------------------- invariant *)
Definition idx_from (p : N) (l : list entry) : Prop :=
  forall k e, nth_error l k = Some e -> e_index e = p + 1 + N.of_nat k.

Definition snapreq_ok (s : nstate) : Prop :=
  match st_snapreq s with
  | None => True
  | Some rq =>
      match sr_done rq with
      | SnapPending => sr_index rq <= st_commit s /\
                       (st_snapidx s < sr_index rq -> sr_config rq = config_at s (sr_index rq))
      | SnapOk i => i <= st_snapidx s
      | SnapFail _ => True
      end
  end.

Record core (s : nstate) : Prop := mkCore {
  c_ls : idx_from (st_logprev s) (st_log s);
  c_last : st_lastidx s = st_logprev s + N.of_nat (length (st_log s));
  c_fsm : st_fsmidx s <= st_commit s;
  c_commit : st_commit s <= st_lastidx s;
  c_prev : st_logprev s <= st_snapidx s;
  c_snap : st_snapidx s <= st_lastidx s;
  c_snapcfg : c_index (st_snapcfg s) <= st_snapidx s;
  c_latest : st_latest s = newest_config s;
  c_committed : st_committed s = st_latest s \/
                (c_index (st_committed s) < c_index (st_latest s) /\
                 (cfgs s = [] \/ st_committed s = prev_config s));
  c_cc : st_committed s = st_latest s \/ st_commit s < c_index (st_latest s);
  c_sr : snapreq_ok s
}.

Definition ldr_ok (s : nstate) : Prop :=
  match st_ldr s with
  | None => True
  | Some l => ld_removelte l <= st_snapidx s /\
              Forall (fun r => rp_match r <= st_lastidx s) (ld_repls l)
  end.

Definition tie (s : nstate) : Prop := st_ldr s <> None -> st_role s = Leader.

Definition node_inv (s : nstate) : Prop := core s /\ ldr_ok s /\ tie s.

Definition mono (s s' : nstate) : Prop :=
  st_term s <= st_term s' /\ st_commit s <= st_commit s' /\
  st_fsmidx s <= st_fsmidx s' /\ st_snapidx s <= st_snapidx s'.

(* histories in which the environment behaves *)
Inductive nrun_ok : nstate -> list (options * nevent * nobs) -> nstate -> Prop :=
| runok_nil s : nrun_ok s [] s
| runok_cons s opt ev o s1 tr s2 :
    env_ok s ev -> model_event opt s ev = Done (o, s1) -> nrun_ok s1 tr s2 ->
    nrun_ok s ((opt, ev, o) :: tr) s2.

(* what Props/C19.v states *)
Definition info_ordered (s : nstate) : Prop :=
  st_fsmidx s <= st_commit s /\ st_commit s <= st_lastidx s /\
  st_logprev s <= st_snapidx s /\ st_snapidx s <= st_lastidx s /\
  c_index (st_committed s) <= c_index (st_latest s).

(* ---------------------------------------------------------------- frames *)
(* the fields the invariant reads *)
Definition K (s : nstate) :=
  (st_logprev s, st_log s, st_lastidx s, st_snapidx s, st_snapcfg s,
   st_committed s, st_latest s, st_commit s, st_fsmidx s, st_snapreq s).

Lemma core_ext s s' : K s' = K s -> core s -> core s'.
Proof.
  destruct s, s'. unfold K; cbn. intros E. injection E as -> -> -> -> -> -> -> -> -> ->.
  intros [H1 H2 H3 H4 H5 H6 H7 H8 H9 H10 H11]. constructor; assumption.
Qed.

Definition KL (s : nstate) := (st_ldr s, st_snapidx s, st_lastidx s).
Lemma ldr_ok_ext s s' : KL s' = KL s -> ldr_ok s -> ldr_ok s'.
Proof. unfold KL, ldr_ok. intros E. injection E as -> -> ->. auto. Qed.

Definition KM (s : nstate) := (st_term s, st_commit s, st_fsmidx s, st_snapidx s).
Lemma mono_ext_r s0 s s' : KM s' = KM s -> mono s0 s -> mono s0 s'.
Proof. unfold KM, mono. intros E. injection E as -> -> -> ->. auto. Qed.
Lemma mono_refl s : mono s s.
Proof. unfold mono; lia. Qed.
Lemma mono_trans a b c : mono a b -> mono b c -> mono a c.
Proof. unfold mono; lia. Qed.

(* ---------------------------------------------------------------- inversion of the monads *)
Lemma obind_inv {A B} (o : outcome A) (k : A -> outcome B) r :
  obind o k = Done r -> exists a, o = Done a /\ k a = Done r.
Proof. destruct o; cbn; [eauto | discriminate]. Qed.

Lemma wbind_inv (o : outcome W) (k : nstate -> outcome W) w :
  wbind o k = Done w -> exists s1 o1 w2, o = Done (s1, o1) /\ k s1 = Done w2 /\ fst w = fst w2.
Proof.
  unfold wbind. destruct o as [[s1 o1]|]; [|discriminate].
  destruct (k s1) as [[s2 o2]|] eqn:E; [|discriminate].
  intros H; inversion H; subst. exists s1, o1, (s2, o2). auto.
Qed.

Lemma fold_left_inv {A B} (P : A -> Prop) (f : A -> B -> A) l a :
  P a -> (forall a b, P a -> P (f a b)) -> P (fold_left f l a).
Proof. revert a; induction l; cbn; auto. Qed.

Ltac inv1 :=
  match goal with
  | H : Err _ = Done _ |- _ => discriminate H
  | H : Done _ = Done _ |- _ => inversion H; subst; clear H
  | H : wret _ = Done _ |- _ => unfold wret in H
  | H : wreply _ _ _ = Done _ |- _ => unfold wreply in H
  | H : wmsg _ _ = Done _ |- _ => unfold wmsg in H
  | H : obind _ _ = Done _ |- _ => apply obind_inv in H; destruct H as (? & ? & H)
  | H : wbind _ _ = Done _ |- _ =>
      let E := fresh "E" in apply wbind_inv in H; destruct H as (? & ? & ? & ? & H & E)
  | H : (if ?b then _ else _) = Done _ |- _ => destruct b eqn:?
  | H : match ?x with _ => _ end = Done _ |- _ => destruct x eqn:?
  end.

(* ---------------------------------------------------------------- lists *)
Lemma last_nonempty_indep {A} (a : list A) d d' : a <> [] -> last a d = last a d'.
Proof.
  induction a as [|x a IH]; [congruence|]. intros _.
  destruct a as [|y a]; [reflexivity|]. apply IH. congruence.
Qed.

Lemma last_app {A} (a b : list A) d : last (a ++ b) d = last b (last a d).
Proof.
  destruct b as [|z b]; [rewrite app_nil_r; reflexivity|].
  revert d; induction a as [|x a IH]; intros d; [reflexivity|].
  cbn [app]. transitivity (last (a ++ z :: b) d).
  - destruct a; reflexivity.
  - rewrite IH. apply last_nonempty_indep. congruence.
Qed.

Lemma last_snoc {A} (a : list A) x d : last (a ++ [x]) d = x.
Proof. rewrite last_app. reflexivity. Qed.

Lemma last_In {A} (a : list A) d : a <> [] -> In (last a d) a.
Proof.
  induction a as [|x a IH]; [congruence|]. intros _.
  destruct a as [|y a]; [left; reflexivity|].
  right. apply IH. congruence.
Qed.

Lemma removelast_snoc {A} (a : list A) x : removelast (a ++ [x]) = a.
Proof. rewrite removelast_app by congruence. cbn. apply app_nil_r. Qed.

Lemma list_snoc_cases {A} (l : list A) : l = [] \/ exists a x, l = a ++ [x].
Proof.
  destruct l as [|y l]; [left; reflexivity|]. right.
  exists (removelast (y :: l)), (last (y :: l) y). apply app_removelast_last. congruence.
Qed.

(* ---------------------------------------------------------------- idx_from *)
Lemma idx_from_nil p : idx_from p [].
Proof. intros k e H. destruct k; discriminate. Qed.

Lemma idx_from_app p l1 l2 :
  idx_from p (l1 ++ l2) <-> idx_from p l1 /\ idx_from (p + N.of_nat (length l1)) l2.
Proof.
  split.
  - intros H. split.
    + intros k e Hk. apply H. rewrite nth_error_app1; [assumption|].
      apply nth_error_Some. congruence.
    + intros k e Hk. rewrite (H (length l1 + k)%nat e).
      * lia.
      * rewrite nth_error_app2 by lia. replace (length l1 + k - length l1)%nat with k by lia. assumption.
  - intros [H1 H2] k e Hk.
    destruct (Nat.lt_ge_cases k (length l1)) as [L|L].
    + rewrite nth_error_app1 in Hk by assumption. apply H1; assumption.
    + rewrite nth_error_app2 in Hk by assumption. apply H2 in Hk. lia.
Qed.

Lemma idx_from_single p e : e_index e = p + 1 -> idx_from p [e].
Proof. intros H k e' Hk. destruct k; [|destruct k; discriminate]. injection Hk as <-. lia. Qed.

Lemma idx_from_In p l e : idx_from p l -> In e l -> p < e_index e /\ e_index e <= p + N.of_nat (length l).
Proof.
  intros H Hin. apply In_nth_error in Hin. destruct Hin as [k Hk].
  pose proof (H _ _ Hk). assert (k < length l)%nat by (apply nth_error_Some; congruence). lia.
Qed.

Lemma idx_from_firstn p l n : idx_from p l -> idx_from p (firstn n l).
Proof.
  intros H. rewrite <- (firstn_skipn n l) in H. apply idx_from_app in H. tauto.
Qed.

Lemma idx_from_skipn p l n : idx_from p l -> (n <= length l)%nat -> idx_from (p + N.of_nat n) (skipn n l).
Proof.
  intros H L. rewrite <- (firstn_skipn n l) in H. apply idx_from_app in H.
  rewrite firstn_length_le in H by assumption. tauto.
Qed.

(* ---------------------------------------------------------------- cfgs_above *)
Lemma config_of_entry_index e c : config_of_entry e = Some c -> c_index c = e_index e.
Proof.
  unfold config_of_entry. destruct (e_typ e =? entryConfig); [|discriminate].
  destruct (dec_config_data _) as [[ns r]|]; [|discriminate]. intros H; injection H as <-. reflexivity.
Qed.

Lemma cfgs_above_app b l1 l2 : cfgs_above b (l1 ++ l2) = cfgs_above b l1 ++ cfgs_above b l2.
Proof. apply flat_map_app. Qed.

Lemma cfgs_above_In b l c :
  In c (cfgs_above b l) -> exists e, In e l /\ b < e_index e /\ config_of_entry e = Some c /\ c_index c = e_index e.
Proof.
  unfold cfgs_above. rewrite in_flat_map. intros (e & He & Hc). exists e.
  unfold cfg_of in Hc. destruct (b <? e_index e) eqn:E; [|destruct Hc].
  destruct (config_of_entry e) as [c'|] eqn:D; [|destruct Hc].
  destruct Hc as [<-|[]]. apply N.ltb_lt in E. auto using config_of_entry_index.
Qed.

Lemma cfgs_above_low b l : (forall e, In e l -> e_index e <= b) -> cfgs_above b l = [].
Proof.
  induction l as [|e l IH]; intros H; [reflexivity|].
  change (cfgs_above b (e :: l)) with (cfg_of b e ++ cfgs_above b l).
  rewrite IH by (intros; apply H; right; assumption).
  unfold cfg_of. destruct (b <? e_index e) eqn:E; [|reflexivity].
  apply N.ltb_lt in E. specialize (H e (or_introl eq_refl)). lia.
Qed.

Lemma cfgs_above_same b b' l :
  (forall e, In e l -> (b <? e_index e) = (b' <? e_index e)) -> cfgs_above b l = cfgs_above b' l.
Proof.
  induction l as [|e l IH]; intros H; [reflexivity|].
  change (cfgs_above b (e :: l)) with (cfg_of b e ++ cfgs_above b l).
  change (cfgs_above b' (e :: l)) with (cfg_of b' e ++ cfgs_above b' l).
  rewrite IH by (intros; apply H; right; assumption).
  unfold cfg_of. rewrite (H e (or_introl eq_refl)). reflexivity.
Qed.

Lemma cfgs_above_bounds b p l c :
  idx_from p l -> In c (cfgs_above b l) ->
  b < c_index c /\ p < c_index c /\ c_index c <= p + N.of_nat (length l).
Proof.
  intros H Hc. apply cfgs_above_In in Hc. destruct Hc as (e & He & Hb & _ & Hi).
  pose proof (idx_from_In _ _ _ H He). lia.
Qed.

(* config entries appear in index order *)
Lemma cfgs_above_sorted b l : forall p xs a ys,
  idx_from p l -> cfgs_above b l = xs ++ a :: ys -> forall y, In y ys -> c_index a < c_index y.
Proof.
  induction l as [|e l IH]; intros p xs a ys H E y Hy.
  - destruct xs; discriminate.
  - change (e :: l) with ([e] ++ l) in H. apply idx_from_app in H. destruct H as [H1 H2].
    cbn [length] in H2.
    assert (He : e_index e = p + 1) by (rewrite (H1 0%nat e eq_refl); lia).
    change (cfgs_above b (e :: l)) with (cfg_of b e ++ cfgs_above b l) in E. unfold cfg_of in E.
    destruct (b <? e_index e) eqn:Eb; [|cbn [app] in E; eapply IH; eauto].
    destruct (config_of_entry e) as [c|] eqn:D; [|cbn [app] in E; eapply IH; eauto].
    cbn [app] in E. destruct xs as [|x xs]; cbn [app] in E.
    + injection E as <- E. apply config_of_entry_index in D.
      rewrite <- E in Hy. pose proof (cfgs_above_bounds _ _ _ _ H2 Hy). lia.
    + injection E as _ E. eapply IH; eauto.
Qed.

Lemma cfgs_above_last_max b p l P a :
  idx_from p l -> cfgs_above b l = P ++ [a] -> forall x, In x P -> c_index x < c_index a.
Proof.
  intros H E x Hx. apply in_split in Hx. destruct Hx as (P1 & P2 & ->).
  rewrite <- app_assoc in E. cbn in E.
  eapply cfgs_above_sorted; eauto. apply in_or_app. right. left. reflexivity.
Qed.

#[global] Arguments cfgs_above : simpl never.
#[global] Arguments cfg_of : simpl never.
#[global] Arguments cfgs : simpl never.
#[global] Arguments newest_config : simpl never.
#[global] Arguments prev_config : simpl never.
#[global] Arguments config_at : simpl never.
#[global] Arguments idx_from : simpl never.

(* ---------------------------------------------------------------- more list facts *)
Lemma firstn_add {A} (n m : nat) (l : list A) : firstn (n + m) l = firstn n l ++ firstn m (skipn n l).
Proof.
  revert l; induction n as [|n IH]; intros l; [reflexivity|].
  destruct l as [|x l]; cbn; [destruct m; reflexivity|]. f_equal. apply IH.
Qed.

Lemma cfgs_above_skip b p l :
  idx_from p l -> p + N.of_nat (length l) <= b -> cfgs_above b l = [].
Proof.
  intros H L. apply cfgs_above_low. intros e He. pose proof (idx_from_In _ _ _ H He). lia.
Qed.

Lemma cfgs_above_raise b b' p l :
  idx_from p l -> b <= b' -> b' <= p -> cfgs_above b' l = cfgs_above b l.
Proof.
  intros H L1 L2. apply cfgs_above_same. intros e He. pose proof (idx_from_In _ _ _ H He).
  destruct (b' <? e_index e) eqn:E1, (b <? e_index e) eqn:E2; try reflexivity; lia.
Qed.

Lemma cfgs_above_idx_ge b p l c : idx_from p l -> In c (cfgs_above b l) -> p < c_index c.
Proof. intros H Hc. pose proof (cfgs_above_bounds _ _ _ _ H Hc). lia. Qed.
