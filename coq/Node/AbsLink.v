(* Node/AbsLink.v  The node model's FOLLOWER handlers (Node/Handlers.v) do to the abstraction of
   the node state what the follower steps of the abstract protocol (Abs/CfgRaft.v) do.
   Uncompacted logs only: st_logprev = 0 and st_snapidx = 0. *)
From Coq Require Import List NArith ZArith Bool Lia Arith.
From RecordUpdate Require Import RecordUpdate.
From Verif Require Import Base.Bytes Codec.Messages Node.Types Node.Handlers.
From Verif Require Import Node.InfoInvDefs.
From Verif Require Abs.RaftBase Abs.CfgBase Abs.CfgRaft.
Import ListNotations.
Open Scope N_scope.

(* [consec prev es]: entries numbered prev+1, prev+2, ... (Node/InfoInvDefs.v) *)

Section Link.
(* the payload abstraction is arbitrary: everything below is about terms, indices, list shape *)
Variable pay : entry -> CfgBase.payload.

Definition abs_entry (e : entry) : CfgBase.entry := (e_term e, pay e).
Definition abs_log (s : nstate) : list CfgBase.entry := map abs_entry (st_log s).

Definition last_term (l : list entry) : N :=
  match nth_error l (pred (length l)) with Some e => e_term e | None => 0 end.

(* log well-formedness of an uncompacted node state *)
Record wf_log (s : nstate) : Prop := mkWf {
  w_idx : forall k e, nth_error (st_log s) k = Some e -> e_index e = 1 + N.of_nat k;
  w_last : st_lastidx s = N.of_nat (length (st_log s));
  w_lterm : st_lastterm s = last_term (st_log s);
  w_fl : st_flushed s <= st_lastidx s
}.
Definition flat (s : nstate) : Prop := st_logprev s = 0 /\ st_snapidx s = 0.

(* the fields the follower's append path is about *)
Definition K (s : nstate) :=
  (st_term s, st_logprev s, st_log s, st_flushed s, st_lastidx s, st_lastterm s, st_snapidx s).

Lemma K_fields s s' : K s' = K s ->
  st_term s' = st_term s /\ st_logprev s' = st_logprev s /\ st_log s' = st_log s /\
  st_flushed s' = st_flushed s /\ st_lastidx s' = st_lastidx s /\ st_lastterm s' = st_lastterm s /\
  st_snapidx s' = st_snapidx s.
Proof. unfold K. intro H. inversion H. repeat split; assumption. Qed.

Lemma wf_K s s' : K s' = K s -> wf_log s -> wf_log s'.
Proof.
  intros H W. apply K_fields in H. destruct H as (_ & _ & Hl & Hf & Hi & Ht & _).
  destruct W. constructor; rewrite ?Hl, ?Hf, ?Hi, ?Ht; assumption.
Qed.
Lemma flat_K s s' : K s' = K s -> flat s -> flat s'.
Proof. intros H [A B]. apply K_fields in H. unfold flat. intuition congruence. Qed.

Lemma K_change_config s c : K (change_config s c) = K s.
Proof. unfold change_config. destruct (_ && _); reflexivity. Qed.
Lemma K_revert_config s : K (revert_config s) = K s.
Proof. reflexivity. Qed.
Lemma K_commit_config s : K (commit_config s) = K s.
Proof. unfold commit_config. destruct (_ && _); reflexivity. Qed.

Lemma obind_inv {A B} (o : outcome A) (k : A -> outcome B) r :
  obind o k = Done r -> exists a, o = Done a /\ k a = Done r.
Proof. destruct o; cbn; [eauto | discriminate]. Qed.

Lemma K_raft_set_commit_index sor s i :
  K (fst (raft_set_commit_index sor s i)) = K s /\ st_commit (fst (raft_set_commit_index sor s i)) = i.
Proof.
  unfold raft_set_commit_index.
  destruct (_ && _); cbn [fst]; [|split; reflexivity].
  set (s2 := commit_config (set_commit s i)).
  assert (K2 : K s2 = K s) by (unfold s2; rewrite K_commit_config; reflexivity).
  assert (C2 : st_commit s2 = i) by (unfold s2, commit_config; destruct (_ && _); reflexivity).
  set (s3 := if _ && _ then _ else s2).
  assert (K3 : K s3 = K s /\ st_commit s3 = i) by (unfold s3; destruct (_ && _); split; assumption).
  destruct K3 as [K3 C3].
  destruct sor; [|split; assumption].
  destruct (cfg_node _ _); split; assumption.
Qed.

Lemma K_apply_committed s s' : apply_committed s = Done s' -> K s' = K s /\ st_commit s' = st_commit s.
Proof.
  unfold apply_committed. repeat (destruct (_ <? _); [discriminate|]).
  destruct (terms_upto _ _ _ _); [|discriminate]. intros H; inversion H. split; reflexivity.
Qed.

Lemma K_commit_and_apply sor s i s' :
  commit_and_apply sor s i = Done s' -> K s' = K s /\ st_commit s' = i.
Proof.
  unfold commit_and_apply. intros H. apply K_apply_committed in H.
  destruct (K_raft_set_commit_index sor s i) as [A B]. destruct H as [H1 H2].
  split; congruence.
Qed.

Lemma last_term_snoc l e : last_term (l ++ [e]) = e_term e.
Proof.
  unfold last_term. rewrite app_length. cbn [length]. rewrite Nat.add_1_r. cbn [pred].
  rewrite nth_error_app2 by lia. rewrite Nat.sub_diag. reflexivity.
Qed.

Definition idx1 (l : list entry) : Prop :=
  forall k e, nth_error l k = Some e -> e_index e = 1 + N.of_nat k.

Lemma idx1_snoc l e : idx1 l -> e_index e = N.of_nat (length l) + 1 -> idx1 (l ++ [e]).
Proof.
  intros I E k x H. destruct (Nat.lt_ge_cases k (length l)) as [L|L].
  - rewrite nth_error_app1 in H by assumption. apply I; assumption.
  - rewrite nth_error_app2 in H by assumption.
    destruct (k - length l)%nat eqn:D; cbn in H.
    + inversion H; subst x. replace k with (length l) by lia. lia.
    + destruct n; discriminate.
Qed.

Lemma idx1_firstn l n : idx1 l -> idx1 (firstn n l).
Proof.
  intros I k e H. apply I.
  assert (k < length (firstn n l))%nat by (apply nth_error_Some; congruence).
  rewrite firstn_length in H0.
  rewrite <- (firstn_skipn n l) at 1. rewrite nth_error_app1; [assumption|].
  rewrite firstn_length. lia.
Qed.

(* appending to a state whose log is numbered and counted (last term not needed) *)
Lemma append_wf s e s' :
  idx1 (st_log s) -> st_lastidx s = N.of_nat (length (st_log s)) -> st_flushed s <= st_lastidx s ->
  append_entry s e = Done s' ->
  wf_log s' /\ st_log s' = st_log s ++ [e] /\ st_term s' = st_term s /\ st_commit s' = st_commit s /\
  st_flushed s' = st_flushed s /\ st_lastidx s' = st_lastidx s + 1 /\
  st_logprev s' = st_logprev s /\ st_snapidx s' = st_snapidx s /\ e_index e = st_lastidx s + 1.
Proof.
  intros I L F. unfold append_entry. destruct (N.eqb_spec (e_index e) (st_lastidx s + 1)) as [E|]; [|discriminate].
  intros H; inversion H; subst s'; clear H. cbn.
  repeat split; try reflexivity; try assumption.
  - cbn. apply idx1_snoc; [assumption|lia].
  - cbn. rewrite app_length. cbn. lia.
  - cbn. symmetry. apply last_term_snoc.
  - cbn. lia.
Qed.

Ltac splits := repeat match goal with |- _ /\ _ => split end.

(* once the follower is past its own last index every entry of the request is appended *)
Lemma consume_append es : forall s index term sync s' i t sy,
  wf_log s -> flat s -> consec (st_lastidx s) es -> index = st_lastidx s ->
  consume_entries s es index term sync = Done (s', i, t, sy, false) ->
  wf_log s' /\ flat s' /\ st_log s' = st_log s ++ es /\ st_term s' = st_term s /\
  st_commit s' = st_commit s /\ st_flushed s' = st_flushed s /\ i = st_lastidx s' /\
  st_lastidx s' = st_lastidx s + N.of_nat (length es) /\ (es <> [] -> sy = true) /\ (es = [] -> sy = sync).
Proof.
  induction es as [|ne rest IH]; intros s index term sync s' i t sy W Fl C Ei H.
  - cbn in H. inversion H; subst. rewrite app_nil_r. cbn. splits; try assumption; try reflexivity; try lia; try (apply W); try apply Fl. congruence.
  - destruct C as [C1 C2]. destruct Fl as [Fp Fs]. cbn [consume_entries] in H.
    destruct (N.leb_spec (e_index ne) (st_snapidx s)) as [X|_]; [lia|].
    destruct (N.leb_spec (e_index ne) (st_lastidx s)) as [X|_]; [lia|].
    cbn [obind] in H. apply obind_inv in H. destruct H as (s2 & A & H).
    destruct W as [Wi Wl Wt Wf].
    destruct (append_wf _ _ _ Wi Wl Wf A) as (W2 & L2 & T2 & Cm2 & F2 & I2 & P2 & S2 & E2).
    assert (forall c, exists sc, K sc = K s2 /\ st_commit sc = st_commit s2 /\ sc = change_config s2 c) as CC.
    { intro c. eexists; split; [|split; [|reflexivity]]. apply K_change_config.
      unfold change_config. destruct (_ && _); reflexivity. }
    assert (forall sc, K sc = K s2 -> st_commit sc = st_commit s2 ->
              consume_entries sc rest (e_index ne) (e_term ne) true = Done (s', i, t, sy, false) ->
              wf_log s' /\ flat s' /\ st_log s' = st_log s ++ ne :: rest /\ st_term s' = st_term s /\
              st_commit s' = st_commit s /\ st_flushed s' = st_flushed s /\ i = st_lastidx s' /\
              st_lastidx s' = st_lastidx s + N.of_nat (length (ne :: rest)) /\ sy = true) as Fin.
    { intros sc Kc Cc Hc. pose proof (K_fields _ _ Kc) as (k1 & k2 & k3 & k4 & k5 & k6 & k7).
      apply IH in Hc.
      - destruct Hc as (a1 & a2 & a3 & a4 & a5 & a6 & a7 & a8 & a9 & a10).
        splits; try assumption; try apply a2; try congruence.
        + rewrite a3, k3, L2, <- app_assoc. reflexivity.
        + rewrite a8, k5, I2. cbn [length]. lia.
        + destruct rest; [apply a10; reflexivity | apply a9; discriminate].
      - eapply wf_K; eassumption.
      - eapply flat_K; [eassumption|]. split; congruence.
      - rewrite k5, I2, <- E2. assumption.
      - rewrite k5, I2, <- E2. reflexivity. }
    destruct (e_typ ne =? entryConfig).
    + destruct (config_of_entry ne) as [c|]; [|discriminate].
      destruct (CC c) as (sc & Kc & Cc & ->). destruct (Fin _ Kc Cc H) as (a1&a2&a3&a4&a5&a6&a7&a8&a9).
      splits; try assumption; try apply a2; try discriminate. intros _; assumption.
    + destruct (Fin s2 eq_refl eq_refl H) as (a1&a2&a3&a4&a5&a6&a7&a8&a9).
      splits; try assumption; try apply a2; try discriminate. intros _; assumption.
Qed.

Lemma commit_change_config s c : st_commit (change_config s c) = st_commit s.
Proof. unfold change_config. destruct (_ && _); reflexivity. Qed.

(* what follows the first appended entry [ne] *)
Lemma tail_step s2 ne rest s' i t sy :
  wf_log s2 -> flat s2 -> e_index ne = st_lastidx s2 -> consec (e_index ne) rest ->
  (if e_typ ne =? entryConfig
   then match config_of_entry ne with
        | Some c => consume_entries (change_config s2 c) rest (e_index ne) (e_term ne) true
        | None => Done (s2, e_index ne, e_term ne, true, true)
        end
   else consume_entries s2 rest (e_index ne) (e_term ne) true) = Done (s', i, t, sy, false) ->
  wf_log s' /\ flat s' /\ st_log s' = st_log s2 ++ rest /\ st_term s' = st_term s2 /\
  st_commit s' = st_commit s2 /\ i = st_lastidx s' /\
  st_lastidx s' = st_lastidx s2 + N.of_nat (length rest) /\ sy = true.
Proof.
  intros W Fl E C H.
  assert (forall sc, K sc = K s2 -> st_commit sc = st_commit s2 ->
            consume_entries sc rest (e_index ne) (e_term ne) true = Done (s', i, t, sy, false) ->
            wf_log s' /\ flat s' /\ st_log s' = st_log s2 ++ rest /\ st_term s' = st_term s2 /\
            st_commit s' = st_commit s2 /\ i = st_lastidx s' /\
            st_lastidx s' = st_lastidx s2 + N.of_nat (length rest) /\ sy = true) as Fin.
  { intros sc Kc Cc Hc. pose proof (K_fields _ _ Kc) as (k1 & k2 & k3 & k4 & k5 & k6 & k7).
    apply consume_append in Hc.
    - destruct Hc as (a1 & a2 & a3 & a4 & a5 & a6 & a7 & a8 & a9 & a10).
      splits; try assumption; try congruence.
      destruct rest; [apply a10; reflexivity | apply a9; discriminate].
    - eapply wf_K; eassumption.
    - eapply flat_K; eassumption.
    - rewrite k5, <- E. assumption.
    - rewrite k5. assumption. }
  destruct (e_typ ne =? entryConfig).
  - destruct (config_of_entry ne) as [c|]; [|discriminate].
    apply (Fin _ (K_change_config _ _) (commit_change_config _ _) H).
  - apply (Fin s2 eq_refl eq_refl H).
Qed.

(* ---- list facts about the abstract merge ---- *)
Lemma skipn_nth {A} (L : list A) : forall n x, nth_error L n = Some x -> skipn n L = x :: skipn (S n) L.
Proof.
  induction L as [|a L IH]; intros [|n] x H; try discriminate.
  - inversion H. reflexivity.
  - cbn in H. cbn [skipn]. rewrite (IH n x H). reflexivity.
Qed.

Lemma merge_match (L : list CfgBase.entry) n x a R :
  nth_error L n = Some x -> CfgBase.eterm a = CfgBase.eterm x ->
  firstn n L ++ CfgBase.merge (skipn n L) (a :: R) = firstn (S n) L ++ CfgBase.merge (skipn (S n) L) R.
Proof.
  intros H E. rewrite (skipn_nth _ _ _ H). cbn [CfgBase.merge]. rewrite E, N.eqb_refl.
  rewrite (CfgBase.firstn_S_snoc _ _ _ H), <- app_assoc. reflexivity.
Qed.

Lemma merge_mismatch (L : list CfgBase.entry) n x a R :
  nth_error L n = Some x -> CfgBase.eterm a <> CfgBase.eterm x ->
  CfgBase.merge (skipn n L) (a :: R) = a :: R.
Proof.
  intros H E. rewrite (skipn_nth _ _ _ H). cbn [CfgBase.merge].
  destruct (N.eqb_spec (CfgBase.eterm a) (CfgBase.eterm x)); [contradiction|reflexivity].
Qed.

Lemma merge_beyond (L : list CfgBase.entry) n a R :
  (length L <= n)%nat -> CfgBase.merge (skipn n L) (a :: R) = a :: R.
Proof. intros H. rewrite skipn_all2 by assumption. reflexivity. Qed.

Lemma abs_log_nth s k e : nth_error (st_log s) k = Some e -> nth_error (abs_log s) k = Some (abs_entry e).
Proof. intros H. unfold abs_log. apply map_nth_error. assumption. Qed.

Lemma log_get_flat s j : flat s -> 0 < j -> log_get s j = nth_error (st_log s) (N.to_nat j - 1).
Proof.
  intros [P _] H. unfold log_get. rewrite P. destruct (N.ltb_spec 0 j); [|lia].
  f_equal. lia.
Qed.

Lemma trunc_step s k pt s1 :
  wf_log s -> flat s -> k < st_lastidx s -> remove_gte s (k + 1) pt = Done s1 ->
  forall s1', (s1' = s1 \/ s1' = revert_config s1) ->
  idx1 (st_log s1') /\ st_lastidx s1' = N.of_nat (length (st_log s1')) /\
  st_flushed s1' <= st_lastidx s1' /\ st_log s1' = firstn (N.to_nat k) (st_log s) /\
  st_lastidx s1' = k /\ st_term s1' = st_term s /\ st_commit s1' = st_commit s /\ flat s1'.
Proof.
  intros [Wi Wl Wt Wf] [Fp Fs] Lt H s1' Hs.
  unfold remove_gte in H. destruct (_ && _); [|discriminate]. inversion H; subst s1; clear H.
  assert (E : N.to_nat (k + 1 - st_logprev s - 1) = N.to_nat k) by lia.
  destruct Hs as [-> | ->]; cbn; rewrite E; (splits; try reflexivity; try lia;
    [apply idx1_firstn; assumption | rewrite firstn_length; lia | split; assumption]).
Qed.

Lemma nth_firstn_app {A} (L : list A) n a R : (n <= length L)%nat -> nth_error (firstn n L ++ a :: R) n = Some a.
Proof.
  intros H. rewrite nth_error_app2; rewrite firstn_length, Nat.min_l by assumption; [|lia].
  rewrite Nat.sub_diag. reflexivity.
Qed.

(* the request's entry [ne] at position n (from 0) was stored, by truncation or past the end *)
Lemma finish_append s s2 ne rest n s' i t sy :
  wf_log s2 -> flat s2 -> st_log s2 = firstn n (st_log s) ++ [ne] -> (n <= length (st_log s))%nat ->
  e_index ne = st_lastidx s2 -> e_index ne = N.of_nat n + 1 -> consec (e_index ne) rest ->
  nth_error (abs_log s) n <> Some (abs_entry ne) ->
  CfgBase.merge (skipn n (abs_log s)) (map abs_entry (ne :: rest)) = map abs_entry (ne :: rest) ->
  (if e_typ ne =? entryConfig
   then match config_of_entry ne with
        | Some c => consume_entries (change_config s2 c) rest (e_index ne) (e_term ne) true
        | None => Done (s2, e_index ne, e_term ne, true, true)
        end
   else consume_entries s2 rest (e_index ne) (e_term ne) true) = Done (s', i, t, sy, false) ->
  wf_log s' /\ flat s' /\
  abs_log s' = CfgBase.recv_log (abs_log s) n (map abs_entry (ne :: rest)) /\
  st_term s' = st_term s2 /\ st_commit s' = st_commit s2 /\
  i = N.of_nat n + N.of_nat (length (ne :: rest)) /\
  sy = true /\ abs_log s' <> abs_log s /\ st_lastidx s' = i.
Proof.
  intros W2 F2 L2 Ln E1 E2 C Nn M H.
  destruct (tail_step _ _ _ _ _ _ _ W2 F2 E1 C H) as (a1&a2&a3&a4&a5&a6&a7&a8).
  assert (AL : abs_log s' = firstn n (abs_log s) ++ map abs_entry (ne :: rest)).
  { unfold abs_log. rewrite a3, L2, <- app_assoc, map_app, firstn_map. reflexivity. }
  splits; try assumption.
  - rewrite AL. unfold CfgBase.recv_log. rewrite M. reflexivity.
  - cbn [length]. lia.
  - intro Eq. apply Nn. rewrite <- Eq, AL. cbn [map]. apply nth_firstn_app.
    unfold abs_log. rewrite map_length. assumption.
  - congruence.
Qed.

(* the follower's loop over the request entries is the abstract merge *)
Lemma consume_merge es : forall s index term s' i t sy,
  wf_log s -> flat s -> consec index es -> index <= st_lastidx s ->
  consume_entries s es index term false = Done (s', i, t, sy, false) ->
  wf_log s' /\ flat s' /\
  abs_log s' = CfgBase.recv_log (abs_log s) (N.to_nat index) (map abs_entry es) /\
  st_term s' = st_term s /\ st_commit s' = st_commit s /\
  i = index + N.of_nat (length es) /\
  ((sy = false /\ s' = s) \/ (sy = true /\ abs_log s' <> abs_log s /\ st_lastidx s' = i)).
Proof.
  induction es as [|ne rest IH]; intros s index term s' i t sy W Fl C Le H.
  - cbn in H. inversion H; subst. splits; auto.
    + unfold CfgBase.recv_log. cbn [map CfgBase.merge]. rewrite firstn_skipn. reflexivity.
    + cbn; lia.
  - destruct C as [C1 C2]. pose proof Fl as [Fp Fs]. pose proof W as [Wi Wl Wt Wf].
    cbn [consume_entries] in H.
    destruct (N.leb_spec (e_index ne) (st_snapidx s)) as [X|_]; [lia|].
    set (n := N.to_nat index).
    assert (En : e_index ne = N.of_nat n + 1) by lia.
    destruct (N.leb_spec (e_index ne) (st_lastidx s)) as [In|Out].
    + rewrite (log_get_flat s _ Fl) in H by lia.
      replace (N.to_nat (e_index ne) - 1)%nat with n in H by lia.
      destruct (nth_error (st_log s) n) as [me|] eqn:G.
      2:{ apply nth_error_None in G. lia. }
      pose proof (Wi _ _ G) as Ime. pose proof (abs_log_nth _ _ _ G) as Ga.
      destruct (N.eqb_spec (e_index me) (e_index ne)); [|lia].
      destruct (N.eqb_spec (e_term me) (e_term ne)) as [Te|Tn].
      * cbn [obind] in H. apply IH in H; try assumption.
        destruct H as (a1&a2&a3&a4&a5&a6&a7). splits; try assumption.
        -- rewrite a3. unfold CfgBase.recv_log. cbn [map].
           replace (N.to_nat (e_index ne)) with (S n) by lia.
           symmetry. apply merge_match with (x := abs_entry me); [assumption|]. cbn. auto.
        -- cbn [length]. lia.
      * apply obind_inv in H. destruct H as (r & H1 & H).
        apply obind_inv in H1. destruct H1 as (s1 & R & H1). inversion H1; subst r; clear H1.
        apply obind_inv in H. destruct H as (s2 & A & H).
        set (s1' := if e_index ne <=? c_index (st_latest s1) then revert_config s1 else s1) in *.
        rewrite C1 in R.
        assert (Hs : s1' = s1 \/ s1' = revert_config s1) by (unfold s1'; destruct (_ <=? _); auto).
        assert (Lt : index < st_lastidx s) by lia.
        destruct (trunc_step _ _ _ _ W Fl Lt R s1' Hs) as (b1&b2&b3&b4&b5&b6&b7&b8).
        destruct (append_wf _ _ _ b1 b2 b3 A) as (W2 & L2 & T2 & Cm2 & F2 & I2 & P2 & S2 & E2).
        assert (Fl2 : flat s2) by (destruct b8; split; congruence).
        eapply finish_append with (s := s) (n := n) in H; try eassumption.
        -- destruct H as (a1&a2&a3&a4&a5&a6&a7&a8&a9). splits; try assumption; try congruence; try lia. right; splits; congruence.
        -- rewrite L2, b4. reflexivity.
        -- lia.
        -- lia.
        -- rewrite Ga. intro Q. inversion Q. congruence.
        -- cbn [map]. apply merge_mismatch with (x := abs_entry me); [assumption|]. cbn. congruence.
    + cbn [obind] in H. apply obind_inv in H. destruct H as (s2 & A & H).
      destruct (append_wf _ _ _ Wi Wl Wf A) as (W2 & L2 & T2 & Cm2 & F2 & I2 & P2 & S2 & E2).
      assert (Fl2 : flat s2) by (split; congruence).
      assert (Ln : n = length (st_log s)) by lia.
      eapply finish_append with (s := s) (n := n) in H; try eassumption.
      * destruct H as (a1&a2&a3&a4&a5&a6&a7&a8&a9). splits; try assumption; try congruence; try lia. right; splits; congruence.
      * rewrite L2, Ln, firstn_all. reflexivity.
      * lia.
      * lia.
      * intro Q. assert (n < length (abs_log s))%nat by (apply nth_error_Some; congruence).
        unfold abs_log in H0. rewrite map_length in H0. lia.
      * cbn [map]. apply merge_beyond. unfold abs_log. rewrite map_length. lia.
Qed.

(* ---- the term the follower compares with the request's prevLogTerm ---- *)
Definition node_prev_term (s : nstate) (p : N) : option N :=
  if p =? st_lastidx s then Some (st_lastterm s)
  else match log_get s p with
       | Some e => if e_index e =? p then Some (e_term e) else None
       | None => None end.

Lemma node_prev_term_abs s p : wf_log s -> flat s -> 0 < p -> p <= st_lastidx s ->
  node_prev_term s p = Some (CfgBase.term_at (abs_log s) (N.to_nat p)).
Proof.
  intros [Wi Wl Wt Wf] Fl P0 P1. unfold node_prev_term.
  destruct (nth_error (st_log s) (N.to_nat p - 1)) as [e|] eqn:G.
  2:{ apply nth_error_None in G. lia. }
  assert (TA : CfgBase.term_at (abs_log s) (N.to_nat p) = e_term e).
  { replace (N.to_nat p) with (S (N.to_nat p - 1)) by lia.
    apply (CfgBase.term_at_nth _ _ (abs_entry e)). apply abs_log_nth. assumption. }
  rewrite TA. destruct (N.eqb_spec p (st_lastidx s)) as [E|E].
  - rewrite Wt. unfold last_term. replace (pred (length (st_log s))) with (N.to_nat p - 1)%nat by lia.
    rewrite G. reflexivity.
  - rewrite (log_get_flat s p Fl P0), G. pose proof (Wi _ _ G).
    destruct (N.eqb_spec (e_index e) p); [reflexivity|lia].
Qed.

(* ---- on_append_request cut into its three phases (definitionally the same function) ---- *)
Definition prev_check_of (sor : bool) (s1 : nstate) (q : appendreq) : outcome (option N * nstate) :=
  if st_snapidx s1 <? aq_previdx q then
    if st_lastidx s1 <? aq_previdx q then Done (Some prevEntryNotFound, s1)
    else
      match node_prev_term s1 (aq_previdx q) with
      | None => Err EBug
      | Some t =>
          if negb (aq_prevterm q =? t) then Done (Some prevTermMismatch, s1)
          else if can_commit s1 q (aq_previdx q) (aq_prevterm q) then
            s2 <~ commit_and_apply sor s1 (aq_previdx q) ;; Done (None, s2)
          else Done (None, s1)
      end
  else Done (None, s1).

Definition finish_of (sor : bool) (q : appendreq) (r : nstate * N * N * bool * bool) : outcome (N * nstate) :=
  match r with
  | (s3, index, term, sync, decode_failed) =>
      s4 <~ (if sync && negb (match aq_entries q with [] => true | _ => false end) then
               let s3f := commit_log s3 (st_lastidx s3) in
               if can_commit s3f q index term then commit_and_apply sor s3f index else Done s3f
             else Done s3) ;;
      Done (if decode_failed then unexpectedErr else success, s4)
  end.

Lemma on_append_unfold sor s q : on_append_request sor s q =
  if aq_term q <? st_term s then Done (staleTerm, s) else
  s0 <~ set_term s (aq_term q) ;;
  pc <~ prev_check_of sor (set_leader (set_role s0 Follower) (aq_src q)) q ;;
  match pc with
  | (Some code, s2) => Done (code, s2)
  | (None, s2) =>
      r <~ consume_entries s2 (aq_entries q) (aq_previdx q) (aq_prevterm q) false ;; finish_of sor q r
  end.
Proof. reflexivity. Qed.

Lemma can_commit_inv s q index term : can_commit s q index term = true ->
  index <= aq_commit q /\ term = aq_term q /\ st_commit s < index.
Proof.
  unfold can_commit. intro H. apply andb_prop in H. destruct H as [H H3].
  apply andb_prop in H. destruct H as [H1 H2].
  apply N.leb_le in H1. apply N.eqb_eq in H2. apply N.ltb_lt in H3. auto.
Qed.

Lemma prev_check_inv sor s1 q pc : wf_log s1 -> flat s1 -> prev_check_of sor s1 q = Done pc ->
  (pc = (Some prevEntryNotFound, s1) /\ st_lastidx s1 < aq_previdx q) \/
  (pc = (Some prevTermMismatch, s1) /\ 0 < aq_previdx q /\ aq_previdx q <= st_lastidx s1 /\
     CfgBase.term_at (abs_log s1) (N.to_nat (aq_previdx q)) <> aq_prevterm q) \/
  (exists s2, pc = (None, s2) /\ K s2 = K s1 /\
     CfgRaft.prev_ok (abs_log s1) (N.to_nat (aq_previdx q)) (aq_prevterm q) = true /\
     aq_previdx q <= st_lastidx s1 /\
     (st_commit s2 = st_commit s1 \/
      (st_commit s2 = aq_previdx q /\ st_commit s1 < aq_previdx q /\ aq_previdx q <= aq_commit q /\
       aq_prevterm q = aq_term q))).
Proof.
  intros W Fl H. pose proof Fl as [Fp Fs]. pose proof W as [Wi Wl Wt Wf]. unfold prev_check_of in H. rewrite Fs in H.
  destruct (N.ltb_spec 0 (aq_previdx q)) as [P0|P0].
  2:{ inversion H; subst pc. right; right. exists s1. splits; auto; try lia.
      unfold CfgRaft.prev_ok. replace (N.to_nat (aq_previdx q)) with 0%nat by lia. reflexivity. }
  destruct (N.ltb_spec (st_lastidx s1) (aq_previdx q)) as [P1|P1].
  { inversion H; subst pc. left. auto. }
  rewrite (node_prev_term_abs s1 _ W Fl P0 P1) in H.
  set (ta := CfgBase.term_at (abs_log s1) (N.to_nat (aq_previdx q))) in *.
  destruct (N.eqb_spec (aq_prevterm q) ta) as [E|E]; cbn [negb] in H.
  2:{ inversion H; subst pc. right; left. splits; auto. }
  assert (PO : CfgRaft.prev_ok (abs_log s1) (N.to_nat (aq_previdx q)) (aq_prevterm q) = true).
  { unfold CfgRaft.prev_ok. apply orb_true_iff. right. apply andb_true_iff. split.
    - apply Nat.leb_le. unfold abs_log. rewrite map_length. lia.
    - fold ta. apply N.eqb_eq. congruence. }
  right; right.
  destruct (can_commit s1 q (aq_previdx q) (aq_prevterm q)) eqn:CC.
  - apply can_commit_inv in CC. destruct CC as (c1 & c2 & c3).
    apply obind_inv in H. destruct H as (s2 & CA & H). inversion H; subst pc.
    apply K_commit_and_apply in CA. destruct CA as [k1 k2].
    exists s2. splits; auto.
  - inversion H; subst pc. exists s1. splits; auto.
Qed.

Definition has_entries (q : appendreq) : bool :=
  negb (match aq_entries q with [] => true | _ => false end).

Lemma finish_inv sor q s3 i t sy df code s4 : wf_log s3 -> flat s3 ->
  finish_of sor q (s3, i, t, sy, df) = Done (code, s4) ->
  code = (if df then unexpectedErr else success) /\
  if sy && has_entries q then
    st_term s4 = st_term s3 /\ st_logprev s4 = st_logprev s3 /\ st_log s4 = st_log s3 /\
    st_lastidx s4 = st_lastidx s3 /\ st_lastterm s4 = st_lastterm s3 /\ st_snapidx s4 = st_snapidx s3 /\
    st_flushed s4 = st_lastidx s3 /\
    (st_commit s4 = st_commit s3 \/ (st_commit s4 = i /\ i <= aq_commit q /\ st_commit s3 < i))
  else s4 = s3.
Proof.
  intros [Wi Wl Wt Wf] [Fp Fs] H. unfold finish_of in H. fold (has_entries q) in H.
  apply obind_inv in H. destruct H as (x & H & E). inversion E; subst x code; clear E.
  split; [reflexivity|]. destruct (sy && has_entries q).
  2:{ inversion H; reflexivity. }
  cbv zeta in H. set (s3f := commit_log s3 (st_lastidx s3)) in *.
  assert (F : st_flushed s3f = st_lastidx s3).
  { unfold s3f, commit_log, log_lastindex. cbn. lia. }
  assert (KK : st_term s3f = st_term s3 /\ st_logprev s3f = st_logprev s3 /\ st_log s3f = st_log s3 /\
    st_lastidx s3f = st_lastidx s3 /\ st_lastterm s3f = st_lastterm s3 /\ st_snapidx s3f = st_snapidx s3 /\
    st_commit s3f = st_commit s3) by (splits; reflexivity).
  destruct KK as (k1&k2&k3&k4&k5&k6&k7).
  destruct (can_commit s3f q i t) eqn:CC.
  - apply can_commit_inv in CC. destruct CC as (c1&c2&c3).
    apply K_commit_and_apply in H. destruct H as [H1 H2].
    apply K_fields in H1. destruct H1 as (h1&h2&h3&h4&h5&h6&h7).
    splits; try congruence. right. splits; auto.
  - inversion H; subst s4. splits; auto.
Qed.

(* the fields of K other than the term *)
Definition KL (s : nstate) :=
  (st_logprev s, st_log s, st_flushed s, st_lastidx s, st_lastterm s, st_snapidx s).

Lemma KL_fields s s' : KL s' = KL s ->
  st_logprev s' = st_logprev s /\ st_log s' = st_log s /\
  st_flushed s' = st_flushed s /\ st_lastidx s' = st_lastidx s /\ st_lastterm s' = st_lastterm s /\
  st_snapidx s' = st_snapidx s.
Proof. unfold KL. intro H. injection H; intros. splits; assumption. Qed.
Lemma wf_KL s s' : KL s' = KL s -> wf_log s -> wf_log s'.
Proof.
  intros H0 W. apply KL_fields in H0. destruct H0 as (_ & Hl & Hf & Hi & Ht & _).
  destruct W. constructor; rewrite ?Hl, ?Hf, ?Hi, ?Ht; assumption.
Qed.
Lemma flat_KL s s' : KL s' = KL s -> flat s -> flat s'.
Proof. intros H [A B]. apply KL_fields in H. unfold flat. intuition congruence. Qed.
Lemma abs_KL s s' : KL s' = KL s -> abs_log s' = abs_log s.
Proof. intros H. apply KL_fields in H. unfold abs_log. destruct H as (_ & -> & _). reflexivity. Qed.
Lemma K_KL s s' : K s' = K s -> KL s' = KL s.
Proof. unfold K, KL. intro H. inversion H. reflexivity. Qed.

Lemma front_inv s t src s0 : set_term s t = Done s0 ->
  let s1 := set_leader (set_role s0 Follower) src in
  st_term s <= t /\ st_term s1 = t /\ KL s1 = KL s /\ st_commit s1 = st_commit s.
Proof.
  unfold set_term. destruct (N.eqb_spec (st_term s) t) as [E|E].
  - intros H; inversion H; subst s0. cbn. splits; auto. lia.
  - destruct (N.ltb_spec (st_term s) t) as [L|L]; [|discriminate].
    intros H; inversion H; subst s0. cbn. splits; auto. lia.
Qed.

Lemma recv_log_nil (L : list CfgBase.entry) n : CfgBase.recv_log L n [] = L.
Proof. unfold CfgBase.recv_log. cbn. apply firstn_skipn. Qed.

(* everything an accepted request does to the log-related fields *)
Lemma append_accept sor s q s' :
  wf_log s -> flat s -> consec (aq_previdx q) (aq_entries q) ->
  on_append_request sor s q = Done (success, s') ->
  st_term s <= aq_term q /\
  CfgRaft.prev_ok (abs_log s) (N.to_nat (aq_previdx q)) (aq_prevterm q) = true /\
  abs_log s' = CfgBase.recv_log (abs_log s) (N.to_nat (aq_previdx q)) (map abs_entry (aq_entries q)) /\
  st_term s' = aq_term q /\ wf_log s' /\ flat s' /\
  ((st_log s' = st_log s /\ st_flushed s' = st_flushed s) \/
   (abs_log s' <> abs_log s /\ st_flushed s' = st_lastidx s' /\
    st_lastidx s' = aq_previdx q + N.of_nat (length (aq_entries q)))) /\
  (st_commit s' = st_commit s \/
   (st_commit s' = aq_previdx q /\ st_commit s < aq_previdx q /\ aq_previdx q <= aq_commit q /\
    aq_prevterm q = aq_term q /\ aq_previdx q <= st_lastidx s) \/
   (st_commit s' = aq_previdx q + N.of_nat (length (aq_entries q)) /\
    st_commit s' <= aq_commit q /\ abs_log s' <> abs_log s)).
Proof.
  intros W Fl C H. rewrite on_append_unfold in H.
  destruct (aq_term q <? st_term s); [inversion H|].
  apply obind_inv in H. destruct H as (s0 & ST & H).
  destruct (front_inv _ _ (aq_src q) _ ST) as (f1 & f2 & f3 & f4).
  set (s1 := set_leader (set_role s0 Follower) (aq_src q)) in *.
  pose proof (wf_KL _ _ f3 W) as W1. pose proof (flat_KL _ _ f3 Fl) as Fl1.
  pose proof (abs_KL _ _ f3) as A1. pose proof (KL_fields _ _ f3) as (g1&g2&g3&g4&g5&g6).
  apply obind_inv in H. destruct H as (pc & PC & H).
  destruct (prev_check_inv _ _ _ _ W1 Fl1 PC) as [[-> _]|[[-> _]|(s2 & -> & k2 & PO & Ple & Cm)]];
    [inversion H|inversion H|].
  apply obind_inv in H. destruct H as (r & CE & H). destruct r as [[[[s3 i] t] sy] df].
  pose proof (K_fields _ _ k2) as (h1&h2&h3&h4&h5&h6&h7).
  pose proof (K_KL _ _ k2) as kl2.
  pose proof (wf_KL _ _ kl2 W1) as W2. pose proof (flat_KL _ _ kl2 Fl1) as Fl2.
  pose proof (abs_KL _ _ kl2) as A2.
  assert (df = false) as ->.
  { unfold finish_of in H. apply obind_inv in H. destruct H as (x & _ & E).
    destruct df; [inversion E|reflexivity]. }
  rewrite <- h5 in Ple.
  destruct (consume_merge _ _ _ _ _ _ _ _ W2 Fl2 C Ple CE) as (m1&m2&m3&m4&m5&m6&m7).
  destruct (finish_inv _ _ _ _ _ _ _ _ _ m1 m2 H) as [_ Fin].
  assert (HE : sy && has_entries q = true -> sy = true /\ abs_log s3 <> abs_log s2 /\ st_lastidx s3 = i).
  { intro X. apply andb_prop in X. destruct X as [-> _]. destruct m7 as [[? _]|?]; [discriminate|assumption]. }
  assert (HN : sy && has_entries q = false -> sy = false /\ s3 = s2).
  { intro X. destruct m7 as [?|(-> & Ne & _)]; [assumption|]. exfalso. apply Ne.
    unfold has_entries in X. destruct (aq_entries q); [|discriminate X].
    rewrite m3. apply recv_log_nil. }
  destruct (sy && has_entries q) eqn:B.
  - destruct (HE eq_refl) as (-> & Ne & Li). destruct Fin as (t1&t2&t3&t4&t5&t6&t7&t8).
    assert (A3 : abs_log s' = abs_log s3) by (unfold abs_log; rewrite t3; reflexivity).
    assert (W' : wf_log s').
    { destruct m1 as [x1 x2 x3 x4]. constructor; rewrite ?t7, ?t3, ?t4, ?t5; try assumption. lia. }
    assert (Ch : abs_log s' <> abs_log s) by (rewrite A3, <- A1, <- A2; assumption).
    splits; try assumption.
    + congruence.
    + rewrite A3, m3, A2, A1. reflexivity.
    + congruence.
    + destruct m2; split; congruence.
    + right. splits; [assumption|congruence|]. rewrite t4, Li, m6. reflexivity.
    + destruct t8 as [c|(c1&c2&c3)].
      * destruct Cm as [d|(d1&d2&d3&d4)]; [left; congruence|].
        right; left. splits; try congruence; lia.
      * right; right. splits; [rewrite c1, m6; reflexivity|rewrite c1; assumption|assumption].
  - destruct (HN eq_refl) as (-> & ->). subst s'.
    splits; try assumption.
    + congruence.
    + rewrite <- A1, <- A2. exact m3.
    + congruence.
    + left. split; congruence.
    + destruct Cm as [d|(d1&d2&d3&d4)]; [left; congruence|].
      right; left. splits; try congruence; lia.
Qed.

(* D: a rejected request changes no log field; it only raises the term *)
Lemma append_reject sor s q code s' :
  wf_log s -> flat s ->
  on_append_request sor s q = Done (code, s') ->
  code = staleTerm \/ code = prevEntryNotFound \/ code = prevTermMismatch ->
  KL s' = KL s /\ st_commit s' = st_commit s /\ st_term s' = N.max (st_term s) (aq_term q) /\
  (code = staleTerm -> aq_term q < st_term s) /\
  (code <> staleTerm -> st_term s <= aq_term q /\
     CfgRaft.prev_ok (abs_log s) (N.to_nat (aq_previdx q)) (aq_prevterm q) = false).
Proof.
  intros W Fl H Cd. rewrite on_append_unfold in H.
  destruct (N.ltb_spec (aq_term q) (st_term s)) as [L|L].
  { inversion H; subst. splits; auto; [lia|]. intros X; contradiction. }
  apply obind_inv in H. destruct H as (s0 & ST & H).
  destruct (front_inv _ _ (aq_src q) _ ST) as (f1 & f2 & f3 & f4).
  set (s1 := set_leader (set_role s0 Follower) (aq_src q)) in *.
  pose proof (wf_KL _ _ f3 W) as W1. pose proof (flat_KL _ _ f3 Fl) as Fl1.
  pose proof (abs_KL _ _ f3) as A1. pose proof (KL_fields _ _ f3) as (g1&g2&g3&g4&g5&g6).
  apply obind_inv in H. destruct H as (pc & PC & H).
  assert (Len : length (abs_log s1) = length (st_log s)).
  { unfold abs_log. rewrite map_length, g2. reflexivity. }
  pose proof W as [_ Wl _ _].
  destruct (prev_check_inv _ _ _ _ W1 Fl1 PC) as [[-> P]|[(-> & P0 & P1 & P2)|(s2 & -> & _)]].
  - inversion H; subst. splits; auto; try lia; [intro X; discriminate X|].
    intros _. split; [assumption|]. rewrite <- A1. unfold CfgRaft.prev_ok.
    apply orb_false_iff. split; [apply Nat.eqb_neq; lia|].
    apply andb_false_iff. left. apply Nat.leb_gt. lia.
  - inversion H; subst. splits; auto; try lia; [intro X; discriminate X|].
    intros _. split; [assumption|]. rewrite <- A1. unfold CfgRaft.prev_ok.
    apply orb_false_iff. split; [apply Nat.eqb_neq; lia|].
    apply andb_false_iff. right. apply N.eqb_neq. assumption.
  - exfalso. apply obind_inv in H. destruct H as (r & _ & H). destruct r as [[[[s3 i] t] sy] df].
    unfold finish_of in H. apply obind_inv in H. destruct H as (x & _ & E).
    inversion E; subst code. destruct df; destruct Cd as [X|[X|X]]; discriminate X.
Qed.

(* ================================================================ final statements *)
(* A *)
Theorem append_request_refines_recv_log sor s q s' :
  wf_log s -> st_logprev s = 0 -> st_snapidx s = 0 ->
  consec (aq_previdx q) (aq_entries q) ->
  on_append_request sor s q = Done (success, s') ->
  abs_log s' = CfgBase.recv_log (abs_log s) (N.to_nat (aq_previdx q)) (map abs_entry (aq_entries q)) /\
  st_term s <= aq_term q /\ st_term s' = aq_term q /\
  CfgRaft.prev_ok (abs_log s) (N.to_nat (aq_previdx q)) (aq_prevterm q) = true /\
  wf_log s' /\ st_logprev s' = 0 /\ st_snapidx s' = 0.
Proof.
  intros W P S C H. destruct (append_accept _ _ _ _ W (conj P S) C H) as (a1&a2&a3&a4&a5&[a6 a6']&_).
  splits; assumption.
Qed.

(* B *)
Theorem append_request_flush_rule sor s q s' :
  wf_log s -> st_logprev s = 0 -> st_snapidx s = 0 ->
  consec (aq_previdx q) (aq_entries q) ->
  on_append_request sor s q = Done (success, s') ->
  N.to_nat (st_flushed s') =
    if CfgRaft.log_eqb (abs_log s') (abs_log s) then N.to_nat (st_flushed s) else length (abs_log s').
Proof.
  intros W P S C H. destruct (append_accept _ _ _ _ W (conj P S) C H) as (_&_&_&_&W'&_&Fr&_).
  unfold CfgRaft.log_eqb. destruct (list_eq_dec _ _ _) as [E|E].
  - destruct Fr as [[_ F]|[Ne _]]; [congruence|contradiction].
  - destruct Fr as [[L _]|[_ [F _]]].
    + exfalso. apply E. unfold abs_log. rewrite L. reflexivity.
    + rewrite F. destruct W' as [_ Wl _ _]. rewrite Wl. unfold abs_log. rewrite map_length. lia.
Qed.

(* B, node level: the log is untouched or the whole new log is flushed *)
Theorem append_request_flush_exact sor s q s' :
  wf_log s -> st_logprev s = 0 -> st_snapidx s = 0 ->
  consec (aq_previdx q) (aq_entries q) ->
  on_append_request sor s q = Done (success, s') ->
  (st_log s' = st_log s /\ st_flushed s' = st_flushed s) \/
  (abs_log s' <> abs_log s /\ st_flushed s' = st_lastidx s' /\
   st_lastidx s' = aq_previdx q + N.of_nat (length (aq_entries q))).
Proof.
  intros W P S C H. destruct (append_accept _ _ _ _ W (conj P S) C H) as (_&_&_&_&_&_&Fr&_). exact Fr.
Qed.

(* C, exact: the commit index stays, or moves to the request's previous index, or to its last index *)
Theorem append_request_commit_exact sor s q s' :
  wf_log s -> st_logprev s = 0 -> st_snapidx s = 0 ->
  consec (aq_previdx q) (aq_entries q) ->
  on_append_request sor s q = Done (success, s') ->
  st_commit s' = st_commit s \/
  (st_commit s' = aq_previdx q /\ st_commit s < aq_previdx q /\ aq_previdx q <= aq_commit q /\
   aq_prevterm q = aq_term q /\ aq_previdx q <= st_lastidx s) \/
  (st_commit s' = aq_previdx q + N.of_nat (length (aq_entries q)) /\
   st_commit s' <= aq_commit q /\ abs_log s' <> abs_log s).
Proof.
  intros W P S C H. destruct (append_accept _ _ _ _ W (conj P S) C H) as (_&_&_&_&_&_&_&Cm). exact Cm.
Qed.

(* C without the flushed bound: holds in every well-formed state *)
Theorem append_request_commit_le_leader sor s q s' :
  wf_log s -> st_logprev s = 0 -> st_snapidx s = 0 ->
  consec (aq_previdx q) (aq_entries q) ->
  on_append_request sor s q = Done (success, s') ->
  let last := (N.to_nat (aq_previdx q) + length (aq_entries q))%nat in
  (N.to_nat (st_commit s') <=
   Nat.max (N.to_nat (st_commit s)) (Nat.min (N.to_nat (aq_commit q)) last))%nat.
Proof.
  intros W P S C H last. unfold last.
  destruct (append_accept _ _ _ _ W (conj P S) C H) as (_&_&_&_&_&_&_&Cm).
  destruct Cm as [c|[(c1&c2&c3&c4&c5)|(c1&c2&c3)]]; lia.
Qed.

(* C as in Abs/CfgRaft.do_recv.  The extra hypothesis: an entry of the request's own term that the
   follower holds is flushed (true of a follower: it received that entry from this leader and
   flushed before acknowledging; not a consequence of wf_log, see commit_may_pass_flushed) *)
Theorem append_request_commit_rule sor s q s' :
  wf_log s -> st_logprev s = 0 -> st_snapidx s = 0 ->
  consec (aq_previdx q) (aq_entries q) ->
  (aq_prevterm q = aq_term q -> aq_previdx q <= st_lastidx s -> aq_previdx q <= st_flushed s) ->
  on_append_request sor s q = Done (success, s') ->
  let last := (N.to_nat (aq_previdx q) + length (aq_entries q))%nat in
  (N.to_nat (st_commit s') <=
   Nat.max (N.to_nat (st_commit s))
           (Nat.min (Nat.min (N.to_nat (aq_commit q)) last) (N.to_nat (st_flushed s'))))%nat.
Proof.
  intros W P S C Hf H last. unfold last.
  destruct (append_accept _ _ _ _ W (conj P S) C H) as (_&_&_&_&_&_&Fr&Cm).
  destruct Cm as [c|[(c1&c2&c3&c4&c5)|(c1&c2&c3)]].
  - lia.
  - specialize (Hf c4 c5). destruct Fr as [[_ F]|(_&F1&F2)]; lia.
  - destruct Fr as [[L _]|(_&F1&F2)]; [|lia].
    exfalso. apply c3. unfold abs_log. rewrite L. reflexivity.
Qed.

(* D *)
Theorem append_reject_changes_no_log sor s q code s' :
  wf_log s -> st_logprev s = 0 -> st_snapidx s = 0 ->
  on_append_request sor s q = Done (code, s') ->
  code = staleTerm \/ code = prevEntryNotFound \/ code = prevTermMismatch ->
  st_log s' = st_log s /\ st_flushed s' = st_flushed s /\ st_lastidx s' = st_lastidx s /\
  st_lastterm s' = st_lastterm s /\ st_commit s' = st_commit s /\
  st_term s' = N.max (st_term s) (aq_term q) /\
  (code = staleTerm -> aq_term q < st_term s) /\
  (code <> staleTerm -> st_term s <= aq_term q /\
     CfgRaft.prev_ok (abs_log s) (N.to_nat (aq_previdx q)) (aq_prevterm q) = false).
Proof.
  intros W P S H Cd. destruct (append_reject _ _ _ _ _ W (conj P S) H Cd) as (a1&a2&a3&a4&a5).
  apply KL_fields in a1. destruct a1 as (_&b2&b3&b4&b5&_). splits; assumption.
Qed.

Lemma lastTerm_abs s : wf_log s -> CfgBase.lastTerm (abs_log s) = st_lastterm s.
Proof.
  intros [_ _ Wt _]. rewrite Wt. unfold CfgBase.lastTerm, last_term, abs_log. rewrite map_length.
  destruct (length (st_log s)) as [|j] eqn:L; cbn [CfgBase.term_at pred].
  - destruct (st_log s); [reflexivity|discriminate].
  - rewrite nth_error_map. destruct (nth_error (st_log s) j); reflexivity.
Qed.

Lemma set_voted_for_inv s t c s' : set_voted_for s t c = Done s' ->
  st_term s' = t /\ st_voted s' = c /\ KL s' = KL s /\ st_commit s' = st_commit s /\
  st_term s <= t /\ (t = st_term s -> c = st_voted s -> s' = s).
Proof.
  unfold set_voted_for. destruct (_ && _) eqn:B.
  - apply andb_prop in B. destruct B as [B1 B2]. apply N.eqb_eq in B1, B2.
    intros H; inversion H; subst s'. splits; auto. lia.
  - destruct (N.leb_spec (st_term s) t) as [L|L]; [|discriminate].
    intros H; inversion H; subst s'. cbn. splits; auto.
    intros -> ->. rewrite !N.eqb_refl in B. discriminate B.
Qed.

Lemma more_uptodate_false s q : log_more_uptodate s q = false ->
  st_lastterm s < vq_lastterm q \/ (vq_lastterm q = st_lastterm s /\ st_lastidx s <= vq_lastidx q).
Proof.
  unfold log_more_uptodate. intro U. apply orb_false_iff in U. destruct U as [U1 U2].
  apply N.ltb_ge in U1. apply andb_false_iff in U2.
  destruct U2 as [U2|U2]; [apply N.eqb_neq in U2 | apply N.ltb_ge in U2]; lia.
Qed.

(* E *)
Theorem vote_request_refines_grant s q s' :
  on_vote_request s q = Done (success, s') ->
  st_term s <= vq_term q /\
  (st_term s = vq_term q -> st_voted s = 0 \/ st_voted s = vq_src q) /\
  st_term s' = vq_term q /\ st_voted s' = vq_src q /\ KL s' = KL s /\ st_commit s' = st_commit s /\
  ((* the vote was given before: nothing changes (no abstract step) *)
   (st_term s = vq_term q /\ st_voted s = vq_src q /\ vq_src q <> 0 /\ s' = s) \/
   (* a new vote: the candidate's log is at least as up to date *)
   ((st_term s < vq_term q \/ st_voted s = 0) /\
    (st_lastterm s < vq_lastterm q \/ (vq_lastterm q = st_lastterm s /\ st_lastidx s <= vq_lastidx q)))).
Proof.
  unfold on_vote_request. destruct (_ && _); [intro H; inversion H|].
  destruct (N.ltb_spec (vq_term q) (st_term s)) as [St|St]; [intro H; inversion H|].
  destruct (N.ltb_spec (st_term s) (vq_term q)) as [Bp|Bp].
  - (* higher term: vote forgotten *)
    cbn [N.eqb negb]. destruct (log_more_uptodate _ q) eqn:U.
    { intro H. apply obind_inv in H. destruct H as (x & _ & H). inversion H. }
    intro H. apply obind_inv in H. destruct H as (s2 & V & H). inversion H; subst s2; clear H.
    apply set_voted_for_inv in V. destruct V as (v1&v2&v3&v4&v5&v6).
    apply more_uptodate_false in U. cbn in U. splits; auto; try lia.
  - assert (E : st_term s = vq_term q) by lia.
    destruct (N.eqb_spec (st_voted s) 0) as [V0|V0]; cbn [negb].
    + destruct (log_more_uptodate s q) eqn:U.
      { intro H. apply obind_inv in H. destruct H as (x & _ & H). inversion H. }
      intro H. apply obind_inv in H. destruct H as (s2 & V & H). inversion H; subst s2; clear H.
      apply set_voted_for_inv in V. destruct V as (v1&v2&v3&v4&v5&v6).
      apply more_uptodate_false in U. splits; auto; try lia.
    + intro H. apply obind_inv in H. destruct H as (s2 & V & H).
      destruct (N.eqb_spec (st_voted s) (vq_src q)) as [Vs|Vs]; [|inversion H].
      inversion H; subst s2; clear H.
      apply set_voted_for_inv in V. destruct V as (v1&v2&v3&v4&v5&v6).
      splits; auto; try lia; try congruence.
      left. splits; auto; try congruence.
Qed.

(* E, tied to the abstract guard: a new vote goes only to a candidate whose log (any log with the
   advertised last index and last term) is up to date in the sense of Abs/CfgRaft.uptodate *)
Theorem vote_grant_uptodate s q s' (Lc : list CfgBase.entry) :
  wf_log s -> on_vote_request s q = Done (success, s') ->
  st_term s < vq_term q \/ st_voted s = 0 ->
  CfgBase.lastTerm Lc = vq_lastterm q -> N.of_nat (length Lc) = vq_lastidx q ->
  CfgRaft.uptodate Lc (abs_log s).
Proof.
  intros W H New LT LI. pose proof (lastTerm_abs s W) as LA. pose proof W as [_ Wl _ _].
  apply vote_request_refines_grant in H. destruct H as (_&_&_&_&_&_&[(a&b&c&_)|[_ U]]).
  - exfalso. lia.
  - unfold CfgRaft.uptodate. rewrite LA, LT. unfold abs_log. rewrite map_length.
    destruct U as [U|[U1 U2]]; [left; assumption|right; split; [assumption|lia]].
Qed.
End Link.

(* ---- why append_request_commit_rule needs its extra hypothesis: wf_log alone lets the node
   commit an entry it has not flushed (the heartbeat's previous entry, of the leader's term) ---- *)
Definition cx_s : nstate :=
  mkNode_ 1 2 1 0 0 [mkEntry 1 1 entryNop []] 0 1 1 0 0 empty_config empty_config empty_config
          Follower 0 0 false false None false 0 0 false 0%Z false None.
Definition cx_q : appendreq := mkAppendReq 1 3 1 1 1 [].

Example commit_may_pass_flushed :
  wf_log cx_s /\ st_logprev cx_s = 0 /\ st_snapidx cx_s = 0 /\
  consec (aq_previdx cx_q) (aq_entries cx_q) /\
  exists s', on_append_request false cx_s cx_q = Done (success, s') /\
             st_commit s' = 1 /\ st_flushed s' = 0 /\ st_log s' = st_log cx_s.
Proof.
  split; [|split; [reflexivity|split; [reflexivity|split; [exact I|]]]].
  - constructor; cbn; try reflexivity; try lia.
    intros [|[|k]] e H; cbn in H; inversion H. reflexivity.
  - eexists. split; [vm_compute; reflexivity|]. cbn. auto.
Qed.
