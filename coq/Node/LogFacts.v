(* Node-level rules about the log behind C02 / C03 / C04: what a vote requires, where a follower
   truncates, what it holds after a successful append request, the leader's log being append-only,
   the shape of the requests a replication writes, the order in which the leader's queue is applied,
   what the follower's commit index may move to.  Proofs only; statements are repeated in
   Props/C02_rules.v.  Self-contained (only the model files are required). *)
From Coq Require Import List NArith ZArith Bool Lia Arith.
From RecordUpdate Require Import RecordUpdate.
From Verif Require Import Base.Bytes Codec.Messages Node.Types Node.Handlers Node.Leader Node.Snap Node.Step Node.Run.
Import ListNotations.
Open Scope N_scope.

(* ================================================================ definitions used by the statements *)
(* the k-th entry of the log carries index logprev + 1 + k *)
Definition log_indexed (s : nstate) : Prop :=
  forall k e, nth_error (st_log s) k = Some e -> e_index e = st_logprev s + 1 + N.of_nat k.

(* each entry's index is its predecessor's + 1 *)
Fixpoint consecutive (es : list entry) : Prop :=
  match es with
  | [] => True
  | e :: r => match r with [] => True | e' :: _ => e_index e' = e_index e + 1 end /\ consecutive r
  end.

(* walking the queue from position [first]: every item sits at the current position; a log entry
   advances the position by one, reads and barriers do not *)
Fixpoint positions_from (first : N) (q : list newent) : Prop :=
  match q with
  | [] => True
  | ne :: r => ne_index ne = first /\
               positions_from (if is_log_entry (ne_typ ne) then first + 1 else first) r
  end.

(* ================================================================ inversion of the monads *)
Lemma obind_inv {A B} (o : outcome A) (k : A -> outcome B) r :
  obind o k = Done r -> exists a, o = Done a /\ k a = Done r.
Proof. destruct o; cbn; [eauto | discriminate]. Qed.

(* keeps the outputs *)
Lemma wbind_inv (o : outcome W) (k : nstate -> outcome W) w :
  wbind o k = Done w ->
  exists s1 o1 s2 o2, o = Done (s1, o1) /\ k s1 = Done (s2, o2) /\ w = (s2, out_app o1 o2).
Proof.
  unfold wbind. destruct o as [[s1 o1]|]; [|discriminate].
  destruct (k s1) as [[s2 o2]|] eqn:E; [|discriminate].
  intros H; inversion H; subst. exists s1, o1, s2, o2. auto.
Qed.

Lemma fold_left_inv {A B} (P : A -> Prop) (f : A -> B -> A) l a :
  P a -> (forall a b, P a -> P (f a b)) -> P (fold_left f l a).
Proof. revert a; induction l; cbn; auto. Qed.

Lemma get_ldr_inv s l : get_ldr s = Done l -> st_ldr s = Some l.
Proof. unfold get_ldr. destruct (st_ldr s); [|discriminate]. intros H; inversion H; reflexivity. Qed.

(* one step of taking a hypothesis [... = Done _] apart *)
Ltac inv1 :=
  match goal with
  | H : Err _ = Done _ |- _ => discriminate H
  | H : Done _ = Done _ |- _ => inversion H; subst; clear H
  | H : wret _ = Done _ |- _ => unfold wret in H
  | H : wreply _ _ _ = Done _ |- _ => unfold wreply in H
  | H : wmsg _ _ = Done _ |- _ => unfold wmsg in H
  | H : get_ldr _ = Done _ |- _ => apply get_ldr_inv in H
  | H : obind _ _ = Done _ |- _ => apply obind_inv in H; destruct H as (? & ? & H)
  | H : wbind _ _ = Done _ |- _ =>
      let E := fresh "E" in apply wbind_inv in H; destruct H as (? & ? & ? & ? & ? & H & E)
  | H : (if ?b then _ else _) = Done _ |- _ => destruct b eqn:?
  | H : match ?x with _ => _ end = Done _ |- _ => destruct x eqn:?
  end.

Ltac refold opt H :=
  fold (store_entry opt) in H; fold (leader_change_config opt) in H;
  fold (check_config_actions opt) in H; fold (check_config_action opt) in H;
  fold (do_change_config opt) in H; fold (on_majority_commit opt) in H;
  fold (leader_set_commit_index opt) in H.

(* ================================================================ C02: votes *)
Lemma set_voted_for_done s t c s' : set_voted_for s t c = Done s' -> True.
Proof. auto. Qed.

Theorem new_vote_requires_uptodate_log :
  forall s q s', on_vote_request s q = Done (success, s') ->
    (st_term s < vq_term q \/ st_voted s <> vq_src q) -> log_more_uptodate s q = false.
Proof.
  intros s q s' H C. unfold on_vote_request in H.
  destruct (_ && _ && _); [inversion H; discriminate|].
  destruct (vq_term q <? st_term s); [inversion H; discriminate|].
  destruct (st_term s <? vq_term q) eqn:B.
  - change (negb (0 =? 0)) with false in H. cbv iota in H.
    change (log_more_uptodate (set_role s Follower) q) with (log_more_uptodate s q) in H.
    destruct (log_more_uptodate s q); [|reflexivity].
    apply obind_inv in H. destruct H as (s2 & _ & H). inversion H; discriminate.
  - apply N.ltb_ge in B.
    destruct (st_voted s =? 0) eqn:V; cbn [negb] in H; cbv iota in H.
    + destruct (log_more_uptodate s q); [|reflexivity].
      apply obind_inv in H. destruct H as (s2 & _ & H). inversion H; discriminate.
    + apply obind_inv in H. destruct H as (s2 & _ & H).
      destruct (st_voted s =? vq_src q) eqn:V2; [|inversion H; discriminate].
      apply N.eqb_eq in V2. exfalso. destruct C as [C|C]; [lia | auto].
Qed.

(* ================================================================ C03: the leader's queue *)
Lemma apply_queue_order q : forall s out s' out',
  apply_queue s q out = Done (s', out') ->
  st_fsmidx s' = st_fsmidx s + N.of_nat (length (filter (fun ne => is_log_entry (ne_typ ne)) q)) /\
  positions_from (st_fsmidx s + 1) q.
Proof.
  induction q as [|ne r IH]; intros s out s' out' H; cbn [apply_queue] in H.
  - inversion H; subst. cbn. split; [lia | exact I].
  - destruct (negb (ne_index ne =? st_fsmidx s + 1)) eqn:E; [discriminate|].
    apply negb_false_iff, N.eqb_eq in E.
    apply IH in H. destruct H as [H1 H2].
    cbn [filter positions_from]. destruct (is_log_entry (ne_typ ne)).
    + cbn [st_fsmidx set_fsm set] in H1, H2. cbn [length]. rewrite H1.
      split; [lia|]. split; [exact E|]. rewrite <- E. exact H2.
    + split; [exact H1|]. split; [exact E | exact H2].
Qed.

Theorem queue_applied_in_order :
  forall s q out s', apply_queue s q [] = Done (s', out) ->
    st_fsmidx s' = st_fsmidx s + N.of_nat (length (filter (fun ne => is_log_entry (ne_typ ne)) q)) /\
    positions_from (st_fsmidx s + 1) q.
Proof. intros s q out s' H. eapply apply_queue_order; eauto. Qed.

(* ================================================================ C02: the follower's commit index *)
Lemma commit_set_term s t s' : set_term s t = Done s' -> st_commit s' = st_commit s.
Proof. unfold set_term. intros H. repeat inv1; reflexivity. Qed.

Lemma commit_raft_set_commit_index sor s i : st_commit (fst (raft_set_commit_index sor s i)) = i.
Proof.
  unfold raft_set_commit_index. destruct (_ && _); [|reflexivity]. cbn [fst].
  unfold commit_config. cbn [st_leader st_latest set_commit set].
  destruct sor; repeat match goal with |- context [if ?b then _ else _] => destruct b end;
    try destruct (cfg_node _ _); reflexivity.
Qed.

Lemma commit_apply_committed s s' : apply_committed s = Done s' -> st_commit s' = st_commit s.
Proof. unfold apply_committed. intros H. repeat inv1; reflexivity. Qed.

Lemma commit_commit_and_apply sor s i s' : commit_and_apply sor s i = Done s' -> st_commit s' = i.
Proof.
  unfold commit_and_apply. intros H. apply commit_apply_committed in H. rewrite H.
  apply commit_raft_set_commit_index.
Qed.

Lemma commit_append_entry s e s' : append_entry s e = Done s' -> st_commit s' = st_commit s.
Proof. unfold append_entry. intros H. repeat inv1; reflexivity. Qed.
Lemma commit_remove_gte s i t s' : remove_gte s i t = Done s' -> st_commit s' = st_commit s.
Proof. unfold remove_gte. intros H. repeat inv1; reflexivity. Qed.
Lemma commit_change_config s c : st_commit (change_config s c) = st_commit s.
Proof. unfold change_config. destruct (_ && _); reflexivity. Qed.

(* the pair (index, term) the loop ends with is the one it started with or an entry's of the request *)
Lemma consume_entries_commit es : forall s i t sy s' i' t' sy' f,
  consume_entries s es i t sy = Done (s', i', t', sy', f) ->
  st_commit s' = st_commit s /\
  ((i' = i /\ t' = t) \/ exists e, In e es /\ e_index e = i' /\ e_term e = t').
Proof.
  induction es as [|ne rest IH]; intros s i t sy s' i' t' sy' f H.
  - cbn in H. inversion H; subst. auto.
  - cbn [consume_entries] in H.
    assert (K : forall s1 sy1, st_commit s1 = st_commit s ->
              consume_entries s1 rest (e_index ne) (e_term ne) sy1 = Done (s', i', t', sy', f) ->
              st_commit s' = st_commit s /\
              ((i' = i /\ t' = t) \/ exists e, In e (ne :: rest) /\ e_index e = i' /\ e_term e = t')).
    { intros s1 sy1 C H1. apply IH in H1. destruct H1 as [C1 [[-> ->]|(e & I & E1 & E2)]].
      - split; [congruence|]. right. exists ne. split; [left; reflexivity | auto].
      - split; [congruence|]. right. exists e. split; [right; exact I | auto]. }
    destruct (e_index ne <=? st_snapidx s); [eapply K; eauto|].
    apply obind_inv in H. destruct H as (r0 & R & H).
    assert (C0 : match r0 with Some s1 => st_commit s1 = st_commit s | None => True end).
    { destruct (e_index ne <=? st_lastidx s).
      - destruct (log_get s (e_index ne)) as [me|]; [|discriminate].
        destruct (e_index me =? e_index ne); [|discriminate].
        destruct (e_term me =? e_term ne). { inversion R; subst. exact I. }
        apply obind_inv in R. destruct R as (s1 & G & R). inversion R; subst.
        apply commit_remove_gte in G. destruct (_ <=? _); exact G.
      - inversion R; subst. reflexivity. }
    destruct r0 as [s1|]; [|eapply K; eauto].
    apply obind_inv in H. destruct H as (s2 & A & H). apply commit_append_entry in A.
    destruct (e_typ ne =? entryConfig).
    + destruct (config_of_entry ne) as [c|].
      * eapply K; [|exact H]. rewrite commit_change_config. congruence.
      * inversion H; subst. split; [congruence|]. right. exists ne. split; [left; reflexivity | auto].
    + eapply K; [|exact H]. congruence.
Qed.

Lemma can_commit_inv s q index term : can_commit s q index term = true ->
  index <= aq_commit q /\ term = aq_term q /\ st_commit s < index.
Proof.
  unfold can_commit. intros H.
  apply andb_true_iff in H. destruct H as [H H3]. apply andb_true_iff in H. destruct H as [H1 H2].
  apply N.leb_le in H1. apply N.eqb_eq in H2. apply N.ltb_lt in H3. auto.
Qed.

Theorem follower_commit_covered :
  forall sor s q s', on_append_request sor s q = Done (success, s') -> st_commit s < st_commit s' ->
    st_commit s' <= aq_commit q /\
    (st_commit s' = aq_previdx q /\ aq_prevterm q = aq_term q \/
     exists e, In e (aq_entries q) /\ e_index e = st_commit s' /\ e_term e = aq_term q).
Proof.
  intros sor s q s' H LT. unfold on_append_request in H.
  destruct (aq_term q <? st_term s); [inversion H; subst; try lia|].
  apply obind_inv in H. destruct H as (s0 & T & H). apply commit_set_term in T.
  set (s1 := set_leader (set_role s0 Follower) (aq_src q)) in *.
  assert (C1 : st_commit s1 = st_commit s) by exact T.
  apply obind_inv in H. destruct H as ([code s2] & P & H).
  (* after the check of the previous entry: untouched, or moved to prevLogIndex *)
  assert (C2 : st_commit s2 = st_commit s \/
               (st_commit s2 = aq_previdx q /\ aq_previdx q <= aq_commit q /\ aq_prevterm q = aq_term q)).
  { destruct (st_snapidx s1 <? aq_previdx q); [|inversion P; subst; left; exact C1].
    destruct (st_lastidx s1 <? aq_previdx q); [inversion P; subst; left; exact C1|].
    match type of P with match ?x with _ => _ end = _ => destruct x end; [|discriminate].
    destruct (negb _); [inversion P; subst; left; exact C1|].
    destruct (can_commit _ _ _ _) eqn:CC; [|inversion P; subst; left; exact C1].
    apply obind_inv in P. destruct P as (s2' & C & P). inversion P; subst.
    apply commit_commit_and_apply in C. apply can_commit_inv in CC. right. tauto. }
  destruct code as [code|]. { inversion H; subst. destruct C2 as [C2|(C2 & A & B)]; [lia|]. split; [lia | left; auto]. }
  apply obind_inv in H. destruct H as ([[[[s3 index] term] sync] failed] & C & H).
  apply obind_inv in H. destruct H as (s4 & D & H). inversion H; subst s4. clear H.
  apply consume_entries_commit in C. destruct C as [C3 CI].
  assert (FIN : st_commit s' = st_commit s2 \/
                (st_commit s' = index /\ index <= aq_commit q /\ term = aq_term q)).
  { destruct (sync && _); [|inversion D; subst; left; exact C3].
    cbv zeta in D.
    match type of D with (if ?c then _ else _) = _ => destruct c eqn:CC end.
    - apply commit_commit_and_apply in D. apply can_commit_inv in CC. right. tauto.
    - inversion D; subst. left. exact C3. }
  destruct FIN as [F|(F & A & B)].
  - rewrite F. destruct C2 as [C2|(C2 & A & B)]; [lia|]. split; [lia | left; auto].
  - rewrite F. split; [exact A|].
    destruct CI as [[-> ->]|(e & I & E1 & E2)]; [left; auto|].
    right. exists e. split; [exact I|]. split; congruence.
Qed.

(* ================================================================ C04: the requests a replication writes *)
Lemma firstn_firstn_length {A} (l : list A) : forall n, firstn (length (firstn n l)) l = firstn n l.
Proof.
  induction l as [|a l IH]; intros n.
  - destruct n; reflexivity.
  - destruct n; [reflexivity|]. cbn. rewrite IH. reflexivity.
Qed.

Theorem append_request_is_log_slice :
  forall s id b s' out q l, st_ldr s = Some l -> flr_send s id b = Done (s', out) -> log_indexed s ->
    In (MAppend id q) (lo_msgs out) ->
    aq_term q = st_term s /\ aq_src q = st_nid s /\
    aq_entries q = firstn (length (aq_entries q)) (skipn (N.to_nat (aq_previdx q - st_logprev s)) (st_log s)) /\
    (aq_previdx q = 0 /\ aq_prevterm q = 0 \/
     aq_previdx q = st_snapidx s /\ aq_prevterm q = st_snapterm s \/
     exists pe, log_get s (aq_previdx q) = Some pe /\ aq_prevterm q = e_term pe).
Proof.
  intros s id b s' out q l Hl H _ I. unfold flr_send in H.
  apply obind_inv in H. destruct H as (l0 & _ & H).
  destruct (find_repl id (ld_repls l0)) as [rp|]; [|discriminate].
  destruct (rp_viewprev rp =? nil_view); [discriminate|].
  apply obind_inv in H. destruct H as (p & PT & H).
  destruct p as [prevterm|].
  2:{ unfold wmsg in H. inversion H; subst. cbn in I. destruct I as [I|[]]. discriminate. }
  match type of H with (if ?c then _ else _) = _ => destruct c end.
  { unfold wmsg in H. inversion H; subst. cbn in I. destruct I as [I|[]]. discriminate. }
  destruct (negb _); [discriminate|].
  unfold wmsg in H. inversion H; subst. cbn in I. destruct I as [I|[]]. inversion I; subst q. clear I H.
  cbn [aq_term aq_src aq_entries aq_previdx aq_prevterm].
  split; [reflexivity|]. split; [reflexivity|]. split.
  - replace (N.to_nat (rp_next rp - 1 - st_logprev s)) with (N.to_nat (rp_next rp - st_logprev s - 1)) by lia.
    rewrite firstn_firstn_length. reflexivity.
  - destruct (rp_next rp - 1 =? 0) eqn:E0.
    { apply N.eqb_eq in E0. inversion PT; subst. left. auto. }
    destruct (rp_next rp - 1 =? st_snapidx s) eqn:E1.
    { apply N.eqb_eq in E1. inversion PT; subst. right; left. auto. }
    destruct (rp_ldrlast rp <? rp_next rp - 1); [discriminate|].
    destruct (_ && _); [|discriminate].
    destruct (log_get s (rp_next rp - 1)) as [e|]; [|discriminate].
    inversion PT; subst. right; right. exists e. auto.
Qed.

(* ================================================================ C02/C04: the follower's loop over the entries *)
(* what the loop reads of the state *)
Definition LG (s : nstate) := (st_logprev s, st_log s, st_lastidx s, st_snapidx s).
Definition wfc (s : nstate) : Prop :=
  st_lastidx s = log_lastindex s /\ st_snapidx s <= st_lastidx s /\ st_logprev s <= st_snapidx s.

Lemma LG_fields s s' : LG s' = LG s ->
  st_logprev s' = st_logprev s /\ st_log s' = st_log s /\ st_lastidx s' = st_lastidx s /\ st_snapidx s' = st_snapidx s.
Proof. unfold LG. intros H. inversion H. auto. Qed.
Lemma wfc_LG s s' : LG s' = LG s -> wfc s -> wfc s'.
Proof. intros H. destruct (LG_fields _ _ H) as (A & B & C & D). unfold wfc, log_lastindex. rewrite A, B, C, D. auto. Qed.
Lemma log_get_LG s s' j : LG s' = LG s -> log_get s' j = log_get s j.
Proof. intros H. destruct (LG_fields _ _ H) as (A & B & C & D). unfold log_get. rewrite A, B. reflexivity. Qed.
Lemma LG_change_config s c : LG (change_config s c) = LG s.
Proof. unfold change_config. destruct (_ && _); reflexivity. Qed.

Lemma log_get_bound s j e : log_get s j = Some e -> st_logprev s < j /\ j <= log_lastindex s.
Proof.
  unfold log_get, log_lastindex. destruct (st_logprev s <? j) eqn:E; [|discriminate].
  apply N.ltb_lt in E. intros H. split; [exact E|].
  assert (L : (N.to_nat (j - st_logprev s - 1) < length (st_log s))%nat).
  { apply nth_error_Some. congruence. }
  lia.
Qed.

(* the state right before the entry of index k is appended: the log cut back to k-1 *)
Definition pre (s : nstate) (k : N) (s1 : nstate) : Prop :=
  st_logprev s1 = st_logprev s /\ st_snapidx s1 = st_snapidx s /\ st_lastidx s1 = k - 1 /\
  st_log s1 = firstn (N.to_nat (k - st_logprev s - 1)) (st_log s).

Lemma nth_error_firstn_lt {A} (l : list A) : forall n m, (m < n)%nat -> nth_error (firstn n l) m = nth_error l m.
Proof.
  induction l as [|a l IH]; intros n m L.
  - destruct n, m; reflexivity.
  - destruct n; [lia|]. destruct m; [reflexivity|]. cbn. apply IH. lia.
Qed.

Lemma pre_self s : wfc s -> pre s (st_lastidx s + 1) s.
Proof.
  intros (W1 & W2 & W3). unfold pre. repeat split; [lia|].
  rewrite firstn_all2; [reflexivity|]. unfold log_lastindex in W1. lia.
Qed.

Lemma pre_remove_gte s k pt s1 : remove_gte s k pt = Done s1 -> pre s k s1.
Proof.
  unfold remove_gte. destruct (_ && _); [|discriminate]. intros H; inversion H; subst.
  unfold pre. cbn. auto.
Qed.

Lemma pre_revert s k s1 : pre s k s1 -> pre s k (revert_config s1).
Proof. exact (fun H => H). Qed.

Lemma after_append s k s1 ne s2 :
  wfc s -> st_snapidx s < k -> k <= st_lastidx s + 1 -> pre s k s1 ->
  append_entry s1 ne = Done s2 -> e_index ne = k ->
  wfc s2 /\ st_snapidx s2 = st_snapidx s /\ st_lastidx s2 = k /\
  (forall j, j < k -> log_get s2 j = log_get s j) /\ log_get s2 k = Some ne.
Proof.
  intros (W1 & W2 & W3) SK KL (P1 & P2 & P3 & P4) A EK.
  unfold append_entry in A. destruct (e_index ne =? st_lastidx s1 + 1); [|discriminate].
  inversion A; subst s2. clear A. unfold log_lastindex in *.
  set (n := N.to_nat (k - st_logprev s - 1)) in *.
  assert (LN : (n <= length (st_log s))%nat) by lia.
  assert (FL : length (firstn n (st_log s)) = n) by (rewrite firstn_length; lia).
  unfold wfc, log_get, log_lastindex. cbn [set_log set st_logprev st_log st_lastidx st_snapidx].
  rewrite P1, P2, P4, EK, app_length, FL. cbn [length].
  split; [lia|]. split; [reflexivity|]. split; [reflexivity|]. split.
  - intros j Hj. destruct (st_logprev s <? j) eqn:E; [|reflexivity]. apply N.ltb_lt in E.
    rewrite nth_error_app1 by lia. apply nth_error_firstn_lt. lia.
  - assert (E : st_logprev s <? k = true) by (apply N.ltb_lt; lia). rewrite E.
    rewrite nth_error_app2 by lia. rewrite FL. fold n. rewrite Nat.sub_diag. reflexivity.
Qed.

(* the result of "skip, or truncate if needed" for an entry above the snapshot *)
Lemma skip_or_trunc_spec s ne pt r :
  wfc s -> st_snapidx s < e_index ne ->
  (if e_index ne <=? st_lastidx s then
     match log_get s (e_index ne) with
     | None => Err EBug
     | Some me =>
         if e_index me =? e_index ne then
           if e_term me =? e_term ne then Done None
           else
             s1 <~ remove_gte s (e_index ne) pt ;;
             Done (Some (if e_index ne <=? c_index (st_latest s1) then revert_config s1 else s1))
         else Err EBug
     end
   else Done (Some s)) = Done r ->
  match r with
  | None => e_index ne <= st_lastidx s /\ exists me, log_get s (e_index ne) = Some me /\ e_term me = e_term ne
  | Some s1 =>
      (e_index ne <= st_lastidx s + 1 \/ forall s2, append_entry s1 ne <> Done s2) /\
      (st_lastidx s < e_index ne /\ s1 = s \/
       pre s (e_index ne) s1 /\ exists me, log_get s (e_index ne) = Some me /\ e_term me <> e_term ne)
  end.
Proof.
  intros W SK H.
  destruct (e_index ne <=? st_lastidx s) eqn:E.
  - apply N.leb_le in E.
    destruct (log_get s (e_index ne)) as [me|] eqn:G; [|discriminate].
    destruct (e_index me =? e_index ne); [|discriminate].
    destruct (e_term me =? e_term ne) eqn:T.
    + inversion H; subst. apply N.eqb_eq in T. split; [exact E|]. exists me. auto.
    + apply N.eqb_neq in T. apply obind_inv in H. destruct H as (s1 & R & H). inversion H; subst.
      apply pre_remove_gte in R. split; [left; lia|]. right. split.
      * destruct (_ <=? _); [apply pre_revert|]; exact R.
      * exists me. auto.
  - apply N.leb_gt in E. inversion H; subst. split.
    + destruct (e_index ne =? st_lastidx s + 1) eqn:E2.
      * apply N.eqb_eq in E2. left. lia.
      * right. intros s2. unfold append_entry. rewrite E2. discriminate.
    + left. auto.
Qed.

Lemma consume_entries_trunc es : forall s index term sync s' i t sy failed,
  consume_entries s es index term sync = Done (s', i, t, sy, failed) -> wfc s ->
  st_snapidx s' = st_snapidx s /\
  forall j e, log_get s j = Some e ->
    log_get s' j = Some e \/
    exists ne me, In ne es /\ st_snapidx s < e_index ne /\ e_index ne <= j /\
                  log_get s (e_index ne) = Some me /\ e_term me <> e_term ne.
Proof.
  induction es as [|ne rest IH]; intros s index term sync s' i t sy failed H W.
  - cbn in H. inversion H; subst. split; [reflexivity|]. intros j e G. left. exact G.
  - cbn [consume_entries] in H.
    (* continuing with the same state *)
    assert (SAME : forall sy1, consume_entries s rest (e_index ne) (e_term ne) sy1 = Done (s', i, t, sy, failed) ->
              st_snapidx s' = st_snapidx s /\
              forall j e, log_get s j = Some e ->
                log_get s' j = Some e \/
                exists ne0 me, In ne0 (ne :: rest) /\ st_snapidx s < e_index ne0 /\ e_index ne0 <= j /\
                               log_get s (e_index ne0) = Some me /\ e_term me <> e_term ne0).
    { intros sy1 H1. destruct (IH _ _ _ _ _ _ _ _ _ H1 W) as [S1 S2]. split; [exact S1|].
      intros j e G. destruct (S2 j e G) as [L|(ne0 & me & I & R)]; [left; exact L|].
      right. exists ne0, me. split; [right; exact I | exact R]. }
    destruct (e_index ne <=? st_snapidx s) eqn:ES; [eapply SAME; eauto|].
    apply N.leb_gt in ES.
    apply obind_inv in H. destruct H as (r0 & R & H).
    apply (skip_or_trunc_spec s ne term r0 W ES) in R.
    destruct r0 as [s1|]; [|eapply SAME; eauto].
    destruct R as [KL R].
    apply obind_inv in H. destruct H as (s2 & A & H).
    destruct KL as [KL|KL]; [|exfalso; eapply KL; eauto].
    assert (PR : pre s (e_index ne) s1).
    { destruct R as [[R1 ->]|[R _]]; [|exact R].
      assert (e_index ne = st_lastidx s + 1) by lia. rewrite H0. apply pre_self. exact W. }
    destruct (after_append s (e_index ne) s1 ne s2 W ES KL PR A eq_refl) as (W2 & SN2 & LI2 & LOW & AT).
    (* continuing with a state that has the log of s2 *)
    assert (NEXT : forall sx sy1, LG sx = LG s2 ->
              consume_entries sx rest (e_index ne) (e_term ne) sy1 = Done (s', i, t, sy, failed) ->
              st_snapidx s' = st_snapidx s /\
              forall j e, log_get s j = Some e ->
                log_get s' j = Some e \/
                exists ne0 me, In ne0 (ne :: rest) /\ st_snapidx s < e_index ne0 /\ e_index ne0 <= j /\
                               log_get s (e_index ne0) = Some me /\ e_term me <> e_term ne0).
    { intros sx sy1 EX H1.
      destruct (IH _ _ _ _ _ _ _ _ _ H1 (wfc_LG _ _ EX W2)) as [S1 S2].
      destruct (LG_fields _ _ EX) as (_ & _ & _ & SNX).
      split; [congruence|].
      intros j e G.
      destruct (N.lt_ge_cases j (e_index ne)) as [LT|GE].
      - assert (GX : log_get sx j = Some e) by (rewrite (log_get_LG _ _ j EX), LOW; assumption).
        destruct (S2 j e GX) as [L|(ne0 & me & I & R1 & R2 & R3 & R4)]; [left; exact L|].
        right. exists ne0, me. split; [right; exact I|]. split; [congruence|]. split; [exact R2|].
        split; [|exact R4]. rewrite <- R3, (log_get_LG _ _ _ EX). symmetry. apply LOW. lia.
      - destruct R as [[R1 _]|[_ (me & G1 & G2)]].
        + apply log_get_bound in G. destruct W as (W1 & _). lia.
        + right. exists ne, me. split; [left; reflexivity|]. auto. }
    destruct (e_typ ne =? entryConfig).
    + destruct (config_of_entry ne) as [c|].
      * eapply NEXT; [|exact H]. apply LG_change_config.
      * inversion H; subst. split; [exact SN2|]. intros j e G.
        destruct (N.lt_ge_cases j (e_index ne)) as [LT|GE].
        -- left. rewrite LOW; assumption.
        -- destruct R as [[R1 _]|[_ (me & G1 & G2)]].
           ++ apply log_get_bound in G. destruct W as (W1 & _). lia.
           ++ right. exists ne, me. split; [left; reflexivity|]. auto.
    + eapply NEXT; [|exact H]. reflexivity.
Qed.

Theorem truncate_only_at_first_conflict :
  forall s es index term sync s' i t sy failed,
    consume_entries s es index term sync = Done (s', i, t, sy, failed) -> log_indexed s ->
    st_lastidx s = log_lastindex s -> st_snapidx s <= st_lastidx s -> st_logprev s <= st_snapidx s ->
    forall j e, log_get s j = Some e ->
      log_get s' j = Some e \/
      exists ne me, In ne es /\ st_snapidx s < e_index ne /\ e_index ne <= j /\
                    log_get s (e_index ne) = Some me /\ e_term me <> e_term ne.
Proof.
  intros s es index term sync s' i t sy failed H _ W1 W2 W3.
  apply consume_entries_trunc in H; [|unfold wfc; auto]. apply H.
Qed.

Lemma consecutive_gt r : forall e, consecutive (e :: r) -> forall e', In e' r -> e_index e < e_index e'.
Proof.
  induction r as [|a r IH]; intros e C e' I; [destruct I|].
  destruct C as [C1 C2]. destruct I as [<-|I]; [lia|].
  specialize (IH a C2 e' I). lia.
Qed.

Lemma consume_entries_holds es : forall s index term sync s' i t sy,
  consume_entries s es index term sync = Done (s', i, t, sy, false) -> wfc s -> consecutive es ->
  (forall e, In e es -> st_snapidx s < e_index e -> e_index e <= st_lastidx s ->
      forall me, log_get s (e_index e) = Some me -> e_term me = e_term e -> me = e) ->
  forall e, In e es -> st_snapidx s < e_index e -> log_get s' (e_index e) = Some e.
Proof.
  induction es as [|ne rest IH]; intros s index term sync s' i t sy H W C M e I SE; [destruct I|].
  cbn [consume_entries] in H.
  pose proof (consecutive_gt _ _ C) as GT. destruct C as [_ C].
  assert (M' : forall e, In e rest -> st_snapidx s < e_index e -> e_index e <= st_lastidx s ->
      forall me, log_get s (e_index e) = Some me -> e_term me = e_term e -> me = e).
  { intros e0 I0. apply M. right. exact I0. }
  (* an entry that stays put in the state the rest of the loop starts from is still there at the end *)
  assert (KEEP : forall sx sy1, wfc sx ->
            consume_entries sx rest (e_index ne) (e_term ne) sy1 = Done (s', i, t, sy, false) ->
            log_get sx (e_index ne) = Some ne -> log_get s' (e_index ne) = Some ne).
  { intros sx sy1 WX H1 G. destruct (consume_entries_trunc _ _ _ _ _ _ _ _ _ _ H1 WX) as [_ T].
    destruct (T _ _ G) as [L|(ne0 & me & I0 & _ & LE & _)]; [exact L|].
    specialize (GT ne0 I0). lia. }
  destruct (e_index ne <=? st_snapidx s) eqn:ES.
  { apply N.leb_le in ES. destruct I as [<-|I]; [lia|]. eapply IH; eauto. }
  apply N.leb_gt in ES.
  apply obind_inv in H. destruct H as (r0 & R & H).
  apply (skip_or_trunc_spec s ne term r0 W ES) in R.
  destruct r0 as [s1|].
  2:{ destruct R as (LE & me & G & T).
      destruct I as [<-|I]; [|eapply IH; eauto].
      assert (me = ne) by (apply M; auto; left; reflexivity). subst me.
      eapply KEEP; eauto. }
  destruct R as [KL R].
  apply obind_inv in H. destruct H as (s2 & A & H).
  destruct KL as [KL|KL]; [|exfalso; eapply KL; eauto].
  assert (PR : pre s (e_index ne) s1).
  { destruct R as [[R1 ->]|[R _]]; [|exact R].
    assert (e_index ne = st_lastidx s + 1) by lia. rewrite H0. apply pre_self. exact W. }
  destruct (after_append s (e_index ne) s1 ne s2 W ES KL PR A eq_refl) as (W2 & SN2 & LI2 & LOW & AT).
  assert (NEXT : forall sx sy1, LG sx = LG s2 ->
            consume_entries sx rest (e_index ne) (e_term ne) sy1 = Done (s', i, t, sy, false) ->
            log_get s' (e_index e) = Some e).
  { intros sx sy1 EX H1.
    pose proof (wfc_LG _ _ EX W2) as WX.
    destruct (LG_fields _ _ EX) as (_ & _ & LIX & SNX).
    destruct I as [<-|I].
    - eapply KEEP; eauto. rewrite (log_get_LG _ _ _ EX). exact AT.
    - eapply IH; eauto; [|congruence].
      intros e0 I0 _ LE0. specialize (GT e0 I0). lia. }
  destruct (e_typ ne =? entryConfig).
  - destruct (config_of_entry ne) as [c|]; [|inversion H].
    eapply NEXT; [|exact H]. apply LG_change_config.
  - eapply NEXT; [|exact H]. reflexivity.
Qed.

Theorem follower_holds_request_entries :
  forall s es index term sync s' i t sy,
    consume_entries s es index term sync = Done (s', i, t, sy, false) -> log_indexed s ->
    st_lastidx s = log_lastindex s -> st_snapidx s <= st_lastidx s -> st_logprev s <= st_snapidx s ->
    consecutive es ->
    (forall e, In e es -> st_snapidx s < e_index e -> e_index e <= st_lastidx s ->
        forall me, log_get s (e_index e) = Some me -> e_term me = e_term e -> me = e) ->
    forall e, In e es -> st_snapidx s < e_index e -> log_get s' (e_index e) = Some e.
Proof.
  intros s es index term sync s' i t sy H _ W1 W2 W3. eapply consume_entries_holds; eauto.
  unfold wfc; auto.
Qed.

(* ================================================================ C04: the leader's log is append-only *)
Ltac inv1w :=
  first [ inv1
        | match goal with
          | E : ?w = (_, _) |- _ => is_var w; subst w
          | E : (_, _) = (_, _) |- _ => inversion E; subst; clear E
          end ].

Definition LR (s s' : nstate) : Prop :=
  st_logprev s <= st_logprev s' /\
  (st_logprev s' = st_logprev s -> exists suffix, st_log s' = st_log s ++ suffix).
Definition lp (s : nstate) := (st_logprev s, st_log s).

Lemma LR_refl s : LR s s.
Proof. split; [lia|]. intros _. exists []. rewrite app_nil_r. reflexivity. Qed.
Lemma LR_trans a b c : LR a b -> LR b c -> LR a c.
Proof.
  intros [A1 A2] [B1 B2]. split; [lia|]. intros E.
  destruct A2 as [x Hx]; [lia|]. destruct B2 as [y Hy]; [lia|].
  exists (x ++ y). rewrite Hy, Hx, app_assoc. reflexivity.
Qed.
Lemma LR_lp a x y : lp y = lp x -> LR a x -> LR a y.
Proof. unfold lp, LR. intros H. inversion H as [[H1 H2]]. rewrite H1, H2. auto. Qed.

Lemma LR_set_role a x r : LR a x -> LR a (set_role x r). Proof. apply LR_lp; reflexivity. Qed.
Lemma LR_set_leader a x r : LR a x -> LR a (set_leader x r). Proof. apply LR_lp; reflexivity. Qed.
Lemma LR_set_commit a x r : LR a x -> LR a (set_commit x r). Proof. apply LR_lp; reflexivity. Qed.
Lemma LR_set_closed a x r : LR a x -> LR a (set_closed x r). Proof. apply LR_lp; reflexivity. Qed.
Lemma LR_set_timer a x r : LR a x -> LR a (set_timer x r). Proof. apply LR_lp; reflexivity. Qed.
Lemma LR_set_fsm a x i t : LR a x -> LR a (set_fsm x i t). Proof. apply LR_lp; reflexivity. Qed.
Lemma LR_set_term_vote a x i t : LR a x -> LR a (set_term_vote x i t). Proof. apply LR_lp; reflexivity. Qed.
Lemma LR_commit_log a x n : LR a x -> LR a (commit_log x n). Proof. apply LR_lp; reflexivity. Qed.
Lemma LR_put_ldr a x l : LR a x -> LR a (put_ldr x l). Proof. apply LR_lp; reflexivity. Qed.
Lemma LR_commit_config a x : LR a x -> LR a (commit_config x).
Proof. apply LR_lp. unfold commit_config. destruct (_ && _); reflexivity. Qed.
Lemma LR_change_config a x c : LR a x -> LR a (change_config x c).
Proof. apply LR_lp. unfold change_config. destruct (_ && _); reflexivity. Qed.
Lemma LR_upd_ldr a x f : LR a x -> LR a (upd_ldr x f).
Proof. apply LR_lp. unfold upd_ldr. destruct (st_ldr x); reflexivity. Qed.
Lemma LR_upd_repl a x id f : LR a x -> LR a (upd_repl x id f). Proof. apply LR_upd_ldr. Qed.
Lemma LR_begin_finished_rounds a x : LR a x -> LR a (begin_finished_rounds x). Proof. apply LR_upd_ldr. Qed.

Ltac lstep :=
  match goal with
  | |- LR ?a ?a => apply LR_refl
  | H : LR ?a ?b |- LR ?a ?b => exact H
  | |- LR _ (fst (_, _)) => cbn [fst]
  | |- LR _ (set_role _ _) => apply LR_set_role
  | |- LR _ (set_leader _ _) => apply LR_set_leader
  | |- LR _ (set_commit _ _) => apply LR_set_commit
  | |- LR _ (set_closed _ _) => apply LR_set_closed
  | |- LR _ (set_timer _ _) => apply LR_set_timer
  | |- LR _ (set_fsm _ _ _) => apply LR_set_fsm
  | |- LR _ (set_term_vote _ _ _) => apply LR_set_term_vote
  | |- LR _ (commit_config _) => apply LR_commit_config
  | |- LR _ (commit_log _ _) => apply LR_commit_log
  | |- LR _ (change_config _ _) => apply LR_change_config
  | |- LR _ (put_ldr _ _) => apply LR_put_ldr
  | |- LR _ (upd_repl _ _ _) => apply LR_upd_repl
  | |- LR _ (begin_finished_rounds _) => apply LR_begin_finished_rounds
  | |- LR _ (upd_ldr _ _) => apply LR_upd_ldr
  | |- LR _ (if ?b then _ else _) => destruct b
  | |- LR _ (match ?x with _ => _ end) => destruct x
  | H : LR ?b ?c |- LR ?a ?c => apply (LR_trans a b c); [|exact H]
  end.
Ltac lchain := cbn [fst snd] in *; repeat lstep.

Lemma LR_append_entry s e s' : append_entry s e = Done s' -> LR s s'.
Proof.
  unfold append_entry. intros H. repeat inv1. split; [cbn; lia|]. intros _. exists [e]. reflexivity.
Qed.
Lemma LR_set_term s t s' : set_term s t = Done s' -> LR s s'.
Proof. unfold set_term. intros H. repeat inv1; lchain. Qed.
Lemma LR_notify_flr s b s' : notify_flr s b = Done s' -> LR s s'.
Proof. unfold notify_flr. intros H. repeat inv1; lchain. Qed.
Lemma LR_add_replication s n s' : add_replication s n = Done s' -> LR s s'.
Proof. unfold add_replication. intros H. repeat inv1; lchain. Qed.
Lemma LR_apply_queue q : forall s out r, apply_queue s q out = Done r -> LR s (fst r).
Proof.
  induction q as [|ne r IH]; intros s out res H; cbn [apply_queue] in H.
  - inversion H; apply LR_refl.
  - destruct (negb _); [discriminate|]. apply IH in H. lchain.
Qed.
Lemma LR_leader_apply_committed s w : leader_apply_committed s = Done w -> LR s (fst w).
Proof.
  unfold leader_apply_committed. intros H.
  repeat (first [ match goal with H : apply_queue _ _ _ = Done _ |- _ => apply LR_apply_queue in H end | inv1w ]);
  lchain.
Qed.
Lemma LR_raft_set_commit_index sor s i : LR s (fst (raft_set_commit_index sor s i)).
Proof.
  unfold raft_set_commit_index. destruct (_ && _); cbn [fst]; [|lchain].
  destruct sor; lchain.
Qed.

Ltac use_lr :=
  match goal with
  | H : append_entry _ _ = Done _ |- _ => apply LR_append_entry in H
  | H : set_term _ _ = Done _ |- _ => apply LR_set_term in H
  | H : notify_flr _ _ = Done _ |- _ => apply LR_notify_flr in H
  | H : add_replication _ _ = Done _ |- _ => apply LR_add_replication in H
  | H : leader_apply_committed _ = Done _ |- _ => apply LR_leader_apply_committed in H
  end.

Definition core_LR (opt : options) (f : nat) : Prop :=
  (forall s nes w, store_entry opt f s nes = Done w -> LR s (fst w)) /\
  (forall s c w, leader_change_config opt f s c = Done w -> LR s (fst w)) /\
  (forall s tid c w, check_config_actions opt f s tid c = Done w -> LR s (fst w)) /\
  (forall s tid c id w, check_config_action opt f s tid c id = Done w -> LR s (fst w)) /\
  (forall s tid c w, do_change_config opt f s tid c = Done w -> LR s (fst w)) /\
  (forall s w, on_majority_commit opt f s = Done w -> LR s (fst w)) /\
  (forall s i w, leader_set_commit_index opt f s i = Done w -> LR s (fst w)).

Lemma core_lr opt f : core_LR opt f.
Proof.
  induction f as [|f IH].
  { unfold core_LR; repeat split; intros; discriminate. }
  destruct IH as (I1 & I2 & I3 & I4 & I5 & I6 & I7).
  unfold core_LR; split; [|split; [|split; [|split; [|split; [|split]]]]].
  - (* store_entry *)
    intros s nes w H. cbn [store_entry] in H. refold opt H.
    match type of H with wbind (?L s nes) _ = _ => set (loop := L) in H end.
    assert (HL : forall nes s w, loop s nes = Done w -> LR s (fst w)).
    { clear H. induction nes0 as [|ne rest IHl]; intros s0 w0 H; cbn in H.
      - inversion H; apply LR_refl.
      - fold loop in H.
        repeat (first [ use_lr
                      | match goal with
                        | H : loop _ _ = Done _ |- _ => apply IHl in H
                        | H : leader_change_config opt f _ _ = Done _ |- _ => apply I2 in H
                        end
                      | inv1w ]); lchain. }
    repeat (first [ use_lr
                  | match goal with
                    | H : loop _ _ = Done _ |- _ => apply HL in H
                    | H : on_majority_commit opt f _ = Done _ |- _ => apply I6 in H
                    end
                  | inv1w ]); lchain.
  - (* leader_change_config *)
    intros s c w H. cbn [leader_change_config] in H. refold opt H.
    apply obind_inv in H. destruct H as (l & Hl & H).
    apply obind_inv in H. destruct H as (s3 & H3 & H).
    apply I3 in H.
    match type of H3 with fold_left ?F _ (Done ?S2) = _ =>
      assert (HF : forall x, fold_left F (c_nodes c) (Done S2) = Done x -> LR S2 x) end.
    { apply fold_left_inv.
      - intros x Hx; inversion Hx; apply LR_refl.
      - intros acc n Hacc x Hx.
        repeat (first [use_lr | inv1w]); try subst acc; try (specialize (Hacc _ eq_refl)); lchain. }
    apply HF in H3. lchain.
  - (* check_config_actions *)
    intros s tid c w H. cbn [check_config_actions] in H. refold opt H.
    apply obind_inv in H. destruct H as (l & Hl & H).
    apply obind_inv in H. destruct H as (r & Hr & H).
    destruct r as [[s1 out1] c1].
    assert (H1 : LR s s1).
    { repeat (first [ match goal with H : do_change_config opt f _ _ _ = Done _ |- _ => apply I5 in H end | inv1w ]);
        lchain. }
    clear Hr. apply obind_inv in H. destruct H as (l1 & Hl1 & H).
    revert w H. apply fold_left_inv.
    + intros w Hw; inversion Hw; subst. exact H1.
    + intros acc id Hacc w Hw.
      repeat (first [ match goal with H : check_config_action opt f _ _ _ _ = Done _ |- _ => apply I4 in H end | inv1w ]);
        try subst acc; try (specialize (Hacc _ eq_refl)); lchain.
  - (* check_config_action *)
    intros s tid c id w H. cbn [check_config_action] in H. refold opt H.
    repeat (first [ match goal with H : do_change_config opt f _ _ _ = Done _ |- _ => apply I5 in H end | inv1w ]);
      lchain.
  - (* do_change_config *)
    intros s tid c w H. cbn [do_change_config] in H. refold opt H. apply I1 in H. exact H.
  - (* on_majority_commit *)
    intros s w H. cbn [on_majority_commit] in H. refold opt H.
    repeat (first [ use_lr | match goal with H : leader_set_commit_index opt f _ _ = Done _ |- _ => apply I7 in H end | inv1w ]);
      lchain.
  - (* leader_set_commit_index *)
    intros s i w H. cbn [leader_set_commit_index] in H. refold opt H.
    pose proof (LR_raft_set_commit_index (o_shutdown_on_remove opt) (commit_log s i) i) as RS.
    destruct (raft_set_commit_index _ _ _) as [s2 committed]. cbn [fst] in RS.
    assert (RS' : LR s s2) by (eapply LR_trans; [|exact RS]; lchain).
    repeat (first [ use_lr | match goal with H : check_config_actions opt f _ _ _ = Done _ |- _ => apply I3 in H end | inv1w ]);
      lchain.
Qed.

Lemma LR_store_entry opt f s nes w : store_entry opt f s nes = Done w -> LR s (fst w).
Proof. apply (core_lr opt f). Qed.
Lemma LR_check_config_actions opt f s tid c w : check_config_actions opt f s tid c = Done w -> LR s (fst w).
Proof. apply (core_lr opt f). Qed.
Lemma LR_check_config_action opt f s tid c id w : check_config_action opt f s tid c id = Done w -> LR s (fst w).
Proof. apply (core_lr opt f). Qed.
Lemma LR_do_change_config opt f s tid c w : do_change_config opt f s tid c = Done w -> LR s (fst w).
Proof. apply (core_lr opt f). Qed.
Lemma LR_on_majority_commit opt f s w : on_majority_commit opt f s = Done w -> LR s (fst w).
Proof. apply (core_lr opt f). Qed.

Lemma LR_check_quorum opt s b s' : check_quorum opt s b = Done s' -> LR s s'.
Proof.
  unfold check_quorum. intros H.
  apply obind_inv in H. destruct H as (l & _ & H).
  apply obind_inv in H. destruct H as (r & _ & H).
  destruct r as [voters reachable].
  repeat inv1w; lchain.
Qed.

Lemma LR_try_transfer opt s w : try_transfer opt s = Done w -> LR s (fst w).
Proof.
  unfold try_transfer. intros H.
  apply obind_inv in H. destruct H as (l & Hl & H).
  apply obind_inv in H. destruct H as (r & _ & H).
  repeat inv1w; lchain.
Qed.

Lemma LR_transfer_reply s r w : transfer_reply s r = Done w -> LR s (fst w).
Proof. unfold transfer_reply. intros H. repeat inv1w; lchain. Qed.

Lemma LR_check_log_compact opt s s' : check_log_compact opt s = Done s' -> LR s s'.
Proof.
  unfold check_log_compact. intros H.
  apply obind_inv in H. destruct H as (l & _ & H).
  destruct (forallb _ _); [|inversion H; apply LR_refl].
  destruct (_ && _) eqn:E; [|discriminate].
  apply andb_true_iff in E. destruct E as [E1 E2]. apply N.leb_le in E1.
  inversion H; subst. unfold LR. cbn. split; [exact E1|].
  intros ->. rewrite N.sub_diag. cbn. exists []. rewrite app_nil_r. reflexivity.
Qed.

Ltac use_lc :=
  match goal with
  | H : store_entry _ _ _ _ = Done _ |- _ => apply LR_store_entry in H
  | H : check_config_actions _ _ _ _ _ = Done _ |- _ => apply LR_check_config_actions in H
  | H : check_config_action _ _ _ _ _ _ = Done _ |- _ => apply LR_check_config_action in H
  | H : do_change_config _ _ _ _ _ = Done _ |- _ => apply LR_do_change_config in H
  | H : on_majority_commit _ _ _ = Done _ |- _ => apply LR_on_majority_commit in H
  | H : try_transfer _ _ = Done _ |- _ => apply LR_try_transfer in H
  | H : transfer_reply _ _ = Done _ |- _ => apply LR_transfer_reply in H
  | H : check_quorum _ _ _ = Done _ |- _ => apply LR_check_quorum in H
  | H : check_log_compact _ _ = Done _ |- _ => apply LR_check_log_compact in H
  end.
Ltac lgo := repeat (first [use_lr | use_lc | inv1w]).

Lemma LR_reply_transfer opt s r w : reply_transfer opt s r = Done w -> LR s (fst w).
Proof. unfold reply_transfer. intros H. lgo; lchain. Qed.
Lemma LR_on_transfer opt s tid tg w : on_transfer opt s tid tg = Done w -> LR s (fst w).
Proof. unfold on_transfer. intros H. lgo; lchain. Qed.
Lemma LR_on_timeout_now_result opt s from err res w :
  on_timeout_now_result opt s from err res = Done w -> LR s (fst w).
Proof.
  unfold on_timeout_now_result. intros H.
  repeat (first [ match goal with H : reply_transfer _ _ _ = Done _ |- _ => apply LR_reply_transfer in H end
                | use_lr | use_lc | inv1w ]);
  lchain.
Qed.
Lemma LR_on_change_config opt s tid c w : on_change_config opt s tid c = Done w -> LR s (fst w).
Proof. unfold on_change_config. intros H. lgo; lchain. Qed.
Lemma LR_on_wait_stable s tid w : on_wait_stable s tid = Done w -> LR s (fst w).
Proof. unfold on_wait_stable. intros H. lgo; lchain. Qed.
Lemma LR_check_repl_update opt s id u w : check_repl_update opt s id u = Done w -> LR s (fst w).
Proof. unfold check_repl_update. intros H. lgo; lchain. Qed.
Lemma LR_flr_update s id w : flr_update s id = Done w -> LR s (fst w).
Proof. unfold flr_update. intros H. lgo; lchain. Qed.
Lemma LR_flr_send s id b w : flr_send s id b = Done w -> LR s (fst w).
Proof.
  unfold flr_send. intros H.
  apply obind_inv in H. destruct H as (l & _ & H).
  destruct (find_repl _ _); [|discriminate].
  destruct (_ =? nil_view); [discriminate|].
  apply obind_inv in H. destruct H as (p & _ & H).
  repeat inv1w; lchain.
Qed.
Lemma LR_flr_resp s id a b c d w : flr_resp s id a b c d = Done w -> LR s (fst w).
Proof. unfold flr_resp. intros H. lgo; lchain. Qed.
Lemma LR_flr_snap_installed s id i w : flr_snap_installed s id i = Done w -> LR s (fst w).
Proof. unfold flr_snap_installed. intros H. lgo; lchain. Qed.

Lemma LR_leader_event_out opt s e w : leader_event_out opt s e = Done w -> LR s (fst w).
Proof.
  destruct e; cbn [leader_event_out]; intros H.
  - apply LR_store_entry in H. exact H.
  - apply LR_check_repl_update in H. exact H.
  - apply LR_on_change_config in H. exact H.
  - apply LR_on_wait_stable in H. exact H.
  - apply LR_on_transfer in H. exact H.
  - apply LR_on_timeout_now_result in H. exact H.
  - apply LR_reply_transfer in H. exact H.
  - apply LR_try_transfer in H. lchain.
  - apply LR_flr_update in H. exact H.
  - apply LR_flr_send in H. exact H.
  - apply LR_flr_resp in H. exact H.
  - apply LR_flr_snap_installed in H. exact H.
Qed.

Theorem leader_log_append_only :
  forall opt s e s', leader_event opt s e = Done s' -> st_logprev s' = st_logprev s ->
    exists suffix, st_log s' = st_log s ++ suffix.
Proof.
  intros opt s e s' H E. unfold leader_event in H.
  apply obind_inv in H. destruct H as (w & H & X). inversion X; subst s'. clear X.
  apply LR_leader_event_out in H. destruct H as [_ H]. apply H. exact E.
Qed.
