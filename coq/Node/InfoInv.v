(* C19: a node's observable state is ordered and never regresses.  Assembly of
   InfoInvDefs (definitions), InfoInvPrims, InfoInvFollower, InfoInvLeader, InfoInvLeader2, InfoInvStep.
   The statements are those of Props/C19.v. *)
From Coq Require Import List NArith ZArith Bool Lia ZifyN ZifyNat ZifyBool.
From RecordUpdate Require Import RecordUpdate.
From Verif Require Import Base.Bytes Codec.Messages Node.Types Node.Handlers Node.Leader Node.Snap Node.Step Node.Run
  Node.InfoInvDefs Node.InfoInvPrims Node.InfoInvFollower Node.InfoInvLeader Node.InfoInvLeader2 Node.InfoInvStep.
Import ListNotations.
Open Scope N_scope.

(* the definitions Props/C19.v refers to (bodies in InfoInvDefs.v) *)
Definition newest_config : nstate -> config := InfoInvDefs.newest_config.
Definition env_ok : nstate -> nevent -> Prop := InfoInvDefs.env_ok.
Definition node_inv : nstate -> Prop := InfoInvDefs.node_inv.
Definition nrun_ok : nstate -> list (options * nevent * nobs) -> nstate -> Prop := InfoInvDefs.nrun_ok.
Definition info_ordered : nstate -> Prop := InfoInvDefs.info_ordered.

Theorem inv_initial : forall cid nid, node_inv (fresh_node cid nid).
Proof.
  intros cid nid. split; [|split].
  - constructor; cbn; try lia; [apply idx_from_nil|reflexivity|left; reflexivity|left; reflexivity].
  - exact I.
  - intros X. exfalso. apply X. reflexivity.
Qed.

Theorem inv_step :
  forall opt s ev o s', node_inv s -> env_ok s ev -> model_event opt s ev = Done (o, s') -> node_inv s'.
Proof. intros opt s ev o s' NI EN H. exact (proj1 (step_ok _ _ _ _ _ NI EN H)). Qed.

Theorem inv_ordered : forall s, node_inv s -> info_ordered s /\ st_latest s = newest_config s.
Proof. intros s (C & _). split; [apply core_ordered; exact C|apply (c_latest _ C)]. Qed.

Lemma inv_run : forall s tr s', nrun_ok s tr s' -> node_inv s -> node_inv s'.
Proof.
  intros s tr s' R. induction R as [s|s opt ev o s1 tr s2 EN H R IH]; intros NI; [exact NI|].
  apply IH. eapply inv_step; eassumption.
Qed.

Theorem info_ordered_always :
  forall cid nid tr s, nrun_ok (fresh_node cid nid) tr s -> info_ordered s /\ st_latest s = newest_config s.
Proof. intros cid nid tr s R. apply inv_ordered. eapply inv_run; [exact R|apply inv_initial]. Qed.

Theorem info_monotone :
  forall opt s ev o s', node_inv s -> env_ok s ev -> (forall k, ev <> ERestart k) ->
    model_event opt s ev = Done (o, s') ->
    st_term s <= st_term s' /\ st_commit s <= st_commit s' /\ st_fsmidx s <= st_fsmidx s' /\ st_snapidx s <= st_snapidx s'.
Proof. intros opt s ev o s' NI EN NR H. exact (proj2 (step_ok _ _ _ _ _ NI EN H) NR). Qed.

(* ---------------------------------------------------------------- non-vacuity *)
(* a node bootstraps a one-node configuration (index 1, term 1), becomes candidate in term 2, then accepts
   entry 2 (committed by the same request) and entry 3 from a leader of term 2 *)
Definition ex_nodes : list node := [mkNode 1 [49] true [] 0].
Definition ex_cfg : config := mkConfig ex_nodes 1 1.
Definition ex_log : list entry :=
  [mkEntry 1 1 entryConfig (enc_config_data ex_nodes); mkEntry 2 2 entryNop []; mkEntry 3 2 entryNop []].
Definition ex_state : nstate :=
  mkNode_ 7 1 2 1 0 ex_log 3 3 2 0 0 empty_config ex_cfg ex_cfg
          Follower 2 2 true false None false 2 2 false 1%Z false None.

Lemma ex_cfgs : cfgs ex_state = [ex_cfg].
Proof. vm_compute. reflexivity. Qed.

Example inv_example : exists s, node_inv s /\ st_commit s = 2 /\ st_lastidx s = 3.
Proof.
  exists ex_state. split; [|split; reflexivity].
  split; [|split].
  - constructor.
    + intros k e Hk.
      destruct k as [|[|[|k]]]; cbn in Hk; [injection Hk as <-; reflexivity..|destruct k; discriminate Hk].
    + reflexivity.
    + cbn. lia.
    + cbn. lia.
    + cbn. lia.
    + cbn. lia.
    + cbn. lia.
    + unfold InfoInvDefs.newest_config. rewrite ex_cfgs. reflexivity.
    + left; reflexivity.
    + left; reflexivity.
    + exact I.
  - exact I.
  - intros X. exfalso. apply X. reflexivity.
Qed.

(* that state is the end of a history in which the environment behaves *)
Definition ex_opt : options := mkOptions false false false 0 0 [].
Definition ex_ev1 : nevent := ETask (TChangeConfig 9 (mkConfig ex_nodes 0 0)).
Definition ex_ev2 : nevent := EAppendReq (mkAppendReq 2 2 1 1 2 [mkEntry 2 2 entryNop []]).
Definition ex_ev3 : nevent := EAppendReq (mkAppendReq 2 2 2 2 2 [mkEntry 3 2 entryNop []]).
Definition ex_res (s : nstate) (ev : nevent) : nobs * nstate :=
  match model_event ex_opt s ev with Done r => r | Err _ => (no_obs, s) end.
Definition ex_r1 : nobs * nstate := Eval vm_compute in ex_res (fresh_node 7 1) ex_ev1.
Definition ex_r2 : nobs * nstate := Eval vm_compute in ex_res (snd ex_r1) ex_ev2.
Definition ex_r3 : nobs * nstate := Eval vm_compute in ex_res (snd ex_r2) ex_ev3.

Example run_example :
  exists tr s, nrun_ok (fresh_node 7 1) tr s /\ st_commit s = 2 /\ st_lastidx s = 3.
Proof.
  exists [(ex_opt, ex_ev1, fst ex_r1); (ex_opt, ex_ev2, fst ex_r2); (ex_opt, ex_ev3, fst ex_r3)], ex_state.
  split; [|split; reflexivity].
  apply (runok_cons _ _ _ _ (snd ex_r1)); [vm_compute; reflexivity|vm_compute; reflexivity|].
  apply (runok_cons _ _ _ _ (snd ex_r2)).
  { split; [cbn; auto|]. intros e [<-|[]] _ me X. vm_compute in X. discriminate X. }
  { vm_compute. reflexivity. }
  apply (runok_cons _ _ _ _ (snd ex_r3)).
  { split; [cbn; auto|]. intros e [<-|[]] X. vm_compute in X. exfalso. apply X. reflexivity. }
  { vm_compute. reflexivity. }
  apply runok_nil.
Qed.
